/-
C05, generator frames (core Lean only).

The other side of `Body.lean`: the same generator bodies compiled to bytecode (`compileBody`, after
compile/compile.go) and run on a transliteration of `vm.RunFrame` (vm/eval.go) for the instruction
subset these bodies need.  The split of the Go code is kept:

* `Frame` = what lives in `*py.Frame` and therefore SURVIVES a suspension: `Lasti` (as an instruction
  index), the value stack (the `range` iterator of a `for` loop lives there: the "loop position"),
  the block stack (pending SETUP_LOOP / SETUP_FINALLY / SETUP_EXCEPT / EXCEPT_HANDLER blocks), the
  fast locals, the saved handled exception `frame.Exc`; plus the log `LG` as the outside world.
* `Vm` = `Frame` + the fields of the Go `Vm` struct that are RE-CREATED at every `RunFrame` entry:
  `why`, `retval`, `curexc`, `exc` (`exc` initialised from `frame.Exc`, written back at `fast_yield`).

`frameRun code fuel ent fr` is one call of `RunFrame`; `GenObj.resume (frameRun code fuel)` is the
generator object of `Model.lean` over this frame.  The reference is `GenObj.resume coRun` over `coInit b`.
-/
import GPy.C05.Body
namespace GPy.C05

/-! ## values -/

/-- exception classes on the value stack: StopIteration or one of `Exc` -/
inductive ECls | stop | exc (e : Exc)
deriving DecidableEq, Repr, Inhabited

/-- `exception.Type()` -/
def NextErr.cls : NextErr → ECls
  | .other e => .exc e
  | _ => .stop

/-- `py.MakeException(cls)`: instantiating a class without arguments -/
def ECls.inst : ECls → NextErr
  | .exc e => .other e
  | .stop => .stopInfoClass

/-- `py.ExceptionGivenMatches(a, b)` for classes -/
def ECls.sub : ECls → ECls → Bool
  | .exc a, .exc b => a.sub b
  | .stop, .stop => true
  | _, _ => false

/-- the objects that can occur on the value stack / in the locals of a compiled body -/
inductive SV
  | nil                          -- Go nil (`vm.exc.Value` when no exception is being handled)
  | v (x : Val)                  -- None, ints (also the `py.Int(vm.why)` codes), sent values
  | bool (b : Bool)
  | rangeFn                      -- the builtin `range`
  | range (n : Nat)              -- `range(n)`
  | iter (pos stop : Nat)        -- `py.RangeIterator`: next index, stop
  | appendM                      -- the bound method `LG.append`
  | cls (c : ECls)               -- exception class
  | exc (e : NextErr)            -- exception instance (the error value a caller of RunFrame would see)
  | tb                           -- traceback slot (content not modelled)
deriving DecidableEq, Repr, Inhabited

/-- py/frame.go `TryBlockType` -/
inductive BKind | loop | except | finally | handler
deriving DecidableEq, Repr, Inhabited

/-- py/frame.go `TryBlock`; `handler` is an instruction index (the Go `-1` of EXCEPT_HANDLER blocks
is written 0, it is never read) -/
structure Block where
  kind : BKind
  handler : Nat
  level : Nat
deriving DecidableEq, Repr, Inhabited

/-- vm/vm.go `vmStatus` -/
inductive Why | not | exception | ret | brk | cont | yield | silenced
deriving DecidableEq, Repr, Inhabited

def Why.code : Why → Int
  | .not => 0 | .exception => 1 | .ret => 2 | .brk => 3 | .cont => 4 | .yield => 5 | .silenced => 6

def Why.ofCode (n : Int) : Option Why :=
  if n = 0 then some .not else if n = 1 then some .exception else if n = 2 then some .ret
  else if n = 3 then some .brk else if n = 4 then some .cont else if n = 5 then some .yield
  else if n = 6 then some .silenced else none

/-- py.ExceptionInfo (traceback not modelled) -/
structure ExcInfo where
  type : Option ECls := none
  value : SV := .nil
deriving DecidableEq, Repr, Inhabited

def ExcInfo.isSet (e : ExcInfo) : Bool := e.type.isSome

/-- `if t == nil { PUSH(None) } else { PUSH(t) }` -/
def typeVal : Option ECls → SV
  | some c => .cls c
  | none => .v .none

def SV.asType : SV → Option ECls
  | .cls c => some c
  | _ => none

/-- `py.ObjectIsTrue` on the values POP_JUMP_IF_FALSE sees here -/
def SV.truthy : SV → Bool
  | .bool b => b
  | .v .none => false
  | .v (.int i) => i != 0
  | .nil => false
  | _ => true

/-! ## frame and vm -/

/-- `*py.Frame`: everything that survives a suspension.  Fast locals are numbered: 0 = `x`,
`d+1` = the loop variable `i{d}`. -/
structure Frame where
  /-- `Lasti` as an instruction index -/
  pc : Nat
  /-- `Stack`, head = top -/
  stack : List SV
  /-- `Blockstack`, head = `Block` -/
  blocks : List Block
  /-- `Fastlocals` (unbound = absent) -/
  locals : List (Nat × SV)
  /-- `Exc`: the exception being handled when the frame last left `RunFrame` -/
  exc : ExcInfo
  /-- the list `LG` the body appends to (outside world) -/
  log : List Val
deriving DecidableEq, Repr, Inhabited

/-- a new frame (`py.NewFrame`) -/
def frameInit : Frame := { pc := 0, stack := [], blocks := [], locals := [], exc := {}, log := [] }

/-- the Go `Vm` struct during one `RunFrame`: the frame plus the per-call fields -/
structure Vm where
  fr : Frame
  why : Why
  /-- `none` = Go nil -/
  retval : Option SV
  curexc : ExcInfo
  exc : ExcInfo
deriving DecidableEq, Repr, Inhabited

def getLocal : List (Nat × SV) → Nat → Option SV
  | [], _ => none
  | (j, v) :: r, k => if j = k then some v else getLocal r k

def setLocal : List (Nat × SV) → Nat → SV → List (Nat × SV)
  | [], k, v => [(k, v)]
  | (j, w) :: r, k, v => if j = k then (j, v) :: r else (j, w) :: setLocal r k v

@[simp] theorem getLocal_setLocal (l : List (Nat × SV)) (k : Nat) (v : SV) : getLocal (setLocal l k v) k = some v := by
  induction l with
  | nil => simp [setLocal, getLocal]
  | cons p r ih =>
    obtain ⟨j, w⟩ := p
    by_cases h : j = k <;> simp [setLocal, getLocal, h, ih]

/-- `UnwindBlock`: `if STACK_LEVEL() > block.Level { Stack = Stack[:block.Level] }` -/
def unwindBlock (level : Nat) (st : List SV) : List SV :=
  if st.length > level then st.drop (st.length - level) else st

/-- `UnwindExceptHandler`: cut the stack to `Level+3`, pop type, value, traceback into `vm.exc`;
`none` = the Go panic "Couldn't find traceback on stack" -/
def unwindExceptHandler (level : Nat) (st : List SV) : Option (List SV × ExcInfo) :=
  if st.length < level + 3 then none
  else match st.drop (st.length - (level + 3)) with
    | t :: v :: _ :: rest => some (rest, { type := t.asType, value := v })
    | _ => none

inductive U1
  | resume (vm : Vm)      -- `break` out of the unwinding loop with why = whyNot
  | again (vm : Vm)       -- next iteration of the unwinding loop
  | panic (msg : String)

/-- one iteration of `for vm.why != whyNot && frame.Block != nil { ... }` with `b = frame.Block` -/
def unwind1 (vm : Vm) (b : Block) (bs : List Block) : U1 :=
  if b.kind == .loop && vm.why == .cont then
    match vm.retval with
    | some (.v (.int d)) => .resume { vm with why := .not, fr.pc := d.toNat }
    | _ => .panic "interface conversion: retval is not py.Int"
  else if b.kind == .handler then
    match unwindExceptHandler b.level vm.fr.stack with
    | none => .panic "vm: Couldn't find traceback on stack"
    | some (st, e) => .again { vm with fr.blocks := bs, fr.stack := st, exc := e }
  else
    let st := unwindBlock b.level vm.fr.stack
    if b.kind == .loop && vm.why == .brk then
      .resume { vm with fr.blocks := bs, fr.stack := st, why := .not, fr.pc := b.handler }
    else if vm.why == .exception && (b.kind == .except || b.kind == .finally) then
      .resume { vm with
        fr.blocks := ⟨.handler, 0, st.length⟩ :: bs
        fr.stack := typeVal vm.curexc.type :: vm.curexc.value :: .tb ::
                    typeVal vm.exc.type :: vm.exc.value :: .tb :: st
        exc := vm.curexc, curexc := {}, why := .not, fr.pc := b.handler }
    else if b.kind == .finally then
      let st1 := if vm.why == .ret || vm.why == .cont then (vm.retval.getD .nil) :: st else st
      .resume { vm with fr.blocks := bs, fr.stack := .v (.int vm.why.code) :: st1, why := .not, fr.pc := b.handler }
    else .again { vm with fr.blocks := bs, fr.stack := st }

/-! ## instructions -/

inductive Instr
  | loadConst (v : Val)
  | loadFast (i : Nat) | storeFast (i : Nat)
  /-- `LOAD_GLOBAL range` -/
  | loadRange
  /-- `LOAD_GLOBAL <exception class>` -/
  | loadExc (e : Exc)
  /-- pseudo-instruction for the pair `LOAD_FAST LG; LOAD_ATTR append`: pushes the bound method -/
  | loadAppend
  | callFunction (n : Nat)
  | popTop | dupTop
  | popJumpIfFalse (t : Nat) | jumpForward (t : Nat) | jumpAbsolute (t : Nat)
  | setupLoop (t : Nat) | setupExcept (t : Nat) | setupFinally (t : Nat)
  | popBlock | popExcept | endFinally
  | breakLoop | continueLoop (t : Nat)
  | getIter | forIter (t : Nat)
  | compareExcMatch
  | raiseVarargs (n : Nat)
  | yieldValue | returnValue
deriving DecidableEq, Repr, Inhabited

abbrev Code := List Instr

inductive XRes
  | ok (vm : Vm)
  | panic (msg : String)     -- a Go panic / a stack shape compiled bodies never produce

/-- an opcode function returned `err`: `vm.SetException(py.MakeException(err))` -/
def Vm.setException (vm : Vm) (e : NextErr) : Vm :=
  { vm with curexc := { type := some e.cls, value := .exc e }, why := .exception }

def Vm.push (vm : Vm) (x : SV) : Vm := { vm with fr.stack := x :: vm.fr.stack }

def Vm.pushBlock (vm : Vm) (k : BKind) (h : Nat) : Vm :=
  { vm with fr.blocks := ⟨k, h, vm.fr.stack.length⟩ :: vm.fr.blocks }

/-- `jumpTable[opcode](&vm, arg)` followed by the `if err != nil` of RunFrame; `Lasti` has already
been advanced.  Jump targets are absolute instruction indices. -/
def exec (i : Instr) (vm : Vm) : XRes :=
  match i with
  | .loadConst v => .ok (vm.push (.v v))
  | .loadFast k =>
    match getLocal vm.fr.locals k with
    | some x => .ok (vm.push x)
    | none => .panic "UnboundLocalError (not produced by compiled bodies)"
  | .storeFast k =>
    match vm.fr.stack with
    | x :: rest => .ok { vm with fr.stack := rest, fr.locals := setLocal vm.fr.locals k x }
    | [] => .panic "stack underflow"
  | .loadRange => .ok (vm.push .rangeFn)
  | .loadExc e => .ok (vm.push (.cls (.exc e)))
  | .loadAppend => .ok (vm.push .appendM)
  | .callFunction n =>
    if n = 1 then
      match vm.fr.stack with
      | .v x :: .appendM :: rest => .ok { vm with fr.stack := .v .none :: rest, fr.log := vm.fr.log ++ [x] }
      | .v (.int k) :: .rangeFn :: rest => .ok { vm with fr.stack := .range k.toNat :: rest }
      | _ => .panic "CALL_FUNCTION operands"
    else .panic "CALL_FUNCTION argc"
  | .popTop =>
    match vm.fr.stack with
    | _ :: rest => .ok { vm with fr.stack := rest }
    | [] => .panic "stack underflow"
  | .dupTop =>
    match vm.fr.stack with
    | x :: rest => .ok { vm with fr.stack := x :: x :: rest }
    | [] => .panic "stack underflow"
  | .popJumpIfFalse t =>
    match vm.fr.stack with
    | x :: rest => .ok (if x.truthy then { vm with fr.stack := rest } else { vm with fr.stack := rest, fr.pc := t })
    | [] => .panic "stack underflow"
  | .jumpForward t => .ok { vm with fr.pc := t }
  | .jumpAbsolute t => .ok { vm with fr.pc := t }
  | .setupLoop t => .ok (vm.pushBlock .loop t)
  | .setupExcept t => .ok (vm.pushBlock .except t)
  | .setupFinally t => .ok (vm.pushBlock .finally t)
  | .popBlock =>
    match vm.fr.blocks with
    | _ :: bs => .ok { vm with fr.blocks := bs }
    | [] => .panic "PopBlock on an empty block stack"
  | .popExcept =>
    match vm.fr.blocks with
    | b :: bs =>
      if b.kind != .handler then .panic "SystemError: popped block is not an except handler"
      else match unwindExceptHandler b.level vm.fr.stack with
        | some (st, e) => .ok { vm with fr.blocks := bs, fr.stack := st, exc := e }
        | none => .panic "vm: Couldn't find traceback on stack"
    | [] => .panic "nil block"
  | .endFinally =>
    match vm.fr.stack with
    | [] => .panic "stack underflow"
    | .v .none :: rest => .ok { vm with fr.stack := rest }
    | .v (.int n) :: rest =>
      match Why.ofCode n with
      | none => .panic "END_FINALLY: unknown why code"
      | some .yield => .panic "vm: Unexpected whyYield in END_FINALLY"
      | some .exception => .panic "vm: Unexpected whyException in END_FINALLY"
      | some .ret =>
        (match rest with
         | rv :: rest' => .ok { vm with fr.stack := rest', why := .ret, retval := some rv }
         | [] => .panic "stack underflow")
      | some .cont =>
        (match rest with
         | rv :: rest' => .ok { vm with fr.stack := rest', why := .cont, retval := some rv }
         | [] => .panic "stack underflow")
      | some .silenced =>
        (match vm.fr.blocks with
         | b :: bs =>
           if b.kind != .handler then .panic "vm: Expecting EXCEPT_HANDLER in END_FINALLY"
           else match unwindExceptHandler b.level rest with
             | some (st, e) => .ok { vm with fr.blocks := bs, fr.stack := st, exc := e, why := .not }
             | none => .panic "vm: Couldn't find traceback on stack"
         | [] => .panic "nil block")
      | some w => .ok { vm with fr.stack := rest, why := w }
    | .cls c :: rest =>
      (match rest with
       | w :: _ :: rest' => .ok { vm with fr.stack := rest', curexc := { type := some c, value := w }, why := .exception }
       | _ => .panic "stack underflow")
    | _ :: _ => .panic "SystemError: 'finally' pops bad exception"
  | .breakLoop => .ok { vm with why := .brk }
  | .continueLoop t => .ok { vm with retval := some (.v (.int t)), why := .cont }
  | .getIter =>
    match vm.fr.stack with
    | .range n :: rest => .ok { vm with fr.stack := .iter 0 n :: rest }
    | _ => .panic "GET_ITER operand"
  | .forIter t =>
    -- `py.Next(TOP)`: the iterator object on the stack is advanced in place
    match vm.fr.stack with
    | .iter pos stop :: rest =>
      if pos < stop then .ok { vm with fr.stack := .v (.int pos) :: .iter (pos + 1) stop :: rest }
      else .ok { vm with fr.stack := rest, fr.pc := t }
    | _ => .panic "FOR_ITER operand"
  | .compareExcMatch =>
    match vm.fr.stack with
    | .cls b :: .cls a :: rest => .ok { vm with fr.stack := .bool (a.sub b) :: rest }
    | _ => .panic "EXC_MATCH operands"
  | .raiseVarargs n =>
    if n = 1 then
      match vm.fr.stack with
      | .cls c :: rest => .ok ({ vm with fr.stack := rest }.setException c.inst)
      | .exc e :: rest => .ok ({ vm with fr.stack := rest }.setException e)
      | _ :: rest => .ok ({ vm with fr.stack := rest }.setException (.other .type))  -- "exceptions must derive from BaseException"
      | [] => .panic "stack underflow"
    else .panic "RAISE_VARARGS argc (only `raise E` is compiled)"
  | .yieldValue =>
    -- do_YIELD_VALUE: retval = POP(); frame.Yielded = true; why = whyYield
    match vm.fr.stack with
    | x :: rest => .ok { vm with fr.stack := rest, retval := some x, why := .yield }
    | [] => .panic "stack underflow"
  | .returnValue =>
    match vm.fr.stack with
    | x :: rest => .ok { vm with fr.stack := rest, retval := some x, why := .ret }
    | [] => .panic "stack underflow"

/-! ## RunFrame -/

inductive VStep
  | next (vm : Vm)
  | done (vm : Vm)           -- leave the main loop (`goto fast_yield` or the loop condition fails)
  | panic (msg : String)

/-- One transition of `RunFrame`: dispatch an instruction (why = whyNot); `goto fast_yield`
(why = whyYield); one iteration of the unwinding loop (another reason and a block is left);
or leave the loop (block stack exhausted). -/
def step (code : Code) (vm : Vm) : VStep :=
  match vm.why with
  | .not =>
    match code[vm.fr.pc]? with
    | none => .panic "index out of range: Lasti past the code"
    | some i =>
      match exec i { vm with fr.pc := vm.fr.pc + 1 } with
      | .ok vm' => .next vm'
      | .panic m => .panic m
  | .yield => .done vm
  | _ =>
    match vm.fr.blocks with
    | [] => .done vm
    | b :: bs =>
      match unwind1 vm b bs with
      | .resume vm' => .next vm'
      | .again vm' => .next vm'
      | .panic m => .panic m

/-- the main loop with fuel; `none` = out of fuel -/
def runLoop (code : Code) : Nat → Vm → Option (Except String Vm)
  | 0, _ => none
  | f + 1, vm =>
    match step code vm with
    | .next vm' => runLoop code f vm'
    | .done vm' => some (.ok vm')
    | .panic m => some (.error m)

/-- `var vm = Vm{frame: frame}; vm.exc = frame.Exc` -/
def Vm.enter (fr : Frame) : Vm := { fr := fr, why := .not, retval := none, curexc := {}, exc := fr.exc }

/-- the epilogue of `RunFrame`: `fast_yield: frame.Exc = vm.exc`, and the result -/
def frameExit (vm : Vm) : Except String (RunOut × Frame) :=
  let fr' : Frame := { vm.fr with exc := vm.exc }
  if vm.why == .yield then
    match vm.retval with
    | some (.v x) => .ok (.yield x, fr')
    | _ => .error "yielded object outside Val"
  else
    let rv := if vm.why != .ret then none else vm.retval
    match rv, vm.curexc.isSet with
    | none, false => .error "vm: no result or exception"
    | some _, true => .error "vm: result and exception"
    | none, true =>
      (match vm.curexc.value with
       | .exc e => .ok (.raise e, fr')
       | _ => .error "exception value is not an exception instance")
    | some (.v x), false => .ok (.ret x, fr')
    | some _, false => .error "returned object outside Val"

/-- the `Vm` at the top of the main loop of `RunFrame`.  `.send v`: `Generator.resume` has appended
`v` to `frame.Stack`; `.throw e`: `frame.Throw = e`, so the first iteration of the loop fetches no
instruction and does `vm.SetException(e)` (the instruction at `Lasti` is not YIELD_FROM here). -/
def Vm.entry (ent : Entry) (fr : Frame) : Vm :=
  match ent with
  | .first => Vm.enter fr
  | .send v => Vm.enter { fr with stack := .v v :: fr.stack }
  | .throw e => (Vm.enter fr).setException e

/-- One call of `RunFrame`, with the ways the model can fail kept apart (`.error`): out of fuel, a Go
panic, a stack shape or operand outside the modelled fragment, `Lasti` past the code. -/
def frameRunE (code : Code) (fuel : Nat) (ent : Entry) (fr : Frame) : Except String (RunOut × Frame) :=
  if fr.pc ≥ code.length then .error "SystemError: vm: instruction out of range - code most likely finished already"
  else
    match runLoop code fuel (Vm.entry ent fr) with
    | none => .error "out of fuel"
    | some (.error m) => .error m
    | some (.ok vm) => frameExit vm

/-- One call of `RunFrame` in the form `GenObj.resume` takes.  Every failure of `frameRunE` becomes
`(.raise (.other .runtime), fr)` with the frame unchanged: never a silent success. -/
def frameRun (code : Code) (fuel : Nat) (ent : Entry) (fr : Frame) : RunOut × Frame :=
  match frameRunE code fuel ent fr with
  | .ok r => r
  | .error _ => (.raise (.other .runtime), fr)

/-! ## compiler: compile/compile.go for the statements of `S` -/

/-- compile.go `loop` entries of `c.loops` (only `Start` is read) -/
inductive LoopT | loop (start : Nat) | except | finallyTry | finallyEnd
deriving DecidableEq, Repr, Inhabited

abbrev Ctx := List LoopT

/-- the search `for ; i >= 0; i-- { if loopLoop break; if finallyEndLoop -> SyntaxError }` -/
def findLoop : Ctx → Option Nat
  | [] => none
  | .loop s :: _ => some s
  | .finallyEnd :: _ => none
  | _ :: rest => findLoop rest

/-- the instruction `Stmt(*ast.Continue)` emits; `none` = SyntaxError -/
def contInstr : Ctx → Option Instr
  | [] => none
  | .loop s :: _ => some (.jumpAbsolute s)
  | .finallyEnd :: _ => none
  | _ :: rest => (findLoop rest).map .continueLoop

/-- number of instructions emitted for a statement -/
def codeLen : S → Nat
  | .log _ => 4
  | .yld _ => 7
  | .seq a b => codeLen a + codeLen b
  | .loop _ b => 9 + codeLen b
  | .tryFin b f => 4 + codeLen b + codeLen f
  | .tryExc b _ h => 13 + codeLen b + codeLen h
  | .brk => 1 | .cont => 1 | .ret _ => 2 | .raise _ => 2

/-- `compiler.Stmt`: `ctx` = `c.loops`, `pc` = index of the first emitted instruction, `d` = number of
enclosing `for` loops (names the loop variable, as `S.render`).  Rendered statement → instructions:
`LG.append(k)` → LOAD_FAST LG, LOAD_ATTR append (one pseudo-instruction), LOAD_CONST k, CALL_FUNCTION 1, POP_TOP;
`x = yield k` → LOAD_CONST k, YIELD_VALUE, STORE_FAST x; then `LG.append(x)`. -/
def compS : Ctx → Nat → Nat → S → Code
  | _, _, _, .log k => [.loadAppend, .loadConst (.int k), .callFunction 1, .popTop]
  | _, _, _, .yld k =>
    [.loadConst (.int k), .yieldValue, .storeFast 0, .loadAppend, .loadFast 0, .callFunction 1, .popTop]
  | ctx, pc, d, .seq a b => compS ctx pc d a ++ compS ctx (pc + codeLen a) d b
  | ctx, pc, d, .loop n b =>
    let endfor := pc + 7 + codeLen b + 1
    let endpop := endfor + 1
    [.setupLoop endpop, .loadRange, .loadConst (.int n), .callFunction 1, .getIter,
     .forIter endfor, .storeFast (d + 1)] ++
    compS (.loop (pc + 5) :: ctx) (pc + 7) (d + 1) b ++
    [.jumpAbsolute (pc + 5), .popBlock]
  | ctx, pc, d, .tryFin b f =>
    let fin := pc + 1 + codeLen b + 2
    [.setupFinally fin] ++ compS (.finallyTry :: ctx) (pc + 1) d b ++
    [.popBlock, .loadConst .none] ++ compS (.finallyEnd :: ctx) fin d f ++ [.endFinally]
  | ctx, pc, d, .tryExc b e h =>
    let ctx' := LoopT.except :: ctx
    let exc := pc + 1 + codeLen b + 2
    let next := exc + 7 + codeLen h + 2
    let endL := next + 1
    [.setupExcept exc] ++ compS ctx' (pc + 1) d b ++ [.popBlock, .jumpForward endL] ++
    [.dupTop, .loadExc e, .compareExcMatch, .popJumpIfFalse next, .popTop, .popTop, .popTop] ++
    compS ctx' (exc + 7) d h ++ [.popExcept, .jumpForward endL] ++ [.endFinally]
  | _, _, _, .brk => [.breakLoop]
  | ctx, _, _, .cont =>
    match contInstr ctx with
    | some i => [i]
    | none => [.continueLoop 0]      -- SyntaxError in Go; not a valid body (`S.valid`)
  | _, _, _, .ret k => [.loadConst (.int k), .returnValue]
  | _, _, _, .raise e => [.loadExc e, .raiseVarargs 1]

/-- `compileAst` for the function body: the statements, then `LOAD_CONST None; RETURN_VALUE`
(Go omits the pair when the last instruction is already RETURN_VALUE: it is unreachable then).
Meaningful for `b.valid false false`. -/
def compileBody (b : S) : Code := compS [] 0 0 b ++ [.loadConst .none, .returnValue]

/-! ## driving a generator through a history -/

/-- one call on the generator object -/
inductive FOp | next | send (v : Val) | throw (e : NextErr) | close
deriving DecidableEq, Repr, Inhabited

/-- what the caller observes: the result of next/send/throw, or of close (`none` = returned None) -/
inductive FRes | resp (r : Resp) | closed (e : Option NextErr)
deriving DecidableEq, Repr, Inhabited

def applyOp {φ : Type} (run : Entry → φ → RunOut × φ) (g : GenObj φ) : FOp → FRes × GenObj φ
  | .next => let r := g.next run; (.resp r.1, r.2.1)
  | .send v => let r := g.send run v; (.resp r.1, r.2.1)
  | .throw e => let r := g.throw run e; (.resp r.1, r.2.1)
  | .close => let r := g.close run; (.closed r.1, r.2.1)

/-- responses to a history of calls, and the generator afterwards -/
def drive {φ : Type} (run : Entry → φ → RunOut × φ) : List FOp → GenObj φ → List FRes × GenObj φ
  | [], g => ([], g)
  | op :: ops, g =>
    let r := applyOp run g op
    let rs := drive run ops r.2
    (r.1 :: rs.1, rs.2)

/-- fuel used by the comparisons: one resumption of a body of the test alphabet needs far less -/
def testFuel : Nat := 10000

/-- responses, final log and final generator flags on the VM side -/
def vmTrace (b : S) (ops : List FOp) : List FRes × List Val × (Bool × Bool × Bool) :=
  let r := drive (frameRun (compileBody b) testFuel) ops (newGenerator frameInit)
  (r.1, r.2.frame.log, (r.2.fresh, r.2.yielded, r.2.running))

/-- the same for the reference coroutine -/
def refTrace (b : S) (ops : List FOp) : List FRes × List Val × (Bool × Bool × Bool) :=
  let r := drive coRun ops (newGenerator (coInit b))
  (r.1, r.2.frame.log, (r.2.fresh, r.2.yielded, r.2.running))

/-- the compiled body on the VM and the reference coroutine answer a history identically
(responses, final log, generator flags) -/
def bodyAgree (b : S) (ops : List FOp) : Bool := vmTrace b ops == refTrace b ops

/-! ## enumeration of bodies and histories -/
/-- atoms of the enumeration alphabet -/
def enumAtoms : List S := [.log 1, .yld 2, .brk, .cont, .ret 5, .raise .key]
def enumExcs : List Exc := [.key, .lookup, .value]

/-- all pairs `(i, j)` with `i + j = s`, `i, j ≥ 1`, as indices into the table (size = index+1) -/
def enumSplits (s : Nat) : List (Nat × Nat) := (List.range (s - 1)).map (fun i => (i + 1, s - (i + 1)))

def enumIsSeq : S → Bool | .seq _ _ => true | _ => false

/-- bodies of size exactly `tbl.length + 1`, given the bodies of sizes `1 .. tbl.length` (`tbl[i]` = size `i+1`);
sequences are right-nested only -/
def enumGrow (tbl : List (List S)) : List S :=
  let s := tbl.length + 1
  let get (k : Nat) : List S := (tbl[k - 1]?).getD []
  let seqs := (enumSplits s).flatMap (fun (i, j) => (get i).flatMap (fun a => if enumIsSeq a then [] else (get j).map (fun b => S.seq a b)))
  let loops := if s ≥ 2 then (get (s - 1)).map (fun b => S.loop 2 b) else []
  let tries := if s ≥ 3 then (enumSplits (s - 1)).flatMap (fun (i, j) => (get i).flatMap (fun a => (get j).flatMap (fun b =>
      S.tryFin a b :: enumExcs.map (fun e => S.tryExc a e b)))) else []
  (if s = 1 then enumAtoms else []) ++ seqs ++ loops ++ tries

def enumTable : Nat → List (List S)
  | 0 => []
  | n + 1 => let t := enumTable n; t ++ [enumGrow t]

/-- all valid bodies of size ≤ n over the alphabet -/
def enumBodies (n : Nat) : List S := (enumTable n).flatten.filter (fun b => b.valid false false)

def enumOpAlphabet : List FOp := [.next, .send (.int 3), .throw (.other .key), .throw (.other .value), .throw .stopType, .close]

def enumOps : Nat → List (List FOp)
  | 0 => [[]]
  | n + 1 => let r := enumOps n; r ++ (r.filter (fun l => l.length = n)).flatMap (fun l => enumOpAlphabet.map (fun o => o :: l))


/-! ## self-test: the compiled body on the VM against the reference coroutine -/

/-- all valid bodies of size ≤ `size` over the alphabet × all histories of length ≤ `hist`:
(number of bodies, number of (body, history) pairs, the disagreeing pairs) -/
def enumCheck (size hist : Nat) : Nat × Nat × List (S × List FOp) :=
  let bs := enumBodies size
  let os := enumOps hist
  let bad := bs.flatMap (fun b => (os.filter (fun o => !bodyAgree b o)).map (fun o => (b, o)))
  (bs.length, bs.length * os.length, bad)

/-- `for i0 in range(2): try: LG.append(1); X finally: x = yield 2; LG.append(x)` then `x = yield 9; LG.append(x)` -/
def testX (x : S) : S := .seq (.loop 2 (.tryFin (.seq (.log 1) x) (.yld 2))) (.yld 9)

def testHistories : List (List FOp) :=
  [ [.next, .send (.int 10), .send (.int 11), .send (.int 12), .next],
    [.next, .throw (.other .value), .next, .close],
    [.next, .send (.int 10), .throw (.other .key), .next],
    [.next, .close, .next],
    [.close, .next],
    [.send (.int 1), .next, .next, .next, .next, .close],
    [.next, .next, .throw .stopType, .send (.str "a")] ]

#guard [S.brk, .cont, .ret 5, .raise .key, .log 3].all (fun x => testHistories.all (bodyAgree (testX x)))
#guard testHistories.all (bodyAgree (.tryFin (.ret 1) (.yld 2)))
#guard testHistories.all (bodyAgree (.tryExc (.yld 1) .value (.yld 2)))
#guard bodyAgree (.tryExc (.yld 1) .value (.yld 2)) [.next, .throw (.other .value), .send (.int 4), .next]
#guard bodyAgree (.tryExc (.yld 1) .lookup (.yld 2)) [.next, .throw (.other .key), .send (.int 4), .next]
#guard bodyAgree (.tryExc (.yld 1) .value (.yld 2)) [.next, .throw (.other .key), .send (.int 4), .next]
-- a body that breaks out of the loop from inside try/finally, where the finally clause yields:
#guard (vmTrace (testX .brk) [.next, .send (.int 10), .send (.int 11), .next]).1 =
  [.resp (.item (.int 2)), .resp (.item (.int 9)), .resp (.err .stopType), .resp (.err .stopType)]
#guard (vmTrace (testX .brk) [.next, .send (.int 10), .send (.int 11), .next]).2.1 = [.int 1, .int 10, .int 11]
-- out of fuel is never a silent success
#guard (frameRunE (compileBody (.loop 5 (.log 1))) 10 .first frameInit) matches .error _

-- (bodies, comparisons, disagreements) for sizes ≤ 3, histories ≤ 3: expected (244, 63196, [])
#eval enumCheck 3 3
#guard (enumCheck 3 3).2.2.isEmpty
-- sizes ≤ 4, histories ≤ 2: expected (2844, 122292, [])   (sizes ≤ 4 × histories ≤ 3 = 736596 pairs: also [], ~20 s)
#eval enumCheck 4 2
#guard (enumCheck 4 2).2.2.isEmpty

/-! ## theorems -/

/-- more fuel does not change a run of the main loop that ended -/
theorem runLoop_mono (code : Code) (f k : Nat) (vm : Vm) (r : Except String Vm)
    (h : runLoop code f vm = some r) : runLoop code (f + k) vm = some r := by
  induction f generalizing vm with
  | zero => simp [runLoop] at h
  | succ f ih =>
    have e : f + 1 + k = (f + k) + 1 := by omega
    rw [e]
    simp only [runLoop] at h ⊢
    cases hs : step code vm with
    | next vm' => rw [hs] at h; simp only at h ⊢; exact ih vm' h
    | done vm' => rw [hs] at h; simpa using h
    | panic m => rw [hs] at h; simpa using h

/-- more fuel does not change a successful `RunFrame` -/
theorem frameRunE_mono (code : Code) (f k : Nat) (ent : Entry) (fr : Frame) (r : RunOut × Frame)
    (h : frameRunE code f ent fr = .ok r) : frameRunE code (f + k) ent fr = .ok r := by
  unfold frameRunE at h ⊢
  split at h
  · cases h
  · rename_i hpc
    rw [if_neg hpc]
    cases hr : runLoop code f (Vm.entry ent fr) with
    | none => rw [hr] at h; cases h
    | some x => rw [hr] at h; rw [runLoop_mono code f k _ x hr]; exact h

/-- a `RunFrame` that succeeds with fuel `f` gives the same result through `frameRun` with any fuel `F ≥ f` -/
theorem frameRun_of_E (code : Code) (f F : Nat) (ent : Entry) (fr : Frame) (r : RunOut × Frame)
    (h : frameRunE code f ent fr = .ok r) (hF : f ≤ F) : frameRun code F ent fr = r := by
  obtain ⟨k, rfl⟩ := Nat.exists_eq_add_of_le hF
  simp [frameRun, frameRunE_mono code f k ent fr r h]

def loopCode (n : Nat) : Code :=
  [.setupLoop 16, .loadRange, .loadConst (.int n), .callFunction 1, .getIter, .forIter 15, .storeFast 1,
   .loadConst (.int 7), .yieldValue, .storeFast 0, .loadAppend, .loadFast 0, .callFunction 1, .popTop,
   .jumpAbsolute 5, .popBlock, .loadConst .none, .returnValue]

/-- the code of `for i0 in range(n): x = yield 7; LG.append(x)` -/
theorem compile_loop (n : Nat) : compileBody (.loop n (.yld 7)) = loopCode n := rfl

def suspFrame (n k : Nat) (lg : List Val) (loc : List (Nat × SV)) : Frame :=
  { pc := 9, stack := [.iter k n], blocks := [⟨.loop, 16, 0⟩], locals := loc, exc := {}, log := lg }

/-- first entry, `n > 0`: SETUP_LOOP, `range(n)`, GET_ITER, FOR_ITER, STORE_FAST i0, LOAD_CONST 7, YIELD_VALUE -/
theorem loop_first_pos (n : Nat) (h : 0 < n) :
    frameRunE (loopCode n) 20 .first frameInit = .ok (.yield (.int 7), suspFrame n 1 [] [(1, .v (.int 0))]) := by
  simp [frameRunE, loopCode, frameInit, Vm.entry, Vm.enter, runLoop, step, exec, Vm.push, Vm.pushBlock, h, frameExit, suspFrame, setLocal]


def endFrame (lg : List Val) (loc : List (Nat × SV)) : Frame :=
  { pc := 18, stack := [], blocks := [], locals := loc, exc := {}, log := lg }

/-- first entry, `n = 0`: the loop is skipped, the frame returns None -/
theorem loop_first_zero :
    frameRunE (loopCode 0) 20 .first frameInit = .ok (.ret .none, endFrame [] []) := by
  simp [frameRunE, loopCode, frameInit, Vm.entry, Vm.enter, runLoop, step, exec, Vm.push, Vm.pushBlock, frameExit, endFrame, ExcInfo.isSet]

/-- resuming the frame suspended in iteration `k` (iterator at position `k < n`) with a sent value: one full trip round the loop (STORE_FAST x, `LG.append(x)`, JUMP_ABSOLUTE, FOR_ITER, STORE_FAST i0, LOAD_CONST, YIELD_VALUE) and the frame is suspended again, the iterator ON ITS VALUE STACK advanced, the loop block still on its block stack, the sent value logged -/
theorem loop_send_lt (n k : Nat) (lg : List Val) (loc : List (Nat × SV)) (v : Val) (h : k < n) :
    frameRunE (loopCode n) 20 (.send v) (suspFrame n k lg loc) =
      .ok (.yield (.int 7), suspFrame n (k + 1) (lg ++ [v]) (setLocal (setLocal loc 0 (.v v)) 1 (.v (.int k)))) := by
  simp [frameRunE, loopCode, Vm.entry, Vm.enter, runLoop, step, exec, Vm.push, h, frameExit, suspFrame]

/-- resuming in the last iteration: FOR_ITER finds the iterator exhausted, POP_BLOCK, return None -/
theorem loop_send_ge (n k : Nat) (lg : List Val) (loc : List (Nat × SV)) (v : Val) (h : ¬ k < n) :
    frameRunE (loopCode n) 20 (.send v) (suspFrame n k lg loc) =
      .ok (.ret .none, endFrame (lg ++ [v]) (setLocal loc 0 (.v v))) := by
  simp [frameRunE, loopCode, Vm.entry, Vm.enter, runLoop, step, exec, Vm.push, h, frameExit, suspFrame, endFrame, ExcInfo.isSet]

/-- `generator.throw(e)` at the suspended yield: no instruction is fetched, the loop block is unwound, `e` leaves the frame -/
theorem loop_throw (n k : Nat) (lg : List Val) (loc : List (Nat × SV)) (e : NextErr) :
    frameRunE (loopCode n) 20 (.throw e) (suspFrame n k lg loc) =
      .ok (.raise e, { pc := 9, stack := [], blocks := [], locals := loc, exc := {}, log := lg }) := by
  simp [frameRunE, loopCode, Vm.entry, Vm.enter, Vm.setException, runLoop, step, unwind1, unwindBlock, frameExit, suspFrame, ExcInfo.isSet]


/-! reference side -/
def loopK (m : Nat) : Sig → Co := fun s => match s with
  | .normal => denLoop m (.yld 7) .done
  | .cont => denLoop m (.yld 7) .done
  | .brk => .done .normal
  | s => .done s

def yK (κ : Sig → Co) : Entry → Co := fun ent => match ent with
  | .throw e => κ (.raise e)
  | ent => .log ent.sent (κ .normal)

theorem denLoop_zero : denLoop 0 (.yld 7) .done = .done .normal := by simp [denLoop]
/-- reference: one more iteration = yield 7, then (log the sent value and go on | propagate the thrown exception) -/
theorem denLoop_succ (m : Nat) : denLoop (m + 1) (.yld 7) .done = .yield (.int 7) (yK (loopK m)) := by
  simp [denLoop, den]; rfl

theorem ref_first (n : Nat) : coRun .first (coInit (.loop n (.yld 7))) = runCo (denLoop n (.yld 7) .done) [] := by
  simp [coRun, coInit, den]

theorem ref_send (m : Nat) (v : Val) (lg : List Val) :
    coRun (.send v) ⟨some (yK (loopK m)), lg⟩ = runCo (denLoop m (.yld 7) .done) (lg ++ [v]) := by
  simp [coRun, yK, loopK, runCo, Entry.sent]

theorem ref_throw (m : Nat) (e : NextErr) (lg : List Val) :
    coRun (.throw e) ⟨some (yK (loopK m)), lg⟩ = (.raise e, ⟨none, lg⟩) := by
  simp [coRun, yK, loopK, runCo]


/-! simulation -/
abbrev lrun (n : Nat) := frameRun (loopCode n) 10000

theorem lrun_first_zero : lrun 0 .first frameInit = (.ret .none, endFrame [] []) :=
  frameRun_of_E _ 20 _ _ _ _ loop_first_zero (by decide)
theorem lrun_first_pos (n : Nat) (h : 0 < n) : lrun n .first frameInit = (.yield (.int 7), suspFrame n 1 [] [(1, .v (.int 0))]) :=
  frameRun_of_E _ 20 _ _ _ _ (loop_first_pos n h) (by decide)
theorem lrun_send_lt (n k : Nat) (lg : List Val) (loc : List (Nat × SV)) (v : Val) (h : k < n) :
    lrun n (.send v) (suspFrame n k lg loc) =
      (.yield (.int 7), suspFrame n (k + 1) (lg ++ [v]) (setLocal (setLocal loc 0 (.v v)) 1 (.v (.int k)))) :=
  frameRun_of_E _ 20 _ _ _ _ (loop_send_lt n k lg loc v h) (by decide)
theorem lrun_send_ge (n k : Nat) (lg : List Val) (loc : List (Nat × SV)) (v : Val) (h : ¬ k < n) :
    lrun n (.send v) (suspFrame n k lg loc) = (.ret .none, endFrame (lg ++ [v]) (setLocal loc 0 (.v v))) :=
  frameRun_of_E _ 20 _ _ _ _ (loop_send_ge n k lg loc v h) (by decide)
theorem lrun_throw (n k : Nat) (lg : List Val) (loc : List (Nat × SV)) (e : NextErr) :
    lrun n (.throw e) (suspFrame n k lg loc) =
      (.raise e, { pc := 9, stack := [], blocks := [], locals := loc, exc := {}, log := lg }) :=
  frameRun_of_E _ 20 _ _ _ _ (loop_throw n k lg loc e) (by decide)

inductive LRel (n : Nat) : GenObj Frame → GenObj CoSt → Prop
  | fresh : LRel n (newGenerator frameInit) (newGenerator (coInit (.loop n (.yld 7))))
  | susp (k m : Nat) (lg : List Val) (loc : List (Nat × SV)) (h : k + m = n) :
      LRel n ⟨false, true, false, suspFrame n k lg loc⟩ ⟨false, true, false, ⟨some (yK (loopK m)), lg⟩⟩
  | dead (fr : Frame) (st : CoSt) (h : fr.log = st.log) :
      LRel n ⟨false, false, false, fr⟩ ⟨false, false, false, st⟩

theorem LRel.log {n : Nat} {g1 : GenObj Frame} {g2 : GenObj CoSt} (h : LRel n g1 g2) : g1.frame.log = g2.frame.log := by
  cases h with
  | fresh => rfl
  | susp k m lg loc h => rfl
  | dead fr st h => exact h

/-- one `Generator.resume` (send or throw, any argument) keeps the VM generator and the reference generator of `loop n (yld 7)` in step: same response, same "RunFrame was called" flag, related states -/
theorem resume_sim (n : Nat) {g1 : GenObj Frame} {g2 : GenObj CoSt} (h : LRel n g1 g2) (arg : Val) (exc : Option NextErr) :
    (g1.resume (lrun n) arg exc).1 = (g2.resume coRun arg exc).1 ∧
    (g1.resume (lrun n) arg exc).2.2 = (g2.resume coRun arg exc).2.2 ∧
    LRel n (g1.resume (lrun n) arg exc).2.1 (g2.resume coRun arg exc).2.1 := by
  cases h with
  | dead fr st h =>
    simp [GenObj.resume]
    exact LRel.dead fr st h
  | fresh =>
    cases exc with
    | some e =>
      simp [GenObj.resume, newGenerator]
      exact LRel.dead _ _ rfl
    | none =>
      by_cases ha : arg = .none
      · subst ha
        cases n with
        | zero =>
          simp [GenObj.resume, newGenerator, lrun_first_zero, ref_first, denLoop_zero, runCo]
          exact LRel.dead _ _ rfl
        | succ m =>
          simp [GenObj.resume, newGenerator, lrun_first_pos, ref_first, denLoop_succ, runCo]
          exact LRel.susp 1 m [] _ (by omega)
      · simp [GenObj.resume, newGenerator, ha]
        exact LRel.fresh
  | susp k m lg loc h =>
    cases exc with
    | some e =>
      simp [GenObj.resume, lrun_throw, ref_throw]
      exact LRel.dead _ _ rfl
    | none =>
      cases m with
      | zero =>
        have hk : ¬ k < n := by omega
        simp [GenObj.resume, lrun_send_ge, hk, ref_send, denLoop_zero, runCo]
        exact LRel.dead _ _ rfl
      | succ m' =>
        have hk : k < n := by omega
        simp [GenObj.resume, lrun_send_lt, hk, ref_send, denLoop_succ, runCo]
        exact LRel.susp (k + 1) m' _ _ (by omega)


/-- the same for next / send / throw / close -/
theorem applyOp_sim (n : Nat) {g1 : GenObj Frame} {g2 : GenObj CoSt} (h : LRel n g1 g2) (op : FOp) :
    (applyOp (lrun n) g1 op).1 = (applyOp coRun g2 op).1 ∧ LRel n (applyOp (lrun n) g1 op).2 (applyOp coRun g2 op).2 := by
  cases op with
  | next =>
    have := resume_sim n h .none none
    simp only [applyOp, GenObj.next, GenObj.send]
    exact ⟨by rw [this.1], this.2.2⟩
  | send v =>
    have := resume_sim n h v none
    simp only [applyOp, GenObj.send]
    exact ⟨by rw [this.1], this.2.2⟩
  | throw e =>
    have := resume_sim n h .none (some e)
    simp only [applyOp, GenObj.throw]
    exact ⟨by rw [this.1], this.2.2⟩
  | close =>
    have := resume_sim n h .none (some (.other .genExit))
    simp only [applyOp, GenObj.close]
    rw [this.1]
    cases (GenObj.resume coRun g2 Val.none (some (NextErr.other Exc.genExit))).1 with
    | item v => exact ⟨rfl, this.2.2⟩
    | err e =>
      by_cases he : (e.isStop || e.isGenExit) = true
      · dsimp only; rw [if_pos he, if_pos he]; exact ⟨rfl, this.2.2⟩
      · dsimp only; rw [if_neg he, if_neg he]; exact ⟨rfl, this.2.2⟩

/-- and for a whole history -/
theorem drive_sim (n : Nat) (ops : List FOp) {g1 : GenObj Frame} {g2 : GenObj CoSt} (h : LRel n g1 g2) :
    (drive (lrun n) ops g1).1 = (drive coRun ops g2).1 ∧ LRel n (drive (lrun n) ops g1).2 (drive coRun ops g2).2 := by
  induction ops generalizing g1 g2 with
  | nil => exact ⟨rfl, h⟩
  | cons op ops ih =>
    have h1 := applyOp_sim n h op
    have h2 := ih h1.2
    simp only [drive]
    exact ⟨by rw [h1.1, h2.1], h2.2⟩

/-- (b) LOOP POSITION AND LOCALS ARE PRESERVED ACROSS SUSPENSION, for a family: for EVERY `n` and EVERY history of next / send / throw / close calls, the compiled body `for i0 in range(n): x = yield 7; LG.append(x)` run on the transliterated `RunFrame` through `Generator.resume` gives exactly the responses and the final log of the reference coroutine `coRun` / `coInit`.  (Proved by simulation, `LRel`; not by enumeration.) -/
theorem loop_yield_family (n : Nat) (ops : List FOp) :
    (drive (frameRun (compileBody (.loop n (.yld 7))) 10000) ops (newGenerator frameInit)).1 =
      (drive coRun ops (newGenerator (coInit (.loop n (.yld 7))))).1 ∧
    (drive (frameRun (compileBody (.loop n (.yld 7))) 10000) ops (newGenerator frameInit)).2.frame.log =
      (drive coRun ops (newGenerator (coInit (.loop n (.yld 7))))).2.frame.log := by
  rw [compile_loop]
  have := drive_sim n ops (LRel.fresh (n := n))
  exact ⟨this.1, this.2.log⟩

/-- the same as a statement about the executable check `bodyAgree` (responses, final log and generator flags) -/
theorem loop_yield_bodyAgree (n : Nat) (ops : List FOp) : bodyAgree (.loop n (.yld 7)) ops = true := by
  have h := drive_sim n ops (LRel.fresh (n := n))
  have hl := h.2
  simp only [bodyAgree, vmTrace, refTrace, testFuel, compile_loop]
  generalize drive (frameRun (loopCode n) 10000) ops (newGenerator frameInit) = a at *
  generalize drive coRun ops (newGenerator (coInit (.loop n (.yld 7)))) = b at *
  obtain ⟨ra, ga⟩ := a
  obtain ⟨rb, gb⟩ := b
  simp only at h
  obtain ⟨h1, h2⟩ := h
  subst h1
  cases h2 <;> simp [newGenerator, frameInit, coInit, suspFrame, *]


theorem drive_cons {φ : Type} (run : Entry → φ → RunOut × φ) (op : FOp) (ops : List FOp) (g : GenObj φ) :
    drive run (op :: ops) g =
      ((applyOp run g op).1 :: (drive run ops (applyOp run g op).2).1, (drive run ops (applyOp run g op).2).2) := rfl

/-- from the suspension in iteration `k`: `n - k` further sends yield 7, the next one ends the generator; all sent values are logged in order -/
theorem loop_sends (n : Nat) (vs : List Val) (k : Nat) (lg : List Val) (loc : List (Nat × SV))
    (h : k + vs.length = n + 1) (hv : vs ≠ []) :
    (drive (lrun n) (vs.map .send) ⟨false, true, false, suspFrame n k lg loc⟩).1 =
        List.replicate (n - k) (.resp (.item (.int 7))) ++ [.resp (.err .stopType)] ∧
    (drive (lrun n) (vs.map .send) ⟨false, true, false, suspFrame n k lg loc⟩).2.frame.log = lg ++ vs ∧
    (drive (lrun n) (vs.map .send) ⟨false, true, false, suspFrame n k lg loc⟩).2.yielded = false := by
  induction vs generalizing k lg loc with
  | nil => exact absurd rfl hv
  | cons v rest ih =>
    cases rest with
    | nil =>
      have hk : ¬ k < n := by simp at h; omega
      have hz : n - k = 0 := by omega
      simp [drive, applyOp, GenObj.send, GenObj.resume, lrun_send_ge, hk, hz, endFrame]
    | cons w rest' =>
      have hk : k < n := by simp at h; omega
      have hz : n - k = (n - (k + 1)) + 1 := by omega
      have := ih (k + 1) (lg ++ [v]) (setLocal (setLocal loc 0 (.v v)) 1 (.v (.int k))) (by simp at h ⊢; omega) (by simp)
      have step1 : applyOp (lrun n) ⟨false, true, false, suspFrame n k lg loc⟩ (.send v) =
          (.resp (.item (.int 7)), ⟨false, true, false,
            suspFrame n (k + 1) (lg ++ [v]) (setLocal (setLocal loc 0 (.v v)) 1 (.v (.int k)))⟩) := by
        simp [applyOp, GenObj.send, GenObj.resume, lrun_send_lt n k lg loc v hk]
      rw [List.map_cons, drive_cons, step1, hz, List.replicate_succ]
      exact ⟨by rw [this.1]; rfl, by rw [this.2.1]; simp, this.2.2⟩


/-- (b), direct form: `next()` followed by sending `v₁ … vₙ` into `for i0 in range(n): x = yield 7; LG.append(x)` yields 7 exactly `n` times, then raises StopIteration, and the final log is `[v₁, …, vₙ]` -/
theorem loop_yield_direct (vs : List Val) :
    (drive (frameRun (compileBody (.loop vs.length (.yld 7))) 10000) (.next :: vs.map .send) (newGenerator frameInit)).1 =
        List.replicate vs.length (.resp (.item (.int 7))) ++ [.resp (.err .stopType)] ∧
    (drive (frameRun (compileBody (.loop vs.length (.yld 7))) 10000) (.next :: vs.map .send) (newGenerator frameInit)).2.frame.log = vs := by
  rw [compile_loop]
  cases vs with
  | nil =>
    simp [drive, applyOp, GenObj.next, GenObj.send, GenObj.resume, newGenerator, lrun_first_zero, endFrame]
  | cons v rest =>
    have step1 : applyOp (lrun (rest.length + 1)) (newGenerator frameInit) .next =
        (.resp (.item (.int 7)), ⟨false, true, false, suspFrame (rest.length + 1) 1 [] [(1, .v (.int 0))]⟩) := by
      simp [applyOp, GenObj.next, GenObj.send, GenObj.resume, newGenerator, lrun_first_pos]
    have := loop_sends (rest.length + 1) (v :: rest) 1 [] [(1, .v (.int 0))] (by simp; omega) (by simp)
    show (drive (lrun (rest.length + 1)) _ _).1 = _ ∧ (drive (lrun (rest.length + 1)) _ _).2.frame.log = _
    rw [drive_cons, step1, List.length_cons, List.replicate_succ]
    exact ⟨by rw [this.1]; simp, by rw [this.2.1]; simp⟩

/-! (a) -/
/-- (a) laziness: whatever follows the first yield (`rest` is ANY body), the first `RunFrame` executes exactly the code before it (`LG.append(j)`), stops at YIELD_VALUE with `Lasti` just behind it, and nothing of `rest` has run -/
theorem frameRun_first_lazy (j k : Nat) (rest : S) (fuel : Nat) :
    frameRun (compileBody (.seq (.log j) (.seq (.yld k) rest))) (fuel + 7) .first frameInit =
      (.yield (.int k), { pc := 6, stack := [], blocks := [], locals := [], exc := {}, log := [.int j] }) := by
  have : frameRunE (compileBody (.seq (.log j) (.seq (.yld k) rest))) 7 .first frameInit =
      .ok (.yield (.int k), { pc := 6, stack := [], blocks := [], locals := [], exc := {}, log := [.int j] }) := by
    simp [frameRunE, compileBody, compS, frameInit, Vm.entry, Vm.enter, runLoop, step, exec, Vm.push, frameExit]
  exact frameRun_of_E _ 7 _ _ _ _ this (by omega)


/-! (c) -/
def finBody : S := .tryFin (.yld 1) (.log 9)
def finSusp : Frame := { pc := 3, stack := [], blocks := [⟨.finally, 10, 0⟩], locals := [], exc := {}, log := [] }

/-- (c) PENDING try/finally BLOCKS ARE PRESERVED ACROSS SUSPENSION: for `try: x = yield 1; LG.append(x) finally: LG.append(9)` the frame suspended by the first `next()` carries the SETUP_FINALLY block on its block stack; resuming it with ANY sent value runs the finally clause on the normal path (log `[v, 9]`, return None), resuming it with ANY thrown exception unwinds into the finally clause (log `[9]`), END_FINALLY re-raises the same exception, and `frame.Exc` is restored to "no exception" -/
theorem finally_pending_preserved :
    frameRun (compileBody finBody) 10000 .first frameInit = (.yield (.int 1), finSusp) ∧
    finSusp.blocks = [⟨.finally, 10, 0⟩] ∧
    (∀ v : Val, frameRun (compileBody finBody) 10000 (.send v) finSusp =
      (.ret .none, { pc := 17, stack := [], blocks := [], locals := [(0, .v v)], exc := {}, log := [v, .int 9] })) ∧
    (∀ e : NextErr, frameRun (compileBody finBody) 10000 (.throw e) finSusp =
      (.raise e, { pc := 15, stack := [], blocks := [], locals := [], exc := {}, log := [.int 9] })) := by
  refine ⟨?_, rfl, ?_, ?_⟩
  · apply frameRun_of_E _ 30 _ _ _ _ _ (by decide)
    simp [finBody, finSusp, frameRunE, compileBody, compS, codeLen, frameInit, Vm.entry, Vm.enter, runLoop, step, exec, Vm.push, Vm.pushBlock, frameExit]
  · intro v
    apply frameRun_of_E _ 30 _ _ _ _ _ (by decide)
    simp [finBody, finSusp, frameRunE, compileBody, compS, codeLen, Vm.entry, Vm.enter, runLoop, step, exec, Vm.push, frameExit,
      setLocal, getLocal, ExcInfo.isSet]
  · intro e
    apply frameRun_of_E _ 30 _ _ _ _ _ (by decide)
    simp [finBody, finSusp, frameRunE, compileBody, compS, codeLen, Vm.entry, Vm.enter, Vm.setException, runLoop, step, exec, Vm.push, frameExit,
      ExcInfo.isSet, unwind1, unwindBlock, unwindExceptHandler, typeVal, SV.asType]


/-! (d) -/
/-- `try: raise KeyError except LookupError: x = yield 1; LG.append(x)`: a yield inside an except handler -/
def hdlBody : S := .tryExc (.raise .key) .lookup (.yld 1)
/-- the frame suspended inside the handler -/
def hdlSusp : Frame :=
  { pc := 14, stack := [.v .none, .nil, .tb], blocks := [⟨.handler, 0, 0⟩], locals := [],
    exc := { type := some (.exc .key), value := .exc (.other .key) }, log := [] }

/-- (d) THE HANDLED EXCEPTION AND THE EXCEPT_HANDLER BLOCK ARE PRESERVED ACROSS SUSPENSION: a generator
suspended inside `except LookupError:` (entered by a KeyError: subclass match) keeps the EXCEPT_HANDLER
block on its block stack, the three saved slots of the previous exception state on its value stack, and
the exception being handled in `frame.Exc` (`fast_yield: frame.Exc = vm.exc`).  Resuming with ANY sent
value finishes the handler: POP_EXCEPT unwinds the block and restores "no exception"; resuming with ANY
thrown exception unwinds the EXCEPT_HANDLER block and propagates that exception. -/
theorem handler_exc_preserved :
    frameRun (compileBody hdlBody) 10000 .first frameInit = (.yield (.int 1), hdlSusp) ∧
    (∀ v : Val, frameRun (compileBody hdlBody) 10000 (.send v) hdlSusp =
      (.ret .none, { pc := 24, stack := [], blocks := [], locals := [(0, .v v)], exc := {}, log := [v] })) ∧
    (∀ e : NextErr, frameRun (compileBody hdlBody) 10000 (.throw e) hdlSusp =
      (.raise e, { pc := 14, stack := [], blocks := [], locals := [], exc := {}, log := [] })) := by
  refine ⟨?_, ?_, ?_⟩
  · apply frameRun_of_E _ 30 _ _ _ _ _ (by decide)
    simp [hdlBody, hdlSusp, frameRunE, compileBody, compS, codeLen, frameInit, Vm.entry, Vm.enter, Vm.setException, runLoop, step, exec,
      Vm.push, Vm.pushBlock, frameExit, unwind1, unwindBlock, typeVal, ECls.inst, NextErr.cls, ECls.sub, Exc.sub, SV.truthy]
  · intro v
    apply frameRun_of_E _ 30 _ _ _ _ _ (by decide)
    simp [hdlBody, hdlSusp, frameRunE, compileBody, compS, codeLen, Vm.entry, Vm.enter, runLoop, step, exec, Vm.push, frameExit,
      setLocal, getLocal, ExcInfo.isSet, unwindExceptHandler, SV.asType]
  · intro e
    apply frameRun_of_E _ 30 _ _ _ _ _ (by decide)
    simp [hdlBody, hdlSusp, frameRunE, compileBody, compS, codeLen, Vm.entry, Vm.enter, Vm.setException, runLoop, step, frameExit,
      ExcInfo.isSet, unwind1, unwindExceptHandler, SV.asType]


/-! ## `drive` is the model history `modelOps` of Spec.lean -/

def FOp.toG : FOp → GOp
  | .next => .send .none
  | .send v => .send v
  | .throw e => .throw e
  | .close => .close

def FRes.toAns : FRes → GAns
  | .resp r => .resp r
  | .closed none => .closed
  | .closed (some e) => .closeErr e

theorem drive_modelOps {φ : Type} (run : Entry → φ → RunOut × φ) (ops : List FOp) (g : GenObj φ) :
    (drive run ops g).1.map FRes.toAns = modelOps run (ops.map FOp.toG) g := by
  induction ops generalizing g with
  | nil => rfl
  | cons op r ih =>
    cases op with
    | next => simp [drive, applyOp, modelOps, FOp.toG, FRes.toAns, GenObj.next, ih]
    | send v => simp [drive, applyOp, modelOps, FOp.toG, FRes.toAns, ih]
    | throw e => simp [drive, applyOp, modelOps, FOp.toG, FRes.toAns, ih]
    | close =>
      simp only [drive, applyOp, modelOps, FOp.toG, List.map_cons, ih]
      cases (g.close run).1 <;> simp [FRes.toAns]

end GPy.C05
