/-
C05 case generator (core Lean only).

`it <consumer> <kind> <script> [<kind> <script>]` : consumer × producer kind × script, exhaustive over every
script of bounded length over {item, raise StopIteration, raise StopIteration(), StopIteration(v)/return v,
raise KeyError} (every position of stop/raise) plus seeded random longer scripts.
`gen <templates> <ops>` : histories of next/send interleaved over up to 3 live generators whose bodies have
loops, locals, try/finally, early return, raise and yield from.
-/
import GPy.Common.Basic
import GPy.C05.Spec
import GPy.C05.Body
import GPy.C05.Frame
import GPy.C05.GenRet
namespace GPy.C05

/-! ### rendering -/

def Exc.py : Exc → String
  | .value => "ValueError" | .key => "KeyError" | .type => "TypeError" | .zeroDiv => "ZeroDivisionError"
  | .index => "IndexError" | .runtime => "RuntimeError" | .attr => "AttributeError" | .lookup => "LookupError"
  | .genExit => "GeneratorExit"

def Exc.tok : Exc → String
  | .value => "value" | .key => "key" | .type => "type" | .zeroDiv => "zeroDiv"
  | .index => "index" | .runtime => "runtime" | .attr => "attr" | .lookup => "lookup" | .genExit => "genExit"

def showVal : Val → String
  | .int i => toString i
  | .str s => "'" ++ s ++ "'"
  | .pair a b => "T[" ++ showVal a ++ ", " ++ showVal b ++ "]"
  | .none => "None"

def showVals (xs : List Val) : String := ", ".intercalate (xs.map showVal)

def showOut : Out → String
  | .list xs => "L[" ++ showVals xs ++ "]"
  | .tuple xs => "T[" ++ showVals xs ++ "]"
  | .set xs => "S[" ++ ", ".intercalate ((xs.map showVal).toArray.qsort (· < ·)).toList ++ "]"
  | .bool b => if b then "True" else "False"
  | .val v => showVal v
  | .str s => "'" ++ s ++ "'"
  | .unpacked pre star post =>
    "T[T[" ++ showVals pre ++ "], " ++ (match star with | some l => "L[" ++ showVals l ++ "]" | none => "None")
      ++ ", T[" ++ showVals post ++ "]]"
  | .yf items ret => "T[L[" ++ showVals items ++ "], " ++ showVal ret ++ "]"
  | .err (.exc e) => "E:" ++ e.py
  | .err (.stopIteration .none) => "E:StopIteration()"
  | .err (.stopIteration v) => "E:StopIteration(" ++ showVal v ++ ")"
  | .fuel => "FUEL"

def tokVal : Val → String
  | .int i => s!"i{i}"
  | .str s => s!"a{s}"
  | .pair (.int a) (.int b) => s!"p{a}:{b}"
  | _ => "n"

def Step.tok : Step → String
  | .item v => tokVal v
  | .stopClass => "S"
  | .stopInstance => "I"
  | .stopVal (.int i) => s!"V{i}"
  | .stopVal _ => "V0"
  | .raise e => "R" ++ e.tok

def scriptTok (sc : Script) : String := if sc.isEmpty then "-" else ",".intercalate (sc.map Step.tok)

/-! ### primitive operations on the concrete values (instances of the theorems' parameters) -/

def truth : Val → Except Exc Bool
  | .int i => .ok (i != 0)
  | .str s => .ok (s != "")
  | .pair _ _ => .ok true
  | .none => .ok false

def eqv (a b : Val) : Except Exc Bool := .ok (a == b)

def addv : Val → Val → Except Exc Val
  | .int a, .int b => .ok (.int (a + b))
  | _, _ => .error .type

def lev : Val → Val → Except Exc Bool
  | .int a, .int b => .ok (a ≤ b)
  | _, _ => .error .type

def gev : Val → Val → Except Exc Bool
  | .int a, .int b => .ok (a ≥ b)
  | _, _ => .error .type

def insertSorted (v : Int) : List Int → List Int
  | [] => [v]
  | x :: r => if v < x then v :: x :: r else x :: insertSorted v r

def sortv (xs : List Val) : Except Exc (List Val) :=
  if xs.all (fun v => match v with | .int _ => true | _ => false) then
    .ok ((xs.foldl (fun acc v => match v with | .int i => insertSorted i acc | _ => acc) []).map .int)
  else .error .type

def pairF (v : Val) : Except NextErr Val := .ok (.pair v v)

/-- `key=negkey` with `def negkey(v): return -v` (TypeError for a non-int) -/
def negKey : Val → Except PyErr Val
  | .int i => .ok (.int (-i))
  | _ => .error (.exc .type)

/-- `sorted(it, key=negkey)`: stable sort by descending value -/
def insertSortedDesc (v : Int) : List Int → List Int
  | [] => [v]
  | x :: r => if v > x then v :: x :: r else x :: insertSortedDesc v r

def sortNegv (xs : List Val) : Except Exc (List Val) :=
  if xs.all (fun v => match v with | .int _ => true | _ => false) then
    .ok ((xs.foldl (fun acc v => match v with | .int i => insertSortedDesc i acc | _ => acc) []).map .int)
  else .error .type

/-- `kv(v) = ('k' + str(v), v)` -/
def kvF : Val → Except NextErr Val
  | .int i => .ok (.pair (.str ("k" ++ toString i)) (.int i))
  | _ => .error (.other .type)

def dictInsert (k v : Val) : List (Val × Val) → List (Val × Val)
  | [] => [(k, v)]
  | (k', v') :: r => if k' == k then (k, v) :: r else (k', v') :: dictInsert k v r

def valKeyLt : Val × Val → Val × Val → Bool
  | (.str a, _), (.str b, _) => a < b
  | _, _ => false

/-- `d = {'a': 0}; d.update(pairs); [(k, d[k]) for k in sorted(d)]` -/
def dictFin (xs : List Val) : Out :=
  if xs.all (fun v => match v with | .pair _ _ => true | _ => false) then
    let d := xs.foldl (fun acc v => match v with | .pair k w => dictInsert k w acc | _ => acc) [(Val.str "a", Val.int 0)]
    .list ((d.toArray.qsort valKeyLt).toList.map (fun kv => .pair kv.1 kv.2))
  else .err (.exc .type)

/-! ### producers -/

inductive Kind | user | gen | mapped | getitem | builtin | genexp
deriving DecidableEq, Repr, Inhabited

def Kind.tok : Kind → String
  | .user => "user" | .gen => "gen" | .mapped => "mapped" | .getitem => "getitem" | .builtin => "builtin" | .genexp => "genexp"

/-- frame of `(x for x in It(codes))` -/
def genexpRun (_ : Entry) (st : Script) : RunOut × Script :=
  match doForIter userNext st with
  | .push v s' => (.yield v, s')
  | .jump => (.ret .none, st)
  | .raise e => (.raise e, st)

/-- run a (polymorphic) consumer on the iterator object of the given kind -/
def withProducer (kind : Kind) (sc : Script) (k : {σ : Type} → (σ → Resp × σ) → σ → Out) : Out :=
  match kind with
  | .user => k userNext sc
  | .gen => k (genNext scriptRun) (newGenerator sc)
  | .mapped => k (mapNext decodeF listIterNext) (sc.map encodeStep)
  | .getitem => k (iteratorNext (getitemOf sc)) 0
  | .builtin => k listIterNext (itemsOf sc)
  | .genexp => k (genNext genexpRun) (newGenerator sc)

/-- the script a kind realises (a generator expression forgets the value of the StopIteration
that ended its source; a builtin list iterator only has the items) -/
def kindScript (kind : Kind) (sc : Script) : Script :=
  match kind with
  | .genexp => sc.map (fun st => match st with | .stopVal _ => .stopClass | s => s)
  | .builtin => (itemsOf sc).map .item
  | _ => sc

/-! ### consumers -/

structure Consumer where
  tok : String
  model : {σ : Type} → (σ → Resp × σ) → Nat → σ → Out
  spec : Script → Out

instance : Inhabited Consumer := ⟨{ tok := "?", model := fun _ _ _ => .fuel, spec := fun _ => .fuel }⟩

def consumers : List Consumer := [
  { tok := "list", model := fun next fuel s => sequenceList next fuel s, spec := specList },
  { tok := "tuple", model := fun next fuel s => sequenceTuple next fuel s, spec := specTuple },
  { tok := "set", model := fun next fuel s => sequenceSet next fuel s, spec := specSet },
  { tok := "sorted", model := fun next fuel s => builtinSorted sortv next fuel s, spec := specSorted sortv },
  { tok := "star", model := fun next fuel s => starArgs next fuel s, spec := specTuple },
  { tok := "in:2", model := fun next fuel s => sequenceContains eqv (.int 2) next fuel s, spec := specContains eqv (.int 2) },
  { tok := "in:7", model := fun next fuel s => sequenceContains eqv (.int 7) next fuel s, spec := specContains eqv (.int 7) },
  { tok := "join", model := fun next fuel s => join "," next fuel s, spec := specJoin "," },
  { tok := "for", model := fun next fuel s => forCollect next fuel s, spec := specList },
  { tok := "comp", model := fun next fuel s => forCollect next fuel s, spec := specList },
  { tok := "setcomp", model := fun next fuel s =>
      match forLoop next (fun (l : List Val) v => .ok (setAdd l v, false)) fuel s [] with
      | .ok (some l) => .set l | .ok none => .fuel | .error e => .err e,
    spec := specSet },
  { tok := "forbreak:1", model := fun next fuel s =>
      match forLoop next (fun (l : List Val) v => if v == .int 1 then .ok (l, true) else .ok (l ++ [v], false)) fuel s [] with
      | .ok (some l) => .list l | .ok none => .fuel | .error e => .err e,
    spec := fun sc => match specFor (fun (l : List Val) v => if v == .int 1 then .ok (l, true) else .ok (l ++ [v], false)) sc [] with
      | .ok (some l) => .list l | .ok none => .fuel | .error e => .err e },
  { tok := "unpack:0", model := fun next fuel s => unpackIterable next 0 none fuel s, spec := fun sc => specUnpack 0 sc [] },
  { tok := "unpack:1", model := fun next fuel s => unpackIterable next 1 none fuel s, spec := fun sc => specUnpack 1 sc [] },
  { tok := "unpack:2", model := fun next fuel s => unpackIterable next 2 none fuel s, spec := fun sc => specUnpack 2 sc [] },
  { tok := "unpack:3", model := fun next fuel s => unpackIterable next 3 none fuel s, spec := fun sc => specUnpack 3 sc [] },
  { tok := "unpackex:0:0", model := fun next fuel s => unpackIterable next 0 (some 0) fuel s, spec := fun sc => specUnpackEx 0 0 sc [] },
  { tok := "unpackex:1:0", model := fun next fuel s => unpackIterable next 1 (some 0) fuel s, spec := fun sc => specUnpackEx 1 0 sc [] },
  { tok := "unpackex:1:1", model := fun next fuel s => unpackIterable next 1 (some 1) fuel s, spec := fun sc => specUnpackEx 1 1 sc [] },
  { tok := "unpackex:0:2", model := fun next fuel s => unpackIterable next 0 (some 2) fuel s, spec := fun sc => specUnpackEx 0 2 sc [] },
  { tok := "all", model := fun next fuel s => builtinAll truth next fuel s, spec := specAllTrue truth },
  { tok := "any", model := fun next fuel s => builtinAny truth next fuel s, spec := specAny truth },
  { tok := "sum", model := fun next fuel s => builtinSum addv next fuel s (.int 0), spec := fun sc => specSum addv sc (.int 0) },
  { tok := "sumstart:10", model := fun next fuel s => builtinSum addv next fuel s (.int 10), spec := fun sc => specSum addv sc (.int 10) },
  { tok := "min", model := fun next fuel s => minMax lev next fuel s none, spec := fun sc => specMinMax lev sc none },
  { tok := "max", model := fun next fuel s => minMax gev next fuel s none, spec := fun sc => specMinMax gev sc none },
  { tok := "maxd:1", model := fun next fuel s => minMax gev next fuel s (some (.int 1)), spec := fun sc => specMinMax gev sc (some (.int 1)) },
  { tok := "mind:1", model := fun next fuel s => minMax lev next fuel s (some (.int 1)), spec := fun sc => specMinMax lev sc (some (.int 1)) },
  { tok := "maxkey", model := fun next fuel s => minMaxKey negKey gev next fuel s none, spec := fun sc => specMinMaxKey negKey gev sc none none },
  { tok := "minkeyd:5", model := fun next fuel s => minMaxKey negKey lev next fuel s (some (.int 5)), spec := fun sc => specMinMaxKey negKey lev sc none (some (.int 5)) },
  { tok := "sortedkey", model := fun next fuel s => builtinSorted sortNegv next fuel s, spec := specSorted sortNegv },
  { tok := "extend", model := fun next fuel s => listExtend next fuel s [.int 5], spec := specExtend [.int 5] },
  { tok := "iadd", model := fun next fuel s => listExtend next fuel s [.int 5], spec := specExtend [.int 5] },
  { tok := "setupdate", model := fun next fuel s => setUpdate next fuel s [.int 2, .int 4], spec := specSetUpdate [.int 2, .int 4] },
  { tok := "dictupdate", model := fun next fuel s => collectThen dictFin (mapNext kvF next) fuel s, spec := fun sc => specAll dictFin (mapScript kvF sc) },
  { tok := "slice", model := fun next fuel s => collectThen (fun xs => .list ([.int 5] ++ xs ++ [.int 6])) next fuel s,
    spec := specAll (fun xs => .list ([.int 5] ++ xs ++ [.int 6])) },
  { tok := "next", model := fun next _ s => builtinNext next s none, spec := specNext none },
  { tok := "nextd:9", model := fun next _ s => builtinNext next s (some (.int 9)), spec := specNext (some (.int 9)) },
  { tok := "yf", model := fun next fuel s => yieldFromCollect next fuel (newGenerator (.inl s)) [], spec := specYieldFrom }
]

/-- outer consumers used on top of an adapter -/
def outerConsumers : List Consumer := consumers.filter (fun c => c.tok ∈ ["list", "for", "tuple", "sum", "next", "unpack:2", "all"])

structure Adapter where
  tok : String
  wrap : Consumer → Consumer

def adapters : List Adapter := [
  { tok := "enum", wrap := fun c => ({ tok := c.tok ++ ":enum", model := fun next fuel s => c.model (enumNext next) fuel (0, s), spec := fun sc => c.spec (enumScript 0 sc) } : Consumer) },
  { tok := "map", wrap := fun c => ({ tok := c.tok ++ ":map", model := fun next fuel s => c.model (mapNext pairF next) fuel s, spec := fun sc => c.spec (mapScript pairF sc) } : Consumer) },
  { tok := "filter", wrap := fun c => ({ tok := c.tok ++ ":filter", model := fun next fuel s => c.model (filterNext truth fuel next) fuel s, spec := fun sc => c.spec (filterScript truth sc) } : Consumer) }
]

def mkItCase (c : Consumer) (kind : Kind) (sc : Script) : Case :=
  let fuel := sc.length + 4
  let m := withProducer kind sc (fun next s => c.model next fuel s)
  let sp := c.spec (kindScript kind sc)
  let nt := sc.any (fun st => match st with | .item _ => false | _ => true)
  { input := s!"it {c.tok} {kind.tok} {scriptTok sc}", modelV := showOut m, specV := showOut sp,
    tags := if nt then ["nt"] else [] }

/-- zip of two producers under an outer consumer -/
def mkZipCase (c : Consumer) (k1 : Kind) (sc1 : Script) (k2 : Kind) (sc2 : Script) : Case :=
  let fuel := sc1.length + sc2.length + 4
  let m := withProducer k1 sc1 (fun next1 s1 => withProducer k2 sc2 (fun next2 s2 => c.model (zipNext next1 next2) fuel (s1, s2)))
  let sp := c.spec (zipScript (kindScript k1 sc1) (kindScript k2 sc2))
  let nt := (sc1 ++ sc2).any (fun st => match st with | .item _ => false | _ => true)
  { input := s!"it {c.tok}:zip {k1.tok} {scriptTok sc1} {k2.tok} {scriptTok sc2}", modelV := showOut m, specV := showOut sp,
    tags := if nt then ["nt"] else [] }

/-! ### round 3: every consumer over a generator that RETURNS a value of the rich universe (`Ret.PV`) -/

/-- what the consumers of `Model.lean` can see of a return value: whether it is None (scalars are kept) -/
def absV : Ret.PV → Val
  | .none => .none
  | .int i => .int i
  | .str s => .str s
  | _ => .str "obj"

def showOutRet (v : Ret.PV) : Out → String
  | .err (.stopIteration x) => if x == .none then "E:StopIteration()" else "E:StopIteration(" ++ Ret.PV.show v ++ ")"
  | o => showOut o

/-- consumer `c` over `DG(…DG(T(v)))` (`depth` ≤ 1 delegators `r = yield from x; return r`) -/
def mkItRetCase (c : Consumer) (t : Ret.RT) (depth : Nat) (v : Ret.PV) : Case :=
  let res := t.res v
  let sc : Script := (t.items.map (fun _ => Step.item (.int 1))) ++ [.stopVal (absV res)]
  let fuel := sc.length + 4
  let m := if depth == 0 then c.model (genNext scriptRun) fuel (newGenerator sc)
    else c.model (genNext (delegRun (genNext scriptRun) (fun s _ => genNext scriptRun s))) fuel (newGenerator (.inl (newGenerator sc)))
  { input := s!"it {c.tok} retg:{t.tok}:{depth} {v.py}", modelV := showOutRet v m, specV := showOutRet v (c.spec sc), tags := ["nt"] }

/-! ### script enumeration -/

/-- item value at position `i` (repeats, a falsy value, out-of-order) -/
def itemAt (strs : Bool) (i : Nat) : Val :=
  if strs then .str (["b", "a", "", "c", "b", "d"].getD (i % 6) "z")
  else .int ([2, 0, 2, 1, 3, 7].getD (i % 6) 5)

/-- all scripts of exactly length `n` over {item, S, I, V9, Rkey}; items get position-dependent values -/
def scriptsOfLen (strs : Bool) : Nat → Nat → List Script
  | 0, _ => [[]]
  | n + 1, pos =>
    let rest := scriptsOfLen strs n (pos + 1)
    let heads : List Step := [.item (itemAt strs pos), .stopClass, .stopInstance, .stopVal (.int 9), .raise .key]
    heads.flatMap (fun h => rest.map (fun r => h :: r))

def scriptsUpTo (strs : Bool) (n : Nat) : List Script :=
  (List.range (n + 1)).flatMap (fun k => scriptsOfLen strs k 0)

/-- reduced family: k items, one terminator (or none), optionally one more item afterwards -/
def scriptsEdge (strs : Bool) (n : Nat) : List Script :=
  (List.range (n + 1)).flatMap (fun k =>
    let pre := (List.range k).map (fun i => Step.item (itemAt strs i))
    [pre] ++ ([Step.stopClass, .stopInstance, .stopVal (.int 9), .raise .key, .raise .value].flatMap (fun t =>
      [pre ++ [t], pre ++ [t, .item (itemAt strs k)]])))

def itemsOnly (sc : Script) : Bool := sc.all (fun st => match st with | .item _ => true | _ => false)

def randStep (r : Rng) (strs : Bool) : Rng × Step :=
  let (r, k) := r.nat 12
  let (r, v) := r.nat 9
  let (r, e) := r.nat 8
  let excs : Array Exc := #[.value, .key, .type, .zeroDiv, .runtime, .attr, .lookup, .key]
  let item : Val := if strs then .str (["", "a", "b", "ab", "c"].getD (v % 5) "q") else .int ((v : Int) - 2)
  (r, match k with
    | 0 => .stopClass | 1 => .stopInstance | 2 => .stopVal (.int v) | 3 => .raise (excs[e]!)
    | _ => .item item)

def randScript (r : Rng) (strs : Bool) (maxLen : Nat) : Rng × Script := Id.run do
  let (r0, n) := r.nat (maxLen + 1)
  let mut r := r0
  let mut sc : Script := []
  for _ in [0:n] do
    let (r', st) := randStep r strs
    r := r'
    sc := sc ++ [st]
  return (r, sc)

/-! ### generator histories -/

structure AState where
  n : Nat
  pc : Nat      -- 0 not started, 1 suspended at the yield, 2 finished
  i : Nat
  tot : Int

def aLoop (n i : Nat) (tot : Int) : RunOut × AState :=
  if i < n then (.yield (.int (tot * 100 + i)), ⟨n, 1, i, tot⟩) else (.ret (.int tot), ⟨n, 2, i, tot⟩)

/-- body of `A(n)` as a resumable machine (no handlers: an exception thrown in at the yield ends it) -/
def runA (ent : Entry) (st : AState) : RunOut × AState :=
  match st.pc with
  | 0 => aLoop st.n 0 0
  | 1 =>
    match ent with
    | .throw e => (.raise e, ⟨st.n, 2, st.i, st.tot⟩)
    | .send (.int 6) => (.raise (.other .key), ⟨st.n, 2, st.i, st.tot⟩)   -- `if x == 6: raise KeyError`: lets D(n) die from an exception propagated out of its sub-generator
    | _ =>
      let tot := match ent with | .send (.int x) => st.tot + x | _ => st.tot
      aLoop st.n (st.i + 1) tot
  | _ => (.ret .none, st)

structure FState where
  n : Nat
  pc : Nat      -- 0 start, 1 at `yield i` (inside try/finally), 2 at `yield 50+i`, 3 finished
  i : Nat
  log : List Int
deriving Inhabited

def fLoopS (n i : Nat) (log : List Int) : RunOut × FState :=
  if i < n then (.yield (.int i), ⟨n, 1, i, log⟩) else (.yield (.int (50 + i)), ⟨n, 2, i, log ++ [(i : Int)]⟩)

/-- body of `F(n, log)` as a resumable machine -/
def runF (ent : Entry) (st : FState) : RunOut × FState :=
  match st.pc with
  | 0 => fLoopS st.n 0 st.log
  | 1 =>
    match ent with
    | .throw e => (.raise e, ⟨st.n, 3, st.i, st.log ++ [(st.i : Int)]⟩)                    -- thrown at `yield i` inside try: finally runs while unwinding
    | .send (.int 7) => (.raise (.other .key), ⟨st.n, 3, st.i, st.log ++ [(st.i : Int)]⟩)  -- finally runs while unwinding
    | .send (.int 8) => (.ret (.int (80 + st.i)), ⟨st.n, 3, st.i, st.log ++ [(st.i : Int)]⟩)  -- return inside try: finally first
    | _ => fLoopS st.n (st.i + 1) st.log
  | 2 =>
    match ent with
    | .throw e => (.raise e, ⟨st.n, 3, st.i, st.log⟩)                                      -- thrown at `yield 50+i`, after the try statement
    | _ => (.ret .none, ⟨st.n, 3, st.i, st.log ++ [99]⟩)
  | _ => (.ret .none, st)

/-- MODEL of a frame suspended in `yield from g` (g a generator object): `do_YIELD_FROM` on a normal entry,
RunFrame's `throwYieldFrom` when an exception is thrown in.  `inl` = still delegating or raising, `inr v` = the
sub-generator finished and the `yield from` expression has the value `v`. -/
def delegModel {ι : Type} (runI : Entry → ι → RunOut × ι) (ent : Entry) (g : GenObj ι) : (RunOut × GenObj ι) ⊕ (Val × GenObj ι) :=
  match ent with
  | .throw e =>
    if e.isGenExit then
      match (g.close runI).1, (g.close runI).2.1 with
      | some err, g' => .inl (.raise err, g')
      | none, g' => .inl (.raise e, g')
    else
      match g.throw runI e with
      | (.item v, g', _) => .inl (.yield v, g')
      | (.err x, g', _) =>
        if x.isStop then .inr (x.stopValue, g')          -- Lasti++ ; SET_TOP(stopIterationValue(err)); go on
        else .inl (.raise x, g')
  | _ =>
    match yieldFromStep Generated.k_vm_eval_do_YIELD_FROM_0 (genNext runI) (fun s u => let r := s.send runI u; (r.1, r.2.1)) ent.sent g with
    | .inl (o, g') => .inl (o, g')
    | .inr (v, g') => .inr (v, g')

/-- SPEC of `yield from` (PEP 380) over the sub-coroutine: values and sent values pass through, GeneratorExit closes the
sub-generator and is then raised in the delegating generator, any other exception is thrown into the sub-generator -/
def delegSpec {ι : Type} (runI : Entry → ι → RunOut × ι) (ent : Entry) (started : Bool) (inner : ι) : (RunOut × ι) ⊕ (Val × ι) :=
  match ent with
  | .throw e =>
    if e.isGenExit then
      match runI (.throw e) inner with
      | (.yield _, inner') => .inl (.raise (.other .runtime), inner')
      | (.ret _, inner') => .inl (.raise e, inner')
      | (.raise x, inner') => .inl (.raise (if x.isStop || x.isGenExit then e else x), inner')
    else
      match runI (.throw e) inner with
      | (.yield v, inner') => .inl (.yield v, inner')
      | (.ret v, inner') => .inr (v, inner')
      | (.raise x, inner') => .inl (.raise x, inner')
  | _ =>
    -- the first entry does next(inner); afterwards a None is next(inner), anything else inner.send(x)
    match runI (if started then ent else .first) inner with
    | (.yield v, inner') => .inl (.yield v, inner')
    | (.ret v, inner') => .inr (v, inner')
    | (.raise e, inner') => .inl (.raise e, inner')

inductive TState
  | a (st : AState)
  | f (n pc i : Nat) (log : List Int)      -- pc: 0 start, 1 at `yield i`, 2 at `yield 50+i`, 3 finished
  | h (n pc i : Nat) (log : List Int)      -- pc: 0 start, 1 at `yield i*2`, 2 at `yield x+1`, 3 finished
  | d (pc : Nat) (inner : GenObj AState)   -- model: D(n) delegating to a generator object A(n) through do_YIELD_FROM
  | ds (pc : Nat) (started : Bool) (inner : AState)   -- spec: D(n) delegating to the coroutine A(n)
  | g (pc : Nat) (inner : GenObj FState)    -- model: G(n) = `r = yield from F(n, log); yield r`
  | gs (pc : Nat) (started : Bool) (inner : FState)   -- spec: the same over the coroutine F
  | e (pc : Nat) (log : List Int)           -- E: yields inside an except handler, then a bare `raise`
  | r                                       -- the re-entrant generator
deriving Inhabited

instance : Inhabited (GenObj TState) := ⟨newGenerator .r⟩

def fLoop (n i : Nat) (log : List Int) : RunOut × TState :=
  if i < n then (.yield (.int i), .f n 1 i log) else (.yield (.int (50 + i)), .f n 2 i (log ++ [(i : Int)]))

def hLoop (n i : Nat) (log : List Int) : RunOut × TState :=
  if i < n then (.yield (.int (i * 2)), .h n 1 i log) else (.ret .none, .h n 3 i log)

def addInt (k : Int) : Val → Val
  | .int r => .int (k + r)
  | v => v

def runT (ent : Entry) : TState → RunOut × TState
  | .a st => let r := runA ent st; (r.1, .a r.2)
  | .f n 0 _ log => fLoop n 0 log
  | .f n 1 i log =>
    match ent with
    | .throw e => (.raise e, .f n 3 i (log ++ [(i : Int)]))                         -- thrown at `yield i` inside try: finally runs while unwinding
    | .send (.int 7) => (.raise (.other .key), .f n 3 i (log ++ [(i : Int)]))       -- finally runs while unwinding
    | .send (.int 8) => (.ret (.int (80 + i)), .f n 3 i (log ++ [(i : Int)]))       -- return inside try: finally first
    | _ => fLoop n (i + 1) log
  | .f n 2 i log =>
    match ent with
    | .throw e => (.raise e, .f n 3 i log)                                          -- thrown at `yield 50+i`, after the try statement
    | _ => (.ret .none, .f n 3 i (log ++ [99]))
  | .f n pc i log => (.ret .none, .f n pc i log)
  | .h n 0 _ log => hLoop n 0 log
  | .h n 1 i log =>
    let log' := log ++ [(i : Int)]
    match ent with
    | .throw e => (.raise e, .h n 3 i log')
    | .send (.int x) => (.yield (.int (x + 1)), .h n 2 i log')
    | _ => hLoop n (i + 1) log'
  | .h n 2 i log =>
    match ent with
    | .throw e => (.raise e, .h n 3 i log)
    | _ => hLoop n (i + 1) log
  | .h n pc i log => (.ret .none, .h n pc i log)
  | .d 0 g =>
    match ent with
    | .throw e =>
      -- RunFrame's `throwYieldFrom`: the frame is suspended in YIELD_FROM with the generator object `g` on top
      if e.isGenExit then
        match (g.close runA).1, (g.close runA).2.1 with
        | some err, g' => (.raise err, .d 2 g')
        | none, g' => (.raise e, .d 2 g')
      else
        match g.throw runA e with
        | (.item v, g', _) => (.yield v, .d 0 g')
        | (.err x, g', _) =>
          if x.isStop then (.yield (addInt 1000 x.stopValue), .d 1 g')   -- Lasti++ ; SET_TOP(stopIterationValue(err)); go on
          else (.raise x, .d 2 g')
    | _ =>
      match yieldFromStep Generated.k_vm_eval_do_YIELD_FROM_0 (genNext runA) (fun s u => let r := s.send runA u; (r.1, r.2.1))
          ent.sent g with
      | .inl (o, g') => (o, .d 0 g')
      | .inr (v, g') => (.yield (addInt 1000 v), .d 1 g')
  | .d 1 g =>
    match ent with
    | .throw e => (.raise e, .d 2 g)
    | _ => (.ret .none, .d 2 g)
  | .d pc g => (.ret .none, .d pc g)
  | .ds 0 started inner =>
    match ent with
    | .throw e =>
      -- PEP 380: GeneratorExit closes the sub-generator and is then raised here; any other exception is thrown into it
      if e.isGenExit then
        match runA (.throw e) inner with
        | (.yield _, inner') => (.raise (.other .runtime), .ds 2 true inner')
        | (.ret _, inner') => (.raise e, .ds 2 true inner')
        | (.raise x, inner') => (.raise (if x.isStop || x.isGenExit then e else x), .ds 2 true inner')
      else
        match runA (.throw e) inner with
        | (.yield v, inner') => (.yield v, .ds 0 true inner')
        | (.ret v, inner') => (.yield (addInt 1000 v), .ds 1 true inner')
        | (.raise x, inner') => (.raise x, .ds 2 true inner')
    | _ =>
      -- Python: the first entry does next(inner); afterwards a None is next(inner), anything else inner.send(x)
      match runA (if started then ent else .first) inner with
      | (.yield v, inner') => (.yield v, .ds 0 true inner')
      | (.ret v, inner') => (.yield (addInt 1000 v), .ds 1 true inner')
      | (.raise e, inner') => (.raise e, .ds 2 true inner')
  | .ds 1 st inner =>
    match ent with
    | .throw e => (.raise e, .ds 2 st inner)
    | _ => (.ret .none, .ds 2 st inner)
  | .ds pc st inner => (.ret .none, .ds pc st inner)
  | .g 0 g =>
    match delegModel runF ent g with
    | .inl (.raise x, g') => (.raise x, .g 2 g')
    | .inl (o, g') => (o, .g 0 g')
    | .inr (v, g') => (.yield v, .g 1 g')
  | .g 1 g =>
    match ent with
    | .throw e => (.raise e, .g 2 g)
    | _ => (.ret .none, .g 2 g)
  | .g pc g => (.ret .none, .g pc g)
  | .gs 0 started inner =>
    match delegSpec runF ent started inner with
    | .inl (.raise x, inner') => (.raise x, .gs 2 true inner')
    | .inl (o, inner') => (o, .gs 0 true inner')
    | .inr (v, inner') => (.yield v, .gs 1 true inner')
  | .gs 1 st inner =>
    match ent with
    | .throw e => (.raise e, .gs 2 st inner)
    | _ => (.ret .none, .gs 2 st inner)
  | .gs pc st inner => (.ret .none, .gs pc st inner)
  | .e 0 log => (.yield (.int 1), .e 1 log)            -- try: raise KeyError / except KeyError: x = yield 1
  | .e 1 log =>
    match ent with
    | .throw x => (.raise x, .e 2 log)                 -- thrown into the handler: it propagates
    | _ => (.raise (.other .key), .e 2 (log ++ [1]))   -- log.append(1); raise  -> the KeyError being handled when the frame yielded
  | .e pc log => (.ret .none, .e pc log)
  | .r =>
    -- body `yield next(h)` where h is this very generator: Send sees Running = true
    let g : GenObj Unit := { fresh := false, yielded := false, running := true, frame := () }
    match (g.send (fun _ u => (.ret .none, u)) .none).1 with
    | .err e => (.raise e, .r)
    | .item v => (.yield v, .r)

def logOf : TState → List Int
  | .f _ _ _ log => log
  | .h _ _ _ log => log
  | .e _ log => log
  | .g _ g => g.frame.log
  | .gs _ _ inner => inner.log
  | _ => []

inductive Tmpl | A (n : Nat) | F (n : Nat) | D (n : Nat) | H (n : Nat) | E (n : Nat) | G (n : Nat)
deriving Inhabited

def Tmpl.tok : Tmpl → String
  | .A n => s!"A{n}" | .F n => s!"F{n}" | .D n => s!"D{n}" | .H n => s!"H{n}" | .E n => s!"E{n}" | .G n => s!"G{n}"

def Tmpl.init (spec : Bool) : Tmpl → TState
  | .A n => .a ⟨n, 0, 0, 0⟩
  | .F n => .f n 0 0 []
  | .H n => .h n 0 0 []
  | .E _ => .e 0 []
  | .G n => if spec then .gs 0 false ⟨n, 0, 0, []⟩ else .g 0 (newGenerator ⟨n, 0, 0, []⟩)
  | .D n => if spec then .ds 0 false ⟨n, 0, 0, 0⟩ else .d 0 (newGenerator ⟨n, 0, 0, 0⟩)

inductive Op | next (g : Nat) | send (g : Nat) (v : Int) | reenter | close (g : Nat) | throw (g : Nat) (e : Exc)

def Op.tok : Op → String
  | .next g => s!"n{g}" | .send g v => s!"s{g}:{v}" | .reenter => "r" | .close g => s!"c{g}" | .throw g e => s!"t{g}:{e.tok}"

def showResp : Resp → String
  | .item v => "y:" ++ showVal v
  | .err (.other e) => "e:" ++ e.py
  | .err e => "s:" ++ (match e.stopValue with | .none => "" | v => showVal v)

def showClose : Option NextErr → String
  | none => "c:"
  | some e => showResp (.err e)

def showAns : GAns → String
  | .resp r => showResp r
  | .closed => "c:"
  | .closeErr e => showResp (.err e)

def Op.gop : Op → Option (Nat × GOp)
  | .next g => some (g, .send .none)
  | .send g v => some (g, .send (.int v))
  | .close g => some (g, .close)
  | .throw g e => some (g, .throw (.other e))
  | .reenter => none

/-- the frame after a history under the reference semantics (for the final log) -/
def specFinal {φ : Type} (run : Entry → φ → RunOut × φ) : List GOp → Bool → Bool → φ → φ
  | [], _, _, fr => fr
  | .send a :: h, started, live, fr =>
    if !live then specFinal run h started live fr
    else if !started && a != .none then specFinal run h started live fr
    else
      let r := run (if started then .send a else .first) fr
      specFinal run h true (match r.1 with | .yield _ => true | _ => false) r.2
  | .throw e :: h, started, live, fr =>
    if !live then specFinal run h started live fr
    else if !started then specFinal run h true false fr
    else
      let r := run (.throw e) fr
      specFinal run h true (match r.1 with | .yield _ => true | _ => false) r.2
  | .close :: h, started, live, fr =>
    if !live then specFinal run h started live fr
    else if !started then specFinal run h true false fr
    else
      let r := run (.throw (.other .genExit)) fr
      specFinal run h true (match r.1 with | .yield _ => true | _ => false) r.2

/-- model: one `GenObj` per generator, each op is `Generator.Send` / `Throw` / `Close` -/
def runOpsModel (gens : Array (GenObj TState)) : List Op → List String → List String × Array (GenObj TState)
  | [], acc => (acc, gens)
  | .next g :: r, acc =>
    let x := gens[g]!.send runT .none
    runOpsModel (gens.set! g x.2.1) r (acc ++ [showResp x.1])
  | .send g v :: r, acc =>
    let x := gens[g]!.send runT (.int v)
    runOpsModel (gens.set! g x.2.1) r (acc ++ [showResp x.1])
  | .close g :: r, acc =>
    let x := gens[g]!.close runT
    runOpsModel (gens.set! g x.2.1) r (acc ++ [showClose x.1])
  | .throw g e :: r, acc =>
    let x := gens[g]!.throw runT (.other e)
    runOpsModel (gens.set! g x.2.1) r (acc ++ [showResp x.1])
  | .reenter :: r, acc =>
    let h : GenObj TState := newGenerator .r
    let x1 := h.send runT .none
    let x2 := x1.2.1.send runT .none
    runOpsModel gens r (acc ++ [showResp x1.1, showResp x2.1])

/-- spec: per generator the reference semantics over its own sub-history (`specOps`), reported in op order -/
def runOpsSpec (tm : Array Tmpl) (ops : List Op) : List String × List (List Int) := Id.run do
  let mut perGen : Array (List GAns) := #[]
  let mut logs : List (List Int) := []
  for gi in [0:tm.size] do
    let sub : List GOp := ops.filterMap (fun o => match o.gop with
      | some (g, x) => if g == gi then some x else none
      | none => none)
    perGen := perGen.push (specOps runT sub false true ((tm[gi]!).init true))
    logs := logs ++ [logOf (specFinal runT sub false true ((tm[gi]!).init true))]
  let mut idx : Array Nat := Array.replicate tm.size 0
  let mut out : List String := []
  for o in ops do
    match o.gop with
    | some (g, _) =>
      out := out ++ [showAns ((perGen[g]!).getD (idx[g]!) (.resp (.err .stopType)))]
      idx := idx.set! g (idx[g]! + 1)
    | none => out := out ++ ["e:ValueError", "s:"]
  return (out, logs)

def showLogs (logs : List (List Int)) : String :=
  "L[" ++ ", ".intercalate (logs.map (fun l => "L[" ++ ", ".intercalate (l.map toString) ++ "]")) ++ "]"

def mkGenCase (tm : List Tmpl) (ops : List Op) : Case :=
  let gens : Array (GenObj TState) := (tm.map (fun t => newGenerator (t.init false))).toArray
  let (mo, gens') := runOpsModel gens ops []
  let mlogs := gens'.toList.map (fun g => logOf g.frame)
  let (so, slogs) := runOpsSpec tm.toArray ops
  let opsTok := if ops.isEmpty then "-" else ",".intercalate (ops.map Op.tok)
  { input := s!"gen {",".intercalate (tm.map Tmpl.tok)} {opsTok}",
    modelV := " ".intercalate mo ++ " |" ++ showLogs mlogs, specV := " ".intercalate so ++ " |" ++ showLogs slogs,
    tags := if ops.length ≥ 2 then ["nt"] else [] }

/-- the three witnesses of the former known finding C05-K01 (throw/close unimplemented), now ordinary cases -/
def k01Cases : List Case :=
  [ mkGenCase [.A 2] [.next 0, .close 0, .next 0],
    mkGenCase [.A 2] [.close 0, .next 0],
    mkGenCase [.A 2] [.next 0, .throw 0 .value, .next 0] ]

/-- all op sequences of length `n` over the alphabet -/
def opSeqs (alpha : List Op) : Nat → List (List Op)
  | 0 => [[]]
  | n + 1 => alpha.flatMap (fun o => (opSeqs alpha n).map (fun r => o :: r))

def randOps (r : Rng) (ngen : Nat) (len : Nat) : Rng × List Op := Id.run do
  let mut r := r
  let mut ops : List Op := []
  for _ in [0:len] do
    let (r1, g) := r.nat ngen
    let (r2, k) := r1.nat 10
    let (r3, v) := r2.nat 6
    r := r3
    let o : Op := if k < 4 then .next g else if k < 7 then .send g ([5, 7, 8, 3, 6, -4].getD v 1)
      else if k < 8 then .throw g ([Exc.value, .key, .genExit, .runtime, .type, .lookup].getD v .value) else if k < 9 then .close g else .reenter
    ops := ops ++ [o]
  return (r, ops)

def randTmpl (r : Rng) : Rng × Tmpl :=
  let (r, k) := r.nat 5
  let (r, n) := r.nat 4
  (r, match k with | 0 => .A n | 1 => .F n | 2 => .D n | 3 => .G n | _ => .H n)

/-! ### generator bodies: statement language, reference coroutine vs the frame model -/

def showValLog (l : List Val) : String := "L[L[" ++ showVals l ++ "]]"

/-- ops on the single generator of a body case -/
def bodyOpTok : GOp → String
  | .send .none => "n0"
  | .send (.int v) => s!"s0:{v}"
  | .send _ => "n0"
  | .throw (.other e) => s!"t0:{e.tok}"
  | .throw _ => "t0:value"
  | .close => "c0"

/-- spec: Python's generator methods (`specOps`) over the coroutine the body denotes (`coRun`) -/
def bodySpec (b : S) (ops : List GOp) : String :=
  let ans := specOps coRun ops false true (coInit b)
  let fin := specFinal coRun ops false true (coInit b)
  " ".intercalate (ans.map showAns) ++ " |" ++ showValLog fin.log

def mkBodyCase (model : S → List GOp → String) (b : S) (ops : List GOp) : Case :=
  let src := (b.source.replace " " "\\s")
  let opsTok := if ops.isEmpty then "-" else ",".intercalate (ops.map bodyOpTok)
  { input := s!"body body:{src} {opsTok}", modelV := model b ops, specV := bodySpec b ops,
    tags := if ops.length ≥ 2 then ["nt"] else [] }

def bodyAtoms : List S := [.log 1, .yld 2, .brk, .cont, .ret 5, .raise .key, .raise .value]

/-- all bodies of nesting depth ≤ 1 over the atoms -/
def bodiesDepth1 : List S :=
  bodyAtoms ++ bodyAtoms.flatMap (fun a => bodyAtoms.map (fun b => S.seq a b)) ++ bodyAtoms.map (fun a => S.loop 2 a)
    ++ bodyAtoms.flatMap (fun a => bodyAtoms.map (fun b => S.tryFin a b))
    ++ bodyAtoms.flatMap (fun a => bodyAtoms.map (fun b => S.tryExc a .value b))

/-- the regression family: break / continue / return / raise / fall-through crossing a `finally` that yields
(the defect fixed by 53a0a1f: `try: return 1 finally: yield 2`), with and without an enclosing loop, nested, under a handler,
and the handlers that see a thrown exception -/
def bodyFamily : List S :=
  let xs : List S := [.log 3, .brk, .cont, .ret 5, .raise .key, .yld 4]
  let xs' : List S := [.log 3, .ret 5, .raise .key, .yld 4, .raise .value]
  xs.map (fun x => S.seq (.loop 2 (.tryFin (.seq (.log 1) x) (.yld 2))) (.yld 9))
  ++ xs'.map (fun x => S.seq (.tryFin x (.yld 2)) (.yld 9))
  ++ xs'.map (fun x => S.tryFin (.tryFin x (.yld 2)) (.yld 3))
  ++ xs.map (fun x => S.loop 2 (.tryFin (.tryFin (.seq (.log 1) x) (.yld 2)) (.log 7)))
  ++ xs.map (fun x => S.seq (.tryExc (.loop 2 (.tryFin x (.yld 2))) .key (.yld 8)) (.log 6))
  ++ xs'.flatMap (fun x => [S.brk, .cont, .log 3].map (fun y => S.tryFin x (.loop 2 (.seq (.yld 2) y))))
  ++ xs'.map (fun x => S.tryFin x (.seq (.yld 2) (.ret 7)))
  ++ [ .tryExc (.yld 1) .value (.yld 2), .tryExc (.yld 1) .genExit (.yld 2), .tryExc (.yld 1) .genExit (.ret 3),
       .tryExc (.yld 1) .genExit (.raise .key), .tryFin (.yld 1) (.ret 3), .loop 3 (.tryFin (.yld 1) .brk),
       .loop 2 (.tryExc (.yld 1) .value .cont), .loop 2 (.tryExc (.yld 1) .lookup (.yld 3)),
       .tryExc (.tryFin (.yld 1) (.log 9)) .value (.yld 2), .tryFin (.tryExc (.yld 1) .key (.log 8)) (.yld 2),
       .seq (.loop 2 (.seq (.yld 1) (.yld 2))) (.ret 4), .loop 2 (.loop 2 (.tryFin (.yld 1) (.log 9))),
       .tryExc (.seq (.yld 1) (.raise .index)) .lookup (.seq (.yld 2) (.raise .value)) ]

/-- model of a body case: the body compiled to bytecode (`compileBody`) and run on the transliteration of `vm.RunFrame`
(`frameRun`: value stack, block stack, locals; per-call Vm fields re-created at every entry) through `Generator.Send/Throw/Close` -/
def bodyModel (b : S) (ops : List GOp) : String :=
  let run := frameRun (compileBody b) 100000
  let ans := modelOps run ops (newGenerator frameInit)
  let fin := modelOpsFinal run ops (newGenerator frameInit)
  " ".intercalate (ans.map showAns) ++ " |" ++ showValLog fin.frame.log

def gopSeqs (alpha : List GOp) : Nat → List (List GOp)
  | 0 => [[]]
  | n + 1 => alpha.flatMap (fun o => (gopSeqs alpha n).map (fun r => o :: r))

def gopSeqsUpTo (alpha : List GOp) (n : Nat) : List (List GOp) := (List.range (n + 1)).flatMap (gopSeqs alpha)

/-! ### main -/

def usesStrs (c : Consumer) : Bool := c.tok.startsWith "join"

def genMain (tier : String) (seed : Nat) : IO Unit := do
  let thorough := tier == "thorough"
  let maxLen := if thorough then 5 else 4
  let kinds : List Kind := [.user, .gen, .mapped, .getitem, .genexp]
  -- (0) round 3: the return value of a generator through every reader, throw(type, value), and every consumer
  Ret.genRetMain tier seed
  for c in consumers do
    if c.tok != "yf" then
      for t in [Ret.RT.plain, .fin, .noyield] do
        for d in [0:2] do
          for v in Ret.retVals do
            IO.println (mkItRetCase c t d v).line
  -- (1) every consumer × producer kind × every script up to maxLen (every position of stop/raise)
  let scInts := scriptsUpTo false maxLen
  let scStrs := scriptsUpTo true maxLen
  -- quick tier: the full enumeration for the user-class and generator producers, one length less
  -- (plus the edge family: k items, a terminator, one more item) for the other kinds
  let scIntsS := if thorough then scInts else scriptsUpTo false (maxLen - 1) ++ scriptsEdge false 5
  let scStrsS := if thorough then scStrs else scriptsUpTo true (maxLen - 1) ++ scriptsEdge true 5
  for c in consumers do
    let scs := if usesStrs c then scStrs else scInts
    let scsS := if usesStrs c then scStrsS else scIntsS
    for kind in kinds do
      for sc in (if kind == .user || kind == .gen then scs else scsS) do
        IO.println (mkItCase c kind sc).line
    -- builtin list iterator: item-only scripts
    for sc in scs do
      if itemsOnly sc then IO.println (mkItCase c .builtin sc).line
  -- (2) adapters under outer consumers: edge family of scripts
  let edge := scriptsEdge false (if thorough then 4 else 3)
  for ad in adapters do
    for c in outerConsumers do
      let c' := ad.wrap c
      for kind in kinds do
        for sc in edge do
          IO.println (mkItCase c' kind sc).line
  -- zip: both sides vary
  let edge2 := scriptsEdge false 2
  for c in outerConsumers do
    for k1 in (if thorough then [Kind.user, .gen, .getitem] else [Kind.user, .gen]) do
      for k2 in (if thorough then [Kind.user, .gen, .builtin] else [Kind.gen, .builtin]) do
        for sc1 in edge2 do
          for sc2 in edge2 do
            if k2 != .builtin || itemsOnly sc2 then
              IO.println (mkZipCase c k1 sc1 k2 sc2).line
  -- (3) seeded random longer scripts
  let mut r : Rng := ⟨seed.toUInt64 * 7919 + 5⟩
  let carr := consumers.toArray
  let karr := kinds.toArray
  let nrand := if thorough then 40000 else 4000
  for _ in [0:nrand] do
    let (r1, ci) := r.nat carr.size
    let (r2, ki) := r1.nat karr.size
    let c := carr[ci]!
    let (r3, sc) := randScript r2 (usesStrs c) 8
    r := r3
    IO.println (mkItCase c karr[ki]! sc).line
  -- (4) generator histories: all interleavings of bounded length over 3 live generators
  let alpha : List Op := [.next 0, .next 1, .next 2, .send 0 5, .send 1 7, .send 2 3, .send 1 8, .send 0 0, .send 2 6]
  let sets : List (List Tmpl) := [[.A 2, .F 2, .D 2], [.H 2, .F 1, .A 0], [.D 1, .H 1, .F 3]]
  let setsTC : List (List Tmpl) := sets ++ [[.G 2, .G 1, .G 0]]
  let histLen := if thorough then 5 else 4
  for tm in sets do
    for n in [0:histLen + 1] do
      for ops in opSeqs alpha n do
        IO.println (mkGenCase tm ops).line
  -- throw / close interleaved with next / send over the same generator sets
  let alphaTC : List Op := [.next 0, .next 1, .next 2, .send 1 7, .send 0 8, .throw 0 .value, .throw 1 .value, .throw 2 .key, .close 0, .close 1, .close 2]
  for tm in setsTC do
    for n in [1:(if thorough then 5 else 4)] do
      for ops in opSeqs alphaTC n do
        IO.println (mkGenCase tm ops).line
  -- generator bodies (statement language): the family around `finally: yield` and every body of depth ≤ 1
  let alphaB : List GOp := [.send .none, .send (.int 5), .throw (.other .value), .close]
  let alphaB2 : List GOp := alphaB ++ [.throw (.other .key), .throw (.other .genExit)]
  for b in bodyFamily do
    if b.valid false false then
      for ops in gopSeqsUpTo (if thorough then alphaB2 else alphaB) 4 do
        IO.println (mkBodyCase bodyModel b ops).line
  for b in bodiesDepth1 do
    if b.valid false false then
      for ops in gopSeqsUpTo alphaB (if thorough then 4 else 3) do
        IO.println (mkBodyCase bodyModel b ops).line
  if thorough then
    for t in bodiesDepth1 do
      for b in [S.seq (.loop 2 t) (.yld 9), .tryFin t (.yld 3), .loop 2 (.tryFin t (.yld 3)), .tryExc t .key (.yld 3)] do
        if b.valid false false then
          for ops in gopSeqsUpTo alphaB 3 do
            IO.println (mkBodyCase bodyModel b ops).line
  -- the exception being handled survives a suspension inside the handler (bare `raise` after the yield)
  for ops in (List.range 4).flatMap (opSeqs [.next 0, .send 0 5, .throw 0 .value, .close 0, .next 1]) do
    IO.println (mkGenCase [.E 0, .E 0] ops).line
  IO.println (mkGenCase [.A 1] [.reenter, .next 0, .reenter, .next 0, .next 0]).line
  for c in k01Cases do IO.println c.line
  let ngen := if thorough then 30000 else 3000
  for _ in [0:ngen] do
    let (r1, ng) := r.nat 3
    let ng := ng + 1
    let mut tm : List Tmpl := []
    let mut rr := r1
    for _ in [0:ng] do
      let (r2, t) := randTmpl rr
      rr := r2
      tm := tm ++ [t]
    let (r3, len) := rr.nat 12
    let (r4, ops) := randOps r3 ng (len + 1)
    r := r4
    IO.println (mkGenCase tm ops).line

end GPy.C05
