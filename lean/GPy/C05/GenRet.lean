/-
C05 round 3 case generator (core Lean only): the return value of a generator, observed through every
reader (yield from at depth 0..3, StopIteration.args / .value, next() default, throw()-driven finish) and
every consumer of iterables; the (type, value) normalisation of generator.throw.
Included by Gen.lean (`genRetMain`).
-/
import GPy.Common.Basic
import GPy.C05.Ret
namespace GPy.C05.Ret

/-! ### rendering: canonical text (as harness `c05Show`) and Python source -/

mutual
def PV.show : PV → String
  | .none => "None"
  | .int i => toString i
  | .str s => "'" ++ s ++ "'"
  | .tuple xs => "T[" ++ PVs.showL xs ++ "]"
  | .list _ xs => "L[" ++ PVs.showL xs ++ "]"
  | .dict _ xs => "D[" ++ PVs.showD 0 xs ++ "]"
  | .exc _ c a => "X:" ++ c.py ++ "(" ++ PVs.showL a ++ ")"
  | .cls c => "C:" ++ c.py
  | .type n => "C:" ++ n
  | .gen _ => "G"
def PVs.showL : PVs → String
  | .nil => ""
  | .cons h .nil => PV.show h
  | .cons h t => PV.show h ++ ", " ++ PVs.showL t
def PVs.showD (i : Nat) : PVs → String
  | .nil => ""
  | .cons h .nil => s!"k{i}=" ++ PV.show h
  | .cons h t => s!"k{i}=" ++ PV.show h ++ ", " ++ PVs.showD (i + 1) t
end

mutual
/-- Python source of the value, without blanks -/
def PV.py : PV → String
  | .none => "None"
  | .int i => if i < 0 then s!"({i})" else toString i
  | .str s => "'" ++ s ++ "'"
  | .tuple .nil => "()"
  | .tuple (.cons h .nil) => "(" ++ PV.py h ++ ",)"
  | .tuple xs => "(" ++ PVs.pyL xs ++ ")"
  | .list _ xs => "[" ++ PVs.pyL xs ++ "]"
  | .dict _ xs => "{" ++ PVs.pyD 0 xs ++ "}"
  | .exc _ c a => c.py ++ "(" ++ PVs.pyL a ++ ")"
  | .cls c => c.py
  | .type n => n
  | .gen _ => "GEN0()"
def PVs.pyL : PVs → String
  | .nil => ""
  | .cons h .nil => PV.py h
  | .cons h t => PV.py h ++ "," ++ PVs.pyL t
def PVs.pyD (i : Nat) : PVs → String
  | .nil => ""
  | .cons h .nil => s!"'k{i}':" ++ PV.py h
  | .cons h t => s!"'k{i}':" ++ PV.py h ++ "," ++ PVs.pyD (i + 1) t
end

def tup (xs : List PV) : PV := .tuple (PVs.ofList xs)
def showBool (b : Bool) : String := if b then "True" else "False"

/-- `a is b` -/
def same (a b : PV) : Bool := a == b

/-! ### the values a generator returns -/

def retVals : List PV := [
  .none, .int 7, .int 0, .str "ab", .str "",
  tup [], tup [.int 3], tup [.none], tup [.int 3, .int 2], tup [.int 1, .int 2, .int 3],
  tup [tup [.int 1, .int 2], .int 3], tup [tup []], tup [.str "a", tup [.int 1], .none],
  .list 1 (PVs.ofList []), .list 2 (PVs.ofList [.int 1, .int 2]), .list 3 (PVs.ofList [tup [.int 1, .int 2]]),
  .dict 4 (PVs.ofList []), .dict 5 (PVs.ofList [.int 1, tup [.int 2]]),
  .exc 6 .keyError (PVs.ofList [.int 4]), .exc 7 .valueError .nil, .exc 8 .keyError (PVs.ofList [.int 1, .int 2]),
  .exc 9 .stopIteration (PVs.ofList [.int 5]), .exc 10 .stopIteration .nil, .exc 11 .stopIteration (PVs.ofList [tup [.int 1, .int 2]]),
  .exc 12 .generatorExit .nil, .exc 13 .baseException (PVs.ofList [.str "b"]),
  .cls .keyError, .cls .stopIteration, .cls .generatorExit, .type "int",
  .gen 14,
  tup [.exc 15 .stopIteration (PVs.ofList [.int 5])], tup [.cls .stopIteration, .int 1]
]

/-- seeded random values: nested tuples / lists / exception instances -/
partial def randPV (r : Rng) (depth : Nat) (nextId : Nat) : Rng × PV × Nat :=
  let (r, k) := r.nat (if depth = 0 then 4 else 9)
  match k with
  | 0 => (r, .none, nextId)
  | 1 => let (r, i) := r.nat 10; (r, .int i, nextId)
  | 2 => let (r, i) := r.nat 3; (r, .str (["", "a", "bc"][i]!), nextId)
  | 3 => let (r, i) := r.nat 4; (r, .cls ([Cls.stopIteration, .keyError, .generatorExit, .valueError][i]!), nextId)
  | _ =>
    let (r, n) := r.nat 4
    let (r, xs, nextId) := Id.run do
      let mut r := r
      let mut xs : List PV := []
      let mut nid := nextId
      for _ in [0:n] do
        let (r', x, nid') := randPV r (depth - 1) nid
        r := r'; xs := xs ++ [x]; nid := nid'
      return (r, xs, nid)
    match k with
    | 4 | 5 => (r, tup xs, nextId)
    | 6 => (r, .list nextId (PVs.ofList xs), nextId + 1)
    | 7 => let (r, i) := r.nat 3
           (r, .exc nextId ([Cls.stopIteration, .keyError, .generatorExit][i]!) (PVs.ofList xs), nextId + 1)
    | _ => (r, .exc nextId .stopIteration (PVs.ofList xs), nextId + 1)

/-! ### templates of the returning generator -/

/-- `plain`: `yield 1; return v` · `fin`: the same inside try/finally (log) · `noyield`: `return v` before any yield ·
`bare`: `yield 1; return` · `fall`: `yield 1` and fall off the end · `nested`: `return v` inside for + try/finally + try/except ·
`catch`: `try: yield 1 / except KeyError: return v` (finishes in response to throw) -/
inductive RT | plain | fin | noyield | bare | fall | nested | catch
deriving DecidableEq, Repr, Inhabited

def RT.tok : RT → String
  | .plain => "plain" | .fin => "fin" | .noyield => "noyield" | .bare => "bare" | .fall => "fall" | .nested => "nested" | .catch => "catch"

/-- items yielded before the generator finishes (driven by next/send) -/
def RT.items : RT → List PV
  | .noyield => []
  | _ => [.int 1]

/-- `res` of RunFrame at the RETURN_VALUE of the template -/
def RT.res (t : RT) (v : PV) : PV :=
  match t with
  | .bare | .fall => .none
  | _ => v

/-- readers of the return value -/
inductive Obs | yf | yfsend | args | value | nextd | yfthrow | argsthrow
deriving DecidableEq, Repr, Inhabited

def Obs.tok : Obs → String
  | .yf => "yf" | .yfsend => "yfsend" | .args => "args" | .value => "value" | .nextd => "nextd" | .yfthrow => "yfthrow" | .argsthrow => "argsthrow"

def showItems (xs : List PV) : String := "L[" ++ ", ".intercalate (xs.map PV.show) ++ "]"

/-- text of the observation, given what the reader got (`r`: delivered value, `a`: caught args, `val`: caught .value) -/
def obsText (o : Obs) (items : List PV) (v : PV) (r : Except GoErr PV) (a : Option PVs) (val : Option PV) (nd : Except GoErr PV) : String :=
  match o with
  | .yf | .yfsend | .yfthrow =>
    match r with
    | .ok x => "L[" ++ ", ".intercalate (items.map PV.show ++ ["T['r', " ++ showBool (same x v) ++ ", " ++ x.show ++ "]"]) ++ "]"
    | .error e => "E:" ++ (toInfo e).1.py
  | .args | .argsthrow =>
    match a with
    | some xs => "T[" ++ showItems items ++ ", " ++ (PV.tuple xs).show ++ ", " ++
        showBool (match xs with | .cons h .nil => same h v | _ => false) ++ "]"
    | none => "NOTCAUGHT"
  | .value =>
    match val with
    | some x => "T[" ++ showItems items ++ ", " ++ x.show ++ ", " ++ showBool (same x v) ++ "]"
    | none => "NOTCAUGHT"
  | .nextd =>
    match nd with
    | .ok d => showItems ((items ++ [d, d, d]).take 3)
    | .error e => "E:" ++ (toInfo e).1.py

def mkRetCase (t : RT) (depth : Nat) (o : Obs) (v : PV) : Case :=
  let res := t.res v
  let err := chainErr depth res
  let m := obsText o t.items v (delivered depth res) (caughtArgs err) (caughtValue err) (nextDefault err (.str "D"))
  let sp := obsText o t.items v (.ok (specValue res)) (some (specArgs res)) (some (specValue res)) (.ok (.str "D"))
  { input := s!"ret {t.tok} {depth} {o.tok} {v.py}", modelV := m, specV := sp, tags := ["nt"] }

/-! ### generator.throw(type, value) -/

def throwTyps : List PV := [
  .cls .keyError, .cls .lookupError, .cls .stopIteration, .cls .generatorExit, .cls .baseException,
  .exc 1 .keyError (PVs.ofList [.int 4]), .exc 2 .stopIteration (PVs.ofList [.int 1]), .exc 3 .valueError .nil,
  .type "int", .int 5, .none, .str "KeyError", tup [.cls .keyError], .list 4 .nil
]

def throwVals : List (Option PV) := [
  none, some .none, some (.int 5), some (.str "m"), some (tup []), some (tup [.int 1]), some (tup [.int 1, .int 2]),
  some (tup [tup [.int 1, .int 2]]),
  some (.exc 21 .keyError (PVs.ofList [.int 3])), some (.exc 22 .valueError (PVs.ofList [.int 3])),
  some (.exc 23 .stopIteration (PVs.ofList [.int 2])), some (.exc 24 .lookupError (PVs.ofList [.str "x"])),
  some (.list 25 (PVs.ofList [.int 1])), some (.cls .keyError), some (.exc 26 .generatorExit .nil)
]

/-- how the thrown exception is looked at: caught inside the generator at the suspended yield (`in`), propagating out of a
generator without handler (`out`), thrown into a generator that was never started (`new`) -/
inductive TV | inside | outside | unstarted
deriving DecidableEq, Repr, Inhabited

def TV.tok : TV → String
  | .inside => "in" | .outside => "out" | .unstarted => "new"

def throwText (tv : TV) (typ : PV) (val : PV) (r : ThrowArg) : Option String :=
  match r with
  | .typeError => if tv == .inside then some "E:TypeError" else none
  | .raiseIn e =>
    let d := "T['" ++ e.cls.py ++ "', " ++ (PV.tuple e.args).show ++ ", " ++ showBool (same e.toPV typ) ++ ", " ++ showBool (same e.toPV val) ++ "]"
    match tv with
    | .inside => some ("T['y', " ++ d ++ "]")
    | _ => some ("T['raised', " ++ d ++ "]")

def mkThrowCase (tv : TV) (typ : PV) (val : Option PV) : Option Case :=
  let v := val.getD .none
  match throwText tv typ v (throwBuild typ v), throwText tv typ v (specThrow typ v) with
  | some m, some sp =>
    some { input := s!"thr {tv.tok} {typ.py} {match val with | some x => x.py | none => "-"}", modelV := m, specV := sp, tags := ["nt"] }
  | _, _ => none

def genRetMain (tier : String) (seed : Nat) : IO Unit := do
  let thorough := tier == "thorough"
  let tmpls : List RT := [.plain, .fin, .noyield, .bare, .fall, .nested]
  for t in tmpls do
    for d in [0:4] do
      for o in [Obs.yf, .yfsend, .args, .value, .nextd] do
        for v in retVals do
          IO.println (mkRetCase t d o v).line
  for d in [0:4] do
    for o in [Obs.yfthrow, .argsthrow] do
      for v in retVals do
        IO.println (mkRetCase .catch d o v).line
  -- seeded random return values
  let mut r : Rng := ⟨seed.toUInt64 * 104729 + 11⟩
  let tarr := tmpls.toArray
  let oarr := #[Obs.yf, .yfsend, .args, .value, .nextd]
  for _ in [0:(if thorough then 6000 else 600)] do
    let (r1, v, _) := randPV r 3 1
    let (r2, ti) := r1.nat tarr.size
    let (r3, oi) := r2.nat oarr.size
    let (r4, d) := r3.nat 4
    r := r4
    IO.println (mkRetCase tarr[ti]! d oarr[oi]! v).line
  -- throw(type, value)
  for tv in [TV.inside, .outside, .unstarted] do
    for typ in throwTyps do
      for val in throwVals do
        match mkThrowCase tv typ val with
        | some c => IO.println c.line
        | none => pure ()
  for _ in [0:(if thorough then 3000 else 300)] do
    let (r1, typ, nid) := randPV r 2 1
    let (r2, val, _) := randPV r1 3 nid
    let (r3, k) := r2.nat 3
    r := r3
    match mkThrowCase ([TV.inside, .outside, .unstarted][k]!) typ (some val) with
    | some c => IO.println c.line
    | none => pure ()

end GPy.C05.Ret
