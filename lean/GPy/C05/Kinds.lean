/-
C05: the syntactic forms of the test a Go call site applies to the error it gets
from `py.Next` (shared by the regenerated site table and the hand-written model).
-/
namespace GPy.C05

/-- How a call site of `py.Next` tests the error it gets. -/
inductive TestKind
  /-- `err == py.StopIteration` (Go interface identity with the `*Type` value) ends the loop, any other non-nil error is returned -/
  | identity
  /-- `py.IsException(py.StopIteration, err)` ends the loop, any other non-nil error is returned -/
  | isException
  /-- `if err != nil { … }` with neither a return of `err` nor an `IsException` test: every error means "exhausted" -/
  | anyError
  /-- `if err != nil { return nil, err }`: the error (StopIteration included) is handed to the caller unchanged (adapters) -/
  | forward
  /-- the error result is not looked at -/
  | ignored
deriving DecidableEq, Repr, Inhabited

/-- one row of the regenerated site table -/
structure Site where
  file : String
  func : String
  ord : Nat
  kind : TestKind
deriving DecidableEq, Repr

end GPy.C05
