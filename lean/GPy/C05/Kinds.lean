/-
C05: the syntactic forms of the test a Go call site applies to the error it gets
from `py.Next` (shared by the regenerated site table and the hand-written model).
-/
namespace GPy.C05

/-- How a call site of `py.Next` tests the error it gets. -/
inductive TestKind
  /-- `err == py.StopIteration` (Go interface identity with the `*Type` value) ends the loop, any other non-nil error is returned -/
  | identity
  /-- `py.IsException(py.StopIteration, err)` ends the loop, any other non-nil error is returned -/
  | isException
  /-- `if err != nil { … }` with neither a return of `err` nor an `IsException` test: every error means "exhausted" -/
  | anyError
  /-- `if err != nil { return nil, err }`: the error (StopIteration included) is handed to the caller unchanged (adapters) -/
  | forward
  /-- the error result is not looked at -/
  | ignored
deriving DecidableEq, Repr, Inhabited

/-- one row of the regenerated site table -/
structure Site where
  file : String
  func : String
  ord : Nat
  kind : TestKind
deriving DecidableEq, Repr

/-- How a site of the generator code makes (or reads) an exception value. -/
inductive ExcCtor
  /-- `exceptionNew(T, Tuple{x})`: instance whose args are the 1-tuple of the value -/
  | newTuple1
  /-- `exceptionNew(T, xs)` with `xs` a Tuple variable: the value IS the args tuple -/
  | newArgs
  /-- `exceptionNew(T, nil)` -/
  | newNil
  /-- `ExceptionNewf(T, format, …)`: instance with the message as only argument -/
  | newf
  /-- `return …, T`: the class value itself is the error -/
  | bareType
  /-- `resume(nil, e)`: an existing exception object is handed on as it is -/
  | passExc
  /-- a composite literal `&Exception{…}` / `ExceptionInfo{…}` -/
  | literal
  /-- `stopIterationValue(err)` -/
  | readValue
  /-- `return args[0]` -/
  | readArg0
  /-- `MakeException(x)`: an instance is used as it is, a class is instantiated without arguments -/
  | makeExc
  /-- anything else whose name says it makes an exception -/
  | other
deriving DecidableEq, Repr, Inhabited

/-- one row of the regenerated table of exception construction sites -/
structure ExcSite where
  file : String
  func : String
  ord : Nat
  ctor : ExcCtor
  form : String
deriving DecidableEq, Repr

end GPy.C05
