/-
C05 model (core Lean only).  Two parts.

(1) The iterator protocol.  A Go iterator object is `(σ, next : σ → Resp × σ)`:
`py.Next(it)` returns either an item or an *error value*; consumers differ in how they
test that error (`TestKind`, read from the regenerated site table `Generated.lean`).
Every consumer loop of the anchored Go code is transliterated over an abstract `next`:
py.Iterate (default branch), SequenceTuple/List/Set, SequenceContains, String.Join,
vm do_FOR_ITER (+ the for loop around it), unpack_iterable, Vm.Call star-args,
builtin all/any/sum/min/max/sorted/next, do_YIELD_FROM, and the adapters
Zip/Map/Filter/EnumerateIterator.M__next__, plus py.Iterator.M__next__ (`__getitem__` sequences).
Go loops use fuel (DESIGN §6); theorems hold for every fuel that suffices.

(2) The generator object: `Generator.Send`/`M__next__` over `(Lasti = 0?, Yielded, Running, frame)`
with `VmRunFrame` abstracted to a parameter `run` with three outcomes (yield / return / raise).
-/
import GPy.C05.Generated
namespace GPy.C05

/-! ## Values, errors -/

/-- Python exception classes other than StopIteration (none of them a subclass of it). -/
inductive Exc | value | key | type | zeroDiv | index | runtime | attr | lookup
  /-- GeneratorExit (a BaseException, not an Exception): what `generator.close()` throws -/
  | genExit
deriving DecidableEq, Repr, Inhabited

inductive Val | int (i : Int) | str (s : String) | pair (a b : Val) | none
deriving DecidableEq, Repr, Inhabited

/-- The Go `error` values `py.Next` can return. -/
inductive NextErr
  /-- the Go value `py.StopIteration` itself (a `*py.Type`): what Go-implemented iterators return -/
  | stopType
  /-- `py.ExceptionInfo{Type: StopIteration}` from a Python-level `raise StopIteration` (the class) -/
  | stopInfoClass
  /-- `py.ExceptionInfo` from a Python-level `raise StopIteration(v?)` (an instance) -/
  | stopInfoInst (v : Option Val)
  /-- `*py.Exception{Base: StopIteration, Args: (v,)}`: `Generator.Send` carrying a return value -/
  | stopExc (v : Val)
  /-- an exception of another class -/
  | other (e : Exc)
deriving DecidableEq, Repr, Inhabited

/-- `py.IsException(py.StopIteration, err)` -/
def NextErr.isStop : NextErr → Bool
  | .other _ => false
  | _ => true

/-- `err == py.StopIteration` -/
def NextErr.isIdentical : NextErr → Bool
  | .stopType => true
  | _ => false

/-- `IsException(IndexError, err)` -/
def NextErr.isIndexError : NextErr → Bool
  | .other .index => true
  | _ => false

/-- vm/eval.go `stopIterationValue(err)` -/
def NextErr.stopValue : NextErr → Val
  | .stopInfoInst (some v) => v
  | .stopExc v => v
  | _ => .none

/-- what a Python-level observer sees of a propagated error: its class (and, for
StopIteration, the carried value `args[0]`, `none` when there is none) -/
inductive PyErr | stopIteration (v : Val) | exc (e : Exc)
deriving DecidableEq, Repr, Inhabited

def NextErr.toPy : NextErr → PyErr
  | .other e => .exc e
  | e => .stopIteration e.stopValue

/-- result of `py.Next` -/
inductive Resp | item (v : Val) | err (e : NextErr)
deriving DecidableEq, Repr, Inhabited

inductive Verdict | exhausted | propagate
deriving DecidableEq, Repr

/-- what a call site does with a non-nil error, by the syntactic form of its test -/
def TestKind.classify : TestKind → NextErr → Verdict
  | .identity, e => if e.isIdentical then .exhausted else .propagate
  | .isException, e => if e.isStop then .exhausted else .propagate
  | .anyError, _ => .exhausted
  | .forward, _ => .propagate
  | .ignored, _ => .exhausted

/-- observable results of the consumers -/
inductive Out
  | list (xs : List Val) | tuple (xs : List Val) | set (xs : List Val)
  | bool (b : Bool) | val (v : Val) | str (s : String)
  | unpacked (pre : List Val) (star : Option (List Val)) (post : List Val)
  | yf (items : List Val) (ret : Val)
  | err (e : PyErr)
  | fuel
deriving DecidableEq, Repr, Inhabited

inductive IterRes (α : Type) | done (a : α) | err (e : NextErr) | fuel
deriving Repr, DecidableEq

variable {σ α : Type}

/-! ## py/sequence.go -/

/-- `py.Iterate` (default branch: the argument is not a Tuple/List/String/Bytes), `fn` returns
its updated captured variables and the "stop" flag. -/
def iterateK (k : TestKind) (next : σ → Resp × σ) (fn : α → Val → α × Bool) : Nat → σ → α → IterRes α
  | 0, _, _ => .fuel
  | n + 1, s, a =>
    match next s with
    | (.err e, _) =>
      match k.classify e with
      | .exhausted => .done a        -- break
      | .propagate => .err e         -- return err
    | (.item v, s') =>
      let r := fn a v
      if r.2 then .done r.1 else iterateK k next fn n s' r.1

def iterate (next : σ → Resp × σ) (fn : α → Val → α × Bool) := iterateK Generated.k_py_sequence_Iterate_0 next fn

/-- `SequenceTuple` (default branch) -/
def sequenceTuple (next : σ → Resp × σ) (fuel : Nat) (s : σ) : Out :=
  match iterate next (fun (t : List Val) item => (t ++ [item], false)) fuel s [] with
  | .done t => .tuple t
  | .err e => .err e.toPy
  | .fuel => .fuel

/-- `SequenceList` (default branch) via `List.ExtendSequence` -/
def sequenceListRaw (next : σ → Resp × σ) (fuel : Nat) (s : σ) : IterRes (List Val) :=
  iterate next (fun (l : List Val) item => (l ++ [item], false)) fuel s []

def sequenceList (next : σ → Resp × σ) (fuel : Nat) (s : σ) : Out :=
  match sequenceListRaw next fuel s with
  | .done t => .list t
  | .err e => .err e.toPy
  | .fuel => .fuel

/-- `Set.Add` on a set kept as a duplicate-free list -/
def setAdd (xs : List Val) (v : Val) : List Val := if xs.contains v then xs else xs ++ [v]

/-- `SequenceSet` (default branch) -/
def sequenceSet (next : σ → Resp × σ) (fuel : Nat) (s : σ) : Out :=
  match iterate next (fun (t : List Val) item => (setAdd t item, false)) fuel s [] with
  | .done t => .set t
  | .err e => .err e.toPy
  | .fuel => .fuel

/-- `SequenceContains` for a container without `__contains__`; `eq` is `py.Eq` followed by `== True`.
Captured variables: `(found, loopErr)`. -/
def sequenceContains (eq : Val → Val → Except Exc Bool) (obj : Val) (next : σ → Resp × σ) (fuel : Nat) (s : σ) : Out :=
  match iterate next (fun (st : Bool × Option Exc) item =>
      match eq item obj with
      | .error e => ((st.1, some e), true)
      | .ok true => ((true, st.2), true)
      | .ok false => (st, false)) fuel s (false, none) with
  | .done (found, loopErr) =>
    match loopErr with
    | some e => .err (.exc e)
    | none => .bool found
  | .err e => .err e.toPy
  | .fuel => .fuel

/-- star-args in `Vm.Call`: `py.Iterate(starArgs, append)`; the observable is the args tuple -/
def starArgs (next : σ → Resp × σ) (fuel : Nat) (s : σ) : Out :=
  match iterate next (fun (t : List Val) item => (t ++ [item], false)) fuel s [] with
  | .done t => .tuple t
  | .err e => .err e.toPy
  | .fuel => .fuel

/-- `builtin_sorted`: `SequenceList` then `SortInPlace` (external, parameter) -/
def builtinSorted (sort : List Val → Except Exc (List Val)) (next : σ → Resp × σ) (fuel : Nat) (s : σ) : Out :=
  match sequenceListRaw next fuel s with
  | .done t => match sort t with | .ok r => .list r | .error e => .err (.exc e)
  | .err e => .err e.toPy
  | .fuel => .fuel

/-- `l.extend(it)` / `l += it` for `it` not a list: `List.ExtendSequence` onto the items the list already has -/
def listExtend (next : σ → Resp × σ) (fuel : Nat) (s : σ) (init : List Val) : Out :=
  match iterate next (fun (l : List Val) item => (l ++ [item], false)) fuel s init with
  | .done t => .list t
  | .err e => .err e.toPy
  | .fuel => .fuel

/-- `s.update(it)`: `SequenceSet(it)` first, then every member is added to `s` -/
def setUpdate (next : σ → Resp × σ) (fuel : Nat) (s : σ) (init : List Val) : Out :=
  match iterate next (fun (t : List Val) item => (setAdd t item, false)) fuel s [] with
  | .done t => .set (t.foldl setAdd init)
  | .err e => .err e.toPy
  | .fuel => .fuel

/-- consumers that read the whole iterable with `SequenceList` and then compute on the list
(`dict(it)` / `d.update(it)` through `DictNew`, `sorted(it, key=…)`, `l[a:b] = it` through `SequenceTuple`) -/
def collectThen (fin : List Val → Out) (next : σ → Resp × σ) (fuel : Nat) (s : σ) : Out :=
  match sequenceListRaw next fuel s with
  | .done t => fin t
  | .err e => .err e.toPy
  | .fuel => .fuel

/-! ## py/string.go: String.Join -/

def joinK (k0 k1 : TestKind) (sep : String) (next : σ → Resp × σ) : Nat → Bool → σ → List String → Out
  | 0, _, _, _ => .fuel
  | n + 1, first, s, parts =>
    match next s with
    | (.item v, s') =>
      match v with
      | .str x => joinK k0 k1 sep next n false s' (parts ++ [x])
      | _ => .err (.exc .type)
    | (.err e, _) =>
      -- `for err == nil` ends; `if !IsException(StopIteration, err) { return nil, err }`
      match (if first then k0 else k1).classify e with
      | .exhausted => .str (sep.intercalate parts)
      | .propagate => .err e.toPy

def join (sep : String) (next : σ → Resp × σ) (fuel : Nat) (s : σ) : Out :=
  joinK Generated.k_py_string_String_Join_0 Generated.k_py_string_String_Join_1 sep next fuel true s []

/-! ## vm/eval.go -/

inductive ForIter (σ : Type) | push (v : Val) (s : σ) | jump | raise (e : NextErr)

/-- `do_FOR_ITER` -/
def doForIterK (k : TestKind) (next : σ → Resp × σ) (s : σ) : ForIter σ :=
  match next s with
  | (.err e, _) =>
    match k.classify e with
    | .propagate => .raise e      -- return err
    | .exhausted => .jump         -- DROP, Lasti += delta
  | (.item v, s') => .push v s'

def doForIter (next : σ → Resp × σ) (s : σ) := doForIterK Generated.k_vm_eval_do_FOR_ITER_0 next s

/-- a `for x in it: body` loop (also a comprehension): FOR_ITER, body, JUMP_ABSOLUTE; the body
folds `acc` and may `break` (second component) or raise -/
def forLoop (next : σ → Resp × σ) (body : α → Val → Except Exc (α × Bool)) : Nat → σ → α → Except PyErr (Option α)
  | 0, _, _ => .ok none
  | n + 1, s, a =>
    match doForIter next s with
    | .raise e => .error e.toPy
    | .jump => .ok (some a)
    | .push v s' =>
      match body a v with
      | .error e => .error (.exc e)
      | .ok (a', true) => .ok (some a')
      | .ok (a', false) => forLoop next body n s' a'

/-- `out = []; for x in it: out.append(x)` / `[x for x in it]` -/
def forCollect (next : σ → Resp × σ) (fuel : Nat) (s : σ) : Out :=
  match forLoop next (fun (l : List Val) v => .ok (l ++ [v], false)) fuel s [] with
  | .ok (some l) => .list l
  | .ok none => .fuel
  | .error e => .err e

/-- first loop of `unpack_iterable`: `for i = 0; i < argcnt; i++ { w, err := py.Next(it) … }` -/
def unpackFirst (k : TestKind) (next : σ → Resp × σ) : Nat → σ → List Val → Except PyErr (List Val × σ)
  | 0, s, acc => .ok (acc, s)
  | n + 1, s, acc =>
    match next s with
    | (.err e, _) =>
      match k.classify e with
      | .propagate => .error e.toPy
      | .exhausted => .error (.exc .value)   -- "need more than %d value(s) to unpack"
    | (.item w, s') => unpackFirst k next n s' (acc ++ [w])

/-- `unpack_iterable(v, argcnt, argcntafter)`; `after = none` is `argcntafter == -1` -/
def unpackIterable (next : σ → Resp × σ) (argcnt : Nat) (after : Option Nat) (fuel : Nat) (s : σ) : Out :=
  match unpackFirst Generated.k_vm_eval_unpack_iterable_0 next argcnt s [] with
  | .error e => .err e
  | .ok (pre, s) =>
    match after with
    | none =>
      match next s with
      | (.err e, _) =>
        match Generated.k_vm_eval_unpack_iterable_1.classify e with
        | .propagate => .err e.toPy
        | .exhausted => .unpacked pre none []
      | (.item _, _) => .err (.exc .value)     -- "too many values to unpack"
    | some na =>
      match sequenceListRaw next fuel s with
      | .fuel => .fuel
      | .err e => .err e.toPy
      | .done l =>
        let ll := l.length
        if ll < na then .err (.exc .value)
        else .unpacked pre (some (l.take (ll - na))) (l.drop (ll - na))

/-! ## stdlib/builtin/builtin.go -/

/-- `builtin_all`; `truth` is `py.ObjectIsTrue` -/
def allK (k : TestKind) (truth : Val → Except Exc Bool) (next : σ → Resp × σ) : Nat → σ → Out
  | 0, _ => .fuel
  | n + 1, s =>
    match next s with
    | (.err e, _) =>
      match k.classify e with
      | .exhausted => .bool true
      | .propagate => .err e.toPy
    | (.item v, s') =>
      match truth v with
      | .error e => .err (.exc e)
      | .ok false => .bool false
      | .ok true => allK k truth next n s'

def builtinAll (truth : Val → Except Exc Bool) (next : σ → Resp × σ) := allK Generated.k_stdlib_builtin_builtin_builtin_all_0 truth next

/-- `builtin_any` -/
def anyK (k : TestKind) (truth : Val → Except Exc Bool) (next : σ → Resp × σ) : Nat → σ → Out
  | 0, _ => .fuel
  | n + 1, s =>
    match next s with
    | (.err e, _) =>
      match k.classify e with
      | .exhausted => .bool false
      | .propagate => .err e.toPy
    | (.item v, s') =>
      match truth v with
      | .error e => .err (.exc e)
      | .ok true => .bool true
      | .ok false => anyK k truth next n s'

def builtinAny (truth : Val → Except Exc Bool) (next : σ → Resp × σ) := anyK Generated.k_stdlib_builtin_builtin_builtin_any_0 truth next

/-- `builtin_sum`; `add` is `py.Add` -/
def sumK (k : TestKind) (add : Val → Val → Except Exc Val) (next : σ → Resp × σ) : Nat → σ → Val → Out
  | 0, _, _ => .fuel
  | n + 1, s, start =>
    match next s with
    | (.err e, _) =>
      match k.classify e with
      | .exhausted => .val start
      | .propagate => .err e.toPy
    | (.item v, s') =>
      match add start v with
      | .error e => .err (.exc e)
      | .ok t => sumK k add next n s' t

def builtinSum (add : Val → Val → Except Exc Val) (next : σ → Resp × σ) (fuel : Nat) (s : σ) (start : Val) :=
  sumK Generated.k_stdlib_builtin_builtin_builtin_sum_0 add next fuel s start

/-- `min_max`; `key v` is `py.Call(kf, item)` (the identity when no `key=` is given: `maxVal = item`), `cmp a b` is
`py.Le`/`py.Ge` followed by `== True`; `best = none` is `maxVal == nil`, otherwise `(maxVal, maxItem)`.
The default is looked at only after the loop, when no item was seen. -/
def minMaxKeyK (k : TestKind) (key : Val → Except PyErr Val) (cmp : Val → Val → Except Exc Bool) (next : σ → Resp × σ) :
    Nat → σ → Option (Val × Val) → Option Val → Out
  | 0, _, _, _ => .fuel
  | n + 1, s, best, dflt =>
    match next s with
    | (.err e, _) =>
      match k.classify e with
      | .exhausted =>
        match best with
        | none =>
          match dflt with
          | some d => .val d
          | none => .err (.exc .value)     -- "arg is an empty sequence"
        | some b => .val b.2
      | .propagate => .err e.toPy
    | (.item v, s') =>
      match key v with
      | .error e => .err e
      | .ok kv =>
        match best with
        | none => minMaxKeyK k key cmp next n s' (some (kv, v)) dflt
        | some b =>
          match cmp kv b.1 with
          | .error e => .err (.exc e)
          | .ok changed => minMaxKeyK k key cmp next n s' (some (if changed then (kv, v) else b)) dflt

def minMaxKey (key : Val → Except PyErr Val) (cmp : Val → Val → Except Exc Bool) (next : σ → Resp × σ) (fuel : Nat) (s : σ) (dflt : Option Val) :=
  minMaxKeyK Generated.k_stdlib_builtin_builtin_min_max_0 key cmp next fuel s none dflt

/-- `min`/`max` without `key=` -/
def minMax (cmp : Val → Val → Except Exc Bool) (next : σ → Resp × σ) (fuel : Nat) (s : σ) (dflt : Option Val) :=
  minMaxKey (fun v => .ok v) cmp next fuel s dflt

/-- `builtin_next(it[, default])` -/
def builtinNextK (k : TestKind) (next : σ → Resp × σ) (s : σ) (dflt : Option Val) : Out :=
  match next s with
  | (.item v, _) => .val v
  | (.err e, _) =>
    match dflt with
    | some d =>
      match k.classify e with
      | .exhausted => .val d
      | .propagate => .err e.toPy
    | none => .err e.toPy

def builtinNext (next : σ → Resp × σ) (s : σ) (dflt : Option Val) := builtinNextK Generated.k_stdlib_builtin_builtin_builtin_next_0 next s dflt

/-! ## adapters: py/zip.go, py/map.go, py/filter.go, py/enumerate.go -/

/-- what an adapter's `M__next__` returns when the inner `Next` fails -/
def adaptErr (k : TestKind) (e : NextErr) : NextErr :=
  match k.classify e with
  | .propagate => e               -- `return nil, err`
  | .exhausted => .stopType

/-- `Map.M__next__` with one iterable; `f` is `Call(m.fun, …)` (Python-level errors arrive as ExceptionInfo) -/
def mapNext (f : Val → Except NextErr Val) (next : σ → Resp × σ) (s : σ) : Resp × σ :=
  match next s with
  | (.err e, s') => (.err (adaptErr Generated.k_py_map_Map_M__next___0 e), s')
  | (.item v, s') =>
    match f v with
    | .ok w => (.item w, s')
    | .error e => (.err e, s')

/-- `EnumerateIterator.M__next__`; state = (Index, inner) -/
def enumNext (next : σ → Resp × σ) (st : Int × σ) : Resp × (Int × σ) :=
  match next st.2 with
  | (.err e, s') => (.err (adaptErr Generated.k_py_enumerate_EnumerateIterator_M__next___0 e), (st.1, s'))
  | (.item v, s') => (.item (.pair (.int st.1) v), (st.1 + 1, s'))

/-- `Zip.M__next__` for two iterables -/
def zipNext {τ : Type} (next1 : σ → Resp × σ) (next2 : τ → Resp × τ) (st : σ × τ) : Resp × (σ × τ) :=
  match next1 st.1 with
  | (.err e, s1) => (.err (adaptErr Generated.k_py_zip_Zip_M__next___0 e), (s1, st.2))
  | (.item a, s1) =>
    match next2 st.2 with
    | (.err e, s2) => (.err (adaptErr Generated.k_py_zip_Zip_M__next___0 e), (s1, s2))
    | (.item b, s2) => (.item (.pair a b), (s1, s2))

/-- `Filter.M__next__` with `fun == None`; the Go `for {}` gets fuel carried in the state -/
def filterLoop (truth : Val → Except Exc Bool) (next : σ → Resp × σ) : Nat → σ → Resp × σ
  | 0, s => (.err (.other .runtime), s)   -- out of fuel (never with sufficient fuel)
  | n + 1, s =>
    match next s with
    | (.err e, s') => (.err (adaptErr Generated.k_py_filter_Filter_M__next___0 e), s')
    | (.item v, s') =>
      match truth v with
      | .ok true => (.item v, s')
      | .ok false => filterLoop truth next n s'
      | .error e => (.err (.other e), s')

def filterNext (truth : Val → Except Exc Bool) (fuel : Nat) (next : σ → Resp × σ) (s : σ) : Resp × σ :=
  filterLoop truth next fuel s

/-! ## py/iterator.go: `Iterator.M__next__` over a `__getitem__` sequence -/

/-- `getitem i` is `Seq.__getitem__(i)`; state = Pos -/
def iteratorNext (getitem : Nat → Resp) (pos : Nat) : Resp × Nat :=
  match getitem pos with
  | .err e => if e.isIndexError then (.err .stopType, pos) else (.err e, pos)
  | .item v => (.item v, pos + 1)

/-! ## (2) The generator object: py/generator.go + YIELD_VALUE / RETURN_VALUE / YIELD_FROM -/

/-- outcome of `VmRunFrame(it.Frame)` -/
inductive RunOut
  /-- the frame executed YIELD_VALUE (or YIELD_FROM yielding): `Yielded = true`, `res = v` -/
  | yield (v : Val)
  /-- RETURN_VALUE: `Yielded = false`, `res = v` -/
  | ret (v : Val)
  /-- the frame raised: `err != nil` (`Yielded` keeps whatever the last yield/return left) -/
  | raise (e : NextErr)
deriving DecidableEq, Repr, Inhabited

/-- how `VmRunFrame` is entered: the first time (nothing pushed), with a sent value pushed on the
frame's stack, or with `Frame.Throw` set (generator.throw/close: the exception is raised at the
suspended yield before any instruction is fetched) -/
inductive Entry | first | send (v : Val) | throw (e : NextErr)
deriving DecidableEq, Repr, Inhabited

/-- `py.Generator` with its frame; `φ` is everything of the frame the generator object does not
look at (code position beyond "is Lasti 0", locals, value stack, block stack). -/
structure GenObj (φ : Type) where
  /-- `Frame.Lasti == 0`: no instruction executed yet -/
  fresh : Bool
  yielded : Bool
  running : Bool
  frame : φ
deriving Repr

/-- `NewGenerator(frame)` -/
def newGenerator {φ : Type} (frame : φ) : GenObj φ := { fresh := true, yielded := false, running := false, frame := frame }

/-- `Generator.resume(arg, exc)`: `exc = none` is `Send(arg)`, `exc = some e` is the core of `Throw`/`Close`.
`run entry frame` is `VmRunFrame`.  Third component: whether `VmRunFrame` was called.
(RunFrame always executes at least one instruction or raises, so afterwards `Lasti ≠ 0`.) -/
def GenObj.resume {φ : Type} (run : Entry → φ → RunOut × φ) (g : GenObj φ) (arg : Val) (exc : Option NextErr) :
    Resp × GenObj φ × Bool :=
  if g.running then (.err (.other .value), g, false)     -- "generator already executing"
  else if g.fresh && exc.isSome then
    -- raised before the first instruction: `Lasti = len(Code)`, the body never runs
    (.err (exc.getD .stopType), { g with fresh := false, yielded := false }, false)
  else if g.fresh && arg != .none then (.err (.other .type), g, false)   -- "can't send non-None value to a just-started generator"
  else if !g.fresh && !g.yielded then (.err (exc.getD .stopType), g, false)   -- already returned / raised
  else
    -- `exc == nil`: it.Frame.Stack = append(it.Frame.Stack, arg) (not on the first entry); else it.Frame.Throw = exc
    let entry : Entry := match exc with
      | some e => .throw e
      | none => if g.fresh then .first else .send arg
    -- it.Running = true; res, err := VmRunFrame(it.Frame); it.Running = false
    match run entry g.frame with
    | (.raise e, fr) => (.err e, { fresh := false, yielded := false, running := false, frame := fr }, true)
    | (.yield v, fr) => (.item v, { fresh := false, yielded := true, running := false, frame := fr }, true)
    | (.ret v, fr) =>
      let g' : GenObj φ := { fresh := false, yielded := false, running := false, frame := fr }
      if v != .none then (.err (.stopExc v), g', true) else (.err .stopType, g', true)

/-- `Generator.Send(arg)` -/
def GenObj.send {φ : Type} (run : Entry → φ → RunOut × φ) (g : GenObj φ) (arg : Val) : Resp × GenObj φ × Bool :=
  g.resume run arg none

/-- `Generator.Throw(exc)` after the argument parsing (`e` is the exception instance built from typ/val) -/
def GenObj.throw {φ : Type} (run : Entry → φ → RunOut × φ) (g : GenObj φ) (e : NextErr) : Resp × GenObj φ × Bool :=
  g.resume run .none (some e)

/-- `IsException(GeneratorExit, err)` -/
def NextErr.isGenExit : NextErr → Bool
  | .other .genExit => true
  | _ => false

/-- `Generator.Close()`: `none` = returns None, `some e` = raises `e` -/
def GenObj.close {φ : Type} (run : Entry → φ → RunOut × φ) (g : GenObj φ) : Option NextErr × GenObj φ × Bool :=
  let r := g.resume run .none (some (.other .genExit))
  match r.1 with
  | .item _ => (some (.other .runtime), r.2)          -- "generator ignored GeneratorExit"
  | .err e => if e.isStop || e.isGenExit then (none, r.2) else (some e, r.2)

/-- `Generator.M__next__` -/
def GenObj.next {φ : Type} (run : Entry → φ → RunOut × φ) (g : GenObj φ) : Resp × GenObj φ × Bool := g.send run .none

/-- `py.Next` on a generator, as an iterator state machine -/
def genNext {φ : Type} (run : Entry → φ → RunOut × φ) (g : GenObj φ) : Resp × GenObj φ :=
  let r := g.next run
  (r.1, r.2.1)

/-- the value a frame finds on top of its stack where a `yield` expression was suspended -/
def Entry.sent : Entry → Val
  | .send v => v
  | _ => .none

/-- The part of a generator frame that sits in `r = yield from x`, as `run` of the delegating frame:
`do_YIELD_FROM` with `u` the value on top (sent value or None on first entry): `Next(x)` if `u == None`
else `Send(x, u)`; on StopIteration the expression's value is `stopIterationValue(err)` and the frame
continues with `k` (the rest of the body); another error is raised in the frame; otherwise the value is
yielded and the instruction repeats (`Lasti--`). -/
def yieldFromStep (kd : TestKind) (xnext : σ → Resp × σ) (xsend : σ → Val → Resp × σ)
    (u : Val) (x : σ) : (RunOut × σ) ⊕ (Val × σ) :=
  let r := if u == .none then xnext x else xsend x u
  match r with
  | (.err e, x') =>
    match kd.classify e with
    | .propagate => .inl (.raise e, x')
    | .exhausted => .inr (e.stopValue, x')      -- SET_TOP(stopIterationValue(err)); continue
  | (.item v, x') => .inl (.yield v, x')

/-- frame of `def outer(x): r = yield from x; return r` : `inl x` = delegating to `x`, `inr ()` = finished -/
def delegRun (xnext : σ → Resp × σ) (xsend : σ → Val → Resp × σ) (ent : Entry) (fr : σ ⊕ Unit) : RunOut × (σ ⊕ Unit) :=
  match fr with
  | .inr () => (.ret .none, .inr ())
  | .inl x =>
    match yieldFromStep Generated.k_vm_eval_do_YIELD_FROM_0 xnext xsend ent.sent x with
    | .inl (o, x') => (o, .inl x')
    | .inr (v, _) => (.ret v, .inr ())     -- `return r`

/-- driving `outer(x)` with `next` until it stops: (yielded items, value carried by its StopIteration) -/
def yieldFromCollect (xnext : σ → Resp × σ) : Nat → GenObj (σ ⊕ Unit) → List Val → Out
  | 0, _, _ => .fuel
  | n + 1, g, acc =>
    match genNext (delegRun xnext (fun s _ => xnext s)) g with
    | (.item v, g') => yieldFromCollect xnext n g' (acc ++ [v])
    | (.err e, _) => if e.isStop then .yf acc e.stopValue else .err e.toPy

end GPy.C05
