/-
C05 helper lemmas: each transliterated consumer loop, run on an iterator that realises a
script (`Runs`), computes what the specification says – provided the call site tests the error
with `py.IsException(py.StopIteration, err)` (kind `isException`) and the fuel suffices.
-/
import GPy.C05.Spec
namespace GPy.C05

variable {σ α : Type}

theorem classify_stop {e : NextErr} (h : e.isStop = true) : TestKind.isException.classify e = .exhausted := by
  simp [TestKind.classify, h]

theorem classify_other (e : Exc) : TestKind.isException.classify (.other e) = .propagate := by
  simp [TestKind.classify, NextErr.isStop]

theorem toPy_other (e : Exc) : (NextErr.other e).toPy = .exc e := rfl

theorem toPy_stop {e : NextErr} (h : e.isStop = true) : e.toPy = .stopIteration e.stopValue := by
  cases e <;> simp_all [NextErr.toPy, NextErr.isStop]

theorem foldl_snoc (acc xs : List Val) : xs.foldl (fun a v => a ++ [v]) acc = acc ++ xs := by
  induction xs generalizing acc with
  | nil => simp
  | cons x r ih => simp [ih]

theorem foldl_setAdd (acc xs : List Val) : xs.foldl setAdd acc = dedup acc xs := by
  induction xs generalizing acc with
  | nil => simp [dedup]
  | cons x r ih =>
    simp only [List.foldl_cons, dedup, setAdd]
    split <;> simp [ih]

/-- a stop step ends `itemsOf`/`endOf` -/
theorem stop_items {st : Step} {v : Val} (h : st.stopValue? = some v) (r : Script) :
    itemsOf (st :: r) = [] ∧ endOf (st :: r) = .stop v := by
  cases st <;> simp_all [Step.stopValue?, itemsOf, endOf]

/-! ### py.Iterate with a callback that never asks to stop -/

theorem iterateK_collect {next : σ → Resp × σ} {s : σ} {sc : Script} (h : Runs next s sc)
    (g : α → Val → α) (fuel : Nat) (hf : sc.length < fuel) (a : α) :
    iterateK .isException next (fun a v => (g a v, false)) fuel s a =
      match endOf sc with
      | .raise e => .err (.other e)
      | .stop _ => .done ((itemsOf sc).foldl g a) := by
  induction h generalizing fuel a with
  | nil hn hs _ =>
    cases fuel with
    | zero => simp at hf
    | succ n => simp [iterateK, hn, classify_stop hs, endOf, itemsOf]
  | item hn _ ih =>
    cases fuel with
    | zero => simp at hf
    | succ n =>
      simp only [List.length_cons, Nat.add_lt_add_iff_right] at hf
      simp [iterateK, hn, ih n hf, endOf, itemsOf]
  | @stop s e s' st r v hst hn hs hv =>
    cases fuel with
    | zero => simp at hf
    | succ n =>
      obtain ⟨h1, h2⟩ := stop_items hst r
      simp [iterateK, hn, classify_stop hs, h1, h2]
  | raise hn =>
    cases fuel with
    | zero => simp at hf
    | succ n => simp [iterateK, hn, classify_other, endOf]

theorem iterate_eq : @iterate σ α = iterateK .isException := rfl

/-! ### early-exit loops -/

theorem contains_faithful (eq : Val → Val → Except Exc Bool) (obj : Val) {next : σ → Resp × σ} {s : σ} {sc : Script}
    (h : Runs next s sc) (fuel : Nat) (hf : sc.length < fuel) :
    sequenceContains eq obj next fuel s = specContains eq obj sc := by
  unfold sequenceContains
  rw [iterate_eq]
  induction h generalizing fuel with
  | nil hn hs _ =>
    cases fuel with
    | zero => simp at hf
    | succ n => simp [iterateK, hn, classify_stop hs, specContains]
  | @item s v s' r hn _ ih =>
    cases fuel with
    | zero => simp at hf
    | succ n =>
      simp only [List.length_cons, Nat.add_lt_add_iff_right] at hf
      simp only [iterateK, hn, specContains]
      cases hq : eq v obj with
      | error e => simp
      | ok b =>
        cases b with
        | true => simp
        | false => simpa using ih n hf
  | @stop s e s' st r v hst hn hs hv =>
    cases fuel with
    | zero => simp at hf
    | succ n =>
      cases st <;> simp_all [Step.stopValue?, iterateK, classify_stop hs, specContains]
  | raise hn =>
    cases fuel with
    | zero => simp at hf
    | succ n => simp [iterateK, hn, classify_other, specContains, toPy_other]

theorem joinK_faithful (sep : String) {next : σ → Resp × σ} {s : σ} {sc : Script}
    (h : Runs next s sc) (fuel : Nat) (hf : sc.length < fuel) (first : Bool) (parts : List String) :
    joinK .isException .isException sep next fuel first s parts =
      match specJoinAux sc parts with
      | .inl (some ps) => .str (sep.intercalate ps)
      | .inl none => .fuel
      | .inr e => .err (.exc e) := by
  induction h generalizing fuel first parts with
  | nil hn hs _ =>
    cases fuel with
    | zero => simp at hf
    | succ n => simp [joinK, hn, classify_stop hs, specJoinAux]
  | @item s v s' r hn _ ih =>
    cases fuel with
    | zero => simp at hf
    | succ n =>
      simp only [List.length_cons, Nat.add_lt_add_iff_right] at hf
      cases v <;> simp [joinK, hn, specJoinAux, ih n hf]
  | @stop s e s' st r v hst hn hs hv =>
    cases fuel with
    | zero => simp at hf
    | succ n =>
      cases st <;> simp_all [Step.stopValue?, joinK, classify_stop hs, specJoinAux]
  | raise hn =>
    cases fuel with
    | zero => simp at hf
    | succ n => simp [joinK, hn, classify_other, specJoinAux, toPy_other]

/-- the for loop around FOR_ITER with a body that never breaks or raises -/
theorem forLoop_collect {next : σ → Resp × σ} {s : σ} {sc : Script} (h : Runs next s sc)
    (g : α → Val → α) (fuel : Nat) (hf : sc.length < fuel) (a : α)
    (hk : Generated.k_vm_eval_do_FOR_ITER_0 = .isException) :
    forLoop next (fun a v => .ok (g a v, false)) fuel s a =
      match endOf sc with
      | .raise e => .error (.exc e)
      | .stop _ => .ok (some ((itemsOf sc).foldl g a)) := by
  induction h generalizing fuel a with
  | nil hn hs _ =>
    cases fuel with
    | zero => simp at hf
    | succ n => simp [forLoop, doForIter, doForIterK, hk, hn, classify_stop hs, endOf, itemsOf]
  | item hn _ ih =>
    cases fuel with
    | zero => simp at hf
    | succ n =>
      simp only [List.length_cons, Nat.add_lt_add_iff_right] at hf
      simp [forLoop, doForIter, doForIterK, hn, ih n hf, endOf, itemsOf]
  | @stop s e s' st r v hst hn hs hv =>
    cases fuel with
    | zero => simp at hf
    | succ n =>
      obtain ⟨h1, h2⟩ := stop_items hst r
      simp [forLoop, doForIter, doForIterK, hk, hn, classify_stop hs, h1, h2]
  | raise hn =>
    cases fuel with
    | zero => simp at hf
    | succ n => simp [forLoop, doForIter, doForIterK, hk, hn, classify_other, endOf, toPy_other]

theorem forLoop_faithful {next : σ → Resp × σ} {s : σ} {sc : Script} (h : Runs next s sc)
    (body : α → Val → Except Exc (α × Bool)) (fuel : Nat) (hf : sc.length < fuel) (a : α) :
    forLoop next body fuel s a = specFor body sc a := by
  have hk : Generated.k_vm_eval_do_FOR_ITER_0 = .isException := rfl
  induction h generalizing fuel a with
  | nil hn hs _ =>
    cases fuel with
    | zero => simp at hf
    | succ n => simp [forLoop, doForIter, doForIterK, hk, hn, classify_stop hs, specFor]
  | @item s v s' r hn _ ih =>
    cases fuel with
    | zero => simp at hf
    | succ n =>
      simp only [List.length_cons, Nat.add_lt_add_iff_right] at hf
      simp only [forLoop, doForIter, doForIterK, hn, specFor]
      cases hb : body a v with
      | error e => simp
      | ok p =>
        obtain ⟨a', b⟩ := p
        cases b with
        | true => simp
        | false => simpa using ih n hf a'
  | @stop s e s' st r v hst hn hs hv =>
    cases fuel with
    | zero => simp at hf
    | succ n =>
      cases st <;> simp_all [Step.stopValue?, forLoop, doForIter, doForIterK, classify_stop hs, specFor]
  | raise hn =>
    cases fuel with
    | zero => simp at hf
    | succ n => simp [forLoop, doForIter, doForIterK, hk, hn, classify_other, specFor, toPy_other]

/-! ### all / any / sum / min / max -/

theorem allK_faithful (truth : Val → Except Exc Bool) {next : σ → Resp × σ} {s : σ} {sc : Script}
    (h : Runs next s sc) (fuel : Nat) (hf : sc.length < fuel) :
    allK .isException truth next fuel s = specAllTrue truth sc := by
  induction h generalizing fuel with
  | nil hn hs _ =>
    cases fuel with
    | zero => simp at hf
    | succ n => simp [allK, hn, classify_stop hs, specAllTrue]
  | @item s v s' r hn _ ih =>
    cases fuel with
    | zero => simp at hf
    | succ n =>
      simp only [List.length_cons, Nat.add_lt_add_iff_right] at hf
      simp only [allK, hn, specAllTrue]
      cases ht : truth v with
      | error e => simp
      | ok b => cases b <;> simp [ih n hf]
  | @stop s e s' st r v hst hn hs hv =>
    cases fuel with
    | zero => simp at hf
    | succ n => cases st <;> simp_all [Step.stopValue?, allK, classify_stop hs, specAllTrue]
  | raise hn =>
    cases fuel with
    | zero => simp at hf
    | succ n => simp [allK, hn, classify_other, specAllTrue, toPy_other]

theorem anyK_faithful (truth : Val → Except Exc Bool) {next : σ → Resp × σ} {s : σ} {sc : Script}
    (h : Runs next s sc) (fuel : Nat) (hf : sc.length < fuel) :
    anyK .isException truth next fuel s = specAny truth sc := by
  induction h generalizing fuel with
  | nil hn hs _ =>
    cases fuel with
    | zero => simp at hf
    | succ n => simp [anyK, hn, classify_stop hs, specAny]
  | @item s v s' r hn _ ih =>
    cases fuel with
    | zero => simp at hf
    | succ n =>
      simp only [List.length_cons, Nat.add_lt_add_iff_right] at hf
      simp only [anyK, hn, specAny]
      cases ht : truth v with
      | error e => simp
      | ok b => cases b <;> simp [ih n hf]
  | @stop s e s' st r v hst hn hs hv =>
    cases fuel with
    | zero => simp at hf
    | succ n => cases st <;> simp_all [Step.stopValue?, anyK, classify_stop hs, specAny]
  | raise hn =>
    cases fuel with
    | zero => simp at hf
    | succ n => simp [anyK, hn, classify_other, specAny, toPy_other]

theorem sumK_faithful (add : Val → Val → Except Exc Val) {next : σ → Resp × σ} {s : σ} {sc : Script}
    (h : Runs next s sc) (fuel : Nat) (hf : sc.length < fuel) (start : Val) :
    sumK .isException add next fuel s start = specSum add sc start := by
  induction h generalizing fuel start with
  | nil hn hs _ =>
    cases fuel with
    | zero => simp at hf
    | succ n => simp [sumK, hn, classify_stop hs, specSum]
  | @item s v s' r hn _ ih =>
    cases fuel with
    | zero => simp at hf
    | succ n =>
      simp only [List.length_cons, Nat.add_lt_add_iff_right] at hf
      simp only [sumK, hn, specSum]
      cases ht : add start v with
      | error e => simp
      | ok b => simp [ih n hf]
  | @stop s e s' st r v hst hn hs hv =>
    cases fuel with
    | zero => simp at hf
    | succ n => cases st <;> simp_all [Step.stopValue?, sumK, classify_stop hs, specSum]
  | raise hn =>
    cases fuel with
    | zero => simp at hf
    | succ n => simp [sumK, hn, classify_other, specSum, toPy_other]

theorem minMaxKeyK_faithful (key : Val → Except PyErr Val) (cmp : Val → Val → Except Exc Bool) {next : σ → Resp × σ} {s : σ} {sc : Script}
    (h : Runs next s sc) (fuel : Nat) (hf : sc.length < fuel) (best : Option (Val × Val)) (dflt : Option Val) :
    minMaxKeyK .isException key cmp next fuel s best dflt = specMinMaxKey key cmp sc best dflt := by
  induction h generalizing fuel best with
  | nil hn hs _ =>
    cases fuel with
    | zero => simp at hf
    | succ n => cases best <;> cases dflt <;> simp [minMaxKeyK, hn, classify_stop hs, specMinMaxKey]
  | @item s v s' r hn _ ih =>
    cases fuel with
    | zero => simp at hf
    | succ n =>
      simp only [List.length_cons, Nat.add_lt_add_iff_right] at hf
      simp only [minMaxKeyK, hn, specMinMaxKey]
      cases hk : key v with
      | error e => simp
      | ok kv =>
        cases best with
        | none => simp [ih n hf]
        | some b =>
          simp only []
          cases ht : cmp kv b.1 with
          | error e => simp
          | ok c => simp [ih n hf]
  | @stop s e s' st r v hst hn hs hv =>
    cases fuel with
    | zero => simp at hf
    | succ n => cases st <;> cases best <;> cases dflt <;> simp_all [Step.stopValue?, minMaxKeyK, classify_stop hs, specMinMaxKey]
  | raise hn =>
    cases fuel with
    | zero => simp at hf
    | succ n => cases best <;> cases dflt <;> simp [minMaxKeyK, hn, classify_other, specMinMaxKey, toPy_other]

end GPy.C05

namespace GPy.C05
variable {σ α : Type}

/-! ### unpack_iterable -/

theorem specUnpack_stop {st : Step} {v : Val} (h : st.stopValue? = some v) (r : Script) (acc : List Val) (n : Nat) :
    specUnpack 0 (st :: r) acc = .unpacked acc none [] ∧ specUnpack (n + 1) (st :: r) acc = .err (.exc .value) := by
  cases st <;> simp_all [Step.stopValue?, specUnpack]

theorem specUnpackEx_stop {st : Step} {v : Val} (h : st.stopValue? = some v) (r : Script) (acc : List Val) (n m : Nat) :
    specUnpackEx (n + 1) m (st :: r) acc = .err (.exc .value) := by
  cases st <;> simp_all [Step.stopValue?, specUnpackEx]

theorem unpack_simple {next : σ → Resp × σ} (n : Nat) {s : σ} {sc : Script} (h : Runs next s sc) (acc : List Val) :
    (match unpackFirst .isException next n s acc with
     | .error e => Out.err e
     | .ok (pre, s') =>
       match next s' with
       | (.err e, _) =>
         match TestKind.isException.classify e with
         | .propagate => .err e.toPy
         | .exhausted => .unpacked pre none []
       | (.item _, _) => .err (.exc .value)) = specUnpack n sc acc := by
  induction n generalizing s sc acc with
  | zero =>
    cases h with
    | nil hn hs _ => simp [unpackFirst, hn, classify_stop hs, specUnpack]
    | item hn _ => simp [unpackFirst, hn, specUnpack]
    | stop hst hn hs hv => simp [unpackFirst, hn, classify_stop hs, (specUnpack_stop hst _ acc 0).1]
    | raise hn => simp [unpackFirst, hn, classify_other, specUnpack, toPy_other]
  | succ n ih =>
    cases h with
    | nil hn hs _ => simp [unpackFirst, hn, classify_stop hs, specUnpack]
    | item hn hr => simp only [unpackFirst, hn, specUnpack]; exact ih hr _
    | stop hst hn hs hv => simp [unpackFirst, hn, classify_stop hs, (specUnpack_stop hst _ acc n).2]
    | raise hn => simp [unpackFirst, hn, classify_other, specUnpack, toPy_other]

theorem unpack_ex {next : σ → Resp × σ} (n m : Nat) {s : σ} {sc : Script} (h : Runs next s sc) (acc : List Val)
    (fuel : Nat) (hf : sc.length < fuel) :
    (match unpackFirst .isException next n s acc with
     | .error e => Out.err e
     | .ok (pre, s') =>
       match iterateK .isException next (fun (l : List Val) item => (l ++ [item], false)) fuel s' [] with
       | .fuel => .fuel
       | .err e => .err e.toPy
       | .done l =>
         if l.length < m then .err (.exc .value)
         else .unpacked pre (some (l.take (l.length - m))) (l.drop (l.length - m))) = specUnpackEx n m sc acc := by
  induction n generalizing s sc acc with
  | zero =>
    simp only [unpackFirst, specUnpackEx]
    rw [iterateK_collect h (fun l v => l ++ [v]) fuel hf []]
    cases endOf sc with
    | raise e => simp [toPy_other]
    | stop v => simp only [foldl_snoc, List.nil_append]
  | succ n ih =>
    cases h with
    | nil hn hs _ => simp [unpackFirst, hn, classify_stop hs, specUnpackEx]
    | item hn hr =>
      simp only [unpackFirst, hn, specUnpackEx]
      exact ih hr _ (by simp at hf; omega)
    | stop hst hn hs hv => simp [unpackFirst, hn, classify_stop hs, specUnpackEx_stop hst _ acc n m]
    | raise hn => simp [unpackFirst, hn, classify_other, specUnpackEx, toPy_other]

/-! ### producers realise their scripts -/

theorem user_runs (sc : Script) : Runs userNext sc sc := by
  induction sc with
  | nil => exact .nil (e := .stopInfoClass) (s' := []) rfl rfl rfl
  | cons st r ih =>
    cases st with
    | item v => exact .item (s' := r) rfl ih
    | stopClass => exact .stop (e := .stopInfoClass) (s' := r) (v := .none) rfl rfl rfl rfl
    | stopInstance => exact .stop (e := .stopInfoInst none) (s' := r) (v := .none) rfl rfl rfl rfl
    | stopVal v => exact .stop (e := .stopInfoInst (some v)) (s' := r) (v := v) rfl rfl rfl rfl
    | raise e => exact .raise (s' := r) rfl

theorem listIter_runs (vs : List Val) : Runs listIterNext vs (vs.map .item) := by
  induction vs with
  | nil => exact .nil (e := .stopType) (s' := []) rfl rfl rfl
  | cons v r ih => exact .item (s' := r) rfl ih

/-- `Generator.Send` = `resume` without an exception: the body the first round modelled -/
theorem GenObj.send_eq {φ : Type} (run : Entry → φ → RunOut × φ) (g : GenObj φ) (arg : Val) :
    g.send run arg =
      if g.running then (.err (.other .value), g, false)
      else if g.fresh && arg != .none then (.err (.other .type), g, false)
      else if !g.fresh && !g.yielded then (.err .stopType, g, false)
      else
        match run (if g.fresh then .first else .send arg) g.frame with
        | (.raise e, fr) => (.err e, { fresh := false, yielded := false, running := false, frame := fr }, true)
        | (.yield v, fr) => (.item v, { fresh := false, yielded := true, running := false, frame := fr }, true)
        | (.ret v, fr) =>
          if v != .none then (.err (.stopExc v), { fresh := false, yielded := false, running := false, frame := fr }, true)
          else (.err .stopType, { fresh := false, yielded := false, running := false, frame := fr }, true) := by
  obtain ⟨fresh, yielded, running, frame⟩ := g
  cases running <;> cases fresh <;> cases yielded <;> simp [GenObj.send, GenObj.resume]
  all_goals (try (by_cases ha : arg = .none <;> simp [ha]))
  all_goals
    generalize run _ frame = x
    obtain ⟨o, fr⟩ := x
    cases o <;> simp

/-- a live generator object (not running; fresh or suspended at a yield) whose frame performs `sc` -/
theorem gen_runs_aux (sc : Script) (fresh : Bool) :
    Runs (genNext scriptRun) { fresh := fresh, yielded := !fresh, running := false, frame := sc } sc := by
  induction sc generalizing fresh with
  | nil =>
    refine .nil (e := .stopType) (s' := { fresh := false, yielded := false, running := false, frame := [] }) ?_ rfl rfl
    cases fresh <;> simp [genNext, GenObj.next, GenObj.send_eq, scriptRun]
  | cons st r ih =>
    cases st with
    | item v =>
      refine .item (s' := { fresh := false, yielded := true, running := false, frame := r }) ?_ (ih false)
      cases fresh <;> simp [genNext, GenObj.next, GenObj.send_eq, scriptRun]
    | stopClass =>
      refine .stop (e := .stopType) (s' := { fresh := false, yielded := false, running := false, frame := r }) (v := .none) rfl ?_ rfl rfl
      cases fresh <;> simp [genNext, GenObj.next, GenObj.send_eq, scriptRun]
    | stopInstance =>
      refine .stop (e := .stopInfoInst none) (s' := { fresh := false, yielded := false, running := false, frame := r }) (v := .none) rfl ?_ rfl rfl
      cases fresh <;> simp [genNext, GenObj.next, GenObj.send_eq, scriptRun]
    | stopVal v =>
      by_cases hv : v = .none
      · subst hv
        refine .stop (e := .stopType) (s' := { fresh := false, yielded := false, running := false, frame := r }) (v := .none) rfl ?_ rfl rfl
        cases fresh <;> simp [genNext, GenObj.next, GenObj.send_eq, scriptRun]
      · refine .stop (e := .stopExc v) (s' := { fresh := false, yielded := false, running := false, frame := r }) (v := v) rfl ?_ rfl rfl
        cases fresh <;> simp [genNext, GenObj.next, GenObj.send_eq, scriptRun, hv]
    | raise e =>
      refine .raise (s' := { fresh := false, yielded := false, running := false, frame := r }) ?_
      cases fresh <;> simp [genNext, GenObj.next, GenObj.send_eq, scriptRun]

/-! ### adapters preserve realisation -/

theorem adaptErr_forward (e : NextErr) : adaptErr .forward e = e := by simp [adaptErr, TestKind.classify]

theorem enum_runs {next : σ → Resp × σ} {s : σ} {sc : Script} (h : Runs next s sc) (i : Int) :
    Runs (enumNext next) (i, s) (enumScript i sc) := by
  have hk : Generated.k_py_enumerate_EnumerateIterator_M__next___0 = .forward := rfl
  induction h generalizing i with
  | @nil s e s' hn hs hv => exact .nil (e := e) (s' := (i, s')) (by simp [enumNext, hn, hk, adaptErr_forward]) hs hv
  | @item s v s' r hn _ ih => exact .item (s' := (i + 1, s')) (by simp [enumNext, hn]) (ih (i + 1))
  | @stop s e s' st r v hst hn hs hv =>
    have : enumScript i (st :: r) = [st] := by cases st <;> simp_all [Step.stopValue?, enumScript]
    rw [this]
    exact .stop (e := e) (s' := (i, s')) hst (by simp [enumNext, hn, hk, adaptErr_forward]) hs hv
  | @raise s e s' r hn => exact .raise (s' := (i, s')) (by simp [enumNext, hn, hk, adaptErr_forward])

@[simp] theorem stopValue_stopType : NextErr.stopType.stopValue = .none := rfl
@[simp] theorem stopValue_stopExc (v : Val) : (NextErr.stopExc v).stopValue = v := rfl
@[simp] theorem isStop_stopType : NextErr.stopType.isStop = true := rfl
@[simp] theorem isStop_stopExc (v : Val) : (NextErr.stopExc v).isStop = true := rfl


section
variable {φ : Type} (run : Entry → φ → RunOut × φ)

theorem send_spec (g : GenObj φ) (hr : g.running = false) (a : Val) (r : List Val) :
    specHistory run (a :: r) (!g.fresh) (g.fresh || g.yielded) g.frame =
      (g.send run a).1 :: specHistory run r (!(g.send run a).2.1.fresh) ((g.send run a).2.1.fresh || (g.send run a).2.1.yielded) (g.send run a).2.1.frame
    ∧ (g.send run a).2.1.running = false := by
  obtain ⟨fresh, yielded, running, frame⟩ := g
  simp only at hr
  subst hr
  cases fresh <;> cases yielded <;> by_cases ha : a = .none <;> simp [specHistory, GenObj.send_eq, ha]
  all_goals
    generalize hx : run _ frame = x
    obtain ⟨o, fr⟩ := x
    cases o with
    | yield v => simp
    | ret v => by_cases hv : v = .none <;> simp [hv]
    | raise e => simp
end

section
variable {τ : Type}

theorem mapScript_stop (f : Val → Except NextErr Val) {st : Step} {v : Val} (h : st.stopValue? = some v) (r : Script) :
    mapScript f (st :: r) = [st] := by cases st <;> simp_all [Step.stopValue?, mapScript]

theorem map_runs (f : Val → Except NextErr Val) {next : σ → Resp × σ} {s : σ} {sc : Script} (h : Runs next s sc) :
    Runs (mapNext f next) s (mapScript f sc) := by
  have hk : Generated.k_py_map_Map_M__next___0 = .forward := rfl
  induction h with
  | @nil s e s' hn hs hv => exact .nil (e := e) (s' := s') (by simp [mapNext, hn, hk, adaptErr_forward]) hs hv
  | @item s v s' r hn _ ih =>
    cases hf : f v with
    | ok w =>
      simp only [mapScript, hf]
      exact .item (s' := s') (by simp [mapNext, hn, hf]) ih
    | error e' =>
      have hm : mapNext f next s = (.err e', s') := by simp [mapNext, hn, hf]
      cases e' with
      | stopType => simp only [mapScript, hf]; exact .stop (v := .none) rfl hm rfl rfl
      | stopInfoClass => simp only [mapScript, hf]; exact .stop (v := .none) rfl hm rfl rfl
      | stopInfoInst x =>
        cases x with
        | none => simp only [mapScript, hf]; exact .stop (v := .none) rfl hm rfl rfl
        | some x => simp only [mapScript, hf]; exact .stop (v := x) rfl hm rfl rfl
      | stopExc x => simp only [mapScript, hf]; exact .stop (v := x) rfl hm rfl rfl
      | other e => simp only [mapScript, hf]; exact .raise hm
  | @stop s e s' st r v hst hn hs hv =>
    rw [mapScript_stop f hst r]
    exact .stop (e := e) (s' := s') hst (by simp [mapNext, hn, hk, adaptErr_forward]) hs hv
  | @raise s e s' r hn => exact .raise (s' := s') (by simp [mapNext, hn, hk, adaptErr_forward])

theorem zipScript_stop_left {st : Step} {v : Val} (h : st.stopValue? = some v) (r b : Script) :
    zipScript (st :: r) b = [st] := by cases st <;> cases b <;> simp_all [Step.stopValue?, zipScript]

theorem zipScript_stop_right {st : Step} {v x : Val} (h : st.stopValue? = some v) (ra r : Script) :
    zipScript (.item x :: ra) (st :: r) = [st] := by cases st <;> simp_all [Step.stopValue?, zipScript]

theorem zip_runs {n1 : σ → Resp × σ} {n2 : τ → Resp × τ} {s1 : σ} {s2 : τ} {a b : Script}
    (h1 : Runs n1 s1 a) (h2 : Runs n2 s2 b) : Runs (zipNext n1 n2) (s1, s2) (zipScript a b) := by
  have hk : Generated.k_py_zip_Zip_M__next___0 = .forward := rfl
  induction h1 generalizing s2 b with
  | @nil s e s' hn hs hv =>
    have : zipScript [] b = [] := by cases b <;> simp [zipScript]
    rw [this]
    exact .nil (e := e) (s' := (s', s2)) (by simp [zipNext, hn, hk, adaptErr_forward]) hs hv
  | @item s x s' ra hn _ ih =>
    cases h2 with
    | @nil _ e t' hn2 hs2 hv2 =>
      simp only [zipScript]
      exact .nil (e := e) (s' := (s', t')) (by simp [zipNext, hn, hn2, hk, adaptErr_forward]) hs2 hv2
    | @item _ y t' rb hn2 hr2 =>
      simp only [zipScript]
      exact .item (s' := (s', t')) (by simp [zipNext, hn, hn2]) (ih hr2)
    | @stop _ e t' st r v hst hn2 hs2 hv2 =>
      rw [zipScript_stop_right hst ra r]
      exact .stop (e := e) (s' := (s', t')) hst (by simp [zipNext, hn, hn2, hk, adaptErr_forward]) hs2 hv2
    | @raise _ e t' r hn2 =>
      simp only [zipScript]
      exact .raise (s' := (s', t')) (by simp [zipNext, hn, hn2, hk, adaptErr_forward])
  | @stop s e s' st r v hst hn hs hv =>
    rw [zipScript_stop_left hst r b]
    exact .stop (e := e) (s' := (s', s2)) hst (by simp [zipNext, hn, hk, adaptErr_forward]) hs hv
  | @raise s e s' r hn =>
    have : zipScript (.raise e :: r) b = [.raise e] := by cases b <;> simp [zipScript]
    rw [this]
    exact .raise (s' := (s', s2)) (by simp [zipNext, hn, hk, adaptErr_forward])
end

theorem isStop_genExit : (NextErr.other Exc.genExit).isStop = false := rfl
theorem isGenExit_genExit : (NextErr.other Exc.genExit).isGenExit = true := rfl

end GPy.C05
