import GPy.C05.Proofs
namespace GPy.C05

/-!
C05, more producer/adapter lemmas:
* `filter_runs`  : `filter(None, it)` realises `filterScript` of the script of `it`;
* `mapped_runs`  : the producer `map(perform, [codes…])` realises the script it encodes;
* `getitem_runs` : a class with only `__getitem__`, driven by `py.Iterator.M__next__`.
-/

variable {σ : Type}

/-! ### `Runs` only looks at the response at the current state -/

/-- `Runs next s sc` depends on `s` only through `next s`. -/
theorem Runs.of_next_eq {next : σ → Resp × σ} {s t : σ} {sc : Script}
    (heq : next s = next t) (h : Runs next t sc) : Runs next s sc := by
  cases h with
  | nil hn hs hv => exact .nil (heq.trans hn) hs hv
  | item hn hr => exact .item (heq.trans hn) hr
  | stop hst hn hs hv => exact .stop hst (heq.trans hn) hs hv
  | raise hn => exact .raise (heq.trans hn)

/-! ### filter -/

theorem filterScript_stop (truth : Val → Except Exc Bool) {st : Step} {v : Val}
    (h : st.stopValue? = some v) (r : Script) : filterScript truth (st :: r) = [st] := by
  cases st <;> simp_all [Step.stopValue?, filterScript]

/-- fuel independence of the `for {}` loop of `Filter.M__next__`: any two fuels that exceed the
length of the script the inner iterator realises give the same response and the same new state. -/
theorem filterLoop_fuel_indep (truth : Val → Except Exc Bool) {next : σ → Resp × σ} {s : σ} {sc : Script}
    (h : Runs next s sc) (f1 f2 : Nat) (h1 : sc.length < f1) (h2 : sc.length < f2) :
    filterLoop truth next f1 s = filterLoop truth next f2 s := by
  induction h generalizing f1 f2 with
  | nil hn hs _ =>
    cases f1 with
    | zero => simp at h1
    | succ n1 =>
      cases f2 with
      | zero => simp at h2
      | succ n2 => simp [filterLoop, hn]
  | @item s v s' r hn _ ih =>
    cases f1 with
    | zero => simp at h1
    | succ n1 =>
      cases f2 with
      | zero => simp at h2
      | succ n2 =>
        simp only [List.length_cons, Nat.add_lt_add_iff_right] at h1 h2
        simp only [filterLoop, hn]
        cases ht : truth v with
        | error e => rfl
        | ok b =>
          cases b with
          | true => rfl
          | false => exact ih n1 n2 h1 h2
  | stop hst hn hs hv =>
    cases f1 with
    | zero => simp at h1
    | succ n1 =>
      cases f2 with
      | zero => simp at h2
      | succ n2 => simp [filterLoop, hn]
  | raise hn =>
    cases f1 with
    | zero => simp at h1
    | succ n1 =>
      cases f2 with
      | zero => simp at h2
      | succ n2 => simp [filterLoop, hn]

/-- `filter(None, it)` is transparent: it realises `filterScript` of what `it` realises, for every
fuel exceeding the length of the inner script (the same fuel at every call). -/
theorem filter_runs (truth : Val → Except Exc Bool) {σ : Type} {next : σ → Resp × σ} {s : σ} {sc : Script}
    (h : Runs next s sc) (fuel : Nat) (hf : sc.length < fuel) :
    Runs (filterNext truth fuel next) s (filterScript truth sc) := by
  have hk : Generated.k_py_filter_Filter_M__next___0 = .forward := rfl
  induction h with
  | @nil s e s' hn hs hv =>
    cases fuel with
    | zero => simp at hf
    | succ n =>
      exact .nil (e := e) (s' := s') (by simp [filterNext, filterLoop, hn, hk, adaptErr_forward]) hs hv
  | @item s v s' r hn hr ih =>
    cases fuel with
    | zero => simp at hf
    | succ n =>
      simp only [List.length_cons, Nat.add_lt_add_iff_right] at hf
      have hf' : r.length < n + 1 := Nat.lt_succ_of_lt hf
      cases ht : truth v with
      | error e =>
        simp only [filterScript, ht]
        exact .raise (s' := s') (by simp [filterNext, filterLoop, hn, ht])
      | ok b =>
        cases b with
        | true =>
          simp only [filterScript, ht]
          exact .item (s' := s') (by simp [filterNext, filterLoop, hn, ht]) (ih hf')
        | false =>
          simp only [filterScript, ht]
          refine Runs.of_next_eq ?_ (ih hf')
          simp only [filterNext, filterLoop, hn, ht]
          exact filterLoop_fuel_indep truth hr n (n + 1) hf hf'
  | @stop s e s' st r v hst hn hs hv =>
    cases fuel with
    | zero => simp at hf
    | succ n =>
      rw [filterScript_stop truth hst r]
      exact .stop (e := e) (s' := s') hst (by simp [filterNext, filterLoop, hn, hk, adaptErr_forward]) hs hv
  | @raise s e s' r hn =>
    cases fuel with
    | zero => simp at hf
    | succ n =>
      simp only [filterScript]
      exact .raise (s' := s') (by simp [filterNext, filterLoop, hn, hk, adaptErr_forward])

/-! ### map(perform, [codes…]) -/

theorem decodeF_encode_raise (e : Exc) : decodeF (encodeStep (.raise e)) = .error (.other e) := by
  cases e <;> rfl

/-- the producer `map(perform, [codes…])` realises the script it encodes -/
theorem mapped_runs (sc : Script) : Runs (mapNext decodeF listIterNext) (sc.map encodeStep) sc := by
  have hk : Generated.k_py_map_Map_M__next___0 = .forward := rfl
  induction sc with
  | nil =>
    exact .nil (e := .stopType) (s' := []) (by simp [mapNext, listIterNext, hk, adaptErr_forward]) rfl rfl
  | cons st r ih =>
    cases st with
    | item v => exact .item (s' := r.map encodeStep) rfl ih
    | stopClass => exact .stop (e := .stopInfoClass) (s' := r.map encodeStep) (v := .none) rfl rfl rfl rfl
    | stopInstance => exact .stop (e := .stopInfoInst none) (s' := r.map encodeStep) (v := .none) rfl rfl rfl rfl
    | stopVal v => exact .stop (e := .stopInfoInst (some v)) (s' := r.map encodeStep) (v := v) rfl rfl rfl rfl
    | raise e =>
      refine .raise (s' := r.map encodeStep) ?_
      simp only [List.map_cons, mapNext, listIterNext, decodeF_encode_raise]

/-! ### `__getitem__` sequences -/

theorem getitem_runs_aux (sc : Script) (hno : ∀ st ∈ sc, st ≠ Step.raise Exc.index)
    (pre suf : Script) (hsc : sc = pre ++ suf) :
    Runs (iteratorNext (getitemOf sc)) pre.length suf := by
  induction suf generalizing pre with
  | nil =>
    have hg : sc[pre.length]? = none := by subst hsc; simp
    exact .nil (e := .stopType) (s' := pre.length)
      (by simp [iteratorNext, getitemOf, hg, NextErr.isIndexError]) rfl rfl
  | cons st r ih =>
    have hg : sc[pre.length]? = some st := by subst hsc; simp
    have hmem : st ∈ sc := by subst hsc; simp
    cases st with
    | item v =>
      have hr := ih (pre ++ [.item v]) (by simp [hsc])
      simp only [List.length_append, List.length_cons, List.length_nil, Nat.zero_add] at hr
      exact .item (s' := pre.length + 1) (by simp [iteratorNext, getitemOf, hg]) hr
    | stopClass =>
      exact .stop (e := .stopType) (s' := pre.length) (v := .none) rfl
        (by simp [iteratorNext, getitemOf, hg, NextErr.isIndexError]) rfl rfl
    | stopInstance =>
      exact .stop (e := .stopInfoInst none) (s' := pre.length) (v := .none) rfl
        (by simp [iteratorNext, getitemOf, hg, NextErr.isIndexError]) rfl rfl
    | stopVal v =>
      exact .stop (e := .stopInfoInst (some v)) (s' := pre.length) (v := v) rfl
        (by simp [iteratorNext, getitemOf, hg, NextErr.isIndexError]) rfl rfl
    | raise e =>
      have hne : e ≠ Exc.index := fun he => hno _ hmem (by rw [he])
      refine .raise (s' := pre.length) ?_
      cases e <;> simp_all [iteratorNext, getitemOf, NextErr.isIndexError]

/-- a class with only `__getitem__`, iterated through `py.Iterator.M__next__`, realises its script,
provided no step raises IndexError (which this protocol reads as exhaustion) -/
theorem getitem_runs (sc : Script) (hno : ∀ st ∈ sc, st ≠ Step.raise Exc.index) :
    Runs (iteratorNext (getitemOf sc)) 0 sc :=
  getitem_runs_aux sc hno [] sc rfl

/-- the hypothesis of `getitem_runs` is needed: a `raise IndexError` step is turned into exhaustion -/
theorem getitem_index_is_stop_witness :
    iteratorNext (getitemOf [.raise .index]) 0 = (.err .stopType, 0) := by decide

/-- … so the script `[raise IndexError]` is not realised -/
theorem getitem_index_not_runs : ¬ Runs (iteratorNext (getitemOf [.raise .index])) 0 [.raise .index] := by
  intro h
  cases h with
  | stop hst _ _ _ => simp [Step.stopValue?] at hst
  | raise hn => rw [getitem_index_is_stop_witness] at hn; simp at hn

end GPy.C05
