/-
C05 round 3: helper lemmas about the carried return value (Ret.lean).
-/
import GPy.C05.Ret
namespace GPy.C05.Ret

/-! the constructors the regenerated table gives for the sites the model reads -/
theorem ctor_resume_ret : ctorAt "Generator.resume" 3 = .newTuple1 := by decide
theorem ctor_resume_bare : ctorAt "Generator.resume" 4 = .bareType := by decide
theorem ctor_throw_inst : ctorAt "Generator.Throw" 1 = .passExc := by decide
theorem ctor_throw_val_inst : ctorAt "Generator.Throw" 2 = .passExc := by decide
theorem ctor_throw_tuple : ctorAt "Generator.Throw" 3 = .newArgs := by decide
theorem ctor_throw_single : ctorAt "Generator.Throw" 4 = .newTuple1 := by decide
theorem ctor_throw_none : ctorAt "Generator.Throw" 5 = .newNil := by decide

theorem resumeFinish_some_ne (v : PV) (h : v ≠ .none) :
    resumeFinish (some v) = .exc (exceptionNew .stopIteration (.cons v .nil)) := by
  have : (v != PV.none) = true := by simpa using h
  simp [resumeFinish, this, ctor_resume_ret, buildExc]

theorem resumeFinish_none : resumeFinish (some .none) = .typ .stopIteration := by
  simp [resumeFinish, ctor_resume_bare, buildExc]

theorem resumeFinish_nil : resumeFinish none = .typ .stopIteration := by
  simp [resumeFinish, ctor_resume_bare, buildExc]

theorem isStop_resumeFinish (v : PV) : isException .stopIteration (resumeFinish (some v)) = true := by
  by_cases h : v = .none
  · subst h; rw [resumeFinish_none]; decide
  · rw [resumeFinish_some_ne v h]; rfl

theorem stopValue_resumeFinish (v : PV) : stopIterationValue (resumeFinish (some v)) = v := by
  by_cases h : v = .none
  · subst h; rw [resumeFinish_none]; rfl
  · rw [resumeFinish_some_ne v h]; rfl

theorem yieldFromFinish_resumeFinish (v : PV) : yieldFromFinish (resumeFinish (some v)) = .ok v := by
  simp [yieldFromFinish, isStop_resumeFinish, stopValue_resumeFinish]

/-- every level of delegation hands on the very error value class the innermost generator made -/
theorem chainErr_eq (n : Nat) (v : PV) : chainErr n v = resumeFinish (some v) := by
  induction n with
  | zero => rfl
  | succ n ih => simp [chainErr, delegFinish, ih, yieldFromFinish_resumeFinish]

theorem caught_resumeFinish (v : PV) :
    caught (resumeFinish (some v)) = some ⟨0, .stopIteration, specArgs v⟩ := by
  by_cases h : v = .none
  · subst h; rw [resumeFinish_none]; rfl
  · rw [resumeFinish_some_ne v h]; simp [caught, toInfo, makeException, exceptionNew, ExcObj.toPV, specArgs, h]; rfl

end GPy.C05.Ret
