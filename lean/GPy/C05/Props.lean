/-
C05 property theorems.

Part 1 (iteration ends only on StopIteration).  `Runs next s sc` says that the Go iterator object
`(next, s)` realises the script `sc` (items, then a StopIteration in ANY of its Go representations –
the `*Type` value, an ExceptionInfo for the class or an instance, an `*Exception` carrying a value –
or another exception).  `faithful_*`: every consumer loop of the anchored Go code, with the error test
its call site really has (read from the regenerated `Generated.lean`), computes exactly what Python
defines, for ALL scripts, all iterator objects realising them, all behaviours of the per-item
operations, and every sufficient fuel.  `*_runs`: the producers (user class, generator object, builtin
list iterator) realise their scripts and the adapters enumerate/map/zip preserve realisation.

Part 2 (generator object).  For ALL frame behaviours `run` and ALL histories of next/send the
`Generator.Send` state machine agrees with the coroutine reference semantics (`gen_history_spec`);
corollaries: lazy start, exhausted stays exhausted (after return AND after an exception), the return
value is carried by StopIteration, re-entry is ValueError.
-/
import GPy.C05.Proofs
import GPy.C05.ProofsMore
import GPy.C05.Frame
import GPy.C05.ProofsRet
namespace GPy.C05

variable {σ : Type}

/-! ## the site table -/

/-- every row of the regenerated site table is of a faithful kind: a consumer tests
`py.IsException(py.StopIteration, err)`, an adapter forwards the error unchanged -/
theorem site_table_faithful :
    Generated.sites.all (fun s => s.kind == .isException || s.kind == .forward) = true := by decide

/-- the table has a row for each `py.Next` call the model transliterates (16 on the verified tree) -/
theorem site_table_complete : Generated.sites.length = 16 := by decide

/-- every call of the helpers that loop over `py.Next` themselves (`py.Iterate`, `SequenceList/Tuple/Set`,
`List.ExtendSequence` – what list.extend, `+=`, set.update, dict.update, sorted, slice assignment, star-args … are built on)
hands the helper's error on to its caller: with `faithful_list/tuple/set/extend/collectThen` this makes each of them faithful.
A new call site changes the regenerated table; a site that drops or tests the error is not `forward` and breaks this theorem. -/
theorem derived_sites_forward : Generated.derivedSites.all (fun s => s.kind == .forward) = true := by decide

/-- 23 such call sites on the verified tree (a change here means a consumer was added or removed: look at it) -/
theorem derived_sites_complete : Generated.derivedSites.length = 23 := by decide

/-- `kind = isException → faithful` for the generic loop of `py.Iterate` (the lemma of DESIGN §7/C05) -/
theorem isException_faithful {next : σ → Resp × σ} {s : σ} {sc : Script} (h : Runs next s sc)
    (k : TestKind) (hk : k = .isException) (fuel : Nat) (hf : sc.length < fuel) :
    iterateK k next (fun (l : List Val) v => (l ++ [v], false)) fuel s [] =
      match endOf sc with
      | .raise e => .err (.other e)
      | .stop _ => .done (itemsOf sc) := by
  subst hk
  rw [iterateK_collect h (fun l v => l ++ [v]) fuel hf []]
  simp only [foldl_snoc, List.nil_append]
  cases endOf sc <;> simp

/-- the test by identity (the code before the fix) is NOT faithful: a user `__next__` raising
StopIteration is propagated as an error -/
theorem identity_not_faithful_witness :
    iterateK .identity userNext (fun (l : List Val) v => (l ++ [v], false)) 5 [.item (.int 1), .stopClass] []
      = .err .stopInfoClass ∧ specList [.item (.int 1), .stopClass] = .list [.int 1] := by decide

/-- "any error means exhausted" (FOR_ITER / unpack_iterable before the fix) swallows a real exception -/
theorem anyError_not_faithful_witness :
    (match doForIterK .anyError userNext [.raise .key] with | .jump => true | _ => false) = true
      ∧ specList [.raise .key] = .err (.exc .key) := by decide

/-! ## consumers: faithful for all scripts -/

section
variable {next : σ → Resp × σ} {s : σ} {sc : Script}

theorem faithful_list (h : Runs next s sc) (fuel : Nat) (hf : sc.length < fuel) :
    sequenceList next fuel s = specList sc := by
  simp only [sequenceList, sequenceListRaw, iterate_eq, specList, specAll]
  rw [iterateK_collect h (fun l v => l ++ [v]) fuel hf []]
  simp only [foldl_snoc, List.nil_append]
  cases endOf sc <;> simp [toPy_other]

theorem faithful_tuple (h : Runs next s sc) (fuel : Nat) (hf : sc.length < fuel) :
    sequenceTuple next fuel s = specTuple sc := by
  simp only [sequenceTuple, iterate_eq, specTuple, specAll]
  rw [iterateK_collect h (fun l v => l ++ [v]) fuel hf []]
  simp only [foldl_snoc, List.nil_append]
  cases endOf sc <;> simp [toPy_other]

theorem faithful_starArgs (h : Runs next s sc) (fuel : Nat) (hf : sc.length < fuel) :
    starArgs next fuel s = specTuple sc := by
  simp only [starArgs, iterate_eq, specTuple, specAll]
  rw [iterateK_collect h (fun l v => l ++ [v]) fuel hf []]
  simp only [foldl_snoc, List.nil_append]
  cases endOf sc <;> simp [toPy_other]

theorem faithful_set (h : Runs next s sc) (fuel : Nat) (hf : sc.length < fuel) :
    sequenceSet next fuel s = specSet sc := by
  simp only [sequenceSet, iterate_eq, specSet, specAll]
  rw [iterateK_collect h setAdd fuel hf []]
  cases endOf sc <;> simp [foldl_setAdd, toPy_other]

theorem faithful_sorted (sort : List Val → Except Exc (List Val)) (h : Runs next s sc) (fuel : Nat) (hf : sc.length < fuel) :
    builtinSorted sort next fuel s = specSorted sort sc := by
  simp only [builtinSorted, sequenceListRaw, iterate_eq, specSorted, specAll]
  rw [iterateK_collect h (fun l v => l ++ [v]) fuel hf []]
  simp only [foldl_snoc, List.nil_append]
  cases endOf sc <;> simp [toPy_other]
  cases sort (itemsOf sc) <;> rfl

theorem faithful_contains (eq : Val → Val → Except Exc Bool) (obj : Val) (h : Runs next s sc) (fuel : Nat) (hf : sc.length < fuel) :
    sequenceContains eq obj next fuel s = specContains eq obj sc :=
  contains_faithful eq obj h fuel hf

theorem faithful_join (sep : String) (h : Runs next s sc) (fuel : Nat) (hf : sc.length < fuel) :
    join sep next fuel s = specJoin sep sc := by
  simp only [join, specJoin]
  exact joinK_faithful sep h fuel hf true []

/-- the `for` statement / a comprehension, for EVERY loop body (folding a state, may break, may raise) -/
theorem faithful_for {α : Type} (body : α → Val → Except Exc (α × Bool)) (h : Runs next s sc) (fuel : Nat)
    (hf : sc.length < fuel) (a : α) : forLoop next body fuel s a = specFor body sc a :=
  forLoop_faithful h body fuel hf a

theorem faithful_forCollect (h : Runs next s sc) (fuel : Nat) (hf : sc.length < fuel) :
    forCollect next fuel s = specList sc := by
  simp only [forCollect, specList, specAll]
  rw [forLoop_collect h (fun l v => l ++ [v]) fuel hf [] rfl]
  simp only [foldl_snoc, List.nil_append]
  cases endOf sc <;> simp

theorem faithful_unpack (n : Nat) (h : Runs next s sc) (fuel : Nat) :
    unpackIterable next n none fuel s = specUnpack n sc [] := by
  have hk0 : Generated.k_vm_eval_unpack_iterable_0 = .isException := rfl
  have hk1 : Generated.k_vm_eval_unpack_iterable_1 = .isException := rfl
  have := unpack_simple n h []
  simp only [unpackIterable, hk0, hk1]
  exact this

theorem faithful_unpackEx (n m : Nat) (h : Runs next s sc) (fuel : Nat) (hf : sc.length < fuel) :
    unpackIterable next n (some m) fuel s = specUnpackEx n m sc [] := by
  have hk0 : Generated.k_vm_eval_unpack_iterable_0 = .isException := rfl
  have := unpack_ex n m h [] fuel hf
  simp only [unpackIterable, sequenceListRaw, iterate_eq, hk0]
  exact this

theorem faithful_all (truth : Val → Except Exc Bool) (h : Runs next s sc) (fuel : Nat) (hf : sc.length < fuel) :
    builtinAll truth next fuel s = specAllTrue truth sc := allK_faithful truth h fuel hf

theorem faithful_any (truth : Val → Except Exc Bool) (h : Runs next s sc) (fuel : Nat) (hf : sc.length < fuel) :
    builtinAny truth next fuel s = specAny truth sc := anyK_faithful truth h fuel hf

theorem faithful_sum (add : Val → Val → Except Exc Val) (h : Runs next s sc) (fuel : Nat) (hf : sc.length < fuel) (start : Val) :
    builtinSum add next fuel s start = specSum add sc start := sumK_faithful add h fuel hf start

theorem faithful_minMax (cmp : Val → Val → Except Exc Bool) (h : Runs next s sc) (fuel : Nat) (hf : sc.length < fuel)
    (dflt : Option Val) : minMax cmp next fuel s dflt = specMinMax cmp sc dflt :=
  minMaxKeyK_faithful (fun v => .ok v) cmp h fuel hf none dflt

/-- `min`/`max` with `key=` (every key function, which may raise) and `default=` -/
theorem faithful_minMaxKey (key : Val → Except PyErr Val) (cmp : Val → Val → Except Exc Bool) (h : Runs next s sc) (fuel : Nat)
    (hf : sc.length < fuel) (dflt : Option Val) : minMaxKey key cmp next fuel s dflt = specMinMaxKey key cmp sc none dflt :=
  minMaxKeyK_faithful key cmp h fuel hf none dflt

/-- `l.extend(it)` and `l += it`, for every list `init` the target already holds -/
theorem faithful_extend (init : List Val) (h : Runs next s sc) (fuel : Nat) (hf : sc.length < fuel) :
    listExtend next fuel s init = specExtend init sc := by
  simp only [listExtend, iterate_eq, specExtend, specAll]
  rw [iterateK_collect h (fun l v => l ++ [v]) fuel hf init]
  simp only [foldl_snoc]
  cases endOf sc <;> simp [toPy_other]

/-- `s.update(it)` -/
theorem faithful_setUpdate (init : List Val) (h : Runs next s sc) (fuel : Nat) (hf : sc.length < fuel) :
    setUpdate next fuel s init = specSetUpdate init sc := by
  simp only [setUpdate, iterate_eq, specSetUpdate, specAll]
  rw [iterateK_collect h setAdd fuel hf []]
  cases endOf sc <;> simp [foldl_setAdd, toPy_other]

/-- every consumer that reads the iterable with `SequenceList` and then computes on the list
(`dict(it)`, `d.update(it)`, `sorted(it, key=f)`, slice assignment): for EVERY such computation `fin` -/
theorem faithful_collectThen (fin : List Val → Out) (h : Runs next s sc) (fuel : Nat) (hf : sc.length < fuel) :
    collectThen fin next fuel s = specAll fin sc := by
  simp only [collectThen, sequenceListRaw, iterate_eq, specAll]
  rw [iterateK_collect h (fun l v => l ++ [v]) fuel hf []]
  simp only [foldl_snoc, List.nil_append]
  cases endOf sc <;> simp [toPy_other]

theorem faithful_next (h : Runs next s sc) (dflt : Option Val) : builtinNext next s dflt = specNext dflt sc := by
  have hk : Generated.k_stdlib_builtin_builtin_builtin_next_0 = .isException := rfl
  cases h with
  | nil hn hs hv => cases dflt <;> simp [builtinNext, builtinNextK, hk, hn, classify_stop hs, specNext, endOf, toPy_stop hs, hv]
  | item hn _ => simp [builtinNext, builtinNextK, hn, specNext]
  | stop hst hn hs hv =>
    rename_i st r v
    cases st <;> cases dflt <;>
      simp_all [Step.stopValue?, builtinNext, builtinNextK, classify_stop hs, specNext, endOf, toPy_stop hs]
  | raise hn => cases dflt <;> simp [builtinNext, builtinNextK, hk, hn, classify_other, specNext, toPy_other]

end

/-! ## producers and adapters -/

/-- a user-defined iterator class realises its script (every error is an ExceptionInfo: identity tests fail on it) -/
theorem user_realises (sc : Script) : Runs userNext sc sc := user_runs sc

/-- a generator object (through `Generator.Send`) whose body performs the script realises it -/
theorem generator_realises (sc : Script) : Runs (genNext scriptRun) (newGenerator sc) sc := gen_runs_aux sc true

/-- a builtin list iterator realises its items -/
theorem listIter_realises (vs : List Val) : Runs listIterNext vs (vs.map .item) := listIter_runs vs

/-- `enumerate` is transparent: it realises the enumerated script whenever its source realises a script -/
theorem enumerate_transparent {next : σ → Resp × σ} {s : σ} {sc : Script} (h : Runs next s sc) (i : Int) :
    Runs (enumNext next) (i, s) (enumScript i sc) := enum_runs h i

/-- `map(f, it)` is transparent, for every `f` (which may itself raise, StopIteration included) -/
theorem map_transparent (f : Val → Except NextErr Val) {next : σ → Resp × σ} {s : σ} {sc : Script} (h : Runs next s sc) :
    Runs (mapNext f next) s (mapScript f sc) := map_runs f h

/-- `zip(a, b)` is transparent: it stops with the first of its sources that stops (left one asked first)
and propagates the first exception -/
theorem zip_transparent {τ : Type} {n1 : σ → Resp × σ} {n2 : τ → Resp × τ} {s1 : σ} {s2 : τ} {a b : Script}
    (h1 : Runs n1 s1 a) (h2 : Runs n2 s2 b) : Runs (zipNext n1 n2) (s1, s2) (zipScript a b) := zip_runs h1 h2

/-- `filter(None, it)` is transparent (the Go `for {}` that skips falsy items, with any fuel that covers the script) -/
theorem filter_transparent (truth : Val → Except Exc Bool) {next : σ → Resp × σ} {s : σ} {sc : Script} (h : Runs next s sc)
    (fuel : Nat) (hf : sc.length < fuel) : Runs (filterNext truth fuel next) s (filterScript truth sc) :=
  filter_runs truth h fuel hf

/-- the producer kind `map(perform, [codes…])` used by the correspondence run realises the script it encodes -/
theorem mapped_realises (sc : Script) : Runs (mapNext decodeF listIterNext) (sc.map encodeStep) sc := mapped_runs sc

/-- a class with only `__getitem__` driven by `Iterator.M__next__` realises its script; IndexError means exhaustion in
this protocol, so the script must not raise IndexError as "another exception" (`getitem_index_is_stop_witness`) -/
theorem getitem_realises (sc : Script) (hno : ∀ st ∈ sc, st ≠ Step.raise Exc.index) :
    Runs (iteratorNext (getitemOf sc)) 0 sc := getitem_runs sc hno

/-- end-to-end instance: `list(enumerate(G(script)))` for every script -/
theorem list_enumerate_generator (sc : Script) (fuel : Nat) (hf : (enumScript 0 sc).length < fuel) :
    sequenceList (enumNext (genNext scriptRun)) fuel (0, newGenerator sc) = specList (enumScript 0 sc) :=
  faithful_list (enumerate_transparent (generator_realises sc) 0) fuel hf

/-! ## the generator object -/

section
variable {φ : Type} (run : Entry → φ → RunOut × φ)

/-- MAIN: for every frame behaviour and every history of next/send, `Generator.Send` returns what the
coroutine reference semantics says (`started`/`live` are the abstraction of `Lasti ≠ 0` / `Lasti = 0 ∨ Yielded`). -/
theorem gen_history_invariant (h : List Val) (g : GenObj φ) (hr : g.running = false) :
    modelHistory run h g = specHistory run h (!g.fresh) (g.fresh || g.yielded) g.frame := by
  induction h generalizing g with
  | nil => rfl
  | cons a r ih =>
    obtain ⟨h1, h2⟩ := send_spec run g hr a r
    rw [h1]
    simp only [modelHistory]
    rw [ih _ h2]

theorem gen_history_spec (h : List Val) (fr : φ) :
    modelHistory run h (newGenerator fr) = specHistory run h false true fr :=
  gen_history_invariant run h (newGenerator fr) rfl

/-- lazy: creating the generator runs nothing, and a history of n calls runs the frame at most n times -/
theorem gen_lazy (h : List Val) (g : GenObj φ) : (newGenerator (φ := φ) g.frame).frame = g.frame ∧ runCount run h g ≤ h.length := by
  refine ⟨rfl, ?_⟩
  induction h generalizing g with
  | nil => simp [runCount]
  | cons a r ih =>
    simp only [runCount, List.length_cons]
    have := ih (g.send run a).2.1
    split <;> omega

/-- a generator that is not live (it returned or raised) never runs its frame again and answers
StopIteration to every later next/send: exhausted stays exhausted, for all histories -/
theorem gen_exhausted_stays (h : List Val) (g : GenObj φ) (hr : g.running = false) (hf : g.fresh = false) (hy : g.yielded = false) :
    modelHistory run h g = h.map (fun _ => Resp.err .stopType) ∧ runCount run h g = 0 := by
  induction h with
  | nil => simp [modelHistory, runCount]
  | cons a r ih =>
    obtain ⟨fresh, yielded, running, frame⟩ := g
    simp only at hr hf hy
    subst hr hf hy
    simp only [modelHistory, runCount, GenObj.send_eq, List.map_cons]
    simpa using ih

/-- both ways of finishing lead to that state: after a `return` and after an exception -/
theorem gen_finish_exhausts (g : GenObj φ) (a : Val) (hr : g.running = false)
    (hfin : ∃ fr, (∃ v, run (if g.fresh then .first else .send a) g.frame = (.ret v, fr)) ∨ (∃ e, run (if g.fresh then .first else .send a) g.frame = (.raise e, fr)))
    (hlive : g.fresh = true ∧ a = .none ∨ g.fresh = false ∧ g.yielded = true) :
    let g' := (g.send run a).2.1
    g'.running = false ∧ g'.fresh = false ∧ g'.yielded = false := by
  obtain ⟨fresh, yielded, running, frame⟩ := g
  simp only at hr
  subst hr
  obtain ⟨fr, hfin⟩ := hfin
  rcases hlive with ⟨h1, h2⟩ | ⟨h1, h2⟩ <;> simp only at h1 h2 <;> subst h1 h2 <;>
    rcases hfin with ⟨v, hv⟩ | ⟨e, he⟩ <;> simp_all [GenObj.send_eq] <;>
    (try (split <;> simp))

/-- the return value is carried by the StopIteration that ends the generator -/
theorem gen_return_value_carried (g : GenObj φ) (a v : Val) (fr : φ) (hr : g.running = false) (hy : g.fresh = false ∧ g.yielded = true)
    (hrun : run (.send a) g.frame = (.ret v, fr)) :
    (g.send run a).1 = .err (if v != .none then .stopExc v else .stopType) ∧ (NextErr.stopValue (if v != .none then .stopExc v else .stopType)) = v := by
  obtain ⟨fresh, yielded, running, frame⟩ := g
  simp only at hr hy hrun
  obtain ⟨h1, h2⟩ := hy
  subst hr h1 h2
  by_cases hv : v = .none <;> simp [GenObj.send_eq, hrun, hv, NextErr.stopValue]

/-- the sent value reaches the frame; a just-started generator refuses a non-None value without running -/
theorem gen_send_fresh_nonNone (g : GenObj φ) (a : Val) (hr : g.running = false) (hf : g.fresh = true) (ha : a ≠ .none) :
    g.send run a = (.err (.other .type), g, false) := by
  obtain ⟨fresh, yielded, running, frame⟩ := g
  simp only at hr hf
  subst hr hf
  simp [GenObj.send_eq, ha]

/-- re-entry: `next`/`send` on a generator that is executing is ValueError and changes nothing -/
theorem gen_running_reentry (g : GenObj φ) (a : Val) (hr : g.running = true) :
    g.send run a = (.err (.other .value), g, false) := by
  simp [GenObj.send_eq, hr]

end

/-! ## throw / close -/

section
variable {φ : Type} (run : Entry → φ → RunOut × φ)

/-- MAIN (round 2): for every frame behaviour and every history of next/send/throw/close, `Generator.Send/Throw/Close`
answer what Python's definition of the generator methods says (`specOps`). -/
theorem gen_ops_invariant (h : List GOp) (g : GenObj φ) (hr : g.running = false) :
    modelOps run h g = specOps run h (!g.fresh) (g.fresh || g.yielded) g.frame := by
  induction h generalizing g with
  | nil => rfl
  | cons o r ih =>
    obtain ⟨fresh, yielded, running, frame⟩ := g
    simp only at hr
    subst hr
    cases o with
    | send a =>
      cases fresh <;> cases yielded <;> by_cases ha : a = .none <;>
        simp [modelOps, specOps, GenObj.send, GenObj.resume, ha, ih, endResp]
      all_goals
        generalize run _ frame = x
        obtain ⟨o, fr⟩ := x
        cases o with
        | yield v => simp [ih]
        | ret v => by_cases hv : v = .none <;> simp [hv, ih]
        | raise e => simp [ih]
    | throw e =>
      cases fresh <;> cases yielded <;>
        simp [modelOps, specOps, GenObj.throw, GenObj.resume, ih, endResp]
      all_goals
        generalize run _ frame = x
        obtain ⟨o, fr⟩ := x
        cases o with
        | yield v => simp [ih]
        | ret v => by_cases hv : v = .none <;> simp [hv, ih]
        | raise e => simp [ih]
    | close =>
      cases fresh <;> cases yielded <;>
        simp [modelOps, specOps, GenObj.close, GenObj.resume, ih, isStop_genExit, isGenExit_genExit]
      all_goals
        generalize run _ frame = x
        obtain ⟨o, fr⟩ := x
        cases o with
        | yield v => simp [ih]
        | ret v => by_cases hv : v = .none <;> simp [hv, ih]
        | raise e => cases he : (e.isStop || e.isGenExit) <;> simp_all

theorem gen_ops_spec (h : List GOp) (fr : φ) : modelOps run h (newGenerator fr) = specOps run h false true fr :=
  gen_ops_invariant run h (newGenerator fr) rfl

/-- `throw(e)` on a suspended generator resumes the frame with `e` raised at the yield (the frame is entered by
`Entry.throw e`, nothing is pushed): it answers what the frame then does – the next yielded value (still suspended),
StopIteration carrying the return value, or the exception that comes out (both: exhausted) -/
theorem gen_throw_spec (g : GenObj φ) (e : NextErr) (hr : g.running = false) (hf : g.fresh = false) (hy : g.yielded = true) :
    let out := run (.throw e) g.frame
    g.throw run e = (endResp out.1, { fresh := false, yielded := (match out.1 with | .yield _ => true | _ => false),
                                       running := false, frame := out.2 }, true) := by
  obtain ⟨fresh, yielded, running, frame⟩ := g
  simp only at hr hf hy
  subst hr hf hy
  simp only [GenObj.throw, GenObj.resume, endResp]
  generalize run _ frame = x
  obtain ⟨o, fr⟩ := x
  cases o with
  | yield v => simp
  | ret v => by_cases hv : v = .none <;> simp [hv]
  | raise e => simp

/-- `throw(e)` on a generator that was never started raises `e` without running anything of the body, and the
generator is exhausted afterwards (lazy: the body never runs) -/
theorem gen_throw_unstarted (fr : φ) (e : NextErr) :
    (newGenerator fr).throw run e = (.err e, { fresh := false, yielded := false, running := false, frame := fr }, false) := by
  simp [GenObj.throw, GenObj.resume, newGenerator]

/-- `throw(e)` on an exhausted generator hands `e` straight back; nothing runs, nothing changes -/
theorem gen_throw_finished (g : GenObj φ) (e : NextErr) (hr : g.running = false) (hf : g.fresh = false) (hy : g.yielded = false) :
    g.throw run e = (.err e, g, false) := by
  obtain ⟨fresh, yielded, running, frame⟩ := g
  simp only at hr hf hy
  subst hr hf hy
  simp [GenObj.throw, GenObj.resume]

/-- `close()` on a suspended generator raises GeneratorExit at the yield; it returns None when the frame then returns or
lets GeneratorExit / a StopIteration out, raises RuntimeError when the frame yields again (the generator stays suspended
there) and propagates every other exception -/
theorem gen_close_spec (g : GenObj φ) (hr : g.running = false) (hf : g.fresh = false) (hy : g.yielded = true) :
    let out := run (.throw (.other .genExit)) g.frame
    (g.close run).1 = (match out.1 with
      | .yield _ => some (.other .runtime)
      | .ret _ => none
      | .raise e => if e.isStop || e.isGenExit then none else some e) ∧
    (g.close run).2.1 = { fresh := false, yielded := (match out.1 with | .yield _ => true | _ => false), running := false, frame := out.2 } := by
  obtain ⟨fresh, yielded, running, frame⟩ := g
  simp only at hr hf hy
  subst hr hf hy
  simp only [GenObj.close, GenObj.resume]
  generalize run _ frame = x
  obtain ⟨o, fr⟩ := x
  cases o with
  | yield v => simp
  | ret v => by_cases hv : v = .none <;> simp [hv]
  | raise e => cases he : (e.isStop || e.isGenExit) <;> simp_all

/-- whenever `close()` returns None the generator is exhausted: by `gen_exhausted_stays` every later next/send is
StopIteration and the frame never runs again (this includes closing a generator that was never started) -/
theorem gen_close_exhausts (g : GenObj φ) (hr : g.running = false) (hc : (g.close run).1 = none) :
    let g' := (g.close run).2.1
    g'.running = false ∧ g'.fresh = false ∧ g'.yielded = false := by
  obtain ⟨fresh, yielded, running, frame⟩ := g
  simp only at hr
  subst hr
  revert hc
  cases fresh <;> cases yielded <;> simp [GenObj.close, GenObj.resume, isStop_genExit, isGenExit_genExit]
  all_goals
    generalize run _ frame = x
    obtain ⟨o, fr⟩ := x
    cases o with
    | yield v => simp
    | ret v => by_cases hv : v = .none <;> simp [hv]
    | raise e => cases he : (e.isStop || e.isGenExit) <;> simp_all

/-- `close()` on an exhausted generator does nothing -/
theorem gen_close_finished (g : GenObj φ) (hr : g.running = false) (hf : g.fresh = false) (hy : g.yielded = false) :
    g.close run = (none, g, false) := by
  obtain ⟨fresh, yielded, running, frame⟩ := g
  simp only at hr hf hy
  subst hr hf hy
  simp [GenObj.close, GenObj.resume, isStop_genExit, isGenExit_genExit]

/-- the frame is only ever touched through `run`: a call that is refused (re-entry, non-None first send), answered by an
exhausted generator, or made on a generator that was never started by throw/close leaves it exactly as it was, and every
other call stores exactly the frame `run` returned – nothing of a suspended frame is lost or altered between two
resumptions (DESIGN: gen_resume_preserves_frame) -/
theorem gen_resume_preserves_frame (g : GenObj φ) (arg : Val) (exc : Option NextErr) :
    let r := g.resume run arg exc
    (r.2.2 = false → r.2.1.frame = g.frame) ∧
    (r.2.2 = true → r.2.1.frame =
      (run (match exc with | some e => .throw e | none => if g.fresh then .first else .send arg) g.frame).2) := by
  obtain ⟨fresh, yielded, running, frame⟩ := g
  cases running <;> cases fresh <;> cases yielded <;> cases exc <;> by_cases ha : arg = .none <;>
    simp [GenObj.resume, ha]
  all_goals
    generalize run _ frame = x
    obtain ⟨o, fr⟩ := x
    cases o with
    | yield v => simp
    | ret v => by_cases hv : v = .none <;> simp [hv]
    | raise e => simp

end

/-! ## the frame: locals, loop position and pending try/finally blocks across a suspension

`Frame.lean` transliterates `vm.RunFrame` for the instruction subset generator bodies compile to, keeping Go's split between
`*py.Frame` (pc, value stack, block stack, locals, saved handled exception: survives a suspension) and the `Vm` value that is
re-created at every entry.  `Body.lean` gives the same bodies their reference meaning as a coroutine (`coRun`). -/

/-- LOOP POSITION AND LOCALS, for a family: for EVERY `n` and EVERY history of next / send / throw / close, the compiled body
`for i0 in range(n): x = yield 7; LG.append(x)` run on the transliterated `RunFrame` (the range iterator lives on the frame's
value stack, the loop block on its block stack) through `Generator.Send/Throw/Close` answers exactly what Python's definition
of the generator methods (`specOps`) says over the reference coroutine of that body. -/
theorem frame_loop_yield_spec (n : Nat) (ops : List FOp) :
    modelOps (frameRun (compileBody (.loop n (.yld 7))) 10000) (ops.map FOp.toG) (newGenerator frameInit) =
      specOps coRun (ops.map FOp.toG) false true (coInit (.loop n (.yld 7))) := by
  rw [← drive_modelOps, (loop_yield_family n ops).1, drive_modelOps]
  exact gen_ops_spec coRun _ _

/-- … and the log (every sent value, in order) is the same at the end of every history -/
theorem frame_loop_yield_log (n : Nat) (ops : List FOp) :
    (drive (frameRun (compileBody (.loop n (.yld 7))) 10000) ops (newGenerator frameInit)).2.frame.log =
      (drive coRun ops (newGenerator (coInit (.loop n (.yld 7))))).2.frame.log := (loop_yield_family n ops).2

/-- concretely: next() followed by the sends `vs` against `range(len(vs))` is answered by 7, `len(vs)` times, then
StopIteration, and the log is exactly the sent values in order -/
theorem frame_loop_yield_direct (vs : List Val) :
    (drive (frameRun (compileBody (.loop vs.length (.yld 7))) 10000) (.next :: vs.map .send) (newGenerator frameInit)).1 =
      List.replicate vs.length (.resp (.item (.int 7))) ++ [.resp (.err .stopType)] ∧
    (drive (frameRun (compileBody (.loop vs.length (.yld 7))) 10000) (.next :: vs.map .send) (newGenerator frameInit)).2.frame.log = vs :=
  loop_yield_direct vs

/-- PENDING try/finally: for `try: x = yield 1; LG.append(x) finally: LG.append(9)` the suspended frame holds the
SETUP_FINALLY block, and BOTH ways of resuming – every sent value, every thrown exception – run the finally clause -/
theorem frame_finally_pending :
    frameRun (compileBody finBody) 10000 .first frameInit = (.yield (.int 1), finSusp) ∧
    finSusp.blocks = [⟨.finally, 10, 0⟩] ∧
    (∀ v : Val, frameRun (compileBody finBody) 10000 (.send v) finSusp =
      (.ret .none, { pc := 17, stack := [], blocks := [], locals := [(0, .v v)], exc := {}, log := [v, .int 9] })) ∧
    (∀ e : NextErr, frameRun (compileBody finBody) 10000 (.throw e) finSusp =
      (.raise e, { pc := 15, stack := [], blocks := [], locals := [], exc := {}, log := [.int 9] })) :=
  finally_pending_preserved

/-- THE HANDLED EXCEPTION: a generator suspended inside `except LookupError:` (entered by a KeyError) keeps the
EXCEPT_HANDLER block, the saved previous exception state on its value stack and the exception being handled in `frame.Exc`
(fix e63d853); every sent value finishes the handler (POP_EXCEPT restores "no exception"), every thrown exception unwinds it -/
theorem frame_handler_exc :
    frameRun (compileBody hdlBody) 10000 .first frameInit = (.yield (.int 1), hdlSusp) ∧
    (∀ v : Val, frameRun (compileBody hdlBody) 10000 (.send v) hdlSusp =
      (.ret .none, { pc := 24, stack := [], blocks := [], locals := [(0, .v v)], exc := {}, log := [v] })) ∧
    (∀ e : NextErr, frameRun (compileBody hdlBody) 10000 (.throw e) hdlSusp =
      (.raise e, { pc := 14, stack := [], blocks := [], locals := [], exc := {}, log := [] })) :=
  handler_exc_preserved

/-- lazy: the first entry runs exactly up to the first yield (for every continuation `rest` of the body) -/
theorem frame_first_lazy (j k : Nat) (rest : S) (fuel : Nat) :
    frameRun (compileBody (.seq (.log j) (.seq (.yld k) rest))) (fuel + 7) .first frameInit =
      (.yield (.int k), { pc := 6, stack := [], blocks := [], locals := [], exc := {}, log := [.int j] }) :=
  frameRun_first_lazy j k rest fuel

/-! ## yield from -/

/-- `yield from` is transparent: a generator `r = yield from x; return r` driven by `next` passes through exactly
the items of `x`, propagates its exception, and ends with a StopIteration carrying the value that ended `x`. -/
theorem yield_from_transparent {next : σ → Resp × σ} {s : σ} {sc : Script} (h : Runs next s sc) (fuel : Nat)
    (hf : sc.length < fuel) (fresh : Bool) (acc : List Val) :
    yieldFromCollect next fuel { fresh := fresh, yielded := !fresh, running := false, frame := .inl s } acc =
      match endOf sc with
      | .raise e => .err (.exc e)
      | .stop v => .yf (acc ++ itemsOf sc) v := by
  have hk : Generated.k_vm_eval_do_YIELD_FROM_0 = .isException := rfl
  induction h generalizing fuel fresh acc with
  | nil hn hs hv =>
    cases fuel with
    | zero => simp at hf
    | succ n =>
      cases fresh <;>
        simp [yieldFromCollect, genNext, GenObj.next, GenObj.send_eq, delegRun, yieldFromStep, hk, hn, classify_stop hs, hv,
          endOf, itemsOf]
  | item hn _ ih =>
    cases fuel with
    | zero => simp at hf
    | succ n =>
      simp only [List.length_cons, Nat.add_lt_add_iff_right] at hf
      have := ih n hf false
      cases fresh <;>
        simp_all [yieldFromCollect, genNext, GenObj.next, GenObj.send_eq, delegRun, yieldFromStep, endOf, itemsOf]
  | stop hst hn hs hv =>
    rename_i st r v
    cases fuel with
    | zero => simp at hf
    | succ n =>
      obtain ⟨h1, h2⟩ := stop_items hst r
      by_cases hvn : v = .none <;> cases fresh <;>
        simp [yieldFromCollect, genNext, GenObj.next, GenObj.send_eq, delegRun, yieldFromStep, hk, hn, classify_stop hs, hv, hvn, h1, h2]
  | raise hn =>
    cases fuel with
    | zero => simp at hf
    | succ n =>
      cases fresh <;>
        simp [yieldFromCollect, genNext, GenObj.next, GenObj.send_eq, delegRun, yieldFromStep, hk, hn, classify_other,
          endOf, NextErr.isStop, toPy_other]

theorem faithful_yieldFrom {next : σ → Resp × σ} {s : σ} {sc : Script} (h : Runs next s sc) (fuel : Nat) (hf : sc.length < fuel) :
    yieldFromCollect next fuel (newGenerator (.inl s)) [] = specYieldFrom sc := by
  have := yield_from_transparent h fuel hf true []
  simp only [newGenerator, specYieldFrom]
  rw [show (!true) = false from rfl] at this
  rw [this]
  cases endOf sc <;> simp

/-! ## non-vacuity -/


/-! ## Part 3 (round 3): the return value of a generator is carried unchanged

`Ret.lean` opens the abstraction `NextErr.stopExc v` of Part 2: Python values are a universe with tuples, lists, dicts,
exception instances / classes and generator objects, Go errors are `*Type` / `*Exception{Base, Args}` / `ExceptionInfo`,
and the constructor each site of `py/generator.go` uses is read from the regenerated table `Generated.excSites`. -/

section ReturnValue
open Ret

/-- The construction sites of exception values in py/generator.go, in the generator instructions of vm/eval.go and in the
py/exception.go helpers they call, with the constructor each uses (regenerated from the Go source on every run):
`resume` makes the StopIteration of a returning generator with `exceptionNew(StopIteration, Tuple{res})` (site 3) and the bare
class for None (sites 2, 4); `Throw` hands an instance on (1, 2), takes a tuple as the args (3), a single value as 1-tuple (4),
None as no args (5); `Close` throws `GeneratorExit()`; `stopIterationValue` reads `args[0]` and is what `do_YIELD_FROM` and
`throwYieldFrom` call.  A site that starts to route through another constructor (or a new / removed site) breaks this theorem. -/
theorem exc_sites_pinned :
    Generated.excSites.map (fun s => (s.func, s.ord, s.ctor)) = [
      ("stopIterationValue", 0, .readArg0), ("do_YIELD_FROM", 0, .readValue), ("Vm.throwYieldFrom", 0, .readValue),
      ("do_END_FINALLY", 0, .newf), ("Vm.raise", 0, .newf), ("Vm.raise", 1, .newf), ("Vm.raise", 2, .makeExc), ("Vm.raise", 3, .makeExc),
      ("exceptionNew", 0, .literal), ("ExceptionNew", 0, .newArgs), ("ExceptionNewf", 0, .literal),
      ("MakeException", 0, .newNil), ("MakeException", 1, .newf), ("MakeException", 2, .newTuple1), ("MakeException", 3, .newTuple1),
      ("MakeException", 4, .newTuple1), ("Exception.M__getattr__", 0, .readArg0),
      ("Generator.resume", 0, .newf), ("Generator.resume", 1, .newf), ("Generator.resume", 2, .bareType),
      ("Generator.resume", 3, .newTuple1), ("Generator.resume", 4, .bareType),
      ("Generator.Throw", 0, .newf), ("Generator.Throw", 1, .passExc), ("Generator.Throw", 2, .passExc), ("Generator.Throw", 3, .newArgs),
      ("Generator.Throw", 4, .newTuple1), ("Generator.Throw", 5, .newNil), ("Generator.Throw", 6, .newf),
      ("Generator.Close", 0, .newNil), ("Generator.Close", 1, .newf)] := by decide

/-- the shape of the arguments at the two sites that decide how a value is carried and read back:
the return value is wrapped in a 1-tuple literal, and the reader takes `args[0]`; `exceptionNew` stores its second argument as `Args` -/
theorem exc_sites_shapes :
    (Generated.excSites.filter (fun s => (s.func == "Generator.resume" && s.ord == 3) || s.func == "stopIterationValue" || s.func == "exceptionNew")).map (·.form)
      = ["return args[0]", "Exception{ Base: metatype, Args: args.Copy(), Dict: make(StringDict), }", "exceptionNew(StopIteration, Tuple{res})"] := by decide

/-- MAIN (goal 1): for EVERY value `v` (None, scalars, tuples of any shape, lists, dicts, exception instances – StopIteration
instances included –, classes, generator objects) and EVERY depth `n` of nested `r = yield from …; return r` delegation, the value
the delegating generator receives for the `yield from` expression is `v` itself (same object: `PV` equality includes identity). -/
theorem return_value_roundtrip (n : Nat) (v : PV) : delivered n v = .ok (specValue v) := by
  simp [delivered, chainErr_eq, yieldFromFinish_resumeFinish, specValue]

/-- what a caller of `next()`/`send()` catches when the generator (through any depth of delegation) returns `v` is a StopIteration
INSTANCE whose `args` are CPython 3.4's (`gen_send_ex`: `()` for None, `(v,)` otherwise – a tuple or an exception instance is not
unpacked or re-used) and whose `.value` is `v` -/
theorem stopiteration_args_spec (n : Nat) (v : PV) :
    caughtArgs (chainErr n v) = some (specArgs v) ∧ caughtValue (chainErr n v) = some (specValue v) := by
  rw [chainErr_eq]
  simp only [caughtArgs, caughtValue, caught_resumeFinish, Option.map]
  by_cases h : v = .none
  · subst h; exact ⟨rfl, rfl⟩
  · refine ⟨rfl, ?_⟩
    have hs : Cls.stopIteration.isSub .stopIteration = true := by decide
    simp [excGetattr, specArgs, h, specValue, PVs.head?, hs]

/-- a bare `return` / falling off the end (`res` is None, or Go nil) gives the class itself: no instance, no args -/
theorem return_none_is_bare_class : resumeFinish (some .none) = .typ .stopIteration ∧ resumeFinish none = .typ .stopIteration :=
  ⟨resumeFinish_none, resumeFinish_nil⟩

/-- `next(g, default)` gives the default when the generator returns, whatever it returns -/
theorem next_default_on_return (n : Nat) (v d : PV) : nextDefault (chainErr n v) d = .ok d := by
  simp [nextDefault, chainErr_eq, isStop_resumeFinish]

/-- the abstract generator object of Part 2 (`GenObj.resume`, `.ret v` branch: `stopExc v` / `stopType`) is this model seen through
the embedding `Val ↪ PV`, and `NextErr.stopValue` is `stopIterationValue` -/
theorem resume_finish_refines (v : Val) :
    absErr v (resumeFinish (some (ofVal v))) = some (if v != .none then .stopExc v else .stopType) ∧
    stopIterationValue (resumeFinish (some (ofVal v))) = ofVal (NextErr.stopValue (if v != .none then .stopExc v else .stopType)) := by
  refine ⟨?_, ?_⟩
  · cases v with
    | none => simp [ofVal, resumeFinish_none, absErr]
    | int i => rw [resumeFinish_some_ne _ (by simp [ofVal])]; simp [absErr, exceptionNew]
    | str s => rw [resumeFinish_some_ne _ (by simp [ofVal])]; simp [absErr, exceptionNew]
    | pair a b => rw [resumeFinish_some_ne _ (by simp [ofVal])]; simp [absErr, exceptionNew]
  · rw [stopValue_resumeFinish]
    cases v <;> simp [NextErr.stopValue]

/-- WHY the constructor matters (non-vacuity of `exc_sites_pinned`): were the return value given to `exceptionNew` as the argument
TUPLE (what throw() does with a tuple value), `return (3, 2)` would deliver 3, `return ()` None; were an exception instance re-used
as the raised exception, `return StopIteration(5)` would deliver 5 -/
theorem return_value_ctor_matters_witness :
    stopIterationValue (buildExc .newArgs .stopIteration (.tuple (.cons (.int 3) (.cons (.int 2) .nil)))) = .int 3 ∧
    stopIterationValue (buildExc .newArgs .stopIteration (.tuple .nil)) = .none ∧
    stopIterationValue (buildExc .passExc .stopIteration (.exc 1 .stopIteration (.cons (.int 5) .nil))) = .int 5 := by decide

/-- goal 2: the (type, value) parsing of `generator.throw` is Python's normalisation (gen_throw + PyErr_NormalizeException) for
EVERY pair of objects: an instance is raised itself and refuses a separate value; for a class, a value that is an instance of a subclass
is raised as it is (identity kept), None gives `type()`, a tuple `type(*value)`, anything else – an exception instance of an unrelated
class included – `type(value)`; any other first argument is a TypeError.  Excluded: the third argument (traceback) – gpython ignores
it, CPython rejects a non-traceback with TypeError (recorded, not a C05 claim). -/
theorem throw_normalise_spec (typ val : PV) : throwBuild typ val = specThrow typ val := by
  cases typ <;> try rfl
  case exc id c a =>
    by_cases h : val = .none
    · subst h; simp [throwBuild, specThrow, ctor_throw_inst, buildExc, GoErr.asThrow]
    · have hb : (val != PV.none) = true := by simpa using h
      cases val <;> simp_all [throwBuild, specThrow]
  case cls t =>
    cases val with
    | exc id c a =>
      by_cases hs : c.isSub t = true <;>
        simp [throwBuild, specThrow, ctor_throw_single, ctor_throw_val_inst, buildExc, GoErr.asThrow, exceptionNew, hs]
    | _ => simp [throwBuild, specThrow, ctor_throw_none, ctor_throw_tuple, ctor_throw_single, buildExc, GoErr.asThrow, exceptionNew]

example : delivered 3 (.tuple (.cons (.int 3) (.cons (.int 2) .nil))) = .ok (.tuple (.cons (.int 3) (.cons (.int 2) .nil))) := return_value_roundtrip 3 _
example : caughtArgs (chainErr 2 (.exc 1 .stopIteration (.cons (.int 5) .nil))) = some (.cons (.exc 1 .stopIteration (.cons (.int 5) .nil)) .nil) := by decide
example : throwBuild (.cls .lookupError) (.exc 7 .keyError .nil) = .raiseIn ⟨7, .keyError, .nil⟩ := by decide
example : throwBuild (.cls .keyError) (.exc 7 .valueError .nil) = .raiseIn ⟨0, .keyError, .cons (.exc 7 .valueError .nil) .nil⟩ := by decide

end ReturnValue

/-- `Runs` is inhabited at a non-trivial point and the fuel hypothesis is satisfiable -/
example : Runs userNext [.item (.int 1), .stopInstance, .item (.int 2)] [.item (.int 1), .stopInstance, .item (.int 2)] := user_runs _
example : sequenceList userNext 4 [.item (.int 1), .stopInstance, .item (.int 2)] = .list [.int 1] := by decide
example : sequenceList (genNext scriptRun) 4 (newGenerator [.item (.int 1), .raise .key]) = .err (.exc .key) := by decide
example : unpackIterable userNext 1 none 5 [.item (.int 1), .raise .key] = .err (.exc .key) := by decide

end GPy.C05
