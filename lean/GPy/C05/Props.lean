/-
C05 property theorems.

Part 1 (iteration ends only on StopIteration).  `Runs next s sc` says that the Go iterator object
`(next, s)` realises the script `sc` (items, then a StopIteration in ANY of its Go representations –
the `*Type` value, an ExceptionInfo for the class or an instance, an `*Exception` carrying a value –
or another exception).  `faithful_*`: every consumer loop of the anchored Go code, with the error test
its call site really has (read from the regenerated `Generated.lean`), computes exactly what Python
defines, for ALL scripts, all iterator objects realising them, all behaviours of the per-item
operations, and every sufficient fuel.  `*_runs`: the producers (user class, generator object, builtin
list iterator) realise their scripts and the adapters enumerate/map/zip preserve realisation.

Part 2 (generator object).  For ALL frame behaviours `run` and ALL histories of next/send the
`Generator.Send` state machine agrees with the coroutine reference semantics (`gen_history_spec`);
corollaries: lazy start, exhausted stays exhausted (after return AND after an exception), the return
value is carried by StopIteration, re-entry is ValueError.
-/
import GPy.C05.Proofs
namespace GPy.C05

variable {σ : Type}

/-! ## the site table -/

/-- every row of the regenerated site table is of a faithful kind: a consumer tests
`py.IsException(py.StopIteration, err)`, an adapter forwards the error unchanged -/
theorem site_table_faithful :
    Generated.sites.all (fun s => s.kind == .isException || s.kind == .forward) = true := by decide

/-- the table has a row for each `py.Next` call the model transliterates (16 on the verified tree) -/
theorem site_table_complete : Generated.sites.length = 16 := by decide

/-- `kind = isException → faithful` for the generic loop of `py.Iterate` (the lemma of DESIGN §7/C05) -/
theorem isException_faithful {next : σ → Resp × σ} {s : σ} {sc : Script} (h : Runs next s sc)
    (k : TestKind) (hk : k = .isException) (fuel : Nat) (hf : sc.length < fuel) :
    iterateK k next (fun (l : List Val) v => (l ++ [v], false)) fuel s [] =
      match endOf sc with
      | .raise e => .err (.other e)
      | .stop _ => .done (itemsOf sc) := by
  subst hk
  rw [iterateK_collect h (fun l v => l ++ [v]) fuel hf []]
  simp only [foldl_snoc, List.nil_append]
  cases endOf sc <;> simp

/-- the test by identity (the code before the fix) is NOT faithful: a user `__next__` raising
StopIteration is propagated as an error -/
theorem identity_not_faithful_witness :
    iterateK .identity userNext (fun (l : List Val) v => (l ++ [v], false)) 5 [.item (.int 1), .stopClass] []
      = .err .stopInfoClass ∧ specList [.item (.int 1), .stopClass] = .list [.int 1] := by decide

/-- "any error means exhausted" (FOR_ITER / unpack_iterable before the fix) swallows a real exception -/
theorem anyError_not_faithful_witness :
    (match doForIterK .anyError userNext [.raise .key] with | .jump => true | _ => false) = true
      ∧ specList [.raise .key] = .err (.exc .key) := by decide

/-! ## consumers: faithful for all scripts -/

section
variable {next : σ → Resp × σ} {s : σ} {sc : Script}

theorem faithful_list (h : Runs next s sc) (fuel : Nat) (hf : sc.length < fuel) :
    sequenceList next fuel s = specList sc := by
  simp only [sequenceList, sequenceListRaw, iterate_eq, specList, specAll]
  rw [iterateK_collect h (fun l v => l ++ [v]) fuel hf []]
  simp only [foldl_snoc, List.nil_append]
  cases endOf sc <;> simp [toPy_other]

theorem faithful_tuple (h : Runs next s sc) (fuel : Nat) (hf : sc.length < fuel) :
    sequenceTuple next fuel s = specTuple sc := by
  simp only [sequenceTuple, iterate_eq, specTuple, specAll]
  rw [iterateK_collect h (fun l v => l ++ [v]) fuel hf []]
  simp only [foldl_snoc, List.nil_append]
  cases endOf sc <;> simp [toPy_other]

theorem faithful_starArgs (h : Runs next s sc) (fuel : Nat) (hf : sc.length < fuel) :
    starArgs next fuel s = specTuple sc := by
  simp only [starArgs, iterate_eq, specTuple, specAll]
  rw [iterateK_collect h (fun l v => l ++ [v]) fuel hf []]
  simp only [foldl_snoc, List.nil_append]
  cases endOf sc <;> simp [toPy_other]

theorem faithful_set (h : Runs next s sc) (fuel : Nat) (hf : sc.length < fuel) :
    sequenceSet next fuel s = specSet sc := by
  simp only [sequenceSet, iterate_eq, specSet, specAll]
  rw [iterateK_collect h setAdd fuel hf []]
  cases endOf sc <;> simp [foldl_setAdd, toPy_other]

theorem faithful_sorted (sort : List Val → Except Exc (List Val)) (h : Runs next s sc) (fuel : Nat) (hf : sc.length < fuel) :
    builtinSorted sort next fuel s = specSorted sort sc := by
  simp only [builtinSorted, sequenceListRaw, iterate_eq, specSorted, specAll]
  rw [iterateK_collect h (fun l v => l ++ [v]) fuel hf []]
  simp only [foldl_snoc, List.nil_append]
  cases endOf sc <;> simp [toPy_other]
  cases sort (itemsOf sc) <;> rfl

theorem faithful_contains (eq : Val → Val → Except Exc Bool) (obj : Val) (h : Runs next s sc) (fuel : Nat) (hf : sc.length < fuel) :
    sequenceContains eq obj next fuel s = specContains eq obj sc :=
  contains_faithful eq obj h fuel hf

theorem faithful_join (sep : String) (h : Runs next s sc) (fuel : Nat) (hf : sc.length < fuel) :
    join sep next fuel s = specJoin sep sc := by
  simp only [join, specJoin]
  exact joinK_faithful sep h fuel hf true []

/-- the `for` statement / a comprehension, for EVERY loop body (folding a state, may break, may raise) -/
theorem faithful_for {α : Type} (body : α → Val → Except Exc (α × Bool)) (h : Runs next s sc) (fuel : Nat)
    (hf : sc.length < fuel) (a : α) : forLoop next body fuel s a = specFor body sc a :=
  forLoop_faithful h body fuel hf a

theorem faithful_forCollect (h : Runs next s sc) (fuel : Nat) (hf : sc.length < fuel) :
    forCollect next fuel s = specList sc := by
  simp only [forCollect, specList, specAll]
  rw [forLoop_collect h (fun l v => l ++ [v]) fuel hf [] rfl]
  simp only [foldl_snoc, List.nil_append]
  cases endOf sc <;> simp

theorem faithful_unpack (n : Nat) (h : Runs next s sc) (fuel : Nat) :
    unpackIterable next n none fuel s = specUnpack n sc [] := by
  have hk0 : Generated.k_vm_eval_unpack_iterable_0 = .isException := rfl
  have hk1 : Generated.k_vm_eval_unpack_iterable_1 = .isException := rfl
  have := unpack_simple n h []
  simp only [unpackIterable, hk0, hk1]
  exact this

theorem faithful_unpackEx (n m : Nat) (h : Runs next s sc) (fuel : Nat) (hf : sc.length < fuel) :
    unpackIterable next n (some m) fuel s = specUnpackEx n m sc [] := by
  have hk0 : Generated.k_vm_eval_unpack_iterable_0 = .isException := rfl
  have := unpack_ex n m h [] fuel hf
  simp only [unpackIterable, sequenceListRaw, iterate_eq, hk0]
  exact this

theorem faithful_all (truth : Val → Except Exc Bool) (h : Runs next s sc) (fuel : Nat) (hf : sc.length < fuel) :
    builtinAll truth next fuel s = specAllTrue truth sc := allK_faithful truth h fuel hf

theorem faithful_any (truth : Val → Except Exc Bool) (h : Runs next s sc) (fuel : Nat) (hf : sc.length < fuel) :
    builtinAny truth next fuel s = specAny truth sc := anyK_faithful truth h fuel hf

theorem faithful_sum (add : Val → Val → Except Exc Val) (h : Runs next s sc) (fuel : Nat) (hf : sc.length < fuel) (start : Val) :
    builtinSum add next fuel s start = specSum add sc start := sumK_faithful add h fuel hf start

theorem faithful_minMax (cmp : Val → Val → Except Exc Bool) (h : Runs next s sc) (fuel : Nat) (hf : sc.length < fuel)
    (dflt : Option Val) : minMax cmp next fuel s dflt = specMinMax cmp sc dflt := minMaxK_faithful cmp h fuel hf dflt

theorem faithful_next (h : Runs next s sc) (dflt : Option Val) : builtinNext next s dflt = specNext dflt sc := by
  have hk : Generated.k_stdlib_builtin_builtin_builtin_next_0 = .isException := rfl
  cases h with
  | nil hn hs hv => cases dflt <;> simp [builtinNext, builtinNextK, hk, hn, classify_stop hs, specNext, endOf, toPy_stop hs, hv]
  | item hn _ => simp [builtinNext, builtinNextK, hn, specNext]
  | stop hst hn hs hv =>
    rename_i st r v
    cases st <;> cases dflt <;>
      simp_all [Step.stopValue?, builtinNext, builtinNextK, classify_stop hs, specNext, endOf, toPy_stop hs]
  | raise hn => cases dflt <;> simp [builtinNext, builtinNextK, hk, hn, classify_other, specNext, toPy_other]

end

/-! ## producers and adapters -/

/-- a user-defined iterator class realises its script (every error is an ExceptionInfo: identity tests fail on it) -/
theorem user_realises (sc : Script) : Runs userNext sc sc := user_runs sc

/-- a generator object (through `Generator.Send`) whose body performs the script realises it -/
theorem generator_realises (sc : Script) : Runs (genNext scriptRun) (newGenerator sc) sc := gen_runs_aux sc true

/-- a builtin list iterator realises its items -/
theorem listIter_realises (vs : List Val) : Runs listIterNext vs (vs.map .item) := listIter_runs vs

/-- `enumerate` is transparent: it realises the enumerated script whenever its source realises a script -/
theorem enumerate_transparent {next : σ → Resp × σ} {s : σ} {sc : Script} (h : Runs next s sc) (i : Int) :
    Runs (enumNext next) (i, s) (enumScript i sc) := enum_runs h i

/-- `map(f, it)` is transparent, for every `f` (which may itself raise, StopIteration included) -/
theorem map_transparent (f : Val → Except NextErr Val) {next : σ → Resp × σ} {s : σ} {sc : Script} (h : Runs next s sc) :
    Runs (mapNext f next) s (mapScript f sc) := map_runs f h

/-- `zip(a, b)` is transparent: it stops with the first of its sources that stops (left one asked first)
and propagates the first exception -/
theorem zip_transparent {τ : Type} {n1 : σ → Resp × σ} {n2 : τ → Resp × τ} {s1 : σ} {s2 : τ} {a b : Script}
    (h1 : Runs n1 s1 a) (h2 : Runs n2 s2 b) : Runs (zipNext n1 n2) (s1, s2) (zipScript a b) := zip_runs h1 h2

/-- end-to-end instance: `list(enumerate(G(script)))` for every script -/
theorem list_enumerate_generator (sc : Script) (fuel : Nat) (hf : (enumScript 0 sc).length < fuel) :
    sequenceList (enumNext (genNext scriptRun)) fuel (0, newGenerator sc) = specList (enumScript 0 sc) :=
  faithful_list (enumerate_transparent (generator_realises sc) 0) fuel hf

/-! ## the generator object -/

section
variable {φ : Type} (run : Option Val → φ → RunOut × φ)

/-- MAIN: for every frame behaviour and every history of next/send, `Generator.Send` returns what the
coroutine reference semantics says (`started`/`live` are the abstraction of `Lasti ≠ 0` / `Lasti = 0 ∨ Yielded`). -/
theorem gen_history_invariant (h : List Val) (g : GenObj φ) (hr : g.running = false) :
    modelHistory run h g = specHistory run h (!g.fresh) (g.fresh || g.yielded) g.frame := by
  induction h generalizing g with
  | nil => rfl
  | cons a r ih =>
    obtain ⟨h1, h2⟩ := send_spec run g hr a r
    rw [h1]
    simp only [modelHistory]
    rw [ih _ h2]

theorem gen_history_spec (h : List Val) (fr : φ) :
    modelHistory run h (newGenerator fr) = specHistory run h false true fr :=
  gen_history_invariant run h (newGenerator fr) rfl

/-- lazy: creating the generator runs nothing, and a history of n calls runs the frame at most n times -/
theorem gen_lazy (h : List Val) (g : GenObj φ) : (newGenerator (φ := φ) g.frame).frame = g.frame ∧ runCount run h g ≤ h.length := by
  refine ⟨rfl, ?_⟩
  induction h generalizing g with
  | nil => simp [runCount]
  | cons a r ih =>
    simp only [runCount, List.length_cons]
    have := ih (g.send run a).2.1
    split <;> omega

/-- a generator that is not live (it returned or raised) never runs its frame again and answers
StopIteration to every later next/send: exhausted stays exhausted, for all histories -/
theorem gen_exhausted_stays (h : List Val) (g : GenObj φ) (hr : g.running = false) (hf : g.fresh = false) (hy : g.yielded = false) :
    modelHistory run h g = h.map (fun _ => Resp.err .stopType) ∧ runCount run h g = 0 := by
  induction h with
  | nil => simp [modelHistory, runCount]
  | cons a r ih =>
    obtain ⟨fresh, yielded, running, frame⟩ := g
    simp only at hr hf hy
    subst hr hf hy
    simp only [modelHistory, runCount, GenObj.send, List.map_cons]
    simpa using ih

/-- both ways of finishing lead to that state: after a `return` and after an exception -/
theorem gen_finish_exhausts (g : GenObj φ) (a : Val) (hr : g.running = false)
    (hfin : ∃ fr, (∃ v, run (if g.fresh then none else some a) g.frame = (.ret v, fr)) ∨ (∃ e, run (if g.fresh then none else some a) g.frame = (.raise e, fr)))
    (hlive : g.fresh = true ∧ a = .none ∨ g.fresh = false ∧ g.yielded = true) :
    let g' := (g.send run a).2.1
    g'.running = false ∧ g'.fresh = false ∧ g'.yielded = false := by
  obtain ⟨fresh, yielded, running, frame⟩ := g
  simp only at hr
  subst hr
  obtain ⟨fr, hfin⟩ := hfin
  rcases hlive with ⟨h1, h2⟩ | ⟨h1, h2⟩ <;> simp only at h1 h2 <;> subst h1 h2 <;>
    rcases hfin with ⟨v, hv⟩ | ⟨e, he⟩ <;> simp_all [GenObj.send] <;>
    (try (split <;> simp))

/-- the return value is carried by the StopIteration that ends the generator -/
theorem gen_return_value_carried (g : GenObj φ) (a v : Val) (fr : φ) (hr : g.running = false) (hy : g.fresh = false ∧ g.yielded = true)
    (hrun : run (some a) g.frame = (.ret v, fr)) :
    (g.send run a).1 = .err (if v != .none then .stopExc v else .stopType) ∧ (NextErr.stopValue (if v != .none then .stopExc v else .stopType)) = v := by
  obtain ⟨fresh, yielded, running, frame⟩ := g
  simp only at hr hy hrun
  obtain ⟨h1, h2⟩ := hy
  subst hr h1 h2
  by_cases hv : v = .none <;> simp [GenObj.send, hrun, hv, NextErr.stopValue]

/-- the sent value reaches the frame; a just-started generator refuses a non-None value without running -/
theorem gen_send_fresh_nonNone (g : GenObj φ) (a : Val) (hr : g.running = false) (hf : g.fresh = true) (ha : a ≠ .none) :
    g.send run a = (.err (.other .type), g, false) := by
  obtain ⟨fresh, yielded, running, frame⟩ := g
  simp only at hr hf
  subst hr hf
  simp [GenObj.send, ha]

/-- re-entry: `next`/`send` on a generator that is executing is ValueError and changes nothing -/
theorem gen_running_reentry (g : GenObj φ) (a : Val) (hr : g.running = true) :
    g.send run a = (.err (.other .value), g, false) := by
  simp [GenObj.send, hr]

end

/-! ## yield from -/

/-- `yield from` is transparent: a generator `r = yield from x; return r` driven by `next` passes through exactly
the items of `x`, propagates its exception, and ends with a StopIteration carrying the value that ended `x`. -/
theorem yield_from_transparent {next : σ → Resp × σ} {s : σ} {sc : Script} (h : Runs next s sc) (fuel : Nat)
    (hf : sc.length < fuel) (fresh : Bool) (acc : List Val) :
    yieldFromCollect next fuel { fresh := fresh, yielded := !fresh, running := false, frame := .inl s } acc =
      match endOf sc with
      | .raise e => .err (.exc e)
      | .stop v => .yf (acc ++ itemsOf sc) v := by
  have hk : Generated.k_vm_eval_do_YIELD_FROM_0 = .isException := rfl
  induction h generalizing fuel fresh acc with
  | nil hn hs hv =>
    cases fuel with
    | zero => simp at hf
    | succ n =>
      cases fresh <;>
        simp [yieldFromCollect, genNext, GenObj.next, GenObj.send, delegRun, yieldFromStep, hk, hn, classify_stop hs, hv,
          endOf, itemsOf]
  | item hn _ ih =>
    cases fuel with
    | zero => simp at hf
    | succ n =>
      simp only [List.length_cons, Nat.add_lt_add_iff_right] at hf
      have := ih n hf false
      cases fresh <;>
        simp_all [yieldFromCollect, genNext, GenObj.next, GenObj.send, delegRun, yieldFromStep, endOf, itemsOf]
  | stop hst hn hs hv =>
    rename_i st r v
    cases fuel with
    | zero => simp at hf
    | succ n =>
      obtain ⟨h1, h2⟩ := stop_items hst r
      by_cases hvn : v = .none <;> cases fresh <;>
        simp [yieldFromCollect, genNext, GenObj.next, GenObj.send, delegRun, yieldFromStep, hk, hn, classify_stop hs, hv, hvn, h1, h2]
  | raise hn =>
    cases fuel with
    | zero => simp at hf
    | succ n =>
      cases fresh <;>
        simp [yieldFromCollect, genNext, GenObj.next, GenObj.send, delegRun, yieldFromStep, hk, hn, classify_other,
          endOf, NextErr.isStop, toPy_other]

theorem faithful_yieldFrom {next : σ → Resp × σ} {s : σ} {sc : Script} (h : Runs next s sc) (fuel : Nat) (hf : sc.length < fuel) :
    yieldFromCollect next fuel (newGenerator (.inl s)) [] = specYieldFrom sc := by
  have := yield_from_transparent h fuel hf true []
  simp only [newGenerator, specYieldFrom]
  rw [show (!true) = false from rfl] at this
  rw [this]
  cases endOf sc <;> simp

/-! ## non-vacuity -/

/-- `Runs` is inhabited at a non-trivial point and the fuel hypothesis is satisfiable -/
example : Runs userNext [.item (.int 1), .stopInstance, .item (.int 2)] [.item (.int 1), .stopInstance, .item (.int 2)] := user_runs _
example : sequenceList userNext 4 [.item (.int 1), .stopInstance, .item (.int 2)] = .list [.int 1] := by decide
example : sequenceList (genNext scriptRun) 4 (newGenerator [.item (.int 1), .raise .key]) = .err (.exc .key) := by decide
example : unpackIterable userNext 1 none 5 [.item (.int 1), .raise .key] = .err (.exc .key) := by decide

end GPy.C05
