/-
C05 round 3 (core Lean only): HOW THE RETURN VALUE OF A GENERATOR IS CARRIED.

`Model.lean` abstracts the StopIteration a finishing generator raises to `NextErr.stopExc v`
("an exception whose args are (v,)").  This file opens that box: Python values are a universe
with tuples, lists, dicts, exception instances / classes and generator objects (`PV`), Go error
values are what they are in the code (`*py.Type`, `*py.Exception{Base, Args}`, `py.ExceptionInfo`),
and the following Go code is transliterated over them:

* py/exception.go  `exceptionNew`, `IsException`, `MakeException`, `Exception.M__getattr__`
* py/generator.go  the tail of `Generator.resume` (what is built from `res` after RETURN_VALUE),
                   the (type, value) normalisation of `Generator.Throw`
* vm/eval.go       `stopIterationValue`, the StopIteration branches of `do_YIELD_FROM` / `throwYieldFrom`,
                   how RunFrame turns the error of an instruction into `vm.curexc` (`SetException(MakeException(err))`)
* stdlib/builtin   `builtin_next` with a default

WHICH constructor each site uses is not hand-written: it is read from the regenerated table
`Generated.excSites` (extract/itersites) through `ctorAt`.

Spec (`spec…`): CPython 3.4 Objects/genobject.c `gen_send_ex` — a generator that returns `result`
raises `PyErr_SetNone(StopIteration)` when `result is None`, otherwise the INSTANCE
`StopIteration(result)` made by `PyObject_CallFunctionObjArgs(PyExc_StopIteration, result, NULL)`:
the value is always the single argument, whatever it is (a tuple or an exception instance is NOT
unpacked / re-used – that is what raise/throw normalisation would do);
`StopIteration.__init__`: `value = args[0] if args else None`; PEP 380: the value of
`yield from` is that `.value`.  `gen_throw` + `PyErr_NormalizeException` for throw(type, value).
-/
import GPy.C05.Model
namespace GPy.C05.Ret

/-! ## Python values -/

/-- exception classes (a slice of py/exception.go's hierarchy, depth ≤ 3 below BaseException) -/
inductive Cls | baseException | exception | stopIteration | generatorExit | lookupError | keyError | valueError | typeError | runtimeError
deriving DecidableEq, Repr, Inhabited

def Cls.parent : Cls → Option Cls
  | .baseException => none
  | .exception => some .baseException
  | .generatorExit => some .baseException
  | .keyError => some .lookupError
  | _ => some .exception

/-- `c.IsSubtype(t)` -/
def Cls.isSub (c t : Cls) : Bool :=
  c == t || (match c.parent with
    | none => false
    | some p => p == t || (match p.parent with
      | none => false
      | some q => q == t || (match q.parent with
        | none => false
        | some r => r == t)))

def Cls.py : Cls → String
  | .baseException => "BaseException" | .exception => "Exception" | .stopIteration => "StopIteration"
  | .generatorExit => "GeneratorExit" | .lookupError => "LookupError" | .keyError => "KeyError"
  | .valueError => "ValueError" | .typeError => "TypeError" | .runtimeError => "RuntimeError"

mutual
/-- Python objects.  `id` is the identity of a mutable / heap object created by the test program
(`id ≥ 1`); objects the runtime creates have `id = 0` (their identity is never observed). -/
inductive PV
  | none
  | int (i : Int)
  | str (s : String)
  | tuple (xs : PVs)
  | list (id : Nat) (xs : PVs)
  /-- a dict `{'k0': x0, 'k1': x1, …}` -/
  | dict (id : Nat) (vals : PVs)
  /-- `*py.Exception{Base: cls, Args: args}` -/
  | exc (id : Nat) (cls : Cls) (args : PVs)
  /-- an exception class object (`*py.Type` with TPFLAGS_BASE_EXC_SUBCLASS) -/
  | cls (c : Cls)
  /-- another class object (`int`, `str`, …) -/
  | type (name : String)
  /-- a generator object -/
  | gen (id : Nat)
inductive PVs | nil | cons (h : PV) (t : PVs)
end

deriving instance DecidableEq for PV, PVs
instance : Inhabited PV := ⟨.none⟩
instance : Inhabited PVs := ⟨.nil⟩

def PVs.ofList : List PV → PVs
  | [] => .nil
  | x :: r => .cons x (PVs.ofList r)

def PVs.toList : PVs → List PV
  | .nil => []
  | .cons h t => h :: t.toList

def PVs.length : PVs → Nat
  | .nil => 0
  | .cons _ t => t.length + 1

/-- `args[0]` if `len(args) > 0` -/
def PVs.head? : PVs → Option PV
  | .nil => none
  | .cons h _ => some h

/-- a `*py.Exception` -/
structure ExcObj where
  id : Nat
  cls : Cls
  args : PVs
deriving DecidableEq

def ExcObj.toPV (e : ExcObj) : PV := .exc e.id e.cls e.args

/-- Go `error` values -/
inductive GoErr
  /-- a `*py.Type` used as an error (`return nil, py.StopIteration`) -/
  | typ (c : Cls)
  /-- a `*py.Exception` -/
  | exc (e : ExcObj)
  /-- `py.ExceptionInfo{Type, Value}`: what a Python frame that raised returns -/
  | info (t : Cls) (v : PV)
deriving DecidableEq

/-! ## py/exception.go -/

/-- `exceptionNew(metatype, args)`: `&Exception{Base: metatype, Args: args.Copy()}` -/
def exceptionNew (t : Cls) (args : PVs) : ExcObj := { id := 0, cls := t, args := args }

/-- `IsException(t, err)` -/
def isException (t : Cls) : GoErr → Bool
  | .typ c => c.isSub t
  | .exc e => e.cls.isSub t
  | .info ty _ => ty.isSub t

/-- `MakeException(r)` for the two cases an instruction's error can be (`ExceptionInfo` is taken
before, see `toInfo`) -/
def makeException : GoErr → ExcObj
  | .exc e => e
  | .typ c => exceptionNew c .nil
  | .info _ v => exceptionNew .runtimeError (.cons v .nil)     -- SystemError wrapper; never reached

/-- RunFrame: `if errExcInfo, ok := err.(py.ExceptionInfo) { vm.curexc = errExcInfo } else
{ vm.SetException(py.MakeException(err)) }` – the (Type, Value) a handler `except C as e` sees -/
def toInfo : GoErr → Cls × PV
  | .info t v => (t, v)
  | e => let x := makeException e; (x.cls, x.toPV)

/-- `Exception.M__getattr__(name)` (after fix 4cf7939): `value` of a StopIteration instance is
`args[0]`, None without args; EVERY other attribute is answered with `Args` (sic, FIXME in the code) -/
def excGetattr (e : ExcObj) (name : String) : PV :=
  if name == "value" && e.cls.isSub .stopIteration then
    match e.args.head? with
    | some a => a
    | none => .none
  else .tuple e.args

/-! ## construction sites (constructor read from the regenerated table) -/

/-- the constructor used at a site, applied to the class and the value variable of the site -/
def buildExc (k : ExcCtor) (t : Cls) (x : PV) : GoErr :=
  match k with
  | .newTuple1 => .exc (exceptionNew t (.cons x .nil))       -- exceptionNew(t, Tuple{x})
  | .newArgs => match x with                                   -- exceptionNew(t, x) with x a Tuple
    | .tuple xs => .exc (exceptionNew t xs)
    | _ => .exc (exceptionNew t (.cons x .nil))
  | .newNil => .exc (exceptionNew t .nil)                      -- exceptionNew(t, nil)
  | .bareType => .typ t                                        -- the class itself as error value
  | .passExc => match x with                                   -- an existing exception object handed on
    | .exc id c a => .exc ⟨id, c, a⟩
    | _ => .typ t
  -- a site that routes through a constructor the model does not know: what Python defines
  -- (the table theorem `exc_sites_pinned` is broken in that case, and the run shows the difference)
  | .newf | .literal | .readValue | .readArg0 | .makeExc | .other => if x = .none then .typ t else .exc (exceptionNew t (.cons x .nil))

def ctorAt (func : String) (ord : Nat) : ExcCtor :=
  match Generated.excSites.find? (fun s => s.func == func && s.ord == ord) with
  | some s => s.ctor
  | none => .other

/-! ## py/generator.go -/

/-- tail of `Generator.resume` when the frame executed RETURN_VALUE (`Yielded == false`, `err == nil`):
```
if res != nil && res != None { return nil, exceptionNew(StopIteration, Tuple{res}) }
return nil, StopIteration
```
(`res = none` is Go `nil`) -/
def resumeFinish (res : Option PV) : GoErr :=
  match res with
  | some v => if v != .none then buildExc (ctorAt "Generator.resume" 3) .stopIteration v
              else buildExc (ctorAt "Generator.resume" 4) .stopIteration .none
  | none => buildExc (ctorAt "Generator.resume" 4) .stopIteration .none

/-- outcome of the argument parsing of `Generator.Throw(typ, val, tb)`: the exception instance that is
raised in the generator, or the TypeError raised to the caller instead -/
inductive ThrowArg | raiseIn (e : ExcObj) | typeError
deriving DecidableEq

def GoErr.asThrow : GoErr → ThrowArg
  | .exc e => .raiseIn e
  | _ => .typeError

/-- `Generator.Throw` after `UnpackTuple(args, kwargs, "throw", 1, 3, &typ, &val, &tb)` (`val` defaults to None;
`tb` is never looked at) -/
def throwBuild (typ val : PV) : ThrowArg :=
  match typ with
  | .exc id c a =>
    if val != .none then .typeError      -- "instance exception may not have a separate value"
    else (buildExc (ctorAt "Generator.Throw" 1) c (.exc id c a)).asThrow
  | .cls t =>
    -- ExceptionClassCheck(t)
    match val with
    | .exc id c a =>
      if c.isSub t then (buildExc (ctorAt "Generator.Throw" 2) t val).asThrow
      else (buildExc (ctorAt "Generator.Throw" 4) t val).asThrow       -- val != None: Tuple{val}
    | .tuple _ => (buildExc (ctorAt "Generator.Throw" 3) t val).asThrow
    | .none => (buildExc (ctorAt "Generator.Throw" 5) t .none).asThrow
    | _ => (buildExc (ctorAt "Generator.Throw" 4) t val).asThrow
  | _ => .typeError   -- "exceptions must be classes or instances deriving from BaseException, not %s"

/-! ## vm/eval.go -/

/-- `stopIterationValue(err)` -/
def stopIterationValue (err : GoErr) : PV :=
  let value : Option PV := match err with
    | .info _ v => some v
    | .exc e => some e.toPV
    | .typ _ => none
  match value with
  | some (.exc _ _ args) =>
    match args.head? with
    | some a => a
    | none => .none
  | _ => .none

/-- the error branch of `do_YIELD_FROM` (and of `throwYieldFrom` after `throw()` of the sub-iterator):
`if !py.IsException(py.StopIteration, err) { return err }; vm.SET_TOP(stopIterationValue(err))` -/
def yieldFromFinish (err : GoErr) : Except GoErr PV :=
  if !isException .stopIteration err then .error err else .ok (stopIterationValue err)

/-- `def DG(x): r = yield from x; return r` at the moment its sub-iterator finishes with `err`:
the frame continues with STORE r / LOAD r / RETURN_VALUE and `Generator.resume` builds the next
error; another error is raised in the frame and leaves RunFrame as `vm.curexc` -/
def delegFinish (err : GoErr) : GoErr :=
  match yieldFromFinish err with
  | .ok r => resumeFinish (some r)
  | .error e => let i := toInfo e; .info i.1 i.2

/-- the error the outermost of `n` nested delegating generators hands to its caller when the
innermost generator executes `return v` -/
def chainErr : Nat → PV → GoErr
  | 0, v => resumeFinish (some v)
  | n + 1, v => delegFinish (chainErr n v)

/-- what a delegating generator (`r = yield from chain`) receives -/
def delivered (n : Nat) (v : PV) : Except GoErr PV := yieldFromFinish (chainErr n v)

/-- `try: next(g) … except StopIteration as e:` – the object bound to `e` (a handler only matches
an ExceptionInfo whose Type is a subclass) -/
def caught (err : GoErr) : Option ExcObj :=
  let i := toInfo err
  if i.1.isSub .stopIteration then
    match i.2 with
    | .exc id c a => some ⟨id, c, a⟩
    | _ => none
  else none

/-- `e.args` of the StopIteration a caller of `next()` catches -/
def caughtArgs (err : GoErr) : Option PVs := (caught err).map (fun e => match excGetattr e "args" with | .tuple xs => xs | _ => .nil)

/-- `e.value` -/
def caughtValue (err : GoErr) : Option PV := (caught err).map (fun e => excGetattr e "value")

/-- `builtin_next(it, default)`: `if err != nil && def != nil && IsException(StopIteration, err) { return def }` -/
def nextDefault (err : GoErr) (dflt : PV) : Except GoErr PV :=
  if isException .stopIteration err then .ok dflt else .error err

/-! ## Spec: CPython 3.4 genobject.c / PEP 380 -/

/-- `gen_send_ex`: `return result` raises `StopIteration` without arguments for None and the instance
`StopIteration(result)` otherwise: `args == (result,)` whatever `result` is -/
def specArgs (v : PV) : PVs := if v = .none then .nil else .cons v .nil

/-- `StopIteration.value` (StopIteration_init: `args[0]` if there are args, else None) – and with PEP 380
the value of `r = yield from g()`: the object returned -/
def specValue (v : PV) : PV := v

/-- Python's normalisation of `throw(type, value)` (gen_throw + PyErr_NormalizeException):
an instance as first argument is raised itself and must not come with a value; with a class, a value that
is an instance of (a subclass of) it is raised as it is, None gives `type()`, a tuple gives `type(*value)`,
any other value gives `type(value)`; anything else as first argument is a TypeError. -/
def specThrow (typ val : PV) : ThrowArg :=
  match typ, val with
  | .exc id c a, .none => .raiseIn ⟨id, c, a⟩
  | .exc _ _ _, _ => .typeError
  | .cls t, .none => .raiseIn ⟨0, t, .nil⟩
  | .cls t, .tuple xs => .raiseIn ⟨0, t, xs⟩
  | .cls t, .exc id c a => if c.isSub t then .raiseIn ⟨id, c, a⟩ else .raiseIn ⟨0, t, .cons (.exc id c a) .nil⟩
  | .cls t, v => .raiseIn ⟨0, t, .cons v .nil⟩
  | _, _ => .typeError

/-! ## Refinement: the abstract `Model.lean` is this model seen through `Val ↪ PV` -/

def ofVal : Val → PV
  | .none => .none
  | .int i => .int i
  | .str s => .str s
  | .pair a b => .tuple (.cons (ofVal a) (.cons (ofVal b) .nil))

/-- the `NextErr` a concrete error of the generator object stands for -/
def absErr (v : Val) (e : GoErr) : Option NextErr :=
  match e with
  | .typ .stopIteration => some .stopType
  | .exc x => if x.cls = .stopIteration ∧ x.args = .cons (ofVal v) .nil then some (.stopExc v) else none
  | _ => none

end GPy.C05.Ret
