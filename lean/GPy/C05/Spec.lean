/-
C05 specification (core Lean only), written from Python's definition of the iterator
protocol, independently of the Go loops.

A producer's behaviour is a *script*: what successive `__next__` calls do.  Iteration
consumes items up to the first StopIteration (raised as the class, as an instance, or as an
instance carrying a value), then the consumer computes its own result; the first other
exception propagates unchanged.
-/
import GPy.C05.Model
namespace GPy.C05

/-- what one `__next__` call of a producer does -/
inductive Step
  | item (v : Val)
  | stopClass               -- raise StopIteration
  | stopInstance            -- raise StopIteration()
  | stopVal (v : Val)       -- raise StopIteration(v)   /  `return v` in a generator
  | raise (e : Exc)         -- raise another exception
deriving DecidableEq, Repr, Inhabited

abbrev Script := List Step

/-- how an iteration over a script ends -/
inductive End | stop (v : Val) | raise (e : Exc)
deriving DecidableEq, Repr

/-- the items delivered before the iteration ends -/
def itemsOf : Script → List Val
  | .item v :: r => v :: itemsOf r
  | _ => []

/-- the way it ends (running off the script = exhausted) -/
def endOf : Script → End
  | [] => .stop .none
  | .item _ :: r => endOf r
  | .stopClass :: _ => .stop .none
  | .stopInstance :: _ => .stop .none
  | .stopVal v :: _ => .stop v
  | .raise e :: _ => .raise e

/-- the value a stop step carries (`none` for a step that is not a stop) -/
def Step.stopValue? : Step → Option Val
  | .stopClass => some .none
  | .stopInstance => some .none
  | .stopVal v => some v
  | _ => none

/-- consumers that take every item: result `fin items` unless an exception ends the iteration -/
def specAll (fin : List Val → Out) (sc : Script) : Out :=
  match endOf sc with
  | .raise e => .err (.exc e)
  | .stop _ => fin (itemsOf sc)

def dedup : List Val → List Val → List Val
  | acc, [] => acc
  | acc, v :: r => if acc.contains v then dedup acc r else dedup (acc ++ [v]) r

def specList := specAll .list           -- list(it), [x for x in it], for-loop collecting
def specTuple := specAll .tuple         -- tuple(it), f(*it)
def specSet := specAll (fun xs => .set (dedup [] xs))
def specSorted (sort : List Val → Except Exc (List Val)) :=
  specAll (fun xs => match sort xs with | .ok r => .list r | .error e => .err (.exc e))

/-- `obj in it` -/
def specContains (eq : Val → Val → Except Exc Bool) (obj : Val) : Script → Out
  | .item v :: r =>
    match eq v obj with
    | .error e => .err (.exc e)
    | .ok true => .bool true
    | .ok false => specContains eq obj r
  | .raise e :: _ => .err (.exc e)
  | _ => .bool false

/-- `sep.join(it)` -/
def specJoinAux : Script → List String → Option (List String) ⊕ Exc
  | .item (.str x) :: r, acc => specJoinAux r (acc ++ [x])
  | .item _ :: _, _ => .inr .type
  | .raise e :: _, _ => .inr e
  | _, acc => .inl (some acc)

def specJoin (sep : String) (sc : Script) : Out :=
  match specJoinAux sc [] with
  | .inl (some parts) => .str (sep.intercalate parts)
  | .inl none => .fuel
  | .inr e => .err (.exc e)

/-- `for x in it: body` where the body folds a state and may `break` (second component) or raise -/
def specFor {α : Type} (body : α → Val → Except Exc (α × Bool)) : Script → α → Except PyErr (Option α)
  | .item v :: r, a =>
    match body a v with
    | .error e => .error (.exc e)
    | .ok (a', true) => .ok (some a')
    | .ok (a', false) => specFor body r a'
  | .raise e :: _, _ => .error (.exc e)
  | _, a => .ok (some a)

/-- `a1, …, an = it` -/
def specUnpack : Nat → Script → List Val → Out
  | 0, .item _ :: _, _ => .err (.exc .value)            -- too many values
  | 0, .raise e :: _, _ => .err (.exc e)
  | 0, _, acc => .unpacked acc none []
  | n + 1, .item v :: r, acc => specUnpack n r (acc ++ [v])
  | _ + 1, .raise e :: _, _ => .err (.exc e)
  | _ + 1, _, _ => .err (.exc .value)                   -- need more values

/-- `a1, …, an, *star, b1, …, bm = it` -/
def specUnpackEx : Nat → Nat → Script → List Val → Out
  | 0, m, sc, acc =>
    match endOf sc with
    | .raise e => .err (.exc e)
    | .stop _ =>
      let l := itemsOf sc
      if l.length < m then .err (.exc .value)
      else .unpacked acc (some (l.take (l.length - m))) (l.drop (l.length - m))
  | n + 1, m, .item v :: r, acc => specUnpackEx n m r (acc ++ [v])
  | _ + 1, _, .raise e :: _, _ => .err (.exc e)
  | _ + 1, _, _, _ => .err (.exc .value)

/-- `all(it)` -/
def specAllTrue (truth : Val → Except Exc Bool) : Script → Out
  | .item v :: r =>
    match truth v with
    | .error e => .err (.exc e)
    | .ok false => .bool false
    | .ok true => specAllTrue truth r
  | .raise e :: _ => .err (.exc e)
  | _ => .bool true

/-- `any(it)` -/
def specAny (truth : Val → Except Exc Bool) : Script → Out
  | .item v :: r =>
    match truth v with
    | .error e => .err (.exc e)
    | .ok true => .bool true
    | .ok false => specAny truth r
  | .raise e :: _ => .err (.exc e)
  | _ => .bool false

/-- `sum(it, start)` -/
def specSum (add : Val → Val → Except Exc Val) : Script → Val → Out
  | .item v :: r, acc =>
    match add acc v with
    | .error e => .err (.exc e)
    | .ok t => specSum add r t
  | .raise e :: _, _ => .err (.exc e)
  | _, acc => .val acc

/-- `min(it)`/`max(it)` with `key=` and `default=`: the items are compared by their keys (`better kv bk` says the new
key replaces the best so far), the first error of `key`/the comparison propagates; the default is the result exactly
when there is no item (it is not compared and `key` is not applied to it); no item and no default is ValueError. -/
def specMinMaxKey (key : Val → Except PyErr Val) (better : Val → Val → Except Exc Bool) : Script → Option (Val × Val) → Option Val → Out
  | .item v :: r, best, d =>
    match key v with
    | .error e => .err e
    | .ok kv =>
      match best with
      | none => specMinMaxKey key better r (some (kv, v)) d
      | some b =>
        match better kv b.1 with
        | .error e => .err (.exc e)
        | .ok c => specMinMaxKey key better r (some (if c then (kv, v) else b)) d
  | .raise e :: _, _, _ => .err (.exc e)
  | _, some b, _ => .val b.2
  | _, none, some d => .val d
  | _, none, none => .err (.exc .value)

def specMinMax (better : Val → Val → Except Exc Bool) (sc : Script) (dflt : Option Val) : Out :=
  specMinMaxKey (fun v => .ok v) better sc none dflt

/-- `l.extend(it)` / `l += it` -/
def specExtend (init : List Val) (sc : Script) : Out := specAll (fun xs => .list (init ++ xs)) sc

/-- `s.update(it)`: the union of `s` and `set(it)` -/
def specSetUpdate (init : List Val) (sc : Script) : Out := specAll (fun xs => .set (dedup init (dedup [] xs))) sc

/-- `next(it)` / `next(it, default)` -/
def specNext (dflt : Option Val) : Script → Out
  | .item v :: _ => .val v
  | .raise e :: _ => .err (.exc e)
  | sc =>
    match dflt with
    | some d => .val d
    | none => match endOf sc with | .stop v => .err (.stopIteration v) | .raise e => .err (.exc e)

/-- `r = yield from it` inside a generator driven by `next`: the items are passed through and `r` is
the value carried by the StopIteration that ended the sub-iterator -/
def specYieldFrom (sc : Script) : Out :=
  match endOf sc with
  | .raise e => .err (.exc e)
  | .stop v => .yf (itemsOf sc) v

/-! ### scripts of the adapters -/

/-- `map(f, it)` -/
def mapScript (f : Val → Except NextErr Val) : Script → Script
  | [] => []
  | .item v :: r =>
    match f v with
    | .ok w => .item w :: mapScript f r
    | .error .stopType => [.stopClass]
    | .error .stopInfoClass => [.stopClass]
    | .error (.stopInfoInst none) => [.stopInstance]
    | .error (.stopInfoInst (some x)) => [.stopVal x]
    | .error (.stopExc x) => [.stopVal x]
    | .error (.other e) => [.raise e]
  | st :: _ => [st]

/-- `enumerate(it)` from index `i` -/
def enumScript : Int → Script → Script
  | _, [] => []
  | i, .item v :: r => .item (.pair (.int i) v) :: enumScript (i + 1) r
  | _, st :: _ => [st]

/-- `zip(a, b)` -/
def zipScript : Script → Script → Script
  | .item x :: ra, .item y :: rb => .item (.pair x y) :: zipScript ra rb
  | .item _ :: _, [] => []
  | .item _ :: _, st :: _ => [st]
  | [], _ => []
  | st :: _, _ => [st]

/-- `filter(None, it)` -/
def filterScript (truth : Val → Except Exc Bool) : Script → Script
  | [] => []
  | .item v :: r =>
    match truth v with
    | .ok true => .item v :: filterScript truth r
    | .ok false => filterScript truth r
    | .error e => [.raise e]
  | st :: _ => [st]

/-! ### when does a Go iterator object realise a script -/

/-- `Runs next s sc`: the iterator `(next, s)` behaves as the script `sc` says, up to and including
the first step that is not an item (nothing is required afterwards). Running off the end of the
script is exhaustion: some StopIteration (in any of its Go representations) carrying no value. -/
inductive Runs {σ : Type} (next : σ → Resp × σ) : σ → Script → Prop
  | nil {s e s'} : next s = (.err e, s') → e.isStop = true → e.stopValue = .none → Runs next s []
  | item {s v s' r} : next s = (.item v, s') → Runs next s' r → Runs next s (.item v :: r)
  | stop {s e s' st r v} : st.stopValue? = some v → next s = (.err e, s') → e.isStop = true → e.stopValue = v →
      Runs next s (st :: r)
  | raise {s e s' r} : next s = (.err (.other e), s') → Runs next s (.raise e :: r)

/-! ### producers (how a script is realised in Python source) -/

/-- a user-defined iterator class whose `__next__` performs the next step of the script
(and raises StopIteration when the script has run out); every error arrives as ExceptionInfo -/
def userNext : Script → Resp × Script
  | [] => (.err .stopInfoClass, [])
  | .item v :: r => (.item v, r)
  | .stopClass :: r => (.err .stopInfoClass, r)
  | .stopInstance :: r => (.err (.stopInfoInst none), r)
  | .stopVal v :: r => (.err (.stopInfoInst (some v)), r)
  | .raise e :: r => (.err (.other e), r)

/-- frame of a generator function whose body performs the script: `yield v`, `return`, `raise StopIteration()`,
`return v`, `raise e`; falling off the end returns None -/
def scriptRun (_ent : Entry) : Script → RunOut × Script
  | [] => (.ret .none, [])
  | .item v :: r => (.yield v, r)
  | .stopClass :: r => (.ret .none, r)
  | .stopInstance :: r => (.raise (.stopInfoInst none), r)
  | .stopVal v :: r => (.ret v, r)
  | .raise e :: r => (.raise (.other e), r)

/-- builtin list/tuple/range iterator -/
def listIterNext : List Val → Resp × List Val
  | [] => (.err .stopType, [])
  | v :: r => (.item v, r)

/-- steps encoded as data for `map(F, [codes…])`: F(code) returns or raises accordingly -/
def encodeStep : Step → Val
  | .item v => .pair (.int 0) v
  | .stopClass => .pair (.int 1) .none
  | .stopInstance => .pair (.int 2) .none
  | .stopVal v => .pair (.int 3) v
  | .raise e => .pair (.int 4) (.int (match e with
      | .value => 0 | .key => 1 | .type => 2 | .zeroDiv => 3 | .index => 4 | .runtime => 5 | .attr => 6 | .lookup => 7
      | .genExit => 8))

def decodeExc : Int → Exc
  | 0 => .value | 1 => .key | 2 => .type | 3 => .zeroDiv | 4 => .index | 5 => .runtime | 6 => .attr | 8 => .genExit | _ => .lookup

def decodeF : Val → Except NextErr Val
  | .pair (.int 0) v => .ok v
  | .pair (.int 1) _ => .error .stopInfoClass
  | .pair (.int 2) _ => .error (.stopInfoInst none)
  | .pair (.int 3) v => .error (.stopInfoInst (some v))
  | .pair (.int 4) (.int c) => .error (.other (decodeExc c))
  | _ => .error (.other .type)

/-- a class with only `__getitem__`: index i performs step i; `stopClass` is `raise IndexError` -/
def getitemOf (sc : Script) (i : Nat) : Resp :=
  match sc[i]? with
  | none => .err (.other .index)
  | some (.item v) => .item v
  | some .stopClass => .err (.other .index)
  | some .stopInstance => .err (.stopInfoInst none)
  | some (.stopVal v) => .err (.stopInfoInst (some v))
  | some (.raise e) => .err (.other e)

/-! ### the generator object: reference semantics over a whole history -/

/-- reference semantics of a generator object, replaying a history of sends (`none` = `next`)
against the *coroutine* denoted by `run`: what each call returns.
`live` = the body has neither returned nor raised. -/
def specHistory {φ : Type} (run : Entry → φ → RunOut × φ) : List Val → (started : Bool) → (live : Bool) → φ → List Resp
  | [], _, _, _ => []
  | a :: h, started, live, fr =>
    if !live then .err .stopType :: specHistory run h started live fr
    else if !started && a != .none then .err (.other .type) :: specHistory run h started live fr
    else
      match run (if started then .send a else .first) fr with
      | (.yield v, fr') => .item v :: specHistory run h true true fr'
      | (.ret v, fr') => .err (if v != .none then .stopExc v else .stopType) :: specHistory run h true false fr'
      | (.raise e, fr') => .err e :: specHistory run h true false fr'

/-- the model run over a history -/
def modelHistory {φ : Type} (run : Entry → φ → RunOut × φ) : List Val → GenObj φ → List Resp
  | [], _ => []
  | a :: h, g => let r := g.send run a; r.1 :: modelHistory run h r.2.1

/-- number of times the frame was run over a history -/
def runCount {φ : Type} (run : Entry → φ → RunOut × φ) : List Val → GenObj φ → Nat
  | [], _ => 0
  | a :: h, g => let r := g.send run a; (if r.2.2 then 1 else 0) + runCount run h r.2.1


/-! ### next / send / throw / close: reference semantics over a whole history -/

/-- one call on a generator object -/
inductive GOp | send (a : Val) | throw (e : NextErr) | close
deriving DecidableEq, Repr, Inhabited

/-- what the call does: next/send/throw return an item or raise (`resp`); close returns None (`closed`) or raises -/
inductive GAns | resp (r : Resp) | closed | closeErr (e : NextErr)
deriving DecidableEq, Repr, Inhabited

/-- how a resumption that ends the coroutine is reported by next/send/throw -/
def endResp (o : RunOut) : Resp :=
  match o with
  | .yield v => .item v
  | .ret v => .err (if v != .none then .stopExc v else .stopType)
  | .raise e => .err e

/-- Python's definition of the generator methods against the coroutine `run`:
* a finished generator answers StopIteration to next/send, hands an exception thrown into it straight back, and close() does nothing;
* a generator that was never started refuses a non-None send (TypeError); throw(e) raises `e` at its first line – nothing of the
  body runs and it is finished; close() just finishes it;
* a suspended generator is resumed: send makes the yield expression evaluate to the value, throw(e) raises `e` at the yield;
  close() raises GeneratorExit there and returns None if the generator then finishes (return, StopIteration, GeneratorExit),
  raises RuntimeError if it yields again (it stays suspended at that yield), and propagates any other exception. -/
def specOps {φ : Type} (run : Entry → φ → RunOut × φ) : List GOp → (started : Bool) → (live : Bool) → φ → List GAns
  | [], _, _, _ => []
  | .send a :: h, started, live, fr =>
    if !live then .resp (.err .stopType) :: specOps run h started live fr
    else if !started && a != .none then .resp (.err (.other .type)) :: specOps run h started live fr
    else
      let r := run (if started then .send a else .first) fr
      .resp (endResp r.1) :: specOps run h true (match r.1 with | .yield _ => true | _ => false) r.2
  | .throw e :: h, started, live, fr =>
    if !live then .resp (.err e) :: specOps run h started live fr
    else if !started then .resp (.err e) :: specOps run h true false fr
    else
      let r := run (.throw e) fr
      .resp (endResp r.1) :: specOps run h true (match r.1 with | .yield _ => true | _ => false) r.2
  | .close :: h, started, live, fr =>
    if !live then .closed :: specOps run h started live fr
    else if !started then .closed :: specOps run h true false fr
    else
      let r := run (.throw (.other .genExit)) fr
      match r.1 with
      | .yield _ => .closeErr (.other .runtime) :: specOps run h true true r.2
      | .ret _ => .closed :: specOps run h true false r.2
      | .raise e => (if e.isStop || e.isGenExit then .closed else .closeErr e) :: specOps run h true false r.2

/-- the model (`Generator.Send` / `Throw` / `Close`) over a history -/
def modelOps {φ : Type} (run : Entry → φ → RunOut × φ) : List GOp → GenObj φ → List GAns
  | [], _ => []
  | .send a :: h, g => let r := g.send run a; .resp r.1 :: modelOps run h r.2.1
  | .throw e :: h, g => let r := g.throw run e; .resp r.1 :: modelOps run h r.2.1
  | .close :: h, g =>
    let r := g.close run
    (match r.1 with | none => GAns.closed | some e => .closeErr e) :: modelOps run h r.2.1

/-- the generator object after a history -/
def modelOpsFinal {φ : Type} (run : Entry → φ → RunOut × φ) : List GOp → GenObj φ → GenObj φ
  | [], g => g
  | .send a :: h, g => modelOpsFinal run h (g.send run a).2.1
  | .throw e :: h, g => modelOpsFinal run h (g.throw run e).2.1
  | .close :: h, g => modelOpsFinal run h (g.close run).2.1

end GPy.C05
