/-
C06 case generator.  One case per line: `input ⟶ model V ⟶ model R ⟶ spec V ⟶ tags`.

kinds of input (decoded by harness/c06.go):
  esc s|b <body>      parser.DecodeEscape directly            V = s[code points] / b[bytes] / E:ValueError
  ev <text>           parser.ParseString(text, eval)          V = S-expression of the tree / E:SyntaxError
  ex <text>           parser.ParseString(text, exec)
  lx <mode> <text>    parser.LexString                        V = token names
  ac <mode> <text>    accept / reject only
-/
import GPy.Common.Basic
import GPy.C06.Spec
namespace GPy.C06
open Spec

/-! ### text encoding of inputs -/
def hexDigitChar (n : Nat) : Char := if n < 10 then Char.ofNat (48 + n) else Char.ofNat (87 + n)
def hexStr (n : Nat) : String := String.ofList ((Nat.toDigits 16 n))
def hex2 (n : Nat) : String := String.ofList [hexDigitChar (n / 16), hexDigitChar (n % 16)]

def encChar (c : Char) : String :=
  if c == '\n' then "\\n" else if c == '\t' then "\\t" else if c == '\r' then "\\r" else if c == '\\' then "\\\\"
  else if c.toNat < 32 || c.toNat == 127 then "\\x" ++ hex2 c.toNat
  else if c.toNat ≥ 128 then "\\u{" ++ hexStr c.toNat ++ "}"
  else String.singleton c

def enc (s : List Char) : String := String.join (s.map encChar)

/-! ### observables -/
def strResV : Except Unit StrVal → String → String
  | .ok v, _ => v.sexp
  | .error _, e => e

def lexOutV : LexOut → String
  | .syntaxError => "E:SyntaxError"
  | .outOfFuel => "MODEL-OUT-OF-FUEL"
  | .ok ts => " ".intercalate (ts.map fun t => match t with
    | .start .exec => "FILE_INPUT" | .start .eval => "EVAL_INPUT" | .start .single => "SINGLE_INPUT"
    | .newline => "NEWLINE" | .indent => "INDENT" | .dedent => "DEDENT" | .endmarker => "ENDMARKER"
    | .name _ => "NAME" | .num _ => "NUMBER" | .str _ => "STRING"
    | .p x => String.ofList ((operators.find? (fun o => o.2 == x)).map (·.1) |>.getD ['?'])
    | .k w => (keywords.find? (fun o => o.2 == w)).map (·.1) |>.getD "?")

def parseOutV : ParseOut → String
  | .ok e => sexp e
  | .syntaxError => "E:SyntaxError"
  | .outOfFuel => "MODEL-OUT-OF-FUEL"

def emit (c : Case) : IO Unit := IO.println c.line

/-! ### 1. escapes: every escape form × neighbours, both modes, through DecodeEscape and through literals -/

def escHeads : List Char :=
  (List.range 95).map (fun i => Char.ofNat (32 + i)) ++ ['\n', '\t', 'é', '\x00']

def escTails : List String :=
  ["", "0", "7", "8", "1", "41", "418", "4g", "g1", "+1", "-1", " 1", "0041", "00e9", "00E9", "004", "004g", "d800", "DFFF", "dbff",
   "0010ffff", "0010FFFF", "00110000", "ffffffff", "7fffffff", "0000004", "0000d800", "{DASH}", "\\", "\\\\", "\\n", "777", "400", "377",
   "78", "07", "é", "\n", "\\x41", "x", "'", "\""]

def showPieces (bm : Bool) : Except Unit (List Piece) → String
  | .error _ => "E:ValueError"
  | .ok ps => if bm then "b" ++ natList (ps.flatMap Piece.bytes) else "s" ++ natList (ps.map Piece.rune)

def specEscV (bm : Bool) (body : List Char) : String :=
  match Spec.strValue false bm body with
  | .ok v => v.sexp
  | .error _ => "E:ValueError"

def escKf (bm : Bool) (body : List Char) : List String :=
  if bm then [] else
  match scan false body.length body with
  | .ok items =>
    (if items.any (· == .named) then ["kf=C06-K05"] else
     if items.any EscItem.isKf then ["kf=C06-K06"] else [])
  | .error _ => []

def genEscapes : IO Unit := do
  for pre in ["", "a", "\\"] do
    for h in escHeads do
      for t in escTails do
        let body := pre.toList ++ ['\\', h] ++ t.toList
        for bm in [false, true] do
          if bm && body.any (fun c => c.toNat ≥ 128) then continue   -- DecodeEscape is only reached with ASCII bodies in byte mode
          let kf := escKf bm body
          emit { input := s!"esc {if bm then "b" else "s"} {enc body}", modelV := showPieces bm (decodeEscape body bm),
                 specV := specEscV bm body, tags := ["nt", "esc"] ++ kf }

/-! ### 2. literals through the real lexer: prefixes, quote kinds, raw, bytes, concatenation, numbers -/

structure LitPiece where
  pre : String
  quote : String
  body : List Char

def LitPiece.text (p : LitPiece) : List Char := p.pre.toList ++ p.quote.toList ++ p.body ++ p.quote.toList

def prefixFlags (pre : String) : Option (Bool × Bool) :=   -- (raw, bytes); none = not a legal prefix
  match pre.toLower with
  | "" => some (false, false) | "u" => some (false, false) | "r" => some (true, false) | "b" => some (false, true)
  | "br" => some (true, true) | "rb" => some (true, true)
  | _ => none

/-- the body is lexically well-formed inside the chosen quotes: no unescaped quote / newline problems -/
def bodyFits (quote : String) (body : List Char) : Bool :=
  let q := quote.toList
  -- scan body followed by the closing quote: the first unescaped occurrence of the quote must be the closing one
  let rec go (l : List Char) (left : Nat) (esc : Bool) (fuel : Nat) : Bool :=
    match fuel, l with
    | 0, _ => true
    | _, [] => false
    | f + 1, c :: cs =>
      if esc then (left != 0) && go cs (left - 1) false f
      else if q.isPrefixOf (c :: cs) then left == 0
      else if left == 0 then false
      else if q.length == 1 && c == '\n' then false
      else go cs (left - 1) (c == '\\') f
  go (body ++ q) body.length false (body.length + q.length + 1)

/-- Python reads source text with universal newlines: `\r\n` is one line end -/
def normNewlines : List Char → List Char
  | '\r' :: '\n' :: r => '\n' :: normNewlines r
  | c :: r => c :: normNewlines r
  | [] => []

/-- Python's value of a sequence of adjacent literals (spec side) -/
def specLiteral (ps : List LitPiece) : String :=
  let vals := ps.map fun p =>
    let body := normNewlines p.body
    match prefixFlags p.pre with
    | none => Except.error ()
    | some (raw, bytes) => if bodyFits p.quote body then Spec.strValue raw bytes body else .error ()
  let rec cat (acc : Option StrVal) (l : List (Except Unit StrVal)) : Option StrVal :=
    match l with
    | [] => acc
    | .error _ :: _ => none
    | .ok v :: r =>
      match acc, v with
      | none, _ => none
      | some (.s a), .s b => cat (some (.s (a ++ b))) r
      | some (.b a), .b b => cat (some (.b (a ++ b))) r
      | _, _ => none
  match vals with
  | Except.ok v :: r => (match cat (some v) r with | some v => sexp (.str v) | none => "E:SyntaxError")
  | _ => "E:SyntaxError"

def litKf (ps : List LitPiece) : List String :=
  ps.foldl (fun acc p => match prefixFlags p.pre with
    | some (raw, bytes) => if acc.isEmpty && bodyFits p.quote p.body then (if raw || bytes then [] else escKf false p.body) else acc
    | none => acc) []

def litCase (ps : List LitPiece) (sep : String) (tag : String) : Case :=
  let text := (sep.toList).intercalate (ps.map LitPiece.text)
  let m := parseOutV (parseEvalString text)
  -- a body that does not fit its quotes makes the text a *different* spelling (e.g.    =  ''): there the
  -- Lean lexer is the reference (tie only)
  let fits := ps.all fun p => bodyFits p.quote (normNewlines p.body)
  { input := "ev " ++ enc text, modelV := m, specV := if fits then specLiteral ps else m,
    tags := ["nt", if fits then tag else tag ++ "-tie"] ++ litKf ps }

def litBodies : List String :=
  ["", "a", "ab c", "\\n", "\\x41", "\\101", "\\0", "\\u00e9", "\\U0001F600", "\\N{DASH}", "\\q", "\\\\", "\\'", "\\\"", "é", "\\\n", "a\\\nb",
   "\n", "a\nb", "'", "\"", "''", "\"\"", "\\x4", "\\xg1", "\\x+1", "\\ud800", "\\U00110000", "\\777", "\\400", "#", "\\", "a\\", "\\\\\\", "\t",
   "\\N", "\\u12", "{}", "%s", "\\a\\b\\f\\n\\r\\t\\v", "\\x00", "\\8", "\\18", "中", "\\\r\n", "\r\n"]

def genLiterals : IO Unit := do
  for pre in ["", "u", "U", "r", "R", "b", "B", "br", "bR", "Br", "BR", "rb", "rB", "Rb", "RB", "ur", "bu", "f", "rr"] do
    for quote in ["'", "\"", "'''", "\"\"\""] do
      for body in litBodies do
        emit (litCase [{ pre := pre, quote := quote, body := body.toList }] "" "lit")
  -- implicit concatenation
  let small : List LitPiece := [
    { pre := "", quote := "'", body := ['a'] }, { pre := "", quote := "\"", body := "\\x41".toList }, { pre := "r", quote := "'", body := "\\n".toList },
    { pre := "b", quote := "'", body := ['b'] }, { pre := "rb", quote := "\"\"\"", body := "\\0".toList }, { pre := "u", quote := "'''", body := "x\ny".toList },
    { pre := "", quote := "'", body := [] }, { pre := "B", quote := "\"", body := "\\xff".toList }]
  for a in small do
    for b in small do
      for sep in ["", " ", "  ", " \\\n ", "\t"] do
        -- `''` directly followed by a quote would read as a triple quote: a different text
        if sep == "" && a.body.isEmpty then continue
        emit (litCase [a, b] sep "concat")
      for c in small.take 4 do
        emit (litCase [a, b, c] " " "concat")

/-- number spellings: (text, spec) where spec comes from `Spec.intLit` for integers and is given for floats -/
def numSpec (text : List Char) : String :=
  match intLit text with
  | .value n => s!"(Num {n})"
  | .illegal => "E:SyntaxError"
  | .notInt => "?"

def intValues : List Nat := [0, 1, 7, 8, 9, 10, 15, 16, 17, 63, 64, 255, 256, 511, 4095, 65535, 2147483647, 2147483648, 4294967295, 4294967296,
  9223372036854775807, 9223372036854775808, 18446744073709551615, 18446744073709551616, 123456789012345678901234567890]

def toBase (b : Nat) (n : Nat) : List Char := Nat.toDigits b n

def genNumbers (seed : Nat) (n : Nat) : IO Unit := do
  let spell (v : Nat) : List (List Char) :=
    let hex := toBase 16 v
    [toBase 10 v, "0x".toList ++ hex, "0X".toList ++ hex.map Char.toUpper, "0x00".toList ++ hex, "0o".toList ++ toBase 8 v, "0O0".toList ++ toBase 8 v,
     "0b".toList ++ toBase 2 v, "0B000".toList ++ toBase 2 v, '0' :: toBase 10 v, "00".toList ++ toBase 10 v]
  let numCase (text : List Char) (spec : String) (tag : String) : Case :=
    { input := "ev " ++ enc text, modelV := parseOutV (parseEvalString text), specV := spec, tags := ["nt", tag] }
  for v in intValues do
    for t in spell v do
      emit (numCase t (numSpec t) "int")
  for t in ["0", "00", "000000", "01", "007", "0777", "0010", "08", "09", "0xg", "0x", "0o8", "0o", "0b2", "0b", "0xffg", "0o78", "0b12", "1_0", "0_0",
            "1__0", "0x_f", "1L", "0l", "1e", "1e+", "1.e", "0xe+1", "0b1e1", "1.2.3", "1..2", "0x1.8", "0o1.5", "1.5.real", "1 .real", "1..real", "1.real",
            "1 if 2 else 3", "1if 2 else 3", "1or 2", "0or 1", "1and 2", "0 if 1else 2", "0x1for", "0b1or 1", "0o7or 1"] do
    let text := t.toList
    -- for these the Lean lexer/parser pair (itself tied to the reference tables) is the reference
    let m := parseOutV (parseEvalString text)
    let spec := match intLit text with | .value n => s!"(Num {n})" | .illegal => "E:SyntaxError" | .notInt => m
    emit (numCase text spec "numedge")
  -- floats and imaginary literals: spelling ↦ exact decimal m·10^e
  let floats : List (String × Nat × Int) := [
    ("1.5", 15, -1), ("1.50", 15, -1), ("01.5", 15, -1), ("15e-1", 15, -1), ("0.15e1", 15, -1), ("1.5E0", 15, -1), (".15e+1", 15, -1), ("1.5e00", 15, -1),
    ("150e-2", 15, -1), ("0.", 0, 0), (".0", 0, 0), ("0e0", 0, 0), ("0.0e5", 0, 0), ("00.00", 0, 0), ("1.", 1, 0), ("1.e3", 1, 3), ("1e3", 1, 3), ("1E+3", 1, 3), ("1000.", 1, 3),
    ("1000.0", 1, 3), ("09.5", 95, -1), ("0009e1", 9, 1), ("123456.789", 123456789, -3), ("1e22", 1, 22), ("1e-7", 1, -7), ("0.001", 1, -3), ("1e100", 1, 100),
    ("2.5e-300", 25, -301), ("12345678901234e5", 12345678901234, 5), ("3.14159", 314159, -5)]
  for (t, m, e) in floats do
    emit (numCase t.toList s!"(Num F:{m}e{e})" "float")
    for j in ["j", "J"] do
      emit (numCase (t ++ j).toList s!"(Num J:0e0:{m}e{e})" "imag")
  for (t, m) in [("1", 1), ("0", 0), ("09", 9), ("007", 7), ("10", 1), ("123", 123)] do
    let e : Int := if t == "10" then 1 else 0
    emit (numCase (t ++ "j").toList s!"(Num J:0e0:{m}e{e})" "imag")
  -- seeded random integers in random spellings
  let mut r : Rng := ⟨(seed + 77).toUInt64⟩
  for _ in [0:n] do
    let (r1, nb) := r.nat 90
    let (r2, v) := r1.bits (nb + 1)
    let (r3, i) := r2.nat 10
    r := r3
    let t := (spell v)[i]!
    emit (numCase t (numSpec t) "int")

/-! ### 3. expressions: rendering to text -/

def numText (r : Rng) (v : NumVal) : Rng × String :=
  match v with
  | .int n =>
    let (r, i) := r.nat 6
    (r, match i with
      | 0 => "0x" ++ String.ofList (toBase 16 n)
      | 1 => "0o" ++ String.ofList (toBase 8 n)
      | 2 => "0b" ++ String.ofList (toBase 2 n)
      | _ => toString n)
  | .float m e =>
    let (r, i) := r.nat 3
    (r, match i with
      | 0 => s!"{m}e{e}"
      | 1 => s!"{m}.0e{e}"
      | _ => s!"{m}0.e{e - 1}")
  | .imag m e => (r, s!"{m}e{e}j")

/-- one code point of a str literal in a random legal spelling -/
def cpText (r : Rng) (bytes : Bool) (q : Char) (c : Nat) : Rng × String :=
  let (r, i) := r.nat 6
  let plain := c ≥ 32 && c < 127 && c != 92 && c != q.toNat
  let oct3 := "\\" ++ String.ofList ((toBase 8 c).leftpad 3 '0')
  if bytes then
    (r, if plain && i < 3 then String.singleton (Char.ofNat c) else if i == 3 then oct3 else "\\x" ++ hex2 c)
  else if c < 256 then
    (r, if plain && i < 3 then String.singleton (Char.ofNat c) else if i == 3 && c < 64 then oct3 else if i == 4 then "\\x" ++ hex2 c
        else if i == 5 then "\\u" ++ String.ofList ((toBase 16 c).leftpad 4 '0') else if c < 128 then "\\x" ++ hex2 c else String.singleton (Char.ofNat c))
  else
    (r, if i < 2 then String.singleton (Char.ofNat c) else if c < 65536 && i < 4 then "\\u" ++ String.ofList ((toBase 16 c).leftpad 4 '0')
        else "\\U" ++ String.ofList ((toBase 16 c).leftpad 8 '0'))

def strText (r : Rng) (v : StrVal) : Rng × String := Id.run do
  let (bytes, cps) := match v with | .s c => (false, c) | .b c => (true, c)
  let (r, qi) := r.nat 2
  let q := if qi == 0 then '\'' else '"'
  let (r, pi) := r.nat 3
  let pre := if bytes then (if pi == 0 then "b" else "B") else (if pi == 0 then "u" else "")
  -- optionally split into two adjacent literals
  let (r, sp) := r.nat 4
  let mut r := r
  let mut out := pre ++ String.singleton q
  let mut k := 0
  for c in cps do
    if sp == 0 && k == cps.length / 2 && k > 0 then
      out := out ++ String.singleton q ++ " " ++ pre ++ String.singleton q
    let (r', s) := cpText r bytes q c
    r := r'
    out := out ++ s
    k := k + 1
  return (r, out ++ String.singleton q)

def pText (x : P) : String := String.ofList ((operators.find? (fun o => o.2 == x)).map (·.1) |>.getD ['?'])
def kText (w : K) : String := (keywords.find? (fun o => o.2 == w)).map (·.1) |>.getD "?"

def tokText (r : Rng) (t : Tok) : Rng × String :=
  match t with
  | .name s => (r, s)
  | .num v => numText r v
  | .str v => strText r v
  | .p x => (r, pText x)
  | .k w => (r, kText w)
  | _ => (r, "")

def wordlike : Tok → Bool
  | .name _ | .num _ | .k _ | .str _ => true
  | _ => false

def safePunct : Tok → Bool
  | .p .lpar | .p .rpar | .p .lsqb | .p .rsqb | .p .comma | .p .colon => true
  | _ => false

/-- may tokens `a b` be written without white space between them? -/
def glueOk (a b : Tok) : Bool :=
  match a, b with
  | .num _, .p .dot => false
  | .p .dot, .num _ => false
  | .p _, .p _ => safePunct a || safePunct b
  | _, _ => !(wordlike a && wordlike b)

/-- text of a token list; `style` 0 = single spaces, 1 = seeded free layout (glue, runs of blanks, tabs,
backslash continuation, and inside brackets: newlines and comments) -/
def toksText (r : Rng) (style : Nat) (ts : List Tok) : Rng × String := Id.run do
  let mut r := r
  let mut out := ""
  let mut prev : Option Tok := none
  let mut depth : Nat := 0
  for t in ts do
    let sep ← match prev with
      | none => pure ""
      | some a =>
        if style == 0 then pure " " else
        let (r', i) := r.nat 12
        r := r'
        pure (match i with
          | 0 | 1 | 2 | 3 => if glueOk a t then "" else " "
          | 4 => "  "
          | 5 => " \t"
          | 6 => " \\\n"
          | 7 => " \\\n   "
          | 8 => if depth > 0 then "\n" else " "
          | 9 => if depth > 0 then " # c ) ' \n\t " else " "
          | 10 => if depth > 0 then "\n\n    " else "   "
          | _ => " ")
    let (r', s) := tokText r t
    r := r'
    out := out ++ sep ++ s
    match t with
    | .p .lpar | .p .lsqb | .p .lbrace => depth := depth + 1
    | .p .rpar | .p .rsqb | .p .rbrace => depth := depth - 1
    | _ => pure ()
    prev := some t
  return (r, out)

def hashPath (seed : Nat) (p : List Nat) : Nat :=
  let h := p.foldl (fun h i => (h * 1000003 + i + 17) % 4294967311) (seed % 4294967311 + 99991)
  (h * 2654435761) % 4294967296 / 65536

def mkLayout (seed : Nat) (density : Nat) : Layout :=
  { extra := fun p => if density == 0 then 0 else
      let h := hashPath seed p
      if density ≥ 100 then 1 else if h % 100 < density then (if h % 7 == 0 then 2 else 1) else 0,
    trail := fun p => density != 0 && hashPath (seed + 1) p % 3 == 0 }

def exprCase (e : Expr) (ℓ : Layout) (r : Rng) (style : Nat) (tags : List String) (trailer : String := "") : Rng × Case :=
  let (r, text) := toksText r style (render ℓ e)
  let text := (text ++ trailer).toList
  (r, { input := "ev " ++ enc text, modelV := parseOutV (parseEvalString text), specV := sexp e, tags := tags })

/-! ### 4. exhaustive operator pairs / triples, all two-operator trees -/

def leaf (i : Nat) : Expr := .name (["a", "b", "c", "d", "e", "f", "g", "h"][i % 8]!)

def allBin : List BinOp := [.add, .sub, .mult, .div, .modulo, .pow, .lshift, .rshift, .bitor, .bitxor, .bitand, .floordiv]
def allCmp : List CmpOp := [.eq, .noteq, .lt, .lte, .gt, .gte, .is, .isnot, .in_, .notin]
def allUn : List UnOp := [.invert, .not, .uadd, .usub]

/-- infix binary constructors `x ∘ y` -/
def infixes : List (String × (Expr → Expr → Expr)) :=
  allBin.map (fun o => (o.name, fun l r => Expr.bin o l r)) ++
  [("Or", fun l r => .bool .or [l, r]), ("And", fun l r => .bool .and [l, r])] ++
  allCmp.map (fun o => (o.name, fun l r => Expr.cmp l [(o, r)]))

/-- one-hole contexts of every constructor position (other holes filled with distinct leaves) -/
def contexts : List (String × (Expr → Expr)) :=
  (infixes.flatMap fun (nf : String × (Expr → Expr → Expr)) =>
    [(nf.1 ++ ".l", fun (x : Expr) => nf.2 x (leaf 5)), (nf.1 ++ ".r", fun (x : Expr) => nf.2 (leaf 6) x)]) ++
  allUn.map (fun o => (o.name, fun x => Expr.un o x)) ++
  [("Or3.m", fun x => .bool .or [leaf 5, x, leaf 6]), ("And3.m", fun x => .bool .and [leaf 5, x, leaf 6]),
   ("Cmp2.m", fun x => .cmp (leaf 5) [(.lt, x), (.notin, leaf 6)]), ("Cmp2.l", fun x => .cmp x [(.isnot, leaf 5), (.eq, leaf 6)]),
   ("IfExp.body", fun x => .ifexp (leaf 5) x (leaf 6)), ("IfExp.test", fun x => .ifexp x (leaf 5) (leaf 6)), ("IfExp.else", fun x => .ifexp (leaf 5) (leaf 6) x),
   ("Lambda0", fun x => .lambda [] x), ("Lambda2", fun x => .lambda ["p", "q"] x),
   ("Call.f", fun x => .call x [leaf 5]), ("Call.f0", fun x => .call x []), ("Call.a", fun x => .call (leaf 5) [x]), ("Call.a2", fun x => .call (leaf 5) [leaf 6, x]),
   ("Sub.v", fun x => .sub x (leaf 5)), ("Sub.i", fun x => .sub (leaf 5) x), ("Attr", fun x => .attr x "m"),
   ("Tuple1", fun x => .tuple [x]), ("Tuple2", fun x => .tuple [x, leaf 5]), ("List1", fun x => .list [x]), ("List2", fun x => .list [leaf 5, x])]

def leaves : List Expr := [.name "x", .num (.int 42), .str (.s [104, 105]), .const .none, .ellipsis, .tuple [], .list [], .num (.float 15 (-1)), .str (.b [0, 255])]

def repOps (thorough : Bool) : List (Expr → Expr → Expr) :=
  [fun (l r : Expr) => Expr.bool .or [l, r], fun (l r : Expr) => Expr.bool .and [l, r], fun (l r : Expr) => Expr.cmp l [(.lt, r)],
   fun (l r : Expr) => Expr.cmp l [(.notin, r)], fun (l r : Expr) => Expr.bin .bitor l r, fun (l r : Expr) => Expr.bin .bitxor l r,
   fun (l r : Expr) => Expr.bin .bitand l r, fun (l r : Expr) => Expr.bin .rshift l r, fun (l r : Expr) => Expr.bin .sub l r,
   fun (l r : Expr) => Expr.bin .floordiv l r, fun (l r : Expr) => Expr.bin .pow l r] ++
  (if thorough then (allBin.map fun o => fun (l r : Expr) => Expr.bin o l r) else [])

def genPairs (seed : Nat) (thorough : Bool) : IO Unit := do
  let mut r : Rng := ⟨(seed + 1).toUInt64⟩
  let layouts := [mkLayout seed 0, mkLayout seed 100, mkLayout seed 30]
  -- all trees with one or two operator nodes
  for nc1 in contexts do
    let n1 : String := nc1.1
    let c1 : Expr → Expr := nc1.2
    for lf in leaves do
      let (r', c) := exprCase (c1 lf) (mkLayout seed 0) r 0 ["nt", "single", n1]
      r := r'; emit c
    for nc2 in contexts do
      let c2 : Expr → Expr := nc2.2
      let e := c1 (c2 (leaf 0))
      for (ℓ, li) in layouts.zipIdx do
        let (r', c) := exprCase e ℓ r (if li == 2 then 1 else 0) ["nt", "pair", if li == 0 then "minimal" else if li == 1 then "fullparen" else "seeded"]
        r := r'; emit c
  -- operator triples over one representative per precedence row (all five shapes)
  let reps := repOps thorough
  let a := leaf 0; let b := leaf 1; let c := leaf 2; let d := leaf 3
  for (f : Expr → Expr → Expr) in reps do
    for (g : Expr → Expr → Expr) in reps do
      for (h : Expr → Expr → Expr) in reps do
        for e in ([h (g (f a b) c) d, h (g a (f b c)) d, g (f a b) (h c d), f a (g (h b c) d), f a (g b (h c d))] : List Expr) do
          let (r', cs) := exprCase e (mkLayout seed 0) r 0 ["nt", "triple"]
          r := r'; emit cs
  -- unary interplay with power and the other rows
  for u in allUn do
    for v in allUn do
      for nf in infixes do
        let f : Expr → Expr → Expr := nf.2
        for e in ([Expr.un u (f a (.un v b)), f (.un u a) (.un v b), .un u (.un v (f a b)), f a (f (.un u b) c), f (f a (.un u b)) c] : List Expr) do
          let (r', cs) := exprCase e (mkLayout seed 0) r 0 ["nt", "unary"]
          r := r'; emit cs

/-! ### 5. seeded random trees × layouts -/

def pickName (r : Rng) : Rng × String :=
  r.pick #["a", "b", "x", "y", "foo", "_", "_1", "é", "λx", "中", "iff", "nota", "in_", "Is", "lambdax", "e1", "j", "rb", "R", "u", "None_", "x1y2"]

partial def randExpr (r : Rng) (depth : Nat) : Rng × Expr :=
  let (r, c) := r.nat (if depth == 0 then 6 else 22)
  let sub (r : Rng) := randExpr r (depth - 1)
  let subs (r : Rng) (lo hi : Nat) : Rng × List Expr := Id.run do
    let (r, n) := r.nat (hi - lo + 1)
    let mut r := r
    let mut out := []
    for _ in [0:lo + n] do
      let (r', e) := sub r
      r := r'
      out := e :: out
    return (r, out)
  match c with
  | 0 | 1 => let (r, s) := pickName r; (r, .name s)
  | 2 => let (r, nb) := r.nat 70; let (r, v) := r.bits (nb + 1); (r, .num (.int v))
  | 3 =>
    let (r, n) := r.nat 4
    let (r, k) := r.nat 3
    let cp (r : Rng) : Rng × Nat := let (r, i) := r.nat 12
      if i < 8 then let (r, c) := r.nat 95; (r, 32 + c) else if i == 8 then (r, 10) else if i == 9 then (r, 0)
      else if k == 0 then let (r, c) := r.nat 128; (r, 128 + c) else r.pick #[233, 955, 20013, 128512, 65535, 1114111, 57344]
    Id.run do
      let mut r := r
      let mut out := []
      for _ in [0:n] do
        let (r', c) := cp r
        r := r'
        out := c :: out
      return (r, .str (if k == 0 then .b out else .s out))
  | 4 => let (r, i) := r.nat 4; (r, [Expr.const .none, .const .true, .const .false, .ellipsis][i]!)
  | 5 => let (r, m) := r.nat 1000; let (r, e) := r.nat 9; (r, .num (if m % 10 == 0 then .float (m / 10 * 10 + 1) ((e : Int) - 4) else .float m ((e : Int) - 4)))
  | 6 | 7 | 8 => let (r, o) := r.pick allBin.toArray; let (r, a) := sub r; let (r, b) := sub r; (r, .bin o a b)
  | 9 => let (r, o) := r.pick allUn.toArray; let (r, a) := sub r; (r, .un o a)
  | 10 | 11 => let (r, o) := r.nat 2; let (r, vs) := subs r 2 4; (r, .bool (if o == 0 then .and else .or) vs)
  | 12 | 13 =>
    let (r, a) := sub r
    let (r, vs) := subs r 1 3
    Id.run do
      let mut r := r
      let mut out := []
      for v in vs do
        let (r', o) := r.pick allCmp.toArray
        r := r'
        out := (o, v) :: out
      return (r, .cmp a out)
  | 14 => let (r, a) := sub r; let (r, b) := sub r; let (r, c) := sub r; (r, .ifexp a b c)
  | 15 =>
    let (r, n) := r.nat 3
    let (r, b) := sub r
    (r, .lambda (["p", "q", "r"].take n) b)
  | 16 | 17 => let (r, f) := sub r; let (r, args) := subs r 0 3; (r, .call f args)
  | 18 => let (r, v) := sub r; let (r, i) := sub r; (r, .sub v i)
  | 19 => let (r, v) := sub r; let (r, s) := pickName r; (r, .attr v s)
  | 20 => let (r, es) := subs r 0 3; (r, .tuple es)
  | _ => let (r, es) := subs r 0 3; (r, .list es)

/-- float attribute access `1.5.real` is fine but `1 .real` needs care: avoid attributes directly on numbers -/
def numAttrFree : Expr → Bool
  | .attr (.num _) _ => false
  | _ => true

def genRandom (seed : Nat) (n : Nat) : IO Unit := do
  let mut r : Rng := ⟨(seed + 1000).toUInt64⟩
  for i in [0:n] do
    let (r1, d) := r.nat 4
    let (r2, e) := randExpr r1 (d + 1)
    r := r2
    for li in [0:8] do
      let ℓ := mkLayout (seed * 7919 + i * 8 + li) (if li == 0 then 0 else if li == 1 then 100 else 10 * li)
      let (r', c) := exprCase e ℓ r (if li < 2 then 0 else 1) ["nt", "random", s!"layout{li}"] (if li == 7 then "\n\n" else if li == 6 then "  # end" else "")
      r := r'; emit c

/-! ### 6. rejection: single-token deletions / insertions of valid expressions -/

def insertAlphabet : List Tok := [.p .rpar, .p .lpar, .p .comma, .p .plus, .k .not_, .name "z", .num (.int 1), .k .if_, .k .else_, .p .starstar,
  .p .dot, .k .or_, .p .rsqb, .p .lsqb, .p .less, .k .is_, .k .in_, .p .minus, .str (.s [122]), .k .lambda_, .p .tilde, .k .none_, .p .elipsis, .p .ltgt, .p .semi]

/-- `*x` / `**x` at the start of an argument, display element or lambda parameter list is legal Python outside the modelled fragment -/
def outsideFragment : List Tok → Bool
  | a :: b :: rest =>
    ((a == .p .lpar || a == .p .comma || a == .p .lsqb || a == .k .lambda_) && (b == .p .star || b == .p .starstar)) || outsideFragment (b :: rest)
  | _ => false

def mutCase (ts : List Tok) (tag : String) : Option Case :=
  if outsideFragment ts || ts.head? == some (.p .star) || ts.count (.k .lambda_) != ts.count (.p .colon) then none else
  let text := (toksText ⟨1⟩ 0 ts).2.toList
  let m := parseOutV (parseEvalString text)
  some { input := "ev " ++ enc text, modelV := m, specV := m, tags := ["nt", tag] }

def genMutations (seed : Nat) (n : Nat) : IO Unit := do
  let mut r : Rng := ⟨(seed + 5000).toUInt64⟩
  let mut bases : List Expr := []
  for nc1 in contexts do
    let c1 : Expr → Expr := nc1.2
    bases := c1 (.bin .add (leaf 0) (leaf 1)) :: bases
  for _ in [0:n] do
    let (r1, e) := randExpr r 2
    r := r1
    bases := e :: bases
  for e in bases do
    let ts := render (mkLayout seed 0) e
    for i in [0:ts.length] do
      match mutCase (ts.take i ++ ts.drop (i + 1)) "delete" with
      | some c => emit c
      | none => pure ()
    for i in [0:ts.length + 1] do
      let (r1, k) := r.nat insertAlphabet.length
      r := r1
      for t in [insertAlphabet[k]!, insertAlphabet[(k + 7) % insertAlphabet.length]!] do
        match mutCase (ts.take i ++ [t] ++ ts.drop i) "insert" with
        | some c => emit c
        | none => pure ()

/-! ### 7. indentation machine: block trees rendered with free indentation, blank lines, comments, brackets, continuation -/

inductive Blk
  | line (name : String)                 -- simple statement `name`
  | bracket (name : String)              -- `name(` … `)` spread over several physical lines
  | cont (name : String)                 -- `name + \` newline `name`
  | block (hdr : String) (body : List Blk)   -- `if hdr:` suite
  deriving Inhabited

partial def randBlk (r : Rng) (depth : Nat) : Rng × Blk :=
  let (r, c) := r.nat (if depth == 0 then 4 else 7)
  let (r, nm) := r.pick #["a", "b", "c", "x1"]
  match c with
  | 0 | 1 => (r, .line nm)
  | 2 => (r, .bracket nm)
  | 3 => (r, .cont nm)
  | _ => Id.run do
    let (r, n) := r.nat 3
    let mut r := r
    let mut out := []
    for _ in [0:n + 1] do
      let (r', b) := randBlk r (depth - 1)
      r := r'
      out := b :: out
    return (r, .block nm out)

/-- expected tokens and expected tree of a block list -/
partial def blkToks : Blk → List String
  | .line _ => ["NAME", "NEWLINE"]
  | .bracket _ => ["NAME", "(", "NAME", ",", "NAME", ")", "NEWLINE"]
  | .cont _ => ["NAME", "+", "NAME", "NEWLINE"]
  | .block _ body => ["if", "NAME", ":", "NEWLINE", "INDENT"] ++ body.flatMap blkToks ++ ["DEDENT"]

partial def blkSexp : Blk → String
  | .line n => s!"(ExprStmt (Name {n}))"
  | .bracket n => s!"(ExprStmt (Call (Name {n}) [(Name p) (Name q)] [] - -))"
  | .cont n => s!"(ExprStmt (BinOp (Name {n}) Add (Name {n})))"
  | .block h body => s!"(If (Name {h}) [{" ".intercalate (body.map blkSexp)}] [])"

/-- render with a seeded indentation unit per block (spaces, or tabs only, consistently), blank and comment lines -/
partial def blkText (r : Rng) (ind : String) (tabs : Bool) : Blk → Rng × String
  | .line n => noise r ind (ind ++ n ++ "\n")
  | .bracket n =>
    let (r, k) := r.nat 3
    let inner := ["", "        ", "\t"][k]!
    noise r ind (ind ++ n ++ "(\n" ++ inner ++ "p,\n\n  # c\n" ++ inner ++ inner ++ "q\n)\n")
  | .cont n => noise r ind (ind ++ n ++ " + \\\n" ++ n ++ "\n")
  | .block h body => Id.run do
    let (r, w) := r.nat 4
    let unit := if tabs then (if w == 0 then "\t\t" else "\t") else String.ofList (List.replicate (1 + 3 * w) ' ')
    let mut r := r
    let (r', hd) := noise r ind (ind ++ "if " ++ h ++ ":\n")
    r := r'
    let mut out := hd
    for b in body do
      let (r', s) := blkText r (ind ++ unit) tabs b
      r := r'
      out := out ++ s
    return (r, out)
where
  noise (r : Rng) (ind : String) (s : String) : Rng × String :=
    let (r, k) := r.nat 8
    (r, match k with
      | 0 => "\n" ++ s
      | 1 => "   \n" ++ s
      | 2 => "# comment\n" ++ s
      | 3 => ind ++ "      # deeper comment\n" ++ s
      | 4 => "\t\n" ++ s
      | _ => s)

def genIndent (seed : Nat) (n : Nat) : IO Unit := do
  let mut r : Rng := ⟨(seed + 9000).toUInt64⟩
  for i in [0:n] do
    let mut blks := []
    let (r0, nb) := r.nat 3
    r := r0
    for _ in [0:nb + 1] do
      let (r', b) := randBlk r 3
      r := r'
      blks := b :: blks
    let mut text := ""
    for b in blks do
      let (r', s) := blkText r "" (i % 3 == 0) b
      r := r'
      text := text ++ s
    -- drop the final newline in a third of the cases (exec mode adds it back)
    let chars := if i % 3 == 1 then text.toList.dropLast else text.toList
    let expToks := " ".intercalate (["FILE_INPUT"] ++ blks.flatMap blkToks ++ ["ENDMARKER"])
    emit { input := "lx exec " ++ enc chars, modelV := lexOutV (lexString chars .exec), specV := expToks, tags := ["nt", "indent"] }
    let tree := "[" ++ " ".intercalate (blks.map blkSexp) ++ "]"
    emit { input := "ex " ++ enc chars, modelV := tree, specV := tree, tags := ["nt", "indent-tree"] }

/-- indentation errors and mixtures: the Lean lexer is the reference for dedent-to-unknown-level; tab/space
mixtures that Python 3 rejects with TabError are the known finding C06-K04 -/
def genIndentEdges : IO Unit := do
  let lexc (mode : Mode) (ms : String) (t : String) (spec : Option String) (tags : List String) : IO Unit :=
    let m := lexOutV (lexString t.toList mode)
    emit { input := s!"lx {ms} " ++ enc t.toList, modelV := m, specV := spec.getD m, tags := ["nt"] ++ tags }
  for t in ["if a:\n    b\n  c\n", "if a:\n  b\n    c\n", " a\n", "if a:\nb\n", "if a:\n  if b:\n      c\n    d\n", "a\n  b\n", "(\n  a\n b)\n", "if a:\n  (b,\nc)\n  d\n",
            "a \\\n  b\n", "a \\", "a \\\n", "\\\na\n", "# only\n", "", "\n\n", "   \n", "a", "a # c", "if a:\n  b", "if a:\n  b\n\n", "if a:\n  b\n  # c\nd", "if a:\n\n\n  b\n",
            "if a:\r\n  b\r\n", "a\r\nb", ")\na\n  b\n", "a)\n  b\n", "(((\n", "]\n", "x = '''a\n  b\n'''\n", "if a:\n  '''x\ny'''\n  b\n", "'a\n", "'''a\n", "a = 'b\\\nc'\n",
            "if a:\n\tb\n\tc\n", "if a:\n\tb\n        c\n", "if a:\n        b\n\tc\n", "if a:\n  \tb\n\tc\n", "if a:\n\t  b\n          c\n", "\x0ca\n", "if a:\n  b\n\x0c\n  c\n",
            "a\x0cb\n", "a $ b\n", "a ? b\n", "a ! b\n", "a\n$", "0777\n", "1 = 2\n", "é = 1\n", "a\\b\n", "a \\ \nb\n"] do
    lexc .exec "exec" t none ["lexedge"]
    lexc .single "single" t none ["lexedge"]
    lexc .eval "eval" t none ["lexedge"]
  -- Python 3: inconsistent use of tabs and spaces (TabError); gpython compares 8-column tab stops only
  for t in ["if a:\n\tb\n        c\n", "if a:\n        b\n\tc\n", "if a:\n  if b:\n\tc\n        d\n"] do
    emit { input := "ac exec " ++ enc t.toList, modelV := (if (lexOutV (lexString t.toList .exec)).startsWith "E:" then "E:SyntaxError" else "ACCEPT"),
           specV := "E:SyntaxError", tags := ["nt", "illegal", "kf=C06-K04"] }

/-! ### 8. texts outside the grammar that gpython accepts (recorded known findings), and repaired ones -/

def genIllegal : IO Unit := do
  let acc (mode : String) (t : String) (model : String) (kf : Option String) : IO Unit :=
    emit { input := s!"ac {mode} " ++ enc t.toList, modelV := model, specV := "E:SyntaxError",
           tags := ["nt", "illegal"] ++ (match kf with | some k => ["kf=" ++ k] | none => []) }
  -- K01/K02/K03 (statement texts) were repaired (fixes cbae5b7, 787d2c3, 05ee8d3); their verdicts are now DERIVED by the Lean
  -- statement grammar (GPy.C06.Stmt, cases of StmtGen.stmtKnownTexts); only the eval-mode lambda stays here
  acc "eval" "lambda *: 0" "E:SyntaxError" none   -- was C06-K03; the Lean expression grammar has plain-name parameters only
  acc "eval" "f(a=1, b)" "E:SyntaxError" none   -- was known finding C06-K07, repaired by fix acb9962
  acc "eval" "f(**k, a)" "E:SyntaxError" none
  -- legal Python that gpython rejects: form feed is white space
  emit { input := "ac eval " ++ enc "a \x0c+ b".toList, modelV := "E:SyntaxError", specV := "ACCEPT", tags := ["nt", "legal", "kf=C06-K08"] }
  emit { input := "ac exec " ++ enc "\x0ca = 1\n".toList, modelV := "E:SyntaxError", specV := "ACCEPT", tags := ["nt", "legal", "kf=C06-K08"] }
  -- wrong trees (recorded): dotted decorator name, kw_defaults without the None placeholders
  emit { input := "ex " ++ enc "@a.b\ndef f(): pass\n".toList, modelV := "[(FunctionDef f (Arguments [] - [] [] - []) [(Pass)] [(Attribute (Name a) b)] -)]",   -- was C06-K09, repaired by fix d0f90d8
         specV := "[(FunctionDef f (Arguments [] - [] [] - []) [(Pass)] [(Attribute (Name a) b)] -)]", tags := ["nt", "tree"] }
  emit { input := "ev " ++ enc "lambda *, a, b=1: 0".toList, modelV := "(Lambda (Arguments [] - [(Arg a -) (Arg b -)] [- (Num 1)] - []) (Num 0))",   -- was C06-K10, repaired by fix 7a5ce26
         specV := "(Lambda (Arguments [] - [(Arg a -) (Arg b -)] [- (Num 1)] - []) (Num 0))", tags := ["nt", "tree"] }
  -- must be rejected (and are)
  for t in ["f() = 1\n", "1 = 1\n", "a + 1 = 2\n", "a, 1 = 2\n", "(a if b else c) = 1\n", "lambda: 1 = 2\n", "None = 1\n", "del f()\n", "del 1\n", "a += b += c\n", "f() += 1\n",
            "x = = 1\n", "if a\n  b\n", "if a:\nb\n", "else: pass\n", "def f(: pass\n", "def f(a b): pass\n", "class: pass\n", "for in x: pass\n", "while: pass\n", "import\n", "from a import\n",
            "a <> b\n", "a b\n", "return return\n", "x = (1,\n", "x = [1, 2\n", "x = {\n", "print 1\n", "a = 1 +\n", "a..b\n", "def f(a, a=): pass\n", "with: pass\n", "with a as: pass\n",
            "try: pass\nexcept as e: pass\n", "raise from b\n", "assert\n", "global\n", "nonlocal 1\n", "@\ndef f(): pass\n", "b'é'\n", "'\\x+1'\n", "'\\U00110000'\n", "'abc\n", "0777\n", "1__0\n", "$\n"] do
    acc "exec" t "E:SyntaxError" none

def genMain (tier : String) (seed : Nat) : IO Unit := do
  let thorough := tier == "thorough"
  genEscapes
  genLiterals
  genNumbers seed (if thorough then 20000 else 1500)
  genPairs seed thorough
  genRandom seed (if thorough then 40000 else 1800)
  genMutations seed (if thorough then 2500 else 150)
  genIndent seed (if thorough then 30000 else 1500)
  genIndentEdges
  genIllegal

end GPy.C06
