/-
C06: every legal Python 3.4 integer literal spelling (§2.4.4, `Spec.intLit`) denotes Python's value in the
lexer model (`readNumber`), and every spelling the grammar excludes because of a leading zero is rejected.
No length bounds.
-/
import GPy.C06.Spec
namespace GPy.C06

/-! ### 1. `List.span` on a list all of whose elements satisfy the predicate -/

theorem span_loop_all {p : Char → Bool} : ∀ (l acc : List Char), l.all p = true →
    List.span.loop p l acc = (acc.reverse ++ l, [])
  | [], acc, _ => by simp [List.span.loop]
  | c :: cs, acc, h => by
    simp only [List.all_cons, Bool.and_eq_true] at h
    rw [List.span.loop, h.1]
    simp only
    rw [span_loop_all cs (c :: acc) h.2]
    simp

theorem span_all {p : Char → Bool} (l : List Char) (h : l.all p = true) : l.span p = (l, []) := by
  unfold List.span; rw [span_loop_all l [] h]; rfl

/-! ### 2. digit values: the model's left fold is the big-endian positional value -/

theorem hexVal_getD_eq_digitOf (c : Char) : (hexVal c).getD 0 = Spec.digitOf c := by
  by_cases h1 : 48 ≤ c.toNat ∧ c.toNat ≤ 57
  · simp [hexVal, Spec.digitOf, h1]
  · by_cases h2 : 97 ≤ c.toNat ∧ c.toNat ≤ 102
    · simp [hexVal, Spec.digitOf, h1, h2]
    · by_cases h3 : 65 ≤ c.toNat ∧ c.toNat ≤ 70
      · simp [hexVal, Spec.digitOf, h1, h2, h3]
      · simp [hexVal, Spec.digitOf, h1, h2, h3]

theorem foldl_digits (base : Nat) : ∀ (ds : List Char) (acc : Nat),
    ds.foldl (fun acc c => acc * base + (hexVal c).getD 0) acc = acc * base ^ ds.length + Spec.valueBE base ds
  | [], acc => by simp [Spec.valueBE]
  | d :: ds, acc => by
    rw [List.foldl_cons, foldl_digits base ds, hexVal_getD_eq_digitOf]
    simp only [Spec.valueBE, List.length_cons, Nat.pow_succ, Nat.add_mul]
    rw [Nat.mul_assoc, Nat.mul_comm base, Nat.add_assoc]

/-- `digitsVal` is the positional value for EVERY digit string (both sides read a non-digit as 0) -/
theorem digitsVal_eq_valueBE (base : Nat) (ds : List Char) : digitsVal base ds = Spec.valueBE base ds := by
  unfold digitsVal; rw [foldl_digits]; simp

/-! ### 3. the pieces of `readNumber` on integer spellings -/

theorem isDecDigit_eq_isDigit : Spec.isDecDigit = isDigit := rfl
theorem isOctDigit_eq_isOct : Spec.isOctDigit = isOct := rfl

theorem isHexDigit_eq (c : Char) : Spec.isHexDigit c = (hexVal c).isSome := by
  by_cases h1 : 48 ≤ c.toNat ∧ c.toNat ≤ 57
  · simp [hexVal, Spec.isHexDigit, h1]
  · by_cases h2 : 97 ≤ c.toNat ∧ c.toNat ≤ 102
    · simp [hexVal, Spec.isHexDigit, h1, h2]
    · by_cases h3 : 65 ≤ c.toNat ∧ c.toNat ≤ 70
      · simp [hexVal, Spec.isHexDigit, h1, h2, h3]
      · simp [hexVal, Spec.isHexDigit, h1, h2, h3]
        omega

theorem isHexDigit_eq_fun : Spec.isHexDigit = (fun c => (hexVal c).isSome) := funext isHexDigit_eq

theorem isBin_eq_fun : (fun c : Char => decide (c = '0' ∨ c = '1')) = (fun c => c == '0' || c == '1') := by
  funext c
  by_cases h0 : c = '0' <;> by_cases h1 : c = '1' <;> simp [h0, h1]

theorem isEmpty_false_of_ne_nil {l : List Char} (h : l ≠ []) : l.isEmpty = false := by
  cases l with
  | nil => exact absurd rfl h
  | cons _ _ => rfl

/-- a prefixed spelling `0` `m` `ds` with `m` one of the marks and `ds` non-empty digits of the base -/
theorem matchPrefixed_hit (m : Char) (ds : List Char) (marks : List Char) (ok : Char → Bool) (base : Nat)
    (hm : marks.contains m = true) (hne : ds ≠ []) (hall : ds.all ok = true) :
    matchPrefixed ('0' :: m :: ds) marks ok base = some (.int (Spec.valueBE base ds), []) := by
  simp only [matchPrefixed, hm, if_true, span_all ds hall, isEmpty_false_of_ne_nil hne, Bool.false_eq_true,
    if_false, digitsVal_eq_valueBE]

theorem matchPrefixed_miss (m : Char) (ds : List Char) (marks : List Char) (ok : Char → Bool) (base : Nat)
    (hm : marks.contains m = false) :
    matchPrefixed ('0' :: m :: ds) marks ok base = none := by
  simp only [matchPrefixed, hm, Bool.false_eq_true, if_false]

/-- a line that is not `0 m …` is no prefixed integer -/
theorem matchPrefixed_shape (s : List Char) (marks : List Char) (ok : Char → Bool) (base : Nat)
    (h : ∀ m ds, s = '0' :: m :: ds → marks.contains m = false) :
    matchPrefixed s marks ok base = none := by
  unfold matchPrefixed
  split
  · next m r => simp only [h m r rfl, Bool.false_eq_true, if_false]
  · rfl

theorem isNum_of_digit (c : Char) (rest : List Char) (hc : isDigit c = true) :
    (match c :: rest with
      | c :: rest => isDigit c || (c == '.' && match rest with | d :: _ => isDigit d | [] => false)
      | [] => false) = true := by
  simp [hc]

theorem isDigit_zero : isDigit '0' = true := by decide

/-- the float regular expression does not match a string of decimal digits -/
theorem matchFloat_digits (s : List Char) (hall : s.all isDigit = true) : matchFloat s = none := by
  unfold matchFloat
  simp only [span_all s hall]
  have h1 : matchExp [] = none := rfl
  have h2 : matchPointFloat s [] = none := rfl
  simp [h1, h2]

/-- a digit is none of the base marks -/
theorem digit_not_mark (m : Char) (hm : isDigit m = true) :
    ['o', 'O'].contains m = false ∧ ['x', 'X'].contains m = false ∧ ['b', 'B'].contains m = false := by
  have h : 48 ≤ m.toNat ∧ m.toNat ≤ 57 := by
    simpa [isDigit] using hm
  have ne : ∀ k : Char, 57 < k.toNat → m ≠ k := by
    intro k hk e
    subst e; omega
  refine ⟨?_, ?_, ?_⟩ <;> simp <;> exact ⟨ne _ (by decide), ne _ (by decide)⟩

/-- `readNumber` on a non-empty string of decimal digits: the decimal-integer branch -/
theorem readNumber_digits (s : List Char) (hne : s ≠ []) (hall : s.all isDigit = true) :
    readNumber s =
      if (s.head? == some '0' && s.any (fun c => c != '0')) = true then .bad
      else .ok (.int (Spec.valueBE 10 s)) [] := by
  have hp : ∀ marks, (marks = ['o', 'O'] ∨ marks = ['x', 'X'] ∨ marks = ['b', 'B']) →
      ∀ ok base, matchPrefixed s marks ok base = none := by
    intro marks hmk ok base
    apply matchPrefixed_shape
    intro m ds e
    subst e
    have hm : isDigit m = true := by
      simp only [List.all_cons, Bool.and_eq_true] at hall
      exact hall.2.1
    obtain ⟨a, b, c⟩ := digit_not_mark m hm
    rcases hmk with rfl | rfl | rfl <;> assumption
  cases s with
  | nil => exact absurd rfl hne
  | cons c rest =>
    have hc : isDigit c = true := by
      simp only [List.all_cons, Bool.and_eq_true] at hall
      exact hall.1
    unfold readNumber
    simp only [hc, Bool.true_or, Bool.not_true, Bool.false_eq_true, if_false,
      hp _ (Or.inl rfl), hp _ (Or.inr (Or.inl rfl)), hp _ (Or.inr (Or.inr rfl)),
      matchFloat_digits _ hall, span_all _ hall, optJ, digitsVal_eq_valueBE]

theorem mark_contains (m a b : Char) (h : m = a ∨ m = b) : [a, b].contains m = true := by
  rcases h with rfl | rfl <;> simp

theorem mark_not_contains (m a b : Char) (h : ¬ (m = a ∨ m = b)) : [a, b].contains m = false := by
  simp only [not_or] at h
  simp [h.1, h.2]

/-- `readNumber` on a prefixed spelling, parametrised by which of the three alternatives fires -/
theorem readNumber_oct (m : Char) (ds : List Char) (hm : m = 'o' ∨ m = 'O') (hne : ds ≠ [])
    (hall : ds.all isOct = true) : readNumber ('0' :: m :: ds) = .ok (.int (Spec.valueBE 8 ds)) [] := by
  unfold readNumber
  simp only [isNum_of_digit '0' (m :: ds) isDigit_zero, Bool.not_true, Bool.false_eq_true, if_false,
    matchPrefixed_hit m ds _ _ _ (mark_contains m _ _ hm) hne hall]

theorem readNumber_hex (m : Char) (ds : List Char) (hm : m = 'x' ∨ m = 'X') (hne : ds ≠ [])
    (hall : ds.all (fun c => (hexVal c).isSome) = true) :
    readNumber ('0' :: m :: ds) = .ok (.int (Spec.valueBE 16 ds)) [] := by
  have ho : ['o', 'O'].contains m = false := by
    rcases hm with rfl | rfl <;> decide
  unfold readNumber
  simp only [isNum_of_digit '0' (m :: ds) isDigit_zero, Bool.not_true, Bool.false_eq_true, if_false,
    matchPrefixed_miss m ds _ _ _ ho,
    matchPrefixed_hit m ds _ _ _ (mark_contains m _ _ hm) hne hall]

theorem readNumber_bin (m : Char) (ds : List Char) (hm : m = 'b' ∨ m = 'B') (hne : ds ≠ [])
    (hall : ds.all (fun c => c == '0' || c == '1') = true) :
    readNumber ('0' :: m :: ds) = .ok (.int (Spec.valueBE 2 ds)) [] := by
  have ho : ['o', 'O'].contains m = false := by
    rcases hm with rfl | rfl <;> decide
  have hx : ['x', 'X'].contains m = false := by
    rcases hm with rfl | rfl <;> decide
  unfold readNumber
  simp only [isNum_of_digit '0' (m :: ds) isDigit_zero, Bool.not_true, Bool.false_eq_true, if_false,
    matchPrefixed_miss m ds _ _ _ ho, matchPrefixed_miss m ds _ _ _ hx,
    matchPrefixed_hit m ds _ _ _ (mark_contains m _ _ hm) hne hall]

/-! ### 4. all-zero digit strings -/

theorem valueBE_zeros (base : Nat) : ∀ (ds : List Char), ds.all (fun x => decide (x = '0')) = true →
    Spec.valueBE base ds = 0
  | [], _ => rfl
  | d :: ds, h => by
    simp only [List.all_cons, Bool.and_eq_true, decide_eq_true_eq] at h
    obtain ⟨rfl, h2⟩ := h
    have h2' : ds.all (fun x => decide (x = '0')) = true := by simpa using h2
    have : Spec.digitOf '0' = 0 := by decide
    rw [Spec.valueBE, valueBE_zeros base ds h2', this, Nat.zero_mul]

theorem any_ne_zero_eq (ds : List Char) :
    ds.any (fun c => c != '0') = !ds.all (fun x => decide (x = '0')) := by
  induction ds with
  | nil => rfl
  | cons d ds ih =>
    simp only [List.any_cons, List.all_cons, ih, Bool.not_and]
    by_cases h : d = '0' <;> simp [h]

theorem split_nonempty {ds : List Char} (h : (!ds.isEmpty && ds.all p) = true) : ds ≠ [] ∧ ds.all p = true := by
  simp only [Bool.and_eq_true, Bool.not_eq_true', List.isEmpty_eq_false_iff] at h
  exact h

/-! ### 5. the theorems -/

/-- every legal integer literal spelling is lexed as the integer Python says it denotes, consuming the
whole spelling -/
theorem intLit_value_readNumber (s : List Char) (n : Nat) (h : Spec.intLit s = .value n) :
    readNumber s = .ok (.int n) [] := by
  unfold Spec.intLit at h
  split at h
  · next m ds =>
    split at h
    · next hm =>
      split at h
      · next hd =>
        obtain ⟨hne, hall⟩ := split_nonempty hd
        rw [isHexDigit_eq_fun] at hall
        injection h with h; subst h
        exact readNumber_hex m ds hm hne hall
      · exact absurd h (by simp)
    · split at h
      · next hm =>
        split at h
        · next hd =>
          obtain ⟨hne, hall⟩ := split_nonempty hd
          injection h with h; subst h
          exact readNumber_oct m ds hm hne hall
        · exact absurd h (by simp)
      · split at h
        · next hm =>
          split at h
          · next hd =>
            obtain ⟨hne, hall⟩ := split_nonempty hd
            rw [isBin_eq_fun] at hall
            injection h with h; subst h
            exact readNumber_bin m ds hm hne hall
          · exact absurd h (by simp)
        · split at h
          · next hdec =>
            split at h
            · next hz =>
              injection h with h; subst h
              have hall : ('0' :: m :: ds).all isDigit = true := by
                rw [List.all_cons, isDigit_zero, Bool.true_and]; exact hdec
              have hz' : ('0' :: m :: ds).all (fun x => decide (x = '0')) = true := by
                rw [List.all_cons]; simpa using hz
              rw [readNumber_digits _ (by simp) hall, any_ne_zero_eq, hz', valueBE_zeros 10 _ hz']
              simp
            · exact absurd h (by simp)
          · exact absurd h (by simp)
  · next c ds hshape =>
    split at h
    · next hdec =>
      injection h with h; subst h
      rw [readNumber_digits _ (by simp) hdec]
      have : (((c :: ds).head? == some '0') && (c :: ds).any (fun c => c != '0')) = false := by
        by_cases hc : c = '0'
        · subst hc
          cases ds with
          | nil => rfl
          | cons m r => exact absurd rfl (hshape m r rfl)
        · simp [hc]
      simp only [this, Bool.false_eq_true, if_false]
    · exact absurd h (by simp)
  · exact absurd h (by simp)

/-- the spellings the grammar excludes (decimal digits with a leading zero, not all zero) are rejected
with the SyntaxError "illegal decimal with leading zero" -/
theorem intLit_illegal_readNumber (s : List Char) (h : Spec.intLit s = .illegal) : readNumber s = .bad := by
  unfold Spec.intLit at h
  split at h
  · next m ds =>
    split at h
    · split at h <;> exact absurd h (by simp)
    · split at h
      · split at h <;> exact absurd h (by simp)
      · split at h
        · split at h <;> exact absurd h (by simp)
        · split at h
          · next hdec =>
            split at h
            · exact absurd h (by simp)
            · next hz =>
              have hall : ('0' :: m :: ds).all isDigit = true := by
                rw [List.all_cons, isDigit_zero, Bool.true_and]; exact hdec
              have hz' : ('0' :: m :: ds).all (fun x => decide (x = '0')) = false := by
                rw [List.all_cons]; simpa using hz
              rw [readNumber_digits _ (by simp) hall, any_ne_zero_eq, hz']
              simp
          · exact absurd h (by simp)
  · split at h <;> exact absurd h (by simp)
  · exact absurd h (by simp)

/-- converse direction for the decimal branch: the lexer's `bad` verdict on a digit string happens only
on spellings the grammar excludes -/
theorem readNumber_bad_digits (s : List Char) (hne : s ≠ []) (hall : s.all isDigit = true)
    (hb : s.head? = some '0' ∧ s.any (fun c => c != '0') = true) : Spec.intLit s = .illegal := by
  obtain ⟨hh, ha⟩ := hb
  cases s with
  | nil => exact absurd rfl hne
  | cons c r =>
    simp only [List.head?_cons, Option.some.injEq] at hh
    subst hh
    cases r with
    | nil => simp at ha
    | cons m ds =>
      have hm : isDigit m = true := by
        simp only [List.all_cons, Bool.and_eq_true] at hall
        exact hall.2.1
      obtain ⟨ho, hx, hb⟩ := digit_not_mark m hm
      have hdec : (m :: ds).all Spec.isDecDigit = true := by
        rw [List.all_cons, isDigit_zero, Bool.true_and] at hall; exact hall
      have hz : ((m :: ds).all fun x => decide (x = '0')) = false := by
        cases hz : ((m :: ds).all fun x => decide (x = '0'))
        · rfl
        · exfalso
          rw [any_ne_zero_eq, List.all_cons, hz] at ha
          simp at ha
      have nx : ¬ (m = 'x' ∨ m = 'X') := by
        intro e; rw [mark_contains m _ _ e] at hx; exact absurd hx (by simp)
      have no : ¬ (m = 'o' ∨ m = 'O') := by
        intro e; rw [mark_contains m _ _ e] at ho; exact absurd ho (by simp)
      have nb : ¬ (m = 'b' ∨ m = 'B') := by
        intro e; rw [mark_contains m _ _ e] at hb; exact absurd hb (by simp)
      simp only [Spec.intLit, nx, no, nb, if_false, hdec, if_true, hz, Bool.false_eq_true]

/-! ### 6. non-vacuity -/

example : Spec.intLit "0x1F".toList = .value 31 := by decide
example : Spec.intLit "0XfF".toList = .value 255 := by decide
example : Spec.intLit "0xe1".toList = .value 225 := by decide
example : Spec.intLit "0o17".toList = .value 15 := by decide
example : Spec.intLit "0O7".toList = .value 7 := by decide
example : Spec.intLit "0b101".toList = .value 5 := by decide
example : Spec.intLit "0B1".toList = .value 1 := by decide
example : Spec.intLit "000".toList = .value 0 := by decide
example : Spec.intLit "0".toList = .value 0 := by decide
example : Spec.intLit "12345".toList = .value 12345 := by decide
example : Spec.intLit "0777".toList = .illegal := by decide
example : Spec.intLit "0009".toList = .illegal := by decide
example : Spec.intLit "0x".toList = .notInt := by decide
example : Spec.intLit "0o8".toList = .notInt := by decide
example : Spec.intLit "0b2".toList = .notInt := by decide
example : Spec.intLit "1e5".toList = .notInt := by decide

example : readNumber "0x1F".toList = .ok (.int 31) [] := intLit_value_readNumber _ _ (by decide)
example : readNumber "0o17".toList = .ok (.int 15) [] := intLit_value_readNumber _ _ (by decide)
example : readNumber "0b101".toList = .ok (.int 5) [] := intLit_value_readNumber _ _ (by decide)
example : readNumber "000".toList = .ok (.int 0) [] := intLit_value_readNumber _ _ (by decide)
example : readNumber "12345".toList = .ok (.int 12345) [] := intLit_value_readNumber _ _ (by decide)
example : readNumber "0777".toList = .bad := intLit_illegal_readNumber _ (by decide)

end GPy.C06
