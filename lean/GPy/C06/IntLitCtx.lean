/-
C06: integer literals IN CONTEXT.  A legal integer literal spelling followed by anything that cannot continue
a number or an identifier (end of line, operator, space, bracket, newline, …) is lexed by `readNumber` as
the single integer token Python says it denotes, leaving exactly the following text; the spellings excluded
for a leading zero are rejected in the same contexts.  No length bounds.
-/
import GPy.C06.IntLit
namespace GPy.C06

/-- a character that cannot continue a number or an identifier -/
def stopChar (c : Char) : Bool := !(isDigit c || isAsciiLetter c || c == '.' || c == '_')

/-- the text after the literal is empty or starts with a stop character -/
def StopHead (rest : List Char) : Prop := ∀ c r, rest = c :: r → stopChar c = true

/-! ### 1. what a stop character is not -/

theorem stop_facts (c : Char) (h : stopChar c = true) :
    ¬ (48 ≤ c.toNat ∧ c.toNat ≤ 57) ∧ ¬ (97 ≤ c.toNat ∧ c.toNat ≤ 122) ∧ ¬ (65 ≤ c.toNat ∧ c.toNat ≤ 90) ∧
      c ≠ '.' := by
  simp only [stopChar, isDigit, isAsciiLetter, Bool.not_eq_true', Bool.or_eq_false_iff, Bool.and_eq_false_iff,
    decide_eq_false_iff_not, beq_eq_false_iff_ne] at h
  obtain ⟨⟨⟨h1, h2, h3⟩, h4⟩, _⟩ := h
  refine ⟨?_, ?_, ?_, h4⟩ <;> omega

theorem stop_not_digit (c : Char) (h : stopChar c = true) : isDigit c = false := by
  have := (stop_facts c h).1
  simp only [isDigit, Bool.and_eq_false_iff, decide_eq_false_iff_not]
  omega

theorem stop_not_oct (c : Char) (h : stopChar c = true) : isOct c = false := by
  have := (stop_facts c h).1
  simp only [isOct, Bool.and_eq_false_iff, decide_eq_false_iff_not]
  omega

theorem stop_not_hex (c : Char) (h : stopChar c = true) : (hexVal c).isSome = false := by
  obtain ⟨h1, h2, h3, _⟩ := stop_facts c h
  have a1 : ¬ (48 ≤ c.toNat ∧ c.toNat ≤ 57) := h1
  have a2 : ¬ (97 ≤ c.toNat ∧ c.toNat ≤ 102) := by omega
  have a3 : ¬ (65 ≤ c.toNat ∧ c.toNat ≤ 70) := by omega
  simp [hexVal, a1, a2, a3]

theorem stop_ne_of_digit (c k : Char) (h : stopChar c = true) (hk : isDigit k = true) : c ≠ k := by
  intro e; subst e; rw [stop_not_digit c h] at hk; exact absurd hk (by simp)

theorem stop_ne_of_letter (c k : Char) (h : stopChar c = true) (hk : isAsciiLetter k = true) : c ≠ k := by
  intro e; subst e
  obtain ⟨_, h2, h3, _⟩ := stop_facts c h
  simp only [isAsciiLetter, Bool.or_eq_true, Bool.and_eq_true, decide_eq_true_eq] at hk
  omega

theorem stop_not_bin (c : Char) (h : stopChar c = true) : (c == '0' || c == '1') = false := by
  have h0 := stop_ne_of_digit c '0' h (by decide)
  have h1 := stop_ne_of_digit c '1' h (by decide)
  simp [h0, h1]

theorem stop_not_mark (c a b : Char) (h : stopChar c = true) (ha : isAsciiLetter a = true)
    (hb : isAsciiLetter b = true) : [a, b].contains c = false :=
  mark_not_contains c a b (by
    intro e
    rcases e with e | e
    · exact stop_ne_of_letter c a h ha e
    · exact stop_ne_of_letter c b h hb e)

/-! ### 2. `List.span` stops exactly at the end of the digits -/

theorem span_loop_ctx {p : Char → Bool} (rest : List Char) (hr : ∀ c r, rest = c :: r → p c = false) :
    ∀ (l acc : List Char), l.all p = true → List.span.loop p (l ++ rest) acc = (acc.reverse ++ l, rest)
  | [], acc, _ => by
    cases rest with
    | nil => simp [List.span.loop]
    | cons c r => simp [List.span.loop, hr c r rfl]
  | c :: cs, acc, h => by
    simp only [List.all_cons, Bool.and_eq_true] at h
    rw [List.cons_append, List.span.loop, h.1]
    simp only
    rw [span_loop_ctx rest hr cs (c :: acc) h.2]
    simp

theorem span_ctx {p : Char → Bool} (l rest : List Char) (h : l.all p = true)
    (hr : ∀ c r, rest = c :: r → p c = false) : (l ++ rest).span p = (l, rest) := by
  unfold List.span; rw [span_loop_ctx rest hr l [] h]; rfl

theorem StopHead.lift {rest : List Char} (hr : StopHead rest) {p : Char → Bool}
    (hp : ∀ c, stopChar c = true → p c = false) : ∀ c r, rest = c :: r → p c = false :=
  fun c r e => hp c (hr c r e)

/-! ### 3. the pieces of `readNumber` in context -/

theorem matchPrefixed_hit_ctx (m : Char) (ds rest : List Char) (marks : List Char) (ok : Char → Bool) (base : Nat)
    (hm : marks.contains m = true) (hne : ds ≠ []) (hall : ds.all ok = true)
    (hr : ∀ c r, rest = c :: r → ok c = false) :
    matchPrefixed ('0' :: m :: (ds ++ rest)) marks ok base = some (.int (Spec.valueBE base ds), rest) := by
  simp only [matchPrefixed, hm, if_true, span_ctx ds rest hall hr, isEmpty_false_of_ne_nil hne,
    Bool.false_eq_true, if_false, digitsVal_eq_valueBE]

theorem matchExp_stop (rest : List Char) (hr : StopHead rest) : matchExp rest = none := by
  cases rest with
  | nil => rfl
  | cons e r =>
    have hs := hr e r rfl
    have h1 : (e == 'e') = false := beq_eq_false_iff_ne.mpr (stop_ne_of_letter e 'e' hs (by decide))
    have h2 : (e == 'E') = false := beq_eq_false_iff_ne.mpr (stop_ne_of_letter e 'E' hs (by decide))
    simp only [matchExp, h1, h2, Bool.or_self, Bool.false_eq_true, if_false]

theorem matchPointFloat_stop (ip rest : List Char) (hr : StopHead rest) : matchPointFloat ip rest = none := by
  unfold matchPointFloat
  split
  · next r1 => exact absurd rfl (stop_facts '.' (hr '.' r1 rfl)).2.2.2
  · rfl

theorem optJ_stop (rest : List Char) (hr : StopHead rest) : optJ rest = (false, rest) := by
  unfold optJ
  split
  · next r => exact absurd rfl (stop_ne_of_letter 'j' 'j' (hr 'j' r rfl) (by decide))
  · next r => exact absurd rfl (stop_ne_of_letter 'J' 'J' (hr 'J' r rfl) (by decide))
  · rfl

/-- the float regular expression does not match decimal digits followed by a stop character -/
theorem matchFloat_digits_ctx (s rest : List Char) (hall : s.all isDigit = true) (hr : StopHead rest) :
    matchFloat (s ++ rest) = none := by
  unfold matchFloat
  simp only [span_ctx s rest hall (hr.lift stop_not_digit)]
  simp [matchExp_stop rest hr, matchPointFloat_stop s rest hr]

/-- the decimal branch of `readNumber`, from its ingredients -/
theorem readNumber_dec_core (c : Char) (l ds rest : List Char) (hc : isDigit c = true)
    (ho : matchPrefixed (c :: l) ['o', 'O'] isOct 8 = none)
    (hx : matchPrefixed (c :: l) ['x', 'X'] (fun c => (hexVal c).isSome) 16 = none)
    (hb : matchPrefixed (c :: l) ['b', 'B'] (fun c => c == '0' || c == '1') 2 = none)
    (hf : matchFloat (c :: l) = none) (hs : (c :: l).span isDigit = (ds, rest))
    (hj : optJ rest = (false, rest)) :
    readNumber (c :: l) =
      if (ds.head? == some '0' && ds.any (fun c => c != '0')) = true then .bad
      else .ok (.int (Spec.valueBE 10 ds)) rest := by
  unfold readNumber
  simp only [hc, Bool.true_or, Bool.not_true, Bool.false_eq_true, if_false, ho, hx, hb, hf, hs, hj,
    digitsVal_eq_valueBE]

/-- `readNumber` on a non-empty string of decimal digits followed by a stop character -/
theorem readNumber_digits_ctx (s rest : List Char) (hne : s ≠ []) (hall : s.all isDigit = true)
    (hr : StopHead rest) :
    readNumber (s ++ rest) =
      if (s.head? == some '0' && s.any (fun c => c != '0')) = true then .bad
      else .ok (.int (Spec.valueBE 10 s)) rest := by
  have hp : ∀ a b, isAsciiLetter a = true → isAsciiLetter b = true →
      ([a, b] = ['o', 'O'] ∨ [a, b] = ['x', 'X'] ∨ [a, b] = ['b', 'B']) →
      ∀ ok base, matchPrefixed (s ++ rest) [a, b] ok base = none := by
    intro a b hla hlb hmk ok base
    apply matchPrefixed_shape
    intro m ds e
    -- `m` is the second character of `s ++ rest`: a digit of `s`, or the stop character heading `rest`
    cases s with
    | nil => exact absurd rfl hne
    | cons c t =>
      cases t with
      | nil =>
        have e' : rest = m :: ds := by
          simp only [List.cons_append, List.nil_append, List.cons.injEq] at e
          exact e.2
        exact stop_not_mark m a b (hr m ds e') hla hlb
      | cons m' t' =>
        have em : m' = m := by
          simp only [List.cons_append, List.cons.injEq] at e
          exact e.2.1
        subst em
        have hm : isDigit m' = true := by
          simp only [List.all_cons, Bool.and_eq_true] at hall
          exact hall.2.1
        obtain ⟨x, y, z⟩ := digit_not_mark m' hm
        rcases hmk with h | h | h <;> rw [h] <;> assumption
  cases s with
  | nil => exact absurd rfl hne
  | cons c t =>
    have hc : isDigit c = true := by
      simp only [List.all_cons, Bool.and_eq_true] at hall
      exact hall.1
    exact readNumber_dec_core c (t ++ rest) (c :: t) rest hc
      (hp _ _ (by decide) (by decide) (Or.inl rfl) _ _)
      (hp _ _ (by decide) (by decide) (Or.inr (Or.inl rfl)) _ _)
      (hp _ _ (by decide) (by decide) (Or.inr (Or.inr rfl)) _ _)
      (matchFloat_digits_ctx _ rest hall hr)
      (span_ctx _ rest hall (hr.lift stop_not_digit))
      (optJ_stop rest hr)

theorem readNumber_oct_ctx (m : Char) (ds rest : List Char) (hm : m = 'o' ∨ m = 'O') (hne : ds ≠ [])
    (hall : ds.all isOct = true) (hr : StopHead rest) :
    readNumber ('0' :: m :: (ds ++ rest)) = .ok (.int (Spec.valueBE 8 ds)) rest := by
  unfold readNumber
  simp only [isDigit_zero, Bool.true_or, Bool.not_true, Bool.false_eq_true, if_false,
    matchPrefixed_hit_ctx m ds rest _ _ _ (mark_contains m _ _ hm) hne hall (hr.lift stop_not_oct)]

theorem readNumber_hex_ctx (m : Char) (ds rest : List Char) (hm : m = 'x' ∨ m = 'X') (hne : ds ≠ [])
    (hall : ds.all (fun c => (hexVal c).isSome) = true) (hr : StopHead rest) :
    readNumber ('0' :: m :: (ds ++ rest)) = .ok (.int (Spec.valueBE 16 ds)) rest := by
  have ho : ['o', 'O'].contains m = false := by
    rcases hm with rfl | rfl <;> decide
  unfold readNumber
  simp only [isDigit_zero, Bool.true_or, Bool.not_true, Bool.false_eq_true, if_false,
    matchPrefixed_miss m (ds ++ rest) _ _ _ ho,
    matchPrefixed_hit_ctx m ds rest _ _ _ (mark_contains m _ _ hm) hne hall (hr.lift stop_not_hex)]

theorem readNumber_bin_ctx (m : Char) (ds rest : List Char) (hm : m = 'b' ∨ m = 'B') (hne : ds ≠ [])
    (hall : ds.all (fun c => c == '0' || c == '1') = true) (hr : StopHead rest) :
    readNumber ('0' :: m :: (ds ++ rest)) = .ok (.int (Spec.valueBE 2 ds)) rest := by
  have ho : ['o', 'O'].contains m = false := by
    rcases hm with rfl | rfl <;> decide
  have hx : ['x', 'X'].contains m = false := by
    rcases hm with rfl | rfl <;> decide
  unfold readNumber
  simp only [isDigit_zero, Bool.true_or, Bool.not_true, Bool.false_eq_true, if_false,
    matchPrefixed_miss m (ds ++ rest) _ _ _ ho, matchPrefixed_miss m (ds ++ rest) _ _ _ hx,
    matchPrefixed_hit_ctx m ds rest _ _ _ (mark_contains m _ _ hm) hne hall (hr.lift stop_not_bin)]

/-! ### 4. the theorems -/

/-- a legal integer literal followed by end of line or a stop character is lexed as the single integer
token Python says it denotes, and exactly the following text is left -/
theorem intLit_value_readNumber_ctx (s rest : List Char) (n : Nat) (h : Spec.intLit s = .value n)
    (hr : ∀ c r, rest = c :: r → stopChar c = true) : readNumber (s ++ rest) = .ok (.int n) rest := by
  have hr' : StopHead rest := hr
  unfold Spec.intLit at h
  split at h
  · next m ds =>
    split at h
    · next hm =>
      split at h
      · next hd =>
        obtain ⟨hne, hall⟩ := split_nonempty hd
        rw [isHexDigit_eq_fun] at hall
        injection h with h; subst h
        exact readNumber_hex_ctx m ds rest hm hne hall hr'
      · exact absurd h (by simp)
    · split at h
      · next hm =>
        split at h
        · next hd =>
          obtain ⟨hne, hall⟩ := split_nonempty hd
          injection h with h; subst h
          exact readNumber_oct_ctx m ds rest hm hne hall hr'
        · exact absurd h (by simp)
      · split at h
        · next hm =>
          split at h
          · next hd =>
            obtain ⟨hne, hall⟩ := split_nonempty hd
            rw [isBin_eq_fun] at hall
            injection h with h; subst h
            exact readNumber_bin_ctx m ds rest hm hne hall hr'
          · exact absurd h (by simp)
        · split at h
          · next hdec =>
            split at h
            · next hz =>
              injection h with h; subst h
              have hall : ('0' :: m :: ds).all isDigit = true := by
                rw [List.all_cons, isDigit_zero, Bool.true_and]; exact hdec
              have hz' : ('0' :: m :: ds).all (fun x => decide (x = '0')) = true := by
                rw [List.all_cons]; simpa using hz
              rw [readNumber_digits_ctx _ rest (by simp) hall hr', any_ne_zero_eq, hz',
                valueBE_zeros 10 _ hz']
              simp
            · exact absurd h (by simp)
          · exact absurd h (by simp)
  · next c ds hshape =>
    split at h
    · next hdec =>
      injection h with h; subst h
      rw [readNumber_digits_ctx _ rest (by simp) hdec hr']
      have : (((c :: ds).head? == some '0') && (c :: ds).any (fun c => c != '0')) = false := by
        by_cases hc : c = '0'
        · subst hc
          cases ds with
          | nil => rfl
          | cons m r => exact absurd rfl (hshape m r rfl)
        · simp [hc]
      simp only [this, Bool.false_eq_true, if_false]
    · exact absurd h (by simp)
  · exact absurd h (by simp)

/-- the spellings the grammar excludes (decimal digits with a leading zero, not all zero) are rejected
in the same contexts -/
theorem intLit_illegal_readNumber_ctx (s rest : List Char) (h : Spec.intLit s = .illegal)
    (hr : ∀ c r, rest = c :: r → stopChar c = true) : readNumber (s ++ rest) = .bad := by
  have hr' : StopHead rest := hr
  unfold Spec.intLit at h
  split at h
  · next m ds =>
    split at h
    · split at h <;> exact absurd h (by simp)
    · split at h
      · split at h <;> exact absurd h (by simp)
      · split at h
        · split at h <;> exact absurd h (by simp)
        · split at h
          · next hdec =>
            split at h
            · exact absurd h (by simp)
            · next hz =>
              have hall : ('0' :: m :: ds).all isDigit = true := by
                rw [List.all_cons, isDigit_zero, Bool.true_and]; exact hdec
              have hz' : ('0' :: m :: ds).all (fun x => decide (x = '0')) = false := by
                rw [List.all_cons]; simpa using hz
              rw [readNumber_digits_ctx _ rest (by simp) hall hr', any_ne_zero_eq, hz']
              simp
          · exact absurd h (by simp)
  · split at h <;> exact absurd h (by simp)
  · exact absurd h (by simp)

/-! ### 5. non-vacuity -/

theorem stopHead_nil : ∀ c r, ([] : List Char) = c :: r → stopChar c = true := by
  intro c r e; exact absurd e (by simp)

theorem stopHead_cons (c : Char) (r : List Char) (h : stopChar c = true) :
    ∀ c' r', c :: r = c' :: r' → stopChar c' = true := by
  intro c' r' e
  injection e with e1 _
  subst e1; exact h

example : stopChar '+' = true ∧ stopChar ')' = true ∧ stopChar ' ' = true ∧ stopChar ']' = true ∧
    stopChar '\n' = true ∧ stopChar ',' = true ∧ stopChar ':' = true ∧ stopChar '#' = true := by decide
example : stopChar '.' = false ∧ stopChar 'e' = false ∧ stopChar 'j' = false ∧ stopChar '9' = false ∧
    stopChar '_' = false := by decide

example : readNumber "0x1F+2".toList = .ok (.int 31) "+2".toList :=
  intLit_value_readNumber_ctx "0x1F".toList "+2".toList 31 (by decide) (stopHead_cons _ _ (by decide))
example : readNumber "12)".toList = .ok (.int 12) ")".toList :=
  intLit_value_readNumber_ctx "12".toList ")".toList 12 (by decide) (stopHead_cons _ _ (by decide))
example : readNumber "000 ".toList = .ok (.int 0) " ".toList :=
  intLit_value_readNumber_ctx "000".toList " ".toList 0 (by decide) (stopHead_cons _ _ (by decide))
example : readNumber "0o17 if x".toList = .ok (.int 15) " if x".toList :=
  intLit_value_readNumber_ctx "0o17".toList " if x".toList 15 (by decide) (stopHead_cons _ _ (by decide))
example : readNumber "0b101".toList = .ok (.int 5) [] :=
  intLit_value_readNumber_ctx "0b101".toList [] 5 (by decide) stopHead_nil
example : readNumber "0777]".toList = .bad :=
  intLit_illegal_readNumber_ctx "0777".toList "]".toList (by decide) (stopHead_cons _ _ (by decide))

/-- the context-free statements of `IntLit.lean` are the `rest = []` instances -/
example (s : List Char) (n : Nat) (h : Spec.intLit s = .value n) : readNumber s = .ok (.int n) [] := by
  have := intLit_value_readNumber_ctx s [] n h stopHead_nil
  rwa [List.append_nil] at this

end GPy.C06
