/-
C06 list layer (round ext2): theorems about the comma-separated lists of the enlarged grammar.

* `listLoop_roundtrip`: the generic loop `(',' item)* [',']` that EVERY list of `X.lean` is parsed with
  (displays, subscript lists, dict items, testlist / exprlist / testlist_star_expr) returns exactly the
  rendered items and the trailing-comma flag, for every item parser that round-trips on the items, any
  number of items, with and without trailing comma, in front of every continuation that neither is a
  comma nor starts an item.
* the semantic actions that read the flag (`tupleOrExpr`, `subscriptList` + `trailerSlice`) classified:
  where the flag is irrelevant and where it changes the tree, and into which tree.
Core Lean only.
-/
import GPy.C06.X
namespace GPy.C06.X
open GPy.C06

/-- tokens of `(',' item)*` followed by the optional trailing comma -/
def renderMore {α : Type} (rItem : α → List Tok) : List α → Bool → List Tok
  | [], tc => if tc then [.p .comma] else []
  | a :: as, tc => .p .comma :: (rItem a ++ renderMore rItem as tc)

/-- tokens of `item (',' item)* [',']` -/
def renderList {α : Type} (rItem : α → List Tok) (a : α) (as : List α) (tc : Bool) : List Tok :=
  rItem a ++ renderMore rItem as tc

theorem listLoop_no_comma {α : Type} (item : List Tok → R α) (starts : List Tok → Bool) (f : Nat) (ts : List Tok)
    (h : ∀ r, ts ≠ .p .comma :: r) : listLoop item starts (f + 1) ts = some ([], false, ts) := by
  unfold listLoop
  split
  · rename_i r; exact absurd rfl (h r)
  · rfl

theorem listLoop_trailing {α : Type} (item : List Tok → R α) (starts : List Tok → Bool) (f : Nat) (rest : List Tok)
    (h : starts rest = false) : listLoop item starts (f + 1) (.p .comma :: rest) = some ([], true, rest) := by
  simp [listLoop, h]

/-- the generic list loop returns the rendered items and the trailing-comma flag -/
theorem listLoop_roundtrip {α : Type} (item : List Tok → R α) (starts : List Tok → Bool) (rItem : α → List Tok)
    (Stop : List Tok → Prop) (hcomma : ∀ r, Stop (.p .comma :: r)) :
    ∀ (as : List α) (tc : Bool) (rest : List Tok) (f : Nat),
      (∀ a ∈ as, ∀ r, Stop r → item (rItem a ++ r) = some (a, r)) →
      (∀ a ∈ as, ∀ r, starts (rItem a ++ r) = true) →
      Stop rest → starts rest = false → (∀ r, rest ≠ .p .comma :: r) → as.length + 1 ≤ f →
      listLoop item starts f (renderMore rItem as tc ++ rest) = some (as, tc, rest) := by
  intro as
  induction as with
  | nil =>
    intro tc rest f _ _ _ hs hnc hf
    obtain ⟨f', rfl⟩ : ∃ f', f = f' + 1 := ⟨f - 1, by simp at hf; omega⟩
    cases tc with
    | false => simpa [renderMore] using listLoop_no_comma item starts f' rest hnc
    | true => simpa [renderMore] using listLoop_trailing item starts f' rest hs
  | cons a as ih =>
    intro tc rest f hitem hstart hstop hs hnc hf
    obtain ⟨f', rfl⟩ : ∃ f', f = f' + 1 := ⟨f - 1, by simp at hf; omega⟩
    have hcont : Stop (renderMore rItem as tc ++ rest) := by
      cases as with
      | nil => cases tc with
        | false => simpa [renderMore] using hstop
        | true => simpa [renderMore] using hcomma rest
      | cons b bs => simpa [renderMore] using hcomma _
    have h1 := hitem a (List.mem_cons_self ..) _ hcont
    have h2 := hstart a (List.mem_cons_self ..) (renderMore rItem as tc ++ rest)
    have h3 := ih tc rest f' (fun b hb => hitem b (List.mem_cons_of_mem _ hb)) (fun b hb => hstart b (List.mem_cons_of_mem _ hb))
      hstop hs hnc (by simp at hf ⊢; omega)
    simp only [renderMore, List.cons_append, List.append_assoc, listLoop, h2, if_true, h1, h3]

/-! ### the actions that read the trailing-comma flag -/

/-- testlist / exprlist / testlist_star_expr / parenthesised tuple: the comma matters exactly for ONE item -/
theorem tupleOrExpr_comma_irrelevant (es : List XE) (h : es.length ≠ 1) : tupleOrExpr es true = tupleOrExpr es false := by
  match es, h with
  | [], _ => rfl
  | _ :: _ :: _, _ => rfl

theorem tupleOrExpr_comma_significant (e : XE) : tupleOrExpr [e] false = e ∧ tupleOrExpr [e] true = .tuple [e] := ⟨rfl, rfl⟩

/-- the slice a subscript list denotes (actions of `subscripts`, `subscriptlist` and `trailer`) -/
def subscriptOf (items : List XSlice) (tc : Bool) : XSlice := trailerSlice (subscriptList items tc)

/-- two or more subscripts: the trailing comma is irrelevant -/
theorem subscript_comma_irrelevant (a b : XSlice) (rest : List XSlice) :
    subscriptOf (a :: b :: rest) true = subscriptOf (a :: b :: rest) false := rfl

/-- `x[a,]` is Index(Tuple [a]), `x[a]` is Index(a) -/
theorem subscript_comma_index (e : XE) :
    subscriptOf [.index e] false = .index e ∧ subscriptOf [.index e] true = .index (.tuple [e]) := ⟨rfl, rfl⟩

/-- `x[a:b,]` is ExtSlice [Slice], `x[a:b]` is the Slice (the seeded defect C06-b is the negation of this) -/
theorem subscript_comma_slice (lo up st : Option XE) :
    subscriptOf [.slice lo up st] false = .slice lo up st ∧ subscriptOf [.slice lo up st] true = .ext [.slice lo up st] := ⟨rfl, rfl⟩

/-- a subscript list with a Slice among ≥ 2 items is the ExtSlice of exactly the items -/
theorem subscript_ext (a b : XSlice) (rest : List XSlice) (tc : Bool) (h : allIndex (a :: b :: rest) = none) :
    subscriptOf (a :: b :: rest) tc = .ext (a :: b :: rest) := by
  cases tc <;> simp [subscriptOf, subscriptList, trailerSlice, h]

/-- all items plain: Index of the Tuple of the values -/
theorem subscript_all_index (a b : XSlice) (rest : List XSlice) (tc : Bool) (es : List XE) (h : allIndex (a :: b :: rest) = some es) :
    subscriptOf (a :: b :: rest) tc = .index (.tuple es) := by
  cases tc <;> simp [subscriptOf, subscriptList, trailerSlice, h]

/-! ### instance: lists of NAMEs (global / nonlocal / plain parameter lists) – the hypotheses are satisfiable -/

def nameItem : List Tok → R String
  | .name s :: r => some (s, r)
  | _ => none

def startsName : List Tok → Bool
  | .name _ :: _ => true
  | _ => false

theorem names_roundtrip (ns : List String) (tc : Bool) (rest : List Tok) (hs : startsName rest = false)
    (hnc : ∀ r, rest ≠ .p .comma :: r) :
    listLoop nameItem startsName (ns.length + 1) (renderMore (fun s => [Tok.name s]) ns tc ++ rest) = some (ns, tc, rest) :=
  listLoop_roundtrip nameItem startsName (fun s => [Tok.name s]) (fun _ => True) (fun _ => trivial) ns tc rest _
    (fun _ _ _ _ => rfl) (fun _ _ _ => rfl) trivial hs hnc (Nat.le_refl _)

end GPy.C06.X
