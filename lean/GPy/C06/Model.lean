/-
C06 model: executable transliteration of
  * parser/stringescape.go  DecodeEscape                 (section 1)
  * parser/lexer.go         refill, countIndent, Lex state machine, readNumber,
                            readString, readIdentifierOrKeyword, readOperator  (sections 2-4)
  * parser/grammar.y        the expression cascade test … power, trailers, atoms,
                            strings, tupleOrExpr, eval_input                   (section 5)
Core Lean only.  The source text is a `List Char` (what `bytes.Runes` / `range string`
see); Go byte indexing is only used by the lexer against ASCII characters, where it coincides.
Line/column positions and error *messages* are not modelled.
-/
import GPy.C06.Generated
namespace GPy.C06

/-! ## 1. DecodeEscape -/

/-- what DecodeEscape appends to `out`: `WriteRune(n)` or `WriteByte(n)` -/
inductive Piece
  | r (n : Nat)
  | b (n : Nat)
  deriving DecidableEq, Repr

def isOct (c : Char) : Bool := 48 ≤ c.toNat && c.toNat ≤ 55

def hexVal (c : Char) : Option Nat :=
  let n := c.toNat
  if 48 ≤ n && n ≤ 57 then some (n - 48)
  else if 97 ≤ n && n ≤ 102 then some (n - 87)
  else if 65 ≤ n && n ≤ 70 then some (n - 55)
  else none

/-- `strconv.ParseUint(s, 16, 32)` on at most 8 characters: fails on "" and on any non-hex-digit (signs included) -/
def parseHexAux : List Char → Nat → Option Nat
  | [], acc => some acc
  | c :: cs, acc => match hexVal c with
    | some d => parseHexAux cs (acc * 16 + d)
    | none => none

def parseHex (cs : List Char) : Option Nat :=
  if cs.isEmpty then none else parseHexAux cs 0

/-- the closure `decodeHex(what, i, size)`: `tail` = runes[i+1:] -/
def decodeHex (bm : Bool) (size : Nat) (tail : List Char) : Except Unit Piece :=
  if size ≤ tail.length then
    match parseHex (tail.take size) with
    | none => .error ()                       -- invalid \x escape
    | some cout =>
      if cout > 0x10FFFF then .error ()       -- illegal Unicode character (fix 1526feb)
      else if bm then .ok (.b (cout % 256)) else .ok (.r cout)
  else .error ()                              -- truncated escape

/-- the main loop of DecodeEscape; the argument list is `runes[i:]`.  `fuel ≥ length` always suffices. -/
def decodeGo (bm : Bool) : Nat → List Char → Except Unit (List Piece)
  | 0, _ => .ok []
  | _ + 1, [] => .ok []
  | n + 1, c :: rest =>
    if c != '\\' then (decodeGo bm n rest).map (Piece.r c.toNat :: ·)
    else match rest with
      | [] => .error ()                       -- Trailing \ in string
      | e :: tl =>
        let emit (p : Piece) (l : List Char) := (decodeGo bm n l).map (p :: ·)
        -- `ignoreEscape`: i--, out.WriteRune('\\'): the character after the backslash is scanned again
        let ignore := (decodeGo bm n (e :: tl)).map (Piece.r 92 :: ·)
        if e == '\n' then decodeGo bm n tl
        else if e == '\\' then emit (.r 92) tl
        else if e == '\'' then emit (.r 39) tl
        else if e == '"' then emit (.r 34) tl
        else if e == 'b' then emit (.r 8) tl
        else if e == 'f' then emit (.r 12) tl
        else if e == 't' then emit (.r 9) tl
        else if e == 'n' then emit (.r 10) tl
        else if e == 'r' then emit (.r 13) tl
        else if e == 'v' then emit (.r 11) tl
        else if e == 'a' then emit (.r 7) tl
        else if isOct e then
          let cout := e.toNat - 48
          let fin (v : Nat) (l : List Char) := if bm then emit (.b (v % 256)) l else emit (.r v) l
          match tl with
          | d1 :: t1 =>
            if isOct d1 then
              let cout := cout * 8 + (d1.toNat - 48)
              match t1 with
              | d2 :: t2 => if isOct d2 then fin (cout * 8 + (d2.toNat - 48)) t2 else fin cout t1
              | [] => fin cout t1
            else fin cout tl
          | [] => fin cout tl
        else if e == 'x' then
          match decodeHex bm 2 tl with
          | .error _ => .error ()
          | .ok p => emit p (tl.drop 2)
        else if e == 'u' then
          if bm then ignore else
          match decodeHex bm 4 tl with
          | .error _ => .error ()
          | .ok p => emit p (tl.drop 4)
        else if e == 'U' then
          if bm then ignore else
          match decodeHex bm 8 tl with
          | .error _ => .error ()
          | .ok p => emit p (tl.drop 8)
        else ignore                            -- 'N' (not implemented) and every other character

/-- DecodeEscape(in, byteMode) -/
def decodeEscape (runes : List Char) (bm : Bool) : Except Unit (List Piece) :=
  if !runes.contains '\\' then .ok (runes.map (fun c => Piece.r c.toNat))   -- early exit: `in` returned unchanged
  else decodeGo bm runes.length runes

/-- `utf8.EncodeRune` -/
def utf8Enc (n : Nat) : List Nat :=
  if n < 0x80 then [n]
  else if n < 0x800 then [0xC0 + n / 64, 0x80 + n % 64]
  else if n < 0x10000 then [0xE0 + n / 4096, 0x80 + n / 64 % 64, 0x80 + n % 64]
  else [0xF0 + n / 262144, 0x80 + n / 4096 % 64, 0x80 + n / 64 % 64, 0x80 + n % 64]

/-- `bytes.Buffer.WriteRune` writes U+FFFD for surrogates and out-of-range values -/
def goRune (n : Nat) : Nat := if (0xD800 ≤ n && n ≤ 0xDFFF) || n > 0x10FFFF then 0xFFFD else n

def Piece.rune : Piece → Nat
  | .r n => goRune n
  | .b n => n
def Piece.bytes : Piece → List Nat
  | .r n => utf8Enc (goRune n)
  | .b n => [n]

/-- tail of `readString` (after `foundEndOfString`): value of a literal with body `body` -/
def strValue (raw bytes : Bool) (body : List Char) : Except Unit StrVal :=
  if bytes && body.any (fun c => c.toNat ≥ 128) then .error ()     -- fix 6ca8aa7
  else
    match (if raw then .ok (body.map (fun c => Piece.r c.toNat)) else decodeEscape body bytes) with
    | .error _ => .error ()                                           -- "Decode error"
    | .ok ps => .ok (if bytes then .b (ps.flatMap Piece.bytes) else .s (ps.map Piece.rune))

/-! ## 2. lexer helpers -/

def isDigit (c : Char) : Bool := 48 ≤ c.toNat && c.toNat ≤ 57
def isAsciiLetter (c : Char) : Bool := (97 ≤ c.toNat && c.toNat ≤ 122) || (65 ≤ c.toNat && c.toNat ≤ 90)

/-- non-ASCII letters (`unicode.In(c, Lu, Ll, Lt, Lm, Lo, Nl)`): the Unicode tables are not modelled;
only these sample code points are known to the model (é λ 中) and the generator uses no others. -/
def naStart : List Nat := [0xE9, 0x3BB, 0x4E2D]
/-- additional continue-only samples (Mn U+0301, Nd U+0661) -/
def naCont : List Nat := [0x301, 0x661]

def isIdentifierStart (c : Char) : Bool :=
  isAsciiLetter c || c == '_' || (c.toNat ≥ 128 && naStart.contains c.toNat)
def isIdentifierChar (c : Char) : Bool :=
  isAsciiLetter c || isDigit c || c == '_' || (c.toNat ≥ 128 && (naStart.contains c.toNat || naCont.contains c.toNat))

/-- `countIndent`: tabs advance to the next multiple of 8 -/
def countIndent (s : List Char) : Nat :=
  s.foldl (fun indent c => if c == '\t' then indent + (8 - indent % 8) else indent + 1) 0

def operators : List (List Char × P) := [
  (['('], .lpar), ([')'], .rpar), (['['], .lsqb), ([']'], .rsqb), ([':'], .colon), ([','], .comma), ([';'], .semi),
  (['+'], .plus), (['-'], .minus), (['*'], .star), (['/'], .slash), (['|'], .vbar), (['&'], .amper), (['<'], .less),
  (['>'], .greater), (['='], .equal), (['.'], .dot), (['%'], .percent), (['{'], .lbrace), (['}'], .rbrace),
  (['^'], .circumflex), (['~'], .tilde), (['@'], .at),
  (['!', '='], .plingeq), (['%', '='], .perceq), (['&', '='], .andeq), (['*', '*'], .starstar), (['*', '='], .stareq),
  (['+', '='], .pluseq), (['-', '='], .minuseq), (['-', '>'], .minusgt), (['/', '/'], .divdiv), (['/', '='], .diveq),
  (['<', '<'], .ltlt), (['<', '='], .lteq), (['<', '>'], .ltgt), (['=', '='], .eqeq), (['>', '='], .gteq),
  (['>', '>'], .gtgt), (['^', '='], .hateq), (['|', '='], .pipeeq),
  (['*', '*', '='], .starstareq), (['.', '.', '.'], .elipsis), (['/', '/', '='], .divdiveq), (['<', '<', '='], .ltlteq),
  (['>', '>', '='], .gtgteq)]

def keywords : List (String × K) := [
  ("False", .false_), ("None", .none_), ("True", .true_), ("and", .and_), ("as", .as_), ("assert", .assert_),
  ("break", .break_), ("class", .class_), ("continue", .continue_), ("def", .def_), ("del", .del_), ("elif", .elif_),
  ("else", .else_), ("except", .except_), ("finally", .finally_), ("for", .for_), ("from", .from_), ("global", .global_),
  ("if", .if_), ("import", .import_), ("in", .in_), ("is", .is_), ("lambda", .lambda_), ("nonlocal", .nonlocal_),
  ("not", .not_), ("or", .or_), ("pass", .pass_), ("raise", .raise_), ("return", .return_), ("try", .try_),
  ("while", .while_), ("with", .with_), ("yield", .yield_)]

/-- `readOperator`: the longest of the 3-, 2-, 1-character prefixes that is an operator -/
def readOperator (line : List Char) : Option (P × List Char) :=
  let try_ (i : Nat) : Option (P × List Char) :=
    if line.length ≥ i then (operators.lookup (line.take i)).map (·, line.drop i) else none
  match try_ 3 with
  | some r => some r
  | none => match try_ 2 with
    | some r => some r
    | none => try_ 1

/-- `readIdentifier` -/
def readIdentifier (line : List Char) : List Char × List Char :=
  match line with
  | [] => ([], [])
  | c :: cs => if isIdentifierStart c then
      let (a, b) := cs.span isIdentifierChar
      (c :: a, b)
    else ([], line)

def readIdentifierOrKeyword (line : List Char) : Option (Tok × List Char) :=
  let (id, rest) := readIdentifier line
  if id.isEmpty then none else
  let s := String.ofList id
  match keywords.lookup s with
  | some k => some (.k k, rest)
  | none => some (.name s, rest)

/-! ## 3. readNumber -/

def digitsVal (base : Nat) (ds : List Char) : Nat :=
  ds.foldl (fun acc c => acc * base + (hexVal c).getD 0) 0

/-- strip trailing zeros of the mantissa (`fuel` ≥ number of digits) -/
def normDecAux : Nat → Nat → Int → Nat × Int
  | 0, m, e => (m, e)
  | f + 1, m, e => if m != 0 && m % 10 == 0 then normDecAux f (m / 10) (e + 1) else (m, e)

/-- exact decimal value `m·10^e` (normalised) of mantissa digits `ip.fp` and exponent `ex` -/
def normDec (ip fp : List Char) (ex : Int) : Nat × Int :=
  let m := digitsVal 10 (ip ++ fp)
  if m == 0 then (0, 0) else normDecAux (ip.length + fp.length) m (ex - fp.length)

/-- `[eE][+-]?[0-9]+` at the head of `l`: exponent value and rest -/
def matchExp (l : List Char) : Option (Int × List Char) :=
  match l with
  | e :: r =>
    if e == 'e' || e == 'E' then
      let (neg, r1) := match r with
        | '+' :: r1 => (false, r1)
        | '-' :: r1 => (true, r1)
        | _ => (false, r)
      let (ds, r2) := r1.span isDigit
      if ds.isEmpty then none else
      let v : Int := digitsVal 10 ds
      some (if neg then -v else v, r2)
    else none
  | [] => none

/-- `pointFloat = ([0-9]*\.[0-9]+|[0-9]+\.)` at the head of `l` (after the leading digits `ip`, rest `r`) -/
def matchPointFloat (ip r : List Char) : Option (List Char × List Char) :=
  match r with
  | '.' :: r1 =>
    let (fp, r2) := r1.span isDigit
    if !fp.isEmpty then some (fp, r2)
    else if !ip.isEmpty then some ([], r1)
    else none
  | _ => none

def optJ (l : List Char) : Bool × List Char :=
  match l with
  | 'j' :: r => (true, r)
  | 'J' :: r => (true, r)
  | _ => (false, l)

/-- the regular expression `floatNumber` (leftmost-first semantics of Go's regexp) -/
def matchFloat (line : List Char) : Option (NumVal × List Char) :=
  let (ip, r) := line.span isDigit
  let done (ip fp : List Char) (ex : Int) (rest : List Char) : Option (NumVal × List Char) :=
    let (m, e) := normDec ip fp ex
    let (j, rest) := optJ rest
    some (if j then .imag m e else .float m e, rest)
  -- ([0-9]+|pointFloat)[eE][+-]?[0-9]+
  match (if ip.isEmpty then none else matchExp r) with
  | some (ex, rest) => done ip [] ex rest
  | none =>
    match matchPointFloat ip r with
    | some (fp, r2) =>
      match matchExp r2 with
      | some (ex, rest) => done ip fp ex rest
      | none => done ip fp 0 r2
    | none => none

inductive NumRes
  | notNumber
  | bad                               -- SyntaxError("illegal decimal with leading zero")
  | ok (v : NumVal) (rest : List Char)

/-- prefixed integer `0[xX]…`, `0[oO]…`, `0[bB]…` with at least one digit of the base -/
def matchPrefixed (line : List Char) (marks : List Char) (okDigit : Char → Bool) (base : Nat) : Option (NumVal × List Char) :=
  match line with
  | '0' :: m :: r =>
    if marks.contains m then
      let (ds, rest) := r.span okDigit
      if ds.isEmpty then none else some (.int (digitsVal base ds), rest)
    else none
  | _ => none

def readNumber (line : List Char) : NumRes :=
  let isNum := match line with
    | c :: rest => isDigit c || (c == '.' && match rest with | d :: _ => isDigit d | [] => false)
    | [] => false
  if !isNum then .notNumber else
  match matchPrefixed line ['o', 'O'] isOct 8 with
  | some (v, r) => .ok v r
  | none =>
  match matchPrefixed line ['x', 'X'] (fun c => (hexVal c).isSome) 16 with
  | some (v, r) => .ok v r
  | none =>
  match matchPrefixed line ['b', 'B'] (fun c => c == '0' || c == '1') 2 with
  | some (v, r) => .ok v r
  | none =>
  match matchFloat line with
  | some (v, r) => .ok v r
  | none =>
    -- decimalInteger `^[0-9]+[jJ]?`
    let (ds, r) := line.span isDigit
    let (j, r') := optJ r
    if j then
      let (m, e) := normDec ds [] 0
      .ok (.imag m e) r'
    else
      -- illegalDecimalInteger `^0[0-9]*[1-9][0-9]*$`
      if ds.head? == some '0' && ds.any (fun c => c != '0') then .bad
      else .ok (.int (digitsVal 10 ds)) r

/-! ## 4. the Lex state machine -/

inductive LState | readString | readIndent | checkEmpty | checkIndent | parseTokens | checkEof | isEof
  deriving DecidableEq, Repr

structure LexSt where
  rest : List Char                -- unread part of the reader
  line : List Char := []
  eof : Bool := false
  err : Bool := false
  stack : List Nat := [0]         -- indentStack, TOP FIRST
  state : LState := .readString
  curIndent : List Char := []
  interactive : Bool := false
  exec : Bool := false
  bracket : Int := 0
  paren : Int := 0
  brace : Int := 0
  queue : List Tok := []
  deriving Repr

def splitLine : List Char → List Char × List Char
  | [] => ([], [])
  | c :: cs => if c == '\n' then (['\n'], cs) else
      let r := splitLine cs
      (c :: r.1, r.2)

def fixCRLF (l : List Char) : List Char :=
  match l.reverse with
  | '\n' :: '\r' :: r => (r.reverse) ++ ['\n']
  | _ => l

/-- `refill` -/
def refill (s : LexSt) : LexSt :=
  let (l, rest) := splitLine s.rest
  let eof := s.eof || l.getLast? != some '\n'
  let l := fixCRLF l
  let l := if eof && s.exec && !l.isEmpty && l.getLast? != some '\n' then l ++ ['\n'] else l
  { s with rest := rest, line := l, eof := eof }

def openBrackets (s : LexSt) : Bool := s.bracket != 0 || s.paren != 0 || s.brace != 0

def dedents (n : Nat) : List Tok := List.replicate n .dedent

/-- `queueDedents` -/
def queueDedents (s : LexSt) : LexSt :=
  { s with queue := s.queue ++ dedents (s.stack.length - 1), stack := s.stack.drop (s.stack.length - 1) }

/-- the search loop of `checkIndent`: pop until an entry equals `indent`; number of popped entries -/
def popTo (indent : Nat) : List Nat → Option (List Nat × Nat)
  | [] => none
  | x :: xs => if x == indent then some (x :: xs, 0) else
      match popTo indent xs with
      | some (st, n) => some (st, n + 1)
      | none => none

/-- `strings.TrimSpace` only matters through "is the trimmed line empty or does it start with #" -/
def isGoSpace (c : Char) : Bool :=
  c == ' ' || c == '\t' || c == '\n' || c == '\r' || c.toNat == 11 || c.toNat == 12 || c.toNat == 0x85 || c.toNat == 0xA0

def startsWith (l p : List Char) : Bool := p.isPrefixOf l

inductive ScanRes
  | found (buf : List Char) (restLine : List Char)     -- goto foundEndOfString
  | more (buf : List Char)                             -- goto readMore (backslash-newline)
  | lineEnd (buf : List Char)                          -- the `for` loop ended (or `break`)

/-- the inner `for i, c := range x.line` of readString; `buf` is kept reversed -/
def scanLine (raw multi : Bool) (endq : List Char) : List Char → Bool → List Char → ScanRes
  | [], _, buf => .lineEnd buf
  | c :: cs, escape, buf =>
    if escape then
      if c == '\n' then
        if raw then .more (c :: buf) else .more (buf.drop 1)    -- fix c75d261 / buf.Truncate(buf.Len()-1)
      else scanLine raw multi endq cs false (c :: buf)
    else
      if startsWith (c :: cs) endq then .found buf ((c :: cs).drop endq.length)
      else if !multi && c == '\n' then .lineEnd buf
      else scanLine raw multi endq cs (c == '\\') (c :: buf)

inductive StrRes
  | notString
  | bad (s : LexSt)                  -- SyntaxError (EOL / EOF while scanning, decode error)
  | ok (v : StrVal) (s : LexSt)

/-- the outer `for` of readString over refilled lines (`fuel` ≥ number of remaining lines + 1) -/
def readStringBody (raw bytes multi : Bool) (endq : List Char) : Nat → LexSt → List Char → StrRes
  | 0, s, _ => .bad s
  | f + 1, s, buf =>
    let next (buf : List Char) : StrRes :=
      if s.eof then .bad s else readStringBody raw bytes multi endq f (refill s) buf
    match scanLine raw multi endq s.line false buf with
    | .found buf restLine =>
      match strValue raw bytes buf.reverse with
      | .error _ => .bad { s with line := restLine }
      | .ok v => .ok v { s with line := restLine }
    | .more buf => next buf
    | .lineEnd buf => if !multi then .bad s else next buf

def isQuote (c : Char) : Bool := c == '\'' || c == '"'

/-- `readString` from the label `found:` on: `cut` prefix characters have been recognised -/
def readStringFound (s : LexSt) (raw bytes : Bool) (cut : Nat) : StrRes :=
  let l := s.line.drop cut
  let fuel := s.rest.length + 2
  if startsWith l ['"', '"', '"'] then readStringBody raw bytes true ['"', '"', '"'] fuel { s with line := l.drop 3 } []
  else if startsWith l ['\'', '\'', '\''] then readStringBody raw bytes true ['\'', '\'', '\''] fuel { s with line := l.drop 3 } []
  else if startsWith l ['"'] then readStringBody raw bytes false ['"'] fuel { s with line := l.drop 1 } []
  else readStringBody raw bytes false ['\''] fuel { s with line := l.drop 1 } []

/-- `readString` -/
def readStringTok (s : LexSt) : StrRes :=
  let l := s.line
  let r0 := l.head?.getD '\x00'
  let r1 := (l.drop 1).head?.getD '\x00'
  let r2 := (l.drop 2).head?.getD '\x00'
  if l.isEmpty then .notString
  else if isQuote r0 then readStringFound s false false 0
  else if (r0 == 'r' || r0 == 'R') && isQuote r1 then readStringFound s true false 1
  else if (r0 == 'b' || r0 == 'B') && isQuote r1 then readStringFound s false true 1
  else if (r0 == 'u' || r0 == 'U') && isQuote r1 then readStringFound s false false 1
  else if (r0 == 'r' || r0 == 'R') && (r1 == 'b' || r1 == 'B') && isQuote r2 then readStringFound s true true 2
  else if (r0 == 'b' || r0 == 'B') && (r1 == 'r' || r1 == 'R') && isQuote r2 then readStringFound s true true 2
  else .notString

inductive StepRes
  | cont
  | emit (t : Tok)
  | stop                      -- `return eof`
  deriving Repr

/-- one iteration: either the dequeue at the entry of `Lex` or one turn of its `for` loop.
(Whenever the Go code queues tokens inside the loop it returns `x.dequeue()` at once; here the
next `step` performs that dequeue.) -/
def step (s : LexSt) : LexSt × StepRes :=
  match s.queue with
  | t :: q => ({ s with queue := q }, .emit t)
  | [] =>
  match s.state with
  | .readString =>
    let s := { refill s with state := .readIndent }
    if s.line.isEmpty && s.eof then
      let s := { s with state := .checkEof }
      if s.interactive && !openBrackets s then
        let s := queueDedents s
        ({ s with queue := s.queue ++ [.newline] }, .cont)
      else (s, .cont)
    else (s, .cont)
  | .readIndent =>
    let (ind, l) := s.line.span (fun c => c == ' ' || c == '\t')
    ({ s with curIndent := ind, line := l, state := .checkEmpty }, .cont)
  | .checkEmpty =>
    let d := s.line.dropWhile isGoSpace
    if d.isEmpty || d.head? == some '#' then ({ s with state := .checkEof }, .cont)
    else ({ s with state := .checkIndent }, .cont)
  | .checkIndent =>
    let s := { s with state := .parseTokens }
    if openBrackets s then (s, .cont) else
    let indent := countIndent s.curIndent
    let top := s.stack.head?.getD 0
    if indent == top then (s, .cont)
    else if indent > top then ({ s with stack := indent :: s.stack }, .emit .indent)
    else match popTo indent s.stack with
      | some (st, n) => ({ s with stack := st, queue := dedents n }, .cont)
      | none => ({ s with err := true, queue := dedents s.stack.length }, .stop)     -- Inconsistent indent
  | .parseTokens =>
    let l := s.line.dropWhile (fun c => c == ' ' || c == '\t')
    let s := { s with line := l }
    match l with
    | [] => ({ s with state := .checkEof }, .cont)
    | c :: cs =>
      if c == '\n' || c == '#' then
        let s := { s with state := .checkEof }
        if openBrackets s then (s, .cont) else (s, .emit .newline)
      else if c == '\\' && (cs.isEmpty || cs.head? == some '\n') then
        if s.eof then ({ s with state := .checkEof }, .cont)
        else ({ refill s with state := .parseTokens }, .cont)
      else
      match readNumber l with
      | .bad => ({ s with err := true }, .stop)
      | .ok v r => ({ s with line := r }, .emit (.num v))
      | .notNumber =>
      match readStringTok s with
      | .bad s' => ({ s' with err := true }, .stop)
      | .ok v s' => (s', .emit (.str v))
      | .notString =>
      match readIdentifierOrKeyword l with
      | some (t, r) => ({ s with line := r }, .emit t)
      | none =>
      match readOperator l with
      | some (op, r) =>
        let s := { s with line := r }
        let s := match op with
          | .lsqb => { s with bracket := s.bracket + 1 }
          | .rsqb => { s with bracket := s.bracket - 1 }
          | .lpar => { s with paren := s.paren + 1 }
          | .rpar => { s with paren := s.paren - 1 }
          | .lbrace => { s with brace := s.brace + 1 }
          | .rbrace => { s with brace := s.brace - 1 }
          | _ => s
        (s, .emit (.p op))
      | none => ({ s with err := true }, .stop)          -- invalid syntax
  | .checkEof =>
    if s.eof then
      let s := queueDedents s
      let s := { s with state := .isEof }
      if !s.interactive then ({ s with queue := s.queue ++ [.endmarker] }, .cont) else (s, .cont)
    else ({ s with state := .readString }, .cont)
  | .isEof => (s, .stop)

/-- `NewLex` -/
def initLex (input : List Char) (mode : Mode) : LexSt :=
  { rest := input, queue := [.start mode], exec := mode == .exec, interactive := mode == .single }

/-- run the machine; tokens are accumulated in reverse -/
def run : Nat → LexSt → List Tok → LexSt × List Tok × Bool
  | 0, s, out => (s, out, false)
  | f + 1, s, out =>
    match step s with
    | (s', .cont) => run f s' out
    | (s', .emit t) => run f s' (t :: out)
    | (s', .stop) => (s', out, true)

def lexFuel (input : List Char) : Nat := 8 * input.length + 64

inductive LexOut
  | ok (toks : List Tok)
  | syntaxError
  | outOfFuel
  deriving Repr, DecidableEq

/-- `LexString`: all tokens up to the first `eof`, or SyntaxError when the error flag is set -/
def lexString (input : List Char) (mode : Mode) : LexOut :=
  match run (lexFuel input) (initLex input mode) [] with
  | (_, _, false) => .outOfFuel
  | (s, out, true) => if s.err then .syntaxError else .ok out.reverse

/-! ## 5. the expression grammar -/

abbrev PR := Option (Expr × List Tok)

def lookupP {α} (ops : List (P × α)) (t : Tok) : Option α :=
  match t with
  | .p x => ops.lookup x
  | _ => none

/-- comp_op: two-token operators (`not in`, `is not`) first -/
def matchCmp (ops : List (CmpTok × CmpOp)) (ts : List Tok) : Option (CmpOp × List Tok) :=
  match ts with
  | t :: u :: rest =>
    match ops.lookup (.two t u) with
    | some o => some (o, rest)
    | none => (ops.lookup (.one t)).map (·, u :: rest)
  | [t] => (ops.lookup (.one t)).map (·, [])
  | [] => none

def matchLeft (ops : List (P × BinOp)) (ts : List Tok) : Option (BinOp × List Tok) :=
  match ts with
  | t :: rest => (lookupP ops t).map (·, rest)
  | [] => none

def matchKw (w : K) (ts : List Tok) : Option (Unit × List Tok) :=
  match ts with
  | .k x :: rest => if x = w then some ((), rest) else none
  | _ => none

/-- `strings: STRING | strings STRING` -/
def gatherStr (v : StrVal) : List Tok → Option (StrVal × List Tok)
  | .str w :: r =>
    match v, w with
    | .s a, .s b => gatherStr (.s (a ++ b)) r
    | .b a, .b b => gatherStr (.b (a ++ b)) r
    | _, _ => none                    -- cannot mix bytes and nonbytes literals
  | ts => some (v, ts)

/-- `varargslist` restricted to plain names: `NAME (',' NAME)* [',']` then ':' -/
def parseParams : List Tok → Option (List String × List Tok)
  | .p .colon :: r => some ([], r)
  | .name s :: .p .colon :: r => some ([s], r)
  | .name s :: .p .comma :: r =>
    match parseParams r with
    | some (ps, r') => some (s :: ps, r')
    | none => none
  | _ => none

mutual
/-- parse at level `k` of the cascade table `T` -/
def parseAt (T : List Level) : Nat → Nat → List Tok → PR
  | 0, _, _ => none
  | n + 1, k, ts =>
    match T[k]? with
    | none => none
    | some .ternary =>
      match ts with
      | .k .lambda_ :: r =>
        match parseParams r with
        | some (ps, r1) =>
          match parseAt T n k r1 with
          | some (b, r2) => some (.lambda ps b, r2)
          | none => none
        | none => none
      | _ =>
        match parseAt T n (k + 1) ts with
        | none => none
        | some (b, r1) =>
          match r1 with
          | .k .if_ :: r2 =>
            match parseAt T n (k + 1) r2 with
            | some (c, .k .else_ :: r4) =>
              match parseAt T n k r4 with
              | some (o, r5) => some (.ifexp c b o, r5)
              | none => none
            | _ => none
          | _ => some (b, r1)
    | some (.nary tok op) =>
      match parseAt T n (k + 1) ts with
      | none => none
      | some (a, r) =>
        match loopG T (matchKw tok) n (k + 1) r with
        | some (ps, r') => some (if ps.isEmpty then a else .bool op (a :: ps.map (·.2)), r')
        | none => none
    | some (.pre ops) =>
      match ts with
      | t :: r =>
        match ops.lookup t with
        | some u =>
          match parseAt T n k r with
          | some (e, r') => some (.un u e, r')
          | none => none
        | none => parseAt T n (k + 1) ts
      | [] => none
    | some (.chain ops) =>
      match parseAt T n (k + 1) ts with
      | none => none
      | some (a, r) =>
        match loopG T (matchCmp ops) n (k + 1) r with
        | some (ps, r') => some (if ps.isEmpty then a else .cmp a ps, r')
        | none => none
    | some (.left ops) =>
      match parseAt T n (k + 1) ts with
      | none => none
      | some (a, r) =>
        match loopG T (matchLeft ops) n (k + 1) r with
        | some (ps, r') => some (ps.foldl (fun acc p => .bin p.1 acc p.2) a, r')
        | none => none
    | some (.power tok op rhs) =>
      match parseAtom T n ts with
      | none => none
      | some (a, r) =>
        match trailers T n a r with
        | none => none
        | some (a', r') =>
          match r' with
          | .p x :: r2 =>
            if x = tok then
              match parseAt T n rhs r2 with
              | some (b, r3) => some (.bin op a' b, r3)
              | none => none
            else some (a', r')
          | _ => some (a', r')

/-- `(op operand)*` with operands at level `k` -/
def loopG {γ : Type} (T : List Level) (m : List Tok → Option (γ × List Tok)) : Nat → Nat → List Tok → Option (List (γ × Expr) × List Tok)
  | 0, _, _ => none
  | n + 1, k, ts =>
    match m ts with
    | none => some ([], ts)
    | some (o, r) =>
      match parseAt T n k r with
      | none => none
      | some (b, r1) =>
        match loopG T m n k r1 with
        | some (ps, r2) => some ((o, b) :: ps, r2)
        | none => none

/-- `trailers`: calls (positional arguments), subscripts (index / index tuple), attributes -/
def trailers (T : List Level) : Nat → Expr → List Tok → PR
  | 0, _, _ => none
  | n + 1, a, ts =>
    match ts with
    | .p .lpar :: r =>
      match parseSeq T n .rpar r with
      | some (es, _, r') => trailers T n (.call a es) r'
      | none => none
    | .p .lsqb :: r =>
      match parseSeq T n .rsqb r with
      | some (es, tc, r') =>
        if es.isEmpty then none
        else trailers T n (.sub a (match es, tc with | [e], false => e | _, _ => .tuple es)) r'
      | none => none
    | .p .dot :: .name s :: r => trailers T n (.attr a s) r
    | _ => some (a, ts)

/-- `test (',' test)* [',']` up to the closing token; the flag tells whether a trailing comma was seen -/
def parseSeq (T : List Level) : Nat → P → List Tok → Option (List Expr × Bool × List Tok)
  | 0, _, _ => none
  | n + 1, close, ts =>
    match ts with
    | .p x :: r =>
      if x = close then some ([], false, r) else parseSeq1 T n close ts
    | _ => parseSeq1 T n close ts

def parseSeq1 (T : List Level) : Nat → P → List Tok → Option (List Expr × Bool × List Tok)
  | 0, _, _ => none
  | n + 1, close, ts =>
    match parseAt T n 0 ts with
    | none => none
    | some (e, r) =>
      match r with
      | .p .comma :: r1 =>
        match parseSeq T n close r1 with
        | some (es, tc, r2) => some (e :: es, if es.isEmpty then true else tc, r2)
        | none => none
      | .p x :: r1 => if x = close then some ([e], false, r1) else none
      | _ => none

def parseAtom (T : List Level) : Nat → List Tok → PR
  | 0, _ => none
  | n + 1, ts =>
    match ts with
    | .name s :: r => some (.name s, r)
    | .num v :: r => some (.num v, r)
    | .str v :: r =>
      match gatherStr v r with
      | some (v', r') => some (.str v', r')
      | none => none
    | .k .none_ :: r => some (.const .none, r)
    | .k .true_ :: r => some (.const .true, r)
    | .k .false_ :: r => some (.const .false, r)
    | .p .elipsis :: r => some (.ellipsis, r)
    | .p .lpar :: r =>
      match parseSeq T n .rpar r with
      | some (es, tc, r') => some ((match es, tc with | [e], false => e | _, _ => .tuple es), r')
      | none => none
    | .p .lsqb :: r =>
      match parseSeq T n .rsqb r with
      | some (es, _, r') => some (.list es, r')
      | none => none
    | _ => none
end

def parseFuel (ts : List Tok) : Nat := 16 * ts.length + 32

/-- `testlist` at the top of eval_input: `test (',' test)* [',']` without brackets -/
def parseTestlist (T : List Level) : Nat → List Tok → Option (List Expr × Bool × List Tok)
  | 0, _ => none
  | f + 1, ts =>
    match parseAt T (parseFuel ts) 0 ts with
    | none => none
    | some (e, r) =>
      match r with
      | .p .comma :: r1 =>
        match r1 with
        | .newline :: _ => some ([e], true, r1)
        | .endmarker :: _ => some ([e], true, r1)
        | [] => some ([e], true, r1)
        | _ =>
          match parseTestlist T f r1 with
          | some (es, tc, r2) => some (e :: es, tc, r2)
          | none => none
      | _ => some ([e], false, r)

def skipNewlines : List Tok → List Tok
  | .newline :: r => skipNewlines r
  | ts => ts

/-- `eval_input: testlist NEWLINE* ENDMARKER` over the token stream of `lexString _ .eval` -/
def parseEvalToks (ts : List Tok) : Option Expr :=
  match ts with
  | .start .eval :: r =>
    match parseTestlist Generated.table (r.length + 1) r with
    | some (es, tc, r') =>
      if skipNewlines r' == [.endmarker] then
        some (match es, tc with | [e], false => e | _, _ => .tuple es)
      else none
    | none => none
  | _ => none

/-- the expression parser on a bare token list (no start token / ENDMARKER) -/
def parseExpr (n : Nat) (ts : List Tok) : Option Expr :=
  match parseAt Generated.table n 0 ts with
  | some (e, []) => some e
  | _ => none

inductive ParseOut
  | ok (e : Expr)
  | syntaxError
  | outOfFuel

/-- `parser.ParseString(text, py.EvalMode)` on the fragment -/
def parseEvalString (text : List Char) : ParseOut :=
  match lexString text .eval with
  | .outOfFuel => .outOfFuel
  | .syntaxError => .syntaxError
  | .ok ts =>
    match parseEvalToks ts with
    | some e => .ok e
    | none => .syntaxError

end GPy.C06
