/-
C06 helper lemmas: (1) the indentation invariant of the Lex state machine,
(2) readOperator, (3) DecodeEscape against the reference escape table.
-/
import GPy.C06.Spec
import Mathlib.Tactic.SplitIfs
namespace GPy.C06
open Spec

/-! ## 1. indentation invariant -/

def nI (l : List Tok) : Nat := l.count .indent
def nD (l : List Tok) : Nat := l.count .dedent

/-- the invariant of the Lex state machine: the indent stack is non-empty and strictly increasing
(stored top first: strictly decreasing), no error has been flagged, and
#INDENT emitted = #DEDENT emitted + #DEDENT queued + (depth of the stack - 1). -/
structure Inv (s : LexSt) (out : List Tok) : Prop where
  ne : s.stack ≠ []
  sorted : s.stack.Pairwise (· > ·)
  noerr : s.err = false
  bal : nI out = nD out + nD s.queue + (s.stack.length - 1)
  qI : nI s.queue = 0
  fin : s.state = .isEof → s.stack.length = 1

theorem nD_dedents (n : Nat) : nD (dedents n) = n := by
  simp [nD, dedents]
theorem nI_dedents (n : Nat) : nI (dedents n) = 0 := by
  simp [nI, dedents, List.count_replicate]

theorem Inv.same {s s' : LexSt} {out : List Tok} (h : Inv s out)
    (h1 : s'.stack = s.stack) (h2 : s'.queue = s.queue) (h3 : s'.err = s.err) (h4 : s'.state = .isEof → s.state = .isEof) :
    Inv s' out := by
  constructor
  · rw [h1]; exact h.ne
  · rw [h1]; exact h.sorted
  · rw [h3]; exact h.noerr
  · rw [h1, h2]; exact h.bal
  · rw [h2]; exact h.qI
  · intro e; rw [h1]; exact h.fin (h4 e)

theorem Inv.emitNeutral {s : LexSt} {out : List Tok} {t : Tok} (h : Inv s out) (ht : t ≠ .indent) (hd : t ≠ .dedent) :
    Inv s (t :: out) := by
  constructor
  · exact h.ne
  · exact h.sorted
  · exact h.noerr
  · have := h.bal
    simp only [nI, nD, List.count_cons] at this ⊢
    have e1 : (t == Tok.indent) = false := by simpa using ht
    have e2 : (t == Tok.dedent) = false := by simpa using hd
    simp only [e1, e2]; simpa using this
  · exact h.qI
  · exact h.fin

theorem refill_stack (s : LexSt) : (refill s).stack = s.stack := by simp [refill]
theorem refill_queue (s : LexSt) : (refill s).queue = s.queue := by simp [refill]
theorem refill_err (s : LexSt) : (refill s).err = s.err := by simp [refill]
theorem refill_state (s : LexSt) : (refill s).state = s.state := by simp [refill]

/-- what `readString` may change: only the reader, the current line and the eof flag -/
def SameCore (s s' : LexSt) : Prop := s'.stack = s.stack ∧ s'.queue = s.queue ∧ s'.err = s.err ∧ s'.state = s.state

theorem SameCore.refl (s : LexSt) : SameCore s s := ⟨rfl, rfl, rfl, rfl⟩
theorem SameCore.trans {a b c : LexSt} (h1 : SameCore a b) (h2 : SameCore b c) : SameCore a c :=
  ⟨h2.1.trans h1.1, h2.2.1.trans h1.2.1, h2.2.2.1.trans h1.2.2.1, h2.2.2.2.trans h1.2.2.2⟩
theorem SameCore.refill (s : LexSt) : SameCore s (refill s) :=
  ⟨refill_stack s, refill_queue s, refill_err s, refill_state s⟩

def StrRes.st? : StrRes → Option LexSt
  | .ok _ s => some s
  | .bad s => some s
  | .notString => none

theorem readStringBody_core (raw bytes multi : Bool) (endq : List Char) :
    ∀ (f : Nat) (s : LexSt) (buf : List Char) (s' : LexSt),
      (readStringBody raw bytes multi endq f s buf).st? = some s' → SameCore s s' := by
  intro f
  induction f with
  | zero => intro s buf s' h; simp [readStringBody, StrRes.st?] at h; subst h; exact SameCore.refl _
  | succ f ih =>
    intro s buf s' h
    unfold readStringBody at h
    simp only at h
    split at h
    · split at h <;> (simp [StrRes.st?] at h; subst h; exact ⟨rfl, rfl, rfl, rfl⟩)
    · split at h
      · simp [StrRes.st?] at h; subst h; exact SameCore.refl _
      · exact (SameCore.refill s).trans (ih _ _ _ h)
    · split at h
      · simp [StrRes.st?] at h; subst h; exact SameCore.refl _
      · split at h
        · simp [StrRes.st?] at h; subst h; exact SameCore.refl _
        · exact (SameCore.refill s).trans (ih _ _ _ h)

theorem readStringFound_core (s s' : LexSt) (raw bytes : Bool) (cut : Nat)
    (h : (readStringFound s raw bytes cut).st? = some s') : SameCore s s' := by
  unfold readStringFound at h
  dsimp only at h
  split_ifs at h
  all_goals (have h2 := readStringBody_core _ _ _ _ _ _ _ _ h; exact ⟨h2.1, h2.2.1, h2.2.2.1, h2.2.2.2⟩)

theorem readStringTok_core (s s' : LexSt) (h : (readStringTok s).st? = some s') : SameCore s s' := by
  unfold readStringTok at h
  dsimp only at h
  split_ifs at h
  all_goals first
    | exact readStringFound_core _ _ _ _ _ h
    | (exact absurd h (by simp [StrRes.st?]))

theorem popTo_spec (indent : Nat) : ∀ (st st' : List Nat) (n : Nat),
    popTo indent st = some (st', n) →
      st' ≠ [] ∧ st'.length + n = st.length ∧ (st.Pairwise (· > ·) → st'.Pairwise (· > ·)) := by
  intro st
  induction st with
  | nil => intro st' n h; simp [popTo] at h
  | cons x xs ih =>
    intro st' n h
    unfold popTo at h
    split_ifs at h with hx
    · simp only [Option.some.injEq, Prod.mk.injEq] at h
      obtain ⟨rfl, rfl⟩ := h
      exact ⟨by simp, by simp, id⟩
    · cases hp : popTo indent xs with
      | none => simp [hp] at h
      | some r =>
        obtain ⟨st1, n1⟩ := r
        simp only [hp, Option.some.injEq, Prod.mk.injEq] at h
        obtain ⟨rfl, rfl⟩ := h
        obtain ⟨a, b, c⟩ := ih _ _ hp
        refine ⟨a, by simp only [List.length_cons]; omega, fun hs => c (List.Pairwise.of_cons hs)⟩

theorem readIdent_tok {l r : List Char} {t : Tok} (h : readIdentifierOrKeyword l = some (t, r)) :
    t ≠ .indent ∧ t ≠ .dedent := by
  unfold readIdentifierOrKeyword at h
  dsimp only at h
  split_ifs at h
  split at h <;> (simp only [Option.some.injEq, Prod.mk.injEq] at h; obtain ⟨rfl, _⟩ := h; exact ⟨by simp, by simp⟩)

/-- what one `step` must establish, by kind of result -/
def Good (out : List Tok) (r : LexSt × StepRes) : Prop :=
  match r.2 with
  | .cont => Inv r.1 out
  | .emit t => Inv r.1 (t :: out)
  | .stop => r.1.err = false → r.1.state = .isEof ∧ r.1.queue = [] ∧ Inv r.1 out

theorem pairwise_push {x : Nat} {st : List Nat} (hne : st ≠ []) (hs : st.Pairwise (· > ·)) (hx : x > st.head?.getD 0) :
    (x :: st).Pairwise (· > ·) := by
  cases st with
  | nil => exact absurd rfl hne
  | cons a as =>
    simp only [List.head?_cons, Option.getD_some] at hx
    refine List.Pairwise.cons ?_ hs
    intro z hz
    rcases List.mem_cons.mp hz with rfl | hz
    · exact hx
    · have := (List.pairwise_cons.mp hs).1 z hz
      omega

theorem queueDedents_inv {s : LexSt} {out : List Tok} (h : Inv s out) (hq : s.queue = []) :
    Inv (queueDedents s) out ∧ (queueDedents s).stack.length = 1 ∧ nI (queueDedents s).queue = 0 := by
  have hl : s.stack.length ≥ 1 := by
    cases hst : s.stack with
    | nil => exact absurd hst h.ne
    | cons a as => simp
  have hlen : (s.stack.drop (s.stack.length - 1)).length = 1 := by simp [List.length_drop]; omega
  refine ⟨⟨?_, ?_, h.noerr, ?_, ?_, fun _ => ?_⟩, ?_, ?_⟩
  · intro e; simp only [queueDedents] at e; rw [e] at hlen; simp at hlen
  · simp only [queueDedents]; exact List.Pairwise.sublist (List.drop_sublist _ _) h.sorted
  · have := h.bal
    simp only [queueDedents, hq, List.nil_append, nD_dedents, hlen]
    simp only [hq, nD, List.count_nil] at this
    simp only [nD] at *
    omega
  · simp only [queueDedents, hq, List.nil_append, nI_dedents]
  · simp only [queueDedents]; exact hlen
  · simp only [queueDedents]; exact hlen
  · simp only [queueDedents, hq, List.nil_append, nI_dedents]

theorem nI_cons_indent (out : List Tok) : nI (Tok.indent :: out) = nI out + 1 := by simp [nI]
theorem nD_cons_indent (out : List Tok) : nD (Tok.indent :: out) = nD out := by simp [nD]
theorem nD_nil : nD [] = 0 := rfl

theorem append_newline_inv {s : LexSt} {out : List Tok} {t : Tok} (h : Inv s out) (ht : t ≠ .indent) (hd : t ≠ .dedent) :
    Inv { s with queue := s.queue ++ [t] } out := by
  have e1 : (t == Tok.indent) = false := by simpa using ht
  have e2 : (t == Tok.dedent) = false := by simpa using hd
  refine ⟨h.ne, h.sorted, h.noerr, ?_, ?_, h.fin⟩
  · have := h.bal
    simp only [nD, nI, List.count_append, List.count_cons, List.count_nil, e2] at this ⊢
    simpa using this
  · have := h.qI
    simp only [nI, List.count_append, List.count_cons, List.count_nil, e1] at this ⊢
    simpa using this

theorem step_good (s : LexSt) (out : List Tok) (h : Inv s out) : Good out (step s) := by
  unfold step
  cases hq : s.queue with
  | cons t q =>
    -- dequeue
    simp only [Good]
    have hI := h.qI
    have hb := h.bal
    rw [hq] at hI hb
    simp only [nI, nD, List.count_cons] at hI hb
    have e1 : (t == Tok.indent) = false := by
      cases hh : (t == Tok.indent) with
      | false => rfl
      | true => simp [hh] at hI
    refine ⟨h.ne, h.sorted, h.noerr, ?_, ?_, h.fin⟩
    · simp only [nI, nD, List.count_cons, e1]
      simp only [e1] at hI
      cases hh : (t == Tok.dedent) <;> simp [hh] at hb ⊢ <;> omega
    · simp only [nI]; simp only [e1] at hI; simpa using hI
  | nil =>
    simp only
    cases hs : s.state with
    | readString =>
      simp only
      split_ifs
      · -- interactive end of input
        have hc : Inv { refill s with state := LState.checkEof } out :=
          h.same (refill_stack s) (refill_queue s) (refill_err s) (by intro e; simp at e)
        have hq' : ({ refill s with state := LState.checkEof } : LexSt).queue = [] := by simp [refill_queue, hq]
        have := (queueDedents_inv hc hq').1
        exact append_newline_inv this (by simp) (by simp)
      · exact h.same (refill_stack s) (refill_queue s) (refill_err s) (by intro e; simp at e)
      · exact h.same (refill_stack s) (refill_queue s) (refill_err s) (by intro e; simp at e)
    | readIndent => exact h.same rfl hq.symm rfl (by intro e; simp at e)
    | checkEmpty =>
      simp only
      split_ifs <;> exact h.same rfl hq.symm rfl (by intro e; simp at e)
    | checkIndent =>
      simp only
      split_ifs with h1 h2 h3
      · exact h.same rfl hq.symm rfl (by intro e; simp at e)
      · exact h.same rfl hq.symm rfl (by intro e; simp at e)
      · -- INDENT
        simp only [Good]
        refine ⟨by simp, pairwise_push h.ne h.sorted (by simpa using h3), h.noerr, ?_, by simp [nI], by intro e; simp at e⟩
        have := h.bal
        have hl : s.stack.length ≥ 1 := by
          cases hst : s.stack with
          | nil => exact absurd hst h.ne
          | cons a as => simp
        rw [hq] at this
        simp only [nI_cons_indent, nD_cons_indent, nD_nil, List.length_cons] at this ⊢
        omega
      · -- DEDENTs
        split
        · rename_i st n hp
          obtain ⟨a, b, c⟩ := popTo_spec _ _ _ _ hp
          simp only [Good]
          refine ⟨a, c h.sorted, h.noerr, ?_, by simp [nI_dedents], by intro e; simp at e⟩
          have := h.bal
          have hl : st.length ≥ 1 := by
            cases st with
            | nil => exact absurd rfl a
            | cons _ _ => simp
          rw [hq] at this
          simp only [nD_dedents, nD_nil] at this ⊢
          omega
        · simp [Good]
    | parseTokens =>
      simp only
      split
      · exact h.same rfl hq.symm rfl (by intro e; simp at e)
      · rename_i c cs hl
        split_ifs
        · exact h.same rfl hq.symm rfl (by intro e; simp at e)
        · simp only [Good]
          refine Inv.emitNeutral (h.same ?_ ?_ ?_ ?_) ?_ ?_ <;> first | rfl | exact hq.symm | (intro e; simp at e) | simp
        · exact h.same rfl hq.symm rfl (by intro e; simp at e)
        · exact h.same (by simp [refill_stack]) (by simp [refill_queue, hq]) (by simp [refill_err]) (by intro e; simp at e)
        · split
          · simp [Good]
          · simp only [Good]
            refine Inv.emitNeutral (h.same ?_ ?_ ?_ ?_) ?_ ?_ <;> first | rfl | exact hq.symm | (intro e; simp at e) | simp
          · split
            · simp [Good]
            · rename_i v s' hr
              have hc := readStringTok_core _ s' (by rw [hr]; rfl)
              simp only [Good]
              refine Inv.emitNeutral (h.same hc.1 (hc.2.1.trans hq.symm) hc.2.2.1 ?_) (by simp) (by simp)
              intro e; rw [hc.2.2.2] at e; simp at e
            · split
              · rename_i t r hi
                obtain ⟨a, b⟩ := readIdent_tok hi
                simp only [Good]
                refine Inv.emitNeutral (h.same ?_ ?_ ?_ ?_) a b <;> first | rfl | exact hq.symm | (intro e; simp at e)
              · split
                · simp only [Good]
                  refine Inv.emitNeutral (h.same ?_ ?_ ?_ ?_) (by simp) (by simp)
                  all_goals (split <;> first | rfl | exact hq.symm | (intro e; simp at e))
                · simp [Good]
    | checkEof =>
      simp only
      split_ifs with he hi
      · have hc : Inv (queueDedents s) out := (queueDedents_inv h hq).1
        have hl := (queueDedents_inv h hq).2.1
        have h2 : Inv { queueDedents s with state := LState.isEof } out :=
          ⟨hc.ne, hc.sorted, hc.noerr, hc.bal, hc.qI, fun _ => hl⟩
        exact append_newline_inv h2 (by simp) (by simp)
      · have hc : Inv (queueDedents s) out := (queueDedents_inv h hq).1
        have hl := (queueDedents_inv h hq).2.1
        exact ⟨hc.ne, hc.sorted, hc.noerr, hc.bal, hc.qI, fun _ => hl⟩
      · exact h.same rfl hq.symm rfl (by intro e; simp at e)
    | isEof =>
      simp only [Good]
      intro _
      exact ⟨hs, hq, h⟩

/-- the invariant along a whole run -/
theorem run_inv : ∀ (f : Nat) (s : LexSt) (out : List Tok) (s' : LexSt) (out' : List Tok) (b : Bool),
    run f s out = (s', out', b) → Inv s out →
      (b = false → Inv s' out') ∧ (b = true → s'.err = false → s'.state = .isEof ∧ s'.queue = [] ∧ Inv s' out') := by
  intro f
  induction f with
  | zero =>
    intro s out s' out' b hr hi
    simp only [run, Prod.mk.injEq] at hr
    obtain ⟨rfl, rfl, rfl⟩ := hr
    exact ⟨fun _ => hi, fun e => by simp at e⟩
  | succ f ih =>
    intro s out s' out' b hr hi
    have hg := step_good s out hi
    unfold run at hr
    split at hr
    · rename_i s1 hs; rw [hs] at hg; exact ih _ _ _ _ _ hr hg
    · rename_i s1 t hs; rw [hs] at hg; exact ih _ _ _ _ _ hr hg
    · rename_i s1 hs
      rw [hs] at hg
      simp only [Prod.mk.injEq] at hr
      obtain ⟨rfl, rfl, rfl⟩ := hr
      exact ⟨fun e => by simp at e, fun _ he => hg he⟩

theorem initLex_inv (input : List Char) (mode : Mode) : Inv (initLex input mode) [] := by
  refine ⟨by simp [initLex], by simp [initLex], rfl, ?_, ?_, by intro e; simp [initLex] at e⟩
  · simp [initLex, nI, nD]
  · simp [initLex, nI]

/-! ## 3. DecodeEscape against the reference table -/

theorem hexVal_eq (c : Char) : hexVal c = if isHexDigit c then some (digitOf c) else none := by
  unfold hexVal isHexDigit digitOf
  simp only [Bool.and_eq_true, decide_eq_true_eq, Bool.or_eq_true]
  split_ifs <;> first | rfl | omega

theorem valueBE_lt (cs : List Char) (h : cs.all isHexDigit = true) : valueBE 16 cs < 16 ^ cs.length := by
  induction cs with
  | nil => simp [valueBE]
  | cons c cs ih =>
    simp only [List.all_cons, Bool.and_eq_true] at h
    have := ih h.2
    have hd : digitOf c < 16 := by
      have := h.1
      unfold isHexDigit at this
      unfold digitOf
      simp only [Bool.and_eq_true, decide_eq_true_eq, Bool.or_eq_true] at this
      dsimp only
      split_ifs <;> omega
    simp only [valueBE, List.length_cons, Nat.pow_succ]
    have : digitOf c * 16 ^ cs.length ≤ 15 * 16 ^ cs.length := Nat.mul_le_mul_right _ (by omega)
    omega

theorem parseHexAux_eq (cs : List Char) : ∀ acc, parseHexAux cs acc =
    if cs.all isHexDigit then some (acc * 16 ^ cs.length + valueBE 16 cs) else none := by
  induction cs with
  | nil => intro acc; simp [parseHexAux, valueBE]
  | cons c cs ih =>
    intro acc
    simp only [parseHexAux, hexVal_eq, List.all_cons, valueBE, List.length_cons]
    by_cases hc : isHexDigit c = true
    · simp only [hc, if_true, ih, Bool.true_and]
      split_ifs
      · simp only [Option.some.injEq, Nat.pow_succ]
        rw [Nat.add_mul]; rw [Nat.mul_assoc, Nat.mul_comm 16]; omega
      · rfl
    · simp [hc]

def pv (bm : Bool) (p : Piece) : List Nat := if bm then p.bytes else [p.rune]
def fin (bm : Bool) (ps : List Piece) : List Nat := ps.flatMap (pv bm)

/-- model result vs reference result: same success, and the same value unless a known-finding item occurs -/
def Rel (bm : Bool) (m : Except Unit (List Piece)) (sp : Except Unit (List EscItem)) : Prop :=
  match sp with
  | .error _ => m = .error ()
  | .ok items => ∃ ps, m = .ok ps ∧ (bm = true ∨ items.any EscItem.isKf = false → fin bm ps = items.map (EscItem.value bm))

theorem Rel_cons {bm : Bool} {m : Except Unit (List Piece)} {sp : Except Unit (List EscItem)} (p : Piece) (it : EscItem)
    (hc : bm = true ∨ it.isKf = false → pv bm p = [it.value bm]) (h : Rel bm m sp) :
    Rel bm (m.map (p :: ·)) (sp.map (it :: ·)) := by
  cases sp with
  | error e => simp only [Rel] at h; subst h; simp [Rel, Except.map]
  | ok items =>
    obtain ⟨ps, rfl, hv⟩ := h
    refine ⟨p :: ps, rfl, ?_⟩
    intro hk
    have hk1 : bm = true ∨ it.isKf = false := by
      rcases hk with hk | hk
      · exact Or.inl hk
      · simp only [List.any_cons, Bool.or_eq_false_iff] at hk; exact Or.inr hk.1
    have hk2 : bm = true ∨ items.any EscItem.isKf = false := by
      rcases hk with hk | hk
      · exact Or.inl hk
      · simp only [List.any_cons, Bool.or_eq_false_iff] at hk; exact Or.inr hk.2
    simp only [fin, List.flatMap_cons, List.map_cons]
    rw [hc hk1]
    have := hv hk2
    simp only [fin] at this
    rw [this]; rfl

theorem Rel_cons_kf {m : Except Unit (List Piece)} {sp : Except Unit (List EscItem)} (f : List Piece → List Piece) (it : EscItem)
    (hk : it.isKf = true) (h : Rel false m sp) :
    Rel false (m.map f) (sp.map (it :: ·)) := by
  cases sp with
  | error e => simp only [Rel] at h; subst h; simp [Rel, Except.map]
  | ok items =>
    obtain ⟨ps, rfl, _⟩ := h
    refine ⟨f ps, rfl, ?_⟩
    intro hk'
    rcases hk' with hk' | hk'
    · simp at hk'
    · simp [hk] at hk'

theorem goRune_small {v : Nat} (h : v < 0xD800) : goRune v = v := by
  unfold goRune; split_ifs with hh
  · simp only [Bool.or_eq_true, Bool.and_eq_true, decide_eq_true_eq] at hh; omega
  · rfl

theorem goRune_char (c : Char) : goRune c.toNat = c.toNat := by
  unfold goRune; split_ifs with hh
  · simp only [Bool.or_eq_true, Bool.and_eq_true, decide_eq_true_eq] at hh
    have := c.valid
    simp only [Char.toNat, UInt32.isValidChar, Nat.isValidChar] at this ⊢
    simp only [Char.toNat] at hh
    omega
  · rfl

theorem pv_r_small (bm : Bool) {v : Nat} (h : v < 128) : pv bm (.r v) = [v] := by
  unfold pv
  have : goRune v = v := goRune_small (by omega)
  cases bm <;> simp [Piece.bytes, Piece.rune, this, utf8Enc, h]

theorem pv_char (bm : Bool) (c : Char) (h : bm = true → c.toNat < 128) : pv bm (.r c.toNat) = [c.toNat] := by
  cases bm with
  | true => exact pv_r_small true (h rfl)
  | false => simp [pv, Piece.rune, goRune_char]


theorem decodeHex_eq (bm : Bool) (k : Nat) (hk : 0 < k) (tl : List Char) :
    decodeHex bm k tl = match hexDigits k tl with
      | none => .error ()
      | some v => if v > 0x10FFFF then .error () else if bm then .ok (.b (v % 256)) else .ok (.r v) := by
  unfold decodeHex hexDigits parseHex
  by_cases hl : k ≤ tl.length
  · have hne : (List.take k tl).isEmpty = false := by
      cases h : List.take k tl with
      | nil => have := congrArg List.length h; rw [List.length_take] at this; simp only [List.length_nil] at this; omega
      | cons a as => rfl
    simp only [hl, if_true, hne, Bool.false_eq_true, if_false, parseHexAux_eq, Nat.zero_mul, Nat.zero_add, true_and]
    split_ifs <;> simp_all
  · simp [hl]

theorem hexDigits_lt {k : Nat} {tl : List Char} {v : Nat} (h : hexDigits k tl = some v) : v < 16 ^ k := by
  unfold hexDigits at h
  split_ifs at h with hh
  simp only [Option.some.injEq] at h
  subst h
  have := valueBE_lt _ hh.2
  simpa [List.length_take, Nat.min_eq_left hh.1] using this

theorem compat_b (v : Nat) (it : EscItem) (hv : it.value true = v % 256) : true = true ∨ it.isKf = false → pv true (.b (v % 256)) = [it.value true] := by
  intro _; simp [pv, Piece.bytes, hv]

theorem compat_r (v : Nat) (it : EscItem) (hv : it.value false = v) (hs : v < 0xD800) : false = true ∨ it.isKf = false → pv false (.r v) = [it.value false] := by
  intro _; simp [pv, Piece.rune, hv, goRune_small hs]


theorem compat_uni (v : Nat) (h : v ≤ 0x10FFFF) : false = true ∨ (EscItem.uni v).isKf = false → pv false (.r v) = [(EscItem.uni v).value false] := by
  intro hk
  rcases hk with hk | hk
  · simp at hk
  simp only [EscItem.isKf, isSurrogate, Bool.and_eq_false_iff, decide_eq_false_iff_not] at hk
  have : goRune v = v := by
    unfold goRune; split_ifs with hh
    · simp only [Bool.or_eq_true, Bool.and_eq_true, decide_eq_true_eq] at hh; omega
    · rfl
  simp [pv, Piece.rune, EscItem.value, this]

theorem except_map_map {α β γ : Type} (g : β → γ) (f : α → β) (m : Except Unit α) :
    Except.map g (Except.map f m) = Except.map (fun x => g (f x)) m := by
  cases m <;> rfl

theorem rel_main (bm : Bool) : ∀ (k : Nat) (l : List Char), l.length = k → (bm = true → ∀ c ∈ l, c.toNat < 128) →
    ∀ n m, l.length ≤ n → l.length ≤ m → Rel bm (decodeGo bm n l) (scan bm m l) := by
  intro k
  induction k using Nat.strongRecOn with
  | _ k ih =>
  intro l hl hasc n m hn hm
  cases l with
  | nil => cases n <;> cases m <;> exact ⟨[], rfl, fun _ => rfl⟩
  | cons c rest =>
    cases n with
    | zero => simp at hn
    | succ n =>
    cases m with
    | zero => simp at hm
    | succ m =>
    have IH : ∀ l' : List Char, l'.length < (c :: rest).length → (∀ x ∈ l', x ∈ c :: rest) → ∀ n' m', l'.length ≤ n' → l'.length ≤ m' →
        Rel bm (decodeGo bm n' l') (scan bm m' l') := by
      intro l' h1 h2 n' m' h3 h4
      exact ih l'.length (by omega) l' rfl (fun hb x hx => hasc hb x (h2 x hx)) n' m' h3 h4
    have IHs : ∀ (l' pre : List Char), pre ≠ [] → c :: rest = pre ++ l' → Rel bm (decodeGo bm n l') (scan bm m l') := by
      intro l' pre hne he
      have hlen : (c :: rest).length = pre.length + l'.length := by rw [he]; simp
      have hp : pre.length ≥ 1 := by cases pre with | nil => exact absurd rfl hne | cons _ _ => simp
      exact IH l' (by omega) (by intro x hx; rw [he]; exact List.mem_append_right _ hx) n m (by omega) (by omega)
    by_cases hc : c = '\\'
    · subst hc
      cases rest with
      | nil => simp [decodeGo, scan, Rel]
      | cons e tl =>
        by_cases h_nl : e = '\n'
        · subst h_nl
          simp [decodeGo, scan]
          exact IH tl (by simp only [List.length_cons]; omega) (by intro x hx; simp [hx]) n m (by simp only [List.length_cons] at hn; omega) (by simp only [List.length_cons] at hm; omega)
        by_cases h_92 : e = '\\'
        · subst h_92
          simp [decodeGo, scan, simpleEscapes, List.lookup]
          exact Rel_cons _ _ (fun _ => pv_r_small bm (by decide)) (IH tl (by simp only [List.length_cons]; omega) (by intro x hx; simp [hx]) n m (by simp only [List.length_cons] at hn; omega) (by simp only [List.length_cons] at hm; omega))
        by_cases h_39 : e = '\''
        · subst h_39
          simp [decodeGo, scan, simpleEscapes, List.lookup]
          exact Rel_cons _ _ (fun _ => pv_r_small bm (by decide)) (IH tl (by simp only [List.length_cons]; omega) (by intro x hx; simp [hx]) n m (by simp only [List.length_cons] at hn; omega) (by simp only [List.length_cons] at hm; omega))
        by_cases h_34 : e = '"'
        · subst h_34
          simp [decodeGo, scan, simpleEscapes, List.lookup]
          exact Rel_cons _ _ (fun _ => pv_r_small bm (by decide)) (IH tl (by simp only [List.length_cons]; omega) (by intro x hx; simp [hx]) n m (by simp only [List.length_cons] at hn; omega) (by simp only [List.length_cons] at hm; omega))
        by_cases h_8 : e = 'b'
        · subst h_8
          simp [decodeGo, scan, simpleEscapes, List.lookup]
          exact Rel_cons _ _ (fun _ => pv_r_small bm (by decide)) (IH tl (by simp only [List.length_cons]; omega) (by intro x hx; simp [hx]) n m (by simp only [List.length_cons] at hn; omega) (by simp only [List.length_cons] at hm; omega))
        by_cases h_12 : e = 'f'
        · subst h_12
          simp [decodeGo, scan, simpleEscapes, List.lookup]
          exact Rel_cons _ _ (fun _ => pv_r_small bm (by decide)) (IH tl (by simp only [List.length_cons]; omega) (by intro x hx; simp [hx]) n m (by simp only [List.length_cons] at hn; omega) (by simp only [List.length_cons] at hm; omega))
        by_cases h_9 : e = 't'
        · subst h_9
          simp [decodeGo, scan, simpleEscapes, List.lookup]
          exact Rel_cons _ _ (fun _ => pv_r_small bm (by decide)) (IH tl (by simp only [List.length_cons]; omega) (by intro x hx; simp [hx]) n m (by simp only [List.length_cons] at hn; omega) (by simp only [List.length_cons] at hm; omega))
        by_cases h_10 : e = 'n'
        · subst h_10
          simp [decodeGo, scan, simpleEscapes, List.lookup]
          exact Rel_cons _ _ (fun _ => pv_r_small bm (by decide)) (IH tl (by simp only [List.length_cons]; omega) (by intro x hx; simp [hx]) n m (by simp only [List.length_cons] at hn; omega) (by simp only [List.length_cons] at hm; omega))
        by_cases h_13 : e = 'r'
        · subst h_13
          simp [decodeGo, scan, simpleEscapes, List.lookup]
          exact Rel_cons _ _ (fun _ => pv_r_small bm (by decide)) (IH tl (by simp only [List.length_cons]; omega) (by intro x hx; simp [hx]) n m (by simp only [List.length_cons] at hn; omega) (by simp only [List.length_cons] at hm; omega))
        by_cases h_11 : e = 'v'
        · subst h_11
          simp [decodeGo, scan, simpleEscapes, List.lookup]
          exact Rel_cons _ _ (fun _ => pv_r_small bm (by decide)) (IH tl (by simp only [List.length_cons]; omega) (by intro x hx; simp [hx]) n m (by simp only [List.length_cons] at hn; omega) (by simp only [List.length_cons] at hm; omega))
        by_cases h_7 : e = 'a'
        · subst h_7
          simp [decodeGo, scan, simpleEscapes, List.lookup]
          exact Rel_cons _ _ (fun _ => pv_r_small bm (by decide)) (IH tl (by simp only [List.length_cons]; omega) (by intro x hx; simp [hx]) n m (by simp only [List.length_cons] at hn; omega) (by simp only [List.length_cons] at hm; omega))
        have hb_92 : (e == '\\') = false := by simpa using h_92
        have hb_39 : (e == '\'') = false := by simpa using h_39
        have hb_34 : (e == '"') = false := by simpa using h_34
        have hb_8 : (e == 'b') = false := by simpa using h_8
        have hb_12 : (e == 'f') = false := by simpa using h_12
        have hb_9 : (e == 't') = false := by simpa using h_9
        have hb_10 : (e == 'n') = false := by simpa using h_10
        have hb_13 : (e == 'r') = false := by simpa using h_13
        have hb_11 : (e == 'v') = false := by simpa using h_11
        have hb_7 : (e == 'a') = false := by simpa using h_7
        have hb_nl : (e == '\n') = false := by simpa using h_nl
        have hlook : List.lookup e simpleEscapes = none := by
          simp [simpleEscapes, List.lookup, hb_92, hb_39, hb_34, hb_8, hb_12, hb_9, hb_10, hb_13, hb_11, hb_7]
        by_cases ho : isOct e = true
        · have ho' : isOctDigit e = true := ho
          have dig : ∀ d : Char, isOct d = true → digitOf d = d.toNat - 48 ∧ d.toNat - 48 < 8 := by
            intro d hd
            unfold isOct at hd; unfold digitOf
            simp only [Bool.and_eq_true, decide_eq_true_eq] at hd
            dsimp only; split_ifs <;> omega
          have he8 := (dig e ho).2
          rcases tl with _ | ⟨d1, t1⟩
          · simp [decodeGo, scan, hlook, ho', valueBE, (dig e ho).1, hb_nl, h_nl, ho, hb_92, hb_39, hb_34, hb_8, hb_12, hb_9, hb_10, hb_13, hb_11, hb_7]
            cases bm
            · refine Rel_cons _ _ (compat_r _ _ ?_ ?_) (IHs [] ['\\', e] (by simp) rfl) <;> first | rfl | omega | (simp [EscItem.value]; omega)
            · refine Rel_cons _ _ (compat_b _ _ ?_) (IHs [] ['\\', e] (by simp) rfl) <;> first | rfl | (simp [EscItem.value]; omega)
          · by_cases ho1 : isOct d1 = true
            · have ho1' : isOctDigit d1 = true := ho1
              have hd8 := (dig d1 ho1).2
              rcases t1 with _ | ⟨d2, t2⟩
              · simp [decodeGo, scan, hlook, ho', ho1, ho1', valueBE, (dig e ho).1, (dig d1 ho1).1, hb_nl, h_nl, ho, hb_92, hb_39, hb_34, hb_8, hb_12, hb_9, hb_10, hb_13, hb_11, hb_7]
                cases bm
                · refine Rel_cons _ _ (compat_r _ _ ?_ ?_) (IHs [] ['\\', e, d1] (by simp) rfl) <;> first | rfl | omega | (simp [EscItem.value]; omega)
                · refine Rel_cons _ _ (compat_b _ _ ?_) (IHs [] ['\\', e, d1] (by simp) rfl) <;> first | rfl | (simp [EscItem.value]; omega)
              · by_cases ho2 : isOct d2 = true
                · have ho2' : isOctDigit d2 = true := ho2
                  have hd28 := (dig d2 ho2).2
                  simp [decodeGo, scan, hlook, ho', ho1, ho1', ho2, ho2', valueBE, (dig e ho).1, (dig d1 ho1).1, (dig d2 ho2).1, hb_nl, h_nl, ho, hb_92, hb_39, hb_34, hb_8, hb_12, hb_9, hb_10, hb_13, hb_11, hb_7]
                  cases bm
                  · refine Rel_cons _ _ (compat_r _ _ ?_ ?_) (IHs t2 ['\\', e, d1, d2] (by simp) rfl) <;> first | rfl | omega | (simp [EscItem.value]; omega)
                  · refine Rel_cons _ _ (compat_b _ _ ?_) (IHs t2 ['\\', e, d1, d2] (by simp) rfl) <;> first | rfl | (simp [EscItem.value]; omega)
                · have ho2f : isOct d2 = false := by simpa using ho2
                  have ho2' : isOctDigit d2 = false := ho2f
                  simp [decodeGo, scan, hlook, ho', ho1, ho1', ho2f, ho2', valueBE, (dig e ho).1, (dig d1 ho1).1, hb_nl, h_nl, ho, hb_92, hb_39, hb_34, hb_8, hb_12, hb_9, hb_10, hb_13, hb_11, hb_7]
                  cases bm
                  · refine Rel_cons _ _ (compat_r _ _ ?_ ?_) (IHs (d2 :: t2) ['\\', e, d1] (by simp) rfl) <;> first | rfl | omega | (simp [EscItem.value]; omega)
                  · refine Rel_cons _ _ (compat_b _ _ ?_) (IHs (d2 :: t2) ['\\', e, d1] (by simp) rfl) <;> first | rfl | (simp [EscItem.value]; omega)
            · have ho1f : isOct d1 = false := by simpa using ho1
              have ho1' : isOctDigit d1 = false := ho1f
              simp [decodeGo, scan, hlook, ho', ho1f, ho1', valueBE, (dig e ho).1, hb_nl, h_nl, ho, hb_92, hb_39, hb_34, hb_8, hb_12, hb_9, hb_10, hb_13, hb_11, hb_7]
              cases bm
              · refine Rel_cons _ _ (compat_r _ _ ?_ ?_) (IHs (d1 :: t1) ['\\', e] (by simp) rfl) <;> first | rfl | omega | (simp [EscItem.value]; omega)
              · refine Rel_cons _ _ (compat_b _ _ ?_) (IHs (d1 :: t1) ['\\', e] (by simp) rfl) <;> first | rfl | (simp [EscItem.value]; omega)
        have hof : isOct e = false := by simpa using ho
        have hof' : isOctDigit e = false := hof
        have hbs : pv bm (.r 92) = [EscItem.backslash.value bm] := pv_r_small bm (by decide)
        by_cases hx : e = 'x'
        · subst hx
          simp [decodeGo, scan, simpleEscapes, List.lookup, isOct, isOctDigit, decodeHex_eq]
          rcases hh : hexDigits 2 tl with _ | v
          · simp [Rel]
          · have hv := hexDigits_lt hh
            have hv' : ¬ (1114111 < v) := by omega
            simp only [hv', if_false]
            cases bm
            · refine Rel_cons _ _ (compat_r _ _ rfl (by omega)) (IHs (tl.drop 2) ('\\' :: 'x' :: tl.take 2) (by simp) (by simp))
            · refine Rel_cons _ _ (compat_b _ _ ?_) (IHs (tl.drop 2) ('\\' :: 'x' :: tl.take 2) (by simp) (by simp))
              simp [EscItem.value]; omega
        by_cases hu : e = 'u'
        · subst hu
          cases bm
          · simp [decodeGo, scan, simpleEscapes, List.lookup, isOct, isOctDigit, decodeHex_eq]
            rcases hh : hexDigits 4 tl with _ | v
            · simp [Rel]
            · have hv := hexDigits_lt hh
              have hv' : ¬ (1114111 < v) := by omega
              simp only [hv', if_false]
              exact Rel_cons _ _ (compat_uni v (by omega)) (IHs (tl.drop 4) ('\\' :: 'u' :: tl.take 4) (by simp) (by simp))
          · simp [decodeGo, scan, simpleEscapes, List.lookup, isOct, isOctDigit]
            exact Rel_cons _ _ (fun _ => hbs) (IHs ('u' :: tl) ['\\'] (by simp) rfl)
        by_cases hU : e = 'U'
        · subst hU
          cases bm
          · simp [decodeGo, scan, simpleEscapes, List.lookup, isOct, isOctDigit, decodeHex_eq]
            rcases hh : hexDigits 8 tl with _ | v
            · simp [Rel]
            · simp only []
              by_cases hv' : 1114111 < v
              · simp [hv', Rel]
              · simp only [hv', if_false]
                exact Rel_cons _ _ (compat_uni v (by omega)) (IHs (tl.drop 8) ('\\' :: 'U' :: tl.take 8) (by simp) (by simp))
          · simp [decodeGo, scan, simpleEscapes, List.lookup, isOct, isOctDigit]
            exact Rel_cons _ _ (fun _ => hbs) (IHs ('U' :: tl) ['\\'] (by simp) rfl)
        by_cases hN : e = 'N'
        · subst hN
          cases bm
          · simp only [List.length_cons] at hn hm
            cases n with
            | zero => omega
            | succ n' =>
              simp [decodeGo, scan, simpleEscapes, List.lookup, isOct, isOctDigit, except_map_map]
              exact Rel_cons_kf _ _ rfl (IH tl (by simp only [List.length_cons]; omega) (by intro x hx; simp [hx]) n' m (by omega) (by omega))
          · simp [decodeGo, scan, simpleEscapes, List.lookup, isOct, isOctDigit]
            exact Rel_cons _ _ (fun _ => hbs) (IHs ('N' :: tl) ['\\'] (by simp) rfl)
        have hbx : (e == 'x') = false := by simpa using hx
        have hbu : (e == 'u') = false := by simpa using hu
        have hbU : (e == 'U') = false := by simpa using hU
        simp [decodeGo, scan, hlook, hof, hof', hb_nl, h_nl, hb_92, hb_39, hb_34, hb_8, hb_12, hb_9, hb_10, hb_13, hb_11, hb_7, hbx, hbu, hbU, hx, hu, hU, hN]
        exact Rel_cons _ _ (fun _ => hbs) (IHs (e :: tl) ['\\'] (by simp) rfl)
    · have hc' : (c != '\\') = true := by simpa using hc
      simp only [decodeGo, scan, hc', hc, if_true, ne_eq, not_false_eq_true]
      exact Rel_cons _ _ (fun _ => pv_char bm c (fun hb => hasc hb c (by simp)))
        (IH rest (by simp) (by intro x hx; simp [hx]) n m (by simpa using hn) (by simpa using hm))

theorem decodeGo_noesc (bm : Bool) : ∀ (l : List Char) (n : Nat), l.contains '\\' = false → l.length ≤ n →
    decodeGo bm n l = .ok (l.map (fun c => Piece.r c.toNat)) := by
  intro l
  induction l with
  | nil => intro n _ _; cases n <;> rfl
  | cons c rest ih =>
    intro n hc hn
    cases n with
    | zero => simp at hn
    | succ n =>
      simp only [List.contains_cons, Bool.or_eq_false_iff] at hc
      have hne : (c != '\\') = true := by
        have := hc.1
        simp only [bne_iff_ne, ne_eq]
        intro h; subst h; simp at this
      simp only [decodeGo, hne, if_true]
      rw [ih n hc.2 (by simpa using hn)]
      rfl

theorem decodeEscape_eq (bm : Bool) (l : List Char) : decodeEscape l bm = decodeGo bm l.length l := by
  unfold decodeEscape
  split_ifs with h
  · rw [decodeGo_noesc bm l l.length (by simpa using h) (Nat.le_refl _)]
  · rfl

theorem fin_true (ps : List Piece) : fin true ps = ps.flatMap Piece.bytes := by
  have : pv true = Piece.bytes := by funext p; simp [pv]
  simp [fin, this]
theorem fin_false (ps : List Piece) : fin false ps = ps.map Piece.rune := by
  induction ps with
  | nil => rfl
  | cons p ps ih => simp only [fin, List.flatMap_cons, List.map_cons] at ih ⊢; rw [ih]; simp [pv]

theorem fin_raw (bm : Bool) : ∀ (l : List Char), (bm = true → ∀ c ∈ l, c.toNat < 128) →
    fin bm (l.map (fun c => Piece.r c.toNat)) = l.map Char.toNat := by
  intro l
  induction l with
  | nil => intro _; rfl
  | cons c rest ih =>
    intro h
    simp only [fin, List.map_cons, List.flatMap_cons] at ih ⊢
    rw [pv_char bm c (fun hb => h hb c (by simp)), ih (fun hb x hx => h hb x (by simp [hx]))]
    rfl

/-- the literal-value part of `readString` (ASCII check for bytes, raw strings, DecodeEscape) computes the value
the reference defines, for every body and every prefix, outside the two recorded known findings -/
theorem strValue_spec (raw bytes : Bool) (body : List Char) (hk : kfEscape raw bytes body = false) :
    GPy.C06.strValue raw bytes body = Spec.strValue raw bytes body := by
  unfold GPy.C06.strValue Spec.strValue
  by_cases hb : (bytes && body.any (fun c => decide (c.toNat ≥ 128))) = true
  · have hb' : bytes = true ∧ (body.any fun c => decide (c.toNat ≥ 128)) = true := by simpa using hb
    simp [hb']
  · have hasc : bytes = true → ∀ c ∈ body, c.toNat < 128 := by
      intro h c hc
      simp only [h, Bool.true_and, List.any_eq_true, decide_eq_true_eq, not_exists, not_and, Nat.not_le] at hb
      exact hb c hc
    have hb2 : ¬ (bytes = true ∧ (body.any fun c => decide (c.toNat ≥ 128)) = true) := by simpa using hb
    simp only [hb, Bool.false_eq_true, if_false, hb2]
    cases raw with
    | true =>
      have := fin_raw bytes body hasc
      cases bytes
      · simp only [fin_false] at this; simp [this]
      · simp only [fin_true] at this; simp [this]
    | false =>
      simp only [Bool.false_eq_true, if_false, decodeEscape_eq]
      have hr := rel_main bytes body.length body rfl hasc body.length body.length (Nat.le_refl _) (Nat.le_refl _)
      cases hs : scan bytes body.length body with
      | error e =>
        rw [hs] at hr; simp only [Rel] at hr; rw [hr]
      | ok items =>
        rw [hs] at hr
        obtain ⟨ps, hps, hv⟩ := hr
        rw [hps]
        cases bytes
        · have hk' : items.any EscItem.isKf = false := by
            simp only [kfEscape, Bool.not_false, Bool.true_and, hs] at hk; exact hk
          have := hv (Or.inr hk')
          simp only [fin_false] at this
          simp [this]
        · have := hv (Or.inl rfl)
          simp only [fin_true] at this
          simp [this]


/-! ## 4. readOperator -/

theorem readOperator_spec (line : List Char) (p : P) (rest : List Char) (h : readOperator line = some (p, rest)) :
    ∃ i, 1 ≤ i ∧ i ≤ 3 ∧ i ≤ line.length ∧ operators.lookup (line.take i) = some p ∧ rest = line.drop i ∧
      ∀ j, i < j → j ≤ 3 → j ≤ line.length → operators.lookup (line.take j) = none := by
  unfold readOperator at h
  dsimp only at h
  have key : ∀ i, (if line.length ≥ i then (operators.lookup (line.take i)).map (·, line.drop i) else none) = some (p, rest) →
      i ≤ line.length ∧ operators.lookup (line.take i) = some p ∧ rest = line.drop i := by
    intro i hi
    split_ifs at hi with hl
    cases hlk : operators.lookup (line.take i) with
    | none => simp [hlk] at hi
    | some q =>
      simp only [hlk, Option.map_some, Option.some.injEq, Prod.mk.injEq] at hi
      exact ⟨hl, by rw [hi.1], hi.2.symm⟩
  have keyn : ∀ i, (if line.length ≥ i then (operators.lookup (line.take i)).map (·, line.drop i) else none) = none →
      i ≤ line.length → operators.lookup (line.take i) = none := by
    intro i hi hl
    simp only [ge_iff_le, hl, if_true] at hi
    cases hlk : operators.lookup (line.take i) with
    | none => rfl
    | some q => simp [hlk] at hi
  split at h
  · rename_i r h3
    simp only [Option.some.injEq] at h; subst h
    obtain ⟨a, b, c⟩ := key 3 h3
    exact ⟨3, by omega, by omega, a, b, c, fun j h1 h2 _ => by omega⟩
  · rename_i h3
    split at h
    · rename_i r h2
      simp only [Option.some.injEq] at h; subst h
      obtain ⟨a, b, c⟩ := key 2 h2
      refine ⟨2, by omega, by omega, a, b, c, fun j h1 h2' hl => ?_⟩
      have : j = 3 := by omega
      subst this
      exact keyn 3 h3 hl
    · rename_i h2
      obtain ⟨a, b, c⟩ := key 1 h
      refine ⟨1, by omega, by omega, a, b, c, fun j h1 h2' hl => ?_⟩
      have : j = 2 ∨ j = 3 := by omega
      rcases this with rfl | rfl
      · exact keyn 2 h2 hl
      · exact keyn 3 h3 hl

end GPy.C06
