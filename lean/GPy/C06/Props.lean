/-
C06 property theorems (all kernel-checked, no hypotheses bounding sizes, depths or lengths):
  * `generated_table_eq_python34` + `table_*_row`: the precedence-level table regenerated from parser/grammar.y is the §6.15 table
  * `lexer_indent_balanced`, `lexer_indent_stack_increasing`: invariants of the Lex state machine over every input
  * `decode_escape_spec_partial` / `_bytes` / `_raw` (+ witnesses for C06-K05/K06): literal values against the reference escape table
  * `read_operator_longest_match`
  * `parse_render_roundtrip` (+ `_at_level`, `_tokens`, `_text`): the cascade parser driven by the generated table inverts the
    printer `Spec.render` for EVERY well-formed tree and EVERY layout (all depths; proof in RTBase/RTMain/RTForms/RTFinal)
  * `int_literal_value`, `int_literal_illegal`: every spelling of the integer-literal grammar denotes Python's value in `readNumber`
NOT proved yet (tied by the correspondence run only): `lex_render` (text level), `reject_outside`.
-/
import GPy.C06.Proofs
import GPy.C06.RTFinal
import GPy.C06.IntLitCtx
import GPy.C06.RTSound
import GPy.C06.Stmt
import GPy.C06.Lists
import GPy.C06.RulePins
namespace GPy.C06
open Spec

/-- the precedence-level table regenerated from parser/grammar.y is the Python 3.4 table (§6.15) -/
theorem generated_table_eq_python34 : Generated.table = python34Table := by decide

/-- every left-associative binary operator sits in the grammar table at exactly the row §6.15 gives it, spelled by its own token
(this is the lemma through which the round-trip proof reads the left-associative rows of `Generated.table`) -/
theorem table_binop_row (op : BinOp) (h : op ≠ .pow) :
    ∃ ops, Generated.table[op.level]? = some (.left ops) ∧ ops.lookup op.tok = some op := RT.row_binop op h

/-- `**`: row 12, right operand parsed at the unary row 11 (so `-a**-b` is `-(a**(-b))`) -/
theorem table_power_row : Generated.table[BinOp.pow.level]? = some (.power BinOp.pow.tok .pow (UnOp.level .usub)) := RT.row_power

theorem table_unop_row (op : UnOp) :
    ∃ ops, Generated.table[op.level]? = some (.pre ops) ∧ ops.lookup op.tok = some op := RT.row_unop op

theorem table_boolop_row (op : BoolOp) : Generated.table[op.level]? = some (.nary op.tok op) := RT.row_boolop op

/-- every comparison operator is in the single comparison row, spelled by its one or two tokens -/
theorem table_cmpop_row (op : CmpOp) :
    ∃ ops, Generated.table[cmpLevel]? = some (.chain ops) ∧
      ops.lookup (match op.toks with | [t] => .one t | [t, u] => .two t u | _ => .one .newline) = some op := by
  cases op <;> exact ⟨_, rfl, by decide⟩

/-- the comparison row as the round-trip proof uses it: in front of any token that may start an operand of the next row
(in particular not `not`), `comp_op` recognises exactly the operator that was printed -/
theorem table_cmpop_match : ∃ ops, Generated.table[cmpLevel]? = some (.chain ops) ∧
    ∀ (o : CmpOp) (u : Tok) (r : List Tok), RT.startTok 5 u = true → matchCmp ops (o.toks ++ u :: r) = some (o, u :: r) := RT.row_cmp

/-- `lambda` / `if–else` is row 0 and rows 0 … 11 are not the `power` row (what the descent through the cascade uses) -/
theorem table_ternary_row : Generated.table[0]? = some .ternary := RT.row_ternary
theorem table_rows_below_power : ∀ j, j < 12 → ∃ L, Generated.table[j]? = some L ∧ RT.Level.isPower L = false := RT.row_below_power

/-- each token continues at most one row: the rows of the table use pairwise distinct operator tokens -/
theorem table_binop_tokens_distinct (a b : BinOp) (h : a.tok = b.tok) : a = b := by
  cases a <;> cases b <;> first | rfl | (exact absurd h (by decide))

/-! ### the indentation machine -/

/-- **lexer_indent_balanced** – for EVERY input text and every mode: if the lexer accepts (reaches its end
state without flagging an error) then the token stream it produced contains exactly as many INDENT
as DEDENT tokens. -/
theorem lexer_indent_balanced (input : List Char) (mode : Mode) (toks : List Tok)
    (h : lexString input mode = .ok toks) :
    toks.count .indent = toks.count .dedent := by
  unfold lexString at h
  split at h
  · simp at h
  · rename_i s out hr
    split_ifs at h with he
    simp only [LexOut.ok.injEq] at h
    subst h
    have := (run_inv _ _ _ _ _ _ hr (initLex_inv input mode)).2 rfl (by simpa using he)
    obtain ⟨hs, hq, hi⟩ := this
    have hb := hi.bal
    have hl := hi.fin hs
    rw [hq, hl] at hb
    simp only [nI, nD, List.count_nil] at hb
    simp only [List.count_reverse]
    omega

/-- the indent stack is non-empty and strictly increasing (bottom to top) in every state the lexer reaches
while it has not flagged an error, for every input and any number of steps -/
theorem lexer_indent_stack_increasing (input : List Char) (mode : Mode) (n : Nat) (s : LexSt) (out : List Tok)
    (h : run n (initLex input mode) [] = (s, out, false)) :
    s.stack ≠ [] ∧ s.stack.reverse.Pairwise (· < ·) := by
  have hi := (run_inv _ _ _ _ _ _ h (initLex_inv input mode)).1 rfl
  exact ⟨hi.ne, List.pairwise_reverse.mpr hi.sorted⟩

/-- non-vacuity: a text with nested blocks (second level indented by a tab) is accepted, with two INDENTs and two DEDENTs -/
example : lexString ['1', '\n', ' ', ' ', '2', '\n', '\t', '3', '\n', '4', '\n'] .exec =
    .ok [.start .exec, .num (.int 1), .newline, .indent, .num (.int 2), .newline, .indent, .num (.int 3), .newline,
         .dedent, .dedent, .num (.int 4), .newline, .endmarker] := by decide

/-! ### string literal values -/

/-- **decode_escape_spec** (partial: outside the recorded findings C06-K05 `\\N{name}` and C06-K06 surrogate escapes).
For EVERY body (any list of characters) and every combination of the raw / bytes prefix flags, the value the
lexer computes (ASCII check for bytes, raw strings untouched, `DecodeEscape` rune by rune) is the value the
Python reference defines: the escape table of §2.4.1, up to three octal digits, exactly two/four/eight hex digits,
unknown escapes keep their backslash, errors exactly where the reference has them. -/
theorem decode_escape_spec_partial (raw bytes : Bool) (body : List Char) (hk : kfEscape raw bytes body = false) :
    GPy.C06.strValue raw bytes body = Spec.strValue raw bytes body :=
  strValue_spec raw bytes body hk

/-- bytes literals: no exclusion at all -/
theorem decode_escape_spec_bytes (raw : Bool) (body : List Char) :
    GPy.C06.strValue raw true body = Spec.strValue raw true body :=
  strValue_spec raw true body (by simp [kfEscape])

/-- raw literals: no exclusion at all -/
theorem decode_escape_spec_raw (bytes : Bool) (body : List Char) :
    GPy.C06.strValue true bytes body = Spec.strValue true bytes body :=
  strValue_spec true bytes body (by simp [kfEscape])

/-- `DecodeEscape` itself (the function the harness also drives directly) against the reference scanner -/
theorem decodeEscape_rel (bm : Bool) (body : List Char) (hasc : bm = true → ∀ c ∈ body, c.toNat < 128) :
    Rel bm (decodeEscape body bm) (scan bm body.length body) := by
  rw [decodeEscape_eq]
  exact rel_main bm body.length body rfl hasc _ _ (Nat.le_refl _) (Nat.le_refl _)

/-- non-vacuity of the hypothesis, at a body with several escape kinds -/
example : kfEscape false false ['a', '\\', 'x', '4', '1', '\\', '1', '0', '1', '\\', 'q', '\\', 'u', '0', '0', 'e', '9'] = false := by decide

/-- C06-K05: `\\N{BULLET}` keeps all its characters instead of denoting U+2022 -/
theorem decode_escape_named_witness :
    GPy.C06.strValue false false ['\\', 'N', '{', 'B', 'U', 'L', 'L', 'E', 'T', '}'] =
      .ok (.s [92, 78, 123, 66, 85, 76, 76, 69, 84, 125]) := by rfl

/-- C06-K06: `\\ud800` yields U+FFFD where Python's str holds the surrogate U+D800 -/
theorem decode_escape_surrogate_witness :
    GPy.C06.strValue false false ['\\', 'u', 'd', '8', '0', '0'] = .ok (.s [0xFFFD]) ∧
    Spec.strValue false false ['\\', 'u', 'd', '8', '0', '0'] = .ok (.s [0xD800]) := ⟨by rfl, by rfl⟩

/-! ### operators -/

/-- **readOperator longest match**: the operator token returned is the longest of the 3-, 2- and 1-character
prefixes of the line that is in the operator table (for every line) -/
theorem read_operator_longest_match (line : List Char) (p : P) (rest : List Char) (h : readOperator line = some (p, rest)) :
    ∃ i, 1 ≤ i ∧ i ≤ 3 ∧ i ≤ line.length ∧ operators.lookup (line.take i) = some p ∧ rest = line.drop i ∧
      ∀ j, i < j → j ≤ 3 → j ≤ line.length → operators.lookup (line.take j) = none :=
  readOperator_spec line p rest h

example : readOperator ['*', '*', '=', 'x'] = some (.starstareq, ['x']) := by decide
example : readOperator ['*', '*', ' ', 'x'] = some (.starstar, [' ', 'x']) := by decide

/-! ### the parse / print round trip of the expression cascade -/

/-- **parse_render_roundtrip**.  For EVERY tree `e` of the modelled expression fragment that the grammar can produce
(`WF`: a BoolOp has ≥ 2 operands, a Compare ≥ 1 comparator) and EVERY layout `ℓ` (any number of redundant parentheses at
every node, trailing commas in every call / display), parsing the token spelling `render ℓ e` as `eval_input`
(followed by any number of NEWLINE tokens and ENDMARKER) yields exactly `e`.  No bound on depth, width or fuel:
the fuel `parseEvalToks` supplies is shown sufficient. -/
theorem parse_render_roundtrip (e : Expr) (hwf : WF e = true) (ℓ : Layout) (nl : Nat) :
    parseEvalToks (.start .eval :: (render ℓ e ++ (List.replicate nl .newline ++ [.endmarker]))) = some e :=
  RT.roundtrip_evalToks e hwf ℓ nl

/-- the general form: at every level `k` of the cascade, in front of every continuation `rest` that cannot extend an
operand of level `k` (`RT.Follow`), with every fuel ≥ 16·|tokens| + 14 − k, the parser returns the tree and leaves `rest`.
Precedence, associativity (left rows, right-associative `**` with its unary right operand), n-ary flattening of
`and`/`or`, comparison chains incl. the two-token operators, conditional / lambda, trailers, displays are all covered. -/
theorem parse_render_roundtrip_at_level (e : Expr) (hwf : WF e = true) (ℓ : Layout) (p : List Nat) (k : Nat) (hk : k ≤ 12)
    (rest : List Tok) (hf : RT.Follow k rest) (n : Nat) (hn : 16 * (rAt ℓ p k e).length + (14 - k) ≤ n) :
    parseAt Generated.table n k (rAt ℓ p k e ++ rest) = some (e, rest) :=
  RT.roundtrip_parseAt e hwf ℓ p k hk rest hf n hn

theorem parse_render_roundtrip_tokens (e : Expr) (hwf : WF e = true) (ℓ : Layout) (n : Nat)
    (hn : 16 * (render ℓ e).length + 14 ≤ n) : parseExpr n (render ℓ e) = some e :=
  RT.roundtrip_parseExpr e hwf ℓ n hn

/-- consequence: no token spelling is shared by two different trees - whatever the layouts, equal spellings mean equal trees
(so the parser cannot return "some other tree" for a legal spelling, and the printer is unambiguous) -/
theorem render_unambiguous (e e' : Expr) (hwf : WF e = true) (hwf' : WF e' = true) (ℓ ℓ' : Layout)
    (h : render ℓ e = render ℓ' e') : e = e' := by
  have h1 := parse_render_roundtrip_tokens e hwf ℓ (16 * (render ℓ e).length + 14) (Nat.le_refl _)
  have h2 := parse_render_roundtrip_tokens e' hwf' ℓ' (16 * (render ℓ' e').length + 14) (Nat.le_refl _)
  rw [h, h2] at h1
  exact (Option.some.inj h1).symm

/-- text level, modulo the (not yet proved) `lex_render`: ANY text whose token stream is a rendering of `e` parses to `e` -/
theorem parse_render_roundtrip_text (text : List Char) (e : Expr) (hwf : WF e = true) (ℓ : Layout) (nl : Nat)
    (hlex : lexString text .eval = .ok (.start .eval :: (render ℓ e ++ (List.replicate nl .newline ++ [.endmarker])))) :
    ∃ e', parseEvalString text = .ok e' ∧ e' = e := by
  unfold parseEvalString
  rw [hlex]
  simp only [parse_render_roundtrip e hwf ℓ nl]
  exact ⟨e, rfl, rfl⟩

/-- the converse inclusion for `WF`: every tree the cascade parser yields - any fuel, level, token list (and any table) - is well
formed, so the hypothesis `WF e` of the round-trip theorems is exactly "`e` is in the range of the modelled grammar" -/
theorem parser_yields_wellformed (n k : Nat) (ts : List Tok) (e : Expr) (r : List Tok)
    (h : parseAt Generated.table n k ts = some (e, r)) : WF e = true := RT.parseAt_wf _ n k ts e r h

/-- non-vacuity: `-a ** -b < c is not (not d)` and `f(x,)[i].y if not p else lambda u, v: (u, v)` are well formed;
the second instance also shows the hypotheses of the level form are satisfiable at a non-trivial point -/
example : WF (.cmp (.un .usub (.bin .pow (.name "a") (.un .usub (.name "b")))) [(.lt, .name "c"), (.isnot, .un .not (.name "d"))]) = true := by decide
example : WF (.ifexp (.un .not (.name "p")) (.attr (.sub (.call (.name "f") [.name "x"]) (.name "i")) "y")
    (.lambda ["u", "v"] (.tuple [.name "u", .name "v"]))) = true := by decide
example : RT.Follow 10 [.p .plus, .name "z"] := by show RT.stopTok 10 (.p .plus) = true; decide
example : parseEvalToks (.start .eval :: (render ⟨fun _ => 1, fun _ => true⟩ (.bin .sub (.name "a") (.bin .sub (.name "b") (.name "c"))) ++ [.newline, .endmarker]))
    = some (.bin .sub (.name "a") (.bin .sub (.name "b") (.name "c"))) := parse_render_roundtrip _ (by decide) _ 1

/-! ### integer literals -/

/-- **int_literal_value**: every spelling `s` of the integer-literal grammar of §2.4.4 (decimal, `0x`/`0X`, `0o`/`0O`, `0b`/`0B`,
any number of leading zeros after the prefix, `0`+) is read by `readNumber` as ONE token with exactly the value Python defines,
consuming the whole spelling.  For every `s` and `n`, no length bound. -/
theorem int_literal_value (s : List Char) (n : Nat) (h : Spec.intLit s = .value n) : readNumber s = .ok (.int n) [] :=
  intLit_value_readNumber s n h

/-- digit strings with a leading zero that are not all zeros (`0777`) are outside the grammar and rejected -/
theorem int_literal_illegal (s : List Char) (h : Spec.intLit s = .illegal) : readNumber s = .bad :=
  intLit_illegal_readNumber s h

/-- the same in context: followed by any text `rest` whose first character cannot continue a number or identifier
(operator, bracket, blank, newline, end of line; `stopChar`), the spelling lexes to the same single token and leaves exactly `rest` -/
theorem int_literal_value_in_context (s rest : List Char) (n : Nat) (h : Spec.intLit s = .value n)
    (hr : ∀ c r, rest = c :: r → stopChar c = true) : readNumber (s ++ rest) = .ok (.int n) rest :=
  intLit_value_readNumber_ctx s rest n h hr

theorem int_literal_illegal_in_context (s rest : List Char) (h : Spec.intLit s = .illegal)
    (hr : ∀ c r, rest = c :: r → stopChar c = true) : readNumber (s ++ rest) = .bad :=
  intLit_illegal_readNumber_ctx s rest h hr

example : stopChar '+' = true ∧ stopChar ')' = true ∧ stopChar ' ' = true ∧ stopChar 'e' = false := by decide

/-- conversely the lexer's "illegal decimal with leading zero" fires on a digit string only where the reference says illegal -/
theorem int_literal_bad_only_illegal (s : List Char) (hne : s ≠ []) (hall : s.all isDigit = true)
    (hb : s.head? = some '0' ∧ s.any (fun c => c != '0') = true) : Spec.intLit s = .illegal :=
  readNumber_bad_digits s hne hall hb

example : Spec.intLit "0x1F".toList = .value 31 := by decide
example : Spec.intLit "0777".toList = .illegal := by decide

/-! ### the statement grammar (GPy.C06.Stmt): regression anchors of the repaired defects

No general theorem is proved about the statement parser; these are evaluations (kernel `decide`) at the recorded witnesses:
with the repaired check on (the code as it is) the text is rejected, with the check switched off (the code before the fix)
it was accepted. -/

/-- `(a, b) += 1` (was C06-K01, fix cbae5b7) -/
def k01Toks : List Tok := [.start .exec, .p .lpar, .name "a", .p .comma, .name "b", .p .rpar, .p .pluseq, .num (.int 1), .newline, .endmarker]
/-- `try:` NEWLINE INDENT `pass` NEWLINE DEDENT (was C06-K02, fix 787d2c3) -/
def k02Toks : List Tok := [.start .exec, .k .try_, .p .colon, .newline, .indent, .k .pass_, .newline, .dedent, .endmarker]
/-- `def f(*): pass` (was C06-K03, fix 05ee8d3) -/
def k03Toks : List Tok := [.start .exec, .k .def_, .name "f", .p .lpar, .p .star, .p .rpar, .p .colon, .k .pass_, .newline, .endmarker]

theorem stmt_augassign_display_rejected :
    (parseFileToks k01Toks).isNone = true ∧ (parseFileToksWith { augTarget := false } k01Toks).isSome = true := by decide +kernel
theorem stmt_try_without_handler_rejected :
    (parseFileToks k02Toks).isNone = true ∧ (parseFileToksWith { tryHandlers := false } k02Toks).isSome = true := by decide +kernel
theorem stmt_bare_star_rejected :
    (parseFileToks k03Toks).isNone = true ∧ (parseFileToksWith { bareStar := false } k03Toks).isSome = true := by decide +kernel

/-! ### the enlarged grammar (GPy.C06.X, round ext2): comma-separated lists and their trailing commas

`X.listLoop` is the ONE loop `(',' item)* [',']` with which X.lean parses every list of the grammar (tuple / list / set
displays, dict items, subscript lists, testlist, testlist_star_expr, exprlist).  The theorems below are about that loop
(any item parser that round-trips on the items; any number of items; with and without trailing comma) and about the
semantic actions that read the trailing-comma flag.  The parser functions of the big mutual block of X.lean
(arglist, varargslist, comprehension clauses, …) are tied by the correspondence run and by the kernel evaluations at the end. -/

open X in
/-- the list loop returns exactly the rendered items and whether a trailing comma was written, for EVERY item parser that
round-trips on the items of the list in front of the continuations `Stop` (which must contain everything that starts with a comma) -/
theorem list_loop_roundtrip {α : Type} (item : List Tok → X.R α) (starts : List Tok → Bool) (rItem : α → List Tok)
    (Stop : List Tok → Prop) (hcomma : ∀ r, Stop (.p .comma :: r)) (as : List α) (tc : Bool) (rest : List Tok) (f : Nat)
    (hitem : ∀ a ∈ as, ∀ r, Stop r → item (rItem a ++ r) = some (a, r))
    (hstart : ∀ a ∈ as, ∀ r, starts (rItem a ++ r) = true)
    (hstop : Stop rest) (hs : starts rest = false) (hnc : ∀ r, rest ≠ .p .comma :: r) (hf : as.length + 1 ≤ f) :
    listLoop item starts f (renderMore rItem as tc ++ rest) = some (as, tc, rest) :=
  listLoop_roundtrip item starts rItem Stop hcomma as tc rest f hitem hstart hstop hs hnc hf

/-- instance without hypotheses on the items: lists of NAMEs (`names` of global / nonlocal, plain parameter lists) -/
theorem list_roundtrip_names (ns : List String) (tc : Bool) (rest : List Tok) (hs : X.startsName rest = false)
    (hnc : ∀ r, rest ≠ .p .comma :: r) :
    X.listLoop X.nameItem X.startsName (ns.length + 1) (X.renderMore (fun s => [Tok.name s]) ns tc ++ rest) = some (ns, tc, rest) :=
  X.names_roundtrip ns tc rest hs hnc

example : X.listLoop X.nameItem X.startsName 3 ([.p .comma, .name "a", .p .comma, .name "b", .p .comma] ++ [.newline]) = some (["a", "b"], true, [.newline]) :=
  list_roundtrip_names ["a", "b"] true [.newline] rfl (by intro r h; cases h)

/-- instance over the PROVED expression fragment: the items are arbitrary well-formed `Expr` trees in arbitrary layouts,
parsed by the cascade parser `parseAt Generated.table N 0` (round trip = `parse_render_roundtrip_at_level`).
`_partial`: the FIRST-set fact "the spelling of an item begins with a token that can begin a `test`" (the one-token
lookahead after a comma) is a hypothesis per item (`hfirst`), not derived from the printer. -/
theorem list_roundtrip_exprs_partial (es : List Expr) (hwf : ∀ e ∈ es, WF e = true) (ℓ : Layout) (p : List Nat) (tc : Bool)
    (rest : List Tok) (N f : Nat) (hN : ∀ e ∈ es, 16 * (rAt ℓ p 0 e).length + 14 ≤ N)
    (hfirst : ∀ e ∈ es, ∀ r, X.startsTest (rAt ℓ p 0 e ++ r) = true)
    (hrest : RT.Follow 0 rest) (hs : X.startsTest rest = false) (hnc : ∀ r, rest ≠ .p .comma :: r) (hf : es.length + 1 ≤ f) :
    X.listLoop (fun ts => parseAt Generated.table N 0 ts) X.startsTest f (X.renderMore (rAt ℓ p 0) es tc ++ rest) = some (es, tc, rest) :=
  X.listLoop_roundtrip _ _ _ (RT.Follow 0) RT.follow_comma es tc rest f
    (fun e he r hr => parse_render_roundtrip_at_level e (hwf e he) ℓ p 0 (by omega) r hr N (by have := hN e he; omega))
    hfirst hrest hs hnc hf

/-- **classification of the trailing comma** by the semantic actions of the grammar (`tupleOrExpr` = action of testlist,
testlist_star_expr, exprlist, the parenthesised tuple, the yield value, for / comprehension targets;
`X.subscriptOf` = actions of subscripts + subscriptlist + trailer):
irrelevant for 0 or ≥ 2 items of a tuple-like list and for ≥ 2 subscripts; SIGNIFICANT for exactly one item: `a,` is the
1-tuple and `a` the item; `x[a,]` is Index(Tuple [a]) and `x[a]` Index(a); `x[a:b,]` is ExtSlice [Slice] and `x[a:b]` the Slice.
(List / set / dict displays, argument lists and parameter lists have no action reading the flag: `X.pAtom` / `X.pArgs` /
`X.pParams` discard it or reject the comma; see the kernel evaluations below and the xlist cases of the correspondence run.) -/
theorem trailing_comma_irrelevant_or_significant :
    (∀ es : List X.XE, es.length ≠ 1 → X.tupleOrExpr es true = X.tupleOrExpr es false) ∧
    (∀ e : X.XE, X.tupleOrExpr [e] false = e ∧ X.tupleOrExpr [e] true = .tuple [e]) ∧
    (∀ (a b : X.XSlice) (rest : List X.XSlice), X.subscriptOf (a :: b :: rest) true = X.subscriptOf (a :: b :: rest) false) ∧
    (∀ e : X.XE, X.subscriptOf [.index e] false = .index e ∧ X.subscriptOf [.index e] true = .index (.tuple [e])) ∧
    (∀ lo up st : Option X.XE, X.subscriptOf [.slice lo up st] false = .slice lo up st ∧
      X.subscriptOf [.slice lo up st] true = .ext [.slice lo up st]) :=
  ⟨X.tupleOrExpr_comma_irrelevant, X.tupleOrExpr_comma_significant, X.subscript_comma_irrelevant, X.subscript_comma_index, X.subscript_comma_slice⟩

/-- a subscript list of ≥ 2 items is the ExtSlice of exactly its items when a Slice is among them, else Index(Tuple) -/
theorem subscript_list_tree (a b : X.XSlice) (rest : List X.XSlice) (tc : Bool) :
    (X.allIndex (a :: b :: rest) = none → X.subscriptOf (a :: b :: rest) tc = .ext (a :: b :: rest)) ∧
    (∀ es, X.allIndex (a :: b :: rest) = some es → X.subscriptOf (a :: b :: rest) tc = .index (.tuple es)) :=
  ⟨X.subscript_ext a b rest tc, fun es h => X.subscript_all_index a b rest tc es h⟩

/-! kernel evaluations of the token-level parser of X.lean at the witnesses of the classification (tests, not ∀-theorems) -/

def evToks (ts : List Tok) : List Tok := .start .eval :: ts ++ [.newline, .endmarker]

/-- `x[a:b,]` → ExtSlice [Slice a b], `x[a:b]` → Slice a b, `x[a,]` → Index(Tuple [a]) (the seed C06-b breaks the first) -/
theorem x_subscript_trailing_comma_witness :
    (match X.parseEvalToksWith {} (evToks [.name "x", .p .lsqb, .name "a", .p .colon, .name "b", .p .comma, .p .rsqb]) with
      | some (.sub (.name "x") (.ext [.slice (some (.name "a")) (some (.name "b")) none])) => true | _ => false) = true ∧
    (match X.parseEvalToksWith {} (evToks [.name "x", .p .lsqb, .name "a", .p .colon, .name "b", .p .rsqb]) with
      | some (.sub (.name "x") (.slice (some (.name "a")) (some (.name "b")) none)) => true | _ => false) = true ∧
    (match X.parseEvalToksWith {} (evToks [.name "x", .p .lsqb, .name "a", .p .comma, .p .rsqb]) with
      | some (.sub (.name "x") (.index (.tuple [.name "a"]))) => true | _ => false) = true := by decide +kernel

/-- argument and parameter lists: `f(a,)` = `f(a)`; no trailing comma after `*s` / `**w` (3.4) -/
theorem x_arglist_trailing_comma_witness :
    (match X.parseEvalToksWith {} (evToks [.name "f", .p .lpar, .name "a", .p .comma, .p .rpar]) with
      | some (.call (.name "f") [.name "a"] [] none none) => true | _ => false) = true ∧
    (X.parseEvalToksWith {} (evToks [.name "f", .p .lpar, .p .star, .name "s", .p .comma, .p .rpar])).isNone = true ∧
    (X.parseEvalToksWith {} (evToks [.name "f", .p .lpar, .p .starstar, .name "w", .p .comma, .p .rpar])).isNone = true ∧
    (X.parseEvalToksWith {} (evToks [.k .lambda_, .name "a", .p .comma, .p .colon, .num (.int 0)])).isSome = true ∧
    (X.parseEvalToksWith {} (evToks [.k .lambda_, .p .star, .name "s", .p .comma, .p .colon, .num (.int 0)])).isNone = true := by decide +kernel

/-- `f(a for a in b, c)` is rejected with the repaired check (fix bec25ac) and was accepted without it -/
theorem x_genexp_not_sole_argument_rejected :
    (X.parseEvalToksWith {} (evToks [.name "f", .p .lpar, .name "a", .k .for_, .name "a", .k .in_, .name "b", .p .comma, .name "c", .p .rpar])).isNone = true ∧
    (X.parseEvalToksWith { genexpSole := false } (evToks [.name "f", .p .lpar, .name "a", .k .for_, .name "a", .k .in_, .name "b", .p .comma, .name "c", .p .rpar])).isSome = true := by decide +kernel

/-! ### the rule pins (GPy.C06.RulePins): shape and action fingerprint of every modelled rule of parser/grammar.y
(regenerated into GeneratedRules.lean on every run, y.go checked to agree) equal the values the Lean grammars were
written against; one theorem per nonterminal there, the ones the list layer depends on restated here -/

theorem rule_subscriptlist_pinned : GeneratedRules.lookup "subscriptlist" = some RulePins.expected_subscriptlist := RulePins.rule_subscriptlist_pinned
theorem rule_subscripts_pinned : GeneratedRules.lookup "subscripts" = some RulePins.expected_subscripts := RulePins.rule_subscripts_pinned
theorem rule_subscript_pinned : GeneratedRules.lookup "subscript" = some RulePins.expected_subscript := RulePins.rule_subscript_pinned
theorem rule_trailer_pinned : GeneratedRules.lookup "trailer" = some RulePins.expected_trailer := RulePins.rule_trailer_pinned
theorem rule_arglist_pinned : GeneratedRules.lookup "arglist" = some RulePins.expected_arglist := RulePins.rule_arglist_pinned
theorem rule_testlist_pinned : GeneratedRules.lookup "testlist" = some RulePins.expected_testlist := RulePins.rule_testlist_pinned
theorem rule_atom_pinned : GeneratedRules.lookup "atom" = some RulePins.expected_atom := RulePins.rule_atom_pinned
theorem rule_optional_comma_pinned : GeneratedRules.lookup "optional_comma" = some RulePins.expected_optional_comma := RulePins.rule_optional_comma_pinned
theorem rules_modelled_pinned : GeneratedRules.modelled = RulePins.expected.map (·.lhs) := RulePins.modelled_pinned

end GPy.C06
