/-
C06 property theorems (all kernel-checked, no hypotheses bounding sizes, depths or lengths):
  * `generated_table_eq_python34` + `table_*_row`: the precedence-level table regenerated from parser/grammar.y is the §6.15 table
  * `lexer_indent_balanced`, `lexer_indent_stack_increasing`: invariants of the Lex state machine over every input
  * `decode_escape_spec_partial` / `_bytes` / `_raw` (+ witnesses for C06-K05/K06): literal values against the reference escape table
  * `read_operator_longest_match`
NOT proved yet (tied by the correspondence run only): `parse_render_roundtrip`, `int_literal_value`, `reject_outside`.
-/
import GPy.C06.Proofs
namespace GPy.C06
open Spec

/-- the precedence-level table regenerated from parser/grammar.y is the Python 3.4 table (§6.15) -/
theorem generated_table_eq_python34 : Generated.table = python34Table := by decide

/-- every left-associative binary operator sits in the grammar table at exactly the row §6.15 gives it, spelled by its own token -/
theorem table_binop_row (op : BinOp) (h : op ≠ .pow) :
    ∃ ops, Generated.table[op.level]? = some (.left ops) ∧ ops.lookup op.tok = some op := by
  cases op <;> first | exact absurd rfl h | exact ⟨_, rfl, by decide⟩

/-- `**`: row 12, right operand parsed at the unary row 11 (so `-a**-b` is `-(a**(-b))`) -/
theorem table_power_row : Generated.table[BinOp.pow.level]? = some (.power BinOp.pow.tok .pow (UnOp.level .usub)) := by decide

theorem table_unop_row (op : UnOp) :
    ∃ ops, Generated.table[op.level]? = some (.pre ops) ∧ ops.lookup op.tok = some op := by
  cases op <;> exact ⟨_, rfl, by decide⟩

theorem table_boolop_row (op : BoolOp) : Generated.table[op.level]? = some (.nary op.tok op) := by
  cases op <;> rfl

/-- every comparison operator is in the single comparison row, spelled by its one or two tokens -/
theorem table_cmpop_row (op : CmpOp) :
    ∃ ops, Generated.table[cmpLevel]? = some (.chain ops) ∧
      ops.lookup (match op.toks with | [t] => .one t | [t, u] => .two t u | _ => .one .newline) = some op := by
  cases op <;> exact ⟨_, rfl, by decide⟩

/-- each token continues at most one row: the rows of the table use pairwise distinct operator tokens -/
theorem table_binop_tokens_distinct (a b : BinOp) (h : a.tok = b.tok) : a = b := by
  cases a <;> cases b <;> first | rfl | (exact absurd h (by decide))

/-! ### the indentation machine -/

/-- **lexer_indent_balanced** – for EVERY input text and every mode: if the lexer accepts (reaches its end
state without flagging an error) then the token stream it produced contains exactly as many INDENT
as DEDENT tokens. -/
theorem lexer_indent_balanced (input : List Char) (mode : Mode) (toks : List Tok)
    (h : lexString input mode = .ok toks) :
    toks.count .indent = toks.count .dedent := by
  unfold lexString at h
  split at h
  · simp at h
  · rename_i s out hr
    split_ifs at h with he
    simp only [LexOut.ok.injEq] at h
    subst h
    have := (run_inv _ _ _ _ _ _ hr (initLex_inv input mode)).2 rfl (by simpa using he)
    obtain ⟨hs, hq, hi⟩ := this
    have hb := hi.bal
    have hl := hi.fin hs
    rw [hq, hl] at hb
    simp only [nI, nD, List.count_nil] at hb
    simp only [List.count_reverse]
    omega

/-- the indent stack is non-empty and strictly increasing (bottom to top) in every state the lexer reaches
while it has not flagged an error, for every input and any number of steps -/
theorem lexer_indent_stack_increasing (input : List Char) (mode : Mode) (n : Nat) (s : LexSt) (out : List Tok)
    (h : run n (initLex input mode) [] = (s, out, false)) :
    s.stack ≠ [] ∧ s.stack.reverse.Pairwise (· < ·) := by
  have hi := (run_inv _ _ _ _ _ _ h (initLex_inv input mode)).1 rfl
  exact ⟨hi.ne, List.pairwise_reverse.mpr hi.sorted⟩

/-- non-vacuity: a text with nested blocks (second level indented by a tab) is accepted, with two INDENTs and two DEDENTs -/
example : lexString ['1', '\n', ' ', ' ', '2', '\n', '\t', '3', '\n', '4', '\n'] .exec =
    .ok [.start .exec, .num (.int 1), .newline, .indent, .num (.int 2), .newline, .indent, .num (.int 3), .newline,
         .dedent, .dedent, .num (.int 4), .newline, .endmarker] := by decide

/-! ### string literal values -/

/-- **decode_escape_spec** (partial: outside the recorded findings C06-K05 `\\N{name}` and C06-K06 surrogate escapes).
For EVERY body (any list of characters) and every combination of the raw / bytes prefix flags, the value the
lexer computes (ASCII check for bytes, raw strings untouched, `DecodeEscape` rune by rune) is the value the
Python reference defines: the escape table of §2.4.1, up to three octal digits, exactly two/four/eight hex digits,
unknown escapes keep their backslash, errors exactly where the reference has them. -/
theorem decode_escape_spec_partial (raw bytes : Bool) (body : List Char) (hk : kfEscape raw bytes body = false) :
    GPy.C06.strValue raw bytes body = Spec.strValue raw bytes body :=
  strValue_spec raw bytes body hk

/-- bytes literals: no exclusion at all -/
theorem decode_escape_spec_bytes (raw : Bool) (body : List Char) :
    GPy.C06.strValue raw true body = Spec.strValue raw true body :=
  strValue_spec raw true body (by simp [kfEscape])

/-- raw literals: no exclusion at all -/
theorem decode_escape_spec_raw (bytes : Bool) (body : List Char) :
    GPy.C06.strValue true bytes body = Spec.strValue true bytes body :=
  strValue_spec true bytes body (by simp [kfEscape])

/-- `DecodeEscape` itself (the function the harness also drives directly) against the reference scanner -/
theorem decodeEscape_rel (bm : Bool) (body : List Char) (hasc : bm = true → ∀ c ∈ body, c.toNat < 128) :
    Rel bm (decodeEscape body bm) (scan bm body.length body) := by
  rw [decodeEscape_eq]
  exact rel_main bm body.length body rfl hasc _ _ (Nat.le_refl _) (Nat.le_refl _)

/-- non-vacuity of the hypothesis, at a body with several escape kinds -/
example : kfEscape false false ['a', '\\', 'x', '4', '1', '\\', '1', '0', '1', '\\', 'q', '\\', 'u', '0', '0', 'e', '9'] = false := by decide

/-- C06-K05: `\\N{BULLET}` keeps all its characters instead of denoting U+2022 -/
theorem decode_escape_named_witness :
    GPy.C06.strValue false false ['\\', 'N', '{', 'B', 'U', 'L', 'L', 'E', 'T', '}'] =
      .ok (.s [92, 78, 123, 66, 85, 76, 76, 69, 84, 125]) := by rfl

/-- C06-K06: `\\ud800` yields U+FFFD where Python's str holds the surrogate U+D800 -/
theorem decode_escape_surrogate_witness :
    GPy.C06.strValue false false ['\\', 'u', 'd', '8', '0', '0'] = .ok (.s [0xFFFD]) ∧
    Spec.strValue false false ['\\', 'u', 'd', '8', '0', '0'] = .ok (.s [0xD800]) := ⟨by rfl, by rfl⟩

/-! ### operators -/

/-- **readOperator longest match**: the operator token returned is the longest of the 3-, 2- and 1-character
prefixes of the line that is in the operator table (for every line) -/
theorem read_operator_longest_match (line : List Char) (p : P) (rest : List Char) (h : readOperator line = some (p, rest)) :
    ∃ i, 1 ≤ i ∧ i ≤ 3 ∧ i ≤ line.length ∧ operators.lookup (line.take i) = some p ∧ rest = line.drop i ∧
      ∀ j, i < j → j ≤ 3 → j ≤ line.length → operators.lookup (line.take j) = none :=
  readOperator_spec line p rest h

example : readOperator ['*', '*', '=', 'x'] = some (.starstareq, ['x']) := by decide
example : readOperator ['*', '*', ' ', 'x'] = some (.starstar, [' ', 'x']) := by decide

end GPy.C06
