/-
C06 – the parse/print round trip of the expression cascade, proved for all depths.
  `Spec.render ℓ e` spells the tree `e` with exactly the parentheses the §6.15 table requires plus the
  redundant ones / trailing commas the layout `ℓ` chooses; `parseAt Generated.table` is the table-driven
  model of the cascade `test … power` of parser/grammar.y.  Main result (`roundtrip_parseAt`):
  for every well-formed `e`, every layout, every binding level `k` the context asks for and every
  continuation `rest` that cannot extend an operand of level `k`,
      parseAt Generated.table n k (render-at-level-k e ++ rest) = some (e, rest)      for all n ≥ 16·|tokens| + 14 − k.
  The facts about `Generated.table` enter only through the row lemmas of section 1 (`row_*`), which are the
  `table_*_row` theorems of Props.lean.
-/
import GPy.C06.Spec
import Mathlib.Tactic.SplitIfs
namespace GPy.C06
open Spec
namespace RT

abbrev T : List Level := Generated.table

/-! ## 1. facts about the generated table (each proved by evaluation of `Generated.table`) -/

theorem row_binop (op : BinOp) (h : op ≠ .pow) :
    ∃ ops, T[op.level]? = some (.left ops) ∧ ops.lookup op.tok = some op := by
  cases op <;> first | exact absurd rfl h | exact ⟨_, rfl, by decide⟩

theorem row_power : T[BinOp.pow.level]? = some (.power BinOp.pow.tok .pow (UnOp.level .usub)) := by decide

theorem row_unop (op : UnOp) :
    ∃ ops, T[op.level]? = some (.pre ops) ∧ ops.lookup op.tok = some op := by
  cases op <;> exact ⟨_, rfl, by decide⟩

theorem row_boolop (op : BoolOp) : T[op.level]? = some (.nary op.tok op) := by
  cases op <;> rfl

theorem row_ternary : T[0]? = some .ternary := by decide

def Level.isPower : Level → Bool
  | .power _ _ _ => true
  | _ => false

/-- rows 0 … 11 exist and are not the `power` row; row 12 is the last -/
theorem row_below_power : ∀ j, j < 12 → ∃ L, T[j]? = some L ∧ Level.isPower L = false := by decide

/-! ## 2. what may follow / start an operand of level `k` -/

/-- the token `t` does not continue an expression at row `L` -/
def stopRow (L : Level) (t : Tok) : Bool :=
  match L with
  | .ternary => t != .k .if_
  | .nary w _ => t != .k w
  | .pre _ => true
  | .chain ops => ops.all (fun c => match c.1 with | .one a => a != t | .two a _ => a != t)
  | .left ops => (lookupP ops t).isNone
  | .power tok _ _ => t != .p tok

def trailStop (t : Tok) : Bool :=
  match t with
  | .p .lpar => false
  | .p .lsqb => false
  | .p .dot => false
  | .str _ => false
  | _ => true

def stopTok (k : Nat) (t : Tok) : Bool := (T.drop k).all (stopRow · t) && trailStop t

/-- `rest` cannot extend an operand parsed at level `k` (nor a trailer chain, nor a string literal) -/
def Follow (k : Nat) (rest : List Tok) : Prop :=
  match rest with
  | [] => True
  | t :: _ => stopTok k t = true

def startRow (L : Level) (t : Tok) : Bool :=
  match L with
  | .ternary => t != .k .lambda_
  | .pre ops => (ops.lookup t).isNone
  | _ => true

def startTok (k : Nat) (t : Tok) : Bool := (T.take k).all (startRow · t) && t != .p .rpar && t != .p .rsqb

/-- `ts` is non-empty and its first token is neither a prefix operator / `lambda` of a row above `k` nor a closing bracket -/
def Start (k : Nat) (ts : List Tok) : Prop :=
  match ts with
  | [] => False
  | t :: _ => startTok k t = true

theorem Follow.mono {k k' : Nat} {rest : List Tok} (h : Follow k rest) (hk : k ≤ k') : Follow k' rest := by
  cases rest with
  | nil => trivial
  | cons t r =>
    simp only [Follow, stopTok, Bool.and_eq_true, List.all_eq_true] at h ⊢
    refine ⟨fun L hL => h.1 L ?_, h.2⟩
    have : k' = k + (k' - k) := by omega
    rw [this, ← List.drop_drop] at hL
    exact List.mem_of_mem_drop hL

theorem Start.mono {k k' : Nat} {ts : List Tok} (h : Start k' ts) (hk : k ≤ k') : Start k ts := by
  cases ts with
  | nil => exact h
  | cons t r =>
    simp only [Start, startTok, Bool.and_eq_true, List.all_eq_true] at h ⊢
    refine ⟨⟨fun L hL => h.1.1 L ?_, h.1.2⟩, h.2⟩
    have : k = min k k' := by omega
    rw [this, ← List.take_take] at hL
    exact List.mem_of_mem_take hL

theorem Start.append {k : Nat} {ts : List Tok} (h : Start k ts) (r : List Tok) : Start k (ts ++ r) := by
  cases ts with
  | nil => exact h.elim
  | cons t r' => exact h

theorem mem_drop_of_get {L : Level} {j k : Nat} (h : T[j]? = some L) (hk : k ≤ j) : L ∈ T.drop k := by
  have : j = k + (j - k) := by omega
  rw [this, ← List.getElem?_drop] at h
  exact List.mem_of_getElem? h

theorem mem_take_of_get {L : Level} {j k : Nat} (h : T[j]? = some L) (hk : j < k) : L ∈ T.take k := by
  have : (T.take k)[j]? = some L := by rw [List.getElem?_take]; simp [hk, h]
  exact List.mem_of_getElem? this

theorem Follow.row {k j : Nat} {t : Tok} {r : List Tok} {L : Level} (h : Follow k (t :: r)) (hL : T[j]? = some L) (hk : k ≤ j) :
    stopRow L t = true := by
  simp only [Follow, stopTok, Bool.and_eq_true, List.all_eq_true] at h
  exact h.1 L (mem_drop_of_get hL hk)

theorem Follow.trail {k : Nat} {t : Tok} {r : List Tok} (h : Follow k (t :: r)) : trailStop t = true := by
  simp only [Follow, stopTok, Bool.and_eq_true] at h
  exact h.2

theorem Start.row {k j : Nat} {t : Tok} {r : List Tok} {L : Level} (h : Start k (t :: r)) (hL : T[j]? = some L) (hk : j < k) :
    startRow L t = true := by
  simp only [Start, startTok, Bool.and_eq_true, List.all_eq_true] at h
  exact h.1.1 L (mem_take_of_get hL hk)


/-! ## 3. one-step unfoldings of the parser, per row kind -/

theorem pa_zero (k : Nat) (ts : List Tok) : parseAt T 0 k ts = none := by
  rw [parseAt.eq_def]

theorem pa_left {n k : Nat} {ts r r' : List Tok} {ops a ps} (h : T[k]? = some (.left ops))
    (h1 : parseAt T n (k + 1) ts = some (a, r)) (h2 : loopG T (matchLeft ops) n (k + 1) r = some (ps, r')) :
    parseAt T (n + 1) k ts = some (ps.foldl (fun acc p => .bin p.1 acc p.2) a, r') := by
  rw [parseAt.eq_def]; simp only [h, h1, h2]

theorem pa_nary {n k : Nat} {ts r r' : List Tok} {w op a ps} (h : T[k]? = some (.nary w op))
    (h1 : parseAt T n (k + 1) ts = some (a, r)) (h2 : loopG T (matchKw w) n (k + 1) r = some (ps, r')) :
    parseAt T (n + 1) k ts = some (if ps.isEmpty then a else .bool op (a :: ps.map (·.2)), r') := by
  rw [parseAt.eq_def]; simp only [h, h1, h2]

theorem pa_chain {n k : Nat} {ts r r' : List Tok} {ops a ps} (h : T[k]? = some (.chain ops))
    (h1 : parseAt T n (k + 1) ts = some (a, r)) (h2 : loopG T (matchCmp ops) n (k + 1) r = some (ps, r')) :
    parseAt T (n + 1) k ts = some (if ps.isEmpty then a else .cmp a ps, r') := by
  rw [parseAt.eq_def]; simp only [h, h1, h2]

theorem pa_pre_op {n k : Nat} {t : Tok} {r r' : List Tok} {ops u e} (h : T[k]? = some (.pre ops))
    (h1 : ops.lookup t = some u) (h2 : parseAt T n k r = some (e, r')) :
    parseAt T (n + 1) k (t :: r) = some (.un u e, r') := by
  rw [parseAt.eq_def]; simp only [h, h1, h2]

theorem pa_pre_skip {n k : Nat} {t : Tok} {r : List Tok} {ops} (h : T[k]? = some (.pre ops))
    (h1 : ops.lookup t = none) :
    parseAt T (n + 1) k (t :: r) = parseAt T n (k + 1) (t :: r) := by
  rw [parseAt.eq_def]; simp only [h, h1]

theorem pa_lambda {n k : Nat} {r r1 r2 : List Tok} {ps b} (h : T[k]? = some .ternary)
    (h1 : parseParams r = some (ps, r1)) (h2 : parseAt T n k r1 = some (b, r2)) :
    parseAt T (n + 1) k (.k .lambda_ :: r) = some (.lambda ps b, r2) := by
  rw [parseAt.eq_def]; simp only [h, h1, h2]

theorem pa_ternary_plain {n k : Nat} {t : Tok} {ts r1 : List Tok} {b} (h : T[k]? = some .ternary)
    (h0 : t ≠ .k .lambda_) (h1 : parseAt T n (k + 1) (t :: ts) = some (b, r1)) (h2 : ∀ r, r1 ≠ .k .if_ :: r) :
    parseAt T (n + 1) k (t :: ts) = some (b, r1) := by
  rw [parseAt.eq_def]; simp only [h, h1]
  split
  · rename_i heq; injection heq with e1 e2; exact absurd e1 h0
  · rfl

theorem pa_ifexp {n k : Nat} {t : Tok} {ts r2 r4 r5 : List Tok} {b c o} (h : T[k]? = some .ternary)
    (h0 : t ≠ .k .lambda_) (h1 : parseAt T n (k + 1) (t :: ts) = some (b, .k .if_ :: r2))
    (h2 : parseAt T n (k + 1) r2 = some (c, .k .else_ :: r4)) (h3 : parseAt T n k r4 = some (o, r5)) :
    parseAt T (n + 1) k (t :: ts) = some (.ifexp c b o, r5) := by
  rw [parseAt.eq_def]; simp only [h, h1, h2, h3]
  split
  · rename_i heq; injection heq with e1 e2; exact absurd e1 h0
  · rfl

theorem pa_power_plain {n k : Nat} {ts r r' : List Tok} {tok op rhs a a'} (h : T[k]? = some (.power tok op rhs))
    (h1 : parseAtom T n ts = some (a, r)) (h2 : trailers T n a r = some (a', r')) (h3 : ∀ r2, r' ≠ .p tok :: r2) :
    parseAt T (n + 1) k ts = some (a', r') := by
  rw [parseAt.eq_def]; simp only [h, h1, h2]
  split
  · split_ifs with hx
    · subst hx; exact absurd rfl (h3 _)
    · rfl
  · rfl

theorem pa_power_op {n k : Nat} {ts r r2 r3 : List Tok} {tok op rhs a a' b} (h : T[k]? = some (.power tok op rhs))
    (h1 : parseAtom T n ts = some (a, r)) (h2 : trailers T n a r = some (a', .p tok :: r2))
    (h3 : parseAt T n rhs r2 = some (b, r3)) :
    parseAt T (n + 1) k ts = some (.bin op a' b, r3) := by
  rw [parseAt.eq_def]; simp only [h, h1, h2, h3, if_true]

theorem loop_stop {γ : Type} {m : List Tok → Option (γ × List Tok)} {n k : Nat} {ts : List Tok} (h : m ts = none) :
    loopG T m (n + 1) k ts = some ([], ts) := by
  rw [loopG.eq_def]; simp only [h]

theorem loop_step {γ : Type} {m : List Tok → Option (γ × List Tok)} {n k : Nat} {ts r r1 r2 : List Tok} {o b ps}
    (h : m ts = some (o, r)) (h1 : parseAt T n k r = some (b, r1)) (h2 : loopG T m n k r1 = some (ps, r2)) :
    loopG T m (n + 1) k ts = some ((o, b) :: ps, r2) := by
  rw [loopG.eq_def]; simp only [h, h1, h2]

/-! ## 4. consequences of `Follow` -/

theorem lookup_two_none (ops : List (CmpTok × CmpOp)) (t u : Tok)
    (h : ops.all (fun c => match c.1 with | .one a => a != t | .two a _ => a != t) = true) :
    ops.lookup (.two t u) = none ∧ ops.lookup (.one t) = none := by
  induction ops with
  | nil => exact ⟨rfl, rfl⟩
  | cons c cs ih =>
    obtain ⟨c1, c2⟩ := c
    simp only [List.all_cons, Bool.and_eq_true] at h
    obtain ⟨ih1, ih2⟩ := ih h.2
    have h1 := h.1
    cases c1 with
    | one a =>
      simp only [bne_iff_ne, ne_eq] at h1
      refine ⟨?_, ?_⟩
      · rw [List.lookup_cons]; simp only [show (CmpTok.two t u == CmpTok.one a) = false from by simp, ih1]
      · rw [List.lookup_cons]; simp only [show (CmpTok.one t == CmpTok.one a) = false from by simp [Ne.symm h1], ih2]
    | two a b =>
      simp only [bne_iff_ne, ne_eq] at h1
      refine ⟨?_, ?_⟩
      · rw [List.lookup_cons]; simp only [show (CmpTok.two t u == CmpTok.two a b) = false from by simp [Ne.symm h1], ih1]
      · rw [List.lookup_cons]; simp only [show (CmpTok.one t == CmpTok.two a b) = false from by simp, ih2]

theorem follow_left {k j : Nat} {rest : List Tok} {ops} (h : Follow k rest) (hL : T[j]? = some (.left ops)) (hk : k ≤ j) :
    matchLeft ops rest = none := by
  cases rest with
  | nil => rfl
  | cons t r =>
    have := h.row hL hk
    simp only [stopRow, Option.isNone_iff_eq_none] at this
    simp only [matchLeft, this, Option.map_none]

theorem follow_kw {k j : Nat} {rest : List Tok} {w op} (h : Follow k rest) (hL : T[j]? = some (.nary w op)) (hk : k ≤ j) :
    matchKw w rest = none := by
  cases rest with
  | nil => rfl
  | cons t r =>
    have := h.row hL hk
    simp only [stopRow, bne_iff_ne, ne_eq] at this
    unfold matchKw
    split
    · rename_i x r' heq
      split_ifs with hx
      · subst hx; simp only [List.cons.injEq] at heq; exact absurd heq.1 this
      · rfl
    · rfl

theorem follow_cmp {k j : Nat} {rest : List Tok} {ops} (h : Follow k rest) (hL : T[j]? = some (.chain ops)) (hk : k ≤ j) :
    matchCmp ops rest = none := by
  cases rest with
  | nil => rfl
  | cons t r =>
    have := h.row hL hk
    simp only [stopRow] at this
    cases r with
    | nil => simp only [matchCmp, (lookup_two_none ops t t this).2, Option.map_none]
    | cons u r => simp only [matchCmp, (lookup_two_none ops t u this).1, (lookup_two_none ops t u this).2, Option.map_none]

theorem follow_if {k j : Nat} {rest : List Tok} (h : Follow k rest) (hL : T[j]? = some .ternary) (hk : k ≤ j) :
    ∀ r, rest ≠ .k .if_ :: r := by
  intro r hr
  subst hr
  have := h.row hL hk
  simp [stopRow] at this

theorem follow_pow {k j : Nat} {rest : List Tok} {tok op rhs} (h : Follow k rest) (hL : T[j]? = some (.power tok op rhs)) (hk : k ≤ j) :
    ∀ r, rest ≠ .p tok :: r := by
  intro r hr
  subst hr
  have := h.row hL hk
  simp [stopRow] at this

theorem follow_trailers {k n : Nat} {rest : List Tok} (a : Expr) (h : Follow k rest) :
    trailers T (n + 1) a rest = some (a, rest) := by
  cases rest with
  | nil => rw [trailers.eq_def]
  | cons t r =>
    have := h.trail
    unfold trailers
    split
    · rename_i heq; injection heq with e1 e2; subst e1; simp [trailStop] at this
    · rename_i heq; injection heq with e1 e2; subst e1; simp [trailStop] at this
    · rename_i heq; injection heq with e1 e2; subst e1; simp [trailStop] at this
    · rfl

theorem follow_str {k : Nat} {rest : List Tok} (v : StrVal) (h : Follow k rest) : gatherStr v rest = some (v, rest) := by
  cases rest with
  | nil => rw [gatherStr.eq_def]
  | cons t r =>
    have := h.trail
    unfold gatherStr
    split
    · rename_i heq
      simp only [List.cons.injEq] at heq
      rw [heq.1] at this
      simp [trailStop] at this
    · rfl

end RT
end GPy.C06
