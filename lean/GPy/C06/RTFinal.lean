/-
C06 – round trip of the expression cascade, part 4: the printer `Spec.raw` meets the parse lemmas;
induction over all trees.
-/
import GPy.C06.RTForms
namespace GPy.C06
open Spec
namespace RT

theorem wrapAt_eq (ℓ : Layout) (p : List Nat) (k : Nat) (e : Expr) (ts : List Tok) :
    ∃ m, wrapAt ℓ p k e ts = wrap m ts ∧ (0 < m ∨ k ≤ prec e) := by
  unfold wrapAt
  by_cases h : prec e < k
  · exact ⟨_, rfl, Or.inl (by simp [h])⟩
  · exact ⟨_, rfl, Or.inr (by omega)⟩

/-- everything the induction carries for one tree -/
structure Full (e : Expr) : Prop where
  good : ∀ (ℓ : Layout) (p : List Nat) (m k : Nat), (0 < m ∨ k ≤ prec e) → k ≤ 12 → GoodS k e (wrap m (raw ℓ p e))
  prim : ∀ (ℓ : Layout) (p : List Nat) (m : Nat), (0 < m ∨ 13 ≤ prec e) → PrimS e (wrap m (raw ℓ p e))
  spine : ∀ (ℓ : Layout) (p : List Nat) (m q : Nat) (ops : List (P × BinOp)), T[q]? = some (.left ops) → q < 12 →
    (0 < m ∨ q ≤ prec e) → SpineL q ops e (wrap m (raw ℓ p e))

theorem Full.goodAt {e : Expr} (h : Full e) (ℓ : Layout) (p : List Nat) (k : Nat) (hk : k ≤ 12) :
    GoodS k e (wrapAt ℓ p k e (raw ℓ p e)) := by
  obtain ⟨m, hm, hc⟩ := wrapAt_eq ℓ p k e (raw ℓ p e)
  rw [hm]; exact h.good ℓ p m k hc hk

theorem Full.primAt {e : Expr} (h : Full e) (ℓ : Layout) (p : List Nat) :
    PrimS e (wrapAt ℓ p primaryLevel e (raw ℓ p e)) ∧ Start 12 (wrapAt ℓ p primaryLevel e (raw ℓ p e)) := by
  obtain ⟨m, hm, hc⟩ := wrapAt_eq ℓ p primaryLevel e (raw ℓ p e)
  rw [hm]
  have hp : primaryLevel = 13 := rfl
  exact ⟨h.prim ℓ p m (by omega), (h.good ℓ p m 12 (by omega) (Nat.le_refl _)).2⟩

theorem Full.spineAt {e : Expr} (h : Full e) (ℓ : Layout) (p : List Nat) (q : Nat) (ops : List (P × BinOp))
    (hL : T[q]? = some (.left ops)) (hq : q < 12) : SpineL q ops e (wrapAt ℓ p q e (raw ℓ p e)) := by
  obtain ⟨m, hm, hc⟩ := wrapAt_eq ℓ p q e (raw ℓ p e)
  rw [hm]; exact h.spine ℓ p m q ops hL hq hc

theorem full_of_core {e : Expr}
    (core : ∀ (ℓ : Layout) (p : List Nat) (k : Nat), k ≤ prec e → k ≤ 12 → GoodS k e (raw ℓ p e))
    (prim0 : ∀ (ℓ : Layout) (p : List Nat), 13 ≤ prec e → PrimS e (raw ℓ p e))
    (spine0 : ∀ (ℓ : Layout) (p : List Nat) (q : Nat) (ops : List (P × BinOp)), T[q]? = some (.left ops) → q < 12 → q = prec e →
      SpineL q ops e (raw ℓ p e)) : Full e := by
  have g0 : ∀ (ℓ : Layout) (p : List Nat) (m : Nat), GoodS 0 e (wrap m (raw ℓ p e)) := by
    intro ℓ p m
    induction m with
    | zero => exact core ℓ p 0 (Nat.zero_le _) (Nat.zero_le _)
    | succ m ih =>
      exact ⟨good_of_atom' (atom_paren ih) (start_lpar _ _) 0 (Nat.zero_le _), start_lpar _ _⟩
  have atomW : ∀ (ℓ : Layout) (p : List Nat) (m : Nat), AtomOK e (wrap (m + 1) (raw ℓ p e)) := fun ℓ p m => atom_paren (g0 ℓ p m)
  refine ⟨?_, ?_, ?_⟩
  · intro ℓ p m k hc hk
    cases m with
    | zero => exact core ℓ p k (by omega) hk
    | succ m => exact ⟨good_of_atom' (atomW ℓ p m) (start_lpar _ _) k hk, start_lpar _ _⟩
  · intro ℓ p m hc
    cases m with
    | zero => exact prim0 ℓ p (by omega)
    | succ m => exact prim_closed (atomW ℓ p m)
  · intro ℓ p m q ops hL hq hc
    cases m with
    | zero =>
      have hc' : q ≤ prec e := by omega
      rcases Nat.lt_or_eq_of_le hc' with h1 | h1
      · exact spine_closed (core ℓ p (q + 1) h1 (by omega)).1
      · exact spine0 ℓ p q ops hL hq h1
    | succ m => exact spine_closed (good_of_atom' (atomW ℓ p m) (start_lpar _ _) (q + 1) (by omega))

theorem full_of_atom {e : Expr} (hprec : 12 ≤ prec e)
    (h : ∀ (ℓ : Layout) (p : List Nat), AtomOK e (raw ℓ p e) ∧ ∀ k, Start k (raw ℓ p e)) : Full e :=
  full_of_core (fun ℓ p k _ hk => ⟨good_of_atom' (h ℓ p).1 ((h ℓ p).2 12) k hk, (h ℓ p).2 k⟩)
    (fun ℓ p _ => prim_closed (h ℓ p).1) (fun _ _ q _ _ hq hqe => by omega)

theorem full_of_prim {e : Expr} (hprec : 12 ≤ prec e)
    (h : ∀ (ℓ : Layout) (p : List Nat), PrimS e (raw ℓ p e) ∧ Start 12 (raw ℓ p e)) : Full e :=
  full_of_core (fun ℓ p k _ hk => ⟨good_of_prim (h ℓ p).1 (h ℓ p).2 k hk, (h ℓ p).2.mono hk⟩)
    (fun ℓ p _ => (h ℓ p).1) (fun _ _ q _ _ hq hqe => by omega)

theorem full_of_good {e : Expr} (hprec : prec e ≤ 12) (hnl : ∀ ops, T[prec e]? ≠ some (.left ops))
    (h : ∀ (ℓ : Layout) (p : List Nat) (k : Nat), k ≤ prec e → GoodS k e (raw ℓ p e)) : Full e :=
  full_of_core (fun ℓ p k hk _ => h ℓ p k hk) (fun _ _ h13 => by omega)
    (fun _ _ q ops hL _ hqe => absurd (hqe ▸ hL) (hnl ops))

/-! ## the lists of the printer -/

def rItems (ℓ : Layout) (p : List Nat) (k : Nat) : Nat → List Expr → List (List Tok)
  | _, [] => []
  | i, e :: es => wrapAt ℓ (i :: p) k e (raw ℓ (i :: p) e) :: rItems ℓ p k (i + 1) es

theorem rSep_seq (ℓ : Layout) (p : List Nat) (close : P) (tr : Bool) : ∀ (es : List Expr) (i : Nat),
    rSep ℓ p i 0 [.p .comma] es ++ (if (tr && !es.isEmpty) = true then [.p .comma] else []) ++ [.p close]
      = seqToks close tr (rItems ℓ p 0 i es)
  | [], i => by simp [rSep, seqToks, rItems]
  | [e], i => by cases tr <;> simp [rSep, seqToks, rItems]
  | e :: e' :: es, i => by
    have := rSep_seq ℓ p close tr (e' :: es) (i + 1)
    simp only [rItems, seqToks] at this ⊢
    rw [← this]
    simp [rSep]

theorem all2_items (ℓ : Layout) (p : List Nat) : ∀ (es : List Expr) (i : Nat), (∀ e ∈ es, Full e) →
    All2 (GoodS 0) es (rItems ℓ p 0 i es)
  | [], _, _ => .nil
  | e :: es, i, h => .cons ((h e (List.mem_cons_self ..)).goodAt ℓ (i :: p) 0 (Nat.zero_le _))
      (all2_items ℓ p es (i + 1) (fun x hx => h x (List.mem_cons_of_mem _ hx)))

def kwItems (ℓ : Layout) (p : List Nat) (k : Nat) (w : K) : Nat → List Expr → List (Item Unit)
  | _, [] => []
  | i, e :: es => ⟨(), [.k w], e, wrapAt ℓ (i :: p) k e (raw ℓ (i :: p) e)⟩ :: kwItems ℓ p k w (i + 1) es

theorem rSep_kw (ℓ : Layout) (p : List Nat) (k : Nat) (w : K) : ∀ (es : List Expr) (i : Nat) (e : Expr),
    rSep ℓ p i k [.k w] (e :: es) = wrapAt ℓ (i :: p) k e (raw ℓ (i :: p) e) ++ loopToks (kwItems ℓ p k w (i + 1) es)
  | [], i, e => by simp [rSep, kwItems, loopToks]
  | e' :: es, i, e => by
    have := rSep_kw ℓ p k w es (i + 1) e'
    simp [rSep, kwItems, loopToks, this]

theorem kwItems_map (ℓ : Layout) (p : List Nat) (k : Nat) (w : K) : ∀ (es : List Expr) (i : Nat),
    (kwItems ℓ p k w i es).map (·.e) = es
  | [], _ => rfl
  | e :: es, i => by simp [kwItems, kwItems_map ℓ p k w es (i + 1)]

theorem follow_kw_tok (op : BoolOp) (r : List Tok) : Follow (op.level + 1) ([.k op.tok] ++ r) := by
  cases op <;> (show stopTok _ _ = true; decide)

theorem kwItems_ok (ℓ : Layout) (p : List Nat) (op : BoolOp) : ∀ (es : List Expr) (i : Nat), (∀ e ∈ es, Full e) →
    ∀ it ∈ kwItems ℓ p (op.level + 1) op.tok i es, ItemOK (matchKw op.tok) (op.level + 1) it
  | [], _, _ => by intro it hit; cases hit
  | e :: es, i, h => by
    intro it hit
    simp only [kwItems, List.mem_cons] at hit
    rcases hit with rfl | hit
    · have hg := (h e (List.mem_cons_self ..)).goodAt ℓ (i :: p) (op.level + 1) (by cases op <;> decide)
      refine ⟨hg.1, hg.2, ?_, Nat.le_refl _, follow_kw_tok op⟩
      intro r _
      simp [matchKw]
    · exact kwItems_ok ℓ p op es (i + 1) (fun x hx => h x (List.mem_cons_of_mem _ hx)) it hit

def cmpItems (ℓ : Layout) (p : List Nat) : Nat → List (CmpOp × Expr) → List (Item CmpOp)
  | _, [] => []
  | i, (o, e) :: r => ⟨o, o.toks, e, wrapAt ℓ (i :: p) (cmpLevel + 1) e (raw ℓ (i :: p) e)⟩ :: cmpItems ℓ p (i + 1) r

theorem rCmp_items (ℓ : Layout) (p : List Nat) : ∀ (rest : List (CmpOp × Expr)) (i : Nat),
    rCmp ℓ p i rest = loopToks (cmpItems ℓ p i rest)
  | [], _ => by simp [rCmp, cmpItems, loopToks]
  | (o, e) :: r, i => by simp [rCmp, cmpItems, loopToks, rCmp_items ℓ p r (i + 1)]

theorem cmpItems_map (ℓ : Layout) (p : List Nat) : ∀ (rest : List (CmpOp × Expr)) (i : Nat),
    (cmpItems ℓ p i rest).map (fun it => (it.o, it.e)) = rest
  | [], _ => rfl
  | (o, e) :: r, i => by simp [cmpItems, cmpItems_map ℓ p r (i + 1)]

theorem cmpItems_ok (ℓ : Layout) (p : List Nat) {ops : List (CmpTok × CmpOp)}
    (hm : ∀ (o : CmpOp) (u : Tok) (r : List Tok), startTok 5 u = true → matchCmp ops (o.toks ++ u :: r) = some (o, u :: r)) :
    ∀ (rest : List (CmpOp × Expr)) (i : Nat), (∀ oe ∈ rest, Full oe.2) →
    ∀ it ∈ cmpItems ℓ p i rest, ItemOK (matchCmp ops) (cmpLevel + 1) it
  | [], _, _ => by intro it hit; cases hit
  | (o, e) :: rest, i, h => by
    intro it hit
    simp only [cmpItems, List.mem_cons] at hit
    rcases hit with rfl | hit
    · have hg := (h (o, e) (List.mem_cons_self ..)).goodAt ℓ (i :: p) (cmpLevel + 1) (by decide)
      refine ⟨hg.1, hg.2, ?_, cmp_toks_length o, follow_cmp_toks o⟩
      intro r hr
      cases r with
      | nil => exact hr.elim
      | cons u r => exact hm o u r hr
    · exact cmpItems_ok ℓ p hm rest (i + 1) (fun x hx => h x (List.mem_cons_of_mem _ hx)) it hit

theorem wfs_mem : ∀ (es : List Expr), WFs es = true → ∀ e ∈ es, WF e = true
  | [], _ => by intro e he; cases he
  | x :: xs, h => by
    intro e he
    simp only [WFs, Bool.and_eq_true] at h
    rcases List.mem_cons.mp he with rfl | he
    · exact h.1
    · exact wfs_mem xs h.2 e he

theorem wfc_mem : ∀ (es : List (CmpOp × Expr)), WFc es = true → ∀ oe ∈ es, WF oe.2 = true
  | [], _ => by intro e he; cases he
  | (o, x) :: xs, h => by
    intro e he
    simp only [WFc, Bool.and_eq_true] at h
    rcases List.mem_cons.mp he with rfl | he
    · exact h.1
    · exact wfc_mem xs h.2 e he


/-! ## the shapes `Spec.raw` produces -/

theorem raw_bin (ℓ : Layout) (p : List Nat) (op : BinOp) (l r : Expr) (h : op ≠ .pow) :
    raw ℓ p (.bin op l r) = wrapAt ℓ (0 :: p) op.level l (raw ℓ (0 :: p) l) ++
      .p op.tok :: wrapAt ℓ (1 :: p) (op.level + 1) r (raw ℓ (1 :: p) r) := by
  simp [raw, h]

theorem raw_pow (ℓ : Layout) (p : List Nat) (l r : Expr) :
    raw ℓ p (.bin .pow l r) = wrapAt ℓ (0 :: p) primaryLevel l (raw ℓ (0 :: p) l) ++
      .p .starstar :: wrapAt ℓ (1 :: p) 11 r (raw ℓ (1 :: p) r) := by
  simp [raw, BinOp.tok]

theorem raw_tuple (ℓ : Layout) (p : List Nat) (es : List Expr) :
    raw ℓ p (.tuple es) = .p .lpar :: seqToks .rpar (decide (es.length = 1) || ℓ.trail p) (rItems ℓ p 0 0 es) := by
  rw [← rSep_seq]
  have : (decide (es.length = 1) || (ℓ.trail p && !es.isEmpty)) = ((decide (es.length = 1) || ℓ.trail p) && !es.isEmpty) := by
    match es with
    | [] => simp
    | [e] => simp
    | e :: e' :: es => simp
  simp only [raw, this]
  simp

theorem raw_list (ℓ : Layout) (p : List Nat) (es : List Expr) :
    raw ℓ p (.list es) = .p .lsqb :: seqToks .rsqb (ℓ.trail p) (rItems ℓ p 0 0 es) := by
  rw [← rSep_seq]
  simp [raw]

theorem raw_call (ℓ : Layout) (p : List Nat) (f : Expr) (args : List Expr) :
    raw ℓ p (.call f args) = wrapAt ℓ (0 :: p) primaryLevel f (raw ℓ (0 :: p) f) ++
      .p .lpar :: seqToks .rpar (ℓ.trail p) (rItems ℓ p 0 1 args) := by
  rw [← rSep_seq]
  simp [raw]

theorem start_bin_tok (op : BinOp) (h : op ≠ .pow) (x : List Tok) : Follow (op.level + 1) (.p op.tok :: x) := by
  cases op <;> first | exact absurd rfl h | (show stopTok _ _ = true; decide)

theorem le14 : 12 ≤ 14 := by omega
theorem le13 : 12 ≤ 13 := by omega
theorem nl0 : ∀ ops, T[0]? ≠ some (.left ops) := by intro ops h; rw [row_ternary] at h; cases h
theorem nl12 : ∀ ops, T[12]? ≠ some (.left ops) := by intro ops h; rw [row12] at h; cases h
theorem nl4 : ∀ ops, T[4]? ≠ some (.left ops) := by
  intro ops h; obtain ⟨o, h1, _⟩ := row_cmp; rw [show T[cmpLevel]? = T[4]? from rfl] at h1; rw [h1] at h; cases h

/-! ## the induction -/

theorem full_all : ∀ (N : Nat) (e : Expr), sizeOf e ≤ N → WF e = true → Full e := by
  intro N
  induction N with
  | zero =>
    intro e he
    cases e <;> simp at he
  | succ N ih =>
    intro e he hwf
    cases e with
    | name s => exact full_of_atom le14 (fun ℓ p => ⟨by simpa [raw] using atom_name s, fun k => by simp only [raw]; exact startTok_of_all (t := .name s) rfl k⟩)
    | num v => exact full_of_atom le14 (fun ℓ p => ⟨by simpa [raw] using atom_num v, fun k => by simp only [raw]; exact startTok_of_all (t := .num v) rfl k⟩)
    | str v => exact full_of_atom le14 (fun ℓ p => ⟨by simpa [raw] using atom_str v, fun k => by simp only [raw]; exact startTok_of_all (t := .str v) rfl k⟩)
    | const c =>
      refine full_of_atom le14 (fun ℓ p => ⟨?_, fun k => ?_⟩)
      · have := atom_const c
        cases c <;> simpa [raw] using this
      · cases c <;> (simp only [raw]; exact startTok_of_all (by decide) k)
    | ellipsis => exact full_of_atom le14 (fun ℓ p => ⟨by simpa [raw] using atom_ellipsis, fun k => by simp only [raw]; exact startTok_of_all (t := .p .elipsis) (by decide) k⟩)
    | tuple es =>
      have hes : ∀ x ∈ es, Full x := by
        intro x hx
        have h1 := List.sizeOf_lt_of_mem hx
        simp only [Expr.tuple.sizeOf_spec] at he
        exact ih x (by omega) (wfs_mem es (by simpa [WF] using hwf) x hx)
      refine full_of_atom le14 (fun ℓ p => ?_)
      rw [raw_tuple]
      exact ⟨atom_tuple (all2_items ℓ p es 0 hes) _ (by intro h; simp [h]), fun k => start_lpar k _⟩
    | list es =>
      have hes : ∀ x ∈ es, Full x := by
        intro x hx
        have h1 := List.sizeOf_lt_of_mem hx
        simp only [Expr.list.sizeOf_spec] at he
        exact ih x (by omega) (wfs_mem es (by simpa [WF] using hwf) x hx)
      refine full_of_atom le14 (fun ℓ p => ?_)
      rw [raw_list]
      exact ⟨atom_list (all2_items ℓ p es 0 hes) _, fun k => start_lsqb k _⟩
    | call f args =>
      simp only [Expr.call.sizeOf_spec] at he
      simp only [WF, Bool.and_eq_true] at hwf
      have hf := ih f (by omega) hwf.1
      have hes : ∀ x ∈ args, Full x := by
        intro x hx
        have h1 := List.sizeOf_lt_of_mem hx
        exact ih x (by omega) (wfs_mem args hwf.2 x hx)
      refine full_of_prim le13 (fun ℓ p => ?_)
      rw [raw_call]
      exact ⟨prim_call _ (hf.primAt ℓ (0 :: p)).1 (all2_items ℓ p args 1 hes), (hf.primAt ℓ (0 :: p)).2.append _⟩
    | sub v i =>
      simp only [Expr.sub.sizeOf_spec] at he
      simp only [WF, Bool.and_eq_true] at hwf
      have hv := ih v (by omega) hwf.1
      have hi := ih i (by omega) hwf.2
      refine full_of_prim le13 (fun ℓ p => ?_)
      have e1 : raw ℓ p (.sub v i) = wrapAt ℓ (0 :: p) primaryLevel v (raw ℓ (0 :: p) v) ++
          .p .lsqb :: (wrapAt ℓ (1 :: p) 0 i (raw ℓ (1 :: p) i) ++ [.p .rsqb]) := by simp [raw]
      rw [e1]
      exact ⟨prim_sub (hv.primAt ℓ (0 :: p)).1 (hi.goodAt ℓ (1 :: p) 0 (Nat.zero_le _)), (hv.primAt ℓ (0 :: p)).2.append _⟩
    | attr v a =>
      simp only [Expr.attr.sizeOf_spec] at he
      simp only [WF] at hwf
      have hv := ih v (by omega) hwf
      refine full_of_prim le13 (fun ℓ p => ?_)
      have e1 : raw ℓ p (.attr v a) = wrapAt ℓ (0 :: p) primaryLevel v (raw ℓ (0 :: p) v) ++ [.p .dot, .name a] := by simp [raw]
      rw [e1]
      exact ⟨prim_attr a (hv.primAt ℓ (0 :: p)).1, (hv.primAt ℓ (0 :: p)).2.append _⟩
    | un op x =>
      simp only [Expr.un.sizeOf_spec] at he
      simp only [WF] at hwf
      have hx := ih x (by omega) hwf
      have hlev : op.level ≤ 12 := by cases op <;> decide
      refine full_of_good hlev ?_ (fun ℓ p k hk => ?_)
      · intro ops hL
        obtain ⟨ops', hL', _⟩ := row_unop op
        simp only [prec] at hL
        rw [hL'] at hL
        cases hL
      · have e1 : raw ℓ p (.un op x) = op.tok :: wrapAt ℓ (0 :: p) op.level x (raw ℓ (0 :: p) x) := by simp [raw]
        rw [e1]
        exact ⟨good_un op (hx.goodAt ℓ (0 :: p) op.level hlev).1 k hk, (start_unop op _).mono hk⟩
    | lambda ps b =>
      simp only [Expr.lambda.sizeOf_spec] at he
      simp only [WF] at hwf
      have hb := ih b (by omega) hwf
      refine full_of_good (Nat.zero_le _) nl0 (fun ℓ p k hk => ?_)
      have hk0 : k = 0 := by simpa [prec] using hk
      subst hk0
      have e1 : raw ℓ p (.lambda ps b) = .k .lambda_ :: (paramToks ps ++ .p .colon :: wrapAt ℓ (0 :: p) 0 b (raw ℓ (0 :: p) b)) := by
        simp [raw]
      rw [e1]
      exact ⟨good_lambda ps (hb.goodAt ℓ (0 :: p) 0 (Nat.zero_le _)).1, (show startTok 0 (.k .lambda_) = true from by decide)⟩
    | ifexp t b o =>
      simp only [Expr.ifexp.sizeOf_spec] at he
      simp only [WF, Bool.and_eq_true] at hwf
      have ht := ih t (by omega) hwf.1.1
      have hb := ih b (by omega) hwf.1.2
      have ho := ih o (by omega) hwf.2
      refine full_of_good (Nat.zero_le _) nl0 (fun ℓ p k hk => ?_)
      have hk0 : k = 0 := by simpa [prec] using hk
      subst hk0
      have e1 : raw ℓ p (.ifexp t b o) = wrapAt ℓ (0 :: p) 1 b (raw ℓ (0 :: p) b) ++
          .k .if_ :: (wrapAt ℓ (1 :: p) 1 t (raw ℓ (1 :: p) t) ++ .k .else_ :: wrapAt ℓ (2 :: p) 0 o (raw ℓ (2 :: p) o)) := by
        simp [raw]
      rw [e1]
      have hbg := hb.goodAt ℓ (0 :: p) 1 (by decide)
      exact ⟨good_ifexp hbg (ht.goodAt ℓ (1 :: p) 1 (by decide)).1 (ho.goodAt ℓ (2 :: p) 0 (by decide)).1,
        (hbg.2.mono (Nat.zero_le _)).append _⟩
    | bool op vs =>
      simp only [Expr.bool.sizeOf_spec] at he
      simp only [WF, Bool.and_eq_true, decide_eq_true_eq] at hwf
      have hvs : ∀ x ∈ vs, Full x := by
        intro x hx
        have h1 := List.sizeOf_lt_of_mem hx
        exact ih x (by omega) (wfs_mem vs hwf.2 x hx)
      have hlev : op.level ≤ 2 := by cases op <;> decide
      refine full_of_good (by simp only [prec]; omega) ?_ (fun ℓ p k hk => ?_)
      · intro ops hL
        simp only [prec] at hL
        rw [row_boolop op] at hL
        cases hL
      · match vs, hwf, hvs with
        | v0 :: v1 :: vs', _, hvs =>
          have e1 : raw ℓ p (.bool op (v0 :: v1 :: vs')) = wrapAt ℓ (0 :: p) (op.level + 1) v0 (raw ℓ (0 :: p) v0) ++
              loopToks (kwItems ℓ p (op.level + 1) op.tok 1 (v1 :: vs')) := by
            simp only [raw]; exact rSep_kw ℓ p (op.level + 1) op.tok (v1 :: vs') 0 v0
          rw [e1]
          have h0 := (hvs v0 (List.mem_cons_self ..)).goodAt ℓ (0 :: p) (op.level + 1) (by omega)
          have hits := kwItems_ok ℓ p op (v1 :: vs') 1 (fun x hx => hvs x (List.mem_cons_of_mem _ hx))
          have := good_bool op h0 hits (by simp [kwItems]) k hk
          rw [kwItems_map] at this
          exact ⟨this, (h0.2.mono (by simp only [prec] at hk; omega)).append _⟩
    | cmp l rest =>
      simp only [Expr.cmp.sizeOf_spec] at he
      simp only [WF, Bool.and_eq_true, Bool.not_eq_true', List.isEmpty_eq_false_iff] at hwf
      have hl := ih l (by omega) hwf.1.1
      have hrs : ∀ oe ∈ rest, Full oe.2 := by
        intro oe hoe
        have h1 := List.sizeOf_lt_of_mem hoe
        obtain ⟨o, x⟩ := oe
        simp only [Prod.mk.sizeOf_spec] at h1
        exact ih x (by omega) (wfc_mem rest hwf.2 (o, x) hoe)
      obtain ⟨ops, hL, hm⟩ := row_cmp
      refine full_of_good (show (4:Nat) ≤ 12 from by omega) nl4 (fun ℓ p k hk => ?_)
      · have e1 : raw ℓ p (.cmp l rest) = wrapAt ℓ (0 :: p) (cmpLevel + 1) l (raw ℓ (0 :: p) l) ++ loopToks (cmpItems ℓ p 1 rest) := by
          simp only [raw]; rw [rCmp_items]
        rw [e1]
        have h0 := hl.goodAt ℓ (0 :: p) (cmpLevel + 1) (by decide)
        have hits := cmpItems_ok ℓ p hm rest 1 hrs
        have hne : cmpItems ℓ p 1 rest ≠ [] := by
          cases rest with
          | nil => exact absurd rfl hwf.1.2
          | cons oe r => obtain ⟨o, x⟩ := oe; simp [cmpItems]
        have := good_cmp hL h0 hits hne k hk
        rw [cmpItems_map] at this
        exact ⟨this, (h0.2.mono (by simp only [prec] at hk; omega)).append _⟩
    | bin op l r =>
      simp only [Expr.bin.sizeOf_spec] at he
      simp only [WF, Bool.and_eq_true] at hwf
      have hl := ih l (by omega) hwf.1
      have hr := ih r (by omega) hwf.2
      by_cases hpow : op = .pow
      · subst hpow
        refine full_of_good (Nat.le_refl 12) nl12 (fun ℓ p k hk => ?_)
        rw [raw_pow]
        have hk12 : k ≤ 12 := hk
        exact ⟨good_pow (hl.primAt ℓ (0 :: p)).1 (hl.primAt ℓ (0 :: p)).2 (hr.goodAt ℓ (1 :: p) 11 (by decide)).1 k hk12,
          ((hl.primAt ℓ (0 :: p)).2.mono hk12).append _⟩
      · obtain ⟨ops, hL, hop⟩ := row_binop op hpow
        have hlev : op.level < 12 := by cases op <;> first | exact absurd rfl hpow | decide
        have hsp : ∀ (ℓ : Layout) (p : List Nat), SpineL op.level ops (.bin op l r) (raw ℓ p (.bin op l r)) := by
          intro ℓ p
          rw [raw_bin ℓ p op l r hpow]
          exact spine_step hop (start_bin_tok op hpow) (hl.spineAt ℓ (0 :: p) op.level ops hL hlev)
            (hr.goodAt ℓ (1 :: p) (op.level + 1) (by omega)).1
        have hst : ∀ (ℓ : Layout) (p : List Nat), Start op.level (raw ℓ p (.bin op l r)) := by
          intro ℓ p
          rw [raw_bin ℓ p op l r hpow]
          exact (hl.goodAt ℓ (0 :: p) op.level (by omega)).2.append _
        refine full_of_core (fun ℓ p k hk _ => ?_) (fun ℓ p h13 => ?_) (fun ℓ p q ops' hL' hq hqe => ?_)
        · have hk' : k ≤ op.level := hk
          exact ⟨good_of_spine hlev hL (hst ℓ p) (hsp ℓ p) k hk', (hst ℓ p).mono hk'⟩
        · have : prec (.bin op l r) = op.level := rfl
          omega
        · have hqe' : q = op.level := hqe
          subst hqe'
          rw [hL] at hL'
          cases hL'
          exact hsp ℓ p


/-! ## the round-trip theorems -/

/-- the cascade parser inverts the printer at every level, in front of every continuation that cannot extend the operand -/
theorem roundtrip_parseAt (e : Expr) (hwf : WF e = true) (ℓ : Layout) (p : List Nat) (k : Nat) (hk : k ≤ 12)
    (rest : List Tok) (hf : Follow k rest) (n : Nat) (hn : 16 * (rAt ℓ p k e).length + (14 - k) ≤ n) :
    parseAt Generated.table n k (rAt ℓ p k e ++ rest) = some (e, rest) :=
  ((full_all (sizeOf e) e (Nat.le_refl _) hwf).goodAt ℓ p k hk).1 rest hf n hn

theorem skipNewlines_replicate (nl : Nat) (r : List Tok) (h : ∀ r', r ≠ .newline :: r') :
    skipNewlines (List.replicate nl .newline ++ r) = r := by
  induction nl with
  | zero =>
    simp only [List.replicate_zero, List.nil_append]
    unfold skipNewlines
    split
    · exact absurd rfl (h _)
    · rfl
  | succ n ih => simp only [List.replicate_succ, List.cons_append, skipNewlines, ih]

theorem follow0_tail (nl : Nat) : Follow 0 (List.replicate nl Tok.newline ++ [Tok.endmarker]) := by
  cases nl with
  | zero => show stopTok 0 .endmarker = true; decide
  | succ n => show stopTok 0 .newline = true; decide

/-- `parseEvalToks` (eval_input over the token stream) inverts `render`, with any number of trailing NEWLINE tokens -/
theorem roundtrip_evalToks (e : Expr) (hwf : WF e = true) (ℓ : Layout) (nl : Nat) :
    parseEvalToks (.start .eval :: (render ℓ e ++ (List.replicate nl .newline ++ [.endmarker]))) = some e := by
  have hp := roundtrip_parseAt e hwf ℓ [] 0 (Nat.zero_le _) _ (follow0_tail nl)
    (parseFuel (render ℓ e ++ (List.replicate nl .newline ++ [.endmarker])))
    (by unfold parseFuel render; simp only [List.length_append]; omega)
  unfold parseEvalToks
  simp only []
  rw [parseTestlist]
  unfold render at hp ⊢
  simp only [hp]
  have hsk := skipNewlines_replicate nl [.endmarker] (by intro r h; cases h)
  cases nl with
  | zero => simp [skipNewlines]
  | succ n =>
    simp only [List.replicate_succ, List.cons_append] at hsk ⊢
    simp [hsk]

/-- the bare-token-list parser inverts `render` for every fuel ≥ 16·|tokens| + 14 -/
theorem roundtrip_parseExpr (e : Expr) (hwf : WF e = true) (ℓ : Layout) (n : Nat) (hn : 16 * (render ℓ e).length + 14 ≤ n) :
    parseExpr n (render ℓ e) = some e := by
  have hp := roundtrip_parseAt e hwf ℓ [] 0 (Nat.zero_le _) [] trivial n (by unfold render at hn; omega)
  unfold parseExpr render
  simp only [List.append_nil] at hp
  simp only [hp]

end RT
end GPy.C06
