/-
C06 – round trip of the expression cascade, part 3: the prefix, n-ary, comparison, conditional and lambda rows.
-/
import GPy.C06.RTMain
namespace GPy.C06
open Spec
namespace RT

/-! ## lambda and the conditional expression (row 0) -/

theorem params_ok : ∀ (ps : List String) (r : List Tok), parseParams (paramToks ps ++ .p .colon :: r) = some (ps, r)
  | [], r => by simp [paramToks, parseParams]
  | [s], r => by simp [paramToks, parseParams]
  | s :: s' :: ss, r => by
    have := params_ok (s' :: ss) r
    simp only [paramToks, List.cons_append] at this ⊢
    rw [parseParams]
    simp only [this]

theorem good_lambda {b : Expr} {Wb : List Tok} (ps : List String) (hb : Good b Wb 0) :
    Good (.lambda ps b) (.k .lambda_ :: (paramToks ps ++ .p .colon :: Wb)) 0 := by
  intro rest hf n hn
  unfold need at hn
  simp only [List.length_append, List.length_cons] at hn
  obtain ⟨n, rfl⟩ : ∃ m, n = m + 1 := ⟨n - 1, by omega⟩
  have h2 := hb rest hf n (by unfold need; omega)
  have := pa_lambda row_ternary (params_ok ps (Wb ++ rest)) h2
  simpa [List.append_assoc] using this

theorem follow_if_tok (r : List Tok) : Follow 1 (.k .if_ :: r) := by show stopTok 1 (.k .if_) = true; decide
theorem follow_else_tok (r : List Tok) : Follow 1 (.k .else_ :: r) := by show stopTok 1 (.k .else_) = true; decide

theorem good_ifexp {t b o : Expr} {Wt Wb Wo : List Tok} (hb : GoodS 1 b Wb) (ht : Good t Wt 1) (ho : Good o Wo 0) :
    Good (.ifexp t b o) (Wb ++ .k .if_ :: (Wt ++ .k .else_ :: Wo)) 0 := by
  intro rest hf n hn
  unfold need at hn
  simp only [List.length_append, List.length_cons] at hn
  obtain ⟨n, rfl⟩ : ∃ m, n = m + 1 := ⟨n - 1, by omega⟩
  obtain ⟨hbg, hbs⟩ := hb
  cases Wb with
  | nil => exact hbs.elim
  | cons tb Wb0 =>
  have hne : tb ≠ .k .lambda_ := by
    have := hbs.row row_ternary (Nat.lt_succ_self 0)
    simpa [startRow] using this
  have hlen : (tb :: Wb0).length = Wb0.length + 1 := rfl
  have h1 := hbg (.k .if_ :: (Wt ++ (.k .else_ :: (Wo ++ rest)))) (follow_if_tok _) n (by unfold need; omega)
  have h2 := ht (.k .else_ :: (Wo ++ rest)) (follow_else_tok _) n (by unfold need; omega)
  have h3 := ho rest hf n (by unfold need; omega)
  have := pa_ifexp row_ternary hne h1 h2 h3
  simpa [List.append_assoc] using this

/-! ## prefix operators (rows 3 and 11) -/

theorem start_unop (op : UnOp) (r : List Tok) : Start op.level (op.tok :: r) := by
  show startTok op.level op.tok = true
  cases op <;> decide

theorem good_un (op : UnOp) {x : Expr} {Wx : List Tok} (hx : Good x Wx op.level) (k : Nat) (hk : k ≤ op.level) :
    Good (.un op x) (op.tok :: Wx) k := by
  obtain ⟨ops, hL, hop⟩ := row_unop op
  refine good_of_row (q := op.level) (by cases op <;> decide) (start_unop op Wx) ?_ k hk
  intro rest hf n hn
  unfold need at hn
  simp only [List.length_cons] at hn
  obtain ⟨n, rfl⟩ : ∃ m, n = m + 1 := ⟨n - 1, by omega⟩
  exact pa_pre_op hL hop (hx rest hf n (by unfold need; omega))

/-! ## `or` / `and` (rows 1 and 2) -/

theorem good_bool (op : BoolOp) {v0 : Expr} {W0 : List Tok} {its : List (Item Unit)}
    (h0 : GoodS (op.level + 1) v0 W0) (hits : ∀ it ∈ its, ItemOK (matchKw op.tok) (op.level + 1) it) (hne : its ≠ [])
    (k : Nat) (hk : k ≤ op.level) :
    Good (.bool op (v0 :: its.map (·.e))) (W0 ++ loopToks its) k := by
  have hL := row_boolop op
  have hq : op.level ≤ 2 := by cases op <;> decide
  refine good_of_row (q := op.level) (by omega) ((h0.2.mono (Nat.le_succ _)).append _) ?_ k hk
  intro rest hf n hn
  have hl0 := start_length h0.2
  unfold need at hn
  simp only [List.length_append] at hn
  obtain ⟨n, rfl⟩ : ∃ m, n = m + 1 := ⟨n - 1, by omega⟩
  have hfol : Follow (op.level + 1) (loopToks its ++ rest) := by
    cases its with
    | nil => exact absurd rfl hne
    | cons it its' =>
      simp only [loopToks, List.append_assoc]
      exact (hits it (List.mem_cons_self ..)).2.2.2.2 _
  have h1 := h0.1 (loopToks its ++ rest) hfol n (by unfold need; omega)
  have h2 := loop_ok (matchKw op.tok) (op.level + 1) (by omega) rest (follow_kw hf hL (Nat.le_refl _)) (hf.mono (Nat.le_succ _))
    its hits n (by omega)
  have := pa_nary hL h1 h2
  rw [List.append_assoc, this]
  have hemp : (its.map (fun it => (it.o, it.e))).isEmpty = false := by
    cases its with
    | nil => exact absurd rfl hne
    | cons it its' => rfl
  simp [hemp, List.map_map, Function.comp_def]

/-! ## comparisons (row 4) -/

theorem start5_not (u : Tok) (h : startTok 5 u = true) : u ≠ .k .not_ := by
  intro hu; subst hu; revert h; decide

theorem lk2none (ops : List (CmpTok × CmpOp)) (t u x : Tok)
    (h : ops.all (fun c => match c.1 with | .two a b => a != t || b == x | .one _ => true) = true) (hu : u ≠ x) :
    ops.lookup (.two t u) = none := by
  induction ops with
  | nil => rfl
  | cons c cs ih =>
    obtain ⟨c1, c2⟩ := c
    simp only [List.all_cons, Bool.and_eq_true] at h
    have ih1 := ih h.2
    have h1 := h.1
    cases c1 with
    | one a =>
      rw [List.lookup_cons]; simp only [show (CmpTok.two t u == CmpTok.one a) = false from by simp, ih1]
    | two a b =>
      have : (CmpTok.two t u == CmpTok.two a b) = false := by
        simp only [Bool.or_eq_true, bne_iff_ne, ne_eq, beq_iff_eq] at h1
        simp only [beq_eq_false_iff_ne, ne_eq, CmpTok.two.injEq, not_and]
        intro hta hub
        rcases h1 with h1 | h1
        · exact h1 hta.symm
        · exact hu (hub.trans h1)
      rw [List.lookup_cons]; simp only [this, ih1]

theorem matchCmp_one (ops : List (CmpTok × CmpOp)) (t u : Tok) (r : List Tok) (o : CmpOp)
    (h : ops.all (fun c => match c.1 with | .two a b => a != t || b == .k .not_ | .one _ => true) = true) (hu : u ≠ .k .not_)
    (h1 : ops.lookup (.one t) = some o) : matchCmp ops (t :: u :: r) = some (o, u :: r) := by
  simp only [matchCmp, lk2none ops t u _ h hu, h1, Option.map_some]

theorem matchCmp_two (ops : List (CmpTok × CmpOp)) (t v : Tok) (r : List Tok) (o : CmpOp)
    (h1 : ops.lookup (.two t v) = some o) : matchCmp ops (t :: v :: r) = some (o, r) := by
  simp only [matchCmp, h1]

theorem row_cmp : ∃ ops, T[cmpLevel]? = some (.chain ops) ∧
    ∀ (o : CmpOp) (u : Tok) (r : List Tok), startTok 5 u = true → matchCmp ops (o.toks ++ u :: r) = some (o, u :: r) := by
  refine ⟨_, rfl, ?_⟩
  intro o u r hu
  have hnot := start5_not u hu
  cases o
  case isnot => exact matchCmp_two _ _ _ _ _ (by decide)
  case notin => exact matchCmp_two _ _ _ _ _ (by decide)
  all_goals exact matchCmp_one _ _ _ _ _ (by decide) hnot (by decide)

theorem cmp_toks_length (o : CmpOp) : 1 ≤ o.toks.length := by cases o <;> decide

theorem follow_cmp_toks (o : CmpOp) (r : List Tok) : Follow 5 (o.toks ++ r) := by
  cases o <;> (show stopTok 5 _ = true; decide)

theorem good_cmp {ops : List (CmpTok × CmpOp)} (hL : T[cmpLevel]? = some (.chain ops)) {l : Expr} {Wl : List Tok} {its : List (Item CmpOp)}
    (h0 : GoodS (cmpLevel + 1) l Wl) (hits : ∀ it ∈ its, ItemOK (matchCmp ops) (cmpLevel + 1) it) (hne : its ≠ [])
    (k : Nat) (hk : k ≤ cmpLevel) :
    Good (.cmp l (its.map (fun it => (it.o, it.e)))) (Wl ++ loopToks its) k := by
  refine good_of_row (q := cmpLevel) (by decide) ((h0.2.mono (Nat.le_succ _)).append _) ?_ k hk
  intro rest hf n hn
  have hl0 := start_length h0.2
  unfold need at hn
  simp only [List.length_append] at hn
  have hc : cmpLevel = 4 := rfl
  obtain ⟨n, rfl⟩ : ∃ m, n = m + 1 := ⟨n - 1, by omega⟩
  have hfol : Follow (cmpLevel + 1) (loopToks its ++ rest) := by
    cases its with
    | nil => exact absurd rfl hne
    | cons it its' =>
      simp only [loopToks, List.append_assoc]
      exact (hits it (List.mem_cons_self ..)).2.2.2.2 _
  have h1 := h0.1 (loopToks its ++ rest) hfol n (by unfold need; omega)
  have h2 := loop_ok (matchCmp ops) (cmpLevel + 1) (by omega) rest (follow_cmp hf hL (Nat.le_refl _)) (hf.mono (Nat.le_succ _))
    its hits n (by omega)
  have := pa_chain hL h1 h2
  rw [List.append_assoc, this]
  have hemp : (its.map (fun it => (it.o, it.e))).isEmpty = false := by
    cases its with
    | nil => exact absurd rfl hne
    | cons it its' => rfl
  simp [hemp]

end RT
end GPy.C06
