/-
C06 – round trip of the expression cascade, part 2: fuel-indexed parse facts, descent through the rows,
sequences, operator loops, and the induction over all trees.
-/
import GPy.C06.RTBase
namespace GPy.C06
open Spec
namespace RT

/-- with any fuel `n ≥ N`, parsing `ts` at level `k` yields `e` and leaves `rest` -/
def PAt (N k : Nat) (ts : List Tok) (e : Expr) (rest : List Tok) : Prop :=
  ∀ n, N ≤ n → parseAt T n k ts = some (e, rest)

theorem PAt.pos {N k : Nat} {ts rest : List Tok} {e : Expr} (h : PAt N k ts e rest) : 1 ≤ N := by
  rcases Nat.eq_zero_or_pos N with h0 | h0
  · subst h0
    have := h 0 (Nat.le_refl _)
    rw [pa_zero] at this
    cases this
  · exact h0

theorem PAt.mono {N N' k : Nat} {ts rest : List Tok} {e : Expr} (h : PAt N k ts e rest) (hN : N ≤ N') : PAt N' k ts e rest :=
  fun n hn => h n (Nat.le_trans hN hn)

theorem row12 : T[12]? = some (.power .starstar .pow 11) := row_power

/-- one step down the cascade: an operand of level `j+1` whose first token starts no prefix form of row `j`
and whose continuation does not continue row `j` is also what row `j` yields -/
theorem descend1 {N j : Nat} {ts rest : List Tok} {e : Expr} (hj : j < 12)
    (h : PAt N (j + 1) ts e rest) (hs : Start (j + 1) ts) (hf : Follow j rest) : PAt (N + 1) j ts e rest := by
  obtain ⟨L, hL, hp⟩ := row_below_power j hj
  have hN := h.pos
  intro n hn
  obtain ⟨n, rfl⟩ : ∃ m, n = m + 1 := ⟨n - 1, by omega⟩
  have h1 := h n (by omega)
  obtain ⟨n', rfl⟩ : ∃ m, n = m + 1 := ⟨n - 1, by omega⟩
  cases ts with
  | nil => exact hs.elim
  | cons t ts =>
  have hst := hs.row hL (Nat.lt_succ_self j)
  cases L with
  | ternary => exact pa_ternary_plain hL (by simpa [startRow] using hst) h1 (follow_if hf hL (Nat.le_refl _))
  | nary w op => simpa using pa_nary hL h1 (loop_stop (follow_kw hf hL (Nat.le_refl _)))
  | pre ops =>
    rw [pa_pre_skip hL (by simpa [startRow] using hst)]; exact h1
  | chain ops => simpa using pa_chain hL h1 (loop_stop (follow_cmp hf hL (Nat.le_refl _)))
  | left ops => simpa using pa_left hL h1 (loop_stop (follow_left hf hL (Nat.le_refl _)))
  | power a b c => simp [Level.isPower] at hp

theorem descend {q : Nat} (hq : q ≤ 12) {ts rest : List Tok} {e : Expr} (hs : Start q ts) :
    ∀ (d k N : Nat), k + d = q → PAt N q ts e rest → Follow k rest → PAt (N + d) k ts e rest := by
  intro d
  induction d with
  | zero => intro k N hk h _; have : k = q := by omega
            subst this; exact h
  | succ d ih =>
    intro k N hk h hf
    have h1 := ih (k + 1) N (by omega) h (hf.mono (Nat.le_succ k))
    exact descend1 (by omega) h1 (hs.mono (by omega)) hf

/-- fuel that suffices at level `k` for an operand spelled by the tokens `W` -/
def need (k : Nat) (W : List Tok) : Nat := 16 * W.length + (14 - k)

/-- the spelling `W` parses to `e` at level `k` in front of every continuation that cannot extend it -/
def Good (e : Expr) (W : List Tok) (k : Nat) : Prop :=
  ∀ rest, Follow k rest → PAt (need k W) k (W ++ rest) e rest

/-- the spelling `W` is an `atom` of the grammar denoting `e` -/
def NoStr (rest : List Tok) : Prop := ∀ v r, rest ≠ .str v :: r

theorem Follow.noStr {k : Nat} {rest : List Tok} (h : Follow k rest) : NoStr rest := by
  intro v r hr
  subst hr
  have := h.trail
  simp [trailStop] at this

def AtomOK (e : Expr) (W : List Tok) : Prop :=
  ∀ rest n, NoStr rest → 16 * W.length ≤ n → parseAtom T n (W ++ rest) = some (e, rest)

theorem start_length {k : Nat} {W : List Tok} (h : Start k W) : 1 ≤ W.length := by
  cases W with
  | nil => exact h.elim
  | cons t r => simp

theorem good_of_atom {e : Expr} {W : List Tok} (ha : AtomOK e W) (hs : Start 12 W) (k : Nat) (hk : k ≤ 12) : Good e W k := by
  intro rest hf
  have hl := start_length hs
  have h12 : PAt (16 * W.length + 1) 12 (W ++ rest) e rest := by
    intro n hn
    obtain ⟨n, rfl⟩ : ∃ m, n = m + 1 := ⟨n - 1, by omega⟩
    obtain ⟨n', hn'⟩ : ∃ m, n = m + 1 := ⟨n - 1, by omega⟩
    have hf12 : Follow 12 rest := hf.mono hk
    have ht : trailers T n e rest = some (e, rest) := by rw [hn']; exact follow_trailers e hf12
    exact pa_power_plain row12 (ha rest n hf.noStr (by omega)) ht (follow_pow hf12 row12 (Nat.le_refl _))
  have := descend (Nat.le_refl 12) (hs.append rest) (12 - k) k _ (by omega) h12 hf
  exact this.mono (by unfold need; omega)


/-! ## sequences `test (',' test)* [',']` up to a closing bracket -/

/-- the tokens of a bracketed sequence as `parseSeq` consumes them -/
def seqToks (close : P) (tr : Bool) : List (List Tok) → List Tok
  | [] => [.p close]
  | [W] => W ++ (if tr then [.p .comma, .p close] else [.p close])
  | W :: W' :: Ws => W ++ .p .comma :: seqToks close tr (W' :: Ws)

def GoodS (k : Nat) (e : Expr) (W : List Tok) : Prop := Good e W k ∧ Start k W

theorem follow_comma (r : List Tok) : Follow 0 (.p .comma :: r) := by
  show stopTok 0 (.p .comma) = true; decide
theorem follow_rpar (r : List Tok) : Follow 0 (.p .rpar :: r) := by
  show stopTok 0 (.p .rpar) = true; decide
theorem follow_rsqb (r : List Tok) : Follow 0 (.p .rsqb :: r) := by
  show stopTok 0 (.p .rsqb) = true; decide

inductive All2 {α β : Type} (R : α → β → Prop) : List α → List β → Prop
  | nil : All2 R [] []
  | cons {a b as bs} : R a b → All2 R as bs → All2 R (a :: as) (b :: bs)

theorem follow_close {close : P} (hc : close = .rpar ∨ close = .rsqb) (r : List Tok) : Follow 0 (.p close :: r) := by
  rcases hc with rfl | rfl
  · exact follow_rpar r
  · exact follow_rsqb r

theorem start_not_close {k : Nat} {t : Tok} {r : List Tok} {close : P} (hc : close = .rpar ∨ close = .rsqb)
    (h : Start k (t :: r)) : t ≠ .p close := by
  simp only [Start, startTok, Bool.and_eq_true, bne_iff_ne, ne_eq] at h
  rcases hc with rfl | rfl
  · exact h.1.2
  · exact h.2

theorem seqToks_length (close : P) (tr : Bool) (Ws : List (List Tok)) : 1 ≤ (seqToks close tr Ws).length := by
  match Ws with
  | [] => simp [seqToks]
  | [W] => cases tr <;> simp [seqToks]
  | W :: W' :: Ws => simp [seqToks]; omega

theorem seq_ok {close : P} (hc : close = .rpar ∨ close = .rsqb) (tr : Bool) (rest : List Tok) :
    ∀ (es : List Expr) (Ws : List (List Tok)), All2 (GoodS 0) es Ws →
    ∀ n, 16 * (seqToks close tr Ws).length ≤ n →
      parseSeq T n close (seqToks close tr Ws ++ rest) = some (es, tr && !es.isEmpty, rest) := by
  intro es Ws h
  induction h with
  | nil =>
    intro n hn
    obtain ⟨n, rfl⟩ : ∃ m, n = m + 1 := ⟨n - 1, by simp [seqToks] at hn; omega⟩
    rw [parseSeq.eq_def]
    simp [seqToks]
  | @cons e W es Ws hg hrest ih =>
    intro n hn
    obtain ⟨hgood, hstart⟩ := hg
    cases W with
    | nil => exact hstart.elim
    | cons t W0 =>
    have hne : t ≠ .p close := start_not_close hc hstart
    -- the shape of the remaining tokens
    have key : ∀ (tail : List Tok) (es' : List Expr) (tc : Bool),
        seqToks close tr ((t :: W0) :: Ws) = (t :: W0) ++ tail → 1 ≤ tail.length →
        (∀ m, 16 * tail.length ≤ m + 16 → 1 ≤ m →
            (match tail ++ rest with
              | .p .comma :: r1 =>
                match parseSeq T m close r1 with
                | some (es, tc, r2) => some (e :: es, if es.isEmpty then true else tc, r2)
                | none => none
              | .p x :: r1 => if x = close then some ([e], false, r1) else none
              | _ => none) = some (e :: es', tc, rest)) →
        Follow 0 (tail ++ rest) →
        parseSeq T n close (seqToks close tr ((t :: W0) :: Ws) ++ rest) = some (e :: es', tc, rest) := by
      intro tail es' tc hshape htl hk hfol
      have hlen : (seqToks close tr ((t :: W0) :: Ws)).length = (t :: W0).length + tail.length := by
        rw [hshape, List.length_append]
      obtain ⟨n1, rfl⟩ : ∃ m, n = m + 1 := ⟨n - 1, by simp at hlen; omega⟩
      obtain ⟨n2, rfl⟩ : ∃ m, n1 = m + 1 := ⟨n1 - 1, by simp at hlen; omega⟩
      have hp := hgood (tail ++ rest) hfol n2 (by unfold need; simp at hlen ⊢; omega)
      have hmain : parseSeq1 T (n2 + 1) close (t :: (W0 ++ (tail ++ rest))) = some (e :: es', tc, rest) := by
        rw [parseSeq1.eq_def]
        simp only [List.cons_append] at hp
        simp only [hp]
        exact hk n2 (by simp at hlen; omega) (by simp at hlen; omega)
      rw [hshape, List.append_assoc]
      rw [parseSeq.eq_def]
      simp only [List.cons_append]
      split
      · rename_i heq
        injection heq with e1 e2
        split_ifs with hx
        · subst hx; exact absurd e1 hne
        · exact hmain
      · exact hmain
    match Ws, es, hrest, ih with
    | [], [], _, _ =>
      cases tr with
      | true =>
        refine key [.p .comma, .p close] [] true (by simp [seqToks]) (by simp) ?_ (follow_comma _)
        intro m _ hm
        obtain ⟨m, rfl⟩ : ∃ j, m = j + 1 := ⟨m - 1, by omega⟩
        simp only [List.cons_append, List.nil_append]
        rw [parseSeq.eq_def]
        simp
      | false =>
        refine key [.p close] [] false (by simp [seqToks]) (by simp) ?_ (follow_close hc _)
        intro m _ hm
        simp only [List.cons_append, List.nil_append]
        rcases hc with rfl | rfl <;> simp
    | W' :: Ws', e' :: es', hrest, ih =>
      refine key (.p .comma :: seqToks close tr (W' :: Ws')) (e' :: es') (tr && !(e' :: es').isEmpty) (by simp [seqToks]) (by simp) ?_ (follow_comma _)
      intro m hm _
      simp only [List.cons_append]
      have := ih m (by simp at hm; omega)
      simp only [this]
      simp


/-! ## atoms -/

theorem startTok_of_all {t : Tok} (h : (T.all (startRow · t) && t != .p .rpar && t != .p .rsqb) = true) (k : Nat) :
    startTok k t = true := by
  simp only [startTok, Bool.and_eq_true, List.all_eq_true] at h ⊢
  exact ⟨⟨fun L hL => h.1.1 L (List.mem_of_mem_take hL), h.1.2⟩, h.2⟩

theorem start_lpar (k : Nat) (r : List Tok) : Start k (.p .lpar :: r) := startTok_of_all (by decide) k
theorem start_lsqb (k : Nat) (r : List Tok) : Start k (.p .lsqb :: r) := startTok_of_all (by decide) k

theorem atom_paren {e : Expr} {W : List Tok} (hg : GoodS 0 e W) : AtomOK e (.p .lpar :: (W ++ [.p .rpar])) := by
  intro rest n _ hn
  obtain ⟨n, rfl⟩ : ∃ m, n = m + 1 := ⟨n - 1, by simp at hn; omega⟩
  have h := seq_ok (Or.inl rfl) false rest [e] [W] (.cons hg .nil) n (by simp [seqToks] at hn ⊢; omega)
  simp only [seqToks, Bool.false_and, Bool.false_eq_true, if_false] at h
  rw [parseAtom.eq_def]
  simp only [List.cons_append, h]

theorem atom_tuple {es : List Expr} {Ws : List (List Tok)} (hg : All2 (GoodS 0) es Ws) (tr : Bool)
    (h1 : es.length = 1 → tr = true) : AtomOK (.tuple es) (.p .lpar :: seqToks .rpar tr Ws) := by
  intro rest n _ hn
  obtain ⟨n, rfl⟩ : ∃ m, n = m + 1 := ⟨n - 1, by simp at hn; omega⟩
  have h := seq_ok (Or.inl rfl) tr rest es Ws hg n (by simp at hn; omega)
  rw [parseAtom.eq_def]
  simp only [List.cons_append, h]
  match es, h1 with
  | [], _ => rfl
  | [e], h1 => simp [h1 rfl]
  | e :: e' :: es, _ => rfl

theorem atom_list {es : List Expr} {Ws : List (List Tok)} (hg : All2 (GoodS 0) es Ws) (tr : Bool) :
    AtomOK (.list es) (.p .lsqb :: seqToks .rsqb tr Ws) := by
  intro rest n _ hn
  obtain ⟨n, rfl⟩ : ∃ m, n = m + 1 := ⟨n - 1, by simp at hn; omega⟩
  have h := seq_ok (Or.inr rfl) tr rest es Ws hg n (by simp at hn; omega)
  rw [parseAtom.eq_def]
  simp only [List.cons_append, h]

theorem atom_name (s : String) : AtomOK (.name s) [.name s] := by
  intro rest n _ hn
  obtain ⟨n, rfl⟩ : ∃ m, n = m + 1 := ⟨n - 1, by simp at hn; omega⟩
  rw [parseAtom.eq_def]; rfl

theorem atom_num (v : NumVal) : AtomOK (.num v) [.num v] := by
  intro rest n _ hn
  obtain ⟨n, rfl⟩ : ∃ m, n = m + 1 := ⟨n - 1, by simp at hn; omega⟩
  rw [parseAtom.eq_def]; rfl

theorem atom_str (v : StrVal) : AtomOK (.str v) [.str v] := by
  intro rest n hs hn
  obtain ⟨n, rfl⟩ : ∃ m, n = m + 1 := ⟨n - 1, by simp at hn; omega⟩
  have hg : gatherStr v rest = some (v, rest) := by
    unfold gatherStr
    split
    · exact absurd rfl (hs _ _)
    · rfl
  rw [parseAtom.eq_def]
  simp only [List.cons_append, List.nil_append, hg]

theorem atom_const (c : Const) : AtomOK (.const c) (match c with | .none => [.k .none_] | .true => [.k .true_] | .false => [.k .false_]) := by
  intro rest n _ hn
  obtain ⟨n, rfl⟩ : ∃ m, n = m + 1 := ⟨n - 1, by cases c <;> simp at hn <;> omega⟩
  cases c <;> (rw [parseAtom.eq_def]; rfl)

theorem atom_ellipsis : AtomOK .ellipsis [.p .elipsis] := by
  intro rest n _ hn
  obtain ⟨n, rfl⟩ : ∃ m, n = m + 1 := ⟨n - 1, by simp at hn; omega⟩
  rw [parseAtom.eq_def]; rfl


/-! ## from the own row of a form down to the level the context asks for -/

theorem good_of_row {q : Nat} (hq : q ≤ 12) {e : Expr} {W : List Tok} (hs : Start q W)
    (h : ∀ rest, Follow q rest → PAt (need q W) q (W ++ rest) e rest) (k : Nat) (hk : k ≤ q) : Good e W k := by
  intro rest hf
  have := descend hq (hs.append rest) (q - k) k _ (by omega) (h rest (hf.mono hk)) hf
  exact this.mono (by unfold need; omega)

/-! ## operator loops `(op operand)*` -/

structure Item (γ : Type) where
  o : γ
  otoks : List Tok
  e : Expr
  W : List Tok

def loopToks {γ : Type} : List (Item γ) → List Tok
  | [] => []
  | it :: its => it.otoks ++ (it.W ++ loopToks its)

def ItemOK {γ : Type} (m : List Tok → Option (γ × List Tok)) (j : Nat) (it : Item γ) : Prop :=
  Good it.e it.W j ∧ Start j it.W ∧ (∀ r, Start j r → m (it.otoks ++ r) = some (it.o, r)) ∧
    1 ≤ it.otoks.length ∧ ∀ r, Follow j (it.otoks ++ r)

theorem loop_ok {γ : Type} (m : List Tok → Option (γ × List Tok)) (j : Nat) (hj : j ≤ 13) (rest : List Tok)
    (hm0 : m rest = none) (hf : Follow j rest) :
    ∀ its : List (Item γ), (∀ it ∈ its, ItemOK m j it) →
    ∀ n, 16 * (loopToks its).length + (15 - j) ≤ n →
      loopG T m n j (loopToks its ++ rest) = some (its.map (fun it => (it.o, it.e)), rest) := by
  intro its
  induction its with
  | nil =>
    intro _ n hn
    obtain ⟨n, rfl⟩ : ∃ m, n = m + 1 := ⟨n - 1, by omega⟩
    exact loop_stop hm0
  | cons it its ih =>
    intro hall n hn
    obtain ⟨hg, hs, hm, hlen, hfo⟩ := hall it (List.mem_cons_self ..)
    have ih' := ih (fun x hx => hall x (List.mem_cons_of_mem _ hx))
    simp only [loopToks, List.length_append] at hn
    obtain ⟨n, rfl⟩ : ∃ m, n = m + 1 := ⟨n - 1, by omega⟩
    have hfol : Follow j (loopToks its ++ rest) := by
      cases its with
      | nil => exact hf
      | cons it' its' =>
        simp only [loopToks, List.append_assoc]
        exact (hall it' (List.mem_cons_of_mem _ (List.mem_cons_self ..))).2.2.2.2 _
    simp only [loopToks, List.append_assoc, List.map_cons]
    exact loop_step (hm _ (hs.append _)) (hg _ hfol n (by unfold need; omega)) (ih' n (by omega))

/-! ## the left spine of a left-associative row -/

def foldBin (a : Expr) (ps : List (BinOp × Expr)) : Expr := ps.foldl (fun acc p => .bin p.1 acc p.2) a

def SpineL (q : Nat) (ops : List (P × BinOp)) (e : Expr) (W : List Tok) : Prop :=
  ∀ (rest rest' : List Tok) (ps' : List (BinOp × Expr)) (N' : Nat), Follow (q + 1) rest →
    (∀ n, N' ≤ n → loopG T (matchLeft ops) n (q + 1) rest = some (ps', rest')) →
    ∀ n, 16 * W.length + (13 - q) ≤ n → N' + W.length ≤ n →
      ∃ a ps r1, parseAt T n (q + 1) (W ++ rest) = some (a, r1) ∧
        loopG T (matchLeft ops) n (q + 1) r1 = some (ps, rest') ∧ foldBin a ps = foldBin e ps'

theorem spine_closed {q : Nat} {ops : List (P × BinOp)} {e : Expr} {W : List Tok} (h : Good e W (q + 1)) : SpineL q ops e W := by
  intro rest rest' ps' N' hf hloop n hn1 hn2
  exact ⟨e, ps', rest, h rest hf n (by unfold need; omega), hloop n (by omega), rfl⟩

theorem spine_step {q : Nat} {ops : List (P × BinOp)} {op : BinOp} {l r : Expr} {Wl Wr : List Tok}
    (hop : ops.lookup op.tok = some op) (hfo : ∀ x, Follow (q + 1) (.p op.tok :: x))
    (hl : SpineL q ops l Wl) (hr : Good r Wr (q + 1)) : SpineL q ops (.bin op l r) (Wl ++ .p op.tok :: Wr) := by
  intro rest rest' ps' N' hf hloop n hn1 hn2
  simp only [List.length_append, List.length_cons] at hn1 hn2
  have hloop1 : ∀ n, max (need (q + 1) Wr) N' + 1 ≤ n →
      loopG T (matchLeft ops) n (q + 1) (.p op.tok :: (Wr ++ rest)) = some ((op, r) :: ps', rest') := by
    intro n hn
    obtain ⟨n, rfl⟩ : ∃ m, n = m + 1 := ⟨n - 1, by omega⟩
    refine loop_step ?_ (hr rest hf n (by omega)) (hloop n (by omega))
    simp [matchLeft, lookupP, hop]
  obtain ⟨a, ps, r1, h1, h2, h3⟩ := hl (.p op.tok :: (Wr ++ rest)) rest' ((op, r) :: ps') _ (hfo _) hloop1 n (by omega)
    (by unfold need; omega)
  refine ⟨a, ps, r1, ?_, h2, ?_⟩
  · simpa [List.append_assoc] using h1
  · rw [h3]; rfl

theorem good_of_spine {q : Nat} (hq : q < 12) {ops : List (P × BinOp)} (hL : T[q]? = some (.left ops)) {e : Expr} {W : List Tok}
    (hs : Start q W) (h : SpineL q ops e W) (k : Nat) (hk : k ≤ q) : Good e W k := by
  refine good_of_row (by omega) hs ?_ k hk
  intro rest hf n hn
  have hl := start_length hs
  unfold need at hn
  obtain ⟨n, rfl⟩ : ∃ m, n = m + 1 := ⟨n - 1, by omega⟩
  have hstop : ∀ n, 1 ≤ n → loopG T (matchLeft ops) n (q + 1) rest = some ([], rest) := by
    intro n hn
    obtain ⟨n, rfl⟩ : ∃ m, n = m + 1 := ⟨n - 1, by omega⟩
    exact loop_stop (follow_left hf hL (Nat.le_refl _))
  obtain ⟨a, ps, r1, h1, h2, h3⟩ := h rest rest [] 1 (hf.mono (Nat.le_succ q)) hstop n (by omega) (by omega)
  have := pa_left hL h1 h2
  rw [this]
  simp only [foldBin, List.foldl_nil] at h3
  rw [h3]

/-! ## the trailer spine of a primary -/

def PrimS (e : Expr) (W : List Tok) : Prop :=
  ∀ (rest : List Tok) (res : PR) (N' : Nat), NoStr rest →
    (∀ n, N' ≤ n → trailers T n e rest = res) →
    ∀ n, 16 * W.length ≤ n → N' + W.length ≤ n →
      ∃ a r1, parseAtom T n (W ++ rest) = some (a, r1) ∧ trailers T n a r1 = res

theorem prim_closed {e : Expr} {W : List Tok} (h : AtomOK e W) : PrimS e W := by
  intro rest res N' hs hcont n hn1 hn2
  exact ⟨e, rest, h rest n hs hn1, hcont n (by omega)⟩

theorem prim_attr {v : Expr} {Wv : List Tok} (a : String) (h : PrimS v Wv) : PrimS (.attr v a) (Wv ++ [.p .dot, .name a]) := by
  intro rest res N' hs hcont n hn1 hn2
  simp only [List.length_append, List.length_cons, List.length_nil] at hn1 hn2
  have hc : ∀ n, N' + 1 ≤ n → trailers T n v (.p .dot :: .name a :: rest) = res := by
    intro n hn
    obtain ⟨n, rfl⟩ : ∃ m, n = m + 1 := ⟨n - 1, by omega⟩
    rw [trailers.eq_def]
    exact hcont n (by omega)
  obtain ⟨x, r1, h1, h2⟩ := h (.p .dot :: .name a :: rest) res (N' + 1) (by intro v r hr; cases hr) hc n (by omega) (by omega)
  exact ⟨x, r1, by simpa [List.append_assoc] using h1, h2⟩

theorem prim_call {f : Expr} {Wf : List Tok} {args : List Expr} {Ws : List (List Tok)} (tr : Bool)
    (h : PrimS f Wf) (ha : All2 (GoodS 0) args Ws) : PrimS (.call f args) (Wf ++ .p .lpar :: seqToks .rpar tr Ws) := by
  intro rest res N' hs hcont n hn1 hn2
  simp only [List.length_append, List.length_cons] at hn1 hn2
  have hc : ∀ n, max (16 * (seqToks .rpar tr Ws).length) N' + 1 ≤ n →
      trailers T n f (.p .lpar :: (seqToks .rpar tr Ws ++ rest)) = res := by
    intro n hn
    obtain ⟨n, rfl⟩ : ∃ m, n = m + 1 := ⟨n - 1, by omega⟩
    rw [trailers.eq_def]
    simp only [seq_ok (Or.inl rfl) tr rest args Ws ha n (by omega)]
    exact hcont n (by omega)
  have hl := seqToks_length .rpar tr Ws
  obtain ⟨x, r1, h1, h2⟩ := h (.p .lpar :: (seqToks .rpar tr Ws ++ rest)) res _ (by intro v r hr; cases hr) hc n (by omega) (by omega)
  exact ⟨x, r1, by simpa [List.append_assoc] using h1, h2⟩

theorem prim_sub {v i : Expr} {Wv Wi : List Tok}
    (h : PrimS v Wv) (hi : GoodS 0 i Wi) : PrimS (.sub v i) (Wv ++ .p .lsqb :: (Wi ++ [.p .rsqb])) := by
  intro rest res N' hs hcont n hn1 hn2
  simp only [List.length_append, List.length_cons, List.length_nil] at hn1 hn2
  have hc : ∀ n, max (16 * (Wi.length + 1)) N' + 1 ≤ n →
      trailers T n v (.p .lsqb :: ((Wi ++ [.p .rsqb]) ++ rest)) = res := by
    intro n hn
    obtain ⟨n, rfl⟩ : ∃ m, n = m + 1 := ⟨n - 1, by omega⟩
    have := seq_ok (Or.inr rfl) false rest [i] [Wi] (.cons hi .nil) n (by simp [seqToks]; omega)
    simp only [seqToks, Bool.false_and, Bool.false_eq_true, if_false] at this
    rw [trailers.eq_def]
    simp only [this]
    simpa using hcont n (by omega)
  obtain ⟨x, r1, h1, h2⟩ := h (.p .lsqb :: ((Wi ++ [.p .rsqb]) ++ rest)) res _ (by intro v r hr; cases hr) hc n (by omega) (by omega)
  exact ⟨x, r1, by simpa [List.append_assoc] using h1, h2⟩

theorem good_of_prim {e : Expr} {W : List Tok} (h : PrimS e W) (hs : Start 12 W) (k : Nat) (hk : k ≤ 12) : Good e W k := by
  refine good_of_row (Nat.le_refl 12) hs ?_ k hk
  intro rest hf n hn
  have hl := start_length hs
  unfold need at hn
  obtain ⟨n, rfl⟩ : ∃ m, n = m + 1 := ⟨n - 1, by omega⟩
  have hc : ∀ n, 1 ≤ n → trailers T n e rest = some (e, rest) := by
    intro n hn
    obtain ⟨n, rfl⟩ : ∃ m, n = m + 1 := ⟨n - 1, by omega⟩
    exact follow_trailers e hf
  obtain ⟨a, r1, h1, h2⟩ := h rest _ 1 hf.noStr hc n (by omega) (by omega)
  exact pa_power_plain row12 h1 h2 (follow_pow hf row12 (Nat.le_refl _))

theorem good_of_atom' {e : Expr} {W : List Tok} (ha : AtomOK e W) (hs : Start 12 W) (k : Nat) (hk : k ≤ 12) : Good e W k :=
  good_of_prim (prim_closed ha) hs k hk

theorem follow11_of_12 {rest : List Tok} (h : Follow 12 rest) : Follow 11 rest := by
  cases rest with
  | nil => trivial
  | cons t r =>
    simp only [Follow, stopTok, Bool.and_eq_true, List.all_eq_true] at h ⊢
    refine ⟨?_, h.2⟩
    intro L hL
    have : T.drop 11 = (Level.pre [(.p .plus, .uadd), (.p .minus, .usub), (.p .tilde, .invert)]) :: T.drop 12 := by decide
    rw [this] at hL
    rcases List.mem_cons.mp hL with rfl | hL
    · rfl
    · exact h.1 L hL

theorem good_pow {l r : Expr} {Wl Wr : List Tok} (hl : PrimS l Wl) (hs : Start 12 Wl) (hr : Good r Wr 11)
    (k : Nat) (hk : k ≤ 12) : Good (.bin .pow l r) (Wl ++ .p .starstar :: Wr) k := by
  refine good_of_row (Nat.le_refl 12) (hs.append _) ?_ k hk
  intro rest hf n hn
  have hll := start_length hs
  unfold need at hn
  simp only [List.length_append, List.length_cons] at hn
  obtain ⟨n, rfl⟩ : ∃ m, n = m + 1 := ⟨n - 1, by omega⟩
  have hc : ∀ n, 1 ≤ n → trailers T n l (.p .starstar :: (Wr ++ rest)) = some (l, .p .starstar :: (Wr ++ rest)) := by
    intro n hn
    obtain ⟨n, rfl⟩ : ∃ m, n = m + 1 := ⟨n - 1, by omega⟩
    have : Follow 13 (.p .starstar :: (Wr ++ rest)) := by show stopTok 13 (.p .starstar) = true; decide
    exact follow_trailers l this
  obtain ⟨a, r1, h1, h2⟩ := hl (.p .starstar :: (Wr ++ rest)) _ 1 (by intro v r hr; cases hr) hc n (by omega) (by omega)
  have h3 := hr rest (follow11_of_12 hf) n (by unfold need; omega)
  have := pa_power_op row12 h1 h2 h3
  simpa [List.append_assoc] using this

end RT
end GPy.C06
