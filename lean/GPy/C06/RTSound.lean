/-
C06 – the range of the cascade parser: every tree it yields is well formed (`Spec.WF`), for every table,
every fuel, every token list.  Together with `parse_render_roundtrip` this makes `WF` exactly the set of trees
the modelled grammar can produce.
-/
import GPy.C06.Spec
import Mathlib.Tactic.SplitIfs
namespace GPy.C06
open Spec
namespace RT

theorem wfs_of_all (es : List Expr) (h : ∀ e ∈ es, WF e = true) : WFs es = true := by
  induction es with
  | nil => rfl
  | cons e es ih =>
    simp only [WFs, Bool.and_eq_true]
    exact ⟨h e (List.mem_cons_self ..), ih (fun x hx => h x (List.mem_cons_of_mem _ hx))⟩

theorem all_of_wfs (es : List Expr) (h : WFs es = true) : ∀ e ∈ es, WF e = true := by
  induction es with
  | nil => intro e he; cases he
  | cons x xs ih =>
    simp only [WFs, Bool.and_eq_true] at h
    intro e he
    rcases List.mem_cons.mp he with rfl | he
    · exact h.1
    · exact ih h.2 e he

theorem wfc_of_all (es : List (CmpOp × Expr)) (h : ∀ p ∈ es, WF p.2 = true) : WFc es = true := by
  induction es with
  | nil => rfl
  | cons e es ih =>
    obtain ⟨o, x⟩ := e
    simp only [WFc, Bool.and_eq_true]
    exact ⟨h (o, x) (List.mem_cons_self ..), ih (fun x hx => h x (List.mem_cons_of_mem _ hx))⟩

theorem wf_foldl (ps : List (BinOp × Expr)) : ∀ a, WF a = true → (∀ p ∈ ps, WF p.2 = true) →
    WF (ps.foldl (fun acc p => .bin p.1 acc p.2) a) = true := by
  induction ps with
  | nil => intro a ha _; exact ha
  | cons p ps ih =>
    intro a ha h
    simp only [List.foldl_cons]
    apply ih
    · simp only [WF, Bool.and_eq_true]; exact ⟨ha, h p (List.mem_cons_self ..)⟩
    · exact fun x hx => h x (List.mem_cons_of_mem _ hx)

/-- the six mutually recursive parser functions only produce well-formed trees -/
def SoundAt (Tb : List Level) (n : Nat) : Prop :=
  (∀ k ts e r, parseAt Tb n k ts = some (e, r) → WF e = true) ∧
  (∀ (γ : Type) (m : List Tok → Option (γ × List Tok)) k ts ps r, loopG Tb m n k ts = some (ps, r) → ∀ p ∈ ps, WF p.2 = true) ∧
  (∀ a ts e r, WF a = true → trailers Tb n a ts = some (e, r) → WF e = true) ∧
  (∀ c ts es tc r, parseSeq Tb n c ts = some (es, tc, r) → WFs es = true) ∧
  (∀ c ts es tc r, parseSeq1 Tb n c ts = some (es, tc, r) → WFs es = true) ∧
  (∀ ts e r, parseAtom Tb n ts = some (e, r) → WF e = true)

theorem sound_zero (Tb : List Level) : SoundAt Tb 0 := by
  refine ⟨?_, ?_, ?_, ?_, ?_, ?_⟩
  · intro k ts e r h; rw [parseAt.eq_def] at h; cases h
  · intro γ m k ts ps r h; rw [loopG.eq_def] at h; cases h
  · intro a ts e r _ h; rw [trailers.eq_def] at h; cases h
  · intro c ts es tc r h; rw [parseSeq.eq_def] at h; cases h
  · intro c ts es tc r h; rw [parseSeq1.eq_def] at h; cases h
  · intro ts e r h; rw [parseAtom.eq_def] at h; cases h


theorem sound_succ (Tb : List Level) (n : Nat) (ih : SoundAt Tb n) : SoundAt Tb (n + 1) := by
  obtain ⟨hA, hL, hT, hS, hS1, hAt⟩ := ih
  refine ⟨?_, ?_, ?_, ?_, ?_, ?_⟩
  · -- parseAt
    intro k ts e r h
    rw [parseAt.eq_def] at h
    simp only [] at h
    split at h
    · cases h
    · -- ternary
      split at h
      · split at h
        · split at h
          · rename_i hb
            injection h with h; injection h with h1 h2; subst h1
            simp only [WF]; exact hA _ _ _ _ hb
          · cases h
        · cases h
      · split at h
        · cases h
        · rename_i b r1 hb
          split at h
          · split at h
            · rename_i c r4 hc
              split at h
              · rename_i o r5 ho
                injection h with h; injection h with h1 h2; subst h1
                simp only [WF, Bool.and_eq_true]
                exact ⟨⟨hA _ _ _ _ hc, hA _ _ _ _ hb⟩, hA _ _ _ _ ho⟩
              · cases h
            · cases h
          · injection h with h; injection h with h1 h2; subst h1
            exact hA _ _ _ _ hb
    · -- nary
      split at h
      · cases h
      · rename_i a r1 ha
        split at h
        · rename_i ps r' hps
          injection h with h; injection h with h1 h2; subst h1
          have hps' := hL _ _ _ _ _ _ hps
          split_ifs with hemp
          · exact hA _ _ _ _ ha
          · simp only [WF, Bool.and_eq_true, decide_eq_true_eq, List.length_cons, List.length_map]
            refine ⟨?_, ?_⟩
            · cases ps with
              | nil => simp at hemp
              | cons p ps => simp
            · simp only [WFs, Bool.and_eq_true]
              refine ⟨hA _ _ _ _ ha, wfs_of_all _ ?_⟩
              intro x hx
              obtain ⟨p, hp, rfl⟩ := List.mem_map.mp hx
              exact hps' p hp
        · cases h
    · -- pre
      split at h
      · split at h
        · split at h
          · rename_i he
            injection h with h; injection h with h1 h2; subst h1
            simp only [WF]; exact hA _ _ _ _ he
          · cases h
        · exact hA _ _ _ _ h
      · cases h
    · -- chain
      split at h
      · cases h
      · rename_i a r1 ha
        split at h
        · rename_i ps r' hps
          injection h with h; injection h with h1 h2; subst h1
          have hps' := hL _ _ _ _ _ _ hps
          split_ifs with hemp
          · exact hA _ _ _ _ ha
          · simp only [WF, Bool.and_eq_true, Bool.not_eq_true']
            exact ⟨⟨hA _ _ _ _ ha, by simpa using hemp⟩, wfc_of_all _ hps'⟩
        · cases h
    · -- left
      split at h
      · cases h
      · rename_i a r1 ha
        split at h
        · rename_i ps r' hps
          injection h with h; injection h with h1 h2; subst h1
          exact wf_foldl ps a (hA _ _ _ _ ha) (hL _ _ _ _ _ _ hps)
        · cases h
    · -- power
      split at h
      · cases h
      · rename_i a r1 ha
        split at h
        · cases h
        · rename_i a' r' ht
          have ha' := hT _ _ _ _ (hAt _ _ _ ha) ht
          split at h
          · split_ifs at h with hx
            · split at h
              · rename_i b r3 hb
                injection h with h; injection h with h1 h2; subst h1
                simp only [WF, Bool.and_eq_true]; exact ⟨ha', hA _ _ _ _ hb⟩
              · cases h
            · injection h with h; injection h with h1 h2; subst h1; exact ha'
          · injection h with h; injection h with h1 h2; subst h1; exact ha'
  · -- loopG
    intro γ m k ts ps r h
    rw [loopG.eq_def] at h
    simp only [] at h
    split at h
    · injection h with h; injection h with h1 h2; subst h1
      intro p hp; cases hp
    · split at h
      · cases h
      · rename_i b r1 hb
        split at h
        · rename_i ps' r2 hps
          injection h with h; injection h with h1 h2; subst h1
          intro p hp
          rcases List.mem_cons.mp hp with rfl | hp
          · exact hA _ _ _ _ hb
          · exact hL _ _ _ _ _ _ hps p hp
        · cases h
  · -- trailers
    intro a ts e r ha h
    rw [trailers.eq_def] at h
    simp only [] at h
    split at h
    · split at h
      · rename_i es x r' hs
        refine hT _ _ _ _ ?_ h
        simp only [WF, Bool.and_eq_true]; exact ⟨ha, hS _ _ _ _ _ hs⟩
      · cases h
    · split at h
      · rename_i es tc r' hs
        split_ifs at h with hemp
        refine hT _ _ _ _ ?_ h
        have hes := hS _ _ _ _ _ hs
        simp only [WF, Bool.and_eq_true]
        refine ⟨ha, ?_⟩
        split
        · simp only [WFs, Bool.and_eq_true] at hes; exact hes.1
        · simp only [WF]; exact hes
      · cases h
    · refine hT _ _ _ _ ?_ h
      simp only [WF]; exact ha
    · injection h with h; injection h with h1 h2; subst h1; exact ha
  · -- parseSeq
    intro c ts es tc r h
    rw [parseSeq.eq_def] at h
    simp only [] at h
    split at h
    · split_ifs at h with hx
      · injection h with h; injection h with h1 h2; subst h1; rfl
      · exact hS1 _ _ _ _ _ h
    · exact hS1 _ _ _ _ _ h
  · -- parseSeq1
    intro c ts es tc r h
    rw [parseSeq1.eq_def] at h
    simp only [] at h
    split at h
    · cases h
    · rename_i e r1 he
      split at h
      · split at h
        · rename_i es' tc' r2 hs
          injection h with h; injection h with h1 h2; subst h1
          simp only [WFs, Bool.and_eq_true]
          exact ⟨hA _ _ _ _ he, hS _ _ _ _ _ hs⟩
        · cases h
      · split_ifs at h with hx
        injection h with h; injection h with h1 h2; subst h1
        simp only [WFs, Bool.and_eq_true]
        exact ⟨hA _ _ _ _ he, trivial⟩
      · cases h
  · -- parseAtom
    intro ts e r h
    rw [parseAtom.eq_def] at h
    simp only [] at h
    split at h
    all_goals first
      | (injection h with h; injection h with h1 h2; subst h1; rfl)
      | cases h
      | skip
    · split at h
      · injection h with h; injection h with h1 h2; subst h1; rfl
      · cases h
    · split at h
      · rename_i es tc r' hs
        injection h with h; injection h with h1 h2; subst h1
        have hes := hS _ _ _ _ _ hs
        split
        · simp only [WFs, Bool.and_eq_true] at hes; exact hes.1
        · simp only [WF]; exact hes
      · cases h
    · split at h
      · rename_i es tc r' hs
        injection h with h; injection h with h1 h2; subst h1
        simp only [WF]; exact hS _ _ _ _ _ hs
      · cases h

theorem sound_all (Tb : List Level) : ∀ n, SoundAt Tb n
  | 0 => sound_zero Tb
  | n + 1 => sound_succ Tb n (sound_all Tb n)

/-- every tree the cascade parser yields (any table, any fuel, any level, any token list) is well formed -/
theorem parseAt_wf (Tb : List Level) (n k : Nat) (ts : List Tok) (e : Expr) (r : List Tok)
    (h : parseAt Tb n k ts = some (e, r)) : WF e = true := (sound_all Tb n).1 k ts e r h

end RT
end GPy.C06
