/-
HAND-MAINTAINED pins of the grammar rules the Lean grammar model (Model.lean section 5, Stmt.lean) was
written against: right-hand sides as spelled in parser/grammar.y and fingerprints of the semantic
actions (grammar.y and the `case N:` of parser/y.go).  NOT rewritten by ./check: GeneratedRules.lean is
regenerated from the repository on every run, and a rule whose shape or action changed breaks the
obligation that NAMES it (rule_<nonterminal>_pinned).  To re-baseline after the model has been brought
up to date with a grammar change: copy the new `r_<nt>` from GeneratedRules.lean into `expected_<nt>` here
(or `go run ./extract/yaccfacts -grammar … -ygo … -print-pins`) and refresh facts/C06.rules.tsv.
-/
import GPy.C06.GeneratedRules
namespace GPy.C06.RulePins
open GPy.C06.GeneratedRules (Rule)

def expected_inputs : Rule where
  lhs := "inputs"
  alts := [
    ["SINGLE_INPUT", "single_input"],
    ["FILE_INPUT", "file_input"],
    ["EVAL_INPUT", "eval_input"]
  ]
  actionFp := ["2fb7c1b43490", "2fb7c1b43490", "2fb7c1b43490"]
  ygoFp := ["2fb7c1b43490", "2fb7c1b43490", "2fb7c1b43490"]

theorem rule_inputs_pinned : GeneratedRules.lookup "inputs" = some expected_inputs := by decide

def expected_single_input : Rule where
  lhs := "single_input"
  alts := [
    ["simple_stmt"],
    ["compound_stmt", "NEWLINE"]
  ]
  actionFp := ["d4bdcde8ed6d", "f20595f7f301"]
  ygoFp := ["d4bdcde8ed6d", "f20595f7f301"]

theorem rule_single_input_pinned : GeneratedRules.lookup "single_input" = some expected_single_input := by decide

def expected_file_input : Rule where
  lhs := "file_input"
  alts := [
    ["nl_or_stmt", "ENDMARKER"]
  ]
  actionFp := ["f7475276f870"]
  ygoFp := ["f7475276f870"]

theorem rule_file_input_pinned : GeneratedRules.lookup "file_input" = some expected_file_input := by decide

def expected_nl_or_stmt : Rule where
  lhs := "nl_or_stmt"
  alts := [
    [],
    ["nl_or_stmt", "NEWLINE"],
    ["nl_or_stmt", "stmt"]
  ]
  actionFp := ["8a06f14de4a5", "bf21a9e8fbc5", "1a4f6ef9317a"]
  ygoFp := ["8a06f14de4a5", "bf21a9e8fbc5", "1a4f6ef9317a"]

theorem rule_nl_or_stmt_pinned : GeneratedRules.lookup "nl_or_stmt" = some expected_nl_or_stmt := by decide

def expected_eval_input : Rule where
  lhs := "eval_input"
  alts := [
    ["testlist", "nls", "ENDMARKER"]
  ]
  actionFp := ["12b0161ae19a"]
  ygoFp := ["12b0161ae19a"]

theorem rule_eval_input_pinned : GeneratedRules.lookup "eval_input" = some expected_eval_input := by decide

def expected_nls : Rule where
  lhs := "nls"
  alts := [
    [],
    ["nls", "NEWLINE"]
  ]
  actionFp := ["", ""]
  ygoFp := ["", ""]

theorem rule_nls_pinned : GeneratedRules.lookup "nls" = some expected_nls := by decide

def expected_optional_arglist : Rule where
  lhs := "optional_arglist"
  alts := [
    [],
    ["arglist"]
  ]
  actionFp := ["41174ca5a0e2", "9b1913e397cd"]
  ygoFp := ["41174ca5a0e2", "9b1913e397cd"]

theorem rule_optional_arglist_pinned : GeneratedRules.lookup "optional_arglist" = some expected_optional_arglist := by decide

def expected_optional_arglist_call : Rule where
  lhs := "optional_arglist_call"
  alts := [
    [],
    ["'('", "optional_arglist", "')'"]
  ]
  actionFp := ["8a06f14de4a5", "8a4e9227cfc9"]
  ygoFp := ["8a06f14de4a5", "8a4e9227cfc9"]

theorem rule_optional_arglist_call_pinned : GeneratedRules.lookup "optional_arglist_call" = some expected_optional_arglist_call := by decide

def expected_decorator : Rule where
  lhs := "decorator"
  alts := [
    ["'@'", "dotted_name", "optional_arglist_call", "NEWLINE"]
  ]
  actionFp := ["1f4151c08d0d"]
  ygoFp := ["1f4151c08d0d"]

theorem rule_decorator_pinned : GeneratedRules.lookup "decorator" = some expected_decorator := by decide

def expected_decorators : Rule where
  lhs := "decorators"
  alts := [
    ["decorator"],
    ["decorators", "decorator"]
  ]
  actionFp := ["482cfb385848", "8575dac83c3c"]
  ygoFp := ["482cfb385848", "8575dac83c3c"]

theorem rule_decorators_pinned : GeneratedRules.lookup "decorators" = some expected_decorators := by decide

def expected_classdef_or_funcdef : Rule where
  lhs := "classdef_or_funcdef"
  alts := [
    ["classdef"],
    ["funcdef"]
  ]
  actionFp := ["9b1913e397cd", "9b1913e397cd"]
  ygoFp := ["9b1913e397cd", "9b1913e397cd"]

theorem rule_classdef_or_funcdef_pinned : GeneratedRules.lookup "classdef_or_funcdef" = some expected_classdef_or_funcdef := by decide

def expected_decorated : Rule where
  lhs := "decorated"
  alts := [
    ["decorators", "classdef_or_funcdef"]
  ]
  actionFp := ["e9a97f7a27e4"]
  ygoFp := ["e9a97f7a27e4"]

theorem rule_decorated_pinned : GeneratedRules.lookup "decorated" = some expected_decorated := by decide

def expected_optional_return_type : Rule where
  lhs := "optional_return_type"
  alts := [
    [],
    ["MINUSGT", "test"]
  ]
  actionFp := ["8a06f14de4a5", "8a4e9227cfc9"]
  ygoFp := ["8a06f14de4a5", "8a4e9227cfc9"]

theorem rule_optional_return_type_pinned : GeneratedRules.lookup "optional_return_type" = some expected_optional_return_type := by decide

def expected_funcdef : Rule where
  lhs := "funcdef"
  alts := [
    ["DEF", "NAME", "parameters", "optional_return_type", "':'", "suite"]
  ]
  actionFp := ["e9b177323cb9"]
  ygoFp := ["e9b177323cb9"]

theorem rule_funcdef_pinned : GeneratedRules.lookup "funcdef" = some expected_funcdef := by decide

def expected_parameters : Rule where
  lhs := "parameters"
  alts := [
    ["'('", "optional_typedargslist", "')'"]
  ]
  actionFp := ["8a4e9227cfc9"]
  ygoFp := ["8a4e9227cfc9"]

theorem rule_parameters_pinned : GeneratedRules.lookup "parameters" = some expected_parameters := by decide

def expected_optional_typedargslist : Rule where
  lhs := "optional_typedargslist"
  alts := [
    [],
    ["typedargslist"]
  ]
  actionFp := ["624425bd73a5", "9b1913e397cd"]
  ygoFp := ["624425bd73a5", "9b1913e397cd"]

theorem rule_optional_typedargslist_pinned : GeneratedRules.lookup "optional_typedargslist" = some expected_optional_typedargslist := by decide

def expected_tfpdeftest : Rule where
  lhs := "tfpdeftest"
  alts := [
    ["tfpdef"],
    ["tfpdef", "'='", "test"]
  ]
  actionFp := ["b4ba06e0ee95", "7f1634e0be6d"]
  ygoFp := ["b4ba06e0ee95", "7f1634e0be6d"]

theorem rule_tfpdeftest_pinned : GeneratedRules.lookup "tfpdeftest" = some expected_tfpdeftest := by decide

def expected_tfpdeftests : Rule where
  lhs := "tfpdeftests"
  alts := [
    [],
    ["tfpdeftests", "','", "tfpdeftest"]
  ]
  actionFp := ["55e6849953fa", "e0c6f74a86d2"]
  ygoFp := ["55e6849953fa", "e0c6f74a86d2"]

theorem rule_tfpdeftests_pinned : GeneratedRules.lookup "tfpdeftests" = some expected_tfpdeftests := by decide

def expected_tfpdeftests1 : Rule where
  lhs := "tfpdeftests1"
  alts := [
    ["tfpdeftest"],
    ["tfpdeftests1", "','", "tfpdeftest"]
  ]
  actionFp := ["690f831c1a13", "b3275da351de"]
  ygoFp := ["690f831c1a13", "b3275da351de"]

theorem rule_tfpdeftests1_pinned : GeneratedRules.lookup "tfpdeftests1" = some expected_tfpdeftests1 := by decide

def expected_optional_tfpdef : Rule where
  lhs := "optional_tfpdef"
  alts := [
    [],
    ["tfpdef"]
  ]
  actionFp := ["8a06f14de4a5", "9b1913e397cd"]
  ygoFp := ["8a06f14de4a5", "9b1913e397cd"]

theorem rule_optional_tfpdef_pinned : GeneratedRules.lookup "optional_tfpdef" = some expected_optional_tfpdef := by decide

def expected_typedargslist : Rule where
  lhs := "typedargslist"
  alts := [
    ["tfpdeftests1", "optional_comma"],
    ["tfpdeftests1", "','", "'*'", "optional_tfpdef", "tfpdeftests"],
    ["tfpdeftests1", "','", "'*'", "optional_tfpdef", "tfpdeftests", "','", "STARSTAR", "tfpdef"],
    ["tfpdeftests1", "','", "STARSTAR", "tfpdef"],
    ["'*'", "optional_tfpdef", "tfpdeftests"],
    ["'*'", "optional_tfpdef", "tfpdeftests", "','", "STARSTAR", "tfpdef"],
    ["STARSTAR", "tfpdef"]
  ]
  actionFp := ["06e1f66b959d", "e21db71f75c3", "98d2324ad95f", "24377ca8119b", "d016d9b18ad1", "78f5a5406271", "ec9018790b3b"]
  ygoFp := ["06e1f66b959d", "e21db71f75c3", "98d2324ad95f", "24377ca8119b", "d016d9b18ad1", "78f5a5406271", "ec9018790b3b"]

theorem rule_typedargslist_pinned : GeneratedRules.lookup "typedargslist" = some expected_typedargslist := by decide

def expected_tfpdef : Rule where
  lhs := "tfpdef"
  alts := [
    ["NAME"],
    ["NAME", "':'", "test"]
  ]
  actionFp := ["ec905d4d0489", "13ebf861e23e"]
  ygoFp := ["ec905d4d0489", "13ebf861e23e"]

theorem rule_tfpdef_pinned : GeneratedRules.lookup "tfpdef" = some expected_tfpdef := by decide

def expected_vfpdeftest : Rule where
  lhs := "vfpdeftest"
  alts := [
    ["vfpdef"],
    ["vfpdef", "'='", "test"]
  ]
  actionFp := ["b4ba06e0ee95", "7f1634e0be6d"]
  ygoFp := ["b4ba06e0ee95", "7f1634e0be6d"]

theorem rule_vfpdeftest_pinned : GeneratedRules.lookup "vfpdeftest" = some expected_vfpdeftest := by decide

def expected_vfpdeftests : Rule where
  lhs := "vfpdeftests"
  alts := [
    [],
    ["vfpdeftests", "','", "vfpdeftest"]
  ]
  actionFp := ["55e6849953fa", "e0c6f74a86d2"]
  ygoFp := ["55e6849953fa", "e0c6f74a86d2"]

theorem rule_vfpdeftests_pinned : GeneratedRules.lookup "vfpdeftests" = some expected_vfpdeftests := by decide

def expected_vfpdeftests1 : Rule where
  lhs := "vfpdeftests1"
  alts := [
    ["vfpdeftest"],
    ["vfpdeftests1", "','", "vfpdeftest"]
  ]
  actionFp := ["690f831c1a13", "b3275da351de"]
  ygoFp := ["690f831c1a13", "b3275da351de"]

theorem rule_vfpdeftests1_pinned : GeneratedRules.lookup "vfpdeftests1" = some expected_vfpdeftests1 := by decide

def expected_optional_vfpdef : Rule where
  lhs := "optional_vfpdef"
  alts := [
    [],
    ["vfpdef"]
  ]
  actionFp := ["8a06f14de4a5", "9b1913e397cd"]
  ygoFp := ["8a06f14de4a5", "9b1913e397cd"]

theorem rule_optional_vfpdef_pinned : GeneratedRules.lookup "optional_vfpdef" = some expected_optional_vfpdef := by decide

def expected_varargslist : Rule where
  lhs := "varargslist"
  alts := [
    ["vfpdeftests1", "optional_comma"],
    ["vfpdeftests1", "','", "'*'", "optional_vfpdef", "vfpdeftests"],
    ["vfpdeftests1", "','", "'*'", "optional_vfpdef", "vfpdeftests", "','", "STARSTAR", "vfpdef"],
    ["vfpdeftests1", "','", "STARSTAR", "vfpdef"],
    ["'*'", "optional_vfpdef", "vfpdeftests"],
    ["'*'", "optional_vfpdef", "vfpdeftests", "','", "STARSTAR", "vfpdef"],
    ["STARSTAR", "vfpdef"]
  ]
  actionFp := ["06e1f66b959d", "e21db71f75c3", "98d2324ad95f", "24377ca8119b", "d016d9b18ad1", "78f5a5406271", "ec9018790b3b"]
  ygoFp := ["06e1f66b959d", "e21db71f75c3", "98d2324ad95f", "24377ca8119b", "d016d9b18ad1", "78f5a5406271", "ec9018790b3b"]

theorem rule_varargslist_pinned : GeneratedRules.lookup "varargslist" = some expected_varargslist := by decide

def expected_vfpdef : Rule where
  lhs := "vfpdef"
  alts := [
    ["NAME"]
  ]
  actionFp := ["ec905d4d0489"]
  ygoFp := ["ec905d4d0489"]

theorem rule_vfpdef_pinned : GeneratedRules.lookup "vfpdef" = some expected_vfpdef := by decide

def expected_expr_stmt : Rule where
  lhs := "expr_stmt"
  alts := [
    ["testlist_star_expr", "augassign", "yield_expr_or_testlist"],
    ["testlist_star_expr", "equals_yield_expr_or_testlist_star_expr"],
    ["testlist_star_expr"]
  ]
  actionFp := ["894e52983a9e", "30f0753500c5", "361e70819a28"]
  ygoFp := ["894e52983a9e", "30f0753500c5", "361e70819a28"]

theorem rule_expr_stmt_pinned : GeneratedRules.lookup "expr_stmt" = some expected_expr_stmt := by decide

def expected_yield_expr_or_testlist : Rule where
  lhs := "yield_expr_or_testlist"
  alts := [
    ["yield_expr"],
    ["testlist"]
  ]
  actionFp := ["9b1913e397cd", "9b1913e397cd"]
  ygoFp := ["9b1913e397cd", "9b1913e397cd"]

theorem rule_yield_expr_or_testlist_pinned : GeneratedRules.lookup "yield_expr_or_testlist" = some expected_yield_expr_or_testlist := by decide

def expected_yield_expr_or_testlist_star_expr : Rule where
  lhs := "yield_expr_or_testlist_star_expr"
  alts := [
    ["yield_expr"],
    ["testlist_star_expr"]
  ]
  actionFp := ["9b1913e397cd", "9b1913e397cd"]
  ygoFp := ["9b1913e397cd", "9b1913e397cd"]

theorem rule_yield_expr_or_testlist_star_expr_pinned : GeneratedRules.lookup "yield_expr_or_testlist_star_expr" = some expected_yield_expr_or_testlist_star_expr := by decide

def expected_equals_yield_expr_or_testlist_star_expr : Rule where
  lhs := "equals_yield_expr_or_testlist_star_expr"
  alts := [
    ["'='", "yield_expr_or_testlist_star_expr"],
    ["equals_yield_expr_or_testlist_star_expr", "'='", "yield_expr_or_testlist_star_expr"]
  ]
  actionFp := ["60a28bcd393a", "cad5de82b8a7"]
  ygoFp := ["60a28bcd393a", "cad5de82b8a7"]

theorem rule_equals_yield_expr_or_testlist_star_expr_pinned : GeneratedRules.lookup "equals_yield_expr_or_testlist_star_expr" = some expected_equals_yield_expr_or_testlist_star_expr := by decide

def expected_test_or_star_exprs : Rule where
  lhs := "test_or_star_exprs"
  alts := [
    ["test_or_star_expr"],
    ["test_or_star_exprs", "','", "test_or_star_expr"]
  ]
  actionFp := ["482cfb385848", "cad5de82b8a7"]
  ygoFp := ["482cfb385848", "cad5de82b8a7"]

theorem rule_test_or_star_exprs_pinned : GeneratedRules.lookup "test_or_star_exprs" = some expected_test_or_star_exprs := by decide

def expected_test_or_star_expr : Rule where
  lhs := "test_or_star_expr"
  alts := [
    ["test"],
    ["star_expr"]
  ]
  actionFp := ["9b1913e397cd", "9b1913e397cd"]
  ygoFp := ["9b1913e397cd", "9b1913e397cd"]

theorem rule_test_or_star_expr_pinned : GeneratedRules.lookup "test_or_star_expr" = some expected_test_or_star_expr := by decide

def expected_optional_comma : Rule where
  lhs := "optional_comma"
  alts := [
    [],
    ["','"]
  ]
  actionFp := ["8e38707107d1", "3442f3246012"]
  ygoFp := ["8e38707107d1", "3442f3246012"]

theorem rule_optional_comma_pinned : GeneratedRules.lookup "optional_comma" = some expected_optional_comma := by decide

def expected_testlist_star_expr : Rule where
  lhs := "testlist_star_expr"
  alts := [
    ["test_or_star_exprs", "optional_comma"]
  ]
  actionFp := ["dfade5ddb8f9"]
  ygoFp := ["dfade5ddb8f9"]

theorem rule_testlist_star_expr_pinned : GeneratedRules.lookup "testlist_star_expr" = some expected_testlist_star_expr := by decide

def expected_augassign : Rule where
  lhs := "augassign"
  alts := [
    ["PLUSEQ"],
    ["MINUSEQ"],
    ["STAREQ"],
    ["DIVEQ"],
    ["PERCEQ"],
    ["ANDEQ"],
    ["PIPEEQ"],
    ["HATEQ"],
    ["LTLTEQ"],
    ["GTGTEQ"],
    ["STARSTAREQ"],
    ["DIVDIVEQ"]
  ]
  actionFp := ["98652dc61dcc", "1a57f36bb1af", "f682ab9ec51f", "851b04e07de4", "be311cba874a", "6986bdd03585", "16be3e3e5b3f", "fe7a86397fde", "b3e5f5d6ff26", "1939402a0980", "31a2d18419a3", "6fbdbe99c2d5"]
  ygoFp := ["98652dc61dcc", "1a57f36bb1af", "f682ab9ec51f", "851b04e07de4", "be311cba874a", "6986bdd03585", "16be3e3e5b3f", "fe7a86397fde", "b3e5f5d6ff26", "1939402a0980", "31a2d18419a3", "6fbdbe99c2d5"]

theorem rule_augassign_pinned : GeneratedRules.lookup "augassign" = some expected_augassign := by decide

def expected_del_stmt : Rule where
  lhs := "del_stmt"
  alts := [
    ["DEL", "exprlist"]
  ]
  actionFp := ["340c3660087c"]
  ygoFp := ["340c3660087c"]

theorem rule_del_stmt_pinned : GeneratedRules.lookup "del_stmt" = some expected_del_stmt := by decide

def expected_return_stmt : Rule where
  lhs := "return_stmt"
  alts := [
    ["RETURN"],
    ["RETURN", "testlist"]
  ]
  actionFp := ["04136b207608", "d3a2d896e2c7"]
  ygoFp := ["04136b207608", "d3a2d896e2c7"]

theorem rule_return_stmt_pinned : GeneratedRules.lookup "return_stmt" = some expected_return_stmt := by decide

def expected_dot : Rule where
  lhs := "dot"
  alts := [
    ["'.'"],
    ["ELIPSIS"]
  ]
  actionFp := ["a158e9c3cfab", "ef4e09f7e71b"]
  ygoFp := ["a158e9c3cfab", "ef4e09f7e71b"]

theorem rule_dot_pinned : GeneratedRules.lookup "dot" = some expected_dot := by decide

def expected_dots : Rule where
  lhs := "dots"
  alts := [
    ["dot"],
    ["dots", "dot"]
  ]
  actionFp := ["9b1913e397cd", "f597000e313d"]
  ygoFp := ["9b1913e397cd", "f597000e313d"]

theorem rule_dots_pinned : GeneratedRules.lookup "dots" = some expected_dots := by decide

def expected_from_arg : Rule where
  lhs := "from_arg"
  alts := [
    ["dotted_name"],
    ["dots", "dotted_name"],
    ["dots"]
  ]
  actionFp := ["266b51d18103", "3336d11bf3a7", "ae0f13dc4a40"]
  ygoFp := ["266b51d18103", "3336d11bf3a7", "ae0f13dc4a40"]

theorem rule_from_arg_pinned : GeneratedRules.lookup "from_arg" = some expected_from_arg := by decide

def expected_import_from_arg : Rule where
  lhs := "import_from_arg"
  alts := [
    ["'*'"],
    ["'('", "import_as_names", "optional_comma", "')'"],
    ["import_as_names", "optional_comma"]
  ]
  actionFp := ["ff8a3a19132e", "8a4e9227cfc9", "be6176eceb0c"]
  ygoFp := ["ff8a3a19132e", "8a4e9227cfc9", "be6176eceb0c"]

theorem rule_import_from_arg_pinned : GeneratedRules.lookup "import_from_arg" = some expected_import_from_arg := by decide

def expected_import_from : Rule where
  lhs := "import_from"
  alts := [
    ["FROM", "from_arg", "IMPORT", "import_from_arg"]
  ]
  actionFp := ["a07a44ea3eaf"]
  ygoFp := ["a07a44ea3eaf"]

theorem rule_import_from_pinned : GeneratedRules.lookup "import_from" = some expected_import_from := by decide

def expected_import_as_name : Rule where
  lhs := "import_as_name"
  alts := [
    ["NAME"],
    ["NAME", "AS", "NAME"]
  ]
  actionFp := ["94164df54cbc", "0b76df7e4bc2"]
  ygoFp := ["94164df54cbc", "0b76df7e4bc2"]

theorem rule_import_as_name_pinned : GeneratedRules.lookup "import_as_name" = some expected_import_as_name := by decide

def expected_dotted_as_name : Rule where
  lhs := "dotted_as_name"
  alts := [
    ["dotted_name"],
    ["dotted_name", "AS", "NAME"]
  ]
  actionFp := ["94164df54cbc", "0b76df7e4bc2"]
  ygoFp := ["94164df54cbc", "0b76df7e4bc2"]

theorem rule_dotted_as_name_pinned : GeneratedRules.lookup "dotted_as_name" = some expected_dotted_as_name := by decide

def expected_import_as_names : Rule where
  lhs := "import_as_names"
  alts := [
    ["import_as_name"],
    ["import_as_names", "','", "import_as_name"]
  ]
  actionFp := ["482cfb385848", "cad5de82b8a7"]
  ygoFp := ["482cfb385848", "cad5de82b8a7"]

theorem rule_import_as_names_pinned : GeneratedRules.lookup "import_as_names" = some expected_import_as_names := by decide

def expected_dotted_as_names : Rule where
  lhs := "dotted_as_names"
  alts := [
    ["dotted_as_name"],
    ["dotted_as_names", "','", "dotted_as_name"]
  ]
  actionFp := ["482cfb385848", "cad5de82b8a7"]
  ygoFp := ["482cfb385848", "cad5de82b8a7"]

theorem rule_dotted_as_names_pinned : GeneratedRules.lookup "dotted_as_names" = some expected_dotted_as_names := by decide

def expected_dotted_name : Rule where
  lhs := "dotted_name"
  alts := [
    ["NAME"],
    ["dotted_name", "'.'", "NAME"]
  ]
  actionFp := ["9b1913e397cd", "ab47e47293df"]
  ygoFp := ["9b1913e397cd", "ab47e47293df"]

theorem rule_dotted_name_pinned : GeneratedRules.lookup "dotted_name" = some expected_dotted_name := by decide

def expected_names : Rule where
  lhs := "names"
  alts := [
    ["NAME"],
    ["names", "','", "NAME"]
  ]
  actionFp := ["ae90191a1e34", "1a5740079c58"]
  ygoFp := ["ae90191a1e34", "1a5740079c58"]

theorem rule_names_pinned : GeneratedRules.lookup "names" = some expected_names := by decide

def expected_global_stmt : Rule where
  lhs := "global_stmt"
  alts := [
    ["GLOBAL", "names"]
  ]
  actionFp := ["de9dd14a2e32"]
  ygoFp := ["de9dd14a2e32"]

theorem rule_global_stmt_pinned : GeneratedRules.lookup "global_stmt" = some expected_global_stmt := by decide

def expected_nonlocal_stmt : Rule where
  lhs := "nonlocal_stmt"
  alts := [
    ["NONLOCAL", "names"]
  ]
  actionFp := ["2f1905c049e1"]
  ygoFp := ["2f1905c049e1"]

theorem rule_nonlocal_stmt_pinned : GeneratedRules.lookup "nonlocal_stmt" = some expected_nonlocal_stmt := by decide

def expected_tests : Rule where
  lhs := "tests"
  alts := [
    ["test"],
    ["tests", "','", "test"]
  ]
  actionFp := ["482cfb385848", "cad5de82b8a7"]
  ygoFp := ["482cfb385848", "cad5de82b8a7"]

theorem rule_tests_pinned : GeneratedRules.lookup "tests" = some expected_tests := by decide

def expected_optional_else : Rule where
  lhs := "optional_else"
  alts := [
    [],
    ["ELSE", "':'", "suite"]
  ]
  actionFp := ["8a06f14de4a5", "7517289015d8"]
  ygoFp := ["8a06f14de4a5", "7517289015d8"]

theorem rule_optional_else_pinned : GeneratedRules.lookup "optional_else" = some expected_optional_else := by decide

def expected_for_stmt : Rule where
  lhs := "for_stmt"
  alts := [
    ["FOR", "exprlist", "IN", "testlist", "':'", "suite", "optional_else"]
  ]
  actionFp := ["78e0127291e4"]
  ygoFp := ["78e0127291e4"]

theorem rule_for_stmt_pinned : GeneratedRules.lookup "for_stmt" = some expected_for_stmt := by decide

def expected_with_items : Rule where
  lhs := "with_items"
  alts := [
    ["with_item"],
    ["with_items", "','", "with_item"]
  ]
  actionFp := ["482cfb385848", "cad5de82b8a7"]
  ygoFp := ["482cfb385848", "cad5de82b8a7"]

theorem rule_with_items_pinned : GeneratedRules.lookup "with_items" = some expected_with_items := by decide

def expected_with_stmt : Rule where
  lhs := "with_stmt"
  alts := [
    ["WITH", "with_items", "':'", "suite"]
  ]
  actionFp := ["946780213dc5"]
  ygoFp := ["946780213dc5"]

theorem rule_with_stmt_pinned : GeneratedRules.lookup "with_stmt" = some expected_with_stmt := by decide

def expected_with_item : Rule where
  lhs := "with_item"
  alts := [
    ["test"],
    ["test", "AS", "expr"]
  ]
  actionFp := ["664e9d830659", "21223aef86c4"]
  ygoFp := ["664e9d830659", "21223aef86c4"]

theorem rule_with_item_pinned : GeneratedRules.lookup "with_item" = some expected_with_item := by decide

def expected_test : Rule where
  lhs := "test"
  alts := [
    ["or_test"],
    ["or_test", "IF", "or_test", "ELSE", "test"],
    ["lambdef"]
  ]
  actionFp := ["9b1913e397cd", "f1f8be95bdd2", "9b1913e397cd"]
  ygoFp := ["9b1913e397cd", "f1f8be95bdd2", "9b1913e397cd"]

theorem rule_test_pinned : GeneratedRules.lookup "test" = some expected_test := by decide

def expected_test_nocond : Rule where
  lhs := "test_nocond"
  alts := [
    ["or_test"],
    ["lambdef_nocond"]
  ]
  actionFp := ["9b1913e397cd", "9b1913e397cd"]
  ygoFp := ["9b1913e397cd", "9b1913e397cd"]

theorem rule_test_nocond_pinned : GeneratedRules.lookup "test_nocond" = some expected_test_nocond := by decide

def expected_lambdef : Rule where
  lhs := "lambdef"
  alts := [
    ["LAMBDA", "':'", "test"],
    ["LAMBDA", "varargslist", "':'", "test"]
  ]
  actionFp := ["bb7c7847ae39", "d8b36d1319e7"]
  ygoFp := ["bb7c7847ae39", "d8b36d1319e7"]

theorem rule_lambdef_pinned : GeneratedRules.lookup "lambdef" = some expected_lambdef := by decide

def expected_lambdef_nocond : Rule where
  lhs := "lambdef_nocond"
  alts := [
    ["LAMBDA", "':'", "test_nocond"],
    ["LAMBDA", "varargslist", "':'", "test_nocond"]
  ]
  actionFp := ["bb7c7847ae39", "d8b36d1319e7"]
  ygoFp := ["bb7c7847ae39", "d8b36d1319e7"]

theorem rule_lambdef_nocond_pinned : GeneratedRules.lookup "lambdef_nocond" = some expected_lambdef_nocond := by decide

def expected_star_expr : Rule where
  lhs := "star_expr"
  alts := [
    ["'*'", "expr"]
  ]
  actionFp := ["8c1deacf7570"]
  ygoFp := ["8c1deacf7570"]

theorem rule_star_expr_pinned : GeneratedRules.lookup "star_expr" = some expected_star_expr := by decide

def expected_power : Rule where
  lhs := "power"
  alts := [
    ["atom", "trailers"],
    ["atom", "trailers", "STARSTAR", "factor"]
  ]
  actionFp := ["ac70238265a2", "c63ee087bc69"]
  ygoFp := ["ac70238265a2", "c63ee087bc69"]

theorem rule_power_pinned : GeneratedRules.lookup "power" = some expected_power := by decide

def expected_trailers : Rule where
  lhs := "trailers"
  alts := [
    [],
    ["trailers", "trailer"]
  ]
  actionFp := ["8a06f14de4a5", "8575dac83c3c"]
  ygoFp := ["8a06f14de4a5", "8575dac83c3c"]

theorem rule_trailers_pinned : GeneratedRules.lookup "trailers" = some expected_trailers := by decide

def expected_strings : Rule where
  lhs := "strings"
  alts := [
    ["STRING"],
    ["strings", "STRING"]
  ]
  actionFp := ["9b1913e397cd", "32dc6c3aa3bb"]
  ygoFp := ["9b1913e397cd", "32dc6c3aa3bb"]

theorem rule_strings_pinned : GeneratedRules.lookup "strings" = some expected_strings := by decide

def expected_atom : Rule where
  lhs := "atom"
  alts := [
    ["'('", "')'"],
    ["'('", "yield_expr", "')'"],
    ["'('", "test_or_star_expr", "comp_for", "')'"],
    ["'('", "test_or_star_exprs", "optional_comma", "')'"],
    ["'['", "']'"],
    ["'['", "test_or_star_expr", "comp_for", "']'"],
    ["'['", "test_or_star_exprs", "optional_comma", "']'"],
    ["'{'", "'}'"],
    ["'{'", "dictorsetmaker", "'}'"],
    ["NAME"],
    ["NUMBER"],
    ["strings"],
    ["ELIPSIS"],
    ["NONE"],
    ["TRUE"],
    ["FALSE"]
  ]
  actionFp := ["6446f6c0cd03", "8a4e9227cfc9", "5bf36c72b3db", "1cd582507dd2", "3b4258fe306c", "a7c3ad9bae21", "0e42e62ec894", "a49c2905da46", "8a4e9227cfc9", "678e34c75c54", "1430e32780ba", "7e6a62062fac", "fca6a32f7887", "83d8aea5129e", "4f3239f70883", "e2e214403c52"]
  ygoFp := ["6446f6c0cd03", "8a4e9227cfc9", "5bf36c72b3db", "1cd582507dd2", "3b4258fe306c", "a7c3ad9bae21", "0e42e62ec894", "a49c2905da46", "8a4e9227cfc9", "678e34c75c54", "1430e32780ba", "7e6a62062fac", "fca6a32f7887", "83d8aea5129e", "4f3239f70883", "e2e214403c52"]

theorem rule_atom_pinned : GeneratedRules.lookup "atom" = some expected_atom := by decide

def expected_trailer : Rule where
  lhs := "trailer"
  alts := [
    ["'('", "')'"],
    ["'('", "arglist", "')'"],
    ["'['", "subscriptlist", "']'"],
    ["'.'", "NAME"]
  ]
  actionFp := ["41174ca5a0e2", "8a4e9227cfc9", "c686eb5dc0ed", "707b84c1acc5"]
  ygoFp := ["41174ca5a0e2", "8a4e9227cfc9", "e441b9e5e6aa", "707b84c1acc5"]

theorem rule_trailer_pinned : GeneratedRules.lookup "trailer" = some expected_trailer := by decide

def expected_subscripts : Rule where
  lhs := "subscripts"
  alts := [
    ["subscript"],
    ["subscripts", "','", "subscript"]
  ]
  actionFp := ["f3baafeaf752", "44d7532f1868"]
  ygoFp := ["f3baafeaf752", "44d7532f1868"]

theorem rule_subscripts_pinned : GeneratedRules.lookup "subscripts" = some expected_subscripts := by decide

def expected_subscriptlist : Rule where
  lhs := "subscriptlist"
  alts := [
    ["subscripts", "optional_comma"]
  ]
  actionFp := ["9ee88fadc8e5"]
  ygoFp := ["9ee88fadc8e5"]

theorem rule_subscriptlist_pinned : GeneratedRules.lookup "subscriptlist" = some expected_subscriptlist := by decide

def expected_subscript : Rule where
  lhs := "subscript"
  alts := [
    ["test"],
    ["':'"],
    ["':'", "sliceop"],
    ["':'", "test"],
    ["':'", "test", "sliceop"],
    ["test", "':'"],
    ["test", "':'", "sliceop"],
    ["test", "':'", "test"],
    ["test", "':'", "test", "sliceop"]
  ]
  actionFp := ["e908b20d2bf5", "78010da2f66c", "0a622afd37d3", "d702058bc169", "c798216a860a", "9ccf51bfb68c", "874313b186ef", "bda70d2955a4", "ef13456bd163"]
  ygoFp := ["e908b20d2bf5", "78010da2f66c", "0a622afd37d3", "d702058bc169", "c798216a860a", "9ccf51bfb68c", "874313b186ef", "bda70d2955a4", "ef13456bd163"]

theorem rule_subscript_pinned : GeneratedRules.lookup "subscript" = some expected_subscript := by decide

def expected_sliceop : Rule where
  lhs := "sliceop"
  alts := [
    ["':'"],
    ["':'", "test"]
  ]
  actionFp := ["8a06f14de4a5", "8a4e9227cfc9"]
  ygoFp := ["8a06f14de4a5", "8a4e9227cfc9"]

theorem rule_sliceop_pinned : GeneratedRules.lookup "sliceop" = some expected_sliceop := by decide

def expected_expr_or_star_expr : Rule where
  lhs := "expr_or_star_expr"
  alts := [
    ["expr"],
    ["star_expr"]
  ]
  actionFp := ["9b1913e397cd", "9b1913e397cd"]
  ygoFp := ["9b1913e397cd", "9b1913e397cd"]

theorem rule_expr_or_star_expr_pinned : GeneratedRules.lookup "expr_or_star_expr" = some expected_expr_or_star_expr := by decide

def expected_expr_or_star_exprs : Rule where
  lhs := "expr_or_star_exprs"
  alts := [
    ["expr_or_star_expr"],
    ["expr_or_star_exprs", "','", "expr_or_star_expr"]
  ]
  actionFp := ["482cfb385848", "cad5de82b8a7"]
  ygoFp := ["482cfb385848", "cad5de82b8a7"]

theorem rule_expr_or_star_exprs_pinned : GeneratedRules.lookup "expr_or_star_exprs" = some expected_expr_or_star_exprs := by decide

def expected_exprlist : Rule where
  lhs := "exprlist"
  alts := [
    ["expr_or_star_exprs", "optional_comma"]
  ]
  actionFp := ["3336d11bf3a7"]
  ygoFp := ["3336d11bf3a7"]

theorem rule_exprlist_pinned : GeneratedRules.lookup "exprlist" = some expected_exprlist := by decide

def expected_testlist : Rule where
  lhs := "testlist"
  alts := [
    ["tests", "optional_comma"]
  ]
  actionFp := ["63d0763ddddf"]
  ygoFp := ["63d0763ddddf"]

theorem rule_testlist_pinned : GeneratedRules.lookup "testlist" = some expected_testlist := by decide

def expected_testlistraw : Rule where
  lhs := "testlistraw"
  alts := [
    ["tests", "optional_comma"]
  ]
  actionFp := ["9b1913e397cd"]
  ygoFp := ["9b1913e397cd"]

theorem rule_testlistraw_pinned : GeneratedRules.lookup "testlistraw" = some expected_testlistraw := by decide

def expected_test_colon_tests : Rule where
  lhs := "test_colon_tests"
  alts := [
    ["test", "':'", "test"],
    ["test_colon_tests", "','", "test", "':'", "test"]
  ]
  actionFp := ["3809a78b01f0", "d5137dc3531f"]
  ygoFp := ["3809a78b01f0", "d5137dc3531f"]

theorem rule_test_colon_tests_pinned : GeneratedRules.lookup "test_colon_tests" = some expected_test_colon_tests := by decide

def expected_dictorsetmaker : Rule where
  lhs := "dictorsetmaker"
  alts := [
    ["test_colon_tests", "optional_comma"],
    ["test", "':'", "test", "comp_for"],
    ["testlistraw"],
    ["test", "comp_for"]
  ]
  actionFp := ["7c61e56fb5dc", "c426f4ce50a9", "babe207f2dd5", "20eee9231d21"]
  ygoFp := ["7c61e56fb5dc", "c426f4ce50a9", "babe207f2dd5", "20eee9231d21"]

theorem rule_dictorsetmaker_pinned : GeneratedRules.lookup "dictorsetmaker" = some expected_dictorsetmaker := by decide

def expected_classdef : Rule where
  lhs := "classdef"
  alts := [
    ["CLASS", "NAME", "optional_arglist_call", "':'", "suite"]
  ]
  actionFp := ["8e3c1f1674d8"]
  ygoFp := ["8e3c1f1674d8"]

theorem rule_classdef_pinned : GeneratedRules.lookup "classdef" = some expected_classdef := by decide

def expected_arguments : Rule where
  lhs := "arguments"
  alts := [
    ["argument"],
    ["arguments", "','", "argument"]
  ]
  actionFp := ["a8df7f9e6f08", "66fb016f0502"]
  ygoFp := ["a8df7f9e6f08", "66fb016f0502"]

theorem rule_arguments_pinned : GeneratedRules.lookup "arguments" = some expected_arguments := by decide

def expected_optional_arguments : Rule where
  lhs := "optional_arguments"
  alts := [
    [],
    ["arguments", "','"]
  ]
  actionFp := ["bc2639b6b319", "a8df7f9e6f08"]
  ygoFp := ["bc2639b6b319", "a8df7f9e6f08"]

theorem rule_optional_arguments_pinned : GeneratedRules.lookup "optional_arguments" = some expected_optional_arguments := by decide

def expected_arguments2 : Rule where
  lhs := "arguments2"
  alts := [
    [],
    ["arguments2", "','", "argument"]
  ]
  actionFp := ["8a38d7cec55c", "45290d32859c"]
  ygoFp := ["8a38d7cec55c", "45290d32859c"]

theorem rule_arguments2_pinned : GeneratedRules.lookup "arguments2" = some expected_arguments2 := by decide

def expected_arglist : Rule where
  lhs := "arglist"
  alts := [
    ["arguments", "optional_comma"],
    ["optional_arguments", "'*'", "test", "arguments2"],
    ["optional_arguments", "'*'", "test", "arguments2", "','", "STARSTAR", "test"],
    ["optional_arguments", "STARSTAR", "test"]
  ]
  actionFp := ["9b1913e397cd", "4d4e60dba8cd", "bcad396d0efd", "357e08345446"]
  ygoFp := ["9b1913e397cd", "4d4e60dba8cd", "bcad396d0efd", "357e08345446"]

theorem rule_arglist_pinned : GeneratedRules.lookup "arglist" = some expected_arglist := by decide

def expected_argument : Rule where
  lhs := "argument"
  alts := [
    ["test"],
    ["test", "comp_for"],
    ["test", "'='", "test"]
  ]
  actionFp := ["7313bc596e62", "113acf8c90ea", "8e3ab3a42c3e"]
  ygoFp := ["7313bc596e62", "113acf8c90ea", "8e3ab3a42c3e"]

theorem rule_argument_pinned : GeneratedRules.lookup "argument" = some expected_argument := by decide

def expected_comp_iter : Rule where
  lhs := "comp_iter"
  alts := [
    ["comp_for"],
    ["comp_if"]
  ]
  actionFp := ["b4ba06e0ee95", "a8df7f9e6f08"]
  ygoFp := ["b4ba06e0ee95", "a8df7f9e6f08"]

theorem rule_comp_iter_pinned : GeneratedRules.lookup "comp_iter" = some expected_comp_iter := by decide

def expected_comp_for : Rule where
  lhs := "comp_for"
  alts := [
    ["FOR", "exprlist", "IN", "or_test"],
    ["FOR", "exprlist", "IN", "or_test", "comp_iter"]
  ]
  actionFp := ["fbbaf7073a5e", "27880ddeff9f"]
  ygoFp := ["fbbaf7073a5e", "27880ddeff9f"]

theorem rule_comp_for_pinned : GeneratedRules.lookup "comp_for" = some expected_comp_for := by decide

def expected_comp_if : Rule where
  lhs := "comp_if"
  alts := [
    ["IF", "test_nocond"],
    ["IF", "test_nocond", "comp_iter"]
  ]
  actionFp := ["36a18441e0e8", "e513346123a3"]
  ygoFp := ["36a18441e0e8", "e513346123a3"]

theorem rule_comp_if_pinned : GeneratedRules.lookup "comp_if" = some expected_comp_if := by decide

def expected_yield_expr : Rule where
  lhs := "yield_expr"
  alts := [
    ["YIELD"],
    ["YIELD", "FROM", "test"],
    ["YIELD", "testlist"]
  ]
  actionFp := ["844e65023c2d", "4489ceffabf1", "1ef227a914e8"]
  ygoFp := ["844e65023c2d", "4489ceffabf1", "1ef227a914e8"]

theorem rule_yield_expr_pinned : GeneratedRules.lookup "yield_expr" = some expected_yield_expr := by decide

/-- everything the Lean grammar was written against, in grammar order -/
def expected : List Rule := [
  expected_inputs,
  expected_single_input,
  expected_file_input,
  expected_nl_or_stmt,
  expected_eval_input,
  expected_nls,
  expected_optional_arglist,
  expected_optional_arglist_call,
  expected_decorator,
  expected_decorators,
  expected_classdef_or_funcdef,
  expected_decorated,
  expected_optional_return_type,
  expected_funcdef,
  expected_parameters,
  expected_optional_typedargslist,
  expected_tfpdeftest,
  expected_tfpdeftests,
  expected_tfpdeftests1,
  expected_optional_tfpdef,
  expected_typedargslist,
  expected_tfpdef,
  expected_vfpdeftest,
  expected_vfpdeftests,
  expected_vfpdeftests1,
  expected_optional_vfpdef,
  expected_varargslist,
  expected_vfpdef,
  expected_expr_stmt,
  expected_yield_expr_or_testlist,
  expected_yield_expr_or_testlist_star_expr,
  expected_equals_yield_expr_or_testlist_star_expr,
  expected_test_or_star_exprs,
  expected_test_or_star_expr,
  expected_optional_comma,
  expected_testlist_star_expr,
  expected_augassign,
  expected_del_stmt,
  expected_return_stmt,
  expected_dot,
  expected_dots,
  expected_from_arg,
  expected_import_from_arg,
  expected_import_from,
  expected_import_as_name,
  expected_dotted_as_name,
  expected_import_as_names,
  expected_dotted_as_names,
  expected_dotted_name,
  expected_names,
  expected_global_stmt,
  expected_nonlocal_stmt,
  expected_tests,
  expected_optional_else,
  expected_for_stmt,
  expected_with_items,
  expected_with_stmt,
  expected_with_item,
  expected_test,
  expected_test_nocond,
  expected_lambdef,
  expected_lambdef_nocond,
  expected_star_expr,
  expected_power,
  expected_trailers,
  expected_strings,
  expected_atom,
  expected_trailer,
  expected_subscripts,
  expected_subscriptlist,
  expected_subscript,
  expected_sliceop,
  expected_expr_or_star_expr,
  expected_expr_or_star_exprs,
  expected_exprlist,
  expected_testlist,
  expected_testlistraw,
  expected_test_colon_tests,
  expected_dictorsetmaker,
  expected_classdef,
  expected_arguments,
  expected_optional_arguments,
  expected_arguments2,
  expected_arglist,
  expected_argument,
  expected_comp_iter,
  expected_comp_for,
  expected_comp_if,
  expected_yield_expr
]

/-- no modelled nonterminal appeared or disappeared -/
theorem modelled_pinned : GeneratedRules.modelled = expected.map (·.lhs) := by decide

end GPy.C06.RulePins
