/-
C06 specification, written from the Python 3.4 language reference (not from the Go code):
  * §2.4.1 string and bytes literals: escape sequences, raw strings, ASCII-only bytes   (section 1)
  * §2.4.4 integer literals                                                              (section 2)
  * §6.15 operator precedence, and the printer `render` that spells an expression
    with exactly the parentheses the precedence table requires plus any number of
    redundant ones chosen by a `Layout`                                                  (section 3)
  * the canonical S-expression form of trees shared with harness/c06.go                  (section 4)
Core Lean only.
-/
import GPy.C06.Model
namespace GPy.C06
namespace Spec

/-! ## 1. string literal values -/

inductive EscItem
  | ch (c : Nat)          -- an ordinary source character
  | simple (v : Nat)      -- \\ \' \" \a \b \f \n \r \t \v
  | oct (v : Nat)         -- \ooo
  | hex (v : Nat)         -- \xhh
  | uni (v : Nat)         -- \uxxxx  \Uxxxxxxxx   (str only)
  | named                 -- \N{name}             (str only; needs the Unicode database)
  | backslash             -- an unrecognised escape: the backslash is left in the string
  deriving DecidableEq, Repr

/-- the table of §2.4.1 -/
def simpleEscapes : List (Char × Nat) :=
  [('\\', 92), ('\'', 39), ('"', 34), ('a', 7), ('b', 8), ('f', 12), ('n', 10), ('r', 13), ('t', 9), ('v', 11)]

def digitOf (c : Char) : Nat :=
  let n := c.toNat
  if 48 ≤ n ∧ n ≤ 57 then n - 48 else if 97 ≤ n ∧ n ≤ 102 then n - 87 else if 65 ≤ n ∧ n ≤ 70 then n - 55 else 0

def isHexDigit (c : Char) : Bool :=
  let n := c.toNat
  (48 ≤ n && n ≤ 57) || (97 ≤ n && n ≤ 102) || (65 ≤ n && n ≤ 70)

def isOctDigit (c : Char) : Bool := 48 ≤ c.toNat && c.toNat ≤ 55

/-- positional value: Σ dᵢ · base^(n-1-i) -/
def valueBE (base : Nat) : List Char → Nat
  | [] => 0
  | d :: ds => digitOf d * base ^ ds.length + valueBE base ds

/-- exactly `n` hex digits at the head -/
def hexDigits (n : Nat) (l : List Char) : Option Nat :=
  if n ≤ l.length ∧ (l.take n).all isHexDigit then some (valueBE 16 (l.take n)) else none

/-- split a literal body into escape items (`fuel ≥ length`) -/
def scan (bytes : Bool) : Nat → List Char → Except Unit (List EscItem)
  | 0, _ => .ok []
  | _ + 1, [] => .ok []
  | n + 1, c :: rest =>
    if c ≠ '\\' then (scan bytes n rest).map (.ch c.toNat :: ·)
    else match rest with
      | [] => .error ()
      | e :: tl =>
        if e = '\n' then scan bytes n tl                       -- \newline: ignored
        else match simpleEscapes.lookup e with
          | some v => (scan bytes n tl).map (.simple v :: ·)
          | none =>
            if isOctDigit e then
              let ds := ((e :: tl).take 3).takeWhile isOctDigit  -- up to three octal digits
              (scan bytes n ((e :: tl).drop ds.length)).map (.oct (valueBE 8 ds) :: ·)
            else if e = 'x' then
              match hexDigits 2 tl with
              | some v => (scan bytes n (tl.drop 2)).map (.hex v :: ·)
              | none => .error ()
            else if e = 'u' ∧ bytes = false then
              match hexDigits 4 tl with
              | some v => (scan bytes n (tl.drop 4)).map (.uni v :: ·)
              | none => .error ()
            else if e = 'U' ∧ bytes = false then
              match hexDigits 8 tl with
              | some v => if v > 0x10FFFF then .error () else (scan bytes n (tl.drop 8)).map (.uni v :: ·)
              | none => .error ()
            else if e = 'N' ∧ bytes = false then (scan bytes n tl).map (.named :: ·)
            else (scan bytes n (e :: tl)).map (.backslash :: ·)

def EscItem.value (bytes : Bool) : EscItem → Nat
  | .ch c => c
  | .simple v => v
  | .oct v => if bytes then v % 256 else v
  | .hex v => v
  | .uni v => v
  | .named => 0
  | .backslash => 92

def isSurrogate (v : Nat) : Bool := 0xD800 ≤ v && v ≤ 0xDFFF

/-- items whose Python meaning gpython cannot represent: recorded known findings C06-K05 / C06-K06 -/
def EscItem.isKf : EscItem → Bool
  | .named => true
  | .uni v => isSurrogate v
  | _ => false

/-- value of the literal with the given prefix flags and body (text between the quotes, after line joining) -/
def strValue (raw bytes : Bool) (body : List Char) : Except Unit StrVal :=
  if bytes ∧ body.any (fun c => c.toNat ≥ 128) then .error ()      -- "bytes can only contain ASCII literal characters"
  else if raw then .ok (if bytes then .b (body.map Char.toNat) else .s (body.map Char.toNat))
  else match scan bytes body.length body with
    | .error _ => .error ()
    | .ok items => .ok (if bytes then .b (items.map (EscItem.value true)) else .s (items.map (EscItem.value false)))

/-- known-finding region of the escape decoder: a str literal containing `\N{…}` or a `\u`/`\U` surrogate -/
def kfEscape (raw bytes : Bool) (body : List Char) : Bool :=
  !raw && !bytes && match scan false body.length body with
    | .ok items => items.any EscItem.isKf
    | .error _ => false

/-! ## 2. integer literals (§2.4.4) -/

inductive IntLit
  | value (n : Nat)
  | illegal            -- digits with a leading zero that are not all zero: not a literal of the grammar
  | notInt
  deriving DecidableEq, Repr

def isDecDigit (c : Char) : Bool := 48 ≤ c.toNat && c.toNat ≤ 57

/-- `integer ::= decimalinteger | octinteger | hexinteger | bininteger` on a complete spelling -/
def intLit (s : List Char) : IntLit :=
  match s with
  | '0' :: m :: ds =>
    if (m = 'x' ∨ m = 'X') then (if !ds.isEmpty && ds.all isHexDigit then .value (valueBE 16 ds) else .notInt)
    else if (m = 'o' ∨ m = 'O') then (if !ds.isEmpty && ds.all isOctDigit then .value (valueBE 8 ds) else .notInt)
    else if (m = 'b' ∨ m = 'B') then (if !ds.isEmpty && ds.all (fun c => c = '0' ∨ c = '1') then .value (valueBE 2 ds) else .notInt)
    else if (m :: ds).all isDecDigit then
      (if (m :: ds).all (· = '0') then .value 0 else .illegal)       -- "0"+ only
    else .notInt
  | c :: ds =>
    if (c :: ds).all isDecDigit then .value (valueBE 10 (c :: ds)) else .notInt   -- nonzerodigit digit* | "0"
  | [] => .notInt

/-! ## 3. operator precedence (§6.15) and the printer -/

/-- binding level of a binary operator: the row of the precedence table, numbered from the
loosest (`lambda`/`if–else` = 0) as the grammar cascade numbers them -/
def _root_.GPy.C06.BinOp.level : BinOp → Nat
  | .bitor => 5 | .bitxor => 6 | .bitand => 7
  | .lshift => 8 | .rshift => 8
  | .add => 9 | .sub => 9
  | .mult => 10 | .div => 10 | .modulo => 10 | .floordiv => 10
  | .pow => 12

def _root_.GPy.C06.UnOp.level : UnOp → Nat
  | .not => 3
  | _ => 11

def _root_.GPy.C06.BoolOp.level : BoolOp → Nat
  | .or => 1 | .and => 2

def cmpLevel : Nat := 4
/-- primaries: subscription, call, attribute reference -/
def primaryLevel : Nat := 13
def atomLevel : Nat := 14

def _root_.GPy.C06.BinOp.tok : BinOp → P
  | .add => .plus | .sub => .minus | .mult => .star | .div => .slash | .modulo => .percent | .pow => .starstar
  | .lshift => .ltlt | .rshift => .gtgt | .bitor => .vbar | .bitxor => .circumflex | .bitand => .amper | .floordiv => .divdiv

def _root_.GPy.C06.UnOp.tok : UnOp → Tok
  | .not => .k .not_ | .uadd => .p .plus | .usub => .p .minus | .invert => .p .tilde

def _root_.GPy.C06.BoolOp.tok : BoolOp → K
  | .and => .and_ | .or => .or_

def _root_.GPy.C06.CmpOp.toks : CmpOp → List Tok
  | .eq => [.p .eqeq] | .noteq => [.p .plingeq] | .lt => [.p .less] | .lte => [.p .lteq] | .gt => [.p .greater]
  | .gte => [.p .gteq] | .is => [.k .is_] | .isnot => [.k .is_, .k .not_] | .in_ => [.k .in_] | .notin => [.k .not_, .k .in_]

/-- the table of §6.15 in the shape of the grammar cascade (what `Generated.table` must equal) -/
def python34Table : List Level := [
  .ternary,                                                   -- lambda, if – else
  .nary .or_ .or,                                             -- or
  .nary .and_ .and,                                           -- and
  .pre [(.k .not_, .not)],                                    -- not x
  .chain [(.one (.p .less), .lt), (.one (.p .greater), .gt), (.one (.p .eqeq), .eq), (.one (.p .gteq), .gte),
          (.one (.p .lteq), .lte), (.one (.p .plingeq), .noteq), (.one (.k .in_), .in_),
          (.two (.k .not_) (.k .in_), .notin), (.one (.k .is_), .is), (.two (.k .is_) (.k .not_), .isnot)],
  .left [(.vbar, .bitor)],                                    -- |
  .left [(.circumflex, .bitxor)],                             -- ^
  .left [(.amper, .bitand)],                                  -- &
  .left [(.ltlt, .lshift), (.gtgt, .rshift)],                 -- << >>
  .left [(.plus, .add), (.minus, .sub)],                      -- + -
  .left [(.star, .mult), (.slash, .div), (.percent, .modulo), (.divdiv, .floordiv)],   -- * / % //
  .pre [(.p .plus, .uadd), (.p .minus, .usub), (.p .tilde, .invert)],                  -- +x -x ~x
  .power .starstar .pow 11                                    -- ** (binds less tightly than a unary operator on its right)
]

/-- the row of §6.15 an expression form belongs to -/
def prec : Expr → Nat
  | .lambda _ _ => 0
  | .ifexp _ _ _ => 0
  | .bool op _ => op.level
  | .un op _ => op.level
  | .cmp _ _ => cmpLevel
  | .bin op _ _ => op.level
  | .call _ _ => primaryLevel
  | .sub _ _ => primaryLevel
  | .attr _ _ => primaryLevel
  | _ => atomLevel

/-- free choices of a spelling.  `extra p` = number of redundant parenthesis pairs around the node at
path `p` (child indices, innermost first); `trail p` = trailing comma in the argument list / display at `p`. -/
structure Layout where
  extra : List Nat → Nat
  trail : List Nat → Bool

def wrap : Nat → List Tok → List Tok
  | 0, ts => ts
  | n + 1, ts => Tok.p .lpar :: (wrap n ts ++ [Tok.p .rpar])

def paramToks : List String → List Tok
  | [] => []
  | [s] => [.name s]
  | s :: ss => .name s :: .p .comma :: paramToks ss

/-- parentheses around the tokens `ts` of `e` at path `p` in a context requiring level ≥ `k`:
one pair if the precedence table requires it, plus the redundant pairs of the layout -/
def wrapAt (ℓ : Layout) (p : List Nat) (k : Nat) (e : Expr) (ts : List Tok) : List Tok :=
  wrap (ℓ.extra p + (if prec e < k then 1 else 0)) ts

mutual
/-- tokens of `e` without enclosing parentheses -/
def raw (ℓ : Layout) (p : List Nat) : Expr → List Tok
  | .name s => [.name s]
  | .num v => [.num v]
  | .str v => [.str v]
  | .const .none => [.k .none_]
  | .const .true => [.k .true_]
  | .const .false => [.k .false_]
  | .ellipsis => [.p .elipsis]
  | .bin op l r =>
    if op = .pow then wrapAt ℓ (0 :: p) primaryLevel l (raw ℓ (0 :: p) l) ++ [.p op.tok] ++ wrapAt ℓ (1 :: p) 11 r (raw ℓ (1 :: p) r)
    else wrapAt ℓ (0 :: p) op.level l (raw ℓ (0 :: p) l) ++ [.p op.tok] ++ wrapAt ℓ (1 :: p) (op.level + 1) r (raw ℓ (1 :: p) r)
  | .un op e => op.tok :: wrapAt ℓ (0 :: p) op.level e (raw ℓ (0 :: p) e)
  | .bool op vs => rSep ℓ p 0 (op.level + 1) [.k op.tok] vs
  | .cmp l rest => wrapAt ℓ (0 :: p) (cmpLevel + 1) l (raw ℓ (0 :: p) l) ++ rCmp ℓ p 1 rest
  | .ifexp t b o => wrapAt ℓ (0 :: p) 1 b (raw ℓ (0 :: p) b) ++ [.k .if_] ++ wrapAt ℓ (1 :: p) 1 t (raw ℓ (1 :: p) t) ++ [.k .else_] ++ wrapAt ℓ (2 :: p) 0 o (raw ℓ (2 :: p) o)
  | .lambda ps b => .k .lambda_ :: (paramToks ps ++ [.p .colon] ++ wrapAt ℓ (0 :: p) 0 b (raw ℓ (0 :: p) b))
  | .call f args => wrapAt ℓ (0 :: p) primaryLevel f (raw ℓ (0 :: p) f) ++ [.p .lpar] ++ rSep ℓ p 1 0 [.p .comma] args
      ++ (if ℓ.trail p && !args.isEmpty then [.p .comma] else []) ++ [.p .rpar]
  | .sub v i => wrapAt ℓ (0 :: p) primaryLevel v (raw ℓ (0 :: p) v) ++ [.p .lsqb] ++ wrapAt ℓ (1 :: p) 0 i (raw ℓ (1 :: p) i) ++ [.p .rsqb]
  | .attr v a => wrapAt ℓ (0 :: p) primaryLevel v (raw ℓ (0 :: p) v) ++ [.p .dot, .name a]
  | .tuple es => [.p .lpar] ++ rSep ℓ p 0 0 [.p .comma] es
      ++ (if es.length = 1 || (ℓ.trail p && !es.isEmpty) then [.p .comma] else []) ++ [.p .rpar]
  | .list es => [.p .lsqb] ++ rSep ℓ p 0 0 [.p .comma] es
      ++ (if ℓ.trail p && !es.isEmpty then [.p .comma] else []) ++ [.p .rsqb]

/-- operands at level `k` separated by `sep`; child indices start at `i` -/
def rSep (ℓ : Layout) (p : List Nat) (i k : Nat) (sep : List Tok) : List Expr → List Tok
  | [] => []
  | [e] => wrapAt ℓ (i :: p) k e (raw ℓ (i :: p) e)
  | e :: es => wrapAt ℓ (i :: p) k e (raw ℓ (i :: p) e) ++ sep ++ rSep ℓ p (i + 1) k sep es

def rCmp (ℓ : Layout) (p : List Nat) (i : Nat) : List (CmpOp × Expr) → List Tok
  | [] => []
  | (o, e) :: rest => o.toks ++ wrapAt ℓ (i :: p) (cmpLevel + 1) e (raw ℓ (i :: p) e) ++ rCmp ℓ p (i + 1) rest
end

/-- tokens of `e` where the context requires binding level ≥ `k` -/
def rAt (ℓ : Layout) (p : List Nat) (k : Nat) (e : Expr) : List Tok :=
  wrapAt ℓ p k e (raw ℓ p e)

/-- the token spelling of `e` under layout `ℓ` -/
def render (ℓ : Layout) (e : Expr) : List Tok := rAt ℓ [] 0 e

/-- trees the grammar can produce: BoolOp has ≥ 2 operands, Compare ≥ 1 comparator -/
def wfList (f : Expr → Bool) : List Expr → Bool
  | [] => true
  | e :: es => f e && wfList f es

mutual
def WF : Expr → Bool
  | .bin _ l r => WF l && WF r
  | .un _ e => WF e
  | .bool _ vs => decide (vs.length ≥ 2) && WFs vs
  | .cmp l rest => WF l && !rest.isEmpty && WFc rest
  | .ifexp t b o => WF t && WF b && WF o
  | .lambda _ b => WF b
  | .call f args => WF f && WFs args
  | .sub v i => WF v && WF i
  | .attr v _ => WF v
  | .tuple es => WFs es
  | .list es => WFs es
  | _ => true
def WFs : List Expr → Bool
  | [] => true
  | e :: es => WF e && WFs es
def WFc : List (CmpOp × Expr) → Bool
  | [] => true
  | (_, e) :: es => WF e && WFc es
end

/-! ## 4. canonical S-expression form (shared with harness/c06.go `c06Sexp`) -/

def natList (l : List Nat) : String := "[" ++ ",".intercalate (l.map toString) ++ "]"

def _root_.GPy.C06.NumVal.sexp : NumVal → String
  | .int n => toString n
  | .float m e => s!"F:{m}e{e}"
  | .imag m e => s!"J:0e0:{m}e{e}"

def _root_.GPy.C06.StrVal.sexp : StrVal → String
  | .s cps => "s" ++ natList cps
  | .b bs => "b" ++ natList bs

def _root_.GPy.C06.BinOp.name : BinOp → String
  | .add => "Add" | .sub => "Sub" | .mult => "Mult" | .div => "Div" | .modulo => "Mod" | .pow => "Pow"
  | .lshift => "LShift" | .rshift => "RShift" | .bitor => "BitOr" | .bitxor => "BitXor" | .bitand => "BitAnd" | .floordiv => "FloorDiv"
def _root_.GPy.C06.UnOp.name : UnOp → String
  | .invert => "Invert" | .not => "Not" | .uadd => "UAdd" | .usub => "USub"
def _root_.GPy.C06.BoolOp.name : BoolOp → String
  | .and => "And" | .or => "Or"
def _root_.GPy.C06.CmpOp.name : CmpOp → String
  | .eq => "Eq" | .noteq => "NotEq" | .lt => "Lt" | .lte => "LtE" | .gt => "Gt" | .gte => "GtE" | .is => "Is" | .isnot => "IsNot"
  | .in_ => "In" | .notin => "NotIn"

mutual
def sexp : Expr → String
  | .name s => s!"(Name {s})"
  | .num v => s!"(Num {v.sexp})"
  | .str (.s cps) => s!"(Str s{natList cps})"
  | .str (.b bs) => s!"(Bytes b{natList bs})"
  | .const .none => "(NameConstant None)"
  | .const .true => "(NameConstant True)"
  | .const .false => "(NameConstant False)"
  | .ellipsis => "(Ellipsis)"
  | .bin op l r => s!"(BinOp {sexp l} {op.name} {sexp r})"
  | .un op e => s!"(UnaryOp {op.name} {sexp e})"
  | .bool op vs => s!"(BoolOp {op.name} [{" ".intercalate (sexps vs)}])"
  | .cmp l rest => s!"(Compare {sexp l} [{" ".intercalate (cmpOps rest)}] [{" ".intercalate (cmpExprs rest)}])"
  | .ifexp t b o => s!"(IfExp {sexp t} {sexp b} {sexp o})"
  | .lambda ps b => s!"(Lambda (Arguments [{" ".intercalate (ps.map (fun s => s!"(Arg {s} -)"))}] - [] [] - []) {sexp b})"
  | .call f args => s!"(Call {sexp f} [{" ".intercalate (sexps args)}] [] - -)"
  | .sub v i => s!"(Subscript {sexp v} (Index {sexp i}))"
  | .attr v a => s!"(Attribute {sexp v} {a})"
  | .tuple es => s!"(Tuple [{" ".intercalate (sexps es)}])"
  | .list es => s!"(List [{" ".intercalate (sexps es)}])"
def sexps : List Expr → List String
  | [] => []
  | e :: es => sexp e :: sexps es
def cmpOps : List (CmpOp × Expr) → List String
  | [] => []
  | (o, _) :: es => o.name :: cmpOps es
def cmpExprs : List (CmpOp × Expr) → List String
  | [] => []
  | (_, e) :: es => sexp e :: cmpExprs es
end

end Spec
end GPy.C06
