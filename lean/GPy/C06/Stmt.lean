/-
C06 statement grammar: a token-level parser for the statement fragment of parser/grammar.y
(file_input, stmt, simple_stmt, small_stmt, expr_stmt, the compound statements, suite), written
rule by rule over the token stream of `lexString text .exec`, with the semantic checks the yacc
actions perform (setCtx target validity, default-argument order, bare `*`, try shapes, ...).
Expressions are parsed by the cascade parser of Model.lean (`parseAt Generated.table`).

Out of the fragment (never generated; the parser answers `none` for them): star_expr targets,
yield, annotations / `->`, keyword / star arguments, comprehensions, slices, dict / set displays.

`Cfg` switches the checks that were added to the grammar actions by the C06 repairs; the model
of the code as it is now (and the reference) is `Cfg` with every switch on (`{}`); switching one
off gives the behaviour before the corresponding fix (for witnesses / mutation checks).
Core Lean only.
-/
import GPy.C06.Spec
namespace GPy.C06
open Spec

/-! ## 1. statement trees -/

structure Alias where
  name : String
  asname : String := ""
  deriving Repr, Inhabited, DecidableEq

/-- `ast.Arguments` without annotations -/
structure Params where
  args : List String := []
  vararg : Option String := none
  kwonly : List String := []
  kwdefaults : List (Option Expr) := []
  kwarg : Option String := none
  defaults : List Expr := []
  deriving Repr, Inhabited

mutual
inductive Stmt
  | expr (e : Expr)
  | assign (targets : List Expr) (value : Expr)
  | aug (target : Expr) (op : BinOp) (value : Expr)
  | pass
  | break_
  | continue_
  | ret (v : Option Expr)
  | raise (exc cause : Option Expr)
  | del (targets : List Expr)
  | global (names : List String)
  | nonlocal (names : List String)
  | assert (test : Expr) (msg : Option Expr)
  | import_ (names : List Alias)
  | importFrom (module : String) (names : List Alias) (level : Nat)
  | if_ (test : Expr) (body orelse : List Stmt)
  | while_ (test : Expr) (body orelse : List Stmt)
  | for_ (target iter : Expr) (body orelse : List Stmt)
  | try_ (body : List Stmt) (handlers : List Handler) (orelse final : List Stmt)
  | with_ (items : List (Expr × Option Expr)) (body : List Stmt)
  | funcdef (name : String) (args : Params) (body : List Stmt) (decos : List Expr)
  | classdef (name : String) (bases : List Expr) (body : List Stmt) (decos : List Expr)
inductive Handler
  | mk (type : Option Expr) (name : String) (body : List Stmt)
end

instance : Inhabited Stmt := ⟨.pass⟩
instance : Inhabited Handler := ⟨.mk none "" []⟩

/-! ## 2. switches for the repaired checks -/

structure Cfg where
  /-- fix cbae5b7: the target of an augmented assignment must be a Name, Attribute or Subscript (was C06-K01) -/
  augTarget : Bool := true
  /-- fix 787d2c3: `try` needs an except clause (or only a finally clause) (was C06-K02) -/
  tryHandlers : Bool := true
  /-- fix 05ee8d3: a bare `*` must be followed by a keyword-only parameter (was C06-K03) -/
  bareStar : Bool := true
  /-- fix d0f90d8: a dotted decorator name is an Attribute chain (was C06-K09: `Name 'a.b'`) -/
  dottedDecorator : Bool := true
  /-- fix 7b4b02c: `for a, in x` has a Tuple target (the trailing comma of the target list was dropped) -/
  forComma : Bool := true
  /-- fix 4d06db0: `()` is not a target -/
  emptyTuple : Bool := true
  /-- fix f5f8109: `from a import b,` (trailing comma without parentheses) is rejected -/
  importComma : Bool := true
  deriving Repr, DecidableEq

/-! ## 3. expressions inside statements -/

abbrev PS (α : Type) := Option (α × List Tok)

/-- index of the level `expr` (operand of `star_expr`, `exprlist`, `with_item … AS expr`) in the cascade -/
def exprLevel : Nat := Generated.levelNames.idxOf "expr"

/-- `test` -/
def pTest (ts : List Tok) : PR := parseAt Generated.table (parseFuel ts) 0 ts

/-- `expr` -/
def pExprLvl (ts : List Tok) : PR := parseAt Generated.table (parseFuel ts) exprLevel ts

/-- the next token can begin a `test` (the LALR(1) decision after a comma: another element or `optional_comma`) -/
def startsTest : List Tok → Bool
  | .name _ :: _ => true
  | .num _ :: _ => true
  | .str _ :: _ => true
  | .k .none_ :: _ => true
  | .k .true_ :: _ => true
  | .k .false_ :: _ => true
  | .k .lambda_ :: _ => true
  | .k .not_ :: _ => true
  | .p .lpar :: _ => true
  | .p .lsqb :: _ => true
  | .p .lbrace :: _ => true
  | .p .plus :: _ => true
  | .p .minus :: _ => true
  | .p .tilde :: _ => true
  | .p .elipsis :: _ => true
  | _ => false

/-- `X (',' X)* [',']` with `X` at cascade level `lvl` (`tests optional_comma`, `exprlist` without star_expr);
the flag tells whether a trailing comma was seen -/
def pList (lvl : Nat) : Nat → List Tok → Option (List Expr × Bool × List Tok)
  | 0, _ => none
  | f + 1, ts =>
    match parseAt Generated.table (parseFuel ts) lvl ts with
    | none => none
    | some (e, .p .comma :: r1) =>
      if startsTest r1 then
        match pList lvl f r1 with
        | some (es, tc, r2) => some (e :: es, tc, r2)
        | none => none
      else some ([e], true, r1)
    | some (e, r) => some ([e], false, r)

/-- `tupleOrExpr` -/
def mkTuple (es : List Expr) (tc : Bool) : Expr :=
  match es, tc with
  | [e], false => e
  | _, _ => .tuple es

/-- `testlist` -/
def pTestlist (ts : List Tok) : PR :=
  match pList 0 (ts.length + 1) ts with
  | some (es, tc, r) => some (mkTuple es tc, r)
  | none => none

/-! ## 4. the semantic checks of the actions -/

mutual
/-- what `setCtx(…, Store | Del)` accepts -/
def validTarget (cfg : Cfg) : Expr → Bool
  | .name _ => true
  | .attr _ _ => true
  | .sub _ _ => true
  | .tuple es => (!cfg.emptyTuple || !es.isEmpty) && validTargets cfg es
  | .list es => validTargets cfg es
  | _ => false
def validTargets (cfg : Cfg) : List Expr → Bool
  | [] => true
  | e :: es => validTarget cfg e && validTargets cfg es
end

/-- targets an augmented assignment may have -/
def augTargetOk : Expr → Bool
  | .name _ => true
  | .attr _ _ => true
  | .sub _ _ => true
  | _ => false

def augOp : P → Option BinOp
  | .pluseq => some .add | .minuseq => some .sub | .stareq => some .mult | .diveq => some .div
  | .perceq => some .modulo | .andeq => some .bitand | .pipeeq => some .bitor | .hateq => some .bitxor
  | .ltlteq => some .lshift | .gtgteq => some .rshift | .starstareq => some .pow | .divdiveq => some .floordiv
  | _ => none

/-- `tfpdeftests1`: once a default was given every further positional parameter needs one -/
def okDefaults : List (String × Option Expr) → Bool
  | [] => true
  | (_, some _) :: rest => rest.all (fun p => p.2.isSome)
  | (_, none) :: rest => okDefaults rest

/-! ## 5. small statements -/

/-- `names: NAME (',' NAME)*` -/
def pNames : Nat → List Tok → PS (List String)
  | 0, _ => none
  | f + 1, .name s :: .p .comma :: r =>
    match pNames f r with
    | some (ns, r') => some (s :: ns, r')
    | none => none
  | _ + 1, .name s :: r => some ([s], r)
  | _ + 1, _ => none

/-- `dotted_name: NAME ('.' NAME)*` as its parts -/
def pDotted : Nat → List Tok → PS (List String)
  | 0, _ => none
  | f + 1, .name s :: .p .dot :: r =>
    match pDotted f r with
    | some (ns, r') => some (s :: ns, r')
    | none => none
  | _ + 1, .name s :: r => some ([s], r)
  | _ + 1, _ => none

def dotted (parts : List String) : String := ".".intercalate parts

/-- `dotted_as_name` -/
def pDottedAs (ts : List Tok) : PS Alias :=
  match pDotted (ts.length + 1) ts with
  | some (ps, .k .as_ :: .name n :: r) => some ({ name := dotted ps, asname := n }, r)
  | some (_, .k .as_ :: _) => none
  | some (ps, r) => some ({ name := dotted ps }, r)
  | none => none

/-- `dotted_as_names` (no trailing comma) -/
def pDottedAsNames : Nat → List Tok → PS (List Alias)
  | 0, _ => none
  | f + 1, ts =>
    match pDottedAs ts with
    | some (a, .p .comma :: r) =>
      match pDottedAsNames f r with
      | some (as, r') => some (a :: as, r')
      | none => none
    | some (a, r) => some ([a], r)
    | none => none

/-- `import_as_name` -/
def pImportAs : List Tok → PS Alias
  | .name s :: .k .as_ :: .name n :: r => some ({ name := s, asname := n }, r)
  | .name _ :: .k .as_ :: _ => none
  | .name s :: r => some ({ name := s }, r)
  | _ => none

/-- `import_as_names optional_comma`; the flag tells whether the trailing comma was there -/
def pImportAsNames : Nat → List Tok → Option (List Alias × Bool × List Tok)
  | 0, _ => none
  | f + 1, ts =>
    match pImportAs ts with
    | some (a, .p .comma :: .name s :: r) =>
      match pImportAsNames f (.name s :: r) with
      | some (as, tc, r') => some (a :: as, tc, r')
      | none => none
    | some (a, .p .comma :: r) => some ([a], true, r)
    | some (a, r) => some ([a], false, r)
    | none => none

/-- `dots`: '.' counts 1, '...' (one ELIPSIS token) counts 3 -/
def pDots : List Tok → Nat × List Tok
  | .p .dot :: r => let (n, r') := pDots r; (n + 1, r')
  | .p .elipsis :: r => let (n, r') := pDots r; (n + 3, r')
  | ts => (0, ts)

/-- `import_from` after the FROM token -/
def pFrom (cfg : Cfg) (ts : List Tok) : PS Stmt :=
  let (lvl, r) := pDots ts
  let modr : PS String :=
    match r with
    | .name _ :: _ =>
      match pDotted (r.length + 1) r with
      | some (ps, r') => some (dotted ps, r')
      | none => none
    | _ => if lvl > 0 then some ("", r) else none
  match modr with
  | some (m, .k .import_ :: .p .star :: r2) => some (.importFrom m [{ name := "*" }] lvl, r2)
  | some (m, .k .import_ :: .p .lpar :: r2) =>
    match pImportAsNames (r2.length + 1) r2 with
    | some (as, _, .p .rpar :: r3) => some (.importFrom m as lvl, r3)
    | _ => none
  | some (m, .k .import_ :: r1) =>
    match pImportAsNames (r1.length + 1) r1 with
    | some (as, tc, r3) => if cfg.importComma && tc then none else some (.importFrom m as lvl, r3)
    | none => none
  | _ => none

/-- `('=' testlist_star_expr)*` after the first `=`: all the parts, the last one is the value -/
def pAssignRest : Nat → List Tok → PS (List Expr)
  | 0, _ => none
  | f + 1, ts =>
    match pTestlist ts with
    | some (e, .p .equal :: r) =>
      match pAssignRest f r with
      | some (es, r') => some (e :: es, r')
      | none => none
    | some (e, r) => some ([e], r)
    | none => none

/-- `expr_stmt` -/
def pExprStmt (cfg : Cfg) (ts : List Tok) : PS Stmt :=
  match pTestlist ts with
  | none => none
  | some (first, .p .equal :: r1) =>
    match pAssignRest (r1.length + 1) r1 with
    | some (rest, r2) =>
      let all := first :: rest
      let targets := all.dropLast
      if validTargets cfg targets then some (.assign targets (all.getLast?.getD first), r2) else none
    | none => none
  | some (first, .p x :: r1) =>
    match augOp x with
    | some op =>
      match pTestlist r1 with
      | some (v, r2) =>
        if validTarget cfg first && (!cfg.augTarget || augTargetOk first) then some (.aug first op v, r2) else none
      | none => none
    | none => some (.expr first, .p x :: r1)
  | some (first, r) => some (.expr first, r)

/-- `small_stmt` -/
def pSmall (cfg : Cfg) (ts : List Tok) : PS Stmt :=
  match ts with
  | .k .pass_ :: r => some (.pass, r)
  | .k .break_ :: r => some (.break_, r)
  | .k .continue_ :: r => some (.continue_, r)
  | .k .return_ :: r =>
    if startsTest r then
      match pTestlist r with
      | some (e, r') => some (.ret (some e), r')
      | none => none
    else some (.ret none, r)
  | .k .raise_ :: r =>
    if startsTest r then
      match pTest r with
      | some (e, .k .from_ :: r1) =>
        match pTest r1 with
        | some (c, r2) => some (.raise (some e) (some c), r2)
        | none => none
      | some (e, r1) => some (.raise (some e) none, r1)
      | none => none
    else some (.raise none none, r)
  | .k .del_ :: r =>
    match pList exprLevel (r.length + 1) r with
    | some (es, _, r') => if validTargets cfg es then some (.del es, r') else none
    | none => none
  | .k .global_ :: r =>
    match pNames (r.length + 1) r with
    | some (ns, r') => some (.global ns, r')
    | none => none
  | .k .nonlocal_ :: r =>
    match pNames (r.length + 1) r with
    | some (ns, r') => some (.nonlocal ns, r')
    | none => none
  | .k .assert_ :: r =>
    match pTest r with
    | some (t, .p .comma :: r1) =>
      match pTest r1 with
      | some (m, r2) => some (.assert t (some m), r2)
      | none => none
    | some (t, r1) => some (.assert t none, r1)
    | none => none
  | .k .import_ :: r =>
    match pDottedAsNames (r.length + 1) r with
    | some (as, r') => some (.import_ as, r')
    | none => none
  | .k .from_ :: r => pFrom cfg r
  | _ => pExprStmt cfg ts

/-- `simple_stmt: small_stmt (';' small_stmt)* [';'] NEWLINE` -/
def pSimple (cfg : Cfg) : Nat → List Tok → PS (List Stmt)
  | 0, _ => none
  | f + 1, ts =>
    match pSmall cfg ts with
    | some (s, .newline :: r) => some ([s], r)
    | some (s, .p .semi :: .newline :: r) => some ([s], r)
    | some (s, .p .semi :: r) =>
      match pSimple cfg f r with
      | some (ss, r') => some (s :: ss, r')
      | none => none
    | _ => none

/-! ## 6. parameter lists (`typedargslist` without annotations) -/

/-- `tfpdeftest: NAME ['=' test]` -/
def pParam : List Tok → PS (String × Option Expr)
  | .name s :: .p .equal :: r =>
    match pTest r with
    | some (e, r') => some ((s, some e), r')
    | none => none
  | .name s :: r => some ((s, none), r)
  | _ => none

/-- `tfpdeftests: (',' tfpdeftest)*` — stops before a comma that is not followed by a NAME -/
def pMoreParams : Nat → List Tok → PS (List (String × Option Expr))
  | 0, _ => none
  | f + 1, .p .comma :: .name s :: r =>
    match pParam (.name s :: r) with
    | some (p, r1) =>
      match pMoreParams f r1 with
      | some (ps, r2) => some (p :: ps, r2)
      | none => none
    | none => none
  | _ + 1, ts => some ([], ts)

/-- after `'*'`: `optional_tfpdef tfpdeftests [',' STARSTAR tfpdef]` -/
def pStarRest (cfg : Cfg) (ts : List Tok) : PS (Option String × List (String × Option Expr) × Option String) :=
  let (va, r) : Option String × List Tok := match ts with
    | .name s :: r => (some s, r)
    | _ => (none, ts)
  match pMoreParams (r.length + 1) r with
  | none => none
  | some (kws, r1) =>
    if cfg.bareStar && va.isNone && kws.isEmpty then none     -- "named arguments must follow bare *"
    else match r1 with
      | .p .comma :: .p .starstar :: .name k :: r2 => some ((va, kws, some k), r2)
      | _ => some ((va, kws, none), r1)

def mkParams (pos : List (String × Option Expr)) (va : Option String) (kws : List (String × Option Expr)) (kw : Option String) : Params :=
  { args := pos.map (·.1), vararg := va, kwonly := kws.map (·.1), kwdefaults := kws.map (·.2), kwarg := kw,
    defaults := pos.filterMap (·.2) }

/-- `parameters` after the `'('`, up to and including the `')'` -/
def pParams (cfg : Cfg) (ts : List Tok) : PS Params :=
  match ts with
  | .p .rpar :: r => some ({}, r)
  | .p .star :: r =>
    match pStarRest cfg r with
    | some ((va, kws, kw), .p .rpar :: r1) => some (mkParams [] va kws kw, r1)
    | _ => none
  | .p .starstar :: .name k :: .p .rpar :: r => some (mkParams [] none [] (some k), r)
  | _ =>
    match pParam ts with
    | none => none
    | some (p1, r) =>
      match pMoreParams (r.length + 1) r with
      | none => none
      | some (ps, r1) =>
        let pos := p1 :: ps
        if !okDefaults pos then none               -- "non-default argument follows default argument"
        else match r1 with
          | .p .rpar :: r2 => some (mkParams pos none [] none, r2)
          | .p .comma :: .p .rpar :: r2 => some (mkParams pos none [] none, r2)
          | .p .comma :: .p .star :: r2 =>
            match pStarRest cfg r2 with
            | some ((va, kws, kw), .p .rpar :: r3) => some (mkParams pos va kws kw, r3)
            | _ => none
          | .p .comma :: .p .starstar :: .name k :: .p .rpar :: r2 => some (mkParams pos none [] (some k), r2)
          | _ => none

/-! ## 7. compound statements -/

/-- the expression of a decorator's dotted name -/
def dottedExpr (cfg : Cfg) (parts : List String) : Expr :=
  if cfg.dottedDecorator then
    match parts with
    | [] => .name ""
    | p :: ps => ps.foldl (fun e a => .attr e a) (.name p)
  else .name (dotted parts)

/-- `decorators: ('@' dotted_name ['(' [arglist] ')'] NEWLINE)+` (possibly none here; the caller checks) -/
def pDecorators (cfg : Cfg) : Nat → List Tok → PS (List Expr)
  | 0, _ => none
  | f + 1, .p .at :: r =>
    match pDotted (r.length + 1) r with
    | none => none
    | some (ps, r1) =>
      let fn := dottedExpr cfg ps
      let dr : PS Expr :=
        match r1 with
        | .p .lpar :: r2 =>
          match parseSeq Generated.table (parseFuel r2) .rpar r2 with
          | some (es, _, r3) => some (.call fn es, r3)
          | none => none
        | _ => some (fn, r1)
      match dr with
      | some (d, .newline :: r4) =>
        match pDecorators cfg f r4 with
        | some (ds, r5) => some (d :: ds, r5)
        | none => none
      | _ => none
  | _ + 1, ts => some ([], ts)

/-- `except_clause ':'` after the EXCEPT token -/
def pExceptHead (ts : List Tok) : PS (Option Expr × String) :=
  match ts with
  | .p .colon :: r => some ((none, ""), r)
  | _ =>
    match pTest ts with
    | some (t, .k .as_ :: .name n :: .p .colon :: r) => some ((some t, n), r)
    | some (t, .p .colon :: r) => some ((some t, ""), r)
    | _ => none

/-- `with_item (',' with_item)*` -/
def pWithItems (cfg : Cfg) : Nat → List Tok → PS (List (Expr × Option Expr))
  | 0, _ => none
  | f + 1, ts =>
    let item : PS (Expr × Option Expr) :=
      match pTest ts with
      | some (c, .k .as_ :: r) =>
        match pExprLvl r with
        | some (v, r1) => if validTarget cfg v then some ((c, some v), r1) else none
        | none => none
      | some (c, r) => some ((c, none), r)
      | none => none
    match item with
    | some (it, .p .comma :: r2) =>
      match pWithItems cfg f r2 with
      | some (its, r3) => some (it :: its, r3)
      | none => none
    | some (it, r2) => some ([it], r2)
    | none => none

mutual
/-- `stmt` (a simple_stmt contributes all its small statements) -/
def pStmt (cfg : Cfg) : Nat → List Tok → PS (List Stmt)
  | 0, _ => none
  | f + 1, ts =>
    match ts with
    | .k .if_ :: r =>
      match pTest r with
      | some (t, .p .colon :: r1) =>
        match pSuite cfg f r1 with
        | some (body, r2) =>
          match pIfTail cfg f r2 with
          | some (oe, r3) => some ([.if_ t body oe], r3)
          | none => none
        | none => none
      | _ => none
    | .k .while_ :: r =>
      match pTest r with
      | some (t, .p .colon :: r1) =>
        match pSuite cfg f r1 with
        | some (body, r2) =>
          match pElse cfg f r2 with
          | some (oe, r3) => some ([.while_ t body oe], r3)
          | none => none
        | none => none
      | _ => none
    | .k .for_ :: r =>
      match pList exprLevel (r.length + 1) r with
      | some (tes, tc, .k .in_ :: r1) =>
        let target := mkTuple tes (cfg.forComma && tc)
        if !validTarget cfg target then none else
        match pTestlist r1 with
        | some (it, .p .colon :: r2) =>
          match pSuite cfg f r2 with
          | some (body, r3) =>
            match pElse cfg f r3 with
            | some (oe, r4) => some ([.for_ target it body oe], r4)
            | none => none
          | none => none
        | _ => none
      | _ => none
    | .k .try_ :: .p .colon :: r =>
      match pSuite cfg f r with
      | none => none
      | some (body, r1) =>
        match pExcepts cfg f r1 with
        | none => none
        | some (hs, r2) =>
          match r2 with
          | .k .else_ :: .p .colon :: r3 =>
            if cfg.tryHandlers && hs.isEmpty then none else
            match pSuite cfg f r3 with
            | some (oe, .k .finally_ :: .p .colon :: r4) =>
              match pSuite cfg f r4 with
              | some (fin, r5) => some ([.try_ body hs oe fin], r5)
              | none => none
            | some (oe, r4) => some ([.try_ body hs oe []], r4)
            | none => none
          | .k .finally_ :: .p .colon :: r3 =>
            match pSuite cfg f r3 with
            | some (fin, r4) => some ([.try_ body hs [] fin], r4)
            | none => none
          | _ => if cfg.tryHandlers && hs.isEmpty then none else some ([.try_ body hs [] []], r2)
    | .k .with_ :: r =>
      match pWithItems cfg (r.length + 1) r with
      | some (items, .p .colon :: r1) =>
        match pSuite cfg f r1 with
        | some (body, r2) => some ([.with_ items body], r2)
        | none => none
      | _ => none
    | .k .def_ :: _ => pDef cfg f [] ts
    | .k .class_ :: _ => pDef cfg f [] ts
    | .p .at :: _ =>
      match pDecorators cfg (ts.length + 1) ts with
      | some (ds, r) => pDef cfg f ds r
      | none => none
    | _ => pSimple cfg (ts.length + 1) ts

/-- `funcdef | classdef` with the decorators already read -/
def pDef (cfg : Cfg) : Nat → List Expr → List Tok → PS (List Stmt)
  | 0, _, _ => none
  | f + 1, ds, ts =>
    match ts with
    | .k .def_ :: .name n :: .p .lpar :: r =>
      match pParams cfg r with
      | some (ps, .p .colon :: r1) =>
        match pSuite cfg f r1 with
        | some (body, r2) => some ([.funcdef n ps body ds], r2)
        | none => none
      | _ => none
    | .k .class_ :: .name n :: .p .lpar :: r =>
      match parseSeq Generated.table (parseFuel r) .rpar r with
      | some (bases, _, .p .colon :: r1) =>
        match pSuite cfg f r1 with
        | some (body, r2) => some ([.classdef n bases body ds], r2)
        | none => none
      | _ => none
    | .k .class_ :: .name n :: .p .colon :: r =>
      match pSuite cfg f r with
      | some (body, r2) => some ([.classdef n [] body ds], r2)
      | none => none
    | _ => none

/-- `(ELIF test ':' suite)* [ELSE ':' suite]` as the `orelse` of the enclosing If -/
def pIfTail (cfg : Cfg) : Nat → List Tok → PS (List Stmt)
  | 0, _ => none
  | f + 1, ts =>
    match ts with
    | .k .elif_ :: r =>
      match pTest r with
      | some (t, .p .colon :: r1) =>
        match pSuite cfg f r1 with
        | some (body, r2) =>
          match pIfTail cfg f r2 with
          | some (oe, r3) => some ([.if_ t body oe], r3)
          | none => none
        | none => none
      | _ => none
    | .k .else_ :: .p .colon :: r => pSuite cfg f r
    | _ => some ([], ts)

/-- `optional_else` -/
def pElse (cfg : Cfg) : Nat → List Tok → PS (List Stmt)
  | 0, _ => none
  | f + 1, ts =>
    match ts with
    | .k .else_ :: .p .colon :: r => pSuite cfg f r
    | _ => some ([], ts)

/-- `except_clauses: (except_clause ':' suite)*` -/
def pExcepts (cfg : Cfg) : Nat → List Tok → PS (List Handler)
  | 0, _ => none
  | f + 1, ts =>
    match ts with
    | .k .except_ :: r =>
      match pExceptHead r with
      | some ((ty, nm), r1) =>
        match pSuite cfg f r1 with
        | some (body, r2) =>
          match pExcepts cfg f r2 with
          | some (hs, r3) => some (.mk ty nm body :: hs, r3)
          | none => none
        | none => none
      | none => none
    | _ => some ([], ts)

/-- `suite: simple_stmt | NEWLINE INDENT stmt+ DEDENT` -/
def pSuite (cfg : Cfg) : Nat → List Tok → PS (List Stmt)
  | 0, _ => none
  | f + 1, ts =>
    match ts with
    | .newline :: .indent :: r => pBlock cfg f r
    | _ => pSimple cfg (ts.length + 1) ts

/-- `stmt+ DEDENT` -/
def pBlock (cfg : Cfg) : Nat → List Tok → PS (List Stmt)
  | 0, _ => none
  | f + 1, ts =>
    match pStmt cfg f ts with
    | some (ss, .dedent :: r) => some (ss, r)
    | some (ss, r) =>
      match pBlock cfg f r with
      | some (ss', r') => some (ss ++ ss', r')
      | none => none
    | none => none
end

/-- `file_input: (NEWLINE | stmt)* ENDMARKER` -/
def pFile (cfg : Cfg) : Nat → List Tok → Option (List Stmt)
  | 0, _ => none
  | f + 1, ts =>
    match ts with
    | [.endmarker] => some []
    | .newline :: r => pFile cfg f r
    | _ =>
      match pStmt cfg (2 * ts.length + 8) ts with
      | some (ss, r) =>
        match pFile cfg f r with
        | some ss' => some (ss ++ ss')
        | none => none
      | none => none

def parseFileToksWith (cfg : Cfg) (ts : List Tok) : Option (List Stmt) :=
  match ts with
  | .start .exec :: r => pFile cfg (r.length + 1) r
  | _ => none

/-- the statement parser of the code as it is (all repaired checks on) over the tokens of `lexString text .exec` -/
def parseFileToks (ts : List Tok) : Option (List Stmt) := parseFileToksWith {} ts

inductive FileOut
  | ok (ss : List Stmt)
  | syntaxError
  | outOfFuel

/-- `parser.ParseString(text, py.ExecMode)` on the fragment -/
def parseFileStringWith (cfg : Cfg) (text : List Char) : FileOut :=
  match lexString text .exec with
  | .outOfFuel => .outOfFuel
  | .syntaxError => .syntaxError
  | .ok ts =>
    match parseFileToksWith cfg ts with
    | some ss => .ok ss
    | none => .syntaxError

def parseFileString (text : List Char) : FileOut := parseFileStringWith {} text

/-! ## 8. canonical S-expressions (shared with harness/c06.go `c06Sexp`) -/

mutual
/-- an expression in Store / Del context: the context is printed on Name, Attribute, Subscript and on a
Tuple / List together with its elements -/
def sexpCtx (c : String) : Expr → String
  | .name s => s!"(Name {s} {c})"
  | .attr v a => s!"(Attribute {sexp v} {a} {c})"
  | .sub v i => s!"(Subscript {sexp v} (Index {sexp i}) {c})"
  | .tuple es => s!"(Tuple [{" ".intercalate (sexpCtxs c es)}] {c})"
  | .list es => s!"(List [{" ".intercalate (sexpCtxs c es)}] {c})"
  | e => sexp e
def sexpCtxs (c : String) : List Expr → List String
  | [] => []
  | e :: es => sexpCtx c e :: sexpCtxs c es
end

def ident (s : String) : String := if s == "" then "\"\"" else s

def optSexp : Option Expr → String
  | some e => sexp e
  | none => "-"

def argSexp (s : String) : String := s!"(Arg {s} -)"

def optArgSexp : Option String → String
  | some s => argSexp s
  | none => "-"

def brack (l : List String) : String := "[" ++ " ".intercalate l ++ "]"

def Alias.sexp (a : Alias) : String := s!"(Alias {a.name} {ident a.asname})"

def Params.sexp (p : Params) : String :=
  s!"(Arguments {brack (p.args.map argSexp)} {optArgSexp p.vararg} {brack (p.kwonly.map argSexp)} {brack (p.kwdefaults.map optSexp)} {optArgSexp p.kwarg} {brack (sexps p.defaults)})"

def withItemSexp : Expr × Option Expr → String
  | (c, some v) => s!"(WithItem {sexp c} {sexpCtx "Store" v})"
  | (c, none) => s!"(WithItem {sexp c} -)"

mutual
def Stmt.sexp : Stmt → String
  | .expr e => s!"(ExprStmt {Spec.sexp e})"
  | .assign ts v => s!"(Assign {brack (sexpCtxs "Store" ts)} {Spec.sexp v})"
  | .aug t op v => s!"(AugAssign {sexpCtx "Store" t} {op.name} {Spec.sexp v})"
  | .pass => "(Pass)"
  | .break_ => "(Break)"
  | .continue_ => "(Continue)"
  | .ret v => s!"(Return {optSexp v})"
  | .raise e c => s!"(Raise {optSexp e} {optSexp c})"
  | .del ts => s!"(Delete {brack (sexpCtxs "Del" ts)})"
  | .global ns => s!"(Global {brack ns})"
  | .nonlocal ns => s!"(Nonlocal {brack ns})"
  | .assert t m => s!"(Assert {Spec.sexp t} {optSexp m})"
  | .import_ as => s!"(Import {brack (as.map Alias.sexp)})"
  | .importFrom m as lvl => s!"(ImportFrom {ident m} {brack (as.map Alias.sexp)} {lvl})"
  | .if_ t b o => s!"(If {Spec.sexp t} {brack (stmtSexps b)} {brack (stmtSexps o)})"
  | .while_ t b o => s!"(While {Spec.sexp t} {brack (stmtSexps b)} {brack (stmtSexps o)})"
  | .for_ t i b o => s!"(For {sexpCtx "Store" t} {Spec.sexp i} {brack (stmtSexps b)} {brack (stmtSexps o)})"
  | .try_ b hs o f => s!"(Try {brack (stmtSexps b)} {brack (handlerSexps hs)} {brack (stmtSexps o)} {brack (stmtSexps f)})"
  | .with_ items b => s!"(With {brack (items.map withItemSexp)} {brack (stmtSexps b)})"
  | .funcdef n ps b ds => s!"(FunctionDef {n} {ps.sexp} {brack (stmtSexps b)} {brack (sexps ds)} -)"
  | .classdef n bases b ds => s!"(ClassDef {n} {brack (sexps bases)} [] - - {brack (stmtSexps b)} {brack (sexps ds)})"
def stmtSexps : List Stmt → List String
  | [] => []
  | s :: ss => s.sexp :: stmtSexps ss
def Handler.sexp : Handler → String
  | .mk ty nm b => s!"(ExceptHandler {optSexp ty} {ident nm} {brack (stmtSexps b)})"
def handlerSexps : List Handler → List String
  | [] => []
  | h :: hs => h.sexp :: handlerSexps hs
end

/-- the Module body as harness/c06.go prints it for `ex` inputs -/
def fileSexp (ss : List Stmt) : String := brack (stmtSexps ss)

def fileOutV : FileOut → String
  | .ok ss => fileSexp ss
  | .syntaxError => "E:SyntaxError"
  | .outOfFuel => "MODEL-OUT-OF-FUEL"

/-- accept / reject observable of `ac exec` inputs -/
def fileAcceptV : FileOut → String
  | .ok _ => "ACCEPT"
  | .syntaxError => "E:SyntaxError"
  | .outOfFuel => "MODEL-OUT-OF-FUEL"

end GPy.C06
