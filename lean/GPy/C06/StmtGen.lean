/-
C06 statement cases.  `genStmts seed n` prints (line protocol of GPy.Case):
  (i)   hand-written legal statement texts (every statement kind, several layouts)   ex <text>        tag stmt
        model = spec = S-expression of the Lean statement parser's tree
  (ii)  seeded random statement trees (depth ≤ 3) printed in 3 layouts               ex <text>        tag stmt-rand
        spec = S-expression of the generated tree, model = S-expression of the Lean parse of the text
  (iii) illegal statement texts                                                      ac exec <text>   tag stmt-illegal
        spec = E:SyntaxError, model = verdict of the Lean statement parser
  (iv)  every single-character deletion of the texts of (i)                           ex <text>        tag stmt-mut
        model = spec = tree or rejection by the Lean statement parser (texts leaving the fragment are skipped)
Core Lean only; `partial def` only in generator / printer code.
-/
import GPy.C06.Gen
import GPy.C06.Stmt
namespace GPy.C06
open Spec

/-! ### (i) legal texts -/

def stmtLegalTexts : List String := [
  -- expression statements, assignments
  "a\n", "a; b\n", "a; b;\n", "f(a, b)\n", "a.b.c\n", "'doc'\n", "a, b\n", "a,\n", "()\n", "lambda: a\n", "a if b else c\n",
  "a = 1\n", "a = b = c\n", "a = b = c = d, e\n", "a, b = c\n", "a, b = c, d = e\n", "(a, b) = c\n", "[a, b] = c\n", "[] = c\n", "a, = c\n", "(a,) = c\n",
  "a.b = c[0] = 1\n", "a[b, c] = d\n", "a().b = 1\n", "a()[0] = 1\n", "[a, [b, (c, d)]] = 1\n", "(a) = 1\n", "((a, b)) = 1\n", "a = b,\n", "a = (b, c)\n", "x = a if b else c\n",
  "a = lambda x: x\n", "a = b == c\n",
  -- augmented assignment (12 operators)
  "a += 1; b -= 2; c *= 3; d /= 4; e %= 5; f &= 6; g |= 7; h ^= 8; i <<= 9; j >>= 1; k **= 2; l //= 3\n",
  "a.b += 1\n", "a[0] -= 1\n", "a[0].c **= 1\n", "(a) += 1\n", "a += 1,\n", "a += b, c\n", "a().b //= c\n", "a <<= b >> c\n",
  -- pass / break / continue / return / raise
  "pass\n", "pass; break; continue;\n", "break\n", "continue\n", "return\n", "return a\n", "return a, b\n", "return a,\n", "return (a, b)\n", "return lambda: 1\n", "return not a\n",
  "return;\n", "return; pass\n", "raise\n", "raise a\n", "raise a from b\n", "raise a(b) from None\n", "raise; raise a\n", "raise (a, b)\n",
  -- del / global / nonlocal / assert
  "del a\n", "del a, b.c, d[0]\n", "del (a, b), [c]\n", "del a,\n", "del (a)\n", "del (a,)\n", "del []\n", "del a[b, c]\n", "global a\n", "global a, b\n", "nonlocal a, b\n", "nonlocal a\n",
  "assert a\n", "assert a, b\n", "assert a == b, 'msg'\n", "assert (a, b)\n", "assert lambda: a, b\n",
  -- import
  "import a\n", "import a.b as c, d\n", "import a.b.c\n", "import a as b\n", "import a, b, c\n", "import a . b\n",
  "from a import b\n", "from a.b import c as d, e\n", "from . import a\n", "from .. a import b\n", "from ... import a\n", "from .... a.b import (c, d as e,)\n", "from a import *\n",
  "from . import *\n", "from .a import b\n", "from . . . import a\n", "from ..... import a\n", "from a import (b)\n", "from a import (b, c)\n", "from a import (\n  b,\n  c,\n)\n", "from a import b; import c\n",
  -- if / while / for
  "if a: b\n", "if a: b\nelif c: d\n", "if a: b\nelif c: d\nelif e: f\nelse: g\n", "if a: b\nelse: g\n", "if a:\n  b\n  c\n", "if a:\n    b\nelif c:\n    d\nelse:\n    e\n",
  "if a:\n  if b:\n    c\n  else:\n    d\nelse:\n  e\n", "if a:\n  if b:\n    c\n  d\ne\n", "if a: pass; pass;\n", "if a:\n\n  # comment\n  b\n\n  c\n# end\n", "if a: \n\n  pass\n",
  "if a:\n\tb\n\tif c:\n\t\td\n", "if a: b\nc\n", "if a:\n  b\nif c:\n  d\n", "if a: b; c\nelse: d; e;\n", "if (a,\n    b): c\n", "if a: \\\n  b\n", "if lambda: a: b\n", "if a if b else c: d\n",
  "while a: b\n", "while a: b\nelse: c\n", "while a:\n  b\n  break\nelse:\n  c\n", "while a < b: pass\n", "while a:\n  while b:\n    continue\n",
  "for a in b: c\n", "for a, b in c, d: e\nelse: f\n", "for a in b,: c\n", "for a, in x: pass\n", "for a, b, in x: pass\n", "for (a) in x: pass\n", "for (a, b) in x: pass\n", "for [a, b] in x: pass\n",
  "for a.b in x: pass\n", "for a[0] in x: pass\n", "for a in b in c: pass\n", "for a in b:\n  c\n  d\nelse:\n  e\n", "for a in b: c; d\n", "for a in b if c else d: pass\n", "for a in lambda: b: pass\n",
  "for a, (b, c) in d: pass\n", "for a in b:\n  for c in d:\n    e\n",
  -- try
  "try:\n  pass\nexcept:\n  pass\n", "try:\n  pass\nfinally:\n  pass\n", "try:\n  pass\nexcept a as b:\n  pass\nelse:\n  c\nfinally:\n  d\n", "try: pass\nexcept a: pass\nexcept: pass\nelse: c\n",
  "try:\n  try:\n    pass\n  finally:\n    pass\nexcept:\n  pass\n", "try: pass\nexcept (a, b): pass\n", "try: pass\nexcept a.b as c: pass\nexcept d: pass\nfinally: e\n", "try: a\nexcept: b\nfinally: c\n",
  "try: a; b\nexcept c: d; e\n", "try:\n  a\nexcept b:\n  try:\n    c\n  except d:\n    e\n", "try: pass\nexcept a if b else c: pass\n", "try: pass\nexcept lambda: a: pass\n", "if a:\n  try:\n    b\n  finally:\n    c\nd\n",
  -- with
  "with a: b\n", "with a as b: c\n", "with a as b, c as d, e: f\n", "with a as (b, c): d\n", "with a as b.c: d\n", "with a as b[0]: pass\n", "with a, b: pass\n", "with (a, b): pass\n", "with a() as b:\n  c\n  d\n",
  "with a as [b, c]: pass\n", "with a as (b): pass\n", "with a if b else c as d: pass\n", "with a:\n  with b as c:\n    d\n",
  -- def
  "def f(): pass\n", "def f(a): pass\n", "def f(a, b): pass\n", "def f(a,): pass\n", "def f(a, b=1): pass\n", "def f(a=1, b=2,): pass\n", "def f(*a): pass\n", "def f(*, a): pass\n", "def f(a, *b): pass\n",
  "def f(*a, **k): pass\n", "def f(**k): pass\n", "def f(a, **k): pass\n", "def f(a, *, b, **k): pass\n", "def f(a, b=1, *c, d, e=2, **k): pass\n", "def f(a=1, *, b): pass\n", "def f(*a, b=1, c, **k): pass\n",
  "def f(*, a=1, b): pass\n", "def f(a, *, b=1, c): pass\n", "def f(a, a): pass\n", "def f(a=lambda: 1, b=(c, d)): pass\n", "def f(a = b if c else d): pass\n", "def f(a):\n  return a\n", "def f():\n  def g():\n    pass\n  return g\n",
  "def f(a, b=1):\n    'doc'\n    return a + b\n", "def f(\n  a,\n  b=1\n): pass\n", "def f(): return\n", "def f(): a; b\n", "def f(*a, b): pass\n", "def f(*a, b, **k): pass\n", "def f(a, *b, c=1): pass\n",
  -- class
  "class C: pass\n", "class C(): pass\n", "class C(a, b): pass\n", "class C(a,): pass\n", "class C(a.b, c()): pass\n", "class C:\n  a = 1\n  def f(self): pass\n", "class C(a):\n  class D: pass\n  pass\n", "class C: a; b\n",
  -- decorators
  "@a\ndef f(): pass\n", "@a.b\ndef f(): pass\n", "@a.b.c(1)\nclass C: pass\n", "@a.b()\n@d\ndef f(): pass\n", "@a\n@b.c(d)\nclass C(a): pass\n", "@a\n\ndef f(): pass\n", "@a\n# c\ndef f(): pass\n", "@a(b, c,)\ndef f(): pass\n",
  "class C:\n  @a\n  def f(self): pass\n  @b.c\n  class D: pass\n", "@a ( b )\ndef f(): pass\n", "@ a . b\ndef f(): pass\n",
  -- layouts: blank lines, comments, missing final newline, semicolons
  "", "\n", "\n\n# only a comment\n\n", "a\n\n\nb\n", "# c\na # d\n# e\n", "a", "if a: b", "if a:\n  b", "a; b", "pass;", "def f(): pass", "if a:\n  b\n\n", "a = 1 # x\nb = 2\n", "a = (1,\n  2)\nb\n", "a = [\n]\n", "if a:\n  b = (\n1)\n  c\n",
  "a \\\n= 1\n", "if a:\n  pass\n  # comment at odd indentation\n    # deeper\n  pass\n", "if a:\r\n  b\r\n"
]

/-! ### (iii) illegal texts -/

/-- the recorded families C06-K01 / K02 / K03 (repaired by cbae5b7 / 787d2c3 / 05ee8d3) -/
def stmtKnownTexts : List String := [
  "(a, b) += 1\n", "[a, b] -= 1\n", "a, b += 1\n", "(a,) *= 2\n", "[] += 1\n", "[a] |= b\n", "a, b, c //= 1\n", "(a, (b, c)) >>= 1\n",
  "try:\n  pass\n", "try: pass\nx = 1\n", "try:\n  pass\nelse:\n  pass\n", "try:\n  pass\nelse:\n  pass\nfinally:\n  pass\n", "if a:\n  try:\n    pass\n  else:\n    pass\n", "try: pass\n", "try:\n  try: pass\n  finally: pass\n",
  "def f(*): pass\n", "def f(a, *, **k): pass\n", "def f(*, **k): pass\n", "def f(a, *): pass\n", "def f(a=1, *): pass\n", "def f(a, b, *, **k): pass\n"
]

def stmtIllegalTexts : List String := [
  -- bad targets
  "f() = 1\n", "1 = 1\n", "a + 1 = 2\n", "a, 1 = 2\n", "(a if b else c) = 1\n", "a if b else c = 1\n", "lambda: 1 = 2\n", "x = lambda: 1 = 2\n", "None = 1\n", "True = 1\n", "False = 1\n", "... = 1\n", "'s' = 1\n", "b's' = 1\n",
  "-a = 1\n", "not a = 1\n", "a < b = 1\n", "a and b = 1\n", "a or b = 1\n", "a ** b = 1\n", "[a, 1] = 1\n", "[a, [b, c()]] = 1\n", "(a, (b, 1)) = 1\n", "a = 1 = b\n", "a = b() = c\n", "() = 1\n", "a, () = 1\n", "1.5 = a\n",
  "f() += 1\n", "1 += 1\n", "a + b += 1\n", "None += 1\n", "a += b += c\n", "a = b += 1\n", "a += b = 1\n", "(a + b) -= 1\n", "a < b += 1\n", "lambda: a += 1\n", "a if b else c += 1\n", "() += 1\n",
  "del f()\n", "del 1\n", "del a + b\n", "del a, 1\n", "del (a, f())\n", "del None\n", "del ()\n", "del\n", "del a.b()\n", "del a < b\n", "del not a\n", "del lambda: a\n", "del [a, 1]\n",
  "for 1 in a: pass\n", "for a() in b: pass\n", "for a + b in c: pass\n", "for a, 1 in c: pass\n", "for () in x: pass\n", "for None in x: pass\n", "for (a, b()) in x: pass\n",
  "with a as 1: pass\n", "with a as b(): pass\n", "with a as b + c: pass\n", "with a as (b, 1): pass\n", "with a as (): pass\n", "with a as None: pass\n",
  -- expression statements and operators
  "x = = 1\n", "= 1\n", "a = \n", "a +=\n", "a ++= 1\n", "a.1 = 2\n", "a[] = 1\n", "a b\n", "a <> b\n", "a = 1 +\n", "a..b\n", "a;;\n", ";\n", "a; ; b\n", "print 1\n", "x = (1,\n", "x = [1, 2\n", "x = {\n", "a = ,\n", "a = b c\n", "a ! b\n", "$\n",
  -- simple statements
  "return return\n", "return a b\n", "return ,\n", "return a,,\n", "return = 1\n", "pass pass\n", "pass = 1\n", "pass 1\n", "break 1\n", "continue a\n", "raise from b\n", "raise a from\n", "raise a, b\n", "raise a from b from c\n",
  "assert\n", "assert a,\n", "assert a, b, c\n", "assert , a\n", "global\n", "global a,\n", "global a.b\n", "global 1\n", "global a b\n", "nonlocal 1\n", "nonlocal\n", "nonlocal a,\n", "global (a)\n",
  "import\n", "import a,\n", "import a.b.\n", "import .a\n", "import a as b.c\n", "import a as\n", "import a as 1\n", "import *\n", "import (a)\n", "import a b\n",
  "from a import\n", "from a import b.c\n", "from a import *, b\n", "from a import b as\n", "from import a\n", "from a import (*)\n", "from a import ()\n", "from a import b,\n", "from a import b, c,\n", "from a import b as c,\n",
  "from a import (b\n", "from a import (b,,)\n", "from a import (b c)\n", "from a\n", "from . import\n", "from a.b. import c\n", "from a import b from c\n",
  -- compound statement shapes
  "if a\n  b\n", "if a:\nb\n", "if: pass\n", "if a: if b: c\n", "if a:\n  pass\n    pass\n", "if a:\n    pass\n  pass\n", "else: pass\n", "elif a: pass\n", "if a: pass\nelse: pass\nelif b: pass\n", "if a: pass\nelse: pass\nelse: pass\n",
  "if a: pass\nelse pass\n", "if a: pass\nelif: pass\n", "if a:\n", "if a: pass\n else: pass\n", "if a = b: pass\n", "if a: b = \n", "if a:: pass\n", "if a: pass else: pass\n",
  "while: pass\n", "while a pass\n", "while a: pass\nelif b: pass\n", "while a: pass\nelse: pass\nelse: pass\n", "while a:\npass\n", "while a, b = c: pass\n",
  "for in x: pass\n", "for a in: pass\n", "for a b: pass\n", "for a in b c: pass\n", "for a < b in c: pass\n", "for a in b\n  pass\n", "for a: pass\n", "for a in b: pass\nelif c: pass\n", "for a not in b: pass\n", "for a, not in b: pass\n",
  "try: pass\nfinally: pass\nexcept: pass\n", "try: pass\nfinally: pass\nelse: pass\n", "try: pass\nexcept: pass\nfinally: pass\nfinally: pass\n", "try: pass\nexcept a as b.c: pass\n", "try: pass\nexcept a, b: pass\n",
  "try: pass\nexcept as e: pass\n", "try: pass\nexcept a as: pass\n", "try: pass\nexcept a as 1: pass\n", "except: pass\n", "finally: pass\n", "try pass\nexcept: pass\n", "try:\nexcept: pass\n", "try: pass\nexcept: pass\nelse: pass\nexcept: pass\n",
  "try: pass\nexcept a b: pass\n", "try: pass\nexcept: pass\nelse: pass\nelse: pass\n", "try a: pass\nexcept: pass\n", "try: pass\nexcept\n  pass\n",
  "with: pass\n", "with a as: pass\n", "with a as b, : pass\n", "with a as b c: pass\n", "with a pass\n", "with a as b as c: pass\n", "with a,: pass\n", "with , a: pass\n",
  -- parameter lists
  "def f(a=1, b): pass\n", "def f(a, b=1, c): pass\n", "def f(a=1, b, *c): pass\n", "def f(a=1, b, **k): pass\n", "def f(**k, a): pass\n", "def f(**k, *a): pass\n", "def f(**k, **j): pass\n", "def f(a, **k, **j): pass\n", "def f(*a, *b): pass\n",
  "def f(a, *b, *c): pass\n", "def f(*, *, a): pass\n", "def f(*, a, *): pass\n", "def f(*a, *, b): pass\n", "def f(*a,): pass\n", "def f(**k,): pass\n", "def f(*, a,): pass\n", "def f(a, *b,): pass\n", "def f(a,, b): pass\n", "def f(,): pass\n",
  "def f(, a): pass\n", "def f(: pass\n", "def f(a b): pass\n", "def f(a, a=): pass\n", "def f(a=): pass\n", "def f(a, (b, c)): pass\n", "def f(a.b): pass\n", "def f(1): pass\n", "def f(a=1 b): pass\n", "def f(*1): pass\n", "def f(**): pass\n",
  "def f(* *a): pass\n", "def f(*a b): pass\n", "def f(a, **): pass\n", "def f(*a, **k, b): pass\n", "def f(*, **k, a): pass\n", "def (a): pass\n", "def f: pass\n", "def f() pass\n", "def f()\n  pass\n", "def f():\npass\n", "def 1(): pass\n",
  "def f()(): pass\n", "def f(a)(b): pass\n", "def f.g(): pass\n", "def: pass\n", "def f(a))): pass\n",
  -- class and decorators
  "class: pass\n", "class C(: pass\n", "class C() pass\n", "class 1: pass\n", "class C(a)(b): pass\n", "class C(a b): pass\n", "class C.D: pass\n", "class C:\npass\n", "class C(,): pass\n", "class C(a,,): pass\n", "class C a: pass\n",
  "@\ndef f(): pass\n", "@a\nx = 1\n", "@a()()\ndef f(): pass\n", "@a[0]\ndef f(): pass\n", "@(a)\ndef f(): pass\n", "@a\n", "@a def f(): pass\n", "@a.\ndef f(): pass\n", "@a\nif b: pass\n", "@a\n@\ndef f(): pass\n", "@1\ndef f(): pass\n",
  "@a(\ndef f(): pass\n", "@a.b.(c)\ndef f(): pass\n", "@a\npass\n", "@a;\ndef f(): pass\n", "@a b\ndef f(): pass\n", "@a\n  def f(): pass\n"
]

/-! ### (ii) seeded random statement trees and their printer -/

def stmtNames : Array String := #["a", "b", "c", "x", "y", "foo", "_t", "é", "x1", "selfish"]

def rName (r : Rng) : Rng × String := r.pick stmtNames

def rNames (r : Rng) (lo hi : Nat) : Rng × List String := Id.run do
  let (r, n) := r.nat (hi - lo + 1)
  let mut r := r
  let mut out := []
  for _ in [0:lo + n] do
    let (r', s) := rName r
    r := r'
    out := s :: out
  return (r, out)

/-- a primary expression usable as the value of an Attribute / Subscript target -/
def rPrimary (r : Rng) : Rng × Expr :=
  let (r, c) := r.nat 4
  let (r, s) := rName r
  let (r, t) := rName r
  match c with
  | 0 | 1 => (r, .name s)
  | 2 => (r, .attr (.name s) t)
  | _ => (r, .call (.name s) [])

def rSmallExpr (r : Rng) (depth : Nat) : Rng × Expr :=
  let (r, c) := r.nat 3
  if c == 0 then let (r, s) := rName r; (r, .name s) else randExpr r depth

partial def rTarget (r : Rng) (depth : Nat) : Rng × Expr :=
  let (r, c) := r.nat (if depth == 0 then 4 else 7)
  match c with
  | 0 | 1 => let (r, s) := rName r; (r, .name s)
  | 2 => let (r, v) := rPrimary r; let (r, s) := rName r; (r, .attr v s)
  | 3 => let (r, v) := rPrimary r; let (r, i) := rSmallExpr r 1; (r, .sub v i)
  | 4 | 5 => Id.run do
    let (r, n) := r.nat 3
    let mut r := r
    let mut out := []
    for _ in [0:n + 1] do
      let (r', t) := rTarget r (depth - 1)
      r := r'
      out := t :: out
    return (r, .tuple out)
  | _ => Id.run do
    let (r, n) := r.nat 3
    let mut r := r
    let mut out := []
    for _ in [0:n] do
      let (r', t) := rTarget r (depth - 1)
      r := r'
      out := t :: out
    return (r, .list out)

def rAugTarget (r : Rng) : Rng × Expr :=
  let (r, c) := r.nat 3
  match c with
  | 0 => let (r, s) := rName r; (r, .name s)
  | 1 => let (r, v) := rPrimary r; let (r, s) := rName r; (r, .attr v s)
  | _ => let (r, v) := rPrimary r; let (r, i) := rSmallExpr r 1; (r, .sub v i)

/-- a `testlist` value: sometimes a (non-empty) tuple -/
def rTestlist (r : Rng) : Rng × Expr :=
  let (r, c) := r.nat 4
  if c == 0 then Id.run do
    let (r, n) := r.nat 3
    let mut r := r
    let mut out := []
    for _ in [0:n + 1] do
      let (r', e) := rSmallExpr r 1
      r := r'
      out := e :: out
    return (r, .tuple out)
  else rSmallExpr r 2

def rOpt {α} (r : Rng) (g : Rng → Rng × α) : Rng × Option α :=
  let (r, c) := r.nat 2
  if c == 0 then (r, none) else let (r, x) := g r; (r, some x)

def rAlias (r : Rng) (dottedOk : Bool) : Rng × Alias :=
  let (r, n) := r.nat (if dottedOk then 3 else 1)
  let (r, parts) := rNames r (n + 1) (n + 1)
  let (r, c) := r.nat 3
  let (r, a) := rName r
  (r, { name := dotted parts, asname := if c == 0 then a else "" })

def rParams (r : Rng) : Rng × Params := Id.run do
  let (r, na) := r.nat 4
  let (r, nd) := r.nat (na + 1)
  let (r, star) := r.nat 4            -- 0 none, 1 *name, 2 bare * + kwonly, 3 *name + kwonly
  let (r, nk0) := r.nat 3
  let nk := if star == 0 || star == 1 then 0 else nk0 + 1
  let (r, kwarg) := r.nat 3
  let mut r := r
  let mut ds := []
  for _ in [0:nd] do
    let (r', e) := rSmallExpr r 1
    r := r'
    ds := e :: ds
  let mut kds := []
  for _ in [0:nk] do
    let (r', e) := rOpt r (fun r => rSmallExpr r 1)
    r := r'
    kds := e :: kds
  let pool := ["p", "q", "s", "t", "u", "v", "w", "z"]
  return (r, { args := pool.take na, vararg := if star == 1 || star == 3 then some "va" else none,
               kwonly := (pool.drop 4).take nk, kwdefaults := kds, kwarg := if kwarg == 0 then some "kw" else none, defaults := ds })

def rDecorator (r : Rng) : Rng × Expr := Id.run do
  let (r, parts) := rNames r 1 3
  let fn : Expr := match parts with
    | [] => .name "d"
    | p :: ps => ps.foldl (fun e a => .attr e a) (.name p)
  let (r, c) := r.nat 3
  if c != 0 then return (r, fn)
  let (r, n) := r.nat 3
  let mut r := r
  let mut out := []
  for _ in [0:n] do
    let (r', e) := rSmallExpr r 1
    r := r'
    out := e :: out
  return (r, .call fn out)

def rList {α} (r : Rng) (n : Nat) (g : Rng → Rng × α) : Rng × List α := Id.run do
  let mut r := r
  let mut out := []
  for _ in [0:n] do
    let (r', x) := g r
    r := r'
    out := x :: out
  return (r, out)

mutual
partial def rStmt (r : Rng) (depth : Nat) : Rng × Stmt :=
  let (r, c) := r.nat (if depth == 0 then 14 else 26)
  match c with
  | 0 => let (r, e) := rTestlist r; (r, .expr e)
  | 1 | 2 =>
    let (r, n) := r.nat 3
    let (r, ts) := rList r (n + 1) (fun r => rTarget r 2)
    let (r, v) := rTestlist r
    (r, .assign ts v)
  | 3 =>
    let (r, t) := rAugTarget r
    let (r, op) := r.pick allBin.toArray
    let (r, v) := rTestlist r
    (r, .aug t op v)
  | 4 => let (r, i) := r.nat 3; (r, [Stmt.pass, .break_, .continue_][i]!)
  | 5 => let (r, v) := rOpt r rTestlist; (r, .ret v)
  | 6 =>
    let (r, k) := r.nat 3
    if k == 0 then (r, .raise none none) else
    let (r, e) := rSmallExpr r 1
    if k == 1 then (r, .raise (some e) none) else
    let (r, c) := rSmallExpr r 1
    (r, .raise (some e) (some c))
  | 7 => let (r, n) := r.nat 3; let (r, ts) := rList r (n + 1) (fun r => rTarget r 1); (r, .del ts)
  | 8 => let (r, ns) := rNames r 1 3; let (r, k) := r.nat 2; (r, if k == 0 then .global ns else .nonlocal ns)
  | 9 => let (r, t) := rSmallExpr r 2; let (r, m) := rOpt r (fun r => rSmallExpr r 1); (r, .assert t m)
  | 10 => let (r, n) := r.nat 3; let (r, as) := rList r (n + 1) (fun r => rAlias r true); (r, .import_ as)
  | 11 | 12 =>
    let (r, lvl0) := r.nat 6
    let lvl := if lvl0 > 4 then 0 else lvl0
    let (r, hasMod) := r.nat 3
    let (r, n) := r.nat 3
    let (r, parts) := rNames r (n + 1) (n + 1)
    let m := if lvl == 0 || hasMod != 0 then dotted parts else ""
    let (r, star) := r.nat 4
    if star == 0 then (r, .importFrom m [{ name := "*" }] lvl) else
    let (r, k) := r.nat 3
    let (r, as) := rList r (k + 1) (fun r => rAlias r false)
    (r, .importFrom m as lvl)
  | 13 => let (r, e) := rSmallExpr r 2; (r, .expr e)
  | 14 | 15 | 16 =>
    let (r, t) := rSmallExpr r 1
    let (r, b) := rBody r (depth - 1)
    let (r, k) := r.nat 4
    if k == 0 then (r, .if_ t b []) else
    if k == 1 then let (r, o) := rBody r (depth - 1); (r, .if_ t b o) else
    -- elif chain: orelse = one nested If
    let (r, t2) := rSmallExpr r 1
    let (r, b2) := rBody r (depth - 1)
    let (r, o2) := if k == 2 then (r, []) else rBody r (depth - 1)
    (r, .if_ t b [.if_ t2 b2 o2])
  | 17 =>
    let (r, t) := rSmallExpr r 1
    let (r, b) := rBody r (depth - 1)
    let (r, k) := r.nat 3
    let (r, o) := if k == 0 then rBody r (depth - 1) else (r, [])
    (r, .while_ t b o)
  | 18 | 19 =>
    let (r, t) := rTarget r 2
    let (r, it) := rTestlist r
    let (r, b) := rBody r (depth - 1)
    let (r, k) := r.nat 3
    let (r, o) := if k == 0 then rBody r (depth - 1) else (r, [])
    (r, .for_ t it b o)
  | 20 | 21 =>
    let (r, b) := rBody r (depth - 1)
    let (r, nh) := r.nat 3
    let (r, hs) := rList r nh (fun r =>
      let (r, k) := r.nat 3
      let (r, ty) := rSmallExpr r 1
      let (r, nm) := rName r
      let (r, hb) := rBody r (depth - 1)
      (r, Handler.mk (if k == 0 then none else some ty) (if k == 2 then nm else "") hb))
    let (r, ke) := r.nat 2
    let (r, o) := if nh > 0 && ke == 0 then rBody r (depth - 1) else (r, [])
    let (r, kf) := r.nat 2
    let (r, f) := if nh == 0 || kf == 0 then rBody r (depth - 1) else (r, [])
    (r, .try_ b hs o f)
  | 22 =>
    let (r, n) := r.nat 3
    let (r, items) := rList r (n + 1) (fun r =>
      let (r, c) := rSmallExpr r 1
      let (r, v) := rOpt r (fun r => rTarget r 1)
      (r, (c, v)))
    let (r, b) := rBody r (depth - 1)
    (r, .with_ items b)
  | 23 | 24 =>
    let (r, n) := rName r
    let (r, ps) := rParams r
    let (r, b) := rBody r (depth - 1)
    let (r, nd) := r.nat 4
    let (r, ds) := rList r (if nd > 2 then 0 else nd) rDecorator
    (r, .funcdef n ps b ds)
  | _ =>
    let (r, n) := rName r
    let (r, nb) := r.nat 3
    let (r, bases) := rList r nb (fun r => rSmallExpr r 1)
    let (r, b) := rBody r (depth - 1)
    let (r, nd) := r.nat 4
    let (r, ds) := rList r (if nd > 1 then 0 else nd) rDecorator
    (r, .classdef n bases b ds)

partial def rBody (r : Rng) (depth : Nat) : Rng × List Stmt := Id.run do
  let (r, n) := r.nat 3
  let mut r := r
  let mut out := []
  for _ in [0:n + 1] do
    let (r', s) := rStmt r depth
    r := r'
    out := s :: out
  return (r, out)
end

/-! #### printer (a `StateM Rng`: literal spellings are seeded) -/

abbrev G := StateM Rng

/-- layout variant: 0 = four spaces, one statement per line, minimal parentheses;
1 = two spaces, one-line suites and `;` where possible, bare tuples, `elif`;
2 = tabs, blank / comment lines, redundant parentheses and trailing commas, trailing `;` -/
structure Lay where
  v : Nat
  seed : Nat

def gNat (n : Nat) : G Nat := fun r => let (r', x) := r.nat n; (x, r')

def exprTextAt (ℓ : Lay) (lvl : Nat) (e : Expr) : G String := fun r =>
  let lay := if ℓ.v == 2 then mkLayout ℓ.seed 25 else mkLayout ℓ.seed 0
  let (r', s) := toksText r 0 (rAt lay [] lvl e)
  (s, r')

def exprText (ℓ : Lay) (e : Expr) : G String := exprTextAt ℓ 0 e

def joinG (sep : String) (l : List (G String)) : G String := do
  let mut out := []
  for g in l do
    let s ← g
    out := s :: out
  return sep.intercalate out.reverse

/-- a testlist / target list position: a non-empty tuple may be written without parentheses -/
def bareText (ℓ : Lay) (e : Expr) : G String := do
  match e with
  | .tuple (x :: xs) =>
    if ℓ.v == 1 then
      let s ← joinG ", " ((x :: xs).map (exprText ℓ))
      return if xs.isEmpty then s ++ "," else s
    else exprText ℓ e
  | _ => exprText ℓ e

def isSimple : Stmt → Bool
  | .if_ .. | .while_ .. | .for_ .. | .try_ .. | .with_ .. | .funcdef .. | .classdef .. => false
  | _ => true

def aliasText (a : Alias) : String := if a.asname == "" then a.name else a.name ++ " as " ++ a.asname

def augText (op : BinOp) : String := pText op.tok ++ "="

def simpleText (ℓ : Lay) : Stmt → G String
  | .expr e => bareText ℓ e
  | .assign ts v => do
    let tss ← joinG " = " (ts.map (bareText ℓ))
    let vs ← bareText ℓ v
    return tss ++ " = " ++ vs
  | .aug t op v => do
    let ts ← exprText ℓ t
    let vs ← bareText ℓ v
    return ts ++ " " ++ augText op ++ " " ++ vs
  | .pass => pure "pass"
  | .break_ => pure "break"
  | .continue_ => pure "continue"
  | .ret none => pure "return"
  | .ret (some v) => do return "return " ++ (← bareText ℓ v)
  | .raise none _ => pure "raise"
  | .raise (some e) none => do return "raise " ++ (← exprText ℓ e)
  | .raise (some e) (some c) => do return "raise " ++ (← exprText ℓ e) ++ " from " ++ (← exprText ℓ c)
  | .del ts => do
    let s ← joinG ", " (ts.map (exprTextAt ℓ exprLevel))
    return "del " ++ s ++ (if ℓ.v == 2 then "," else "")
  | .global ns => pure ("global " ++ ", ".intercalate ns)
  | .nonlocal ns => pure ("nonlocal " ++ ", ".intercalate ns)
  | .assert t none => do return "assert " ++ (← exprText ℓ t)
  | .assert t (some m) => do return "assert " ++ (← exprText ℓ t) ++ ", " ++ (← exprText ℓ m)
  | .import_ as => pure ("import " ++ ", ".intercalate (as.map aliasText))
  | .importFrom m as lvl =>
    let dots := if ℓ.v == 1 then String.ofList (List.replicate lvl '.') else " ".intercalate (List.replicate lvl ".")
    let names := ", ".intercalate (as.map aliasText)
    let star := as.any (fun a => a.name == "*")
    pure ("from " ++ dots ++ (if ℓ.v == 1 then "" else " ") ++ m ++ " import " ++
      (if star then "*" else if ℓ.v == 2 then "(" ++ names ++ ",)" else if ℓ.v == 1 && as.length > 1 then "(" ++ names ++ ")" else names))
  | _ => pure "pass"

def paramsText (ℓ : Lay) (p : Params) : G String := do
  let npos := p.args.length
  let nd := p.defaults.length
  let mut parts : List String := []
  for (a, i) in p.args.zipIdx do
    if i + nd ≥ npos then
      let d ← exprText ℓ (p.defaults[i + nd - npos]!)
      parts := (if ℓ.v == 1 then a ++ "=" ++ d else a ++ " = " ++ d) :: parts
    else parts := a :: parts
  match p.vararg with
  | some v => parts := ("*" ++ v) :: parts
  | none => if !p.kwonly.isEmpty then parts := "*" :: parts
  for (a, d) in p.kwonly.zip p.kwdefaults do
    match d with
    | some e => parts := (a ++ "=" ++ (← exprText ℓ e)) :: parts
    | none => parts := a :: parts
  match p.kwarg with
  | some k => parts := ("**" ++ k) :: parts
  | none => pure ()
  let s := ", ".intercalate parts.reverse
  -- a trailing comma is legal only after a plain positional parameter
  return if ℓ.v == 2 && p.vararg.isNone && p.kwonly.isEmpty && p.kwarg.isNone && !p.args.isEmpty then s ++ "," else s

partial def decoratorText (ℓ : Lay) : Expr → G String
  | .name s => pure s
  | .attr v a => do return (← decoratorText ℓ v) ++ (if ℓ.v == 2 then " . " else ".") ++ a
  | .call f args => do
    let fs ← decoratorText ℓ f
    let as ← joinG ", " (args.map (exprText ℓ))
    return fs ++ "(" ++ as ++ ")"
  | _ => pure "d"

def noiseLines (ℓ : Lay) (ind : String) : G (List String) := do
  if ℓ.v != 2 then return []
  let k ← gNat 6
  return match k with
    | 0 => [""]
    | 1 => ["# comment"]
    | 2 => [ind ++ "    # deeper comment", "   "]
    | _ => []

mutual
/-- header text `kw …:` followed by the suite, as lines -/
partial def suiteLines (ℓ : Lay) (ind : String) (hdr : String) (body : List Stmt) : G (List String) := do
  let oneLine := body.all isSimple && (ℓ.v == 1 || (ℓ.v == 2 && body.length == 1))
  if oneLine then
    let s ← joinG "; " (body.map (simpleText ℓ))
    return [ind ++ hdr ++ " " ++ s ++ (if ℓ.v == 2 then ";" else "")]
  else
    let unit := if ℓ.v == 0 then "    " else if ℓ.v == 1 then "  " else "\t"
    let ls ← blockLines ℓ (ind ++ unit) body
    return (ind ++ hdr) :: ls

partial def blockLines (ℓ : Lay) (ind : String) (ss : List Stmt) : G (List String) := do
  let mut out : List String := []
  let mut pending : List String := []     -- simple statements joined by `;` in layout 1
  for s in ss do
    if isSimple s then
      let t ← simpleText ℓ s
      if ℓ.v == 1 && pending.length < 2 then
        pending := pending ++ [t]
      else
        if !pending.isEmpty then out := out ++ [ind ++ "; ".intercalate pending]
        pending := []
        if ℓ.v == 1 then pending := [t] else
        let nz ← noiseLines ℓ ind
        out := out ++ nz ++ [ind ++ t ++ (if ℓ.v == 2 && t.length % 3 == 0 then " ;" else "")]
    else
      if !pending.isEmpty then out := out ++ [ind ++ "; ".intercalate pending]
      pending := []
      let nz ← noiseLines ℓ ind
      let ls ← stmtLines ℓ ind s
      out := out ++ nz ++ ls
  if !pending.isEmpty then out := out ++ [ind ++ "; ".intercalate pending]
  return out

partial def stmtLines (ℓ : Lay) (ind : String) : Stmt → G (List String)
  | .if_ t b o => do
    let ts ← exprText ℓ t
    let hd ← suiteLines ℓ ind ("if " ++ ts ++ ":") b
    let tl ← elseLines ℓ ind true o
    return hd ++ tl
  | .while_ t b o => do
    let ts ← exprText ℓ t
    let hd ← suiteLines ℓ ind ("while " ++ ts ++ ":") b
    let tl ← elseLines ℓ ind false o
    return hd ++ tl
  | .for_ t it b o => do
    let ts ← match t with
      | .tuple (_ :: _) => bareText ℓ t
      | _ => exprTextAt ℓ exprLevel t
    let is ← bareText ℓ it
    let hd ← suiteLines ℓ ind ("for " ++ ts ++ " in " ++ is ++ ":") b
    let tl ← elseLines ℓ ind false o
    return hd ++ tl
  | .try_ b hs o f => do
    let mut out ← suiteLines ℓ ind "try:" b
    for h in hs do
      match h with
      | .mk ty nm hb =>
        let hdr ← match ty with
          | none => pure "except:"
          | some e => do
            let es ← exprText ℓ e
            pure ("except " ++ es ++ (if nm == "" then "" else " as " ++ nm) ++ ":")
        let ls ← suiteLines ℓ ind hdr hb
        out := out ++ ls
    if !o.isEmpty then
      let ls ← suiteLines ℓ ind "else:" o
      out := out ++ ls
    if !f.isEmpty then
      let ls ← suiteLines ℓ ind "finally:" f
      out := out ++ ls
    return out
  | .with_ items b => do
    let its ← joinG ", " (items.map fun (c, v) => do
      let cs ← exprText ℓ c
      match v with
      | some t => do return cs ++ " as " ++ (← exprTextAt ℓ exprLevel t)
      | none => pure cs)
    suiteLines ℓ ind ("with " ++ its ++ ":") b
  | .funcdef n ps b ds => do
    let mut out : List String := []
    for d in ds do
      out := out ++ [ind ++ "@" ++ (← decoratorText ℓ d)]
      if ℓ.v == 2 then out := out ++ ["", ind ++ "# decorated"]
    let pt ← paramsText ℓ ps
    let ls ← suiteLines ℓ ind ("def " ++ n ++ "(" ++ pt ++ "):") b
    return out ++ ls
  | .classdef n bases b ds => do
    let mut out : List String := []
    for d in ds do
      out := out ++ [ind ++ "@" ++ (← decoratorText ℓ d)]
    let bs ← joinG ", " (bases.map (exprText ℓ))
    let hdr := if bases.isEmpty then (if ℓ.v == 1 then "class " ++ n ++ "():" else "class " ++ n ++ ":")
               else "class " ++ n ++ "(" ++ bs ++ (if ℓ.v == 2 then ",):" else "):")
    let ls ← suiteLines ℓ ind hdr b
    return out ++ ls
  | s => do
    let t ← simpleText ℓ s
    return [ind ++ t]

/-- `else:` suite; for an If whose orelse is one nested If: `elif` (layouts 1, 2) or `else:` + nested `if` (layout 0) -/
partial def elseLines (ℓ : Lay) (ind : String) (isIf : Bool) (o : List Stmt) : G (List String) := do
  match o with
  | [] => return []
  | [.if_ t b o2] =>
    if isIf && ℓ.v != 0 then
      let ts ← exprText ℓ t
      let hd ← suiteLines ℓ ind ("elif " ++ ts ++ ":") b
      let tl ← elseLines ℓ ind true o2
      return hd ++ tl
    else suiteLines ℓ ind "else:" o
  | _ => suiteLines ℓ ind "else:" o
end

def fileText (ℓ : Lay) (ss : List Stmt) (r : Rng) : Rng × String :=
  let (ls, r') := (blockLines ℓ "" ss).run r
  (r', "\n".intercalate ls ++ "\n")

/-! ### (iv) single-character deletions of the legal texts -/

def operandEnd : Tok → Bool
  | .name _ | .num _ | .str _ | .p .rpar | .p .rsqb | .p .rbrace | .p .elipsis | .k .none_ | .k .true_ | .k .false_ => true
  | _ => false

/-- conservative test for constructs outside the Lean statement fragment: yield, braces, `->`, a `:` or (outside a
def) an `=` inside brackets (annotation, slice, keyword argument), a `*` / `**` in operand position that is not
the `*` of a parameter list or of `import *` (star_expr, star arguments) -/
def outsideStmtFragment (ts : List Tok) : Bool := Id.run do
  let hasDef := ts.contains (.k .def_)
  let mut depth : Nat := 0
  let mut prev : Tok := .newline
  for t in ts do
    match t with
    | .k .yield_ | .p .lbrace | .p .minusgt => return true
    | .p .lpar | .p .lsqb => depth := depth + 1
    | .p .rpar | .p .rsqb => depth := depth - 1
    | .p .colon => if depth > 0 then return true
    | .p .equal => if depth > 0 && !hasDef then return true
    | .p .star | .p .starstar => if !operandEnd prev && prev != .k .import_ && !(hasDef && depth > 0) then return true
    | _ => pure ()
    prev := t
  return false

def genStmtMutations : IO Unit := do
  for t in stmtLegalTexts do
    let cs := t.toList
    for i in [0:cs.length] do
      let m := cs.take i ++ cs.drop (i + 1)
      let skip := match lexString m .exec with
        | .ok ts => outsideStmtFragment ts
        | _ => false
      if skip then continue
      -- accepted with exactly the tree of the Lean grammar, or rejected: the Lean grammar is the reference
      let v := fileOutV (parseFileString m)
      emit { input := "ex " ++ enc m, modelV := v, specV := v, tags := ["nt", "stmt-mut"] }

/-! ### the generator -/

def genStmts (seed : Nat) (n : Nat) : IO Unit := do
  -- (i) legal texts: the Lean grammar is the reference
  for t in stmtLegalTexts do
    let v := fileOutV (parseFileString t.toList)
    emit { input := "ex " ++ enc t.toList, modelV := v, specV := v, tags := ["nt", "stmt"] }
  -- (iii) illegal texts: the verdict of the Lean grammar against "must be rejected"
  for t in stmtKnownTexts do
    emit { input := "ac exec " ++ enc t.toList, modelV := fileAcceptV (parseFileString t.toList), specV := "E:SyntaxError",
           tags := ["nt", "stmt-illegal", "stmt-known"] }
  for t in stmtIllegalTexts do
    emit { input := "ac exec " ++ enc t.toList, modelV := fileAcceptV (parseFileString t.toList), specV := "E:SyntaxError",
           tags := ["nt", "stmt-illegal"] }
  -- (iv) every single-character deletion of the legal texts
  genStmtMutations
  -- (ii) seeded random statement trees × 3 layouts
  let mut r : Rng := ⟨(seed + 424242).toUInt64⟩
  for i in [0:n] do
    let (r1, d) := r.nat 4
    let (r2, nb) := r1.nat 3
    let mut rr := r2
    let mut ss : List Stmt := []
    for _ in [0:nb + 1] do
      let (r', s) := rStmt rr d
      rr := r'
      ss := s :: ss
    r := rr
    let spec := fileSexp ss
    for v in [0:3] do
      let (r', text) := fileText { v := v, seed := seed * 31 + i } ss r
      r := r'
      -- a third of the texts lose their final newline (exec mode adds it back)
      let chars := if (i + v) % 3 == 2 then text.toList.dropLast else text.toList
      emit { input := "ex " ++ enc chars, modelV := fileOutV (parseFileString chars), specV := spec,
             tags := ["nt", "stmt-rand", s!"slayout{v}"] }

end GPy.C06
