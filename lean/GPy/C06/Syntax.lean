/-
C06 shared syntax: tokens, operator enumerations, the expression AST of the
modelled fragment and the shape of the precedence-level table that
`extract/yaccfacts` regenerates from parser/grammar.y.  Core Lean only.
-/
namespace GPy.C06

/-- punctuation / operator tokens of parser/lexer.go `operators` -/
inductive P
  | lpar | rpar | lsqb | rsqb | colon | comma | semi | plus | minus | star | slash | vbar | amper
  | less | greater | equal | dot | percent | lbrace | rbrace | circumflex | tilde | at
  | plingeq | perceq | andeq | starstar | stareq | pluseq | minuseq | minusgt | divdiv | diveq
  | ltlt | lteq | ltgt | eqeq | gteq | gtgt | hateq | pipeeq
  | starstareq | elipsis | divdiveq | ltlteq | gtgteq
  deriving DecidableEq, Repr, Inhabited

/-- reserved words of parser/lexer.go `tokens` -/
inductive K
  | false_ | none_ | true_ | and_ | as_ | assert_ | break_ | class_ | continue_ | def_ | del_ | elif_
  | else_ | except_ | finally_ | for_ | from_ | global_ | if_ | import_ | in_ | is_ | lambda_
  | nonlocal_ | not_ | or_ | pass_ | raise_ | return_ | try_ | while_ | with_ | yield_
  deriving DecidableEq, Repr, Inhabited

/-- value of a NUMBER token.  Floats are kept as the exact decimal `m · 10^e`
(normalised: `m` has no trailing zero, `m = 0 → e = 0`); the binary rounding is `strconv`'s. -/
inductive NumVal
  | int (n : Nat)
  | float (m : Nat) (e : Int)
  | imag (m : Nat) (e : Int)
  deriving DecidableEq, Repr, Inhabited

/-- value of a STRING token: code points of a str, or bytes -/
inductive StrVal
  | s (cps : List Nat)
  | b (bs : List Nat)
  deriving DecidableEq, Repr, Inhabited

inductive Mode | exec | eval | single
  deriving DecidableEq, Repr, Inhabited

inductive Tok
  | start (m : Mode)        -- FILE_INPUT / EVAL_INPUT / SINGLE_INPUT pseudo token
  | newline | indent | dedent | endmarker
  | name (s : String)
  | num (v : NumVal)
  | str (v : StrVal)
  | p (x : P)
  | k (w : K)
  deriving DecidableEq, Repr, Inhabited

inductive BinOp
  | add | sub | mult | div | modulo | pow | lshift | rshift | bitor | bitxor | bitand | floordiv
  deriving DecidableEq, Repr, Inhabited

inductive UnOp | invert | not | uadd | usub
  deriving DecidableEq, Repr, Inhabited

inductive BoolOp | and | or
  deriving DecidableEq, Repr, Inhabited

inductive CmpOp | eq | noteq | lt | lte | gt | gte | is | isnot | in_ | notin
  deriving DecidableEq, Repr, Inhabited

inductive Const | none | true | false
  deriving DecidableEq, Repr, Inhabited

/-- expressions of the modelled fragment (all in Load context) -/
inductive Expr
  | name (s : String)
  | num (v : NumVal)
  | str (v : StrVal)
  | const (c : Const)
  | ellipsis
  | bin (op : BinOp) (l r : Expr)
  | un (op : UnOp) (e : Expr)
  | bool (op : BoolOp) (vs : List Expr)
  | cmp (l : Expr) (rest : List (CmpOp × Expr))
  | ifexp (test body orelse : Expr)
  | lambda (ps : List String) (body : Expr)
  | call (f : Expr) (args : List Expr)
  | sub (v idx : Expr)
  | attr (v : Expr) (a : String)
  | tuple (es : List Expr)
  | list (es : List Expr)
  deriving Repr, Inhabited

/-- comparison operator spelled by one or two tokens -/
inductive CmpTok
  | one (t : Tok) | two (t u : Tok)
  deriving DecidableEq, Repr

/-- one level of the expression cascade `test … power` of parser/grammar.y -/
inductive Level
  /-- `X: Y | Y IF Y ELSE X | lambdef` -/
  | ternary
  /-- `X: Y | X tok Y` building an n-ary flattened BoolOp -/
  | nary (tok : K) (op : BoolOp)
  /-- `X: tok X | Y` (unary prefix operators) -/
  | pre (ops : List (Tok × UnOp))
  /-- `X: Y | X comp_op Y` building a Compare chain -/
  | chain (ops : List (CmpTok × CmpOp))
  /-- `X: Y | X tok Y` left-associative BinOp -/
  | left (ops : List (P × BinOp))
  /-- `power: atom trailers | atom trailers tok factor`; `rhs` = index of the level of the right operand -/
  | power (tok : P) (op : BinOp) (rhs : Nat)
  deriving DecidableEq, Repr

end GPy.C06
