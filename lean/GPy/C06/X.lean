/-
C06 enlarged expression grammar (round ext2).  The tree type `XE` covers the whole expression
grammar of Python 3.4: everything of `Expr` plus Subscript with Index / Slice / ExtSlice, calls with
keyword / `*` / `**` arguments, dict / set displays, the four comprehension kinds, lambda with the full
`varargslist`, `yield` / `yield from`, starred items.  `pAt … parseAtom` is a token-level parser written
rule by rule from parser/grammar.y (rules test … power driven by `Generated.table`, atom, trailer,
subscriptlist / subscripts / subscript / sliceop, arglist / arguments / argument, testlist_comp forms,
dictorsetmaker, comp_for / comp_if / comp_iter, lambdef / lambdef_nocond / varargslist, yield_expr,
star_expr, exprlist, testlist) INCLUDING the semantic actions (`tupleOrExpr`, the ExtSlice -> Index(Tuple)
rewriting of `trailer`, the lone-subscript-with-comma wrapping of `subscriptlist`, keyword checks of
`argument` / `arguments` / `arglist`, `setCtx` validity of comprehension targets, default-argument order,
bare `*`).  The LALR(1) decision "another item or optional_comma" after a comma is the one-token
lookahead `starts…`.  Total by fuel.  Core Lean only.
-/
import GPy.C06.Spec
namespace GPy.C06.X
open GPy.C06

/-! ## 1. trees -/

mutual
inductive XE
  | name (s : String)
  | num (v : NumVal)
  | str (v : StrVal)
  | const (c : Const)
  | ellipsis
  | bin (op : BinOp) (l r : XE)
  | un (op : UnOp) (e : XE)
  | bool (op : BoolOp) (vs : List XE)
  | cmp (l : XE) (rest : List (CmpOp × XE))
  | ifexp (test body orelse : XE)
  | lambda (ps : XParams) (body : XE)
  | call (f : XE) (args : List XE) (kws : List (String × XE)) (star kw : Option XE)
  | sub (v : XE) (s : XSlice)
  | attr (v : XE) (a : String)
  | tuple (es : List XE)
  | list (es : List XE)
  | set (es : List XE)
  | dict (kvs : List (XE × XE))
  | listcomp (elt : XE) (gens : List XComp)
  | setcomp (elt : XE) (gens : List XComp)
  | genexp (elt : XE) (gens : List XComp)
  | dictcomp (key value : XE) (gens : List XComp)
  | yield_ (v : Option XE)
  | yieldfrom (v : XE)
  | starred (e : XE)
inductive XSlice
  | index (e : XE)
  | slice (lo up st : Option XE)
  | ext (dims : List XSlice)
inductive XComp
  | mk (target iter : XE) (ifs : List XE)
/-- `ast.Arguments` without annotations; `kwdefaults` is parallel to `kwonly` -/
inductive XParams
  | mk (args : List String) (vararg : Option String) (kwonly : List String) (kwdefaults : List (Option XE))
       (kwarg : Option String) (defaults : List XE)
end

instance : Inhabited XE := ⟨.ellipsis⟩
instance : Inhabited XSlice := ⟨.slice none none none⟩
instance : Inhabited XComp := ⟨.mk .ellipsis .ellipsis []⟩
instance : Inhabited XParams := ⟨.mk [] none [] [] none []⟩

def noParams : XParams := .mk [] none [] [] none []

/-! ## 2. canonical S-expressions (format of harness/c06.go `c06Sexp`) -/

def brack (l : List String) : String := "[" ++ " ".intercalate l ++ "]"
def argSexp (s : String) : String := s!"(Arg {s} -)"
def optArgSexp : Option String → String
  | some s => argSexp s
  | none => "-"

mutual
/-- `c` is "" in Load context, " Store" / " Del" otherwise (printed on Name, Attribute, Subscript, Starred,
Tuple and List; Tuple / List / Starred pass it on to their elements, exactly like `setCtx`) -/
partial def sx (c : String) : XE → String
  | .name s => s!"(Name {s}{c})"
  | .num v => s!"(Num {v.sexp})"
  | .str (.s cps) => s!"(Str s{Spec.natList cps})"
  | .str (.b bs) => s!"(Bytes b{Spec.natList bs})"
  | .const .none => "(NameConstant None)"
  | .const .true => "(NameConstant True)"
  | .const .false => "(NameConstant False)"
  | .ellipsis => "(Ellipsis)"
  | .bin op l r => s!"(BinOp {sx "" l} {op.name} {sx "" r})"
  | .un op e => s!"(UnaryOp {op.name} {sx "" e})"
  | .bool op vs => s!"(BoolOp {op.name} {brack (vs.map (sx ""))})"
  | .cmp l rest => s!"(Compare {sx "" l} {brack (rest.map (·.1.name))} {brack (rest.map (fun p => sx "" p.2))})"
  | .ifexp t b o => s!"(IfExp {sx "" t} {sx "" b} {sx "" o})"
  | .lambda ps b => s!"(Lambda {sxParams ps} {sx "" b})"
  | .call f args kws st kw =>
    s!"(Call {sx "" f} {brack (args.map (sx ""))} {brack (kws.map (fun p => s!"(Keyword {p.1} {sx "" p.2})"))} {sxOpt st} {sxOpt kw})"
  | .sub v s => s!"(Subscript {sx "" v} {sxSlice s}{c})"
  | .attr v a => s!"(Attribute {sx "" v} {a}{c})"
  | .tuple es => s!"(Tuple {brack (es.map (sx c))}{c})"
  | .list es => s!"(List {brack (es.map (sx c))}{c})"
  | .set es => s!"(Set {brack (es.map (sx ""))})"
  | .dict kvs => s!"(Dict {brack (kvs.map (fun p => sx "" p.1))} {brack (kvs.map (fun p => sx "" p.2))})"
  | .listcomp e gs => s!"(ListComp {sx "" e} {brack (gs.map sxComp)})"
  | .setcomp e gs => s!"(SetComp {sx "" e} {brack (gs.map sxComp)})"
  | .genexp e gs => s!"(GeneratorExp {sx "" e} {brack (gs.map sxComp)})"
  | .dictcomp k v gs => s!"(DictComp {sx "" k} {sx "" v} {brack (gs.map sxComp)})"
  | .yield_ v => s!"(Yield {sxOpt v})"
  | .yieldfrom v => s!"(YieldFrom {sx "" v})"
  | .starred e => s!"(Starred {sx c e}{c})"
partial def sxOpt : Option XE → String
  | some e => sx "" e
  | none => "-"
partial def sxSlice : XSlice → String
  | .index e => s!"(Index {sx "" e})"
  | .slice lo up st => s!"(Slice {sxOpt lo} {sxOpt up} {sxOpt st})"
  | .ext ds => s!"(ExtSlice {brack (ds.map sxSlice)})"
partial def sxComp : XComp → String
  | .mk t i ifs => s!"(Comprehension {sx " Store" t} {sx "" i} {brack (ifs.map (sx ""))})"
partial def sxParams : XParams → String
  | .mk args va kwo kwd kw defs =>
    s!"(Arguments {brack (args.map argSexp)} {optArgSexp va} {brack (kwo.map argSexp)} {brack (kwd.map sxOpt)} {optArgSexp kw} {brack (defs.map (sx ""))})"
end

def sexp (e : XE) : String := sx "" e

/-! ## 3. the parser -/

abbrev R (α : Type) := Option (α × List Tok)

/-- the token can begin a `test` -/
def startsTest : List Tok → Bool
  | .name _ :: _ => true
  | .num _ :: _ => true
  | .str _ :: _ => true
  | .k .none_ :: _ => true
  | .k .true_ :: _ => true
  | .k .false_ :: _ => true
  | .k .lambda_ :: _ => true
  | .k .not_ :: _ => true
  | .p .lpar :: _ => true
  | .p .lsqb :: _ => true
  | .p .lbrace :: _ => true
  | .p .plus :: _ => true
  | .p .minus :: _ => true
  | .p .tilde :: _ => true
  | .p .elipsis :: _ => true
  | _ => false

def startsStar : List Tok → Bool
  | .p .star :: _ => true
  | ts => startsTest ts

/-- kinds of list items: `test`, `test_or_star_expr`, `expr_or_star_expr` -/
inductive IK | test | starTest | starExpr
  deriving DecidableEq, Repr

def IK.starts : IK → List Tok → Bool
  | .test => startsTest
  | _ => startsStar

/-- level of `or_test` / `expr` in the cascade table -/
def orTestLevel : Nat := 1
def exprLevel : Nat := 5

/-- `tupleOrExpr` -/
def tupleOrExpr (es : List XE) (tc : Bool) : XE :=
  match es, tc with
  | [e], false => e
  | _, _ => .tuple es

mutual
/-- what `setCtx(…, Store | Del)` accepts -/
def validTarget : XE → Bool
  | .name _ => true
  | .attr _ _ => true
  | .sub _ _ => true
  | .tuple es => !es.isEmpty && validTargets es
  | .list es => validTargets es
  | .starred e => validTarget e
  | _ => false
def validTargets : List XE → Bool
  | [] => true
  | e :: es => validTarget e && validTargets es
end

/-- `vfpdeftests1`: once a default was given every further positional parameter needs one -/
def okDefaults : List (String × Option XE) → Bool
  | [] => true
  | (_, some _) :: rest => rest.all (fun p => p.2.isSome)
  | (_, none) :: rest => okDefaults rest

def mkParams (pos : List (String × Option XE)) (va : Option String) (kws : List (String × Option XE)) (kw : Option String) : XParams :=
  .mk (pos.map (·.1)) va (kws.map (·.1)) (kws.map (·.2)) kw (pos.filterMap (·.2))

/-- the trailer action: an ExtSlice made only of Index items is an Index of a Tuple -/
def allIndex : List XSlice → Option (List XE)
  | [] => some []
  | .index e :: r => (allIndex r).map (e :: ·)
  | _ :: _ => none

def trailerSlice (s : XSlice) : XSlice :=
  match s with
  | .ext ds => match allIndex ds with
    | some es => .index (.tuple es)
    | none => s
  | _ => s

/-- `subscripts` then `subscriptlist`: one item stays itself unless a trailing comma follows -/
def subscriptList (items : List XSlice) (tc : Bool) : XSlice :=
  match items, tc with
  | [s], false => s
  | _, _ => .ext items

/-- `(',' item)* [',']` after a first item, generic in the item parser: the further items, whether a trailing
comma was seen, the rest.  After a comma the one-token lookahead `starts` decides between another item
and `optional_comma` (the LALR(1) decision of the generated parser). -/
def listLoop {α : Type} (item : List Tok → R α) (starts : List Tok → Bool) : Nat → List Tok → Option (List α × Bool × List Tok)
  | 0, _ => none
  | f + 1, ts =>
    match ts with
    | .p .comma :: r =>
      if starts r then
        match item r with
        | none => none
        | some (e, r1) =>
          match listLoop item starts f r1 with
          | some (es, tc, r2) => some (e :: es, tc, r2)
          | none => none
      else some ([], true, r)
    | _ => some ([], false, ts)

def startsSubscript (ts : List Tok) : Bool :=
  startsTest ts || (match ts with | .p .colon :: _ => true | _ => false)

/-- switches for repaired checks (all on = the code as it is now) -/
structure Cfg where
  /-- fix (this round): a generator expression argument must be parenthesised unless it is the sole argument
  (3.4 ast_for_call counts positional and keyword arguments only: `f(x for x in y, *s)` is legal) -/
  genexpSole : Bool := true
  deriving Repr, DecidableEq

structure Args where
  args : List XE := []
  kws : List (String × XE) := []
  star : Option XE := none
  kw : Option XE := none
  /-- number of unparenthesised generator-expression arguments -/
  gens : Nat := 0

def Args.count (a : Args) : Nat := a.args.length + a.kws.length

mutual
/-- parse at level `k` of the cascade table `T` (level 0 = `test`) -/
def pAt (cfg : Cfg) (T : List Level) : Nat → Nat → List Tok → R XE
  | 0, _, _ => none
  | n + 1, k, ts =>
    match T[k]? with
    | none => none
    | some .ternary =>
      match ts with
      | .k .lambda_ :: r =>
        match pParams cfg T n .colon r with
        | some (ps, r1) =>
          match pAt cfg T n k r1 with
          | some (b, r2) => some (.lambda ps b, r2)
          | none => none
        | none => none
      | _ =>
        match pAt cfg T n (k + 1) ts with
        | none => none
        | some (b, r1) =>
          match r1 with
          | .k .if_ :: r2 =>
            match pAt cfg T n (k + 1) r2 with
            | some (c, .k .else_ :: r4) =>
              match pAt cfg T n k r4 with
              | some (o, r5) => some (.ifexp c b o, r5)
              | none => none
            | _ => none
          | _ => some (b, r1)
    | some (.nary tok op) =>
      match pAt cfg T n (k + 1) ts with
      | none => none
      | some (a, r) =>
        match pLoop cfg T (matchKw tok) n (k + 1) r with
        | some (ps, r') => some (if ps.isEmpty then a else .bool op (a :: ps.map (·.2)), r')
        | none => none
    | some (.pre ops) =>
      match ts with
      | t :: r =>
        match ops.lookup t with
        | some u =>
          match pAt cfg T n k r with
          | some (e, r') => some (.un u e, r')
          | none => none
        | none => pAt cfg T n (k + 1) ts
      | [] => none
    | some (.chain ops) =>
      match pAt cfg T n (k + 1) ts with
      | none => none
      | some (a, r) =>
        match pLoop cfg T (matchCmp ops) n (k + 1) r with
        | some (ps, r') => some (if ps.isEmpty then a else .cmp a ps, r')
        | none => none
    | some (.left ops) =>
      match pAt cfg T n (k + 1) ts with
      | none => none
      | some (a, r) =>
        match pLoop cfg T (matchLeft ops) n (k + 1) r with
        | some (ps, r') => some (ps.foldl (fun acc p => .bin p.1 acc p.2) a, r')
        | none => none
    | some (.power tok op rhs) =>
      match pAtom cfg T n ts with
      | none => none
      | some (a, r) =>
        match pTrailers cfg T n a r with
        | none => none
        | some (a', r') =>
          match r' with
          | .p x :: r2 =>
            if x = tok then
              match pAt cfg T n rhs r2 with
              | some (b, r3) => some (.bin op a' b, r3)
              | none => none
            else some (a', r')
          | _ => some (a', r')

/-- `(op operand)*` with operands at level `k` -/
def pLoop {γ : Type} (cfg : Cfg) (T : List Level) (m : List Tok → Option (γ × List Tok)) : Nat → Nat → List Tok → Option (List (γ × XE) × List Tok)
  | 0, _, _ => none
  | n + 1, k, ts =>
    match m ts with
    | none => some ([], ts)
    | some (o, r) =>
      match pAt cfg T n k r with
      | none => none
      | some (b, r1) =>
        match pLoop cfg T m n k r1 with
        | some (ps, r2) => some ((o, b) :: ps, r2)
        | none => none

/-- `test_nocond: or_test | lambdef_nocond` -/
def pNoCond (cfg : Cfg) (T : List Level) : Nat → List Tok → R XE
  | 0, _ => none
  | n + 1, ts =>
    match ts with
    | .k .lambda_ :: r =>
      match pParams cfg T n .colon r with
      | some (ps, r1) =>
        match pNoCond cfg T n r1 with
        | some (b, r2) => some (.lambda ps b, r2)
        | none => none
      | none => none
    | _ => pAt cfg T n orTestLevel ts

/-- one list item of kind `kind` -/
def pItem (cfg : Cfg) (T : List Level) : Nat → IK → List Tok → R XE
  | 0, _, _ => none
  | n + 1, kind, ts =>
    match kind, ts with
    | .test, _ => pAt cfg T n 0 ts
    | .starTest, .p .star :: r =>
      match pAt cfg T n exprLevel r with
      | some (e, r') => some (.starred e, r')
      | none => none
    | .starTest, _ => pAt cfg T n 0 ts
    | .starExpr, .p .star :: r =>
      match pAt cfg T n exprLevel r with
      | some (e, r') => some (.starred e, r')
      | none => none
    | .starExpr, _ => pAt cfg T n exprLevel ts

/-- `(',' item)* [',']` after a first item -/
def pMore (cfg : Cfg) (T : List Level) : Nat → IK → List Tok → Option (List XE × Bool × List Tok)
  | 0, _, _ => none
  | n + 1, kind, ts => listLoop (pItem cfg T n kind) kind.starts (ts.length + 1) ts

/-- `item (',' item)* [',']` -/
def pItems (cfg : Cfg) (T : List Level) : Nat → IK → List Tok → Option (List XE × Bool × List Tok)
  | 0, _, _ => none
  | n + 1, kind, ts =>
    match pItem cfg T n kind ts with
    | none => none
    | some (e, r) =>
      match pMore cfg T n kind r with
      | some (es, tc, r') => some (e :: es, tc, r')
      | none => none

/-- `comp_for: FOR exprlist IN or_test [comp_iter]` -/
def pCompFor (cfg : Cfg) (T : List Level) : Nat → List Tok → R (List XComp)
  | 0, _ => none
  | n + 1, ts =>
    match ts with
    | .k .for_ :: r =>
      match pItems cfg T n .starExpr r with
      | some (es, tc, .k .in_ :: r1) =>
        let target := tupleOrExpr es tc
        if !validTarget target then none else
        match pAt cfg T n orTestLevel r1 with
        | none => none
        | some (it, r2) =>
          match pCompIter cfg T n r2 with
          | some ((ifs, more), r3) => some (.mk target it ifs :: more, r3)
          | none => none
      | _ => none
    | _ => none

/-- `[comp_iter]`: the conditions of the current clause and the further clauses -/
def pCompIter (cfg : Cfg) (T : List Level) : Nat → List Tok → R (List XE × List XComp)
  | 0, _ => none
  | n + 1, ts =>
    match ts with
    | .k .for_ :: _ =>
      match pCompFor cfg T n ts with
      | some (gs, r) => some (([], gs), r)
      | none => none
    | .k .if_ :: r =>
      match pNoCond cfg T n r with
      | none => none
      | some (c, r1) =>
        match pCompIter cfg T n r1 with
        | some ((ifs, more), r2) => some ((c :: ifs, more), r2)
        | none => none
    | _ => some (([], []), ts)

/-- `[test] [sliceop]` after the first ':' of a subscript -/
def pSliceRest (cfg : Cfg) (T : List Level) : Nat → Option XE → List Tok → R XSlice
  | 0, _, _ => none
  | n + 1, lo, ts =>
    let up : Option (Option XE × List Tok) :=
      if startsTest ts then
        match pAt cfg T n 0 ts with
        | some (u, r) => some (some u, r)
        | none => none
      else some (none, ts)
    match up with
    | none => none
    | some (u, r) =>
      match r with
      | .p .colon :: r1 =>
        if startsTest r1 then
          match pAt cfg T n 0 r1 with
          | some (s, r2) => some (.slice lo u (some s), r2)
          | none => none
        else some (.slice lo u none, r1)
      | _ => some (.slice lo u none, r)

/-- `subscript` -/
def pSubscript (cfg : Cfg) (T : List Level) : Nat → List Tok → R XSlice
  | 0, _ => none
  | n + 1, ts =>
    match ts with
    | .p .colon :: r => pSliceRest cfg T n none r
    | _ =>
      match pAt cfg T n 0 ts with
      | none => none
      | some (e, .p .colon :: r) => pSliceRest cfg T n (some e) r
      | some (e, r) => some (.index e, r)

/-- `(',' subscript)* [',']` -/
def pMoreSubs (cfg : Cfg) (T : List Level) : Nat → List Tok → Option (List XSlice × Bool × List Tok)
  | 0, _ => none
  | n + 1, ts => listLoop (pSubscript cfg T n) startsSubscript (ts.length + 1) ts

/-- `arglist` up to and including the closing parenthesis.  `st` = what was collected so far,
`phase` 0 = before `*`, 1 = after `*test` (`arguments2`) -/
def pArgs (cfg : Cfg) (T : List Level) : Nat → Nat → Args → List Tok → R Args
  | 0, _, _, _ => none
  | n + 1, phase, st, ts =>
    match ts with
    | .p .rpar :: r =>
      -- `arguments optional_comma`: only in phase 0 (after `*x` / `**x` no trailing comma in 3.4)
      if phase = 0 then some (st, r) else none
    | .p .star :: r =>
      if phase ≠ 0 then none else
      match pAt cfg T n 0 r with
      | none => none
      | some (e, r1) =>
        let st := { st with star := some e }
        match r1 with
        | .p .rpar :: r2 => some (st, r2)
        | .p .comma :: r2 => pArgs cfg T n 1 st r2
        | _ => none
    | .p .starstar :: r =>
      match pAt cfg T n 0 r with
      | some (e, .p .rpar :: r2) => some ({ st with kw := some e }, r2)
      | _ => none
    | _ =>
      match pAt cfg T n 0 ts with
      | none => none
      | some (e, r1) =>
        let arg : Option (Args × List Tok) :=
          match r1 with
          | .k .for_ :: _ =>
            match pCompFor cfg T n r1 with
            | some (gs, r2) =>
              if !st.kws.isEmpty || phase = 1 then none     -- positional after keyword / after *x
              else some ({ st with args := st.args ++ [.genexp e gs], gens := st.gens + 1 }, r2)
            | none => none
          | .p .equal :: r2 =>
            match e with
            | .name s =>
              match pAt cfg T n 0 r2 with
              | some (v, r3) => some ({ st with kws := st.kws ++ [(s, v)] }, r3)
              | none => none
            | _ => none                                     -- keyword can't be an expression
          | _ =>
            if !st.kws.isEmpty || phase = 1 then none       -- non-keyword arg after keyword arg / after *x
            else some ({ st with args := st.args ++ [e] }, r1)
        match arg with
        | none => none
        | some (st, r2) =>
          match r2 with
          | .p .rpar :: r3 => some (st, r3)
          | .p .comma :: r3 =>
            match r3 with
            | .p .rpar :: r4 => if phase = 0 then some (st, r4) else none
            | _ => pArgs cfg T n phase st r3
          | _ => none

/-- `trailers` -/
def pTrailers (cfg : Cfg) (T : List Level) : Nat → XE → List Tok → R XE
  | 0, _, _ => none
  | n + 1, a, ts =>
    match ts with
    | .p .lpar :: r =>
      match pArgs cfg T n 0 {} r with
      | some (st, r') =>
        if cfg.genexpSole && st.gens > 0 && st.count > 1 then none
        else pTrailers cfg T n (.call a st.args st.kws st.star st.kw) r'
      | none => none
    | .p .lsqb :: r =>
      match pSubscript cfg T n r with
      | none => none
      | some (s, r1) =>
        match pMoreSubs cfg T n r1 with
        | some (ss, tc, .p .rsqb :: r2) => pTrailers cfg T n (.sub a (trailerSlice (subscriptList (s :: ss) tc))) r2
        | _ => none
    | .p .dot :: .name s :: r => pTrailers cfg T n (.attr a s) r
    | _ => some (a, ts)

/-- `NAME ['=' test]` -/
def pParam (cfg : Cfg) (T : List Level) : Nat → List Tok → R (String × Option XE)
  | 0, _ => none
  | n + 1, ts =>
    match ts with
    | .name s :: .p .equal :: r =>
      match pAt cfg T n 0 r with
      | some (d, r') => some ((s, some d), r')
      | none => none
    | .name s :: r => some ((s, none), r)
    | _ => none

/-- `(',' param)*`, stopping before a comma that is not followed by a NAME -/
def pMoreParams (cfg : Cfg) (T : List Level) : Nat → List Tok → R (List (String × Option XE))
  | 0, _ => none
  | n + 1, ts =>
    match ts with
    | .p .comma :: .name s :: r =>
      match pParam cfg T n (.name s :: r) with
      | none => none
      | some (p, r1) =>
        match pMoreParams cfg T n r1 with
        | some (ps, r2) => some (p :: ps, r2)
        | none => none
    | _ => some ([], ts)

/-- `[varargslist] close` (lambda: close = ':'; no annotations) -/
def pParams (cfg : Cfg) (T : List Level) : Nat → P → List Tok → R XParams
  | 0, _, _ => none
  | n + 1, close, ts =>
    -- positional part
    let pos : Option (List (String × Option XE) × List Tok) :=
      match ts with
      | .name _ :: _ =>
        match pParam cfg T n ts with
        | none => none
        | some (p, r) =>
          match pMoreParams cfg T n r with
          | some (ps, r1) => some (p :: ps, r1)
          | none => none
      | _ => some ([], ts)
    match pos with
    | none => none
    | some (ps, r) =>
      if !okDefaults ps then none else
      -- what follows the positional part
      let r' : Option (List Tok) :=
        if ps.isEmpty then some r else
        match r with
        | .p .comma :: r1 => some r1
        | .p x :: _ => if x = close then some r else none
        | _ => none
      match r' with
      | none => none
      | some r1 =>
        match r1 with
        | .p .star :: r2 =>
          let (va, r3) : Option String × List Tok := match r2 with
            | .name s :: r3 => (some s, r3)
            | _ => (none, r2)
          match pMoreParams cfg T n r3 with
          | none => none
          | some (kws, r4) =>
            if va.isNone && kws.isEmpty then none else      -- named arguments must follow bare *
            match r4 with
            | .p .comma :: .p .starstar :: .name s :: .p x :: r5 =>
              if x = close then some (mkParams ps va kws (some s), r5) else none
            | .p x :: r5 => if x = close then some (mkParams ps va kws none, r5) else none
            | _ => none
        | .p .starstar :: .name s :: .p x :: r5 =>
          if x = close then some (mkParams ps none [] (some s), r5) else none
        | .p x :: r5 => if x = close then some (mkParams ps none [] none, r5) else none
        | _ => none

/-- `test ':' test` -/
def pPair (cfg : Cfg) (T : List Level) : Nat → List Tok → R (XE × XE)
  | 0, _ => none
  | n + 1, ts =>
    match pAt cfg T n 0 ts with
    | some (k, .p .colon :: r1) =>
      match pAt cfg T n 0 r1 with
      | some (v, r2) => some ((k, v), r2)
      | none => none
    | _ => none

/-- `(',' test ':' test)* [',']` -/
def pPairs (cfg : Cfg) (T : List Level) : Nat → List Tok → Option (List (XE × XE) × Bool × List Tok)
  | 0, _ => none
  | n + 1, ts => listLoop (pPair cfg T n) startsTest (ts.length + 1) ts

/-- `yield_expr` -/
def pYield (cfg : Cfg) (T : List Level) : Nat → List Tok → R XE
  | 0, _ => none
  | n + 1, ts =>
    match ts with
    | .k .yield_ :: .k .from_ :: r =>
      match pAt cfg T n 0 r with
      | some (e, r') => some (.yieldfrom e, r')
      | none => none
    | .k .yield_ :: r =>
      if startsTest r then
        match pItems cfg T n .test r with
        | some (es, tc, r') => some (.yield_ (some (tupleOrExpr es tc)), r')
        | none => none
      else some (.yield_ none, r)
    | _ => none

/-- `atom` -/
def pAtom (cfg : Cfg) (T : List Level) : Nat → List Tok → R XE
  | 0, _ => none
  | n + 1, ts =>
    match ts with
    | .name s :: r => some (.name s, r)
    | .num v :: r => some (.num v, r)
    | .str v :: r =>
      match gatherStr v r with
      | some (v', r') => some (.str v', r')
      | none => none
    | .k .none_ :: r => some (.const .none, r)
    | .k .true_ :: r => some (.const .true, r)
    | .k .false_ :: r => some (.const .false, r)
    | .p .elipsis :: r => some (.ellipsis, r)
    | .p .lpar :: .p .rpar :: r => some (.tuple [], r)
    | .p .lpar :: .k .yield_ :: r =>
      match pYield cfg T n (.k .yield_ :: r) with
      | some (y, .p .rpar :: r') => some (y, r')
      | _ => none
    | .p .lpar :: r =>
      match pItem cfg T n .starTest r with
      | none => none
      | some (e, r1) =>
        match r1 with
        | .k .for_ :: _ =>
          match pCompFor cfg T n r1 with
          | some (gs, .p .rpar :: r2) => some (.genexp e gs, r2)
          | _ => none
        | _ =>
          match pMore cfg T n .starTest r1 with
          | some (es, tc, .p .rpar :: r2) => some (tupleOrExpr (e :: es) tc, r2)
          | _ => none
    | .p .lsqb :: .p .rsqb :: r => some (.list [], r)
    | .p .lsqb :: r =>
      match pItem cfg T n .starTest r with
      | none => none
      | some (e, r1) =>
        match r1 with
        | .k .for_ :: _ =>
          match pCompFor cfg T n r1 with
          | some (gs, .p .rsqb :: r2) => some (.listcomp e gs, r2)
          | _ => none
        | _ =>
          match pMore cfg T n .starTest r1 with
          | some (es, _, .p .rsqb :: r2) => some (.list (e :: es), r2)
          | _ => none
    | .p .lbrace :: .p .rbrace :: r => some (.dict [], r)
    | .p .lbrace :: r =>
      match pAt cfg T n 0 r with
      | none => none
      | some (e, r1) =>
        match r1 with
        | .p .colon :: r2 =>
          match pAt cfg T n 0 r2 with
          | none => none
          | some (v, r3) =>
            match r3 with
            | .k .for_ :: _ =>
              match pCompFor cfg T n r3 with
              | some (gs, .p .rbrace :: r4) => some (.dictcomp e v gs, r4)
              | _ => none
            | _ =>
              match pPairs cfg T n r3 with
              | some (kvs, _, .p .rbrace :: r4) => some (.dict ((e, v) :: kvs), r4)
              | _ => none
        | .k .for_ :: _ =>
          match pCompFor cfg T n r1 with
          | some (gs, .p .rbrace :: r2) => some (.setcomp e gs, r2)
          | _ => none
        | _ =>
          match pMore cfg T n .test r1 with
          | some (es, _, .p .rbrace :: r2) => some (.set (e :: es), r2)
          | _ => none
    | _ => none
end

def fuelOf (ts : List Tok) : Nat := 16 * ts.length + 32

/-- `test` -/
def pTest (cfg : Cfg) (ts : List Tok) : R XE := pAt cfg Generated.table (fuelOf ts) 0 ts

/-- `testlist: tests optional_comma` -/
def pTestlist (cfg : Cfg) (ts : List Tok) : R XE :=
  match pItems cfg Generated.table (fuelOf ts) .test ts with
  | some (es, tc, r) => some (tupleOrExpr es tc, r)
  | none => none

/-- `testlist_star_expr: test_or_star_exprs optional_comma` -/
def pTestlistStar (cfg : Cfg) (ts : List Tok) : R XE :=
  match pItems cfg Generated.table (fuelOf ts) .starTest ts with
  | some (es, tc, r) => some (tupleOrExpr es tc, r)
  | none => none

/-- `exprlist` as the (elements, trailing comma) pair -/
def pExprlist (cfg : Cfg) (ts : List Tok) : Option (List XE × Bool × List Tok) :=
  pItems cfg Generated.table (fuelOf ts) .starExpr ts

def skipNewlines : List Tok → List Tok
  | .newline :: r => skipNewlines r
  | ts => ts

/-- `eval_input: testlist NEWLINE* ENDMARKER` -/
def parseEvalToksWith (cfg : Cfg) (ts : List Tok) : Option XE :=
  match ts with
  | .start .eval :: r =>
    match pTestlist cfg r with
    | some (e, r') => if skipNewlines r' == [.endmarker] then some e else none
    | none => none
  | _ => none

inductive Out
  | ok (e : XE)
  | syntaxError
  | outOfFuel

def parseEvalStringWith (cfg : Cfg) (text : List Char) : Out :=
  match lexString text .eval with
  | .outOfFuel => .outOfFuel
  | .syntaxError => .syntaxError
  | .ok ts =>
    match parseEvalToksWith cfg ts with
    | some e => .ok e
    | none => .syntaxError

def parseEvalString (text : List Char) : Out := parseEvalStringWith {} text

def Out.v : Out → String
  | .ok e => sexp e
  | .syntaxError => "E:SyntaxError"
  | .outOfFuel => "MODEL-OUT-OF-FUEL"

end GPy.C06.X
