/-
C06 generator for the enlarged grammar (round ext2):
 (xlist)  EVERY comma-separated list of the 3.4 grammar with 0 / 1 / 2 / 3 items, with and without a
          trailing comma, expected result (tree or SyntaxError) stated by the reference rules below;
 (xsub)   all subscript lists of ≤ 2 items over index + the 8 slice presence patterns (+ `a:b:` spellings);
 (xctx)   every one-hole context of the new constructors × fillers, in 3 layouts (depth ≤ 2 exhaustively);
 (xrand)  seeded deeper trees × layouts;
 (xmut)   single-token deletions of renderings: SyntaxError or exactly the tree the Lean grammar assigns.
`C06_ESCALATE` (set by checks/c06.py when the shape or the action of a modelled grammar rule changed)
multiplies the generation for the named nonterminals.
-/
import GPy.C06.XSpec
import GPy.C06.Gen
import GPy.C06.Stmt
namespace GPy.C06.X
open GPy GPy.C06 Spec

def nm (s : String) : XE := .name s
def names : List String := ["a", "b", "c", "d", "e", "g", "h", "i"]
def nth (i : Nat) : XE := nm (names[i % 8]!)

def xCase (e : XE) (ℓ : Layout) (r : Rng) (style : Nat) (tags : List String) : Rng × Case :=
  let (r, text) := toksText r style (render ℓ e)
  let text := text.toList
  (r, { input := "ev " ++ enc text, modelV := (parseEvalString text).v, specV := sexp e, tags := tags })

/-- a token list with an explicit expected result (`none` = SyntaxError), eval mode -/
def tokCaseEv (ts : List Tok) (spec : Option XE) (r : Rng) (style : Nat) (tags : List String) : Rng × Case :=
  let (r, text) := toksText r style ts
  let text := text.toList
  (r, { input := "ev " ++ enc text, modelV := (parseEvalString text).v,
        specV := match spec with | some e => sexp e | none => "E:SyntaxError", tags := tags })

/-- a statement text with an explicit expected Module body (`none` = SyntaxError); the model side is the
statement grammar of Stmt.lean (all these texts are inside its fragment) -/
def textCaseEx (text : String) (spec : Option String) (tags : List String) : Case :=
  { input := "ex " ++ enc text.toList, modelV := fileOutV (parseFileString text.toList),
    specV := spec.getD "E:SyntaxError", tags := tags }

def commaSep (items : List (List Tok)) (tc : Bool) : List Tok := sepBy comma items ++ (if tc then [comma] else [])

/-! ### reference rules for the lists (Grammar/Grammar + ast.c of 3.4) -/

/-- `'[' subscriptlist ']'` (ast_for_slice / ast_for_trailer): no item → error; one item without comma → itself;
all items plain → Index(Tuple); otherwise ExtSlice -/
def specSubscript (items : List XSlice) (tc : Bool) : Option XSlice :=
  if items.isEmpty then none else
  match allIndex items with
  | some es => some (.index (match es, tc with | [e], false => e | _, _ => .tuple es))
  | none => some (match items, tc with | [s], false => s | _, _ => .ext items)

/-- `testlist`-like: no item → error; one item without comma → itself; else Tuple -/
def specTuple (items : List XE) (tc : Bool) : Option XE :=
  match items, tc with
  | [], _ => none
  | [e], false => some e
  | _, _ => some (.tuple items)

/-- a display / call whose trailing comma is irrelevant; a lone comma is an error -/
def specPlain (mk : List XE → XE) (items : List XE) (tc : Bool) : Option XE :=
  if items.isEmpty && tc then none else some (mk items)

def sliceToks : XSlice → List (List Tok)
  | .index e => [render (mkLayout 0 0) e]
  | .slice lo up st =>
    let o : Option XE → List Tok := fun x => match x with | some e => render (mkLayout 0 0) e | none => []
    match st with
    | some s => [o lo ++ [.p .colon] ++ o up ++ [.p .colon] ++ render (mkLayout 0 0) s]
    | none => [o lo ++ [.p .colon] ++ o up, o lo ++ [.p .colon] ++ o up ++ [.p .colon]]
  | .ext _ => []

/-- index + the 8 presence patterns of lower / upper / step -/
def subItems : List XSlice :=
  [.index (nm "a")] ++
    [none, some (nm "b")].flatMap (fun lo => [none, some (nm "c")].flatMap (fun up => [none, some (nm "d")].map (fun st => XSlice.slice lo up st)))

def emitAll (cs : List Case) : IO Unit := do
  for c in cs do emit c

def genSubscripts (seed : Nat) (boost : Nat) : IO Unit := do
  let mut r : Rng := ⟨(seed + 8100).toUInt64⟩
  let x := nm "x"
  let mk (items : List XSlice) (tc : Bool) : Option XE := (specSubscript items tc).map (.sub x ·)
  -- 0 items
  for tc in [false, true] do
    let (r1, c) := tokCaseEv ([.name "x", .p .lsqb] ++ commaSep [] tc ++ [.p .rsqb]) (mk [] tc) r 0 ["nt", "xsub"]
    r := r1; emit c
  -- 1 and 2 items exhaustively (every spelling of each item), 3 items: all index/slice mixtures over 3 representatives
  let lists1 := subItems.map (fun a => [a])
  let lists2 := subItems.flatMap (fun a => subItems.map (fun b => [a, b]))
  let reps : List XSlice := [.index (nm "a"), .slice (some (nm "b")) (some (nm "c")) none, .slice none none (some (nm "d"))]
  let lists3 := reps.flatMap (fun a => reps.flatMap (fun b => reps.map (fun c => [a, b, c])))
  for items in lists1 ++ lists2 ++ lists3 do
    -- all combinations of item spellings
    let spellings : List (List (List Tok)) := items.foldr (fun it acc => (sliceToks it).flatMap (fun s => acc.map (fun rest => s :: rest))) [[]]
    for sp in spellings do
      for tc in [false, true] do
        for style in (if boost > 1 then [0, 1, 1, 1] else [0, 1]) do
          let (r1, c) := tokCaseEv ([.name "x", .p .lsqb] ++ commaSep sp tc ++ [.p .rsqb]) (mk items tc) r style ["nt", "xsub"]
          r := r1; emit c

/-- list kinds in expression position: name, opening tokens, closing tokens, reference result -/
def genExprLists (seed : Nat) : IO Unit := do
  let mut r : Rng := ⟨(seed + 8200).toUInt64⟩
  let f := nm "f"
  let kinds : List (String × List Tok × List Tok × (List XE → Bool → Option XE)) := [
    ("subscriptlist", [.name "x", .p .lsqb], [.p .rsqb], fun es tc => (specSubscript (es.map .index) tc).map (.sub (nm "x") ·)),
    ("tuple", [.p .lpar], [.p .rpar], fun es tc => match es, tc with | [], false => some (.tuple []) | _, _ => specTuple es tc),
    ("list", [.p .lsqb], [.p .rsqb], specPlain .list),
    ("set", [.p .lbrace], [.p .rbrace], fun es tc => if es.isEmpty then (if tc then none else some (.dict [])) else some (.set es)),
    ("arglist", [.name "f", .p .lpar], [.p .rpar], specPlain (fun es => .call f es [] none none)),
    ("testlist", [], [], specTuple),
    ("yield-testlist", [.p .lpar, .k .yield_], [.p .rpar], fun es tc => match es, tc with
      | [], false => some (.yield_ none) | [], true => none | _, _ => (specTuple es tc).map (fun v => .yield_ (some v))),
    ("comp-exprlist", [.p .lsqb, .num (.int 0), .k .for_], [.k .in_, .name "x", .p .rsqb],
      fun es tc => (specTuple es tc).map (fun t => .listcomp (.num (.int 0)) [.mk t (nm "x") []])),
    ("lambda-varargslist", [.k .lambda_], [.p .colon, .num (.int 0)],
      fun es tc => if es.isEmpty && tc then none else
        some (.lambda (.mk (es.map (fun e => match e with | .name s => s | _ => "?")) none [] [] none []) (.num (.int 0))))
  ]
  for (kname, op, cl, spec) in kinds do
    for n in [0, 1, 2, 3] do
      let es := (List.range n).map nth
      for tc in [false, true] do
        for style in [0, 1] do
          let (r1, c) := tokCaseEv (op ++ commaSep (es.map (fun e => render (mkLayout 0 0) e)) tc ++ cl) (spec es tc) r style ["nt", "xlist", kname]
          r := r1; emit c
  -- dict displays
  for n in [0, 1, 2, 3] do
    let kvs := (List.range n).map (fun i => (nth i, XE.num (.int i)))
    for tc in [false, true] do
      for style in [0, 1] do
        let items := kvs.map (fun kv => [Tok.name (match kv.1 with | .name s => s | _ => "?"), .p .colon] ++ render (mkLayout 0 0) kv.2)
        let (r1, c) := tokCaseEv ([.p .lbrace] ++ commaSep items tc ++ [.p .rbrace]) (if n = 0 && tc then none else some (.dict kvs)) r style ["nt", "xlist", "dictmaker"]
        r := r1; emit c
  -- arglist with keyword / * / ** tails: where 3.4 allows a trailing comma and where not
  let one := XE.num (.int 1)
  let argForms : List (List (List Tok) × Bool × XE) := [
    -- (items, trailing comma allowed, tree)
    ([[.name "k", .p .equal, .num (.int 1)]], true, .call f [] [("k", one)] none none),
    ([[.name "a"], [.name "k", .p .equal, .num (.int 1)]], true, .call f [nm "a"] [("k", one)] none none),
    ([[.name "a"], [.name "k", .p .equal, .num (.int 1)], [.name "m", .p .equal, .name "b"]], true, .call f [nm "a"] [("k", one), ("m", nm "b")] none none),
    ([[.p .star, .name "s"]], false, .call f [] [] (some (nm "s")) none),
    ([[.name "a"], [.p .star, .name "s"]], false, .call f [nm "a"] [] (some (nm "s")) none),
    ([[.name "a"], [.name "k", .p .equal, .num (.int 1)], [.p .star, .name "s"]], false, .call f [nm "a"] [("k", one)] (some (nm "s")) none),
    ([[.p .star, .name "s"], [.name "k", .p .equal, .num (.int 1)]], false, .call f [] [("k", one)] (some (nm "s")) none),
    ([[.p .starstar, .name "w"]], false, .call f [] [] none (some (nm "w"))),
    ([[.name "a"], [.p .starstar, .name "w"]], false, .call f [nm "a"] [] none (some (nm "w"))),
    ([[.name "k", .p .equal, .num (.int 1)], [.p .starstar, .name "w"]], false, .call f [] [("k", one)] none (some (nm "w"))),
    ([[.p .star, .name "s"], [.p .starstar, .name "w"]], false, .call f [] [] (some (nm "s")) (some (nm "w"))),
    ([[.name "a"], [.p .star, .name "s"], [.name "k", .p .equal, .num (.int 1)], [.p .starstar, .name "w"]], false, .call f [nm "a"] [("k", one)] (some (nm "s")) (some (nm "w"))),
    ([[.name "a", .k .for_, .name "a", .k .in_, .name "b"]], true, .call f [.genexp (nm "a") [.mk (nm "a") (nm "b") []]] [] none none),
    -- 3.4 ast_for_call counts only positional and keyword arguments against a bare generator expression
    ([[.name "a", .k .for_, .name "a", .k .in_, .name "b"], [.p .star, .name "s"]], false, .call f [.genexp (nm "a") [.mk (nm "a") (nm "b") []]] [] (some (nm "s")) none),
    ([[.name "a", .k .for_, .name "a", .k .in_, .name "b"], [.p .starstar, .name "w"]], false, .call f [.genexp (nm "a") [.mk (nm "a") (nm "b") []]] [] none (some (nm "w")))
  ]
  for (items, tcOk, tree) in argForms do
    for tc in [false, true] do
      for style in [0, 1] do
        let (r1, c) := tokCaseEv ([.name "f", .p .lpar] ++ commaSep items tc ++ [.p .rpar]) (if tc && !tcOk then none else some tree) r style ["nt", "xlist", "arglist-kw"]
        r := r1; emit c
  -- illegal argument orders
  for items in ([ [[.name "k", .p .equal, .num (.int 1)], [.name "a"]], [[.p .star, .name "s"], [.name "a"]], [[.p .starstar, .name "w"], [.name "a"]],
                  [[.p .starstar, .name "w"], [.p .star, .name "s"]], [[.p .star, .name "s"], [.p .star, .name "t"]],
                  [[.name "a", .p .plus, .name "b", .p .equal, .num (.int 1)]], [[.p .starstar, .name "w"], [.name "k", .p .equal, .num (.int 1)]],
                  [[.name "a", .k .for_, .name "a", .k .in_, .name "b"], [.name "c"]], [[.name "c"], [.name "a", .k .for_, .name "a", .k .in_, .name "b"]],
                  [[.name "a", .k .for_, .name "a", .k .in_, .name "b"], [.name "k", .p .equal, .num (.int 1)]],
                  [[.name "a", .k .for_, .name "a", .k .in_, .name "b"], [.p .star, .name "s"], [.name "k", .p .equal, .num (.int 1)]],
                  [[.name "a", .k .for_, .name "a", .k .in_, .name "b"], [.name "a", .k .for_, .name "a", .k .in_, .name "b"]] ] : List (List (List Tok))) do
    let (r1, c) := tokCaseEv ([.name "f", .p .lpar] ++ commaSep items false ++ [.p .rpar]) none r 0 ["nt", "xlist", "arglist-illegal"]
    r := r1; emit c
  -- lambda parameter lists (varargslist): trailing comma only after plain / defaulted parameters
  let zero := XE.num (.int 0)
  let lamForms : List (List (List Tok) × Bool × XParams) := [
    ([[.name "a", .p .equal, .num (.int 1)]], true, .mk ["a"] none [] [] none [one]),
    ([[.name "a"], [.name "b", .p .equal, .num (.int 1)]], true, .mk ["a", "b"] none [] [] none [one]),
    ([[.p .star, .name "s"]], false, .mk [] (some "s") [] [] none []),
    ([[.name "a"], [.p .star, .name "s"]], false, .mk ["a"] (some "s") [] [] none []),
    ([[.p .star], [.name "k"]], false, .mk [] none ["k"] [none] none []),
    ([[.p .star, .name "s"], [.name "k"], [.name "m", .p .equal, .num (.int 1)]], false, .mk [] (some "s") ["k", "m"] [none, some one] none []),
    ([[.p .starstar, .name "w"]], false, .mk [] none [] [] (some "w") []),
    ([[.name "a"], [.p .starstar, .name "w"]], false, .mk ["a"] none [] [] (some "w") []),
    ([[.name "a"], [.p .star, .name "s"], [.name "k"], [.p .starstar, .name "w"]], false, .mk ["a"] (some "s") ["k"] [none] (some "w") [])
  ]
  for (items, tcOk, ps) in lamForms do
    for tc in [false, true] do
      for style in [0, 1] do
        let (r1, c) := tokCaseEv ([.k .lambda_] ++ commaSep items tc ++ [.p .colon, .num (.int 0)]) (if tc && !tcOk then none else some (.lambda ps zero)) r style ["nt", "xlist", "varargslist"]
        r := r1; emit c
  for items in ([ [[.p .star]], [[.name "a", .p .equal, .num (.int 1)], [.name "b"]], [[.p .starstar, .name "w"], [.name "a"]], [[.p .star, .name "s"], [.p .star, .name "t"]],
                  [[.p .star], [.p .starstar, .name "w"]] ] : List (List (List Tok))) do
    let (r1, c) := tokCaseEv ([.k .lambda_] ++ commaSep items false ++ [.p .colon, .num (.int 0)]) none r 0 ["nt", "xlist", "varargslist-illegal"]
    r := r1; emit c

/-- statement-level lists: each line is `(text, expected Module body or none)`; `L n tc` renders n names -/
def nameList (n : Nat) (tc : Bool) : String := ", ".intercalate ((List.range n).map (fun i => names[i % 8]!)) ++ (if tc then "," else "")

def nmS (c : String) (i : Nat) : String := s!"(Name {names[i % 8]!}{c})"
def tupS (c : String) (n : Nat) (tc : Bool) : Option String :=
  match n, tc with
  | 0, _ => none
  | 1, false => some (nmS c 0)
  | _, _ => some s!"(Tuple {brack ((List.range n).map (nmS c))}{c})"

def genStmtLists : IO Unit := do
  for n in [0, 1, 2, 3] do
    for tc in [false, true] do
      let L := nameList n tc
      let tags := ["nt", "xlist", "stmt"]
      let some? (b : Bool) (s : String) : Option String := if b then some s else none
      let plainNames := brack ((List.range n).map (fun i => names[i % 8]!))
      let loads := brack ((List.range n).map (nmS ""))
      let args := brack ((List.range n).map (fun i => s!"(Arg {names[i % 8]!} -)"))
      let okPlain := !(n = 0 && tc)
      emitAll [
        -- testlist_star_expr as a target and as a value
        textCaseEx s!"{L} = x\n" ((tupS " Store" n tc).map (fun t => s!"[(Assign [{t}] (Name x))]")) tags,
        textCaseEx s!"x = {L}\n" ((tupS "" n tc).map (fun t => s!"[(Assign [(Name x Store)] {t})]")) tags,
        textCaseEx s!"x = y = {L}\n" ((tupS "" n tc).map (fun t => s!"[(Assign [(Name x Store) (Name y Store)] {t})]")) tags,
        textCaseEx s!"{L}\n" (if n = 0 && !tc then some "[]" else (tupS "" n tc).map (fun t => s!"[(ExprStmt {t})]")) tags,
        textCaseEx s!"x += {L}\n" ((tupS "" n tc).map (fun t => s!"[(AugAssign (Name x Store) Add {t})]")) tags,
        -- testlist: return, for-in right side
        textCaseEx s!"def f():\n return {L}\n" (if n = 0 && !tc then some "[(FunctionDef f (Arguments [] - [] [] - []) [(Return -)] [] -)]" else
          (tupS "" n tc).map (fun t => s!"[(FunctionDef f (Arguments [] - [] [] - []) [(Return {t})] [] -)]")) tags,
        textCaseEx s!"for x in {L}: pass\n" ((tupS "" n tc).map (fun t => s!"[(For (Name x Store) {t} [(Pass)] [])]")) tags,
        -- exprlist: for targets, del
        textCaseEx s!"for {L} in x: pass\n" ((tupS " Store" n tc).map (fun t => s!"[(For {t} (Name x) [(Pass)] [])]")) tags,
        textCaseEx s!"del {L}\n" (some? (n > 0) s!"[(Delete {brack ((List.range n).map (nmS " Del"))})]") tags,
        textCaseEx s!"del ({L})\n" (match n, tc with
          | 0, _ => none
          | 1, false => some s!"[(Delete [{nmS " Del" 0}])]"
          | _, _ => some s!"[(Delete [(Tuple {brack ((List.range n).map (nmS " Del"))} Del)])]") tags,
        -- names without a trailing comma: global / nonlocal / import / with items
        textCaseEx s!"global {L}\n" (some? (n > 0 && !tc) s!"[(Global {plainNames})]") tags,
        textCaseEx s!"def f():\n nonlocal {L}\n" (some? (n > 0 && !tc) s!"[(FunctionDef f (Arguments [] - [] [] - []) [(Nonlocal {plainNames})] [] -)]") tags,
        textCaseEx s!"import {L}\n" (some? (n > 0 && !tc) s!"[(Import {brack ((List.range n).map (fun i => s!"(Alias {names[i % 8]!} \"\")"))})]") tags,
        textCaseEx s!"from m import {L}\n" (some? (n > 0 && !tc) s!"[(ImportFrom m {brack ((List.range n).map (fun i => s!"(Alias {names[i % 8]!} \"\")"))} 0)]") tags,
        textCaseEx s!"from m import ({L})\n" (some? (n > 0) s!"[(ImportFrom m {brack ((List.range n).map (fun i => s!"(Alias {names[i % 8]!} \"\")"))} 0)]") tags,
        textCaseEx s!"with {L}: pass\n" (some? (n > 0 && !tc) s!"[(With {brack ((List.range n).map (fun i => s!"(WithItem {nmS "" i} -)"))} [(Pass)])]") tags,
        -- parameter lists, class bases, decorator arguments
        textCaseEx s!"def f({L}): pass\n" (some? okPlain s!"[(FunctionDef f (Arguments {args} - [] [] - []) [(Pass)] [] -)]") tags,
        textCaseEx s!"class C({L}): pass\n" (some? okPlain s!"[(ClassDef C {loads} [] - - [(Pass)] [])]") tags,
        textCaseEx s!"@d({L})\ndef f(): pass\n" (some? okPlain s!"[(FunctionDef f (Arguments [] - [] [] - []) [(Pass)] [(Call (Name d) {loads} [] - -)] -)]") tags,
        -- assert / raise take fixed items, never a trailing comma
        textCaseEx s!"assert {L}\n" (match n, tc with
          | 1, false => some "[(Assert (Name a) -)]" | 2, false => some "[(Assert (Name a) (Name b))]" | _, _ => none) tags
      ]
  -- def parameter lists: trailing comma only after plain / defaulted parameters
  for (ps, tcOk, tree) in ([
      ("a=1", true, "(Arguments [(Arg a -)] - [] [] - [(Num 1)])"),
      ("a, b=1", true, "(Arguments [(Arg a -) (Arg b -)] - [] [] - [(Num 1)])"),
      ("*s", false, "(Arguments [] (Arg s -) [] [] - [])"),
      ("a, *s", false, "(Arguments [(Arg a -)] (Arg s -) [] [] - [])"),
      ("*, k", false, "(Arguments [] - [(Arg k -)] [-] - [])"),
      ("*s, k, m=1", false, "(Arguments [] (Arg s -) [(Arg k -) (Arg m -)] [- (Num 1)] - [])"),
      ("**w", false, "(Arguments [] - [] [] (Arg w -) [])"),
      ("a, **w", false, "(Arguments [(Arg a -)] - [] [] (Arg w -) [])"),
      ("a, *s, k, **w", false, "(Arguments [(Arg a -)] (Arg s -) [(Arg k -)] [-] (Arg w -) [])")] : List (String × Bool × String)) do
    for tc in [false, true] do
      emit (textCaseEx s!"def f({ps}{if tc then "," else ""}): pass\n"
        (if tc && !tcOk then none else some s!"[(FunctionDef f {tree} [(Pass)] [] -)]") ["nt", "xlist", "typedargslist"])

/-! ### contexts of the new constructors -/

def cx (t : XE) (i : XE) : XComp := .mk t i []

/-- one-hole contexts of every position of the new constructors (other holes: distinct names) -/
def xContexts : List (String × (XE → XE)) := [
  ("sub.value", fun h => .sub h (.index (nth 1))),
  ("sub.index", fun h => .sub (nth 0) (.index h)),
  ("sub.lower", fun h => .sub (nth 0) (.slice (some h) none none)),
  ("sub.upper", fun h => .sub (nth 0) (.slice none (some h) none)),
  ("sub.step", fun h => .sub (nth 0) (.slice none none (some h))),
  ("sub.full", fun h => .sub (nth 0) (.slice (some (nth 1)) (some h) (some (nth 2)))),
  ("sub.ext1", fun h => .sub (nth 0) (.ext [.slice (some h) none none])),
  ("sub.ext2", fun h => .sub (nth 0) (.ext [.index h, .slice none (some (nth 1)) none])),
  ("sub.ext3", fun h => .sub (nth 0) (.ext [.slice none none none, .index (nth 1), .slice (some h) (some (nth 2)) (some (nth 3))])),
  ("sub.tuple1", fun h => .sub (nth 0) (.index (.tuple [h]))),
  ("sub.tuple2", fun h => .sub (nth 0) (.index (.tuple [h, nth 1]))),
  ("call.kw", fun h => .call (nth 0) [] [("k", h)] none none),
  ("call.pos+kw", fun h => .call (nth 0) [h] [("k", nth 1), ("m", nth 2)] none none),
  ("call.star", fun h => .call (nth 0) [] [] (some h) none),
  ("call.kwarg", fun h => .call (nth 0) [] [] none (some h)),
  ("call.all", fun h => .call (nth 0) [nth 1] [("k", h)] (some (nth 2)) (some (nth 3))),
  ("call.func", fun h => .call h [] [("k", nth 1)] (some (nth 2)) none),
  ("set.1", fun h => .set [h]),
  ("set.2", fun h => .set [nth 0, h]),
  ("dict.key", fun h => .dict [(h, nth 1)]),
  ("dict.value", fun h => .dict [(nth 0, h), (nth 2, nth 3)]),
  ("listcomp.elt", fun h => .listcomp h [cx (nth 0) (nth 1)]),
  ("listcomp.iter", fun h => .listcomp (nth 0) [cx (nth 0) h]),
  ("listcomp.if", fun h => .listcomp (nth 0) [.mk (nth 0) (nth 1) [h]]),
  ("listcomp.if2", fun h => .listcomp (nth 0) [.mk (nth 0) (nth 1) [nth 2, h]]),
  ("listcomp.for2", fun h => .listcomp (nth 0) [.mk (nth 0) (nth 1) [nth 2], .mk (.tuple [nth 3, nth 4]) h [nth 5]]),
  ("listcomp.target1", fun h => .listcomp h [cx (.tuple [nth 0]) (nth 1)]),
  ("setcomp.elt", fun h => .setcomp h [cx (nth 0) (nth 1)]),
  ("genexp.elt", fun h => .genexp h [cx (nth 0) (nth 1)]),
  ("genexp.iter", fun h => .genexp (nth 0) [cx (.tuple [nth 0, .starred (nth 2)]) h]),
  ("genexp.arg", fun h => .call (nth 0) [.genexp h [cx (nth 1) (nth 2)]] [] none none),
  ("genexp.arg2", fun h => .call (nth 0) [.genexp h [cx (nth 1) (nth 2)], nth 3] [] none none),
  ("dictcomp.key", fun h => .dictcomp h (nth 1) [cx (nth 0) (nth 1)]),
  ("dictcomp.value", fun h => .dictcomp (nth 0) h [.mk (nth 0) (nth 1) [nth 2]]),
  ("lambda.default", fun h => .lambda (.mk ["a", "b"] none [] [] none [h]) (nth 0)),
  ("lambda.body-full", fun h => .lambda (.mk ["a"] (some "s") ["k", "m"] [none, some (nth 1)] (some "w") []) h),
  ("lambda.kwdefault", fun h => .lambda (.mk [] none ["k"] [some h] none []) (nth 0)),
  ("lambda.kwarg", fun h => .lambda (.mk ["a"] none [] [] (some "w") [nth 2]) h),
  ("yield.value", fun h => .yield_ (some h)),
  ("yield.tuple", fun h => .yield_ (some (.tuple [h, nth 1]))),
  ("yield.tuple1", fun h => .yield_ (some (.tuple [h]))),
  ("yieldfrom", fun h => .yieldfrom h),
  ("tuple.star", fun h => .tuple [.starred (nth 0), h]),
  ("list.star", fun h => .list [h, .starred (nth 0)])
]

/-- fillers: the new forms themselves and the old operator forms they must group against -/
def xFillers : List (String × XE) := [
  ("name", nth 6),
  ("slice", .sub (nth 6) (.slice (some (nth 7)) none none)),
  ("ext", .sub (nth 6) (.ext [.slice none none none])),
  ("ext2", .sub (nth 6) (.ext [.slice none (some (nth 7)) none, .index (nth 5)])),
  ("idx-tuple1", .sub (nth 6) (.index (.tuple [nth 7]))),
  ("kwcall", .call (nth 6) [] [("k", nth 7)] none none),
  ("starcall", .call (nth 6) [nth 7] [] (some (nth 5)) (some (nth 4))),
  ("set", .set [nth 6, nth 7]),
  ("dict", .dict [(nth 6, nth 7)]),
  ("dict0", .dict []),
  ("listcomp", .listcomp (nth 6) [.mk (nth 6) (nth 7) [nth 5]]),
  ("setcomp", .setcomp (nth 6) [cx (nth 6) (nth 7)]),
  ("genexp", .genexp (nth 6) [cx (nth 6) (nth 7)]),
  ("dictcomp", .dictcomp (nth 6) (nth 7) [cx (nth 6) (nth 7)]),
  ("lambda", .lambda (.mk ["x"] none [] [] none []) (nth 6)),
  ("lambda-full", .lambda (.mk ["x", "y"] (some "s") ["k"] [some (nth 7)] (some "w") [nth 6]) (nth 5)),
  ("lambda0", .lambda noParams (nth 6)),
  ("yield", .yield_ none),
  ("yield-v", .yield_ (some (nth 6))),
  ("yieldfrom", .yieldfrom (nth 6)),
  ("ifexp", .ifexp (nth 6) (nth 7) (nth 5)),
  ("tuple1", .tuple [nth 6]),
  ("tuple2", .tuple [nth 6, nth 7]),
  ("tuple0", .tuple []),
  ("or", .bool .or [nth 6, nth 7]),
  ("not", .un .not (nth 6)),
  ("cmp", .cmp (nth 6) [(.notin, nth 7), (.isnot, nth 5)]),
  ("bitor", .bin .bitor (nth 6) (nth 7)),
  ("neg-pow", .un .usub (.bin .pow (nth 6) (.un .usub (nth 7)))),
  ("strcat", .str (.s [104, 105, 33]))
]

/-- one-hole contexts of the OLD constructors, to place the new forms under every operator -/
def oldContexts : List (String × (XE → XE)) := [
  ("bin.l", fun h => .bin .add h (nth 0)), ("bin.r", fun h => .bin .mult (nth 0) h),
  ("pow.l", fun h => .bin .pow h (nth 0)), ("pow.r", fun h => .bin .pow (nth 0) h),
  ("un", fun h => .un .usub h), ("not", fun h => .un .not h),
  ("bool", fun h => .bool .and [nth 0, h]), ("cmp.l", fun h => .cmp h [(.lt, nth 0)]), ("cmp.r", fun h => .cmp (nth 0) [(.in_, h)]),
  ("if.body", fun h => .ifexp (nth 0) h (nth 1)), ("if.test", fun h => .ifexp h (nth 0) (nth 1)), ("if.else", fun h => .ifexp (nth 0) (nth 1) h),
  ("lambda.body", fun h => .lambda (.mk ["x"] none [] [] none []) h),
  ("call.arg", fun h => .call (nth 0) [h, nth 1] [] none none), ("attr", fun h => .attr h "q"),
  ("tuple", fun h => .tuple [h, nth 0]), ("list", fun h => .list [h]), ("top", fun h => h)
]

def layoutsFor (seed : Nat) (i : Nat) : List (Layout × Nat × String) :=
  [(mkLayout seed 0, 0, "min"), (mkLayout seed 100, 0, "paren"), (mkLayout (seed + i) 35, 1, "free")]

def genContexts (seed : Nat) : IO Unit := do
  let mut r : Rng := ⟨(seed + 8300).toUInt64⟩
  let mut i := 0
  for (cn, c) in xContexts ++ oldContexts do
    for (fname, f) in xFillers do
      let e := c f
      if !wf e then continue
      for (ℓ, style, ln) in layoutsFor seed i do
        let (r1, cs) := xCase e ℓ r style ["nt", "xctx", cn ++ "<" ++ fname, ln]
        r := r1; emit cs
      i := i + 1

/-! ### seeded deeper trees -/

partial def randX (r : Rng) (depth : Nat) : Rng × XE :=
  if depth == 0 then
    let (r, i) := r.nat 12
    match i with
    | 0 => (r, .num (.int 7)) | 1 => (r, .str (.s [120])) | 2 => (r, .const .none) | 3 => (r, .ellipsis)
    | 4 => (r, .tuple []) | 5 => (r, .dict []) | 6 => (r, .yield_ none) | 7 => (r, .num (.float 25 (-1)))
    | _ => let (r, j) := r.nat 8; (r, nth j)
  else
    let sub := fun (r : Rng) => let (r, d) := r.nat depth; randX r d
    let subs := fun (r : Rng) (lo hi : Nat) => Id.run do
      let (r0, n) := r.nat (hi - lo + 1)
      let mut r := r0
      let mut out : List XE := []
      for _ in [0:lo + n] do
        let (r1, e) := sub r
        r := r1; out := e :: out
      return (r, out)
    let optSub := fun (r : Rng) => let (r, b) := r.nat 2; if b == 0 then (r, none) else let (r, e) := sub r; (r, some e)
    let target := fun (r : Rng) =>
      let (r, i) := r.nat 6
      match i with
      | 0 => (r, XE.tuple [nth 0])
      | 1 => (r, XE.tuple [nth 0, nth 1])
      | 2 => (r, XE.tuple [nth 0, .starred (nth 1)])
      | 3 => let (r, e) := sub r; (r, XE.attr (.call (nth 2) [e] [] none none) "t")
      | 4 => let (r, e) := sub r; (r, XE.sub (nth 2) (.slice (some e) none none))
      | _ => (r, nth 0)
    let comps := fun (r : Rng) => Id.run do
      let (r0, n) := r.nat 2
      let mut r := r0
      let mut out : List XComp := []
      for _ in [0:n + 1] do
        let (r1, t) := target r
        let (r2, it) := sub r1
        let (r3, ifs) := subs r2 0 2
        r := r3; out := .mk t it ifs :: out
      return (r, out)
    let (r, i) := r.nat 24
    match i with
    | 0 => let (r, v) := sub r; let (r, e) := sub r; (r, .sub v (.index e))
    | 1 => let (r, v) := sub r; let (r, a) := optSub r; let (r, b) := optSub r; let (r, c) := optSub r; (r, .sub v (.slice a b c))
    | 2 =>
      let (r, v) := sub r; let (r, a) := optSub r; let (r, b) := optSub r; let (r, es) := subs r 0 2
      let (r, pos) := r.nat (es.length + 1)
      let dims := es.map XSlice.index
      (r, .sub v (.ext (dims.take pos ++ [.slice a b none] ++ dims.drop pos)))
    | 3 => let (r, v) := sub r; let (r, es) := subs r 1 3; (r, .sub v (.index (.tuple es)))
    | 4 | 5 =>
      let (r, f) := sub r; let (r, args) := subs r 0 2; let (r, kvs) := subs r 0 2
      let (r, st) := optSub r; let (r, kw) := optSub r
      (r, .call f args ((enum kvs).map (fun iv => (["k", "m", "n"][iv.1 % 3]!, iv.2))) st kw)
    | 6 => let (r, es) := subs r 1 3; (r, .set es)
    | 7 => let (r, ks) := subs r 0 3; let (r, v) := sub r; (r, .dict (ks.map (fun k => (k, v))))
    | 8 => let (r, e) := sub r; let (r, gs) := comps r; (r, .listcomp e gs)
    | 9 => let (r, e) := sub r; let (r, gs) := comps r; (r, .setcomp e gs)
    | 10 => let (r, e) := sub r; let (r, gs) := comps r; (r, .genexp e gs)
    | 11 => let (r, k) := sub r; let (r, v) := sub r; let (r, gs) := comps r; (r, .dictcomp k v gs)
    | 12 | 13 =>
      let (r, b) := sub r; let (r, na) := r.nat 3; let (r, ds) := subs r 0 na
      let ds := ds.take na
      let (r, hasVa) := r.nat 3; let (r, nk) := r.nat 3; let (r, kd) := optSub r; let (r, hasKw) := r.nat 2
      let va := if hasVa == 0 then some "s" else none
      let kwo := (["k", "m"].take nk)
      let kwo := if hasVa == 2 then kwo else (if va.isNone then [] else kwo)   -- hasVa = 2: bare * needs ≥ 1 kwonly
      let kwo := if hasVa == 2 && kwo.isEmpty then ["k"] else kwo
      (r, .lambda (.mk (["x", "y", "z"].take na) va kwo ((enum kwo).map (fun ik => if ik.1 == 0 then kd else none)) (if hasKw == 0 then some "w" else none) ds) b)
    | 14 => let (r, v) := optSub r; (r, .yield_ v)
    | 15 => let (r, v) := sub r; (r, .yieldfrom v)
    | 16 => let (r, es) := subs r 1 3; (r, .yield_ (some (.tuple es)))
    | 17 => let (r, a) := sub r; let (r, b) := sub r; let (r, c) := sub r; (r, .ifexp a b c)
    | 18 => let (r, a) := sub r; let (r, b) := sub r; let (r, o) := r.nat allBin.length; (r, .bin allBin[o]! a b)
    | 19 => let (r, a) := sub r; let (r, o) := r.nat allUn.length; (r, .un allUn[o]! a)
    | 20 => let (r, a) := sub r; let (r, bs) := subs r 1 2; let (r, o) := r.nat allCmp.length; (r, .cmp a (bs.map (fun b => (allCmp[o]!, b))))
    | 21 => let (r, es) := subs r 2 3; let (r, o) := r.nat 2; (r, .bool (if o == 0 then .and else .or) es)
    | 22 => let (r, es) := subs r 0 3; (r, .tuple es)
    | _ => let (r, es) := subs r 0 3; (r, .list es)

/-- attributes directly on number literals need care (`1 .real`): skip such trees -/
partial def numAttrFree : XE → Bool
  | .attr (.num _) _ => false
  | _ => true

def genRandomX (seed : Nat) (n : Nat) : IO Unit := do
  let mut r : Rng := ⟨(seed + 8400).toUInt64⟩
  for i in [0:n] do
    let (r1, d) := r.nat 4
    let (r2, e) := randX r1 (d + 1)
    r := r2
    if !wf e then continue
    for j in [0:4] do
      let ℓ := mkLayout (seed + 13 * i + j) ([0, 20, 45, 100][j]!)
      let (r3, c) := xCase e ℓ r (if j == 0 then 0 else 1) ["nt", "xrand", s!"layout{j}"]
      r := r3; emit c

/-! ### single-token deletions -/

def genMutX (seed : Nat) (n : Nat) : IO Unit := do
  let mut r : Rng := ⟨(seed + 8500).toUInt64⟩
  let mut bases : List XE := []
  for (_, c) in xContexts do
    bases := c (.bin .add (nth 6) (nth 7)) :: bases
  for _ in [0:n] do
    let (r1, e) := randX r 2
    r := r1
    if wf e then bases := e :: bases
  for e in bases do
    let ts := render (mkLayout (seed + 3) 30) e
    for i in [0:ts.length] do
      let ts' := ts.take i ++ ts.drop (i + 1)
      let text := (toksText ⟨1⟩ 0 ts').2.toList
      let m := (parseEvalString text).v
      emit { input := "ev " ++ enc text, modelV := m, specV := m, tags := ["nt", "xmut", "delete"] }

/-- nonterminals whose generation is multiplied (C06_ESCALATE, set by checks/c06.py from the rule pins) -/
def escalated : IO (List String) := do
  match ← IO.getEnv "C06_ESCALATE" with
  | some s => pure ((s.splitOn ",").filter (· ≠ ""))
  | none => pure []

def genX (tier : String) (seed : Nat) : IO Unit := do
  let thorough := tier == "thorough"
  let esc ← escalated
  let subBoost := if esc.any (fun s => s.startsWith "subscript" || s == "sliceop" || s == "trailer") then 4 else 1
  let anyBoost := if esc.isEmpty || thorough then 1 else 4
  genSubscripts seed subBoost
  if subBoost > 1 then
    genSubscripts (seed + 1) subBoost
  genExprLists seed
  genStmtLists
  genContexts seed
  genRandomX seed ((if thorough then 30000 else 900) * anyBoost)
  genMutX seed ((if thorough then 400 else 25) * anyBoost)

end GPy.C06.X
