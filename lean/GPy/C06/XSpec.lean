/-
C06 enlarged grammar, reference side: the printer of `XE` trees (Python 3.4 Grammar/Grammar read
right to left): minimal parentheses from the precedence table plus the free choices of a spelling –
redundant parentheses, optional trailing commas in EVERY comma-separated list, bare vs parenthesised
tuples where the grammar allows a bare testlist / exprlist / subscriptlist, the empty `sliceop`
(`a:b:`), keyword arguments before or after `*args`, a bare generator expression as sole argument.
Every choice is a function of the `Layout` and the path of the node, so a spelling is reproducible.
Core Lean only (printing functions are `partial`: they are the generator's reference, no theorem is
stated about them – the list-layer theorems of Lists.lean have their own total renderers).
-/
import GPy.C06.X
namespace GPy.C06.X
open GPy.C06 Spec

def prec : XE → Nat
  | .lambda _ _ => 0
  | .ifexp _ _ _ => 0
  | .bool op _ => op.level
  | .un op _ => op.level
  | .cmp _ _ => cmpLevel
  | .bin op _ _ => op.level
  | .call .. => primaryLevel
  | .sub _ _ => primaryLevel
  | .attr _ _ => primaryLevel
  | _ => atomLevel

def isStarred : XE → Bool
  | .starred _ => true
  | _ => false

/-- free boolean choice number `i` at path `p` -/
def ch (ℓ : Layout) (p : List Nat) (i : Nat) : Bool := ℓ.trail ((1000 + i) :: p)

def sepBy (sep : Tok) : List (List Tok) → List Tok
  | [] => []
  | [x] => x
  | x :: xs => x ++ sep :: sepBy sep xs

def comma : Tok := .p .comma

/-- a list with an OPTIONAL trailing comma (only when non-empty) -/
def optTrail (ℓ : Layout) (p : List Nat) (items : List (List Tok)) : List Tok :=
  sepBy comma items ++ (if ℓ.trail p && !items.isEmpty then [comma] else [])

/-- a bare tuple: the trailing comma is mandatory for one element -/
def tupTrail (ℓ : Layout) (p : List Nat) (items : List (List Tok)) : List Tok :=
  sepBy comma items ++ (if items.length = 1 || (ℓ.trail p && !items.isEmpty) then [comma] else [])

def enum {α} (l : List α) : List (Nat × α) := (List.range l.length).zip l

mutual
/-- tokens of `e` where the context requires binding level ≥ `k` -/
partial def rAt (ℓ : Layout) (p : List Nat) (k : Nat) (e : XE) : List Tok :=
  match e with
  | .starred v => .p .star :: rAt ℓ (0 :: p) exprLevel v
  | _ => wrap (ℓ.extra p + (if prec e < k then 1 else 0)) (raw ℓ p e)

/-- a tuple value in a position where the grammar has a bare list of items at level `k`
(`allowStar`: the list admits star items): bare or parenthesised -/
partial def rBare (ℓ : Layout) (p : List Nat) (k : Nat) (allowStar : Bool) (e : XE) : List Tok :=
  match e with
  | .tuple es =>
    if !es.isEmpty && (allowStar || !es.any isStarred) && ch ℓ p 0 then
      tupTrail ℓ p ((enum es).map (fun ie => rAt ℓ (ie.1 :: p) k ie.2))
    else rAt ℓ p k e
  | _ => rAt ℓ p k e

partial def rOpt (ℓ : Layout) (p : List Nat) : Option XE → List Tok
  | some e => rAt ℓ p 0 e
  | none => []

partial def rSlice (ℓ : Layout) (p : List Nat) (bareOk : Bool) : XSlice → List Tok
  | .index e => if bareOk then rBare ℓ (0 :: p) 0 false e else rAt ℓ (0 :: p) 0 e
  | .slice lo up st =>
    rOpt ℓ (0 :: p) lo ++ [.p .colon] ++ rOpt ℓ (1 :: p) up ++
      (match st with
       | some s => .p .colon :: rAt ℓ (2 :: p) 0 s
       | none => if ch ℓ p 1 then [.p .colon] else [])
  | .ext ds => tupTrail ℓ p ((enum ds).map (fun id => rSlice ℓ (id.1 :: p) false id.2))

partial def rComp (ℓ : Layout) (p : List Nat) : XComp → List Tok
  | .mk t it ifs =>
    [.k .for_] ++ rBare ℓ (0 :: p) exprLevel true t ++ [.k .in_] ++ rAt ℓ (1 :: p) orTestLevel it ++
      ((enum ifs).map (fun ic => .k .if_ :: rNoCond ℓ ((2 + ic.1) :: p) ic.2)).flatten

/-- `test_nocond`: an or_test, or a lambda whose body is again a test_nocond -/
partial def rNoCond (ℓ : Layout) (p : List Nat) (e : XE) : List Tok :=
  match e with
  | .lambda ps b =>
    if ch ℓ p 2 && ℓ.extra p = 0 then [.k .lambda_] ++ rParams ℓ p ps ++ [.p .colon] ++ rNoCond ℓ (0 :: p) b
    else rAt ℓ p orTestLevel e
  | _ => rAt ℓ p orTestLevel e

partial def rComps (ℓ : Layout) (p : List Nat) (gs : List XComp) : List Tok :=
  ((enum gs).map (fun ig => rComp ℓ ((10 + ig.1) :: p) ig.2)).flatten

partial def rParams (ℓ : Layout) (p : List Nat) : XParams → List Tok
  | .mk args va kwo kwd kw defs =>
    let nd := args.length - defs.length
    let pos := (enum args).map (fun ia =>
      if ia.1 < nd then [Tok.name ia.2] else [Tok.name ia.2, .p .equal] ++ rAt ℓ ((20 + ia.1) :: p) 0 (defs[ia.1 - nd]!))
    let star : List (List Tok) :=
      if va.isSome || !kwo.isEmpty then
        [(.p .star :: (match va with | some s => [Tok.name s] | none => []))] ++
          (enum kwo).map (fun ik => match kwd[ik.1]? with
            | some (some d) => [Tok.name ik.2, .p .equal] ++ rAt ℓ ((40 + ik.1) :: p) 0 d
            | _ => [Tok.name ik.2])
      else []
    let kws : List (List Tok) := match kw with | some s => [[.p .starstar, .name s]] | none => []
    let all := pos ++ star ++ kws
    -- 3.4: a trailing comma only after plain / defaulted parameters
    sepBy comma all ++ (if star.isEmpty && kws.isEmpty && !pos.isEmpty && ℓ.trail (60 :: p) then [comma] else [])

/-- tokens of `e` without enclosing (redundant / precedence) parentheses -/
partial def raw (ℓ : Layout) (p : List Nat) : XE → List Tok
  | .name s => [.name s]
  | .num v => [.num v]
  | .str v => [.str v]
  | .const .none => [.k .none_]
  | .const .true => [.k .true_]
  | .const .false => [.k .false_]
  | .ellipsis => [.p .elipsis]
  | .bin op l r =>
    if op = .pow then rAt ℓ (0 :: p) primaryLevel l ++ [.p op.tok] ++ rAt ℓ (1 :: p) 11 r
    else rAt ℓ (0 :: p) op.level l ++ [.p op.tok] ++ rAt ℓ (1 :: p) (op.level + 1) r
  | .un op e => op.tok :: rAt ℓ (0 :: p) op.level e
  | .bool op vs => sepBy (.k op.tok) ((enum vs).map (fun iv => rAt ℓ (iv.1 :: p) (op.level + 1) iv.2))
  | .cmp l rest => rAt ℓ (0 :: p) (cmpLevel + 1) l ++
      ((enum rest).map (fun ir => ir.2.1.toks ++ rAt ℓ ((1 + ir.1) :: p) (cmpLevel + 1) ir.2.2)).flatten
  | .ifexp t b o => rAt ℓ (0 :: p) 1 b ++ [.k .if_] ++ rAt ℓ (1 :: p) 1 t ++ [.k .else_] ++ rAt ℓ (2 :: p) 0 o
  | .lambda ps b => [.k .lambda_] ++ rParams ℓ p ps ++ [.p .colon] ++ rAt ℓ (0 :: p) 0 b
  | .call f args kws st kw =>
    let fT := rAt ℓ (0 :: p) primaryLevel f
    match args, kws, st, kw with
    | [.genexp e gs], [], none, none =>
      if ch ℓ p 3 then fT ++ [.p .lpar] ++ rAt ℓ (100 :: 1 :: p) 0 e ++ rComps ℓ (1 :: p) gs ++ (if ℓ.trail p && ch ℓ p 4 then [comma] else []) ++ [.p .rpar]
      else fT ++ [.p .lpar] ++ optTrail ℓ p [rAt ℓ (1 :: p) 0 (.genexp e gs)] ++ [.p .rpar]
    | _, _, _, _ =>
      let pos := (enum args).map (fun ia => rAt ℓ ((1 + ia.1) :: p) 0 ia.2)
      let kwT := (enum kws).map (fun ik => [Tok.name ik.2.1, .p .equal] ++ rAt ℓ ((200 + ik.1) :: p) 0 ik.2.2)
      -- keyword arguments may stand before or after `*args`
      let split := if st.isSome && ch ℓ p 5 then (if ch ℓ p 6 then 0 else kwT.length / 2) else kwT.length
      let stT : List (List Tok) := match st with | some s => [.p .star :: rAt ℓ (300 :: p) 0 s] | none => []
      let kT : List (List Tok) := match kw with | some s => [.p .starstar :: rAt ℓ (301 :: p) 0 s] | none => []
      let all := pos ++ kwT.take split ++ stT ++ kwT.drop split ++ kT
      fT ++ [.p .lpar] ++ sepBy comma all ++ (if stT.isEmpty && kT.isEmpty && !all.isEmpty && ℓ.trail p then [comma] else []) ++ [.p .rpar]
  | .sub v s => rAt ℓ (0 :: p) primaryLevel v ++ [.p .lsqb] ++ rSlice ℓ (1 :: p) true s ++ [.p .rsqb]
  | .attr v a => rAt ℓ (0 :: p) primaryLevel v ++ [.p .dot, .name a]
  | .tuple es => [.p .lpar] ++ tupTrail ℓ p ((enum es).map (fun ie => rAt ℓ (ie.1 :: p) 0 ie.2)) ++ [.p .rpar]
  | .list es => [.p .lsqb] ++ optTrail ℓ p ((enum es).map (fun ie => rAt ℓ (ie.1 :: p) 0 ie.2)) ++ [.p .rsqb]
  | .set es => [.p .lbrace] ++ optTrail ℓ p ((enum es).map (fun ie => rAt ℓ (ie.1 :: p) 0 ie.2)) ++ [.p .rbrace]
  | .dict kvs => [.p .lbrace] ++ optTrail ℓ p ((enum kvs).map (fun ikv =>
      rAt ℓ (2 * ikv.1 :: p) 0 ikv.2.1 ++ [.p .colon] ++ rAt ℓ ((2 * ikv.1 + 1) :: p) 0 ikv.2.2)) ++ [.p .rbrace]
  | .listcomp e gs => [.p .lsqb] ++ rAt ℓ (0 :: p) 0 e ++ rComps ℓ p gs ++ [.p .rsqb]
  | .setcomp e gs => [.p .lbrace] ++ rAt ℓ (0 :: p) 0 e ++ rComps ℓ p gs ++ [.p .rbrace]
  | .genexp e gs => [.p .lpar] ++ rAt ℓ (0 :: p) 0 e ++ rComps ℓ p gs ++ [.p .rpar]
  | .dictcomp k v gs => [.p .lbrace] ++ rAt ℓ (0 :: p) 0 k ++ [.p .colon] ++ rAt ℓ (1 :: p) 0 v ++ rComps ℓ p gs ++ [.p .rbrace]
  | .yield_ none => [.p .lpar, .k .yield_, .p .rpar]
  | .yield_ (some v) => [.p .lpar, .k .yield_] ++ rBare ℓ (0 :: p) 0 false v ++ [.p .rpar]
  | .yieldfrom v => [.p .lpar, .k .yield_, .k .from_] ++ rAt ℓ (0 :: p) 0 v ++ [.p .rpar]
  | .starred v => .p .star :: rAt ℓ (0 :: p) exprLevel v
end

/-- the token spelling of `e` as an `eval_input` testlist -/
def render (ℓ : Layout) (e : XE) : List Tok := rBare ℓ [] 0 false e

mutual
/-- trees the grammar can produce (what the generator may emit): BoolOp ≥ 2 operands, Compare ≥ 1 comparator,
non-empty set displays and comprehension clause lists, valid comprehension targets, ExtSlice with a
Slice among its dimensions and no nested ExtSlice, defaults no longer than the positional parameters,
`kwdefaults` parallel to `kwonly` -/
partial def wf : XE → Bool
  | .bin _ l r => wf l && wf r
  | .un _ e => wf e
  | .bool _ vs => vs.length ≥ 2 && vs.all wf
  | .cmp l rest => wf l && !rest.isEmpty && rest.all (fun p => wf p.2)
  | .ifexp t b o => wf t && wf b && wf o
  | .lambda ps b => wfParams ps && wf b
  | .call f args kws st kw => wf f && args.all wf && kws.all (fun p => wf p.2) && (st.map wf).getD true && (kw.map wf).getD true
      && !args.any isStarred
  | .sub v s => wf v && wfSlice true s
  | .attr v _ => wf v
  | .tuple es => es.all wf
  | .list es => es.all wf
  | .set es => !es.isEmpty && es.all wf && !es.any isStarred
  | .dict kvs => kvs.all (fun p => wf p.1 && wf p.2)
  | .listcomp e gs => wf e && !gs.isEmpty && gs.all wfComp
  | .setcomp e gs => wf e && !gs.isEmpty && gs.all wfComp
  | .genexp e gs => wf e && !gs.isEmpty && gs.all wfComp
  | .dictcomp k v gs => wf k && wf v && !gs.isEmpty && gs.all wfComp
  | .yield_ v => (v.map wf).getD true
  | .yieldfrom v => wf v
  | .starred e => wf e && !isStarred e
  | _ => true
partial def wfSlice (top : Bool) : XSlice → Bool
  | .index e => wf e && !isStarred e
  | .slice lo up st => (lo.map wf).getD true && (up.map wf).getD true && (st.map wf).getD true
  | .ext ds => top && !ds.isEmpty && ds.all (wfSlice false) && ds.any (fun d => match d with | .slice .. => true | _ => false)
partial def wfComp : XComp → Bool
  | .mk t it ifs => wf t && validTarget t && wf it && ifs.all wf
partial def wfParams : XParams → Bool
  | .mk args _ kwo kwd _ defs => defs.length ≤ args.length && kwd.length = kwo.length && defs.all wf && kwd.all (fun d => (d.map wf).getD true)
end

end GPy.C06.X
