/-
C07 bitwise lemmas: Go's 64-bit `& | ^` on machine words agree with the
two's-complement operations on ℤ (infinite sign extension), because the operations
commute with sign extension.
-/
import GPy.C07.Proofs
namespace GPy.C07

theorem two_pow_mono {a b : Nat} (h : a ≤ b) : (2 : Int) ^ a ≤ 2 ^ b := by
  have := Nat.pow_le_pow_right (by decide : 0 < 2) h
  exact_mod_cast this

/-- `x` fits in a `w`-bit two's-complement word -/
def fits (w : Nat) (x : Int) : Prop := -2 ^ (w - 1) ≤ x ∧ x < 2 ^ (w - 1)

theorem ofInt_signExtend {w v : Nat} (hw : 0 < w) (h : w ≤ v) {x : Int} (hx : fits w x) :
    BitVec.ofInt v x = (BitVec.ofInt w x).signExtend v := by
  apply BitVec.eq_of_toInt_eq
  rw [BitVec.toInt_signExtend_of_le h, BitVec.toInt_ofInt_eq_self hw hx.1 hx.2]
  have hv : 0 < v := by omega
  have hp : (2 : Int) ^ (w - 1) ≤ 2 ^ (v - 1) := two_pow_mono (by omega)
  exact BitVec.toInt_ofInt_eq_self hv (by have := hx.1; omega) (by have := hx.2; omega)

/-- a bitwise operation that commutes with sign extension gives the same integer in any
two widths that hold both operands -/
theorem width_indep (f : ∀ {n : Nat}, BitVec n → BitVec n → BitVec n)
    (hf : ∀ {w v : Nat} (x y : BitVec w), (f x y).signExtend v = f (x.signExtend v) (y.signExtend v))
    {w v : Nat} (hw : 0 < w) (h : w ≤ v) {x y : Int} (hx : fits w x) (hy : fits w y) :
    (f (BitVec.ofInt v x) (BitVec.ofInt v y)).toInt = (f (BitVec.ofInt w x) (BitVec.ofInt w y)).toInt := by
  rw [ofInt_signExtend hw h hx, ofInt_signExtend hw h hy, ← hf, BitVec.toInt_signExtend_of_le h]

theorem fits_bitsFor_left (x y : Int) : fits (bitsFor x y) x := by
  unfold fits bitsFor
  have h1 : x.natAbs < 2 ^ (x.natAbs.log2 + 1) := Nat.lt_log2_self
  have h2 : 2 ^ (x.natAbs.log2 + 1) ≤ 2 ^ (max x.natAbs.log2 y.natAbs.log2 + 2 - 1) :=
    Nat.pow_le_pow_right (by decide) (by omega)
  have h3 : (x.natAbs : Int) < ((2 ^ (max x.natAbs.log2 y.natAbs.log2 + 2 - 1) : Nat) : Int) := by
    exact_mod_cast Nat.lt_of_lt_of_le h1 h2
  have hc : ((2 ^ (max x.natAbs.log2 y.natAbs.log2 + 2 - 1) : Nat) : Int) = (2 : Int) ^ (max x.natAbs.log2 y.natAbs.log2 + 2 - 1) := by simp
  rw [hc] at h3
  constructor <;> omega

theorem fits_bitsFor_right (x y : Int) : fits (bitsFor x y) y := by
  have := fits_bitsFor_left y x
  unfold bitsFor at *
  rwa [Nat.max_comm] at this

theorem fits64 {x : Int} (h : inRange x) : fits 64 x := by
  unfold fits inRange IntMin IntMax at *; simp; omega

theorem fits_mono {w v : Nat} (h : w ≤ v) {x : Int} (hx : fits w x) : fits v x := by
  unfold fits at *
  have hp : (2 : Int) ^ (w - 1) ≤ 2 ^ (v - 1) := two_pow_mono (by omega)
  constructor <;> omega

/-- two widths, both holding the operands, agree -/
theorem width_indep' (f : ∀ {n : Nat}, BitVec n → BitVec n → BitVec n)
    (hf : ∀ {w v : Nat} (x y : BitVec w), (f x y).signExtend v = f (x.signExtend v) (y.signExtend v))
    {w v : Nat} (hw : 0 < w) (hv : 0 < v) {x y : Int}
    (hxw : fits w x) (hyw : fits w y) (hxv : fits v x) (hyv : fits v y) :
    (f (BitVec.ofInt v x) (BitVec.ofInt v y)).toInt = (f (BitVec.ofInt w x) (BitVec.ofInt w y)).toInt := by
  by_cases h : w ≤ v
  · exact width_indep f hf hw h hxw hyw
  · exact (width_indep f hf hv (by omega) hxv hyv).symm

theorem and64_eq {x y : Int} (hx : inRange x) (hy : inRange y) : and64 x y = iland x y := by
  unfold and64 iland
  have hb : 0 < bitsFor x y := by unfold bitsFor; omega
  exact width_indep' (fun a b => a &&& b) (fun a b => BitVec.signExtend_and) hb (by decide)
    (fits_bitsFor_left x y) (fits_bitsFor_right x y) (fits64 hx) (fits64 hy)

theorem or64_eq {x y : Int} (hx : inRange x) (hy : inRange y) : or64 x y = ilor x y := by
  unfold or64 ilor
  have hb : 0 < bitsFor x y := by unfold bitsFor; omega
  exact width_indep' (fun a b => a ||| b) (fun a b => BitVec.signExtend_or) hb (by decide)
    (fits_bitsFor_left x y) (fits_bitsFor_right x y) (fits64 hx) (fits64 hy)

theorem xor64_eq {x y : Int} (hx : inRange x) (hy : inRange y) : xor64 x y = ixor x y := by
  unfold xor64 ixor
  have hb : 0 < bitsFor x y := by unfold bitsFor; omega
  exact width_indep' (fun a b => a ^^^ b) (fun a b => BitVec.signExtend_xor) hb (by decide)
    (fits_bitsFor_left x y) (fits_bitsFor_right x y) (fits64 hx) (fits64 hy)

/-- a 64-bit result is an int64 -/
theorem toInt64_inRange (b : BitVec 64) : inRange b.toInt := by
  have h1 := BitVec.toInt_lt (x := b)
  have h2 := BitVec.le_toInt (x := b)
  unfold inRange IntMin IntMax; simp at h1 h2; omega

theorem bitsFor_comm (x y : Int) : bitsFor x y = bitsFor y x := by unfold bitsFor; rw [Nat.max_comm]
theorem iland_comm (x y : Int) : iland x y = iland y x := by
  unfold iland; rw [bitsFor_comm x y]; simp only; rw [BitVec.and_comm]
theorem ilor_comm (x y : Int) : ilor x y = ilor y x := by
  unfold ilor; rw [bitsFor_comm x y]; simp only; rw [BitVec.or_comm]
theorem ixor_comm (x y : Int) : ixor x y = ixor y x := by
  unfold ixor; rw [bitsFor_comm x y]; simp only; rw [BitVec.xor_comm]

end GPy.C07
