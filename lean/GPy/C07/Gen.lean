/-
C07 case generator: boundary lattice × representations × operators, plus seeded
random operands.  Emits one `Case` per line (input, model V/R, spec V, tags).
-/
import GPy.C07.Text
namespace GPy.C07

def Err.py : Err → String
  | .zeroDiv => "E:ZeroDivisionError" | .value => "E:ValueError"
  | .type => "E:TypeError" | .overflow => "E:OverflowError"

def encObj : Obj → String
  | .int v => s!"i{v}" | .big v => s!"b{v}" | .bool b => if b then "t1" else "t0"
  | .none => "n" | _ => "?"

partial def objV : Obj → String
  | .int v | .big v => toString v
  | .bool b => if b then "True" else "False"
  | .float => "F"
  | .pair a b => s!"({objV a}, {objV b})"
  | .none => "None" | .notImpl => "NotImplemented"

partial def objR : Obj → String
  | .int _ => "i" | .big _ => "b" | .bool _ => "t" | .float => "f"
  | .pair a b => objR a ++ objR b
  | .none => "n" | .notImpl => "N"

def resV : Res → String
  | .error e => e.py
  | .ok o => objV o
def resR : Res → String
  | .error _ => "-"
  | .ok o => objR o

def sresV : SRes → String
  | .error e => e.py
  | .ok (.int v) => toString v
  | .ok (.bool b) => if b then "True" else "False"
  | .ok (.pair q r) => s!"({q}, {r})"
  | .ok .float => "F"


def big? (x : Int) : Bool := x > 2147483648 || x < -2147483648

def mkCase (input : String) (m : Res) (s : SRes) (ops : List Obj) (kf : Option String) : Case :=
  let nt := ops.any (fun o => match denote o with | some v => big? v | none => false)
            || (match s with | .error _ => true | .ok (.int v) => big? v | .ok (.pair q r) => big? q || big? r | _ => false)
  { input := input, modelV := resV m, modelR := resR m, specV := sresV s,
    tags := (if nt then ["nt"] else []) ++ (match kf with | some k => ["kf=" ++ k] | none => []) }

def caseBin (op : BinOp) (a b : Obj) : Option Case :=
  match denote a, denote b with
  | some x, some y =>
    -- memory exhaustion is not modelled: cap left-shift counts
    if op == .lshift && (y > 4096) then none else
    let kf := if kfBoolOnly [a, b] && !(op == .eq || op == .ne) then some "C07-K01" else none
    some (mkCase s!"bin {op.name} {encObj a} {encObj b}" (binop op a b) (specBin op x y) [a, b] kf)
  | _, _ => none

def caseDivmod (a b : Obj) : Option Case :=
  match denote a, denote b with
  | some x, some y =>
    let kf := if kfBoolOnly [a, b] then some "C07-K01" else none
    some (mkCase s!"divmod {encObj a} {encObj b}" (divmod a b) (specDivmod x y) [a, b] kf)
  | _, _ => none

def casePow (a b c : Obj) : Option Case :=
  match denote a, denote b with
  | some x, some y =>
    if y > 64 && !(x == 0 || x == 1 || x == -1) then none else
    if y < 0 && x == 0 then none else
    let m := denote c
    if c != .none && m.isNone then none else
    let ops := if c == .none then [a, b] else [a, b, c]
    -- pow(bool, bool[, m]) finds no __pow__ on bool; pow(bool, int, m) cannot fall back to __rpow__
    let kf := if isBool a && (isBool b || c != .none) then some "C07-K01" else none
    some (mkCase s!"pow {encObj a} {encObj b} {encObj c}" (pow a b c) (specPow x y m) ops kf)
  | _, _ => none

def caseUn (op : UnOp) (a : Obj) : Option Case :=
  match denote a with
  | some x =>
    let kf := if isBool a && op != .bool then some "C07-K01" else none
    some (mkCase s!"un {op.name} {encObj a}" (unop op a) (specUn op x) [a] kf)
  | none => none

/-- boundary lattice of the property's quantifier clause -/
def latticeInts : List Int := Id.run do
  let bases : List Int := [0, 2^31, 3037000499, 3037000500, 2^32, 2^62, 2^63, 2^64, 2^127]
  let mut out : List Int := []
  for b in bases do
    for d in [-2, -1, 0, 1, 2] do
      for sgn in [1, -1] do
        let v : Int := sgn * (b + d)
        if !out.contains v then out := v :: out
  return out.reverse

/-- every representation a value admits -/
def repsOf (v : Int) : List Obj :=
  (if IntMin ≤ v ∧ v ≤ IntMax then [Obj.int v] else []) ++ [Obj.big v]
  ++ (if v == 0 then [Obj.bool false] else if v == 1 then [Obj.bool true] else [])

def latticeObjs : List Obj := latticeInts.flatMap repsOf

def smallObjs : List Obj :=
  ([0, 1, -1, 2, -2, 3, 7, -7, 63, 64, 65, 100, 2^31, -(2^31), 2^63 - 1, -(2^63), 2^63, 2^64 + 1, -(2^127)] : List Int).flatMap repsOf

def randInt (r : Rng) : Rng × Int :=
  let (r, nb) := r.nat 192
  let (r, m) := r.bits (nb + 1)
  let (r, s) := r.nat 2
  (r, if s == 0 then (m : Int) else -(m : Int))

def randObj (r : Rng) : Rng × Obj :=
  let (r, v) := randInt r
  let reps := repsOf v
  let (r, i) := r.nat reps.length
  (r, reps[i]!)

/-- one-line encoding of a text operand -/
def encText (cs : List Char) : String :=
  String.join (cs.map fun c => if c == ' ' then "\\s" else if c == '\t' then "\\t" else if c == '\n' then "\\n" else c.toString)

def caseInt (str : List Char) (base : Nat) : Case :=
  let m := intFromString str base
  let sp := specIntFromString str base
  { input := s!"int {base} [{encText str}]",
    modelV := match m with | some o => objV o | none => "E:ValueError",
    modelR := match m with | some o => objR o | none => "-",
    specV := match sp with | some v => toString v | none => "E:ValueError",
    tags := (if str.length > 3 then ["nt"] else []) }

def caseRender (kind : String) (a : Obj) : Option Case :=
  match denote a with
  | some v => if isBool a then none else
    some { input := s!"render {kind} {encObj a}", modelV := modelRender kind v, modelR := "", specV := specRender kind v,
           tags := if big? v then ["nt"] else [] }
  | none => none

def textCases : List Case := Id.run do
  let ws : List String := ["", " ", "\t "]
  let signs : List String := ["", "+", "-", "+-", "--", "-+"]
  let inner : List String := ["", "-", "+"]   -- a sign after the base prefix
  let prefs : List String := ["", "0x", "0X", "0o", "0O", "0b", "0B"]
  let digits : List String := ["", "0", "00", "1", "7", "9", "10", "017", "101", "ff", "FF", "z", "Z1", "12a", "1_0", "1 0",
    "777777777777", "7777777777777", "ffffffffffff", "fffffffffffff", "zzzzzzzzzzzz", "zzzzzzzzzzzzz",
    "999999999999999999", "1000000000000000000", "9223372036854775807", "9223372036854775808", "9223372036854775809",
    "18446744073709551616", "7fffffffffffffff", "8000000000000000", "ffffffffffffffffffffffffffffffff",
    "111111111111111111111111111111111111111111111111111111111111111", "1000000000000000000000000000000000000000000000000000000000000000",
    "1000000000000000000000", "777777777777777777777", "000000000000000000000000000001"]
  let bases : List Nat := [0, 2, 8, 10, 16, 36]
  let mut out : List Case := []
  for w in ws do
    for sg in signs do
      for pf in prefs do
        for d in digits do
          for b in bases do
            -- keep the product moderate: whitespace variants only with the simplest sign/prefix
            if w == "" || (sg.length ≤ 1 && pf.length == 0) then
              out := caseInt (w ++ sg ++ pf ++ d ++ w).toList b :: out
            if w == "" && sg.length ≤ 1 && pf.length > 0 && d.length ≤ 3 then
              for i in inner do
                if i != "" then out := caseInt (sg ++ pf ++ i ++ d).toList b :: out
  return out.reverse

def emit (c : Option Case) : IO Unit :=
  match c with
  | some c => IO.println c.line
  | none => pure ()

def genMain (tier : String) (seed : Nat) : IO Unit := do
  let objs := latticeObjs
  -- all lattice pairs × every binary operator, divmod
  for a in objs do
    for b in objs do
      for op in BinOp.all do emit (caseBin op a b)
      emit (caseDivmod a b)
  for a in objs do
    for op in UnOp.all do emit (caseUn op a)
  -- shifts by small counts and pow with small exponents / moduli
  let counts : List Obj := ([0, 1, 2, 31, 32, 33, 62, 63, 64, 65, 127, 128, 200] : List Int).flatMap repsOf
  for a in objs do
    for c in counts do
      emit (caseBin .lshift a c); emit (caseBin .rshift a c)
  let exps : List Obj := ([0, 1, 2, 3, 5, 31, 32, 63, 64, -1, -2] : List Int).flatMap repsOf
  let mods : List Obj := [Obj.none] ++ ([0, 1, -1, 2, -2, 3, -3, 7, -7, 2^31, -(2^31), 2^63 - 1, -(2^63), 2^64 + 1, -(2^64) - 1] : List Int).flatMap repsOf
  let pbases := if tier == "thorough" then objs else smallObjs
  for a in pbases do
    for b in exps do
      for c in mods do emit (casePow a b c)
  -- text conversions
  for c in textCases do IO.println c.line
  for a in objs do
    for k in ["str", "hex", "oct", "bin"] do emit (caseRender k a)
  -- seeded random operands, 1..192 bits
  let n := if tier == "thorough" then 60000 else 6000
  let mut r : Rng := ⟨seed.toUInt64⟩
  for _ in [0:n] do
    let (r1, a) := randObj r
    let (r2, b) := randObj r1
    let (r3, k) := r2.nat 64
    r := r3
    for op in BinOp.all do
      if op == .lshift || op == .rshift then
        emit (caseBin op a (.int (k : Int)))
      else emit (caseBin op a b)
    emit (caseDivmod a b)
    for op in UnOp.all do emit (caseUn op a)
    for kd in ["str", "hex", "oct", "bin"] do emit (caseRender kd a)
    emit (casePow a (.int ((k % 9 : Nat) : Int)) b)
    emit (casePow a (.int ((k % 9 : Nat) : Int)) .none)

end GPy.C07
