/-
C07, regenerated tie: `GPy/C07/Generated/IntCore.lean` is written by extract/goint from py/int.go of the
working tree on every run.  This file proves that every TRANSLATED Go function computes exactly what the
hand-written model (`Model.lean`, the object of the property theorems) computes, for all int64 receivers and
all well-formed operands.  The proof scripts are deliberately generic (unfold, split every branch, linear
arithmetic over the exposed wrap-around): a semantically neutral rewrite of the Go code re-proves, a change
of behaviour does not.
-/
import GPy.C07.Generated.IntCore
import GPy.C07.Proofs
namespace GPy.C07
open GPy

/-- closes a linear goal about int64 words after exposing the wrap-around arithmetic -/
macro "word_omega" : tactic =>
  `(tactic| (simp only [wrap64, IntMax, IntMin, sqrtIntMax, inRange, Gen.toU64, ge_iff_le, gt_iff_lt, ne_eq] at *; omega))

/-- generic script: both sides are if-trees over linear word conditions -/
macro "go_equiv" : tactic =>
  `(tactic| ((try simp only [decide_eq_true_eq, Bool.and_eq_true, Bool.or_eq_true, Bool.not_eq_true', decide_eq_false_iff_not,
                beq_iff_eq, bne_iff_ne, ne_eq, Bool.not_eq_eq_eq_not, Bool.not_true, Bool.not_false]) <;>
             (repeat' split) <;> (first | rfl | (exfalso; word_omega) | (congr 1; word_omega) | (congr 2; word_omega))))

theorem convertToInt_inRange {o : Obj} {b : Int} (ho : WF o) (hc : convertToInt o = some b) : inRange b := by
  cases o <;> simp [convertToInt] at hc
  · subst hc; exact ho
  · subst hc; exact inRange_bool _

theorem toU64_of_nonneg {b : Int} (hb : inRange b) (h0 : ¬ b < 0) : Gen.toU64 b = b.toNat := by
  unfold Gen.toU64; congr 1; simp only [inRange, IntMin, IntMax] at hb; omega

/-! ### the word kernels -/

theorem gen_intAdd (a b : Int) (ha : inRange a) (hb : inRange b) : Gen.intAdd a b = intAdd a b := by
  unfold Gen.intAdd intAdd; go_equiv

theorem gen_intSub (a b : Int) (ha : inRange a) (hb : inRange b) : Gen.intSub a b = intSub a b := by
  unfold Gen.intSub intSub; go_equiv

theorem gen_intMul (a b : Int) (ha : inRange a) (hb : inRange b) : Gen.intMul a b = intMul a b := by
  unfold Gen.intMul intMul; go_equiv

theorem gen_intLshift (a b : Int) (hb : inRange b) : Gen.intLshift a b = intLshift a b := by
  unfold Gen.intLshift intLshift
  by_cases h0 : b < 0
  · simp [h0]
  · simp [h0, toU64_of_nonneg hb h0]

theorem gen_neg (a : Int) (ha : inRange a) : Gen.Int_M__neg__ a = unop .neg (.int a) := by
  unfold Gen.Int_M__neg__ unop; go_equiv

theorem gen_abs (a : Int) (ha : inRange a) : Gen.Int_M__abs__ a = unop .abs (.int a) := by
  unfold Gen.Int_M__abs__ Gen.Int_M__neg__ unop; go_equiv

theorem gen_int_not_eq (a : Int) : Int.not a = -a - 1 := by
  cases a with
  | ofNat n => simp only [Int.not, Int.negSucc_eq, Int.ofNat_eq_natCast]; omega
  | negSucc n => simp only [Int.not, Int.negSucc_eq, Int.ofNat_eq_natCast]; omega

theorem gen_invert (a : Int) (ha : inRange a) : Gen.Int_M__invert__ a = unop .invert (.int a) := by
  unfold Gen.Int_M__invert__ unop
  simp only [gen_int_not_eq]
  congr 2; word_omega

theorem gen_bool (a : Int) : Gen.Int_M__bool__ a = unop .bool (.int a) := by
  unfold Gen.Int_M__bool__ unop
  by_cases h : a = 0 <;> simp [h]

theorem gen_divMod (a b : Int) (ha : inRange a) (hb : inRange b) : Gen.Int_divMod a b = intDivMod a b := by
  unfold Gen.Int_divMod intDivMod Gen.Int_M__neg__
  by_cases h0 : b = 0
  · simp [h0]
  · by_cases h1 : a = IntMin ∧ b = -1
    · obtain ⟨h1a, h1b⟩ := h1
      subst h1a h1b
      simp [IntMin, maybeInt, IntMax]
    · have hr : wrap64 (Int.tdiv a b) = Int.tdiv a b ∨ True := Or.inr trivial
      simp only [h0, decide_false, Bool.false_eq_true, if_false, beq_iff_eq]
      have h1' : ¬ ((decide (a = IntMin) && decide (b = -1)) = true) := by
        simpa [Bool.and_eq_true, decide_eq_true_eq] using h1
      have h1'' : ¬ ((a == IntMin && b == -1) = true) := by
        simpa [Bool.and_eq_true, beq_iff_eq] using h1
      simp only [h1', h1'', if_false]
      by_cases hbn : b < 0 <;> by_cases han : a < 0 <;> by_cases hm : Int.tmod a b = 0 <;>
        simp [hbn, han, hm]

/-! ### the method table (`Int.M__op__`, `Int.M__rop__`, `Int.M__iop__`) -/

/-- Go's method set of `Int` for the binary operators, as the interface dispatch of py/arithmetic.go selects it -/
def Gen.meth : BinOp → Int → Obj → Res
  | .add => Gen.Int_M__add__ | .sub => Gen.Int_M__sub__ | .mul => Gen.Int_M__mul__
  | .floordiv => Gen.Int_M__floordiv__ | .mod => Gen.Int_M__mod__
  | .lshift => Gen.Int_M__lshift__ | .rshift => Gen.Int_M__rshift__
  | .and => Gen.Int_M__and__ | .or => Gen.Int_M__or__ | .xor => Gen.Int_M__xor__
  | .lt => Gen.Int_M__lt__ | .le => Gen.Int_M__le__ | .eq => Gen.Int_M__eq__
  | .ne => Gen.Int_M__ne__ | .gt => Gen.Int_M__gt__ | .ge => Gen.Int_M__ge__

/-- reflected methods (comparisons have none) -/
def Gen.rmeth : BinOp → Option (Int → Obj → Res)
  | .add => some Gen.Int_M__radd__ | .sub => some Gen.Int_M__rsub__ | .mul => some Gen.Int_M__rmul__
  | .floordiv => some Gen.Int_M__rfloordiv__ | .mod => some Gen.Int_M__rmod__
  | .lshift => some Gen.Int_M__rlshift__ | .rshift => some Gen.Int_M__rrshift__
  | .and => some Gen.Int_M__rand__ | .or => some Gen.Int_M__ror__ | .xor => some Gen.Int_M__rxor__
  | _ => none

/-- in-place methods -/
def Gen.imeth : BinOp → Option (Int → Obj → Res)
  | .add => some Gen.Int_M__iadd__ | .sub => some Gen.Int_M__isub__ | .mul => some Gen.Int_M__imul__
  | .floordiv => some Gen.Int_M__ifloordiv__ | .mod => some Gen.Int_M__imod__
  | .lshift => some Gen.Int_M__ilshift__ | .rshift => some Gen.Int_M__irshift__
  | .and => some Gen.Int_M__iand__ | .or => some Gen.Int_M__ior__ | .xor => some Gen.Int_M__ixor__
  | _ => none

theorem and64_comm (x y : Int) : and64 x y = and64 y x := by unfold and64; rw [BitVec.and_comm]
theorem or64_comm (x y : Int) : or64 x y = or64 y x := by unfold or64; rw [BitVec.or_comm]
theorem xor64_comm (x y : Int) : xor64 x y = xor64 y x := by unfold xor64; rw [BitVec.xor_comm]

/-- every forward method of `Int` in the working tree is the model's `intMeth` -/
theorem gen_meth_eq (op : BinOp) (a : Int) (o : Obj) (ha : inRange a) (ho : WF o) :
    Gen.meth op a o = intMeth op a o := by
  cases hc : convertToInt o with
  | none =>
    cases op <;> simp [Gen.meth, intMeth, hc, Gen.Int_M__add__, Gen.Int_M__sub__, Gen.Int_M__mul__, Gen.Int_M__floordiv__,
      Gen.Int_M__mod__, Gen.Int_M__divmod__, Gen.Int_M__lshift__, Gen.Int_M__rshift__, Gen.Int_M__and__, Gen.Int_M__or__,
      Gen.Int_M__xor__, Gen.Int_M__lt__, Gen.Int_M__le__, Gen.Int_M__eq__, Gen.Int_M__ne__, Gen.Int_M__gt__, Gen.Int_M__ge__]
  | some b =>
    have hb := convertToInt_inRange ho hc
    cases op <;> simp only [Gen.meth, intMeth, hc, Gen.Int_M__add__, Gen.Int_M__sub__, Gen.Int_M__mul__, Gen.Int_M__floordiv__,
      Gen.Int_M__mod__, Gen.Int_M__divmod__, Gen.Int_M__lshift__, Gen.Int_M__rshift__, Gen.Int_M__and__, Gen.Int_M__or__,
      Gen.Int_M__xor__, Gen.Int_M__lt__, Gen.Int_M__le__, Gen.Int_M__eq__, Gen.Int_M__ne__, Gen.Int_M__gt__, Gen.Int_M__ge__,
      gen_intAdd a b ha hb, gen_intSub a b ha hb, gen_intMul a b ha hb, gen_intLshift a b hb, gen_divMod a b ha hb,
      cmpInt]
    all_goals first
      | rfl
      | (rcases intDivMod a b with e | ⟨x, y⟩ <;> rfl)
      | (by_cases h : a = b <;> simp [h]; done)
      | (by_cases h0 : b < 0 <;> simp [h0, toU64_of_nonneg hb]; done)

/-- every reflected method of `Int` in the working tree is the model's `intRMeth` -/
theorem gen_rmeth_eq (op : BinOp) (f : Int → Obj → Res) (hf : Gen.rmeth op = some f) (a : Int) (o : Obj)
    (ha : inRange a) (ho : WF o) : f a o = intRMeth op a o := by
  cases hc : convertToInt o with
  | none =>
    cases op <;> simp [Gen.rmeth] at hf <;> subst hf <;>
      simp [intRMeth, hc, Gen.Int_M__radd__, Gen.Int_M__add__, Gen.Int_M__rsub__, Gen.Int_M__rmul__, Gen.Int_M__mul__,
        Gen.Int_M__rfloordiv__, Gen.Int_M__rmod__, Gen.Int_M__rdivmod__, Gen.Int_M__rlshift__, Gen.Int_M__rrshift__,
        Gen.Int_M__rand__, Gen.Int_M__and__, Gen.Int_M__ror__, Gen.Int_M__or__, Gen.Int_M__rxor__, Gen.Int_M__xor__]
  | some b =>
    have hb := convertToInt_inRange ho hc
    cases op <;> simp [Gen.rmeth] at hf <;> subst hf <;>
      simp only [intRMeth, hc, Gen.Int_M__radd__, Gen.Int_M__add__, Gen.Int_M__rsub__, Gen.Int_M__rmul__, Gen.Int_M__mul__,
        Gen.Int_M__rfloordiv__, Gen.Int_M__rmod__, Gen.Int_M__rdivmod__, Gen.Int_M__rlshift__, Gen.Int_M__rrshift__,
        Gen.Int_M__rand__, Gen.Int_M__and__, Gen.Int_M__ror__, Gen.Int_M__or__, Gen.Int_M__rxor__, Gen.Int_M__xor__,
        gen_intAdd a b ha hb, gen_intSub b a hb ha, gen_intMul a b ha hb, gen_intLshift b a ha, gen_divMod b a hb ha,
        ]
    all_goals first
      | rfl
      | (rcases intDivMod b a with e | ⟨x, y⟩ <;> rfl)
      | (by_cases h0 : a < 0 <;> simp [h0, toU64_of_nonneg ha]; done)

/-- every in-place method of `Int` in the working tree is the forward method -/
theorem gen_imeth_eq (op : BinOp) (f : Int → Obj → Res) (hf : Gen.imeth op = some f) (a : Int) (o : Obj) :
    f a o = Gen.meth op a o := by
  cases op <;> simp [Gen.imeth] at hf <;> subst hf <;>
    simp [Gen.meth, Gen.Int_M__iadd__, Gen.Int_M__isub__, Gen.Int_M__imul__, Gen.Int_M__ifloordiv__, Gen.Int_M__floordiv__,
      Gen.Int_M__imod__, Gen.Int_M__mod__, Gen.Int_M__ilshift__, Gen.Int_M__irshift__, Gen.Int_M__iand__, Gen.Int_M__ior__,
      Gen.Int_M__ixor__]

/-- `divmod`: `Int.M__divmod__` / `Int.M__rdivmod__` -/
theorem gen_divmod_meth (a : Int) (o : Obj) (ha : inRange a) (ho : WF o) :
    Gen.Int_M__divmod__ a o = (match convertToInt o with | none => .ok (.notImpl, .notImpl) | some b => intDivMod a b) ∧
    Gen.Int_M__rdivmod__ a o = (match convertToInt o with | none => .ok (.notImpl, .notImpl) | some b => intDivMod b a) := by
  cases hc : convertToInt o with
  | none => simp [Gen.Int_M__divmod__, Gen.Int_M__rdivmod__, hc]
  | some b =>
    have hb := convertToInt_inRange ho hc
    simp [Gen.Int_M__divmod__, Gen.Int_M__rdivmod__, hc, gen_divMod a b ha hb, gen_divMod b a hb ha]

end GPy.C07
