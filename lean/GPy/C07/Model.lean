/-
C07 model: hand transliteration of py/int.go, py/bigint.go, py/bool.go (the parts
integer arithmetic reaches) and of the binary-operator dispatch in
py/arithmetic.go.  Bug-for-bug: where the Go code wraps, this wraps.

Go `Int` = int64 ↦ `Obj.int v` (invariant `inRange v`), `*BigInt` ↦ `Obj.big v`
(any value, canonical or not), math/big ↦ ℤ.
-/
import GPy.Common.Basic
namespace GPy.C07

inductive Obj where
  | int (v : Int)
  | big (v : Int)
  | bool (b : Bool)
  | none
  | float            -- an (opaque) float result: negative exponent without modulus
  | notImpl
  | pair (a b : Obj) -- divmod result
deriving DecidableEq, Repr, Inhabited

inductive Err where
  | zeroDiv | value | type | overflow
deriving DecidableEq, Repr, Inhabited

abbrev Res := Except Err Obj

def sqrtIntMax : Int := 3037000499

/-- `(*BigInt).Int` + `MaybeInt` -/
def maybeInt (x : Int) : Obj := if x ≤ IntMax ∧ IntMin ≤ x then .int x else .big x

/-- `convertToInt` -/
def convertToInt : Obj → Option Int
  | .int v => some v
  | .bool b => some (if b then 1 else 0)
  | _ => Option.none

/-- `ConvertToBigInt` -/
def convertToBig : Obj → Option Int
  | .int v => some v
  | .big v => some v
  | .bool b => some (if b then 1 else 0)
  | _ => Option.none

/-! ### word arithmetic of py/int.go -/

def intAdd (a b : Int) : Obj :=
  if a ≥ 0 then
    if b > IntMax - a then maybeInt (a + b) else .int (wrap64 (a + b))
  else
    if b < IntMin - a then maybeInt (a + b) else .int (wrap64 (a + b))

def intSub (a b : Int) : Obj :=
  if b ≥ 0 then
    if a < wrap64 (IntMin + b) then maybeInt (a - b) else .int (wrap64 (a - b))
  else
    if a > wrap64 (IntMax + b) then maybeInt (a - b) else .int (wrap64 (a - b))

def intMul (a b : Int) : Obj :=
  if a == IntMin || b == IntMin then maybeInt (a * b) else
  let absA := if a < 0 then wrap64 (-a) else a
  let absB := if b < 0 then wrap64 (-b) else b
  if absA ≤ sqrtIntMax ∧ absB ≤ sqrtIntMax then .int (wrap64 (a * b))
  else maybeInt (a * b)

/-- Go `a << shift` on int64 (shift count unsigned, ≥ 64 gives 0) -/
def goShl (a : Int) (s : Nat) : Int := if s ≥ 64 then 0 else wrap64 (a * 2 ^ s)
/-- Go `a >> shift` on int64 (arithmetic; ≥ 64 gives 0 / -1) -/
def goShr (a : Int) (s : Nat) : Int := if s ≥ 64 then (if a < 0 then -1 else 0) else a >>> s

def intLshift (a b : Int) : Res :=
  if b < 0 then .error .value else
  let s := b.toNat
  let r := goShl a s
  if goShr r s ≠ a then .ok (.big (a * 2 ^ s)) else .ok (.int r)

/-- `Int.divMod`; Go `/` and `%` truncate -/
def intDivMod (a b : Int) : Except Err (Obj × Obj) :=
  if b == 0 then .error .zeroDiv else
  if a == IntMin && b == -1 then .ok (maybeInt (-a), .int 0) else
  let result := wrap64 (Int.tdiv a b)
  let remainder := Int.tmod a b
  let negativeResult := if b < 0 then !(decide (a < 0)) else decide (a < 0)
  if negativeResult ∧ remainder ≠ 0 then .ok (.int (wrap64 (result - 1)), .int (wrap64 (remainder + b)))
  else .ok (.int result, .int remainder)

/-- `(*BigInt).divMod` (big.Int.QuoRem truncates) -/
def bigDivMod (a b : Int) : Except Err (Obj × Obj) :=
  if b == 0 then .error .zeroDiv else
  let q := Int.tdiv a b
  let r := Int.tmod a b
  let negativeResult := if b < 0 then !(decide (a < 0)) else decide (a < 0)
  if negativeResult ∧ r ≠ 0 then .ok (maybeInt (q - 1), maybeInt (r + b))
  else .ok (maybeInt q, maybeInt r)

/-- `big.Int.Exp(x, y, m)` for y ≥ 0: m = nil/0 ⇒ x**y, else x**y mod |m| in [0,|m|) -/
def bigExp (x : Int) (y : Nat) (m : Option Int) : Int :=
  match m with
  | Option.none => x ^ y
  | some m => if m == 0 then x ^ y else Int.emod (x ^ y) m

/-- `(*BigInt).pow` -/
def bigPow (a b : Int) (m : Option Int) : Res :=
  if b < 0 then
    match m with
    | some _ => .error .type
    | Option.none => .ok .float   -- a.Float() ** b.Float(): overflow of huge operands not modelled
  else
    match m with
    | some m =>
      if m == 0 then .error .value else
      let r := bigExp a b.toNat (some m)
      -- result takes the sign of the modulus
      .ok (maybeInt (if m < 0 ∧ r ≠ 0 then r + m else r))
    | Option.none => .ok (maybeInt (bigExp a b.toNat Option.none))

/-- `(*BigInt).GoInt` (Go int = int64) -/
def bigGoInt (x : Int) : Except Err Int :=
  if x ≤ IntMax ∧ IntMin ≤ x then .ok x else .error .overflow

/-! ### methods; `none` result = interface not implemented by the Go type -/

inductive BinOp where
  | add | sub | mul | floordiv | mod | lshift | rshift | and | or | xor
  | lt | le | eq | ne | gt | ge
deriving DecidableEq, Repr, Inhabited

def BinOp.all : List BinOp :=
  [.add, .sub, .mul, .floordiv, .mod, .lshift, .rshift, .and, .or, .xor, .lt, .le, .eq, .ne, .gt, .ge]

def BinOp.name : BinOp → String
  | .add => "add" | .sub => "sub" | .mul => "mul" | .floordiv => "floordiv" | .mod => "mod"
  | .lshift => "lshift" | .rshift => "rshift" | .and => "and" | .or => "or" | .xor => "xor"
  | .lt => "lt" | .le => "le" | .eq => "eq" | .ne => "ne" | .gt => "gt" | .ge => "ge"

def BinOp.isCmp : BinOp → Bool
  | .lt | .le | .eq | .ne | .gt | .ge => true
  | _ => false

/-- comparison operator with swapped operands (`Lt` tries `b.M__gt__(a)`) -/
def BinOp.swapped : BinOp → BinOp
  | .lt => .gt | .le => .ge | .gt => .lt | .ge => .le | o => o

def cmpInt (op : BinOp) (a b : Int) : Bool :=
  match op with
  | .lt => a < b | .le => a ≤ b | .eq => a == b | .ne => a != b | .gt => a > b | .ge => a ≥ b
  | _ => false

def fstOf (r : Except Err (Obj × Obj)) : Res := r.map (·.1)
def sndOf (r : Except Err (Obj × Obj)) : Res := r.map (·.2)

/-- `Int.M__op__(other)` -/
def intMeth (op : BinOp) (a : Int) (other : Obj) : Res :=
  match convertToInt other with
  | Option.none => .ok .notImpl
  | some b =>
    match op with
    | .add => .ok (intAdd a b)
    | .sub => .ok (intSub a b)
    | .mul => .ok (intMul a b)
    | .floordiv => fstOf (intDivMod a b)
    | .mod => sndOf (intDivMod a b)
    | .lshift => intLshift a b
    | .rshift => if b < 0 then .error .value else .ok (.int (goShr a b.toNat))
    | .and => .ok (.int (and64 a b))
    | .or => .ok (.int (or64 a b))
    | .xor => .ok (.int (xor64 a b))
    | o => .ok (.bool (cmpInt o a b))

/-- `Int.M__rop__(other)`: `other op a` -/
def intRMeth (op : BinOp) (a : Int) (other : Obj) : Res :=
  match convertToInt other with
  | Option.none => .ok .notImpl
  | some b =>
    match op with
    | .add => .ok (intAdd a b)
    | .sub => .ok (intSub b a)
    | .mul => .ok (intMul a b)
    | .floordiv => fstOf (intDivMod b a)
    | .mod => sndOf (intDivMod b a)
    | .lshift => intLshift b a
    | .rshift => if a < 0 then .error .value else .ok (.int (goShr b a.toNat))
    | .and => .ok (.int (and64 a b))
    | .or => .ok (.int (or64 a b))
    | .xor => .ok (.int (xor64 a b))
    | _ => .ok .notImpl

/-- `big.Int.Rsh` (floor shift); short-cut for counts beyond the operand's length -/
def bigShr (x : Int) (n : Nat) : Int :=
  if n > x.natAbs.log2 + 1 then (if x < 0 then -1 else 0) else x >>> n

def bigShift (left : Bool) (x cnt : Int) : Res :=
  match bigGoInt cnt with
  | .error e => .error e
  | .ok c => if c < 0 then .error .value else
      .ok (maybeInt (if left then x * 2 ^ c.toNat else bigShr x c.toNat))

/-- `(*BigInt).M__op__(other)` -/
def bigMeth (op : BinOp) (a : Int) (other : Obj) : Res :=
  match convertToBig other with
  | Option.none => .ok .notImpl
  | some b =>
    match op with
    | .add => .ok (maybeInt (a + b))
    | .sub => .ok (maybeInt (a - b))
    | .mul => .ok (maybeInt (a * b))
    | .floordiv => fstOf (bigDivMod a b)
    | .mod => sndOf (bigDivMod a b)
    | .lshift => bigShift true a b
    | .rshift => bigShift false a b
    | .and => .ok (maybeInt (iland a b))
    | .or => .ok (maybeInt (ilor a b))
    | .xor => .ok (maybeInt (ixor a b))
    | o => .ok (.bool (cmpInt o a b))

/-- `(*BigInt).M__rop__(other)` -/
def bigRMeth (op : BinOp) (a : Int) (other : Obj) : Res :=
  match convertToBig other with
  | Option.none => .ok .notImpl
  | some b =>
    match op with
    | .add => .ok (maybeInt (a + b))
    | .sub => .ok (maybeInt (b - a))
    | .mul => .ok (maybeInt (a * b))
    | .floordiv => fstOf (bigDivMod b a)
    | .mod => sndOf (bigDivMod b a)
    | .lshift => bigShift true b a
    | .rshift => bigShift false b a
    | .and => .ok (maybeInt (iland a b))
    | .or => .ok (maybeInt (ilor a b))
    | .xor => .ok (maybeInt (ixor a b))
    | _ => .ok .notImpl

/-- `convertToBool`: Bool, and the Ints (Floats) 0 and 1 -/
def convertToBool : Obj → Option Bool
  | .bool b => some b
  | .int v => if v == 0 then some false else if v == 1 then some true else Option.none
  | _ => Option.none

/-- `Bool.M__eq__/M__ne__` (the only binary methods `Bool` has) -/
def boolMeth (op : BinOp) (a : Bool) (other : Obj) : Option Res :=
  match op with
  | .eq => some (match convertToBool other with | some b => .ok (.bool (a == b)) | Option.none => .ok .notImpl)
  | .ne => some (match convertToBool other with | some b => .ok (.bool (a != b)) | Option.none => .ok .notImpl)
  | _ => Option.none

/-- forward method lookup: `a.(I__op__)`; `none` = not implemented by the type -/
def meth (op : BinOp) (a other : Obj) : Option Res :=
  match a with
  | .int v => some (intMeth op v other)
  | .big v => some (bigMeth op v other)
  | .bool b => boolMeth op b other
  | _ => Option.none

def rmeth (op : BinOp) (b other : Obj) : Option Res :=
  match b with
  | .int v => some (intRMeth op v other)
  | .big v => some (bigRMeth op v other)
  | _ => Option.none

def tyTag : Obj → Nat
  | .int _ => 0 | .big _ => 1 | .bool _ => 2 | .none => 3 | .float => 4 | .notImpl => 5 | .pair .. => 6

/-- `py.Add`, `py.Sub`, … , `py.Lt`, … (py/arithmetic.go) -/
def binop (op : BinOp) (a b : Obj) : Res :=
  let first : Except Err (Option Obj) :=
    match meth op a b with
    | some (.error e) => .error e
    | some (.ok r) => if r = .notImpl then .ok Option.none else .ok (some r)
    | Option.none => .ok Option.none
  match first with
  | .error e => .error e
  | .ok (some r) => .ok r
  | .ok Option.none =>
    if op.isCmp then
      -- reversed comparison, tried unconditionally
      let second : Except Err (Option Obj) :=
        match meth op.swapped b a with
        | some (.error e) => .error e
        | some (.ok r) => if r = .notImpl then .ok Option.none else .ok (some r)
        | Option.none => .ok Option.none
      match second with
      | .error e => .error e
      | .ok (some r) => .ok r
      | .ok Option.none =>
        if (op == .eq || op == .ne) && tyTag a != tyTag b then .ok (.bool (op == .ne))
        else .error .type
    else if tyTag a != tyTag b then
      match rmeth op b a with
      | some (.error e) => .error e
      | some (.ok r) => if r = .notImpl then .error .type else .ok r
      | Option.none => .error .type
    else .error .type

/-- `py.DivMod` -/
def divmod (a b : Obj) : Res :=
  let dm (x y : Obj) : Option (Except Err (Option (Obj × Obj))) :=
    match x, y with
    | .int v, o => some (match convertToInt o with
        | Option.none => .ok Option.none | some w => (intDivMod v w).map some)
    | .big v, o => some (match convertToBig o with
        | Option.none => .ok Option.none | some w => (bigDivMod v w).map some)
    | _, _ => Option.none
  let rdm (y x : Obj) : Option (Except Err (Option (Obj × Obj))) :=
    -- y.M__rdivmod__(x) = x divmod y
    match y with
    | .int v => some (match convertToInt x with
        | Option.none => .ok Option.none | some w => (intDivMod w v).map some)
    | .big v => some (match convertToBig x with
        | Option.none => .ok Option.none | some w => (bigDivMod w v).map some)
    | _ => Option.none
  match dm a b with
  | some (.error e) => .error e
  | some (.ok (some (q, r))) => .ok (.pair q r)
  | _ =>
    if tyTag a != tyTag b then
      match rdm b a with
      | some (.error e) => .error e
      | some (.ok (some (q, r))) => .ok (.pair q r)
      | _ => .error .type
    else .error .type

/-- `py.Pow(a, b, c)`; `c = none` for two-argument pow -/
def pow (a b c : Obj) : Res :=
  let powM (x : Int) (other modulus : Obj) : Res :=
    -- (*BigInt).M__pow__ ; Int.M__pow__ converts to BigInt first
    let m : Except Unit (Option Int) :=
      if modulus = .none then .ok Option.none else
        match convertToBig modulus with
        | some m => .ok (some m)
        | Option.none => .error ()
    match m with
    | .error _ => .ok .notImpl
    | .ok m =>
      match convertToBig other with
      | some y => bigPow x y m
      | Option.none => .ok .notImpl
  let first : Option Res :=
    match a with
    | .int v => some (powM v b c)
    | .big v => some (powM v b c)
    | _ => Option.none
  match first with
  | some (.error e) => .error e
  | some (.ok r) => if r ≠ .notImpl then .ok r else
      if c = .none ∧ tyTag a != tyTag b then
        match b with
        | .int v | .big v =>
          (match convertToBig a with
           | some x => bigPow x v Option.none
           | Option.none => .error .type)
        | _ => .error .type
      else .error .type
  | Option.none =>
      if c = .none ∧ tyTag a != tyTag b then
        match b with
        | .int v | .big v =>
          (match convertToBig a with
           | some x => bigPow x v Option.none
           | Option.none => .error .type)
        | _ => .error .type
      else .error .type

inductive UnOp where
  | neg | abs | invert | bool
deriving DecidableEq, Repr, Inhabited

def UnOp.all : List UnOp := [.neg, .abs, .invert, .bool]
def UnOp.name : UnOp → String
  | .neg => "neg" | .abs => "abs" | .invert => "invert" | .bool => "bool"

/-- `py.Neg/Abs/Invert/MakeBool`; Bool has none of neg/abs/invert ⇒ TypeError -/
def unop (op : UnOp) (a : Obj) : Res :=
  match op, a with
  | .neg, .int v => if v == IntMin then .ok (.big (-v)) else .ok (.int (wrap64 (-v)))
  | .neg, .big v => .ok (.big (-v))
  | .abs, .int v => if v == IntMin then .ok (.big (-v)) else if v < 0 then .ok (.int (wrap64 (-v))) else .ok (.int v)
  | .abs, .big v => if v ≥ 0 then .ok (.big v) else .ok (.big (-v))
  | .invert, .int v => .ok (.int (Int.not v))
  | .invert, .big v => .ok (.big (Int.not v))
  | .bool, .int v => .ok (.bool (v != 0))
  | .bool, .big v => .ok (.bool (v != 0))
  | .bool, .bool b => .ok (.bool b)
  | _, _ => .error .type

end GPy.C07
