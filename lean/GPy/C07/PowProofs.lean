/-
C07 pow lemmas: `big.Int.Exp` (result in [0,|m|)) adjusted to the sign of the modulus
is Python's floor modulus of the exact power.
-/
import GPy.C07.Proofs
namespace GPy.C07

theorem emod_to_fmod (p m : Int) (hm : m ≠ 0) :
    (if m < 0 ∧ Int.emod p m ≠ 0 then Int.emod p m + m else Int.emod p m) = Int.fmod p m := by
  rw [Int.fmod_eq_emod]
  simp only [Int.dvd_iff_emod_eq_zero]
  show (if m < 0 ∧ p % m ≠ 0 then p % m + m else p % m) = _
  by_cases h1 : m < 0 <;> by_cases h2 : p % m = 0
  · have : ¬ (0 ≤ m) := by omega
    simp [h1, h2]
  · have : ¬ (0 ≤ m) := by omega
    simp [h1, h2, this]
  · have : 0 ≤ m := by omega
    simp [h1, h2]
  · have : 0 ≤ m := by omega
    simp [h1, h2, this]

/-- closed form of `(*BigInt).pow` -/
theorem bigPow_closed (a b : Int) (m : Option Int) :
    denoteRes (bigPow a b m) = some (specPow a b m) ∧ ∀ r, bigPow a b m = .ok r → r ≠ .notImpl := by
  unfold bigPow specPow
  by_cases hb : b < 0
  · cases m <;> simp [hb, denoteRes]
  · cases m with
    | none => simp [hb, denoteRes, bigExp]
    | some m =>
      by_cases hm : m = 0
      · simp [hb, hm, denoteRes]
      · have hm' : (m == 0) = false := by simpa using hm
        simp only [hb, hm, hm', ↓reduceIte, Bool.false_eq_true, bigExp, denoteRes]
        rw [emod_to_fmod _ _ hm]
        simp


end GPy.C07
