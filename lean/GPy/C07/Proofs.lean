/-
C07 helper lemmas (kernel-level facts about the word arithmetic of py/int.go).
Property theorems live in Props.lean.
-/
import GPy.C07.Spec
import Mathlib.Tactic.Linarith
namespace GPy.C07

/-- well-formed object: a `py.Int` holds an int64 -/
def WF : Obj → Prop
  | .int v => inRange v
  | .pair a b => WF a ∧ WF b
  | _ => True

@[simp] theorem WF_int (v : Int) : WF (.int v) = inRange v := rfl
@[simp] theorem WF_big (v : Int) : WF (.big v) = True := rfl
@[simp] theorem WF_bool (v : Bool) : WF (.bool v) = True := rfl

@[simp] theorem maybeInt_denote (x : Int) : denoteObj (maybeInt x) = some (.int x) := by
  unfold maybeInt; split <;> rfl
@[simp] theorem maybeInt_intOf (x : Int) : intOf (maybeInt x) = some x := by
  unfold maybeInt; split <;> rfl
@[simp] theorem maybeInt_wf (x : Int) : WF (maybeInt x) := by
  unfold maybeInt; split
  · rename_i h; simp only [WF, inRange]; omega
  · trivial
@[simp] theorem maybeInt_ne_notImpl (x : Int) : maybeInt x ≠ .notImpl := by
  unfold maybeInt; split <;> simp

theorem inRange_bool (b : Bool) : inRange (if b then 1 else 0) := by
  cases b <;> simp [inRange, IntMin, IntMax]

theorem intAdd_exact {a b : Int} (ha : inRange a) (hb : inRange b) :
    denoteObj (intAdd a b) = some (.int (a + b)) ∧ WF (intAdd a b) := by
  unfold inRange IntMin IntMax at ha hb
  unfold intAdd
  split <;> split
  all_goals simp only [maybeInt_denote, maybeInt_wf, and_self, denoteObj_int, WF_int, inRange, IntMin, IntMax, wrap64, Option.some.injEq, SVal.int.injEq] at *
  all_goals omega

theorem intSub_exact {a b : Int} (ha : inRange a) (hb : inRange b) :
    denoteObj (intSub a b) = some (.int (a - b)) ∧ WF (intSub a b) := by
  unfold inRange IntMin IntMax at ha hb
  unfold intSub
  split <;> split
  all_goals simp only [maybeInt_denote, maybeInt_wf, and_self, denoteObj_int, WF_int, inRange, IntMin, IntMax, wrap64, Option.some.injEq, SVal.int.injEq] at *
  all_goals omega

@[simp] theorem intAdd_ne_notImpl (a b : Int) : intAdd a b ≠ .notImpl := by
  unfold intAdd; split <;> split <;> simp
@[simp] theorem intSub_ne_notImpl (a b : Int) : intSub a b ≠ .notImpl := by
  unfold intSub; split <;> split <;> simp
theorem ite_ne {c : Prop} [Decidable c] {a b x : Obj} (ha : a ≠ x) (hb : b ≠ x) :
    (if c then a else b) ≠ x := by split <;> assumption
@[simp] theorem intMul_ne_notImpl (a b : Int) : intMul a b ≠ .notImpl := by
  simp only [intMul]; exact ite_ne (by simp) (ite_ne (by simp) (by simp))

theorem abs_bound {a : Int} (ha : inRange a) (hm : a ≠ IntMin)
    (h : (if a < 0 then wrap64 (-a) else a) ≤ sqrtIntMax) : -3037000499 ≤ a ∧ a ≤ 3037000499 := by
  unfold inRange IntMin IntMax at *; unfold sqrtIntMax wrap64 at h
  split at h <;> omega

theorem mul_bound {a b : Int} (ha : -3037000499 ≤ a ∧ a ≤ 3037000499) (hb : -3037000499 ≤ b ∧ b ≤ 3037000499) :
    -9223372030926249001 ≤ a * b ∧ a * b ≤ 9223372030926249001 := by
  constructor <;> nlinarith [mul_nonneg (sub_nonneg.2 ha.1) (sub_nonneg.2 hb.1), mul_nonneg (sub_nonneg.2 ha.2) (sub_nonneg.2 hb.2),
    mul_nonneg (sub_nonneg.2 ha.1) (sub_nonneg.2 hb.2), mul_nonneg (sub_nonneg.2 ha.2) (sub_nonneg.2 hb.1)]

theorem intMul_exact {a b : Int} (ha : inRange a) (hb : inRange b) :
    denoteObj (intMul a b) = some (.int (a * b)) ∧ WF (intMul a b) := by
  unfold intMul
  by_cases h0 : (a == IntMin || b == IntMin) = true
  · simp [h0]
  · simp only [h0, Bool.false_eq_true, ↓reduceIte]
    simp only [Bool.or_eq_true, beq_iff_eq, not_or] at h0
    by_cases hc : (if a < 0 then wrap64 (-a) else a) ≤ sqrtIntMax ∧ (if b < 0 then wrap64 (-b) else b) ≤ sqrtIntMax
    · simp only [hc, and_self, ↓reduceIte]
      have hA := abs_bound ha h0.1 hc.1
      have hB := abs_bound hb h0.2 hc.2
      have hm := mul_bound hA hB
      generalize a * b = p at *
      simp only [denoteObj_int, WF_int, inRange, IntMin, IntMax, wrap64, Option.some.injEq, SVal.int.injEq]
      omega
    · simp [hc]

/-- floor division/modulo obtained from truncated ones the way `divMod` does it -/
theorem floor_of_trunc (a b : Int) (hb : b ≠ 0) :
    (if (if b < 0 then !(decide (a < 0)) else decide (a < 0)) = true ∧ Int.tmod a b ≠ 0
      then (Int.tdiv a b - 1, Int.tmod a b + b) else (Int.tdiv a b, Int.tmod a b))
    = (Int.fdiv a b, Int.fmod a b) := by
  rw [Int.tdiv_eq_ediv, Int.fdiv_eq_ediv, Int.tmod_eq_emod, Int.fmod_eq_emod]
  simp only [Int.dvd_iff_emod_eq_zero]
  have h1 := Int.emod_nonneg a hb
  have h2 := Int.emod_lt a hb
  generalize a / b = q at *
  generalize a % b = r at *
  rcases Int.lt_or_gt_of_ne hb with hneg | hpos
  · have : Int.sign b = -1 := Int.sign_eq_neg_one_of_neg hneg
    have hab : (b.natAbs : Int) = -b := by omega
    rw [hab] at h2
    have hnb : ¬ 0 ≤ b := by omega
    simp only [this, hneg, hnb, false_or, ↓reduceIte]
    by_cases ha : a < 0 <;> by_cases hr : r = 0
    all_goals first
      | (have ha' : ¬ 0 ≤ a := by omega
         simp [ha, ha', hr, Prod.ext_iff, hab]; try omega)
      | (have ha' : 0 ≤ a := by omega
         simp [ha, ha', hr, Prod.ext_iff, hab]; try omega)
  · have : Int.sign b = 1 := Int.sign_eq_one_of_pos hpos
    have hnb : ¬ b < 0 := by omega
    have hab : (b.natAbs : Int) = b := by omega
    rw [hab] at h2
    have hnb' : 0 ≤ b := by omega
    simp only [this, hnb, hnb', true_or, ↓reduceIte]
    by_cases ha : a < 0 <;> by_cases hr : r = 0
    all_goals first
      | (have ha' : ¬ 0 ≤ a := by omega
         simp [ha, ha', hr, Prod.ext_iff, hab]; try omega)
      | (have ha' : 0 ≤ a := by omega
         simp [ha, ha', hr, Prod.ext_iff, hab]; try omega)



theorem divmod_ranges {a b : Int} (ha : inRange a) (hb : inRange b) (h0 : b ≠ 0)
    (hx : ¬ (a = IntMin ∧ b = -1)) :
    inRange (Int.tdiv a b) ∧ inRange (Int.fdiv a b) ∧ inRange (Int.tmod a b) ∧ inRange (Int.fmod a b) := by
  rw [Int.tdiv_eq_ediv, Int.fdiv_eq_ediv, Int.tmod_eq_emod, Int.fmod_eq_emod]
  simp only [Int.dvd_iff_emod_eq_zero]
  have h1 := Int.emod_nonneg a h0
  have h2 := Int.emod_lt a h0
  have key : b * (a / b) + a % b = a := Int.mul_ediv_add_emod a b
  have hq : (a / b).natAbs ≤ a.natAbs := Int.natAbs_ediv_le_natAbs a b
  unfold inRange IntMin IntMax at *
  generalize a / b = q at *
  generalize a % b = r at *
  have hs : b.sign = if b < 0 then -1 else 1 := by
    split
    · exact Int.sign_eq_neg_one_of_neg (by assumption)
    · exact Int.sign_eq_one_of_pos (by omega)
  rw [hs]
  by_cases e1 : q = 9223372036854775808
  · subst e1; split_ifs <;> omega
  by_cases e2 : q = 9223372036854775807
  · subst e2; split_ifs <;> omega
  by_cases e3 : q = -9223372036854775808
  · subst e3; split_ifs <;> omega
  split_ifs <;> omega

theorem maybeInt_of_inRange {x : Int} (h : inRange x) : maybeInt x = .int x := by
  unfold maybeInt; unfold inRange at h; simp [h.1, h.2]

theorem intDivMod_closed {a b : Int} (ha : inRange a) (hb : inRange b) :
    intDivMod a b = if b = 0 then .error .zeroDiv else .ok (maybeInt (Int.fdiv a b), .int (Int.fmod a b)) := by
  unfold intDivMod
  by_cases h0 : b = 0
  · simp [h0]
  · simp only [beq_iff_eq, h0, ↓reduceIte, Bool.and_eq_true]
    by_cases hx : a = IntMin ∧ b = -1
    · obtain ⟨rfl, rfl⟩ := hx
      simp [IntMin]
    · simp only [hx, ↓reduceIte]
      obtain ⟨r1, r2, r3, r4⟩ := divmod_ranges ha hb h0 hx
      have key := floor_of_trunc a b h0
      rw [maybeInt_of_inRange r2]
      by_cases hc : ((if b < 0 then !(decide (a < 0)) else decide (a < 0)) = true ∧ Int.tmod a b ≠ 0)
      · rw [if_pos hc] at key ⊢
        injection key with k1 k2
        rw [wrap64_of_inRange r1, k1, k2, wrap64_of_inRange r2, wrap64_of_inRange r4]
      · rw [if_neg hc] at key ⊢
        injection key with k1 k2
        rw [wrap64_of_inRange r1, k1, k2]

theorem bigDivMod_closed (a b : Int) :
    bigDivMod a b = if b = 0 then .error .zeroDiv else .ok (maybeInt (Int.fdiv a b), maybeInt (Int.fmod a b)) := by
  unfold bigDivMod
  by_cases h0 : b = 0
  · simp [h0]
  · simp only [beq_iff_eq, h0, ↓reduceIte]
    have key := floor_of_trunc a b h0
    by_cases hc : ((if b < 0 then !(decide (a < 0)) else decide (a < 0)) = true ∧ Int.tmod a b ≠ 0)
    · rw [if_pos hc] at key ⊢
      injection key with k1 k2
      rw [k1, k2]
    · rw [if_neg hc] at key ⊢
      injection key with k1 k2
      rw [k1, k2]

end GPy.C07
