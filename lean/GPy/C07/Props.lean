/-
C07 property theorems: integer arithmetic is exact and independent of the
internal representation.  Every theorem quantifies over all operand values
(`Int`, unbounded) and all representations (`Obj.int` word / `Obj.big` canonical
or not / `Obj.bool`), at the level of the dispatching API functions
(`py.Add`, `py.Sub`, …) – the same functions the correspondence run drives.

`…_partial` theorems carry the exclusion `¬ kfBoolOnly` (known finding C07-K01);
the matching `…_witness` theorems prove the model really departs from the spec there.
-/
import GPy.C07.Proofs
import GPy.C07.TextProofs
import GPy.C07.RoundTrip
import GPy.C07.ShiftProofs
import GPy.C07.BitProofs
import GPy.C07.PowProofs
import GPy.C07.GenProofs
namespace GPy.C07

/-- shared proof script: case-split on the representations of both operands,
unfold the dispatch, finish with the kernel lemma `k` (if needed). -/
macro "side" : tactic => `(tactic| first | assumption | exact inRange_bool _ | (simp [inRange, IntMin, IntMax]; done))

theorem intAdd_denote {a b : Int} (ha : inRange a) (hb : inRange b) :
    denoteObj (intAdd a b) = some (.int (a + b)) := (intAdd_exact ha hb).1
theorem intSub_denote {a b : Int} (ha : inRange a) (hb : inRange b) :
    denoteObj (intSub a b) = some (.int (a - b)) := (intSub_exact ha hb).1
theorem intMul_denote {a b : Int} (ha : inRange a) (hb : inRange b) :
    denoteObj (intMul a b) = some (.int (a * b)) := (intMul_exact ha hb).1

macro "dispatch" : tactic => `(tactic|
  (simp [binop, divmod, meth, rmeth, intMeth, intRMeth, bigMeth, bigRMeth, boolMeth, convertToInt,
      convertToBig, convertToBool, tyTag, BinOp.isCmp, BinOp.swapped, denoteRes, cmpInt, specBin, specDivmod,
      fstOf, sndOf, Except.map, bigDivMod_closed]))


macro "finish" : tactic => `(tactic|
  (first
    | omega
    | exact Int.mul_comm _ _
    | exact Int.add_comm _ _
    | ((first | rw [intAdd_denote (by side) (by side)] | rw [intSub_denote (by side) (by side)] | rw [intMul_denote (by side) (by side)]);
       all_goals ((try split) <;> (try simp) <;> (first | omega | exact Int.mul_comm _ _ | exact Int.add_comm _ _)))))

theorem add_exact_partial (a b : Obj) (x y : Int) (ha : denote a = some x) (hb : denote b = some y)
    (wa : WF a) (wb : WF b) (hk : kfBoolOnly [a, b] = false) :
    denoteRes (binop .add a b) = some (specBin .add x y) := by
  cases a <;> cases b <;> simp [denote, kfBoolOnly, isBool] at ha hb hk <;> subst ha hb <;> (try simp only [WF_int] at wa wb)
  all_goals dispatch
  all_goals finish

theorem sub_exact_partial (a b : Obj) (x y : Int) (ha : denote a = some x) (hb : denote b = some y)
    (wa : WF a) (wb : WF b) (hk : kfBoolOnly [a, b] = false) :
    denoteRes (binop .sub a b) = some (specBin .sub x y) := by
  cases a <;> cases b <;> simp [denote, kfBoolOnly, isBool] at ha hb hk <;> subst ha hb <;> (try simp only [WF_int] at wa wb)
  all_goals dispatch
  all_goals finish

theorem mul_exact_partial (a b : Obj) (x y : Int) (ha : denote a = some x) (hb : denote b = some y)
    (wa : WF a) (wb : WF b) (hk : kfBoolOnly [a, b] = false) :
    denoteRes (binop .mul a b) = some (specBin .mul x y) := by
  cases a <;> cases b <;> simp [denote, kfBoolOnly, isBool] at ha hb hk <;> subst ha hb <;> (try simp only [WF_int] at wa wb)
  all_goals dispatch
  all_goals finish

macro "dispatchDiv" : tactic => `(tactic|
  (simp [binop, divmod, meth, rmeth, intMeth, intRMeth, bigMeth, bigRMeth, boolMeth, convertToInt,
      convertToBig, convertToBool, tyTag, BinOp.isCmp, BinOp.swapped, denoteRes, specBin, specDivmod,
      fstOf, sndOf, Except.map, bigDivMod_closed, intDivMod_closed, inRange_bool, *]))

theorem floordiv_exact_partial (a b : Obj) (x y : Int) (ha : denote a = some x) (hb : denote b = some y)
    (wa : WF a) (wb : WF b) (hk : kfBoolOnly [a, b] = false) :
    denoteRes (binop .floordiv a b) = some (specBin .floordiv x y) := by
  cases a <;> cases b <;> simp [denote, kfBoolOnly, isBool] at ha hb hk <;> subst ha hb <;> (try simp only [WF_int] at wa wb)
  all_goals dispatchDiv
  all_goals (split_ifs <;> simp_all)

theorem mod_exact_partial (a b : Obj) (x y : Int) (ha : denote a = some x) (hb : denote b = some y)
    (wa : WF a) (wb : WF b) (hk : kfBoolOnly [a, b] = false) :
    denoteRes (binop .mod a b) = some (specBin .mod x y) := by
  cases a <;> cases b <;> simp [denote, kfBoolOnly, isBool] at ha hb hk <;> subst ha hb <;> (try simp only [WF_int] at wa wb)
  all_goals dispatchDiv
  all_goals (split_ifs <;> simp_all)

theorem divmod_exact_partial (a b : Obj) (x y : Int) (ha : denote a = some x) (hb : denote b = some y)
    (wa : WF a) (wb : WF b) (hk : kfBoolOnly [a, b] = false) :
    denoteRes (divmod a b) = some (specDivmod x y) := by
  cases a <;> cases b <;> simp [denote, kfBoolOnly, isBool] at ha hb hk <;> subst ha hb <;> (try simp only [WF_int] at wa wb)
  all_goals dispatchDiv
  all_goals (split_ifs <;> simp_all [denoteObj_pair _ _ _ _ (maybeInt_intOf _) (maybeInt_intOf _), denoteObj_pair _ _ _ _ (maybeInt_intOf _) (intOf_int _)])

/-- division by zero raises ZeroDivisionError, never a value (all representations) -/
theorem zero_division (a b : Obj) (x : Int) (ha : denote a = some x) (hb : denote b = some 0)
    (wa : WF a) (wb : WF b) (hk : kfBoolOnly [a, b] = false) :
    denoteRes (binop .floordiv a b) = some (.error .zeroDiv) ∧
    denoteRes (binop .mod a b) = some (.error .zeroDiv) ∧
    denoteRes (divmod a b) = some (.error .zeroDiv) := by
  refine ⟨?_, ?_, ?_⟩
  · simpa [specBin] using floordiv_exact_partial a b x 0 ha hb wa wb hk
  · simpa [specBin] using mod_exact_partial a b x 0 ha hb wa wb hk
  · simpa [specDivmod] using divmod_exact_partial a b x 0 ha hb wa wb hk

theorem beq_decide (a b : Int) : (a == b) = decide (a = b) := by by_cases h : a = b <;> simp [h]
theorem beq_decide' (a b : Int) : (a == b) = decide (b = a) := by
  by_cases h : a = b
  · simp [h]
  · have : ¬ b = a := fun e => h e.symm
    simp [h, this]

/-- all six comparisons, every representation mix; `==`/`!=` hold even for bool/bool -/
theorem cmp_exact_partial (op : BinOp) (hop : op.isCmp = true) (a b : Obj) (x y : Int)
    (ha : denote a = some x) (hb : denote b = some y)
    (hk : kfBoolOnly [a, b] = false ∨ op = .eq ∨ op = .ne) :
    denoteRes (binop op a b) = some (specBin op x y) := by
  cases op <;> simp [BinOp.isCmp] at hop hk
  all_goals (cases a <;> cases b <;> simp [denote, kfBoolOnly, isBool] at ha hb hk <;> subst ha hb)
  all_goals dispatch
  all_goals (try split_ifs) <;> (try simp_all) <;> (try omega)
  all_goals first
    | exact beq_decide _ _
    | exact beq_decide' _ _
    | (simp only [bne, beq_decide]; done)
    | (simp only [bne, beq_decide']; done)

theorem int_not_eq (x : Int) : Int.not x = -x - 1 := by
  cases x with
  | ofNat n => simp only [Int.not, Int.ofNat_eq_natCast]; omega
  | negSucc n => simp only [Int.not, Int.ofNat_eq_natCast]; omega

theorem bne_zero_decide (x : Int) : (x != 0) = !decide (x = 0) := by
  by_cases h : x = 0 <;> simp [h]

/-- unary minus, abs, invert, truth value; bool operands of neg/abs/invert are C07-K01 -/
theorem unop_exact_partial (op : UnOp) (a : Obj) (x : Int) (ha : denote a = some x) (wa : WF a)
    (hk : isBool a = false ∨ op = .bool) :
    denoteRes (unop op a) = some (specUn op x) := by
  cases op <;> cases a <;> simp [denote, isBool] at ha hk <;> subst ha <;> (try simp only [WF_int, inRange, IntMin, IntMax] at wa)
  all_goals simp [unop, specUn, denoteRes, IntMin, wrap64, int_not_eq, bne_zero_decide]
  all_goals (try split_ifs) <;> (try simp_all) <;> (try omega)

/-- Representation independence, stated outright: two operand pairs denoting the same
integers give results denoting the same value, whatever mix of word / big / bool
representations each pair uses. -/
theorem repr_independent_partial (op : BinOp) (hop : op = .add ∨ op = .sub ∨ op = .mul ∨ op = .floordiv ∨ op = .mod)
    (a b a' b' : Obj) (x y : Int)
    (ha : denote a = some x) (hb : denote b = some y) (ha' : denote a' = some x) (hb' : denote b' = some y)
    (wa : WF a) (wb : WF b) (wa' : WF a') (wb' : WF b')
    (hk : kfBoolOnly [a, b] = false) (hk' : kfBoolOnly [a', b'] = false) :
    denoteRes (binop op a b) = denoteRes (binop op a' b') := by
  rcases hop with rfl | rfl | rfl | rfl | rfl
  · rw [add_exact_partial a b x y ha hb wa wb hk, add_exact_partial a' b' x y ha' hb' wa' wb' hk']
  · rw [sub_exact_partial a b x y ha hb wa wb hk, sub_exact_partial a' b' x y ha' hb' wa' wb' hk']
  · rw [mul_exact_partial a b x y ha hb wa wb hk, mul_exact_partial a' b' x y ha' hb' wa' wb' hk']
  · rw [floordiv_exact_partial a b x y ha hb wa wb hk, floordiv_exact_partial a' b' x y ha' hb' wa' wb' hk']
  · rw [mod_exact_partial a b x y ha hb wa wb hk, mod_exact_partial a' b' x y ha' hb' wa' wb' hk']

/-- results of the word fast paths are well-formed (an `Int` result is an int64), so
the theorems compose along any expression. -/
theorem word_results_wf {a b : Int} (ha : inRange a) (hb : inRange b) :
    WF (intAdd a b) ∧ WF (intSub a b) ∧ WF (intMul a b) :=
  ⟨(intAdd_exact ha hb).2, (intSub_exact ha hb).2, (intMul_exact ha hb).2⟩

theorem bigGoInt_eq (x : Int) : bigGoInt x = if inRange x then .ok x else .error .overflow := by
  unfold bigGoInt inRange
  by_cases h : x ≤ IntMax ∧ IntMin ≤ x
  · simp [h]
  · have : ¬ (IntMin ≤ x ∧ x ≤ IntMax) := fun h' => h ⟨h'.2, h'.1⟩
    simp [h, this]

macro "dispatchShift" : tactic => `(tactic|
  (simp [binop, meth, rmeth, intMeth, intRMeth, bigMeth, bigRMeth, boolMeth, convertToInt,
      convertToBig, convertToBool, tyTag, BinOp.isCmp, denoteRes, specBin, bigShift, bigGoInt_eq,
      intLshift_closed, inRange_bool, specShr_eq, bigShr_eq, goShr_eq, *]))

/-- `<<` for every representation mix: x·2^n, ValueError for a negative count,
OverflowError for a count that does not fit the index type (as CPython 3.4) -/
theorem lshift_exact_partial (a b : Obj) (x y : Int) (ha : denote a = some x) (hb : denote b = some y)
    (wa : WF a) (wb : WF b) (hk : kfBoolOnly [a, b] = false) :
    denoteRes (binop .lshift a b) = some (specBin .lshift x y) := by
  by_cases hy : y < 0 <;> by_cases hr : inRange y
  all_goals (cases a <;> cases b <;> simp [denote, kfBoolOnly, isBool] at ha hb hk <;> subst ha hb <;> (try simp only [WF_int] at wa wb))
  all_goals dispatchShift
  all_goals (first | done | (split_ifs <;> simp <;> done) | (exfalso; split_ifs at hy <;> omega) | (exfalso; exact hr (inRange_bool _)) | (simp_all [inRange, IntMin, IntMax]; done) | (split_ifs <;> simp_all [inRange, IntMin, IntMax] <;> omega) | trace_state)

/-- `>>` for every representation mix: ⌊x / 2^n⌋ -/
theorem rshift_exact_partial (a b : Obj) (x y : Int) (ha : denote a = some x) (hb : denote b = some y)
    (wa : WF a) (wb : WF b) (hk : kfBoolOnly [a, b] = false) :
    denoteRes (binop .rshift a b) = some (specBin .rshift x y) := by
  by_cases hy : y < 0 <;> by_cases hr : inRange y
  all_goals (cases a <;> cases b <;> simp [denote, kfBoolOnly, isBool] at ha hb hk <;> subst ha hb <;> (try simp only [WF_int] at wa wb))
  all_goals dispatchShift
  all_goals (first | done | (split_ifs <;> simp <;> done) | (exfalso; split_ifs at hy <;> omega) | (exfalso; exact hr (inRange_bool _)) | (simp_all [inRange, IntMin, IntMax]; done) | (split_ifs <;> simp_all [inRange, IntMin, IntMax] <;> omega) | trace_state)

/-- `& | ^` for every representation mix: two's complement with infinite sign extension -/
theorem bitwise_exact_partial (op : BinOp) (hop : op = .and ∨ op = .or ∨ op = .xor)
    (a b : Obj) (x y : Int) (ha : denote a = some x) (hb : denote b = some y)
    (wa : WF a) (wb : WF b) (hk : kfBoolOnly [a, b] = false) :
    denoteRes (binop op a b) = some (specBin op x y) := by
  rcases hop with rfl | rfl | rfl
  all_goals (cases a <;> cases b <;> simp [denote, kfBoolOnly, isBool] at ha hb hk <;> subst ha hb <;> (try simp only [WF_int] at wa wb))
  all_goals
    (simp [binop, meth, rmeth, intMeth, intRMeth, bigMeth, bigRMeth, boolMeth, convertToInt,
      convertToBig, convertToBool, tyTag, BinOp.isCmp, denoteRes, specBin, inRange_bool,
      and64_eq, or64_eq, xor64_eq, *])
  all_goals first | exact iland_comm _ _ | exact ilor_comm _ _ | exact ixor_comm _ _

/-- the modulus operand: `None` or a number -/
def modOf : Obj → Option (Option Int)
  | .none => some none
  | o => (denote o).map some

/-- `**` and three-argument `pow` for every representation mix: exact power; with a modulus the
result takes the sign of the modulus, modulus 0 is ValueError, a negative exponent with a modulus
is TypeError (without one the result is a float, whose value belongs to C15) -/
theorem pow_exact_partial (a b c : Obj) (x y : Int) (m : Option Int)
    (ha : denote a = some x) (hb : denote b = some y) (hc : modOf c = some m)
    (hk : ¬ (isBool a = true ∧ (isBool b = true ∨ c ≠ .none))) :
    denoteRes (pow a b c) = some (specPow x y m) := by
  obtain ⟨hden, hni⟩ := bigPow_closed x y m
  obtain ⟨hden2, hni2⟩ := bigPow_closed x y none
  cases hbp : bigPow x y m with
  | error e =>
    rw [hbp] at hden
    cases a <;> cases b <;> cases c <;> simp [denote, modOf, isBool] at ha hb hc hk <;> subst ha hb hc
    all_goals (simp [pow, convertToBig, tyTag, hbp] ; try exact hden)
  | ok r =>
    rw [hbp] at hden
    have hr := hni r hbp
    cases a <;> cases b <;> cases c <;> simp [denote, modOf, isBool] at ha hb hc hk <;> subst ha hb hc
    all_goals (simp [pow, convertToBig, tyTag, hbp, hr] ; try exact hden)

theorem pow_boolOnly_witness : denoteRes (pow (.bool true) (.bool true) .none) = some (.error .type)
    ∧ specPow 1 1 none = .ok (.int 1) := by decide

/-- Text → integer: for EVERY text and EVERY base argument, `py.IntFromString` (model)
yields exactly the value Python's `int(text, base)` grammar assigns, or ValueError
exactly when the grammar rejects the text; the result representation (word or big)
never matters. -/
theorem text_to_int_exact (str : List Char) (base : Nat) :
    (intFromString str base).bind valOf = specIntFromString str base :=
  intFromString_spec str base

/-- results of `IntFromString` on the int64 fast path really fit in an int64 is NOT claimed
here (it needs `strconv.ParseInt`'s range contract); the representation tag is compared
by the correspondence run instead. -/
example : (intFromString "  -0x00ff ".toList 0).bind valOf = some (-255) := by decide

/-- Integer → text → integer: for EVERY integer, `int(str(v))`, `int(hex(v), 16)`, `int(oct(v), 8)`,
`int(bin(v), 2)` and the same texts with base 0 (prefix-inferred) give `v` back – through the MODEL of
`py.IntFromString` applied to the spec's rendering `renderInt prefix base v` (= `specRender`, which the
correspondence run shows to be what `str/hex/oct/bin` print). -/
theorem int_text_roundtrip (v : Int) :
    (intFromString (renderInt "" 10 v).toList 10).bind valOf = some v ∧
    (intFromString (renderInt "" 10 v).toList 0).bind valOf = some v ∧
    (intFromString (renderInt "0x" 16 v).toList 16).bind valOf = some v ∧
    (intFromString (renderInt "0x" 16 v).toList 0).bind valOf = some v ∧
    (intFromString (renderInt "0o" 8 v).toList 8).bind valOf = some v ∧
    (intFromString (renderInt "0o" 8 v).toList 0).bind valOf = some v ∧
    (intFromString (renderInt "0b" 2 v).toList 2).bind valOf = some v ∧
    (intFromString (renderInt "0b" 2 v).toList 0).bind valOf = some v := by
  simp only [text_to_int_exact, renderInt_toList]
  show _ ∧ _ ∧ _ ∧ _ ∧ _ ∧ _ ∧ _ ∧ _
  refine ⟨str_int_roundtrip v 10 (.inl rfl), str_int_roundtrip v 0 (.inr rfl),
    prefixed_int_roundtrip 'x' 16 rfl (by decide) (by decide) (by decide) v 16 (.inl rfl),
    prefixed_int_roundtrip 'x' 16 rfl (by decide) (by decide) (by decide) v 0 (.inr rfl),
    prefixed_int_roundtrip 'o' 8 rfl (by decide) (by decide) (by decide) v 8 (.inl rfl),
    prefixed_int_roundtrip 'o' 8 rfl (by decide) (by decide) (by decide) v 0 (.inr rfl),
    prefixed_int_roundtrip 'b' 2 rfl (by decide) (by decide) (by decide) v 2 (.inl rfl),
    prefixed_int_roundtrip 'b' 2 rfl (by decide) (by decide) (by decide) v 0 (.inr rfl)⟩

/-! ### regenerated tie (extract/goint)

The theorems of this section are about `GPy.C07.Gen.*`: the Lean TRANSLATION of py/int.go as it stands in the
working tree, rewritten by extract/goint on every run of the check.  They are re-proved against what the code
says now; a change of py/int.go that alters what a translated function computes leaves one of them unprovable. -/

/-- the translated word kernels `intAdd`/`intSub`/`intMul` of the working tree are exact on all int64 pairs
and return well-formed (canonical: `*BigInt` only outside int64) objects -/
theorem generated_word_arith_exact (a b : Int) (ha : inRange a) (hb : inRange b) :
    denoteObj (Gen.intAdd a b) = some (.int (a + b)) ∧ denoteObj (Gen.intSub a b) = some (.int (a - b)) ∧
    denoteObj (Gen.intMul a b) = some (.int (a * b)) ∧
    WF (Gen.intAdd a b) ∧ WF (Gen.intSub a b) ∧ WF (Gen.intMul a b) := by
  rw [gen_intAdd a b ha hb, gen_intSub a b ha hb, gen_intMul a b ha hb]
  exact ⟨(intAdd_exact ha hb).1, (intSub_exact ha hb).1, (intMul_exact ha hb).1,
    (intAdd_exact ha hb).2, (intSub_exact ha hb).2, (intMul_exact ha hb).2⟩

/-- every binary method `Int.M__op__`, `Int.M__rop__`, `Int.M__iop__` of the working tree (16 + 10 + 10 Go
methods) computes the model's method table, on which all `…_exact` theorems above are stated -/
theorem generated_int_methods_are_model :
    (∀ op a o, inRange a → WF o → Gen.meth op a o = intMeth op a o) ∧
    (∀ op f, Gen.rmeth op = some f → ∀ a o, inRange a → WF o → f a o = intRMeth op a o) ∧
    (∀ op f, Gen.imeth op = some f → ∀ a o, f a o = Gen.meth op a o) :=
  ⟨gen_meth_eq, fun op f hf a o ha ho => gen_rmeth_eq op f hf a o ha ho, gen_imeth_eq⟩

/-- the unary methods and `divMod` of the working tree are the model's -/
theorem generated_unary_divmod_are_model (a b : Int) (ha : inRange a) (hb : inRange b) :
    Gen.Int_M__neg__ a = unop .neg (.int a) ∧ Gen.Int_M__abs__ a = unop .abs (.int a) ∧
    Gen.Int_M__invert__ a = unop .invert (.int a) ∧ Gen.Int_M__bool__ a = unop .bool (.int a) ∧
    Gen.Int_divMod a b = intDivMod a b ∧ Gen.intLshift a b = intLshift a b :=
  ⟨gen_neg a ha, gen_abs a ha, gen_invert a ha, gen_bool a, gen_divMod a b ha hb, gen_intLshift a b hb⟩

/-- end to end on the regenerated code: `a + b`, `a - b`, `a * b` through the translated forward method of a
machine-word receiver give the exact integer for every integer operand representation -/
theorem generated_add_sub_mul_exact (a : Int) (o : Obj) (y : Int) (ha : inRange a) (ho : WF o)
    (hy : convertToInt o = some y) :
    denoteRes (Gen.meth .add a o) = some (.ok (.int (a + y))) ∧
    denoteRes (Gen.meth .sub a o) = some (.ok (.int (a - y))) ∧
    denoteRes (Gen.meth .mul a o) = some (.ok (.int (a * y))) := by
  have hb := convertToInt_inRange ho hy
  simp only [gen_meth_eq _ a o ha ho, intMeth, hy, denoteRes]
  simp [intAdd_denote ha hb, intSub_denote ha hb, intMul_denote ha hb]

/-- how much of py/int.go the translator covered in this run (49 functions; a function the translator no longer
finds or understands makes extract/goint fail, which the check reports as a lost tie) -/
theorem generated_translation_covers : Gen.translated.length = 49 := by decide

example : Gen.intSub IntMax (-1) = .big 9223372036854775808 ∧ Gen.intMul IntMin 2 = .big (-18446744073709551616) := by decide

/-! ### witnesses for the excluded region (known finding C07-K01) -/

theorem add_boolOnly_witness : denoteRes (binop .add (.bool true) (.bool true)) = some (.error .type)
    ∧ specBin .add 1 1 = .ok (.int 2) := by decide

theorem lt_boolOnly_witness : denoteRes (binop .lt (.bool false) (.bool true)) = some (.error .type)
    ∧ specBin .lt 0 1 = .ok (.bool true) := by decide

theorem neg_bool_witness : denoteRes (unop .neg (.bool true)) = some (.error .type)
    ∧ specUn .neg 1 = .ok (.int (-1)) := by decide

/-! ### non-vacuity: the hypotheses are met at the boundary the property names -/

example : denote (.int IntMax) = some IntMax ∧ denote (.big (-1)) = some (-1) ∧ WF (.int IntMax) ∧ WF (.big (-1))
    ∧ kfBoolOnly [.int IntMax, .big (-1)] = false := by
  refine ⟨rfl, rfl, ?_, trivial, rfl⟩; simp [inRange, IntMin, IntMax]

example : denoteRes (binop .sub (.int IntMax) (.int (-1))) = some (.ok (.int 9223372036854775808)) := by decide
example : denoteRes (binop .mul (.int IntMin) (.int 2)) = some (.ok (.int (-18446744073709551616))) := by decide
example : denoteRes (binop .floordiv (.int IntMin) (.int (-1))) = some (.ok (.int 9223372036854775808)) := by decide

end GPy.C07
