/-
C07 text round trip: parsing the rendering of an integer (decimal, hex, octal,
binary; with the base given or inferred from the prefix) gives the integer back.
-/
import GPy.C07.TextProofs
import Mathlib.Tactic.IntervalCases
namespace GPy.C07

theorem digitVal_digitChar (d : Nat) (h : d < 16) : digitVal (Nat.digitChar d) = some d := by
  interval_cases d <;> rfl

theorem digitChar_ne_zero (d : Nat) (h : d < 16) (h0 : d ≠ 0) : Nat.digitChar d ≠ '0' := by
  interval_cases d <;> first | exact absurd rfl h0 | decide

theorem foldDigits_append (b : Nat) (acc : Option Nat) (xs ys : List Char) :
    foldDigits b acc (xs ++ ys) = foldDigits b (foldDigits b acc xs) ys := by
  simp [foldDigits, List.foldl_append]

/-- parsing the digits of `n` gives `n` back (bases 2..16) -/
theorem foldDigits_toDigits (b : Nat) (hb : 1 < b) (hb16 : b ≤ 16) (n : Nat) :
    foldDigits b (some 0) (Nat.toDigits b n) = some n := by
  induction n using Nat.strongRecOn with
  | _ n ih =>
    rw [Nat.toDigits_eq_if hb]
    split
    · rename_i hlt
      simp [foldDigits, digitStep, digitVal_digitChar n (by omega), hlt]
    · rename_i hge
      have hdiv : n / b < n := Nat.div_lt_self (by omega) hb
      rw [foldDigits_append, ih (n / b) hdiv]
      have hm : n % b < b := Nat.mod_lt n (by omega)
      simp only [foldDigits, List.foldl_cons, List.foldl_nil, digitStep, digitVal_digitChar (n % b) (by omega), hm, ↓reduceIte]
      congr 1
      exact Nat.div_add_mod' n b

theorem parseDigits_toDigits (b : Nat) (hb : 1 < b) (hb16 : b ≤ 16) (n : Nat) :
    parseDigits b (Nat.toDigits b n) = some n := by
  unfold parseDigits
  have : (Nat.toDigits b n).isEmpty = false := by
    cases h : Nat.toDigits b n with
    | nil => exact absurd h Nat.toDigits_ne_nil
    | cons _ _ => rfl
  rw [this]; exact foldDigits_toDigits b hb hb16 n

theorem toDigits_head_ne_zero (b : Nat) (hb : 1 < b) (hb16 : b ≤ 16) (n : Nat) (hn : n ≠ 0) :
    (Nat.toDigits b n).head? ≠ some '0' := by
  induction n using Nat.strongRecOn with
  | _ n ih =>
    rw [Nat.toDigits_eq_if hb]
    split
    · rename_i hlt
      simp only [List.head?_cons, ne_eq, Option.some.injEq]
      exact digitChar_ne_zero n (by omega) hn
    · rename_i hge
      have hdiv : n / b < n := Nat.div_lt_self (by omega) hb
      have hpos : n / b ≠ 0 := by
        have : 0 < n / b := Nat.div_pos (by omega) (by omega)
        omega
      have := ih (n / b) hdiv hpos
      cases hd : Nat.toDigits b (n / b) with
      | nil => exact absurd hd Nat.toDigits_ne_nil
      | cons c cs => rw [hd] at this; simpa using this

/-- characters produced by `toDigits` are digit characters of the base -/
theorem toDigits_chars (b : Nat) (hb : 1 < b) (hb16 : b ≤ 16) (n : Nat) :
    ∀ c ∈ Nat.toDigits b n, ∃ d, d < 16 ∧ c = Nat.digitChar d := by
  induction n using Nat.strongRecOn with
  | _ n ih =>
    rw [Nat.toDigits_eq_if hb]
    split
    · rename_i hlt
      intro c hc; simp at hc; exact ⟨n, by omega, hc⟩
    · rename_i hge
      have hdiv : n / b < n := Nat.div_lt_self (by omega) hb
      intro c hc
      rcases List.mem_append.1 hc with h | h
      · exact ih (n / b) hdiv c h
      · simp at h
        have hm : n % b < b := Nat.mod_lt n (by omega)
        exact ⟨n % b, by omega, h⟩

theorem digitChar_plain (d : Nat) (h : d < 16) :
    isGoSpace (Nat.digitChar d) = false ∧ isSign (Nat.digitChar d) = false := by
  interval_cases d <;> decide

theorem trimSpace_of_all (cs : List Char) (h : ∀ c ∈ cs, isGoSpace c = false) : trimSpace cs = cs := by
  have drop_all : ∀ l : List Char, (∀ c ∈ l, isGoSpace c = false) → l.dropWhile isGoSpace = l := by
    intro l hl
    cases l with
    | nil => rfl
    | cons c t => simp [List.dropWhile, hl c (List.mem_cons_self)]
  unfold trimSpace
  rw [drop_all cs h, drop_all cs.reverse (by intro c hc; exact h c (List.mem_reverse.1 hc)), List.reverse_reverse]

def renderChars (pref : List Char) (base : Nat) (v : Int) : List Char :=
  (if v < 0 then ['-'] else []) ++ pref ++ Nat.toDigits base v.natAbs

theorem renderInt_toList (p : String) (b : Nat) (v : Int) :
    (renderInt p b v).toList = renderChars p.toList b v := by
  unfold renderInt renderChars renderNat
  split <;> simp [String.toList_append]

theorem signed_natAbs (v : Int) : (if v < 0 then -((v.natAbs : Nat) : Int) else ((v.natAbs : Nat) : Int)) = v := by
  split <;> omega

/-- spec-level core on an unsigned digit text without prefix (decimal) -/
theorem coreS_decimal (b' : Nat) (hb' : b' = 10 ∨ b' = 0) (neg : Bool) (n : Nat) :
    coreS b' neg (Nat.toDigits 10 n) = some (if neg then -(n : Int) else (n : Int)) := by
  have hparse := parseDigits_toDigits 10 (by decide) (by decide) n
  have hpref : prefOf (Nat.toDigits 10 n) = none := by
    unfold prefOf
    split
    · rename_i c r heq
      by_cases hn : n = 0
      · subst hn; rw [Nat.toDigits_zero] at heq; simp at heq
      · have := toDigits_head_ne_zero 10 (by decide) (by decide) n hn
        rw [heq] at this; simp at this
    · rfl
  have hb : (if (b' == 0) = true then 10 else b') = 10 := by
    rcases hb' with rfl | rfl <;> rfl
  unfold coreS
  simp only [hpref, hb, hparse]
  by_cases hn : n = 0
  · subst hn; simp
  · have := toDigits_head_ne_zero 10 (by decide) (by decide) n hn
    simp [this, hn]

/-- spec-level core on a prefixed digit text -/
theorem coreS_prefixed (c : Char) (pb : Nat) (hsig : sigilOf c = some pb) (hpb : 1 < pb) (hpb16 : pb ≤ 16)
    (b' : Nat) (hb' : b' = pb ∨ b' = 0) (neg : Bool) (n : Nat) :
    coreS b' neg ('0' :: c :: Nat.toDigits pb n) = some (if neg then -(n : Int) else (n : Int)) := by
  have hparse := parseDigits_toDigits pb hpb hpb16 n
  have hpref : prefOf ('0' :: c :: Nat.toDigits pb n) = some (pb, Nat.toDigits pb n) := by
    simp [prefOf, hsig]
  have hcond : (b' == 0 || b' == pb) = true := by
    rcases hb' with rfl | rfl <;> simp
  unfold coreS
  simp only [hpref, hcond, ↓reduceIte, hparse]
  simp

theorem stripSign_digits (b : Nat) (hb : 1 < b) (hb16 : b ≤ 16) (n : Nat) :
    stripSign (Nat.toDigits b n) = (false, Nat.toDigits b n) := by
  cases h : Nat.toDigits b n with
  | nil => exact absurd h Nat.toDigits_ne_nil
  | cons c cs =>
    obtain ⟨d, hd, rfl⟩ := toDigits_chars b hb hb16 n c (by rw [h]; exact List.mem_cons_self)
    have := (digitChar_plain d hd).2
    unfold stripSign
    split
    all_goals first
      | rfl
      | (rename_i heq; simp at heq; done)
      | (rename_i heq; simp at heq; rw [← heq.1] at this; exact absurd this (by decide))

theorem render_all_plain (pref : List Char) (hp : ∀ c ∈ pref, isGoSpace c = false)
    (b : Nat) (hb : 1 < b) (hb16 : b ≤ 16) (v : Int) :
    ∀ c ∈ renderChars pref b v, isGoSpace c = false := by
  intro c hc
  unfold renderChars at hc
  rcases List.mem_append.1 hc with h | h
  · rcases List.mem_append.1 h with h | h
    · split at h
      · have hc' : c = '-' := by simpa using h
        subst hc'; decide
      · exact absurd h (by simp)
    · exact hp c h
  · obtain ⟨d, hd, rfl⟩ := toDigits_chars b hb hb16 _ c h
    exact (digitChar_plain d hd).1

/-- **decimal round trip**: `int(str(v))` and `int(str(v), 0)` give `v` back, for every integer -/
theorem str_int_roundtrip (v : Int) (b' : Nat) (hb' : b' = 10 ∨ b' = 0) :
    specIntFromString (renderChars [] 10 v) b' = some v := by
  rw [spec_core, trimSpace_of_all _ (render_all_plain [] (by simp) 10 (by decide) (by decide) v)]
  unfold renderChars
  by_cases hv : v < 0
  · simp only [hv, ↓reduceIte, List.append_nil, List.cons_append, List.nil_append, stripSign]
    rw [coreS_decimal b' hb' true]
    have h := signed_natAbs v; rw [if_pos hv] at h
    show some (-((v.natAbs : Nat) : Int)) = some v
    rw [h]
  · simp only [hv, ↓reduceIte, List.append_nil, List.nil_append]
    rw [stripSign_digits 10 (by decide) (by decide)]
    simp only
    rw [coreS_decimal b' hb' false]
    have h := signed_natAbs v; rw [if_neg hv] at h
    show some (((v.natAbs : Nat) : Int)) = some v
    rw [h]

/-- **prefixed round trip**: `int(hex(v), 16)`, `int(hex(v), 0)`, likewise oct/bin -/
theorem prefixed_int_roundtrip (c : Char) (pb : Nat) (hsig : sigilOf c = some pb) (hpb : 1 < pb) (hpb16 : pb ≤ 16)
    (hc : isGoSpace c = false) (v : Int) (b' : Nat) (hb' : b' = pb ∨ b' = 0) :
    specIntFromString (renderChars ['0', c] pb v) b' = some v := by
  rw [spec_core, trimSpace_of_all _ (render_all_plain ['0', c] (by intro x hx; simp at hx; rcases hx with rfl | rfl <;> first | decide | exact hc) pb hpb hpb16 v)]
  unfold renderChars
  by_cases hv : v < 0
  · simp only [hv, ↓reduceIte, List.cons_append, List.nil_append, stripSign]
    rw [coreS_prefixed c pb hsig hpb hpb16 b' hb' true]
    have h := signed_natAbs v; rw [if_pos hv] at h
    show some (-((v.natAbs : Nat) : Int)) = some v
    rw [h]
  · simp only [hv, ↓reduceIte, List.nil_append, List.cons_append]
    have : stripSign ('0' :: c :: Nat.toDigits pb v.natAbs) = (false, '0' :: c :: Nat.toDigits pb v.natAbs) := by
      unfold stripSign; rfl
    rw [this]
    simp only
    rw [coreS_prefixed c pb hsig hpb hpb16 b' hb' false]
    have h := signed_natAbs v; rw [if_neg hv] at h
    show some (((v.natAbs : Nat) : Int)) = some v
    rw [h]

end GPy.C07
