/-
C07 shift lemmas: Go's int64 shifts (with the overflow test of `intLshift`) and
math/big shifts against ⌊x·2^±n⌋.
-/
import GPy.C07.Proofs
import Mathlib.Tactic.IntervalCases
namespace GPy.C07

theorem pow_pos' (n : Nat) : (0 : Int) < 2 ^ n := Int.pow_pos (by decide)

/-- beyond the operand's length a floor shift gives 0 / -1 -/
theorem ediv_pow_of_small (x : Int) (n : Nat) (h : x.natAbs < 2 ^ n) :
    x / 2 ^ n = if x < 0 then -1 else 0 := by
  have hp := pow_pos' n
  have hcast : ((2 ^ n : Nat) : Int) = (2 : Int) ^ n := by simp
  have hlt : (x.natAbs : Int) < 2 ^ n := by rw [← hcast]; exact_mod_cast h
  split
  · rename_i hx
    have := (Int.ediv_emod_unique (a := x) (b := 2 ^ n) (q := -1) (r := x + 2 ^ n) hp).2 ⟨by omega, by omega, by omega⟩
    exact this.1
  · rename_i hx
    exact Int.ediv_eq_zero_of_lt (by omega) (by omega)

theorem natAbs_lt_of_log2 (x : Int) (n : Nat) (h : n > x.natAbs.log2 + 1) : x.natAbs < 2 ^ n := by
  have h1 : x.natAbs < 2 ^ (x.natAbs.log2 + 1) := Nat.lt_log2_self
  have h2 : 2 ^ (x.natAbs.log2 + 1) ≤ 2 ^ n := Nat.pow_le_pow_right (by decide) (by omega)
  omega

theorem fdiv_pow (x : Int) (n : Nat) : Int.fdiv x (2 ^ n) = x / 2 ^ n := by
  rw [Int.fdiv_eq_ediv]; simp [Int.le_of_lt (pow_pos' n)]

/-- the spec's right shift is ⌊x / 2^n⌋ (the guard in `specShr` is only an evaluation short-cut) -/
theorem specShr_eq (x : Int) (n : Nat) : specShr x n = x / 2 ^ n := by
  unfold specShr
  split
  · rename_i h; rw [ediv_pow_of_small x n (natAbs_lt_of_log2 x n h)]
  · exact fdiv_pow x n

theorem bigShr_eq (x : Int) (n : Nat) : bigShr x n = x / 2 ^ n := by
  unfold bigShr
  split
  · rename_i h; rw [ediv_pow_of_small x n (natAbs_lt_of_log2 x n h)]
  · exact Int.shiftRight_eq_div_pow x n

theorem goShr_eq {a : Int} (ha : inRange a) (s : Nat) : goShr a s = a / 2 ^ s := by
  unfold goShr
  split
  · rename_i h
    have : a.natAbs < 2 ^ s := by
      have h1 : a.natAbs ≤ 2 ^ 63 := by unfold inRange IntMin IntMax at ha; omega
      have h2 : (2 : Nat) ^ 64 ≤ 2 ^ s := Nat.pow_le_pow_right (by decide) h
      omega
    rw [ediv_pow_of_small a s this]
  · exact Int.shiftRight_eq_div_pow a s

theorem goShr_inRange {a : Int} (ha : inRange a) (s : Nat) : inRange (goShr a s) := by
  rw [goShr_eq ha]
  have hp := pow_pos' s
  have h1 : 1 ≤ (2 : Int) ^ s := by omega
  unfold inRange IntMin IntMax at *
  constructor
  · have : a / 2 ^ s ≥ a / 1 ∨ True := Or.inr trivial
    by_cases hneg : a < 0
    · have := Int.ediv_le_ediv (c := 1) (by omega) (le_refl a)
      -- a / 2^s ≥ -|a|: use natAbs bound
      have hb := Int.natAbs_ediv_le_natAbs a (2 ^ s)
      omega
    · have : 0 ≤ a / 2 ^ s := Int.ediv_nonneg (by omega) (by omega)
      omega
  · by_cases hneg : a < 0
    · have : a / 2 ^ s < 0 := Int.ediv_neg_of_neg_of_pos hneg hp
      omega
    · have hb := Int.natAbs_ediv_le_natAbs a (2 ^ s)
      omega

theorem shl_roundtrip {a : Int} (ha : inRange a) (s : Nat) (hs : s < 64)
    (h : wrap64 (a * 2 ^ s) / 2 ^ s = a) : wrap64 (a * 2 ^ s) = a * 2 ^ s := by
  unfold inRange IntMin IntMax at ha
  unfold wrap64 at *
  interval_cases s <;> simp only [Nat.reducePow, Int.reducePow] at * <;> omega

/-- the machine-word left shift either detects overflow and upconverts, or is exact -/
theorem intLshift_closed {a : Int} (ha : inRange a) (b : Int) :
    intLshift a b = if b < 0 then .error .value else
      .ok (if goShr (goShl a b.toNat) b.toNat ≠ a then .big (a * 2 ^ b.toNat) else .int (a * 2 ^ b.toNat)) := by
  unfold intLshift
  split
  · rfl
  · simp only
    by_cases hne : goShr (goShl a b.toNat) b.toNat ≠ a
    · simp [hne]
    · have heq : goShr (goShl a b.toNat) b.toNat = a := by simpa using hne
      simp only [heq, ne_eq, not_true_eq_false, ↓reduceIte]
      congr 2
      unfold goShl at heq ⊢
      split
      · rename_i h64
        simp only [h64, ↓reduceIte] at heq
        have : a = 0 := by
          unfold goShr at heq; simp [h64] at heq; exact heq.symm
        simp [this]
      · rename_i h64
        simp only [h64, ↓reduceIte] at heq
        rw [goShr_eq (wrap64_inRange _)] at heq
        exact shl_roundtrip ha _ (by omega) heq

theorem intLshift_wf {a : Int} (ha : inRange a) (b : Int) (r : Obj) (h : intLshift a b = .ok r) : WF r := by
  unfold intLshift at h
  split at h
  · cases h
  · simp only at h
    split at h
    · cases h; trivial
    · cases h
      simp only [WF_int]
      unfold goShl; split
      · simp [inRange, IntMin, IntMax]
      · exact wrap64_inRange _

end GPy.C07
