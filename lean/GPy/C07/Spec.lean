/-
C07 specification: Python's integer semantics on ℤ, written from the language
reference (not from gpython).  Values are mathematical integers; the result of
an operation is a `SVal` or the Python exception class.
-/
import GPy.C07.Model
namespace GPy.C07

inductive SVal where
  | int (v : Int)
  | bool (b : Bool)
  | pair (q r : Int)
  | float
deriving DecidableEq, Repr, Inhabited

abbrev SRes := Except Err SVal

/-- value denoted by an operand (bool is a subtype of int: False = 0, True = 1) -/
def denote : Obj → Option Int
  | .int v => some v
  | .big v => some v
  | .bool b => some (if b then 1 else 0)
  | _ => none

/-- integer held by a result object (either representation) -/
def intOf : Obj → Option Int
  | .int v => some v
  | .big v => some v
  | _ => none

/-- observable value of a result (representation forgotten) -/
def denoteObj : Obj → Option SVal
  | .int v => some (.int v)
  | .big v => some (.int v)
  | .bool b => some (.bool b)
  | .float => some .float
  | .pair a b => match intOf a, intOf b with
      | some q, some r => some (.pair q r)
      | _, _ => none
  | _ => none

@[simp] theorem denoteObj_int (v : Int) : denoteObj (.int v) = some (.int v) := rfl
@[simp] theorem denoteObj_big (v : Int) : denoteObj (.big v) = some (.int v) := rfl
@[simp] theorem denoteObj_bool (b : Bool) : denoteObj (.bool b) = some (.bool b) := rfl
@[simp] theorem intOf_int (v : Int) : intOf (.int v) = some v := rfl
@[simp] theorem intOf_big (v : Int) : intOf (.big v) = some v := rfl
theorem denoteObj_pair (a b : Obj) (q r : Int) (ha : intOf a = some q) (hb : intOf b = some r) :
    denoteObj (.pair a b) = some (.pair q r) := by simp [denoteObj, ha, hb]
@[simp] theorem denoteObj_float : denoteObj .float = some .float := rfl

def denoteRes : Res → Option SRes
  | .error e => some (.error e)
  | .ok o => (denoteObj o).map .ok

/-- ⌊x / 2^n⌋ (the guard only avoids building an astronomically large power) -/
def specShr (x : Int) (n : Nat) : Int :=
  if n > x.natAbs.log2 + 1 then (if x < 0 then -1 else 0) else Int.fdiv x (2 ^ n)

def isBool : Obj → Bool | .bool _ => true | _ => false

/-- Known finding C07-K01 (the excluded hypothesis of the `_partial` theorems):
`bool` implements no arithmetic/ordering methods of its own, so an operation whose
operands are *all* bools raises TypeError instead of computing on 0/1. -/
def kfBoolOnly (ops : List Obj) : Bool := ops.all isBool

def specBin (op : BinOp) (x y : Int) : SRes :=
  match op with
  | .add => .ok (.int (x + y))
  | .sub => .ok (.int (x - y))
  | .mul => .ok (.int (x * y))
  | .floordiv => if y = 0 then .error .zeroDiv else .ok (.int (Int.fdiv x y))
  | .mod => if y = 0 then .error .zeroDiv else .ok (.int (Int.fmod x y))
  -- CPython 3.4 converts the count to a C `ssize_t` first (`PyLong_AsSsize_t`):
  -- a count that does not fit raises OverflowError before the sign is looked at.
  | .lshift => if ¬ inRange y then .error .overflow else if y < 0 then .error .value else .ok (.int (x * 2 ^ y.toNat))
  | .rshift => if ¬ inRange y then .error .overflow else if y < 0 then .error .value else .ok (.int (specShr x y.toNat))
  | .and => .ok (.int (iland x y))     -- two's complement with infinite sign extension
  | .or => .ok (.int (ilor x y))
  | .xor => .ok (.int (ixor x y))
  | .lt => .ok (.bool (x < y))
  | .le => .ok (.bool (x ≤ y))
  | .eq => .ok (.bool (x = y))
  | .ne => .ok (.bool (x ≠ y))
  | .gt => .ok (.bool (x > y))
  | .ge => .ok (.bool (x ≥ y))

def specDivmod (x y : Int) : SRes :=
  if y = 0 then .error .zeroDiv else .ok (.pair (Int.fdiv x y) (Int.fmod x y))

/-- `pow(x, y)` / `pow(x, y, m)` -/
def specPow (x y : Int) (m : Option Int) : SRes :=
  match m with
  | none => if y < 0 then .ok .float else .ok (.int (x ^ y.toNat))
  | some m =>
    if y < 0 then .error .type
    else if m = 0 then .error .value
    else .ok (.int (Int.fmod (x ^ y.toNat) m))

def specUn (op : UnOp) (x : Int) : SRes :=
  match op with
  | .neg => .ok (.int (-x))
  | .abs => .ok (.int (if x < 0 then -x else x))
  | .invert => .ok (.int (-x - 1))
  | .bool => .ok (.bool (x ≠ 0))

end GPy.C07
