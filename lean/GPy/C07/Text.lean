/-
C07, text conversions: model of `py.IntFromString` (py/int.go) and of the
renderers (`Int.M__str__` = fmt %d, builtin hex/oct/bin), with the Python spec of
`int(text, base)` and of `str/hex/oct/bin`.

Strings are `List Char` over ASCII.  `strconv.ParseInt`, `big.Int.SetString`,
`strings.TrimSpace`, `fmt %d/%b`, `strconv.FormatInt`, `big.Int.Text` are external
calls modelled by their documented behaviour (trusted, exercised by the run).
-/
import GPy.C07.Spec
namespace GPy.C07

/-- value of a digit character in bases up to 36 -/
def digitVal (c : Char) : Option Nat :=
  if '0' ≤ c ∧ c ≤ '9' then some (c.toNat - '0'.toNat)
  else if 'a' ≤ c ∧ c ≤ 'z' then some (c.toNat - 'a'.toNat + 10)
  else if 'A' ≤ c ∧ c ≤ 'Z' then some (c.toNat - 'A'.toNat + 10)
  else none

/-- one step of positional accumulation -/
def digitStep (base : Nat) (acc : Option Nat) (c : Char) : Option Nat :=
  match acc, digitVal c with
  | some a, some d => if d < base then some (a * base + d) else none
  | _, _ => none

def foldDigits (base : Nat) (acc : Option Nat) (cs : List Char) : Option Nat :=
  cs.foldl (digitStep base) acc

/-- digits of a non-empty string in `base`, most significant first -/
def parseDigits (base : Nat) (cs : List Char) : Option Nat :=
  if cs.isEmpty then none else foldDigits base (some 0) cs

/-- `strconv.ParseInt(s, base, 64)` / `big.Int.SetString(s, base)` for base ≠ 0:
an optional sign, then at least one digit; no underscores.  (Range errors cannot
occur on the fast path, see the length guard.) -/
def goParseSigned (base : Nat) (cs : List Char) : Option Int :=
  match cs with
  | '+' :: rest => (parseDigits base rest).map (fun n => (n : Int))
  | '-' :: rest => (parseDigits base rest).map (fun n => -(n : Int))
  | _ => (parseDigits base cs).map (fun n => (n : Int))

def isGoSpace (c : Char) : Bool :=
  c == ' ' || c == '\t' || c == '\n' || c == '\x0b' || c == '\x0c' || c == '\r'

def trimSpace (cs : List Char) : List Char :=
  ((cs.dropWhile isGoSpace).reverse.dropWhile isGoSpace).reverse

def stripSign (s : List Char) : Bool × List Char :=
  match s with
  | '+' :: r => (false, r)
  | '-' :: r => (true, r)
  | _ => (false, s)

def sigilOf (c : Char) : Option Nat :=
  if c == 'x' || c == 'X' then some 16
  else if c == 'o' || c == 'O' then some 8
  else if c == 'b' || c == 'B' then some 2
  else none

def isSign (c : Char) : Bool := c == '+' || c == '-'
def isDec (c : Char) : Bool := decide ('0' ≤ c ∧ c ≤ '9')

def headIsSign (s : List Char) : Bool :=
  match s with
  | c :: _ => isSign c
  | [] => false

/-- `len(s) > 1 && s[0] == '0' && s[1] is a decimal digit && s is not all zeros` -/
def badLeadingZeros (s : List Char) : Bool :=
  match s with
  | '0' :: c1 :: _ => isDec c1 && !(s.all (· == '0'))
  | _ => false

/-- the "leading sigils" block: (convertBase, remaining text); `none` = `goto error` -/
def stripSigil (base : Nat) (s : List Char) : Option (Nat × List Char) :=
  match s with
  | '0' :: c1 :: rest =>
    match sigilOf c1 with
    | some cb =>
      if base != 0 && base != cb then some (base, s)     -- ignore sigil
      else if rest.isEmpty then none else some (cb, rest)
    | none => some (base, s)
  | _ => some (base, s)

/-- `py.IntFromString(str, base)`; `none` = ValueError -/
def intFromString (str : List Char) (base : Nat) : Option Obj :=
  let s0 := trimSpace str
  if s0.isEmpty then none else
  let (negative, s1) := stripSign s0
  if s1.isEmpty then none else
  match stripSigil base s1 with
  | none => none
  | some (cb, s) =>
    -- base 0 without sigil: decimal; leading zeros are illegal unless the literal is all zeros
    let bad0 := cb == 0 && badLeadingZeros s
    let convertBase := if cb == 0 then 10 else cb
    if bad0 then none else
    -- the sign was handled above; ParseInt/SetString would accept another one
    if headIsSign s then none else
    -- the int64 fast path and the big path compute the same value; only the
    -- representation of the result differs (MaybeInt canonicalises)
    match goParseSigned convertBase s with
    | none => none
    | some i =>
      let v := if negative then -i else i
      if s.length ≤ 12 || (convertBase ≤ 10 && s.length ≤ 18) then some (.int v)
      else some (maybeInt v)

/-! ### specification: Python's `int(text, base)` -/

/-- a base prefix `0x`/`0o`/`0b` (either case) at the start of the unsigned text -/
def prefOf (s : List Char) : Option (Nat × List Char) :=
  match s with
  | '0' :: c :: r => (sigilOf c).map (fun pb => (pb, r))
  | _ => none

/-- Python: optional whitespace, optional single sign, optional base prefix (when the
base is 0 or matches), one or more digits of the base; base 0 ⇒ decimal literals must
not have leading zeros unless the value is zero. -/
def specIntFromString (str : List Char) (base : Nat) : Option Int :=
  let (neg, s) := stripSign (trimSpace str)
  let pref : Option (Nat × List Char) := prefOf s
  let (b, digits) : Nat × List Char :=
    match pref with
    | some (pb, r) => if base == 0 || base == pb then (pb, r) else (base, s)
    | none => (if base == 0 then 10 else base, s)
  match parseDigits b digits with
  | none => none
  | some n =>
    if base == 0 && pref.isNone && n != 0 && digits.head? == some '0' then none
    else some (if neg then -(n : Int) else (n : Int))

/-- digits of `n` in `base` (lower case), most significant first -/
def renderNat (base : Nat) (n : Nat) : List Char := Nat.toDigits base n

def renderInt (pref : String) (base : Nat) (v : Int) : String :=
  (if v < 0 then "-" else "") ++ pref ++ String.ofList (renderNat base v.natAbs)

/-- spec of `str(v)`, `hex(v)`, `oct(v)`, `bin(v)` -/
def specRender (kind : String) (v : Int) : String :=
  match kind with
  | "hex" => renderInt "0x" 16 v
  | "oct" => renderInt "0o" 8 v
  | "bin" => renderInt "0b" 2 v
  | _ => renderInt "" 10 v

/-- model of the renderers: `fmt %d`, and builtin hex/oct/bin which format the
magnitude with `FormatInt`/`big.Int.Text` and re-attach the sign by slicing off the
first character of a negative rendering -/
def modelRender (kind : String) (v : Int) : String :=
  let body (base : Nat) : String := (if v < 0 then "-" else "") ++ String.ofList (renderNat base v.natAbs)
  match kind with
  | "hex" => let s := body 16; if v < 0 then "-0x" ++ (s.drop 1).toString else "0x" ++ s
  | "oct" => let s := body 8; if v < 0 then "-0o" ++ (s.drop 1).toString else "0o" ++ s
  | "bin" => (if v < 0 then "-0b" else "0b") ++ String.ofList (renderNat 2 v.natAbs)
  | _ => body 10

end GPy.C07
