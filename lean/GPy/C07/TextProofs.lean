/-
C07 text-conversion lemmas: the Go-structured `intFromString` computes exactly the
value Python's `int(text, base)` grammar assigns, for every text and every base.
-/
import GPy.C07.Text
import Mathlib.Tactic.SplitIfs
import Mathlib.Tactic.ByContra
namespace GPy.C07

def valOf : Obj → Option Int
  | .int v => some v
  | .big v => some v
  | _ => none

@[simp] theorem valOf_int (v : Int) : valOf (.int v) = some v := rfl
@[simp] theorem valOf_maybeInt (x : Int) : valOf (maybeInt x) = some x := by
  unfold maybeInt; split <;> rfl

theorem foldDigits_none (base : Nat) (cs : List Char) : foldDigits base none cs = none := by
  induction cs with
  | nil => rfl
  | cons c cs ih => simpa [foldDigits, digitStep] using ih

theorem parseDigits_cons (base : Nat) (c : Char) (cs : List Char) :
    parseDigits base (c :: cs) = foldDigits base (digitStep base (some 0) c) cs := by
  simp [parseDigits, foldDigits]

theorem digitVal_sign (c : Char) (h : isSign c = true) : digitVal c = none := by
  simp [isSign] at h
  rcases h with rfl | rfl <;> decide

theorem parseDigits_sign_head (base : Nat) (c : Char) (cs : List Char) (h : isSign c = true) :
    parseDigits base (c :: cs) = none := by
  rw [parseDigits_cons]; simp [digitStep, digitVal_sign c h, foldDigits_none]

theorem goParseSigned_nosign (base : Nat) (s : List Char)
    (h : headIsSign s = false) :
    goParseSigned base s = (parseDigits base s).map (fun n => (n : Int)) := by
  unfold goParseSigned
  split
  · simp [headIsSign, isSign] at h
  · simp [headIsSign, isSign] at h
  · rfl

/-- a successfully parsed text consists of digits of the base -/
theorem foldDigits_some_all {base : Nat} : ∀ {cs : List Char} {acc : Option Nat} {n : Nat},
    foldDigits base acc cs = some n → ∀ c ∈ cs, ∃ d, digitVal c = some d ∧ d < base := by
  intro cs
  induction cs with
  | nil => intro _ _ _ c hc; cases hc
  | cons c cs ih =>
    intro acc n h x hx
    simp only [foldDigits, List.foldl_cons] at h
    have h' : foldDigits base (digitStep base acc c) cs = some n := h
    rcases List.mem_cons.1 hx with rfl | hx
    · cases hacc : digitStep base acc x with
      | none => rw [hacc, foldDigits_none] at h'; cases h'
      | some v =>
        cases hdv : digitVal x with
        | none => cases acc <;> simp [digitStep, hdv] at hacc
        | some d =>
          refine ⟨d, rfl, ?_⟩
          cases acc with
          | none => simp [digitStep] at hacc
          | some a =>
            simp only [digitStep, hdv] at hacc
            by_cases hlt : d < base
            · exact hlt
            · simp [hlt] at hacc
    · exact ih h' x hx

theorem digitVal_zero_iff (c : Char) : digitVal c = some 0 ↔ c = '0' := by
  constructor
  · intro h
    unfold digitVal at h
    split_ifs at h with h1 h2 h3
    · have h1' : (48 : Nat) ≤ c.toNat := by
        have := h1.1
        rw [Char.le_def] at this
        exact this
      simp only [Option.some.injEq] at h
      have : c.toNat = 48 := by
        have e : '0'.toNat = 48 := rfl
        omega
      have : c = Char.ofNat 48 := by rw [← this, Char.ofNat_toNat]
      simpa using this
    · simp at h
    · simp at h
  · rintro rfl; decide

theorem foldDigits_zero_iff {base : Nat} : ∀ {cs : List Char} {a n : Nat},
    foldDigits base (some a) cs = some n → (n = 0 ↔ (a = 0 ∧ ∀ c ∈ cs, c = '0')) := by
  intro cs
  induction cs with
  | nil => intro a n h; simp [foldDigits] at h; subst h; simp
  | cons c cs ih =>
    intro a n h
    have h' : foldDigits base (digitStep base (some a) c) cs = some n := h
    cases hdv : digitVal c with
    | none => simp [digitStep, hdv, foldDigits_none] at h'
    | some d =>
      by_cases hlt : d < base
      · simp only [digitStep, hdv, hlt, ↓reduceIte] at h'
        have := ih h'
        rw [this]
        have hz : d = 0 ↔ c = '0' := by
          rw [← digitVal_zero_iff, hdv]; simp
        constructor
        · rintro ⟨h0, hall⟩
          have hb : 0 < base := by omega
          have hd0 : d = 0 := by omega
          have ha0 : a * base = 0 := by omega
          have : a = 0 := by
            rcases Nat.mul_eq_zero.1 ha0 with h | h
            · exact h
            · omega
          refine ⟨this, ?_⟩
          intro x hx
          rcases List.mem_cons.1 hx with rfl | hx
          · exact hz.1 hd0
          · exact hall x hx
        · rintro ⟨ha0, hall⟩
          have hc : c = '0' := hall c (List.mem_cons_self)
          have hd0 : d = 0 := hz.2 hc
          subst ha0; subst hd0
          exact ⟨by simp, fun x hx => hall x (List.mem_cons_of_mem _ hx)⟩
      · simp [digitStep, hdv, hlt, foldDigits_none] at h'

/-- value of the model's result -/
def resVal (r : Option Obj) : Option Int := r.bind valOf

theorem sigilOf_ne_zero {c : Char} {cb : Nat} (h : sigilOf c = some cb) : cb ≠ 0 := by
  unfold sigilOf at h; split_ifs at h <;> simp at h <;> omega

theorem digit_lt10_isDec {c : Char} {d : Nat} (h : digitVal c = some d) (hd : d < 10) : isDec c = true := by
  unfold digitVal at h
  split_ifs at h with h1 h2 h3
  · simp [isDec, h1]
  · simp at h; omega
  · simp at h; omega

/-- the part after sign stripping: model -/
def coreM (base : Nat) (negative : Bool) (s1 : List Char) : Option Obj :=
  if s1.isEmpty then none else
  match stripSigil base s1 with
  | none => none
  | some (cb, s) =>
    let bad0 := cb == 0 && badLeadingZeros s
    let convertBase := if cb == 0 then 10 else cb
    if bad0 then none else
    if headIsSign s then none else
    match goParseSigned convertBase s with
    | none => none
    | some i =>
      let v := if negative then -i else i
      if s.length ≤ 12 || (convertBase ≤ 10 && s.length ≤ 18) then some (.int v)
      else some (maybeInt v)

theorem intFromString_core (str : List Char) (base : Nat) :
    intFromString str base =
      (let s0 := trimSpace str
       if s0.isEmpty then none else coreM base (stripSign s0).1 (stripSign s0).2) := by
  unfold intFromString coreM
  simp only
  split
  · rfl
  · rfl

/-- tail of the model once the base and digit text are fixed -/
theorem tail_eq (cb : Nat) (negative : Bool) (s : List Char) :
    resVal (if headIsSign s then none else
      match goParseSigned cb s with
      | none => none
      | some i =>
        let v := if negative then -i else i
        if s.length ≤ 12 || (cb ≤ 10 && s.length ≤ 18) then some (.int v)
        else some (maybeInt v))
    = (parseDigits cb s).map (fun n => if negative then -(n : Int) else (n : Int)) := by
  by_cases hs : headIsSign s = true
  · rw [if_pos hs]
    cases s with
    | nil => simp [resVal, parseDigits]
    | cons c cs =>
      simp only [headIsSign] at hs
      simp [resVal, parseDigits_sign_head _ _ _ hs]
  · rw [if_neg hs]
    have hs' : headIsSign s = false := by simpa using hs
    rw [goParseSigned_nosign _ _ hs']
    cases parseDigits cb s with
    | none => simp [resVal]
    | some n =>
      simp only [Option.map_some]
      split_ifs <;> simp [resVal]

/-- spec after sign stripping -/
def coreS (base : Nat) (neg : Bool) (s : List Char) : Option Int :=
  let pref : Option (Nat × List Char) := prefOf s
  let (b, digits) : Nat × List Char :=
    match pref with
    | some (pb, r) => if base == 0 || base == pb then (pb, r) else (base, s)
    | none => (if base == 0 then 10 else base, s)
  match parseDigits b digits with
  | none => none
  | some n =>
    if base == 0 && pref.isNone && n != 0 && digits.head? == some '0' then none
    else some (if neg then -(n : Int) else (n : Int))

theorem spec_core (str : List Char) (base : Nat) :
    specIntFromString str base = coreS base (stripSign (trimSpace str)).1 (stripSign (trimSpace str)).2 := by
  unfold specIntFromString coreS
  rfl

/-- no sigil consumed: plain digits in `base` (10 when base = 0, with the leading-zero rule) -/
theorem nosigil_eq (base : Nat) (neg : Bool) (s : List Char) :
    resVal (let bad0 := base == 0 && badLeadingZeros s
            let convertBase := if base == 0 then 10 else base
            if bad0 then none else
            if headIsSign s then none else
            match goParseSigned convertBase s with
            | none => none
            | some i =>
              let v := if neg then -i else i
              if s.length ≤ 12 || (convertBase ≤ 10 && s.length ≤ 18) then some (.int v)
              else some (maybeInt v))
    = (match parseDigits (if base == 0 then 10 else base) s with
       | none => none
       | some n => if base == 0 && n != 0 && s.head? == some '0' then none
                   else some (if neg then -(n : Int) else (n : Int))) := by
  simp only
  by_cases hb : base = 0
  · subst hb
    simp only [beq_self_eq_true, Bool.true_and, ↓reduceIte]
    cases hp : parseDigits 10 s with
    | none =>
      by_cases hbad : badLeadingZeros s = true
      · simp [hbad, resVal]
      · simp only [hbad, Bool.false_eq_true, ↓reduceIte]
        rw [tail_eq, hp]; rfl
    | some n =>
      -- all characters are decimal digits
      have hne : s ≠ [] := by intro e; subst e; simp [parseDigits] at hp
      have hfold : foldDigits 10 (some 0) s = some n := by
        unfold parseDigits at hp
        cases s with
        | nil => exact absurd rfl hne
        | cons c cs => simpa using hp
      have hall := foldDigits_some_all hfold
      have hz := foldDigits_zero_iff hfold
      by_cases hbad : badLeadingZeros s = true
      · -- model rejects; spec must reject too
        simp only [hbad, ↓reduceIte, resVal, Option.bind_none]
        unfold badLeadingZeros at hbad
        split at hbad
        · rename_i c1 rest
          simp only [Bool.and_eq_true, Bool.not_eq_true'] at hbad
          have hn0 : n ≠ 0 := by
            intro e
            have := (hz.1 e).2
            have hall0 : ('0' :: c1 :: rest).all (· == '0') = true := by
              simp only [List.all_eq_true, beq_iff_eq]; exact this
            rw [hall0] at hbad; simp at hbad
          simp [hn0]
        · simp at hbad
      · simp only [hbad, Bool.false_eq_true, ↓reduceIte]
        rw [tail_eq, hp]
        -- spec accepts: n = 0 or head is not '0'
        have : ¬ (n ≠ 0 ∧ s.head? = some '0') := by
          rintro ⟨hn0, hh⟩
          apply hbad
          cases s with
          | nil => simp at hh
          | cons c cs =>
            simp only [List.head?_cons, Option.some.injEq] at hh
            subst hh
            cases cs with
            | nil =>
              -- single "0": n = 0
              exact absurd (hz.2 ⟨rfl, by simp⟩) hn0
            | cons c1 rest =>
              unfold badLeadingZeros
              simp only [Bool.and_eq_true, Bool.not_eq_true']
              obtain ⟨d, hd, hlt⟩ := hall c1 (by simp)
              refine ⟨digit_lt10_isDec hd hlt, ?_⟩
              by_contra hcon
              have hall0 : ('0' :: c1 :: rest).all (· == '0') = true := by simpa using hcon
              simp only [List.all_eq_true, beq_iff_eq] at hall0
              exact hn0 (hz.2 ⟨rfl, hall0⟩)
        by_cases hn0 : n = 0
        · simp [hn0]
        · have hh : ¬ s.head? = some '0' := fun h => this ⟨hn0, h⟩
          simp [hn0, hh]
  · have hb' : (base == 0) = false := by simpa using hb
    simp only [hb', Bool.false_and, Bool.false_eq_true, ↓reduceIte]
    rw [tail_eq]
    cases parseDigits base s <;> rfl

theorem coreM_nosigil (base : Nat) (neg : Bool) (s1 : List Char) (hne : s1.isEmpty = false)
    (hs : stripSigil base s1 = some (base, s1)) :
    resVal (coreM base neg s1) =
      (match parseDigits (if base == 0 then 10 else base) s1 with
       | none => none
       | some n => if base == 0 && n != 0 && s1.head? == some '0' then none
                   else some (if neg then -(n : Int) else (n : Int))) := by
  unfold coreM
  rw [hne, hs]
  exact nosigil_eq base neg s1

theorem core_eq (base : Nat) (neg : Bool) (s1 : List Char) :
    resVal (coreM base neg s1) = coreS base neg s1 := by
  by_cases hne : s1.isEmpty = true
  · have : s1 = [] := by simpa using hne
    subst this
    simp [coreM, coreS, prefOf, resVal, parseDigits]
  · have hne' : s1.isEmpty = false := by simpa using hne
    -- does s1 start with a recognised sigil?
    rcases s1 with _ | ⟨c0, _ | ⟨c1, rest⟩⟩
    · simp at hne
    · -- single character
      rw [coreM_nosigil base neg [c0] hne' (by simp [stripSigil])]
      simp [coreS, prefOf]
    · by_cases h0 : c0 = '0'
      · subst h0
        cases hsg : sigilOf c1 with
        | none =>
          rw [coreM_nosigil base neg _ hne' (by simp [stripSigil, hsg])]
          simp [coreS, prefOf, hsg]
        | some cb =>
          have hcb := sigilOf_ne_zero hsg
          by_cases hign : (base != 0 && base != cb) = true
          · rw [coreM_nosigil base neg _ hne' (by simp [stripSigil, hsg, hign])]
            have hb0 : (base == 0) = false := by
              simp only [Bool.and_eq_true, bne_iff_ne, ne_eq] at hign; simpa using hign.1
            have hbc : (base == cb) = false := by
              simp only [Bool.and_eq_true, bne_iff_ne, ne_eq] at hign; simpa using hign.2
            simp [coreS, prefOf, hsg, hb0, hbc]
          · have hcond : (base == 0 || base == cb) = true := by
              cases hb0 : (base == 0) <;> cases hbc : (base == cb) <;> simp_all
            unfold coreM
            rw [hne']
            simp only [stripSigil, hsg, hign, Bool.false_eq_true, ↓reduceIte]
            by_cases hre : rest.isEmpty = true
            · have : rest = [] := by simpa using hre
              subst this
              simp [coreS, prefOf, hsg, hcond, resVal, parseDigits]
            · simp only [hre, Bool.false_eq_true, ↓reduceIte]
              have hcb0 : (cb == 0) = false := by simpa using hcb
              simp only [hcb0, Bool.false_and, Bool.false_eq_true, ↓reduceIte]
              rw [tail_eq]
              simp [coreS, prefOf, hsg, hcond]
              cases parseDigits cb rest <;> simp
      · rw [coreM_nosigil base neg _ hne' (by
          unfold stripSigil
          split
          · rename_i heq; simp at heq; exact absurd heq.1 h0
          · rfl)]
        have : prefOf (c0 :: c1 :: rest) = none := by
          unfold prefOf
          split
          · rename_i heq; simp at heq; exact absurd heq.1 h0
          · rfl
        simp only [coreS, this]
        cases parseDigits (if (base == 0) = true then 10 else base) (c0 :: c1 :: rest) <;> simp

theorem intFromString_spec (str : List Char) (base : Nat) :
    resVal (intFromString str base) = specIntFromString str base := by
  rw [intFromString_core, spec_core]
  simp only
  by_cases h0 : (trimSpace str).isEmpty = true
  · have : trimSpace str = [] := by simpa using h0
    simp [this, resVal, stripSign, coreS, prefOf, parseDigits]
  · simp only [h0, Bool.false_eq_true, ↓reduceIte]
    exact core_eq _ _ _

end GPy.C07
