/-
C08 case generator.  One scenario per line:

  `<family> <n> <free> <seed> <opts>|<c>:<python>|<c>:<python>|...`

`n` contexts are created, context i with the ContextOpts named by the i-th two-letter entry of the
comma-separated `<opts>` (SysArgs then SysPaths, each `N` = nil slice, `E` = empty slice, `S` = supplied:
sys.argv = ['c8', '<i>'] / sys.path = ['/p<i>']; missing entry = `SS`), then the statements run in
the given order, statement `<c>:<python>` in the `__main__` module of context c (newlines written
`\n`).  `free` = 1: the harness additionally lets the n programs run freely on n goroutines
(GOMAXPROCS 1/4/16, seeded yields) and compares every context's trace with its solo trace.

V = `T0=[..];T1=[..];..|walk=disjoint` or `..|walk=shared:<module.global slots>` (model: the interleaved run; spec: every context alone, `disjoint`).
-/
import GPy.C08.Spec
namespace GPy.C08

/-! ### the process-wide part as the harness sets it up -/

def shr (i : Nat) : Ref := ⟨.shared, i⟩

def baseHeap : Ref → Option Obj := fun r =>
  if r.owner = .shared then
    match r.idx with
    | 0 => some { kind := .type, frozen := true, name := "int" }
    | 1 => some { kind := .type, frozen := true, name := "float" }
    | 2 => some { kind := .type, frozen := true, name := "ValueError" }
    | 3 => some { kind := .file, frozen := true }
    | 4 => some { kind := .dict, frozen := false }                 -- os.environ (C08-K01)
    | 5 => some { kind := .tuple, frozen := true, items := [.int 1, .int 2] }
    | 6 => some { kind := .list, frozen := false }                 -- the sys implementation's own path list
    | 7 => some { kind := .list, frozen := false }                 -- … and argv list (replaced by NewContext)
    | 8 => some { kind := .list, frozen := false, items := [.int 1, .int 2] }      -- c8a.lst
    | 9 => some { kind := .dict, frozen := false, fields := [("ck", .int 1)] }      -- c8a.cfg
    | 10 => some { kind := .list, frozen := false, items := [.int 1, .int 2] }     -- what the body of c8s binds to lst
    | 11 => some { kind := .dict, frozen := false, fields := [("ck", .int 1)] }     -- … and to cfg
    | _ => Option.none
  else Option.none

/-- the part of the registry the generated programs can tell apart.  `c8a` (Go Globals with a tuple,
a list and a dict) and `c8s` are registered by the harness.  `c8s` is SOURCE-defined
(`CodeSrc: "val = 41 + 1\nlst = [1, 2]\ncfg = {'ck': 1}\n"`): the model does not execute module
bodies; a body that is a sequence of constant bindings is represented by the values it binds, which every
instantiation creates anew – the same thing `instanceGlobals` does with list / dict Globals (only
meaningful with `shallowGlobals = false`, the only setting the generator uses). -/
def stdRegistry : List Impl := [
  { name := "builtins", globals := [("int", .ref (shr 0)), ("float", .ref (shr 1)), ("ValueError", .ref (shr 2))], methods := ["len", "print"] },
  { name := "sys", globals := [("stdout", .ref (shr 3)), ("path", .ref (shr 6)), ("argv", .ref (shr 7))], methods := ["exit"] },
  { name := "os", globals := [("environ", .ref (shr 4)), ("sep", .str "/")], methods := ["getcwd"] },
  { name := "math", globals := [("pi", .flt "3.141592653589793")], methods := ["sqrt"] },
  { name := "string", globals := [("digits", .str "0123456789")], methods := ["capwords"] },
  { name := "time", globals := [], methods := ["sleep"] },
  { name := "c8a", globals := [("val", .int 7), ("name", .str "c8a"), ("tup", .ref (shr 5)), ("lst", .ref (shr 8)), ("cfg", .ref (shr 9))], methods := ["f"] },
  { name := "c8s", globals := [("val", .int 42), ("lst", .ref (shr 10)), ("cfg", .ref (shr 11))], methods := [] }
]

def baseWorld : World := { heap := baseHeap, next := fun _ => 0, registry := stdRegistry, stores := fun _ => Option.none }

def stdWorld (n : Nat) : World :=
  (List.range n).foldl (fun w c => newContext w c ["c8", toString c] ["/p" ++ toString c]) baseWorld

/-- how one of the two ContextOpts slices is given: nil, empty, or supplied -/
inductive OptK where
  | nil | empty | some
deriving DecidableEq, Repr, Inhabited

def OptK.letter : OptK → String
  | .nil => "N" | .empty => "E" | .some => "S"

abbrev Opts := List (OptK × OptK)   -- per context: (SysArgs, SysPaths); missing = (some, some)

def optOf (opts : Opts) (c : Nat) : OptK × OptK := opts.getD c (.some, .some)

def optArgv (c : Nat) : OptK → List String
  | .some => ["c8", toString c]
  | _ => []

def optPath (c : Nat) : OptK → List String
  | .some => ["/p" ++ toString c]
  | _ => []

/-- n contexts created with the given ContextOpts -/
def optWorld (opts : Opts) (n : Nat) : World :=
  (List.range n).foldl (fun w c => newContext w c (optArgv c (optOf opts c).1) (optPath c (optOf opts c).2)) baseWorld

def renderOpts (opts : Opts) (n : Nat) : String :=
  ",".intercalate ((List.range n).map fun c => (optOf opts c).1.letter ++ (optOf opts c).2.letter)

/-! ### rendering to Python -/

def renderSel : Sel → String
  | .attr a => "." ++ a
  | .key k => "['" ++ k ++ "']"
  | .idx i => "[" ++ toString i ++ "]"

def renderPath (p : Path) : String := p.root ++ String.join (p.sels.map renderSel)

def renderExpr : Expr → String
  | .int n => if n < 0 then "(" ++ toString n ++ ")" else toString n
  | .str s => "'" ++ s ++ "'"
  | .none => "None"
  | .newList => "[]"
  | .newDict => "{}"
  | .newClass n => "type('" ++ n ++ "', (), {})"
  | .get p => renderPath p

def wrapStmt (s : String) : String := "try:\\n    " ++ s ++ "\\n    k()\\nexcept Exception as zz:\\n    ox(zz)\\n"

def renderOp : Op → String
  | .imp m => wrapStmt ("import " ++ m)
  | .obs p => "try:\\n    o(" ++ renderPath p ++ ")\\nexcept Exception as zz:\\n    ox(zz)\\n"
  | .setName x (.newClass n) => wrapStmt (if x = n then "class " ++ n ++ ": pass" else "class " ++ n ++ ": pass\\n    " ++ x ++ " = " ++ n)
  | .setName x e => wrapStmt (x ++ " = " ++ renderExpr e)
  | .setAttr p a e => wrapStmt (renderPath p ++ "." ++ a ++ " = " ++ renderExpr e)
  | .setKey p k e => wrapStmt (renderPath p ++ "['" ++ k ++ "'] = " ++ renderExpr e)
  | .append p e => wrapStmt (renderPath p ++ ".append(" ++ renderExpr e ++ ")")
  | .delAttr p a => wrapStmt ("del " ++ renderPath p ++ "." ++ a)

def renderTraces (n : Nat) (f : Nat → List String) : String :=
  ";".intercalate ((List.range n).map fun c => s!"T{c}=[" ++ ",".intercalate (f c) ++ "]")

def Op.isWrite : Op → Bool
  | .obs _ => false
  | .imp _ => false
  | _ => true

structure Scenario where
  family : String
  n : Nat
  free : Bool
  seed : Nat
  steps : List (Nat × Op)
  opts : Opts := []

def Scenario.toCase (s : Scenario) : Case :=
  let w0 := optWorld s.opts s.n
  let (w1, t) := runSteps w0 s.steps
  let (walk, slots) := walkResult w1 s.n
  let modelV := renderTraces s.n (fun c => traceOf c t) ++ "|walk=" ++ walk ++ (if slots.isEmpty then "" else ":" ++ slots)
  let specV := renderTraces s.n (fun c => soloTrace w0 c s.steps) ++ "|walk=disjoint"
  let kf := kfSharedImplGlobal s.steps
  -- non-trivial: some context writes and a DIFFERENT context observes
  let writers := (s.steps.filter (·.2.isWrite)).map (·.1)
  let nt := s.steps.any fun st => !st.2.isWrite && writers.any (· != st.1)
  let free := s.free
  let bare := (List.range s.n).any fun c => (optOf s.opts c).2 != .some
  { input := s!"{s.family} {s.n} {if free then 1 else 0} {s.seed} {renderOpts s.opts s.n}|" ++ "|".intercalate (s.steps.map fun (c, op) => toString c ++ ":" ++ renderOp op)
    modelV := modelV
    modelR := ""
    specV := specV
    -- no known finding is left (C08-K01 fixed by d8887ef): `kf` only labels the scenarios in its former region
    tags := (if nt then ["nt"] else []) ++ (if kf then ["os.environ"] else []) ++ (if bare then ["nopaths"] else []) ++ [s!"n{s.n}"] }

/-! ### family A: one mutation × one probe, every interleaving -/

def P (root : String) (sels : List Sel := []) : Path := ⟨root, sels⟩

/-- (name, mutator program for context 0, probe program for context 1) -/
def mutations : List (String × List Op × List Op) := [
  ("global", [.setName "x" (.int 100), .obs (P "x")], [.obs (P "x")]),
  ("path.append", [.imp "sys", .append (P "sys" [.attr "path"]) (.str "/leak"), .obs (P "sys" [.attr "path"])], [.imp "sys", .obs (P "sys" [.attr "path"])]),
  ("argv.append", [.imp "sys", .append (P "sys" [.attr "argv"]) (.str "leak"), .obs (P "sys" [.attr "argv"])], [.imp "sys", .obs (P "sys" [.attr "argv"]), .obs (P "sys" [.attr "argv", .idx 1])]),
  ("path.rebind", [.imp "sys", .setAttr (P "sys") "path" .newList, .obs (P "sys" [.attr "path"])], [.imp "sys", .obs (P "sys" [.attr "path"])]),
  ("path.del", [.imp "sys", .delAttr (P "sys") "path", .obs (P "sys" [.attr "path"])], [.imp "sys", .obs (P "sys" [.attr "path", .idx 0])]),
  ("path.nonlist", [.imp "sys", .setAttr (P "sys") "path" (.int 9), .imp "nosuch8"], [.imp "sys", .imp "nosuch8", .obs (P "sys" [.attr "path"])]),
  ("path.deleted", [.imp "sys", .delAttr (P "sys") "path", .imp "nosuch8"], [.imp "sys", .imp "nosuch8"]),
  ("sys.attr", [.imp "sys", .setAttr (P "sys") "flag" (.int 1), .obs (P "sys" [.attr "flag"])], [.imp "sys", .obs (P "sys" [.attr "flag"])]),
  ("builtins.len", [.imp "builtins", .setAttr (P "builtins") "len" (.int 5), .obs (P "len")], [.obs (P "len")]),
  ("builtins.new", [.imp "builtins", .setAttr (P "builtins") "zz9" (.int 7), .obs (P "zz9")], [.obs (P "zz9")]),
  ("builtins.del", [.imp "builtins", .delAttr (P "builtins") "len", .obs (P "len")], [.obs (P "len")]),
  ("shadow.len", [.setName "len" (.int 5), .obs (P "len")], [.obs (P "len")]),
  ("math.new", [.imp "math", .setAttr (P "math") "x" (.int 1), .obs (P "math" [.attr "x"])], [.imp "math", .obs (P "math" [.attr "x"])]),
  ("math.pi", [.imp "math", .setAttr (P "math") "pi" (.int 3), .obs (P "math" [.attr "pi"])], [.imp "math", .obs (P "math" [.attr "pi"])]),
  ("math.del", [.imp "math", .delAttr (P "math") "pi", .obs (P "math" [.attr "pi"])], [.imp "math", .obs (P "math" [.attr "pi"])]),
  ("os.sep", [.imp "os", .setAttr (P "os") "sep" (.str "!"), .obs (P "os" [.attr "sep"])], [.imp "os", .obs (P "os" [.attr "sep"])]),
  ("environ.key", [.imp "os", .setKey (P "os" [.attr "environ"]) "ZK" (.str "v0"), .obs (P "os" [.attr "environ", .key "ZK"])], [.imp "os", .obs (P "os" [.attr "environ", .key "ZK"])]),
  ("environ.attr", [.imp "os", .setAttr (P "os" [.attr "environ"]) "ZA" (.int 1), .obs (P "os" [.attr "environ", .attr "ZA"])], [.imp "os", .obs (P "os" [.attr "environ", .key "ZA"])]),
  ("environ.alias", [.imp "os", .setName "e" (.get (P "os" [.attr "environ"])), .setKey (P "e") "ZB" .newList, .obs (P "e" [.key "ZB"])], [.imp "os", .obs (P "os" [.attr "environ", .key "ZB"])]),
  ("environ.rebind", [.imp "os", .setAttr (P "os") "environ" .newDict, .setKey (P "os" [.attr "environ"]) "ZC" (.int 1), .obs (P "os" [.attr "environ", .key "ZC"])], [.imp "os", .obs (P "os" [.attr "environ", .key "ZC"])]),
  ("int.attr", [.setAttr (P "int") "leak" (.int 42), .obs (P "int" [.attr "leak"])], [.obs (P "int" [.attr "leak"])]),
  ("int.del", [.delAttr (P "int") "leak", .obs (P "int" [.attr "leak"])], [.obs (P "int" [.attr "leak"])]),
  ("exc.attr", [.setAttr (P "ValueError") "z" (.int 1), .obs (P "ValueError" [.attr "z"])], [.obs (P "ValueError" [.attr "z"])]),
  ("float.method", [.setAttr (P "float") "zappend" (.int 5), .obs (P "float" [.attr "zappend"])], [.obs (P "float" [.attr "zappend"])]),
  ("c8a.val", [.imp "c8a", .setAttr (P "c8a") "val" (.int 0), .obs (P "c8a" [.attr "val"])], [.imp "c8a", .obs (P "c8a" [.attr "val"])]),
  ("c8a.tup", [.imp "c8a", .append (P "c8a" [.attr "tup"]) (.int 3), .obs (P "c8a" [.attr "tup"])], [.imp "c8a", .obs (P "c8a" [.attr "tup"]), .obs (P "c8a" [.attr "tup", .idx 1])]),
  ("c8a.method", [.imp "c8a", .setAttr (P "c8a") "f" (.int 0), .obs (P "c8a" [.attr "f"])], [.imp "c8a", .obs (P "c8a" [.attr "f"])]),
  ("class.attr", [.setName "K" (.newClass "K"), .setAttr (P "K") "a" (.int 1), .obs (P "K" [.attr "a"])], [.setName "K" (.newClass "K"), .obs (P "K" [.attr "a"])]),
  ("stdout.attr", [.imp "sys", .setAttr (P "sys" [.attr "stdout"]) "x" (.int 1), .obs (P "sys" [.attr "stdout"])], [.imp "sys", .obs (P "sys" [.attr "stdout"])]),
  ("import.missing", [.imp "nosuch8", .obs (P "nosuch8")], [.imp "nosuch8"]),
  -- second round: in-place mutation through an alias, builtins rebinding, Go modules, containers in Globals, a source module
  ("path.alias", [.imp "sys", .setName "p" (.get (P "sys" [.attr "path"])), .append (P "p") (.str "/leak"), .obs (P "p")], [.imp "sys", .obs (P "sys" [.attr "path"])]),
  ("argv.alias", [.imp "sys", .setName "p" (.get (P "sys" [.attr "argv"])), .append (P "p") (.str "leak"), .obs (P "p")], [.imp "sys", .obs (P "sys" [.attr "argv"])]),
  ("path.nested", [.imp "sys", .append (P "sys" [.attr "path"]) .newList, .append (P "sys" [.attr "path", .idx 0]) (.int 1), .obs (P "sys" [.attr "path"])], [.imp "sys", .obs (P "sys" [.attr "path"]), .obs (P "sys" [.attr "path", .idx 0])]),
  ("builtins.print", [.imp "builtins", .setAttr (P "builtins") "print" .none, .obs (P "print")], [.obs (P "print"), .imp "builtins", .obs (P "builtins" [.attr "print"])]),
  ("builtins.int", [.imp "builtins", .setAttr (P "builtins") "int" (.str "x"), .obs (P "int")], [.obs (P "int")]),
  ("builtins.swap", [.imp "builtins", .setAttr (P "builtins") "len" (.get (P "print")), .delAttr (P "builtins") "print", .obs (P "len")], [.obs (P "len"), .obs (P "print")]),
  ("math.method", [.imp "math", .setAttr (P "math") "sqrt" (.int 5), .obs (P "math" [.attr "sqrt"])], [.imp "math", .obs (P "math" [.attr "sqrt"])]),
  ("time.attr", [.imp "time", .setAttr (P "time") "zone" (.str "Z"), .obs (P "time" [.attr "zone"])], [.imp "time", .obs (P "time" [.attr "zone"])]),
  ("time.method", [.imp "time", .delAttr (P "time") "sleep", .obs (P "time" [.attr "sleep"])], [.imp "time", .obs (P "time" [.attr "sleep"])]),
  ("string.digits", [.imp "string", .setAttr (P "string") "digits" (.str "9"), .obs (P "string" [.attr "digits"])], [.imp "string", .obs (P "string" [.attr "digits"]), .obs (P "string" [.attr "digits", .idx 1])]),
  ("string.del", [.imp "string", .delAttr (P "string") "digits", .obs (P "string" [.attr "digits"])], [.imp "string", .obs (P "string" [.attr "digits"])]),
  ("string.name", [.imp "string", .setAttr (P "string") "__name__" (.str "hijack"), .obs (P "string")], [.imp "string", .obs (P "string")]),
  ("c8a.lst", [.imp "c8a", .append (P "c8a" [.attr "lst"]) (.int 3), .obs (P "c8a" [.attr "lst"])], [.imp "c8a", .obs (P "c8a" [.attr "lst"])]),
  ("c8a.lst.alias", [.imp "c8a", .setName "l" (.get (P "c8a" [.attr "lst"])), .append (P "l") .newDict, .setKey (P "l" [.idx 2]) "z" (.int 1), .obs (P "l")], [.imp "c8a", .obs (P "c8a" [.attr "lst"]), .obs (P "c8a" [.attr "lst", .idx 2])]),
  ("c8a.cfg", [.imp "c8a", .setKey (P "c8a" [.attr "cfg"]) "ck" (.int 0), .setKey (P "c8a" [.attr "cfg"]) "n" (.int 5), .obs (P "c8a" [.attr "cfg"])], [.imp "c8a", .obs (P "c8a" [.attr "cfg"]), .obs (P "c8a" [.attr "cfg", .key "n"])]),
  ("c8a.cfg.attr", [.imp "c8a", .delAttr (P "c8a" [.attr "cfg"]) "ck", .obs (P "c8a" [.attr "cfg"])], [.imp "c8a", .obs (P "c8a" [.attr "cfg", .key "ck"])]),
  ("c8s.val", [.imp "c8s", .setAttr (P "c8s") "val" (.int 0), .obs (P "c8s" [.attr "val"])], [.imp "c8s", .obs (P "c8s" [.attr "val"])]),
  ("c8s.lst", [.imp "c8s", .append (P "c8s" [.attr "lst"]) (.int 3), .obs (P "c8s" [.attr "lst"])], [.imp "c8s", .obs (P "c8s" [.attr "lst"])]),
  ("c8s.cfg", [.imp "c8s", .setKey (P "c8s" [.attr "cfg"]) "ck" (.int 0), .obs (P "c8s" [.attr "cfg"])], [.imp "c8s", .obs (P "c8s" [.attr "cfg"])]),
  ("c8s.new", [.imp "c8s", .setAttr (P "c8s") "extra" .newList, .append (P "c8s" [.attr "extra"]) (.int 1), .obs (P "c8s" [.attr "extra"])], [.imp "c8s", .obs (P "c8s" [.attr "extra"])]),
  ("environ.len", [.imp "os", .setKey (P "os" [.attr "environ"]) "ZD" (.str "1"), .obs (P "os" [.attr "environ"])], [.imp "os", .obs (P "os" [.attr "environ"])]),
  ("main.name", [.setName "__name__" (.str "hijack"), .obs (P "__name__")], [.obs (P "__name__")])
]

/-- all interleavings of two step lists -/
def merges : List α → List α → List (List α)
  | [], ys => [ys]
  | xs, [] => [xs]
  | x :: xs, y :: ys => (merges xs (y :: ys)).map (x :: ·) ++ (merges (x :: xs) ys).map (y :: ·)
termination_by xs ys => xs.length + ys.length

/-- the ContextOpts family A rotates through (by interleaving number) -/
def optsCycle : Array Opts := #[
  [(.some, .some), (.some, .some)], [(.empty, .empty), (.empty, .empty)], [(.nil, .nil), (.nil, .nil)],
  [(.some, .empty), (.nil, .some)], [(.empty, .nil), (.some, .empty)]]

def familyA (limit : Nat) : List Scenario :=
  mutations.flatMap fun (name, mu, probe) =>
    let ms := merges (mu.map fun op => (0, op)) (probe.map fun op => (1, op))
    (ms.take limit).zipIdx.map fun (steps, i) =>
      { family := "A:" ++ name, n := 2, free := i < 2, seed := i, steps := steps, opts := optsCycle[i % optsCycle.size]! }

/-! ### family O: the sys.path / sys.argv mutations under EVERY combination of ContextOpts -/

def optKinds : List OptK := [.nil, .empty, .some]

/-- all 81 ways to give SysArgs / SysPaths (nil, empty, supplied) to two contexts -/
def allOpts2 : List Opts :=
  optKinds.flatMap fun a0 => optKinds.flatMap fun p0 => optKinds.flatMap fun a1 => optKinds.map fun p1 => [(a0, p0), (a1, p1)]

def sysMutations : List String := ["path.append", "argv.append", "path.alias", "argv.alias", "path.nested", "path.rebind", "path.del"]

def familyO (perOpts : Nat) : List Scenario :=
  (mutations.filter fun m => sysMutations.contains m.1).flatMap fun (name, mu, probe) =>
    let ms := merges (mu.map fun op => (0, op)) (probe.map fun op => (1, op))
    -- the interleavings in which the probe runs last / first / in the middle
    let pick := [ms.head?, ms.getLast?, ms[ms.length / 2]?].filterMap id |>.take perOpts
    allOpts2.zipIdx.flatMap fun (opts, j) =>
      pick.zipIdx.map fun (steps, i) =>
        { family := "O:" ++ name, n := 2, free := i == 0 && j % 9 == 0, seed := j * 10 + i, steps := steps, opts := opts }

/-! ### family B: seeded programs over 2 / 4 / 16 contexts -/

def names : Array String := #["x", "y", "lst", "d", "K"]
def mods : Array String := #["sys", "os", "math", "builtins", "c8a", "nosuch8", "sys", "c8s", "string", "time", "c8a"]
def attrs : Array String := #["path", "argv", "environ", "pi", "val", "tup", "a", "b", "len", "sep", "stdout", "x", "lst", "cfg", "ck", "digits", "print", "path", "argv"]

def genPath (r : Rng) : Rng × Path :=
  let (r, k) := r.nat 10
  if k < 4 then
    let (r, x) := r.pick names
    let (r, j) := r.nat 4
    if j == 0 then
      let (r, a) := r.pick attrs
      (r, ⟨x, [.attr a]⟩)
    else if j == 1 then (r, ⟨x, [.key "k"]⟩)
    else if j == 2 then
      let (r, i) := r.nat 3
      (r, ⟨x, [.idx i]⟩)
    else (r, ⟨x, []⟩)
  else if k < 9 then
    let (r, m) := r.pick mods
    let (r, j) := r.nat 5
    if j == 0 then (r, ⟨m, []⟩)
    else
      let (r, a) := r.pick attrs
      let (r, j) := r.nat 6
      if j == 0 then
        let (r, i) := r.nat 3
        (r, ⟨m, [.attr a, .idx i]⟩)
      else if j == 1 then (r, ⟨m, [.attr a, .key "ZR"]⟩)
      else (r, ⟨m, [.attr a]⟩)
  else
    let (r, x) := r.pick #["int", "float", "ValueError", "len"]
    let (r, j) := r.nat 2
    if j == 0 then (r, ⟨x, []⟩) else (r, ⟨x, [.attr "a"]⟩)

def genExpr (r : Rng) (c : Nat) : Rng × Expr :=
  let (r, k) := r.nat 8
  let (r, v) := r.nat 10
  match k with
  | 0 => (r, .newList)
  | 1 => (r, .newDict)
  | 3 => (r, .str s!"s{c}_{v}")
  | 4 => (r, .none)
  | 5 =>
    let (r, p) := genPath r
    (r, .get p)
  | _ => (r, .int (c * 100 + v))

def genOp (r : Rng) (c : Nat) : Rng × Op :=
  let (r, k) := r.nat 14
  if k == 0 then
    let (r, m) := r.pick mods
    (r, .imp m)
  else if k == 1 then (r, .setName "K" (.newClass "K"))
  else if k < 6 then
    let (r, p) := genPath r
    (r, .obs p)
  else if k < 8 then
    let (r, x) := r.pick names
    let (r, e) := genExpr r c
    (r, .setName x e)
  else if k < 10 then
    let (r, p) := genPath r
    let (r, a) := r.pick attrs
    let (r, e) := genExpr r c
    (r, .setAttr p a e)
  else if k < 11 then
    let (r, p) := genPath r
    let (r, e) := genExpr r c
    (r, .setKey p "ZR" e)
  else if k < 13 then
    let (r, p) := genPath r
    let (r, e) := genExpr r c
    (r, .append p e)
  else
    let (r, p) := genPath r
    let (r, a) := r.pick attrs
    (r, .delAttr p a)

def genProgram (r : Rng) (c : Nat) (len : Nat) : Rng × List Op := Id.run do
  let mut r := r
  let (r0, k) := r.nat 5
  r := r0
  let mut ops : List Op := if k == 0 then [.imp "sys", .imp "os"] else [.imp "sys"]
  for _ in List.range len do
    let (r', op) := genOp r c
    r := r'
    ops := ops ++ [op]
  return (r, ops)

/-- a random interleaving of the programs -/
def interleave (r : Rng) (progs : List (List Op)) : Rng × List (Nat × Op) := Id.run do
  let mut r := r
  let mut progs := progs.toArray
  let mut out : List (Nat × Op) := []
  let total := progs.foldl (fun a p => a + p.length) 0
  for _ in List.range total do
    let live := (List.range progs.size).filter fun i => !(progs[i]!).isEmpty
    let (r', j) := r.nat live.length
    r := r'
    let c := live[j]!
    match progs[c]! with
    | op :: rest =>
      out := out ++ [(c, op)]
      progs := progs.set! c rest
    | [] => pure ()
  return (r, out)

def familyB (seed count : Nat) : List Scenario := Id.run do
  let mut r : Rng := ⟨UInt64.ofNat (seed * 7919 + 17)⟩
  let mut out : List Scenario := []
  for i in List.range count do
    let n := if i % 10 == 9 then 16 else if i % 3 == 0 then 4 else 2
    let mut progs : List (List Op) := []
    for c in List.range n do
      let (r', len) := r.nat (if n == 16 then 4 else 7)
      let (r'', p) := genProgram r' c (len + 2)
      r := r''
      progs := progs ++ [p]
    let (r', steps) := interleave r progs
    r := r'
    let mut opts : Opts := []
    for _ in List.range n do
      let (r1, a) := r.pick #[OptK.nil, OptK.empty, OptK.some]
      let (r2, p) := r1.pick #[OptK.nil, OptK.empty, OptK.some]
      r := r2
      opts := opts ++ [(a, p)]
    out := { family := "B:n" ++ toString n, n := n, free := true, seed := seed * 100000 + i, steps := steps, opts := opts } :: out
  return out.reverse

def genMain (tier : String) (seed : Nat) : IO Unit := do
  let thorough := tier == "thorough"
  for s in familyA (if thorough then 1000 else 12) do
    IO.println s.toCase.line
  for s in familyO (if thorough then 3 else 1) do
    IO.println s.toCase.line
  for s in familyB seed (if thorough then 12000 else 260) do
    IO.println s.toCase.line
  -- tie-only scenarios (no model): one code object run by 16 contexts at once, concurrent py.Compile
  for i in List.range (if thorough then 12 else 3) do
    IO.println ({ input := s!"C:sharedcode 16 0 {seed * 1000 + i}", modelV := "same", specV := "same", tags := ["nt", "n16"] } : Case).line
    IO.println ({ input := s!"C:compile 16 0 {seed * 1000 + i}", modelV := "same", specV := "same", tags := ["nt", "n16"] } : Case).line
    IO.println ({ input := s!"C:srcfile {if i % 2 == 0 then 4 else 16} 0 {seed * 1000 + i}", modelV := "same", specV := "same", tags := ["nt", "nopaths"] } : Case).line
  -- tie-only: contexts whose sys.path name DIFFERENT directories holding a module of the SAME name (answer to seed C08-c)
  for i in List.range (if thorough then 24 else 6) do
    IO.println ({ input := s!"C:samename {if i % 3 == 0 then 2 else if i % 3 == 1 then 4 else 16} 0 {seed * 1000 + i}", modelV := "own", specV := "own", tags := ["nt", "samename"] } : Case).line

end GPy.C08
