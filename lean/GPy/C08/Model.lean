/-
C08 model: a WORLD of interpreter contexts over one heap (core Lean only).

Transliterates, at the granularity of one Python statement per step:
  py/module.go   Runtime/RegisterModule/GetModuleImpl (process-wide registry), NewModuleStore,
                 ModuleStore.NewModule (instanceGlobals: Globals copied one level deep AND, since fix
                 d8887ef, every list / dict value copied once more, so that no mutable container of the
                 implementation is shared by the instances; every Method re-bound to the new instance,
                 __name__/__doc__/__package__, store.modules[name], store.Builtins).
                 `World.shallowGlobals = true` selects the code BEFORE that fix (Globals.Copy() only):
                 kept for the witness theorems, never used by the generator.
  stdlib/stdlib.go NewContext as its five steps (new store; Import builtins; Import sys;
                 sys.argv = fresh list; sys.path = fresh list), ModuleInit
  py/import.go   ImportModuleLevelObject (store hit, then registry, else ImportError)
  py/frame.go    name lookup: module globals, then the context's builtins
  py/internal.go GetAttrString / SetAttrString / DeleteAttrString (incl. the refusal to write the
                 dictionary of a built-in type, fix d528452), GetItem / SetItem
  py/run.go      RunCode in an existing module (one step = one statement run in `__main__`)

Objects live in a HEAP addressed by references so that sharing by reference is expressible.
A reference carries its allocation namespace (`Owner`): Go addresses are opaque identities, and
naming them (owner, serial) makes the references a context allocates independent of what other
contexts allocate in the meantime.
-/
import GPy.Common.Basic
namespace GPy.C08

inductive Owner where
  | shared            -- allocated during package initialisation (type objects, implementation globals)
  | ctx (c : Nat)     -- allocated by a statement / NewModule running in context c
deriving DecidableEq, Repr, Inhabited

structure Ref where
  owner : Owner
  idx : Nat
deriving DecidableEq, Repr, Inhabited

inductive Val where
  | int (n : Int)
  | str (s : String)
  | flt (repr : String)   -- a py.Float, carried as its shortest decimal text (only ever rendered)
  | none
  | ref (r : Ref)
deriving DecidableEq, Repr, Inhabited

inductive Kind where
  | module | dict | list | tuple | type | method | file
deriving DecidableEq, Repr, Inhabited

/-- one heap object.  `fields` = the string-keyed part (module globals, type dictionary, dict
entries), `items` = the sequence part (list / tuple items).  `frozen` = the code refuses every
write to it (tuples, methods, files, built-in types since fix d528452). -/
structure Obj where
  kind : Kind
  frozen : Bool
  name : String := ""
  fields : List (String × Val) := []
  items : List Val := []
deriving Repr, Inhabited

/-- every value stored directly in the object -/
def Obj.vals (o : Obj) : List Val := o.fields.map (·.2) ++ o.items

/-- py.ModuleImpl (Info.Name, Globals, Methods) -/
structure Impl where
  name : String
  globals : List (String × Val)
  methods : List String
deriving Repr, Inhabited

/-- py.ModuleStore -/
structure Store where
  modules : List (String × Ref) := []
  builtins : Option Ref := Option.none
deriving Repr, Inhabited

structure World where
  heap : Ref → Option Obj
  next : Nat → Nat                 -- per context: serial of its next allocation
  registry : List Impl             -- gRuntime.ModuleImpls (process-wide, read-only after init)
  stores : Nat → Option Store      -- context id ↦ its ModuleStore (none: no such context)
  /-- which NewModule the process runs: `false` = the tree (instanceGlobals copies list/dict values,
  fix d8887ef), `true` = the code before that fix (`Globals: impl.Globals.Copy()`), for witnesses -/
  shallowGlobals : Bool := false

/-! ### programs -/

inductive Sel where
  | attr (a : String)    -- `.a`
  | key (k : String)     -- `['k']`
  | idx (i : Nat)        -- `[i]`
deriving DecidableEq, Repr, Inhabited

structure Path where
  root : String
  sels : List Sel
deriving DecidableEq, Repr, Inhabited

inductive Expr where
  | int (n : Int)
  | str (s : String)
  | none
  | newList                 -- `[]`
  | newDict                 -- `{}`
  | newClass (name : String)  -- `type('name', (), {})`
  | get (p : Path)
deriving DecidableEq, Repr, Inhabited

/-- one step = one statement (wrapped in try/except by the renderer, so every step yields exactly
one observation: the rendered value, `ok`, or `E:<class>`). -/
inductive Op where
  | imp (m : String)                         -- import m
  | obs (p : Path)                           -- o(p)
  | setName (x : String) (e : Expr)          -- x = e
  | setAttr (p : Path) (a : String) (e : Expr)   -- p.a = e
  | setKey (p : Path) (k : String) (e : Expr)    -- p['k'] = e
  | append (p : Path) (e : Expr)             -- p.append(e)
  | delAttr (p : Path) (a : String)          -- del p.a
deriving DecidableEq, Repr, Inhabited

/-! ### effects: what a step does to the world -/

inductive Eff where
  | put (r : Ref) (o : Obj)               -- heap[r] := o
  | bump (n : Nat)                        -- n more objects were allocated by the stepping context
  | bindModule (name : String) (r : Ref)  -- store.modules[name] = r
  | setBuiltins (r : Ref)                 -- store.Builtins = r
deriving Repr, Inhabited

def setField (k : String) (v : Val) : List (String × Val) → List (String × Val)
  | [] => [(k, v)]
  | (k', v') :: rest => if k' = k then (k, v) :: rest else (k', v') :: setField k v rest

def delField (k : String) : List (String × Val) → List (String × Val)
  | [] => []
  | (k', v') :: rest => if k' = k then rest else (k', v') :: delField k rest

def setMod (k : String) (r : Ref) : List (String × Ref) → List (String × Ref)
  | [] => [(k, r)]
  | (k', r') :: rest => if k' = k then (k, r) :: rest else (k', r') :: setMod k r rest

def updStore (c : Nat) (w : World) (f : Store → Store) : World :=
  let s : Store := match w.stores c with
    | some s => s
    | Option.none => {}
  let s' := f s
  { w with stores := fun c' => if c' = c then some s' else w.stores c' }

def applyEff (c : Nat) (w : World) : Eff → World
  | .put r o => { w with heap := fun r' => if r' = r then some o else w.heap r' }
  | .bump n => { w with next := fun c' => if c' = c then w.next c + n else w.next c' }
  | .bindModule name r => updStore c w (fun s => { s with modules := setMod name r s.modules })
  | .setBuiltins r => updStore c w (fun s => { s with builtins := some r })

def applyEffs (c : Nat) (w : World) (effs : List Eff) : World := effs.foldl (applyEff c) w

/-! ### reading: names, attributes, items -/

/-- kinds whose attributes live in `fields` (IGetDict: Module, Type, and – a gpython quirk –
StringDict, whose GetDict is the dictionary itself, so `d.a` and `d['a']` are the same slot) -/
def Kind.hasDict : Kind → Bool
  | .module | .type | .dict => true
  | _ => false

def kindName : Kind → String
  | .module => "module" | .dict => "dict" | .list => "list" | .tuple => "tuple"
  | .type => "type" | .method => "method" | .file => "file"

/-- LOAD_NAME at module level (py/frame.go Lookup): the module's globals, then the builtins -/
def rootLookup (w : World) (c : Nat) (x : String) : Except String Val :=
  match w.stores c with
  | Option.none => .error "SystemError"
  | some s =>
    match s.modules.lookup "__main__" with
    | Option.none => .error "SystemError"
    | some m =>
      match w.heap m with
      | Option.none => .error "SystemError"
      | some mo =>
        match mo.fields.lookup x with
        | some v => .ok v
        | Option.none =>
          match s.builtins with
          | Option.none => .error "NameError"
          | some b =>
            match w.heap b with
            | Option.none => .error "SystemError"
            | some bo =>
              match bo.fields.lookup x with
              | some v => .ok v
              | Option.none => .error "NameError"

def selStep (w : World) (v : Val) (s : Sel) : Except String Val :=
  match s with
  | .attr a =>
    match v with
    | .ref r =>
      match w.heap r with
      | some o =>
        if o.kind.hasDict then
          match o.fields.lookup a with
          | some x => .ok x
          | Option.none => .error "AttributeError"
        else .error "AttributeError"
      | Option.none => .error "SystemError"
    | _ => .error "AttributeError"
  | .key k =>
    match v with
    | .ref r =>
      match w.heap r with
      | some o =>
        if o.kind = .dict then
          match o.fields.lookup k with
          | some x => .ok x
          | Option.none => .error "KeyError"
        else .error "TypeError"
      | Option.none => .error "SystemError"
    | _ => .error "TypeError"
  | .idx i =>
    match v with
    | .ref r =>
      match w.heap r with
      | some o =>
        if o.kind = .list ∨ o.kind = .tuple then
          match o.items[i]? with
          | some x => .ok x
          | Option.none => .error "IndexError"
        else if o.kind = .dict then .error "KeyError"
        else .error "TypeError"
      | Option.none => .error "SystemError"
    | .str s =>
      match s.toList[i]? with
      | some ch => .ok (.str (String.singleton ch))
      | Option.none => .error "IndexError"
    | _ => .error "TypeError"

def selSteps (w : World) (v : Val) : List Sel → Except String Val
  | [] => .ok v
  | s :: rest =>
    match selStep w v s with
    | .ok v' => selSteps w v' rest
    | .error e => .error e

def resolve (w : World) (c : Nat) (p : Path) : Except String Val :=
  match rootLookup w c p.root with
  | .ok v => selSteps w v p.sels
  | .error e => .error e

/-! ### rendering an observation (shallow: nested objects appear as `*`) -/

def renderScalar : Val → String
  | .int n => toString n
  | .str s => "'" ++ s ++ "'"
  | .flt s => "f" ++ s
  | .none => "None"
  | .ref _ => "*"

def insertSorted (x : String × String) : List (String × String) → List (String × String)
  | [] => [x]
  | y :: rest => if x.1 < y.1 then x :: y :: rest else y :: insertSorted x rest

def sortKV (l : List (String × String)) : List (String × String) := l.foldr insertSorted []

def renderObj (o : Obj) : String :=
  match o.kind with
  | .module =>   -- Module.M__repr__ reads the module's `__name__` global, which a program may rebind
    "<module " ++ (match o.fields.lookup "__name__" with | some (.str n) => n | _ => "") ++ ">"
  | .type => "<class " ++ o.name ++ ">"
  | .method => "<fn " ++ o.name ++ ">"
  | .file => "<file>"
  | .list => "[" ++ ",".intercalate (o.items.map renderScalar) ++ "]"
  | .tuple => "(" ++ ",".intercalate (o.items.map renderScalar) ++ ")"
  | .dict => "{" ++ ",".intercalate ((sortKV (o.fields.map fun (k, v) => (k, renderScalar v))).map fun (k, v) => k ++ "=" ++ v) ++ "}"

def renderVal (w : World) : Val → String
  | .ref r => match w.heap r with
    | some o => renderObj o
    | Option.none => "<dangling>"
  | v => renderScalar v

/-! ### one statement -/

def freshRef (w : World) (c : Nat) (k : Nat) : Ref := ⟨.ctx c, w.next c + k⟩

/-- value of an expression, the objects it allocates, how many -/
def evalExpr (w : World) (c : Nat) : Expr → Except String (Val × List Eff)
  | .int n => .ok (.int n, [])
  | .str s => .ok (.str s, [])
  | .none => .ok (.none, [])
  | .newList => .ok (.ref (freshRef w c 0), [.put (freshRef w c 0) { kind := .list, frozen := false }, .bump 1])
  | .newDict => .ok (.ref (freshRef w c 0), [.put (freshRef w c 0) { kind := .dict, frozen := false }, .bump 1])
  | .newClass n => .ok (.ref (freshRef w c 0), [.put (freshRef w c 0) { kind := .type, frozen := false, name := n }, .bump 1])
  | .get p =>
    match resolve w c p with
    | .ok v => .ok (v, [])
    | .error e => .error e

/-- the `__main__` module of context c: its reference and object -/
def mainOf (w : World) (c : Nat) : Option (Ref × Obj) :=
  match w.stores c with
  | Option.none => Option.none
  | some s =>
    match s.modules.lookup "__main__" with
    | Option.none => Option.none
    | some m =>
      match w.heap m with
      | Option.none => Option.none
      | some mo => some (m, mo)

/-- ModuleStore.NewModule: the module object (Globals = one-level copy of impl.Globals, then the
methods, then __name__ …), one fresh Method object per implementation method bound to the new
module, registration in the store. `base` = serial of the module object. -/
def methodRefs (c : Nat) (base : Nat) : List String → List (String × Val)
  | [] => []
  | m :: rest => (m, .ref ⟨.ctx c, base⟩) :: methodRefs c (base + 1) rest

def methodEffs (c : Nat) (mref : Ref) (base : Nat) : List String → List Eff
  | [] => []
  | m :: rest =>
    .put ⟨.ctx c, base⟩ { kind := .method, frozen := true, name := m, fields := [("__self__", .ref mref)] }
      :: methodEffs c mref (base + 1) rest

def setFields (fs : List (String × Val)) (upd : List (String × Val)) : List (String × Val) :=
  upd.foldl (fun acc kv => setField kv.1 kv.2 acc) fs

/-- the mutable containers `instanceGlobals` copies (`*List`, `StringDict`; `*Set` is not in the model) -/
def Kind.container : Kind → Bool
  | .list | .dict => true
  | _ => false

/-- py/module.go instanceGlobals, one value: `some o` = the value is a list / dict object `o` of which
the new instance gets its own copy; `none` = the value is taken over as it is (scalars, types, files,
tuples, … and EVERYTHING in the code before fix d8887ef) -/
def copyOf (w : World) : Val → Option Obj
  | .ref r =>
    if w.shallowGlobals then Option.none
    else match w.heap r with
      | some o => if o.kind.container ∧ o.frozen = false then some o else Option.none
      | Option.none => Option.none
  | _ => Option.none

/-- the Globals of the new instance; the copies are the objects `base`, `base+1`, … of context `c` -/
def globalsFields (w : World) (c : Nat) : Nat → List (String × Val) → List (String × Val)
  | _, [] => []
  | base, (k, v) :: rest =>
    match copyOf w v with
    | some _ => (k, .ref ⟨.ctx c, base⟩) :: globalsFields w c (base + 1) rest
    | Option.none => (k, v) :: globalsFields w c base rest

def globalsEffs (w : World) (c : Nat) : Nat → List (String × Val) → List Eff
  | _, [] => []
  | base, (_, v) :: rest =>
    match copyOf w v with
    | some o => .put ⟨.ctx c, base⟩ o :: globalsEffs w c (base + 1) rest
    | Option.none => globalsEffs w c base rest

def globalsCount (w : World) : List (String × Val) → Nat
  | [] => 0
  | (_, v) :: rest =>
    match copyOf w v with
    | some _ => globalsCount w rest + 1
    | Option.none => globalsCount w rest

def newModuleEffs (w : World) (c : Nat) (impl : Impl) : Ref × List Eff :=
  let mref := freshRef w c 0
  let name := if impl.name = "" then "__main__" else impl.name
  let cbase := w.next c + 1 + impl.methods.length
  let globals := setFields (globalsFields w c cbase impl.globals) (methodRefs c (w.next c + 1) impl.methods)
  let globals := setFields globals [("__name__", .str name), ("__doc__", .str ""), ("__package__", .none)]
  (mref,
   [.put mref { kind := .module, frozen := false, name := name, fields := globals }]
   ++ methodEffs c mref (w.next c + 1) impl.methods
   ++ globalsEffs w c cbase impl.globals
   ++ [.bump (1 + impl.methods.length + globalsCount w impl.globals), .bindModule name mref]
   ++ (if name = "builtins" then [.setBuiltins mref] else []))

def findImpl (reg : List Impl) (name : String) : Option Impl := reg.find? (fun i => i.name = name)

/-- what statement `op` run in context `c` does: its effects and its observation.
Everything is computed from the PRE-state; the effects touch pairwise different cells. -/
def plan (w : World) (c : Nat) (op : Op) : List Eff × String :=
  match op with
  | .obs p =>
    match resolve w c p with
    | .ok v => ([], renderVal w v)
    | .error e => ([], "E:" ++ e)
  | .setName x e =>
    match evalExpr w c e with
    | .error err => ([], "E:" ++ err)
    | .ok (v, effs) =>
      match mainOf w c with
      | Option.none => ([], "E:SystemError")
      | some (m, mo) => (effs ++ [.put m { mo with fields := setField x v mo.fields }], "ok")
  | .setAttr p a e =>
    match evalExpr w c e with
    | .error err => ([], "E:" ++ err)
    | .ok (v, effs) =>
      match resolve w c p with
      | .error err => (effs, "E:" ++ err)
      | .ok (.ref r) =>
        match w.heap r with
        | Option.none => (effs, "E:SystemError")
        | some o =>
          if o.kind = .type ∧ o.frozen then (effs, "E:TypeError")
          else if o.kind.hasDict ∧ ¬ o.frozen then (effs ++ [.put r { o with fields := setField a v o.fields }], "ok")
          else (effs, "E:AttributeError")
      | .ok _ => (effs, "E:AttributeError")
  | .setKey p k e =>
    -- STORE_SUBSCR evaluates the value, then the container
    match evalExpr w c e with
    | .error err => ([], "E:" ++ err)
    | .ok (v, effs) =>
      match resolve w c p with
      | .error err => (effs, "E:" ++ err)
      | .ok (.ref r) =>
        match w.heap r with
        | Option.none => (effs, "E:SystemError")
        | some o =>
          if o.kind = .dict ∧ ¬ o.frozen then (effs ++ [.put r { o with fields := setField k v o.fields }], "ok")
          else (effs, "E:TypeError")
      | .ok _ => (effs, "E:TypeError")
  | .append p e =>
    -- `p.append` is looked up before the argument is evaluated
    match resolve w c p with
    | .error err => ([], "E:" ++ err)
    | .ok (.ref r) =>
      match w.heap r with
      | Option.none => ([], "E:SystemError")
      | some o =>
        if o.kind = .list ∧ ¬ o.frozen then
          match evalExpr w c e with
          | .error err => ([], "E:" ++ err)
          | .ok (v, effs) => (effs ++ [.put r { o with items := o.items ++ [v] }], "ok")
        else ([], "E:AttributeError")
    | .ok _ => ([], "E:AttributeError")
  | .delAttr p a =>
    match resolve w c p with
    | .error err => ([], "E:" ++ err)
    | .ok (.ref r) =>
      match w.heap r with
      | Option.none => ([], "E:SystemError")
      | some o =>
        if o.kind = .type ∧ o.frozen then ([], "E:TypeError")
        else if o.kind.hasDict ∧ ¬ o.frozen then
          match o.fields.lookup a with
          | some _ => ([.put r { o with fields := delField a o.fields }], "ok")
          | Option.none => ([], "E:AttributeError")
        else ([], "E:AttributeError")
    | .ok _ => ([], "E:AttributeError")
  | .imp name =>
    match w.stores c, mainOf w c with
    | some s, some (m, mo) =>
      match s.modules.lookup name with
      | some r => ([.put m { mo with fields := setField name (.ref r) mo.fields }], "ok")
      | Option.none =>
        match findImpl w.registry name with
        | some impl =>
          let (mref, effs) := newModuleEffs w c impl
          (effs ++ [.put m { mo with fields := setField name (.ref mref) mo.fields }], "ok")
        | Option.none => ([], "E:ImportError")
    | _, _ => ([], "E:SystemError")

structure StepResult where
  world : World
  obs : String

def step (w : World) (c : Nat) (op : Op) : StepResult :=
  let (effs, o) := plan w c op
  { world := applyEffs c w effs, obs := o }

/-- run an interleaved list of (context, statement) steps; the trace records who observed what -/
def runSteps (w : World) : List (Nat × Op) → World × List (Nat × String)
  | [] => (w, [])
  | (c, op) :: rest =>
    let r := step w c op
    let (w', t) := runSteps r.world rest
    (w', (c, r.obs) :: t)

def traceOf (c : Nat) (t : List (Nat × String)) : List String :=
  (t.filter (fun e => e.1 = c)).map (·.2)

/-! ### NewContext -/

def strList (ss : List String) : Obj := { kind := .list, frozen := false, items := ss.map .str }

/-- `ctx.store = py.NewModuleStore()` -/
def ncStore (c : Nat) (w : World) : World :=
  { w with stores := fun c' => if c' = c then some {} else w.stores c' }

/-- `py.Import(ctx, name)` of a registered implementation without code: ModuleInit → NewModule -/
def ncImport (c : Nat) (name : String) (w : World) : World :=
  match findImpl w.registry name with
  | some impl => applyEffs c w (newModuleEffs w c impl).2
  | Option.none => w

/-- `sys_mod.Globals[attr] = py.NewListFromStrings(ss)` (a nil and an empty Go slice both give `[]`) -/
def ncReplace (c : Nat) (attr : String) (ss : List String) (w : World) : World :=
  match (w.stores c).bind (fun s => s.modules.lookup "sys") with
  | some sysr =>
    match w.heap sysr with
    | some so =>
      applyEffs c w [.put (freshRef w c 0) (strList ss), .bump 1,
        .put sysr { so with fields := setField attr (.ref (freshRef w c 0)) so.fields }]
    | Option.none => w
  | Option.none => w

/-- the `__main__` module the embedder creates to run statements in (py.RunCode with inModule = nil) -/
def ncMain (c : Nat) (w : World) : World :=
  applyEffs c w (newModuleEffs w c { name := "", globals := [], methods := [] }).2

/-- stdlib.NewContext as the sequence of its steps; `replArgv` / `replPath` = whether the two
replacement steps are performed (the code performs both unconditionally: `newContext`; the variants
with a step omitted exist to state what the step is needed for) -/
def newContextG (replArgv replPath : Bool) (w : World) (c : Nat) (argv path : List String) : World :=
  let w := ncStore c w
  let w := ncImport c "builtins" w
  let w := ncImport c "sys" w
  let w := if replArgv then ncReplace c "argv" argv w else w
  let w := if replPath then ncReplace c "path" path w else w
  ncMain c w

/-- stdlib.NewContext: new store, Import(builtins, sys), fresh sys.argv / sys.path lists; plus `__main__` -/
def newContext (w : World) (c : Nat) (argv path : List String) : World := newContextG true true w c argv path

end GPy.C08
