/-
C08 helper lemmas: effects of a step are local to the stepping context (`EffOK`), the invariant
`Confined` is preserved by such effects, and what a step does depends only on the stepping
context's view of the world.
-/
import GPy.C08.Spec
namespace GPy.C08

/-! ### association lists -/

theorem lookup_mem {α} {k : String} {v : α} : ∀ {l : List (String × α)}, l.lookup k = some v → (k, v) ∈ l
  | [], h => by simp [List.lookup] at h
  | (k', v') :: rest, h => by
    by_cases hk : k = k'
    · subst hk; simp [List.lookup] at h; subst h; simp
    · have : (k == k') = false := by simpa using hk
      simp [List.lookup, this] at h
      exact List.mem_cons_of_mem _ (lookup_mem h)

theorem mem_vals_of_field {o : Obj} {k : String} {v : Val} (h : o.fields.lookup k = some v) : v ∈ o.vals := by
  unfold Obj.vals
  exact List.mem_append_left _ (List.mem_map.mpr ⟨(k, v), lookup_mem h, rfl⟩)

theorem mem_vals_of_item {o : Obj} {i : Nat} {v : Val} (h : o.items[i]? = some v) : v ∈ o.vals := by
  unfold Obj.vals
  exact List.mem_append_right _ (List.mem_of_getElem? h)

theorem mem_setField {k : String} {v : Val} {x : String × Val} :
    ∀ {l : List (String × Val)}, x ∈ setField k v l → x = (k, v) ∨ x ∈ l
  | [], h => by simp [setField] at h; exact Or.inl h
  | (k', v') :: rest, h => by
    unfold setField at h
    split at h
    · rcases List.mem_cons.mp h with h | h
      · exact Or.inl h
      · exact Or.inr (List.mem_cons_of_mem _ h)
    · rcases List.mem_cons.mp h with h | h
      · exact Or.inr (h ▸ List.mem_cons_self)
      · rcases mem_setField h with h | h
        · exact Or.inl h
        · exact Or.inr (List.mem_cons_of_mem _ h)

theorem mem_delField {k : String} {x : String × Val} :
    ∀ {l : List (String × Val)}, x ∈ delField k l → x ∈ l
  | [], h => by simp [delField] at h
  | (k', v') :: rest, h => by
    unfold delField at h
    split at h
    · exact List.mem_cons_of_mem _ h
    · rcases List.mem_cons.mp h with h | h
      · exact h ▸ List.mem_cons_self
      · exact List.mem_cons_of_mem _ (mem_delField h)

theorem mem_setMod {k : String} {r : Ref} {x : String × Ref} :
    ∀ {l : List (String × Ref)}, x ∈ setMod k r l → x = (k, r) ∨ x ∈ l
  | [], h => by simp [setMod] at h; exact Or.inl h
  | (k', v') :: rest, h => by
    unfold setMod at h
    split at h
    · rcases List.mem_cons.mp h with h | h
      · exact Or.inl h
      · exact Or.inr (List.mem_cons_of_mem _ h)
    · rcases List.mem_cons.mp h with h | h
      · exact Or.inr (h ▸ List.mem_cons_self)
      · rcases mem_setMod h with h | h
        · exact Or.inl h
        · exact Or.inr (List.mem_cons_of_mem _ h)

theorem lookup_cons_ne {α} {n k : String} {v : α} {l : List (String × α)} (h : n ≠ k) :
    List.lookup n ((k, v) :: l) = List.lookup n l := by
  have : (n == k) = false := by simpa using h
  simp only [List.lookup, this]

theorem lookup_cons_eq {α} {n : String} {v : α} {l : List (String × α)} :
    List.lookup n ((n, v) :: l) = some v := by
  simp [List.lookup]

theorem lookup_setMod_none {k n : String} {r : Ref} :
    ∀ {l : List (String × Ref)}, (setMod k r l).lookup n = Option.none → l.lookup n = Option.none
  | [], _ => rfl
  | (k', v') :: rest, h => by
    unfold setMod at h
    split at h
    next hk =>
      subst hk
      by_cases hn : n = k'
      · subst hn; rw [lookup_cons_eq] at h; cases h
      · rw [lookup_cons_ne hn] at h ⊢; exact h
    next hk =>
      by_cases hn : n = k'
      · subst hn; rw [lookup_cons_eq] at h; cases h
      · rw [lookup_cons_ne hn] at h ⊢
        exact lookup_setMod_none h

theorem mem_setFields {upd : List (String × Val)} {x : String × Val} :
    ∀ {fs : List (String × Val)}, x ∈ setFields fs upd → x ∈ upd ∨ x ∈ fs := by
  induction upd with
  | nil => intro fs h; exact Or.inr h
  | cons kv rest ih =>
    intro fs h
    unfold setFields at h
    simp only [List.foldl_cons] at h
    rcases ih (fs := setField kv.1 kv.2 fs) h with h | h
    · exact Or.inl (List.mem_cons_of_mem _ h)
    · rcases mem_setField h with h | h
      · exact Or.inl (h ▸ List.mem_cons_self)
      · exact Or.inr h

/-! ### effects that are local to context `c` -/

def EffOK (w : World) (c : Nat) : Eff → Prop
  | .put r o => r.owner = .ctx c ∧ ∀ v ∈ o.vals, okVal w c v
  | .bump _ => True
  | .bindModule _ r => r.owner = .ctx c ∧ (w.stores c).isSome
  | .setBuiltins r => r.owner = .ctx c ∧ (w.stores c).isSome

/-- effects that write only cells owned by `c` (weaker than EffOK; enough for the frame property) -/
def EffLocal (c : Nat) : Eff → Prop
  | .put r _ => r.owner = .ctx c
  | _ => True

theorem EffOK.local {w c e} (h : EffOK w c e) : EffLocal c e := by
  cases e <;> simp_all [EffOK, EffLocal]

theorem heap_applyEff_other {c : Nat} {w : World} {e : Eff} (h : EffLocal c e) {r : Ref} (hr : r.owner ≠ .ctx c) :
    (applyEff c w e).heap r = w.heap r := by
  cases e with
  | put r' o =>
    simp only [applyEff]
    have : r ≠ r' := by
      intro heq; subst heq; exact hr h
    simp [this]
  | bump n => rfl
  | bindModule n r' => rfl
  | setBuiltins r' => rfl

theorem registry_applyEff (c : Nat) (w : World) (e : Eff) : (applyEff c w e).registry = w.registry := by
  cases e <;> rfl

theorem shallow_applyEff (c : Nat) (w : World) (e : Eff) : (applyEff c w e).shallowGlobals = w.shallowGlobals := by
  cases e <;> rfl

theorem stores_applyEff_other {c c' : Nat} (w : World) (e : Eff) (h : c' ≠ c) :
    (applyEff c w e).stores c' = w.stores c' := by
  cases e <;> simp [applyEff, updStore, h]

theorem next_applyEff_other {c c' : Nat} (w : World) (e : Eff) (h : c' ≠ c) :
    (applyEff c w e).next c' = w.next c' := by
  cases e <;> simp [applyEff, updStore, h]

theorem frozenAt_applyEff {c : Nat} {w : World} {e : Eff} (h : EffLocal c e) {r : Ref} (hr : r.owner = .shared) :
    frozenAt (applyEff c w e) r ↔ frozenAt w r := by
  unfold frozenAt
  rw [heap_applyEff_other h (by rw [hr]; simp)]

theorem sharedFrozen_applyEff {c : Nat} {w : World} {e : Eff} (h : EffLocal c e) {r : Ref} :
    sharedFrozen (applyEff c w e) r ↔ sharedFrozen w r := by
  unfold sharedFrozen
  constructor
  · rintro ⟨ho, hf⟩; exact ⟨ho, (frozenAt_applyEff h ho).mp hf⟩
  · rintro ⟨ho, hf⟩; exact ⟨ho, (frozenAt_applyEff h ho).mpr hf⟩

theorem okVal_applyEff {c c' : Nat} {w : World} {e : Eff} (h : EffLocal c e) {v : Val} :
    okVal (applyEff c w e) c' v ↔ okVal w c' v := by
  cases v <;> simp [okVal, sharedFrozen_applyEff h]

theorem okShared_applyEff {c : Nat} {w : World} {e : Eff} (h : EffLocal c e) {v : Val} :
    okShared (applyEff c w e) v ↔ okShared w v := by
  cases v <;> simp [okShared, sharedFrozen_applyEff h]

theorem okGlobal_applyEff {c : Nat} {w : World} {e : Eff} (h : EffLocal c e) {v : Val} :
    okGlobal (applyEff c w e) v ↔ okGlobal w v := by
  cases v with
  | ref r =>
    simp only [okGlobal, sharedFrozen_applyEff h, shallow_applyEff]
    constructor
    · rintro (h1 | ⟨h1, h2, o, ho, hk, hf, hx⟩)
      · exact Or.inl h1
      · rw [heap_applyEff_other h (by rw [h2]; simp)] at ho
        exact Or.inr ⟨h1, h2, o, ho, hk, hf, fun x hx' => (okShared_applyEff h).mp (hx x hx')⟩
    · rintro (h1 | ⟨h1, h2, o, ho, hk, hf, hx⟩)
      · exact Or.inl h1
      · refine Or.inr ⟨h1, h2, o, ?_, hk, hf, fun x hx' => (okShared_applyEff h).mpr (hx x hx')⟩
        rw [heap_applyEff_other h (by rw [h2]; simp)]; exact ho
  | int _ => simp [okGlobal]
  | str _ => simp [okGlobal]
  | flt _ => simp [okGlobal]
  | none => simp [okGlobal]

theorem stores_isSome_applyEff (c : Nat) (w : World) (e : Eff) (h : (w.stores c).isSome) :
    ((applyEff c w e).stores c).isSome := by
  cases e <;> simp [applyEff, updStore, h]

theorem EffOK_applyEff {c : Nat} {w : World} {e e' : Eff} (h : EffLocal c e) (h' : EffOK w c e') :
    EffOK (applyEff c w e) c e' := by
  cases e' with
  | put r o => exact ⟨h'.1, fun v hv => (okVal_applyEff h).mpr (h'.2 v hv)⟩
  | bump n => trivial
  | bindModule n r => exact ⟨h'.1, stores_isSome_applyEff c w e h'.2⟩
  | setBuiltins r => exact ⟨h'.1, stores_isSome_applyEff c w e h'.2⟩

theorem roots_mem_cases {s : Store} {r : Ref} (h : r ∈ s.roots) :
    (∃ n, (n, r) ∈ s.modules) ∨ s.builtins = some r := by
  unfold Store.roots at h
  rcases List.mem_append.mp h with h | h
  · rcases List.mem_map.mp h with ⟨⟨n, r'⟩, hm, rfl⟩
    exact Or.inl ⟨n, hm⟩
  · right
    cases hb : s.builtins with
    | none => simp [hb] at h
    | some b => simp [hb] at h; simp [h]

theorem mem_roots_of_module {s : Store} {n : String} {r : Ref} (h : (n, r) ∈ s.modules) : r ∈ s.roots := by
  unfold Store.roots
  exact List.mem_append_left _ (List.mem_map.mpr ⟨(n, r), h, rfl⟩)

theorem mem_roots_of_builtins {s : Store} {r : Ref} (h : s.builtins = some r) : r ∈ s.roots := by
  unfold Store.roots
  simp [h]

/-- the invariant is preserved by an effect that is local to its context -/
theorem confined_applyEff {c : Nat} {w : World} {e : Eff} (hc : Confined w) (he : EffOK w c e) :
    Confined (applyEff c w e) := by
  have hl := he.local
  cases e with
  | put r o =>
    obtain ⟨hr, hv⟩ := he
    refine ⟨hc.store, ?_, ?_, ?_⟩
    · intro c' i o' ho' v hvv
      rw [okVal_applyEff hl]
      simp only [applyEff] at ho'
      split at ho'
      next heq =>
        cases ho'
        have : Owner.ctx c' = Owner.ctx c := by rw [← hr, ← heq]
        cases this
        exact hv v hvv
      next => exact hc.own c' i o' ho' v hvv
    · intro i o' ho' hf v hvv
      rw [okShared_applyEff hl]
      rw [heap_applyEff_other hl (by simp)] at ho'
      exact hc.shared i o' ho' hf v hvv
    · intro c' s impl hs hi hlk kv hkv
      rw [okGlobal_applyEff hl]
      exact hc.impls c' s impl hs hi hlk kv hkv
  | bump n =>
    exact ⟨hc.store, hc.own, hc.shared, hc.impls⟩
  | bindModule n r =>
    obtain ⟨hr, hsome⟩ := he
    obtain ⟨s0, hs0⟩ := Option.isSome_iff_exists.mp hsome
    refine ⟨?_, hc.own, hc.shared, ?_⟩
    · intro c' s hs r' hr'
      by_cases hcc : c' = c
      · subst hcc
        simp [applyEff, updStore, hs0] at hs
        subst hs
        rcases roots_mem_cases hr' with ⟨n', hm⟩ | hb
        · rcases mem_setMod hm with h | h
          · cases h; exact hr
          · exact hc.store c' s0 hs0 r' (mem_roots_of_module h)
        · exact hc.store c' s0 hs0 r' (mem_roots_of_builtins hb)
      · rw [stores_applyEff_other _ _ hcc] at hs
        exact hc.store c' s hs r' hr'
    · intro c' s impl hs hi hlk kv hkv
      by_cases hcc : c' = c
      · subst hcc
        simp [applyEff, updStore, hs0] at hs
        subst hs
        exact hc.impls c' s0 impl hs0 hi (lookup_setMod_none hlk) kv hkv
      · rw [stores_applyEff_other _ _ hcc] at hs
        exact hc.impls c' s impl hs hi hlk kv hkv
  | setBuiltins r =>
    obtain ⟨hr, hsome⟩ := he
    obtain ⟨s0, hs0⟩ := Option.isSome_iff_exists.mp hsome
    refine ⟨?_, hc.own, hc.shared, ?_⟩
    · intro c' s hs r' hr'
      by_cases hcc : c' = c
      · subst hcc
        simp [applyEff, updStore, hs0] at hs
        subst hs
        rcases roots_mem_cases hr' with ⟨n', hm⟩ | hb
        · exact hc.store c' s0 hs0 r' (mem_roots_of_module hm)
        · simp at hb; subst hb; exact hr
      · rw [stores_applyEff_other _ _ hcc] at hs
        exact hc.store c' s hs r' hr'
    · intro c' s impl hs hi hlk kv hkv
      by_cases hcc : c' = c
      · subst hcc
        simp [applyEff, updStore, hs0] at hs
        subst hs
        exact hc.impls c' s0 impl hs0 hi hlk kv hkv
      · rw [stores_applyEff_other _ _ hcc] at hs
        exact hc.impls c' s impl hs hi hlk kv hkv

theorem confined_applyEffs {c : Nat} : ∀ {effs : List Eff} {w : World}, Confined w → (∀ e ∈ effs, EffOK w c e) →
    Confined (applyEffs c w effs)
  | [], _, hc, _ => hc
  | e :: rest, w, hc, h => by
    unfold applyEffs
    simp only [List.foldl_cons]
    have he := h e List.mem_cons_self
    exact confined_applyEffs (effs := rest) (confined_applyEff hc he)
      (fun e' he' => EffOK_applyEff he.local (h e' (List.mem_cons_of_mem _ he')))

/-! ### the frame property: effects of another context do not change `a`'s view -/

theorem viewEq_refl (a : Nat) (w : World) : ViewEq a w w := ⟨rfl, rfl, rfl, rfl, fun _ => rfl, fun _ => rfl⟩

theorem viewEq_applyEff_other {a c : Nat} {w w' : World} {e : Eff} (hv : ViewEq a w w') (hca : c ≠ a) (hl : EffLocal c e) :
    ViewEq a (applyEff c w e) w' := by
  have hac : a ≠ c := fun h => hca h.symm
  refine ⟨?_, ?_, ?_, ?_, ?_, ?_⟩
  · rw [stores_applyEff_other _ _ hac]; exact hv.store
  · rw [next_applyEff_other _ _ hac]; exact hv.next
  · rw [registry_applyEff]; exact hv.registry
  · rw [shallow_applyEff]; exact hv.version
  · intro i
    rw [heap_applyEff_other hl (by simp; exact hac)]; exact hv.own i
  · intro i
    rw [heap_applyEff_other hl (by simp)]; exact hv.shared i

theorem viewEq_applyEffs_other {a c : Nat} (hca : c ≠ a) : ∀ {effs : List Eff} {w w' : World}, ViewEq a w w' →
    (∀ e ∈ effs, EffLocal c e) → ViewEq a (applyEffs c w effs) w'
  | [], _, _, hv, _ => hv
  | e :: rest, w, w', hv, h => by
    unfold applyEffs
    simp only [List.foldl_cons]
    exact viewEq_applyEffs_other hca (effs := rest)
      (viewEq_applyEff_other hv hca (h e List.mem_cons_self)) (fun e' he' => h e' (List.mem_cons_of_mem _ he'))

/-- the same effect applied by `a` itself to two worlds that look the same to `a` -/
theorem viewEq_applyEff_same {a : Nat} {w w' : World} (e : Eff) (hv : ViewEq a w w') :
    ViewEq a (applyEff a w e) (applyEff a w' e) := by
  cases e with
  | put r o =>
    refine ⟨hv.store, hv.next, hv.registry, hv.version, ?_, ?_⟩
    · intro i; simp only [applyEff]; split
      · rfl
      · exact hv.own i
    · intro i; simp only [applyEff]; split
      · rfl
      · exact hv.shared i
  | bump n =>
    refine ⟨hv.store, ?_, hv.registry, hv.version, hv.own, hv.shared⟩
    simp [applyEff, hv.next]
  | bindModule n r =>
    refine ⟨?_, hv.next, hv.registry, hv.version, hv.own, hv.shared⟩
    simp [applyEff, updStore, hv.store]
  | setBuiltins r =>
    refine ⟨?_, hv.next, hv.registry, hv.version, hv.own, hv.shared⟩
    simp [applyEff, updStore, hv.store]

theorem viewEq_applyEffs_same {a : Nat} : ∀ (effs : List Eff) {w w' : World}, ViewEq a w w' →
    ViewEq a (applyEffs a w effs) (applyEffs a w' effs)
  | [], _, _, hv => hv
  | e :: rest, w, w', hv => by
    unfold applyEffs
    simp only [List.foldl_cons]
    exact viewEq_applyEffs_same rest (viewEq_applyEff_same e hv)

/-! ### reading stays inside the context's view -/

theorem heap_eq_of_okVal {a : Nat} {w w' : World} (hv : ViewEq a w w') {r : Ref} (h : okVal w a (.ref r)) :
    w.heap r = w'.heap r := by
  obtain ⟨o, i⟩ := r
  rcases h with h | ⟨h, _⟩
  · simp at h; subst h; exact hv.own i
  · simp at h; subst h; exact hv.shared i

/-- every value stored in an object that a context may hold is again a value it may hold -/
theorem okVal_child {a : Nat} {w : World} (hc : Confined w) {r : Ref} {o : Obj} (hr : okVal w a (.ref r))
    (ho : w.heap r = some o) {v : Val} (hv : v ∈ o.vals) : okVal w a v := by
  obtain ⟨ow, i⟩ := r
  rcases hr with h | ⟨h, ⟨o', ho', hf⟩⟩
  · simp at h; subst h; exact hc.own a i o ho v hv
  · simp at h; subst h
    rw [ho] at ho'; cases ho'
    have := hc.shared i o ho hf v hv
    cases v <;> simp_all [okVal, okShared]

theorem rootLookup_ok {a : Nat} {w : World} (hc : Confined w) {x : String} {v : Val}
    (h : rootLookup w a x = .ok v) : okVal w a v := by
  unfold rootLookup at h
  split at h; · cases h
  next s hs =>
  split at h; · cases h
  next m hm =>
  have hmo : okVal w a (.ref m) := Or.inl (hc.store a s hs m (mem_roots_of_module (lookup_mem hm)))
  split at h; · cases h
  next mo hmo' =>
  split at h
  next v' hv' => cases h; exact okVal_child hc hmo hmo' (mem_vals_of_field hv')
  next =>
  split at h; · cases h
  next b hb =>
  have hbo : okVal w a (.ref b) := Or.inl (hc.store a s hs b (mem_roots_of_builtins hb))
  split at h; · cases h
  next bo hbo' =>
  split at h
  next v' hv' => cases h; exact okVal_child hc hbo hbo' (mem_vals_of_field hv')
  next => cases h

theorem rootLookup_congr {a : Nat} {w w' : World} (hc : Confined w) (hv : ViewEq a w w') (x : String) :
    rootLookup w a x = rootLookup w' a x := by
  unfold rootLookup
  rw [← hv.store]
  cases hs : w.stores a with
  | none => rfl
  | some s =>
    simp only
    cases hm : s.modules.lookup "__main__" with
    | none => rfl
    | some m =>
      simp only
      have hmo : okVal w a (.ref m) := Or.inl (hc.store a s hs m (mem_roots_of_module (lookup_mem hm)))
      rw [← heap_eq_of_okVal hv hmo]
      cases hmo' : w.heap m with
      | none => rfl
      | some mo =>
        simp only
        cases mo.fields.lookup x with
        | some v => rfl
        | none =>
          simp only
          cases hb : s.builtins with
          | none => rfl
          | some b =>
            simp only
            have hbo : okVal w a (.ref b) := Or.inl (hc.store a s hs b (mem_roots_of_builtins hb))
            rw [← heap_eq_of_okVal hv hbo]

theorem selStep_ok {a : Nat} {w : World} (hc : Confined w) {v v' : Val} {s : Sel} (hv : okVal w a v)
    (h : selStep w v s = .ok v') : okVal w a v' := by
  unfold selStep at h
  cases s with
  | attr n =>
    cases v with
    | ref r =>
      simp only at h
      split at h
      next o ho =>
        split at h
        · split at h
          next x hx => cases h; exact okVal_child hc hv ho (mem_vals_of_field hx)
          next => cases h
        · cases h
      next => cases h
    | int _ => cases h
    | str _ => cases h
    | flt _ => cases h
    | none => cases h
  | key n =>
    cases v with
    | ref r =>
      simp only at h
      split at h
      next o ho =>
        split at h
        · split at h
          next x hx => cases h; exact okVal_child hc hv ho (mem_vals_of_field hx)
          next => cases h
        · cases h
      next => cases h
    | int _ => cases h
    | str _ => cases h
    | flt _ => cases h
    | none => cases h
  | idx i =>
    cases v with
    | ref r =>
      simp only at h
      split at h
      next o ho =>
        split at h
        · split at h
          next x hx => cases h; exact okVal_child hc hv ho (mem_vals_of_item hx)
          next => cases h
        · split at h <;> cases h
      next => cases h
    | int _ => cases h
    | str s =>
      simp only at h
      split at h
      · cases h; trivial
      · cases h
    | flt _ => cases h
    | none => cases h

theorem selStep_congr {a : Nat} {w w' : World} (hvw : ViewEq a w w') {v : Val} (hv : okVal w a v) (s : Sel) :
    selStep w v s = selStep w' v s := by
  unfold selStep
  cases v with
  | ref r => simp only [heap_eq_of_okVal hvw hv]
  | int _ => rfl
  | str _ => rfl
  | flt _ => rfl
  | none => rfl

theorem selSteps_ok {a : Nat} {w : World} (hc : Confined w) : ∀ {sels : List Sel} {v v' : Val}, okVal w a v →
    selSteps w v sels = .ok v' → okVal w a v'
  | [], v, v', hv, h => by simp [selSteps] at h; cases h; exact hv
  | s :: rest, v, v', hv, h => by
    unfold selSteps at h
    split at h
    next v1 h1 => exact selSteps_ok hc (selStep_ok hc hv h1) h
    next => cases h

theorem selSteps_congr {a : Nat} {w w' : World} (hc : Confined w) (hvw : ViewEq a w w') :
    ∀ (sels : List Sel) {v : Val}, okVal w a v → selSteps w v sels = selSteps w' v sels
  | [], _, _ => rfl
  | s :: rest, v, hv => by
    unfold selSteps
    rw [← selStep_congr hvw hv s]
    cases h1 : selStep w v s with
    | ok v1 => exact selSteps_congr hc hvw rest (selStep_ok hc hv h1)
    | error e => rfl

theorem resolve_ok {a : Nat} {w : World} (hc : Confined w) {p : Path} {v : Val}
    (h : resolve w a p = .ok v) : okVal w a v := by
  unfold resolve at h
  split at h
  next v0 h0 => exact selSteps_ok hc (rootLookup_ok hc h0) h
  next => cases h

theorem resolve_congr {a : Nat} {w w' : World} (hc : Confined w) (hvw : ViewEq a w w') (p : Path) :
    resolve w a p = resolve w' a p := by
  unfold resolve
  rw [← rootLookup_congr hc hvw]
  cases h0 : rootLookup w a p.root with
  | ok v0 => exact selSteps_congr hc hvw p.sels (rootLookup_ok hc h0)
  | error e => rfl

theorem freshRef_congr {a : Nat} {w w' : World} (hvw : ViewEq a w w') (k : Nat) : freshRef w a k = freshRef w' a k := by
  unfold freshRef; rw [hvw.next]

theorem evalExpr_congr {a : Nat} {w w' : World} (hc : Confined w) (hvw : ViewEq a w w') (e : Expr) :
    evalExpr w a e = evalExpr w' a e := by
  cases e <;> simp only [evalExpr, freshRef_congr hvw, resolve_congr hc hvw]

theorem evalExpr_ok {a : Nat} {w : World} (hc : Confined w) {e : Expr} {v : Val} {effs : List Eff}
    (h : evalExpr w a e = .ok (v, effs)) : okVal w a v ∧ ∀ x ∈ effs, EffOK w a x := by
  cases e with
  | int n => simp [evalExpr] at h; obtain ⟨rfl, rfl⟩ := h; exact ⟨trivial, by simp⟩
  | str s => simp [evalExpr] at h; obtain ⟨rfl, rfl⟩ := h; exact ⟨trivial, by simp⟩
  | none => simp [evalExpr] at h; obtain ⟨rfl, rfl⟩ := h; exact ⟨trivial, by simp⟩
  | newList =>
    simp [evalExpr] at h; obtain ⟨rfl, rfl⟩ := h
    refine ⟨Or.inl rfl, ?_⟩
    intro x hx
    simp at hx
    rcases hx with rfl | rfl
    · exact ⟨rfl, by simp [Obj.vals]⟩
    · trivial
  | newDict =>
    simp [evalExpr] at h; obtain ⟨rfl, rfl⟩ := h
    refine ⟨Or.inl rfl, ?_⟩
    intro x hx
    simp at hx
    rcases hx with rfl | rfl
    · exact ⟨rfl, by simp [Obj.vals]⟩
    · trivial
  | newClass n =>
    simp [evalExpr] at h; obtain ⟨rfl, rfl⟩ := h
    refine ⟨Or.inl rfl, ?_⟩
    intro x hx
    simp at hx
    rcases hx with rfl | rfl
    · exact ⟨rfl, by simp [Obj.vals]⟩
    · trivial
  | get p =>
    simp only [evalExpr] at h
    split at h
    next v0 h0 => cases h; exact ⟨resolve_ok hc h0, by simp⟩
    next => cases h

theorem mainOf_congr {a : Nat} {w w' : World} (hc : Confined w) (hvw : ViewEq a w w') : mainOf w a = mainOf w' a := by
  unfold mainOf
  rw [← hvw.store]
  cases hs : w.stores a with
  | none => rfl
  | some s =>
    simp only
    cases hm : s.modules.lookup "__main__" with
    | none => rfl
    | some m =>
      simp only
      have hmo : okVal w a (.ref m) := Or.inl (hc.store a s hs m (mem_roots_of_module (lookup_mem hm)))
      rw [← heap_eq_of_okVal hvw hmo]

theorem mainOf_ok {a : Nat} {w : World} (hc : Confined w) {m : Ref} {mo : Obj} (h : mainOf w a = some (m, mo)) :
    m.owner = .ctx a ∧ w.heap m = some mo ∧ (w.stores a).isSome := by
  unfold mainOf at h
  split at h; · cases h
  next s hs =>
  split at h; · cases h
  next m' hm =>
  split at h; · cases h
  next mo' hmo =>
  cases h
  exact ⟨hc.store a s hs m (mem_roots_of_module (lookup_mem hm)), hmo, by simp [hs]⟩

theorem renderVal_congr {a : Nat} {w w' : World} (hvw : ViewEq a w w') {v : Val} (hv : okVal w a v) :
    renderVal w v = renderVal w' v := by
  cases v with
  | ref r => simp only [renderVal, heap_eq_of_okVal hvw hv]
  | int _ => rfl
  | str _ => rfl
  | flt _ => rfl
  | none => rfl

/-! ### what one statement does: local effects, determined by the context's own view -/

theorem okVal_of_okShared {w : World} {c : Nat} {v : Val} (h : okShared w v) : okVal w c v := by
  cases v <;> simp_all [okVal, okShared]

theorem vals_setField {o : Obj} {k : String} {v : Val} {P : Val → Prop} (ho : ∀ x ∈ o.vals, P x) (hv : P v) :
    ∀ x ∈ ({ o with fields := setField k v o.fields } : Obj).vals, P x := by
  intro x hx
  unfold Obj.vals at hx ho
  rcases List.mem_append.mp hx with h | h
  · rcases List.mem_map.mp h with ⟨kv, hkv, rfl⟩
    rcases mem_setField hkv with h | h
    · subst h; exact hv
    · exact ho _ (List.mem_append_left _ (List.mem_map.mpr ⟨kv, h, rfl⟩))
  · exact ho _ (List.mem_append_right _ h)

theorem vals_delField {o : Obj} {k : String} {P : Val → Prop} (ho : ∀ x ∈ o.vals, P x) :
    ∀ x ∈ ({ o with fields := delField k o.fields } : Obj).vals, P x := by
  intro x hx
  unfold Obj.vals at hx ho
  rcases List.mem_append.mp hx with h | h
  · rcases List.mem_map.mp h with ⟨kv, hkv, rfl⟩
    exact ho _ (List.mem_append_left _ (List.mem_map.mpr ⟨kv, mem_delField hkv, rfl⟩))
  · exact ho _ (List.mem_append_right _ h)

theorem vals_append {o : Obj} {v : Val} {P : Val → Prop} (ho : ∀ x ∈ o.vals, P x) (hv : P v) :
    ∀ x ∈ ({ o with items := o.items ++ [v] } : Obj).vals, P x := by
  intro x hx
  unfold Obj.vals at hx ho
  rcases List.mem_append.mp hx with h | h
  · exact ho _ (List.mem_append_left _ h)
  · rcases List.mem_append.mp h with h | h
    · exact ho _ (List.mem_append_right _ h)
    · simp at h; subst h; exact hv

/-- a writable object a context can reach is its own -/
theorem owner_of_writable {a : Nat} {w : World} {r : Ref} {o : Obj} (hr : okVal w a (.ref r))
    (ho : w.heap r = some o) (hf : ¬ o.frozen = true) : r.owner = .ctx a := by
  rcases hr with h | ⟨_, ⟨o', ho', hf'⟩⟩
  · exact h
  · rw [ho] at ho'; cases ho'; exact absurd hf' hf

theorem methodRefs_mem {c : Nat} : ∀ {ms : List String} {base : Nat} {x : String × Val},
    x ∈ methodRefs c base ms → ∃ i, x.2 = .ref ⟨.ctx c, i⟩
  | [], _, _, h => by simp [methodRefs] at h
  | m :: rest, base, x, h => by
    unfold methodRefs at h
    rcases List.mem_cons.mp h with h | h
    · subst h; exact ⟨base, rfl⟩
    · exact methodRefs_mem h

theorem methodEffs_ok {w : World} {c : Nat} {mref : Ref} (hm : mref.owner = .ctx c) :
    ∀ {ms : List String} {base : Nat}, ∀ e ∈ methodEffs c mref base ms, EffOK w c e
  | [], _, e, h => by simp [methodEffs] at h
  | m :: rest, base, e, h => by
    unfold methodEffs at h
    rcases List.mem_cons.mp h with h | h
    · subst h
      refine ⟨rfl, ?_⟩
      intro v hv
      simp [Obj.vals] at hv
      subst hv
      exact Or.inl hm
    · exact methodEffs_ok hm e h

theorem copyOf_some {w : World} {v : Val} {o : Obj} (h : copyOf w v = some o) :
    ∃ r, v = .ref r ∧ w.shallowGlobals = false ∧ w.heap r = some o ∧ o.kind.container = true ∧ o.frozen = false := by
  cases v with
  | ref r =>
    simp only [copyOf] at h
    split at h
    · cases h
    next hsh =>
      split at h
      next o' ho' =>
        split at h
        next hcond => cases h; exact ⟨r, rfl, by simpa using hsh, ho', hcond.1, hcond.2⟩
        · cases h
      · cases h
  | int _ => simp [copyOf] at h
  | str _ => simp [copyOf] at h
  | flt _ => simp [copyOf] at h
  | none => simp [copyOf] at h

/-- a Globals value that NewModule does not copy is immutable -/
theorem okShared_of_copyOf_none {w : World} {v : Val} (hg : okGlobal w v) (h : copyOf w v = Option.none) : okShared w v := by
  cases v with
  | ref r =>
    rcases hg with hg | ⟨hsh, _, o, ho, hk, hf, _⟩
    · exact hg
    · simp [copyOf, hsh, ho, hk, hf] at h
  | int _ => trivial
  | str _ => trivial
  | flt _ => trivial
  | none => trivial

/-- the object NewModule copies holds immutable values only -/
theorem vals_of_copyOf {w : World} {v : Val} {o : Obj} (hg : okGlobal w v) (h : copyOf w v = some o) :
    ∀ x ∈ o.vals, okShared w x := by
  obtain ⟨r, rfl, _, ho, _, hf⟩ := copyOf_some h
  rcases hg with ⟨_, o', ho', hf'⟩ | ⟨_, _, o', ho', _, _, hx⟩
  · rw [ho] at ho'; cases ho'; rw [hf] at hf'; cases hf'
  · rw [ho] at ho'; cases ho'; exact hx

theorem globalsFields_mem {w : World} {c : Nat} : ∀ {gs : List (String × Val)} {base : Nat} {x : String × Val},
    x ∈ globalsFields w c base gs → (∃ i, x.2 = .ref ⟨.ctx c, i⟩) ∨ (x ∈ gs ∧ copyOf w x.2 = Option.none)
  | [], _, _, h => by simp [globalsFields] at h
  | (k, v) :: rest, base, x, h => by
    unfold globalsFields at h
    split at h
    next o ho =>
      rcases List.mem_cons.mp h with h | h
      · subst h; exact Or.inl ⟨base, rfl⟩
      · rcases globalsFields_mem h with h | ⟨h1, h2⟩
        · exact Or.inl h
        · exact Or.inr ⟨List.mem_cons_of_mem _ h1, h2⟩
    next hn =>
      rcases List.mem_cons.mp h with h | h
      · subst h; exact Or.inr ⟨List.mem_cons_self, hn⟩
      · rcases globalsFields_mem h with h | ⟨h1, h2⟩
        · exact Or.inl h
        · exact Or.inr ⟨List.mem_cons_of_mem _ h1, h2⟩

theorem globalsEffs_ok {w : World} {c : Nat} : ∀ {gs : List (String × Val)} {base : Nat},
    (∀ kv ∈ gs, okGlobal w kv.2) → ∀ e ∈ globalsEffs w c base gs, EffOK w c e
  | [], _, _, e, h => by simp [globalsEffs] at h
  | (k, v) :: rest, base, hg, e, h => by
    unfold globalsEffs at h
    have hrest : ∀ kv ∈ rest, okGlobal w kv.2 := fun kv hkv => hg kv (List.mem_cons_of_mem _ hkv)
    split at h
    next o ho =>
      rcases List.mem_cons.mp h with h | h
      · subst h
        exact ⟨rfl, fun x hx => okVal_of_okShared (vals_of_copyOf (hg (k, v) List.mem_cons_self) ho x hx)⟩
      · exact globalsEffs_ok hrest e h
    next => exact globalsEffs_ok hrest e h

theorem newModuleEffs_ok {w : World} {c : Nat} {impl : Impl} (hs : (w.stores c).isSome)
    (hg : ∀ kv ∈ impl.globals, okGlobal w kv.2) :
    (newModuleEffs w c impl).1.owner = .ctx c ∧ ∀ e ∈ (newModuleEffs w c impl).2, EffOK w c e := by
  refine ⟨rfl, ?_⟩
  intro e he
  simp only [newModuleEffs] at he
  rcases List.mem_append.mp he with he | he
  · rcases List.mem_append.mp he with he | he
    · rcases List.mem_append.mp he with he | he
      · rcases List.mem_append.mp he with he | he
        · simp at he; subst he
          refine ⟨rfl, ?_⟩
          intro v hv
          simp only [Obj.vals, List.append_nil] at hv
          rcases List.mem_map.mp hv with ⟨kv, hkv, rfl⟩
          rcases mem_setFields hkv with h | h
          · simp at h
            rcases h with h | h | h <;> subst h <;> trivial
          · rcases mem_setFields h with h | h
            · obtain ⟨i, hi⟩ := methodRefs_mem h
              rw [hi]; exact Or.inl rfl
            · rcases globalsFields_mem h with ⟨i, hi⟩ | ⟨hm, hn⟩
              · rw [hi]; exact Or.inl rfl
              · exact okVal_of_okShared (okShared_of_copyOf_none (hg kv hm) hn)
        · exact methodEffs_ok rfl e he
      · exact globalsEffs_ok hg e he
    · simp at he
      rcases he with rfl | rfl
      · trivial
      · exact ⟨rfl, hs⟩
  · by_cases hb : (if impl.name = "" then "__main__" else impl.name) = "builtins"
    · rw [if_pos hb] at he; simp at he; subst he; exact ⟨rfl, hs⟩
    · rw [if_neg hb] at he; simp at he

theorem copyOf_congr {a : Nat} {w w' : World} (hvw : ViewEq a w w') {v : Val} (hg : okGlobal w v) :
    copyOf w v = copyOf w' v := by
  cases v with
  | ref r =>
    have hown : r.owner = .shared := by
      rcases hg with ⟨h, _⟩ | ⟨_, h, _⟩ <;> exact h
    obtain ⟨ow, i⟩ := r
    simp at hown; subst hown
    simp only [copyOf, hvw.version, hvw.shared i]
  | int _ => rfl
  | str _ => rfl
  | flt _ => rfl
  | none => rfl

theorem globals_congr {a : Nat} {w w' : World} (hvw : ViewEq a w w') (c : Nat) :
    ∀ (gs : List (String × Val)) (base : Nat), (∀ kv ∈ gs, okGlobal w kv.2) →
      globalsFields w c base gs = globalsFields w' c base gs ∧ globalsEffs w c base gs = globalsEffs w' c base gs ∧
      globalsCount w gs = globalsCount w' gs
  | [], _, _ => ⟨rfl, rfl, rfl⟩
  | (k, v) :: rest, base, hg => by
    have hrest : ∀ kv ∈ rest, okGlobal w kv.2 := fun kv hkv => hg kv (List.mem_cons_of_mem _ hkv)
    have hcv := copyOf_congr hvw (hg (k, v) List.mem_cons_self)
    simp only at hcv
    unfold globalsFields globalsEffs globalsCount
    rw [← hcv]
    cases copyOf w v with
    | some o =>
      have ih := globals_congr hvw c rest (base + 1) hrest
      simp only [ih.1, ih.2.1, ih.2.2, and_self]
    | none =>
      have ih := globals_congr hvw c rest base hrest
      simp only [ih.1, ih.2.1, ih.2.2, and_self]

theorem newModuleEffs_congr {a : Nat} {w w' : World} (hvw : ViewEq a w w') (impl : Impl)
    (hg : ∀ kv ∈ impl.globals, okGlobal w kv.2) :
    newModuleEffs w a impl = newModuleEffs w' a impl := by
  have h := globals_congr hvw a impl.globals (w'.next a + 1 + impl.methods.length) hg
  simp only [newModuleEffs, freshRef, hvw.next, h.1, h.2.1, h.2.2]

theorem findImpl_some {reg : List Impl} {name : String} {impl : Impl} (h : findImpl reg name = some impl) :
    impl ∈ reg ∧ impl.name = name := by
  unfold findImpl at h
  exact ⟨List.mem_of_find?_eq_some h, by simpa using List.find?_some h⟩

theorem plan_ok {w : World} {c : Nat} (hc : Confined w) (op : Op) : ∀ e ∈ (plan w c op).1, EffOK w c e := by
  intro e he
  cases op with
  | obs p =>
    simp only [plan] at he
    split at he <;> simp at he
  | setName x ex =>
    simp only [plan] at he
    split at he
    · simp at he
    next v effs hev =>
      have ⟨hv, heffs⟩ := evalExpr_ok hc hev
      split at he
      · simp at he
      next m mo hm =>
        have ⟨hmo, hmh, _⟩ := mainOf_ok hc hm
        rcases List.mem_append.mp he with he | he
        · exact heffs e he
        · simp at he; subst he
          exact ⟨hmo, vals_setField (fun x hx => okVal_child hc (Or.inl hmo) hmh hx) hv⟩
  | setAttr p a ex =>
    simp only [plan] at he
    split at he
    · simp at he
    next v effs hev =>
      have ⟨hv, heffs⟩ := evalExpr_ok hc hev
      split at he
      · exact heffs e he
      next r hr =>
        have hro := resolve_ok hc hr
        split at he
        · exact heffs e he
        next o ho =>
          split at he
          · exact heffs e he
          · split at he
            next hcond =>
              rcases List.mem_append.mp he with he | he
              · exact heffs e he
              · simp at he; subst he
                exact ⟨owner_of_writable hro ho hcond.2, vals_setField (fun x hx => okVal_child hc hro ho hx) hv⟩
            · exact heffs e he
      · exact heffs e he
  | setKey p k ex =>
    simp only [plan] at he
    split at he
    · simp at he
    next v effs hev =>
      have ⟨hv, heffs⟩ := evalExpr_ok hc hev
      split at he
      · exact heffs e he
      next r hr =>
        have hro := resolve_ok hc hr
        split at he
        · exact heffs e he
        next o ho =>
          split at he
          next hcond =>
            rcases List.mem_append.mp he with he | he
            · exact heffs e he
            · simp at he; subst he
              exact ⟨owner_of_writable hro ho hcond.2, vals_setField (fun x hx => okVal_child hc hro ho hx) hv⟩
          · exact heffs e he
      · exact heffs e he
  | append p ex =>
    simp only [plan] at he
    split at he
    · simp at he
    next r hr =>
      have hro := resolve_ok hc hr
      split at he
      · simp at he
      next o ho =>
        split at he
        next hcond =>
          split at he
          · simp at he
          next v effs hev =>
            have ⟨hv, heffs⟩ := evalExpr_ok hc hev
            rcases List.mem_append.mp he with he | he
            · exact heffs e he
            · simp at he; subst he
              exact ⟨owner_of_writable hro ho hcond.2, vals_append (fun x hx => okVal_child hc hro ho hx) hv⟩
        · simp at he
    · simp at he
  | delAttr p a =>
    simp only [plan] at he
    split at he
    · simp at he
    next r hr =>
      have hro := resolve_ok hc hr
      split at he
      · simp at he
      next o ho =>
        split at he
        · simp at he
        · split at he
          next hcond =>
            split at he
            · simp at he; subst he
              exact ⟨owner_of_writable hro ho hcond.2, vals_delField (fun x hx => okVal_child hc hro ho hx)⟩
            · simp at he
          · simp at he
    · simp at he
  | imp name =>
    simp only [plan] at he
    split at he
    next s m mo hs hm =>
      have ⟨hmo, hmh, hsome⟩ := mainOf_ok hc hm
      have hold : ∀ x ∈ mo.vals, okVal w c x := fun x hx => okVal_child hc (Or.inl hmo) hmh hx
      split at he
      next r hr =>
        simp at he; subst he
        exact ⟨hmo, vals_setField hold (Or.inl (hc.store c s hs r (mem_roots_of_module (lookup_mem hr))))⟩
      next hnone =>
        split at he
        next impl himpl =>
          have ⟨hreg, hname⟩ := findImpl_some himpl
          have hg := hc.impls c s impl hs hreg (by rw [hname]; exact hnone)
          have ⟨hown, hok⟩ := newModuleEffs_ok (c := c) hsome hg
          simp only at he
          rcases List.mem_append.mp he with he | he
          · exact hok e he
          · simp at he; subst he
            exact ⟨hmo, vals_setField hold (Or.inl hown)⟩
        · simp at he
    · simp at he

theorem plan_congr {a : Nat} {w w' : World} (hc : Confined w) (hvw : ViewEq a w w') (op : Op) :
    plan w a op = plan w' a op := by
  cases op with
  | obs p =>
    simp only [plan, ← resolve_congr hc hvw]
    cases h : resolve w a p with
    | ok v => simp only [renderVal_congr hvw (resolve_ok hc h)]
    | error e => rfl
  | setName x ex =>
    simp only [plan, ← evalExpr_congr hc hvw, ← mainOf_congr hc hvw]
  | setAttr p att ex =>
    simp only [plan, ← evalExpr_congr hc hvw, ← resolve_congr hc hvw]
    cases evalExpr w a ex with
    | error e => rfl
    | ok ve =>
      cases h : resolve w a p with
      | error e => rfl
      | ok v =>
        cases v with
        | ref r => simp only [heap_eq_of_okVal hvw (resolve_ok hc h)]
        | int _ => rfl
        | str _ => rfl
        | flt _ => rfl
        | none => rfl
  | setKey p k ex =>
    simp only [plan, ← evalExpr_congr hc hvw, ← resolve_congr hc hvw]
    cases evalExpr w a ex with
    | error e => rfl
    | ok ve =>
      cases h : resolve w a p with
      | error e => rfl
      | ok v =>
        cases v with
        | ref r => simp only [heap_eq_of_okVal hvw (resolve_ok hc h)]
        | int _ => rfl
        | str _ => rfl
        | flt _ => rfl
        | none => rfl
  | append p ex =>
    simp only [plan, ← evalExpr_congr hc hvw, ← resolve_congr hc hvw]
    cases h : resolve w a p with
    | error e => rfl
    | ok v =>
      cases v with
      | ref r => simp only [heap_eq_of_okVal hvw (resolve_ok hc h)]
      | int _ => rfl
      | str _ => rfl
      | flt _ => rfl
      | none => rfl
  | delAttr p att =>
    simp only [plan, ← resolve_congr hc hvw]
    cases h : resolve w a p with
    | error e => rfl
    | ok v =>
      cases v with
      | ref r => simp only [heap_eq_of_okVal hvw (resolve_ok hc h)]
      | int _ => rfl
      | str _ => rfl
      | flt _ => rfl
      | none => rfl
  | imp name =>
    simp only [plan, ← hvw.store, ← mainOf_congr hc hvw, ← hvw.registry]
    cases hs : w.stores a with
    | none => rfl
    | some s =>
      cases mainOf w a with
      | none => rfl
      | some mm =>
        obtain ⟨m, mo⟩ := mm
        simp only
        cases hl : s.modules.lookup name with
        | some r => rfl
        | none =>
          simp only
          cases hf : findImpl w.registry name with
          | none => rfl
          | some impl =>
            have ⟨hreg, hname⟩ := findImpl_some hf
            have hg := hc.impls a s impl hs hreg (by rw [hname]; exact hl)
            simp only [newModuleEffs_congr hvw impl hg]

end GPy.C08
