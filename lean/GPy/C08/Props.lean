/-
C08 property theorems.  All are about the world model of GPy/C08/Model.lean (contexts over one
heap; one step = one Python statement run by one context), for ALL programs, ALL numbers of
contexts and ALL interleavings (the interleaved step list is universally quantified).

What is proved: non-interference from the confinement premise, preservation of the premise by every
step, the premise for worlds built by NewContext (any ContextOpts) from a registry whose Globals are
immutable values or lists / dicts of immutable values (which NewModule copies) – in particular the tree's
registry, with no exclusion (`isolation`) –, and that the premise is what the Go heap walk checks
(`DisjointR`: roots = every context's store and every registered implementation's Globals).  What cannot be proved here (the Go memory
model: data races inside one statement) is covered by the race-detector runs only.
-/
import GPy.C08.Proofs
import GPy.C08.Gen
import GPy.C08.Generated
namespace GPy.C08

/-! ### the invariant is preserved by every statement of every context -/

/-- `Confined` is an invariant of every step -/
theorem confined_step {w : World} (hc : Confined w) (c : Nat) (op : Op) : Confined (step w c op).world := by
  unfold step
  exact confined_applyEffs hc (plan_ok hc op)

/-- … hence of every interleaved run -/
theorem confined_run : ∀ (steps : List (Nat × Op)) {w : World}, Confined w → Confined (runSteps w steps).1
  | [], _, hc => hc
  | (c, op) :: rest, w, hc => by
    simp only [runSteps]
    exact confined_run rest (confined_step hc c op)

/-- no statement writes a process-wide object or the registry ("no step writes the shared part"
is not an assumption: it follows from confinement, because process-wide objects a context can reach
are frozen and the code refuses to write frozen objects) -/
theorem shared_part_never_written {w : World} (hc : Confined w) (c : Nat) (op : Op) :
    (∀ i, (step w c op).world.heap ⟨.shared, i⟩ = w.heap ⟨.shared, i⟩) ∧ (step w c op).world.registry = w.registry := by
  have h := viewEq_applyEffs_other (a := c + 1) (c := c) (by omega) (viewEq_refl (c + 1) w)
    (fun e he => (plan_ok hc op e he).local)
  exact ⟨h.shared, h.registry⟩

/-! ### non-interference -/

/-- Simulation: if `w` and `w'` look the same to context `a`, then `a` observes in ANY interleaved run
from `w` exactly what it observes when only its own statements run from `w'`. -/
theorem noninterference_view (a : Nat) : ∀ (steps : List (Nat × Op)) {w w' : World}, Confined w → ViewEq a w w' →
    traceOf a (runSteps w steps).2 = traceOf a (runSteps w' (soloSteps a steps)).2
  | [], _, _, _, _ => rfl
  | (c, op) :: rest, w, w', hc, hv => by
    by_cases hca : c = a
    · subst hca
      have hsolo : soloSteps c ((c, op) :: rest) = (c, op) :: soloSteps c rest := by
        simp [soloSteps, List.filter]
      rw [hsolo]
      simp only [runSteps, step]
      rw [← plan_congr hc hv op]
      have ih := noninterference_view c rest (w := applyEffs c w (plan w c op).1) (w' := applyEffs c w' (plan w c op).1)
        (confined_applyEffs hc (plan_ok hc op)) (viewEq_applyEffs_same _ hv)
      simp only [traceOf, List.filter, decide_true, List.map_cons] at ih ⊢
      rw [ih]
    · have hsolo : soloSteps a ((c, op) :: rest) = soloSteps a rest := by
        simp [soloSteps, List.filter, hca]
      rw [hsolo]
      simp only [runSteps, step]
      have ih := noninterference_view a rest (w := applyEffs c w (plan w c op).1) (w' := w')
        (confined_applyEffs hc (plan_ok hc op))
        (viewEq_applyEffs_other hca hv (fun e he => (plan_ok hc op e he).local))
      simp only [traceOf, List.filter, hca, decide_false] at ih ⊢
      exact ih

/-- **Non-interference.**  In a confined world, whatever the other contexts run and however the
statements are interleaved, context `a` observes exactly what it observes when run alone. -/
theorem noninterference {w : World} (hc : Confined w) (a : Nat) (steps : List (Nat × Op)) :
    traceOf a (runSteps w steps).2 = soloTrace w a steps :=
  noninterference_view a steps hc (viewEq_refl a w)

/-- two interleavings (with arbitrary other programs) in which `a` runs the same statements give `a`
the same observations -/
theorem interleaving_independent {w : World} (hc : Confined w) (a : Nat) (s₁ s₂ : List (Nat × Op))
    (h : soloSteps a s₁ = soloSteps a s₂) :
    traceOf a (runSteps w s₁).2 = traceOf a (runSteps w s₂).2 := by
  rw [noninterference hc a s₁, noninterference hc a s₂]
  unfold soloTrace
  rw [h]

/-- … and the other contexts need not even exist: the solo run may start from any world that looks
the same to `a` (e.g. one in which `a` is the only context) -/
theorem noninterference_alone {w w' : World} (hc : Confined w) (a : Nat) (hv : ViewEq a w w') (steps : List (Nat × Op)) :
    traceOf a (runSteps w steps).2 = soloTrace w' a steps :=
  noninterference_view a steps hc hv

/-! ### the premise is what the heap walk checks -/

theorem reach_owner {w : World} (hc : Confined w) {c : Nat} {r : Ref} (h : Reach w c r) : okVal w c (.ref r) := by
  induction h with
  | root hs hr => exact Or.inl (hc.store c _ hs _ hr)
  | step _ ho hv ih => exact okVal_child hc ih ho hv

/-- a confined world is disjoint: a writable object is reachable from at most one context -/
theorem confined_disjoint {w : World} (hc : Confined w) : Disjoint w := by
  intro a b r hab ha hb
  rcases reach_owner hc ha with h1 | ⟨_, hf⟩
  · rcases reach_owner hc hb with h2 | ⟨_, hf⟩
    · rw [h1] at h2; cases h2; exact absurd rfl hab
    · exact hf
  · exact hf

/-- `Disjoint` holds after every interleaved run from a confined world -/
theorem disjoint_preserved {w : World} (hc : Confined w) (steps : List (Nat × Op)) : Disjoint (runSteps w steps).1 :=
  confined_disjoint (confined_run steps hc)

/-! ### the walk's second kind of root: the registry -/

/-- every registered implementation has Globals that NewModule turns into values a context may hold:
immutable values, or (with the NewModule of the tree) lists / dicts of immutable values, which it copies -/
def RegOK (w : World) : Prop := ∀ impl ∈ w.registry, ∀ kv ∈ impl.globals, okGlobal w kv.2

/-- every registered implementation has immutable Globals (the premise of the first round; it implies `RegOK`) -/
def RegImmutable (w : World) : Prop := ∀ impl ∈ w.registry, ∀ kv ∈ impl.globals, okShared w kv.2

theorem regImmutable_regOK {w : World} (h : RegImmutable w) : RegOK w := by
  intro impl hi kv hkv
  have := h impl hi kv hkv
  cases hv : kv.2 with
  | ref r => rw [hv] at this; exact Or.inl this
  | int _ => trivial
  | str _ => trivial
  | flt _ => trivial
  | none => trivial

theorem regOK_applyEffs {c : Nat} : ∀ {effs : List Eff} {w : World}, RegOK w → (∀ e ∈ effs, EffLocal c e) →
    RegOK (applyEffs c w effs)
  | [], _, h, _ => h
  | e :: rest, w, h, hl => by
    unfold applyEffs
    simp only [List.foldl_cons]
    refine regOK_applyEffs (effs := rest) ?_ (fun e' he' => hl e' (List.mem_cons_of_mem _ he'))
    intro impl hi kv hkv
    rw [registry_applyEff] at hi
    exact (okGlobal_applyEff (hl e List.mem_cons_self)).mpr (h impl hi kv hkv)

theorem regImmutable_applyEffs {c : Nat} : ∀ {effs : List Eff} {w : World}, RegImmutable w → (∀ e ∈ effs, EffLocal c e) →
    RegImmutable (applyEffs c w effs)
  | [], _, h, _ => h
  | e :: rest, w, h, hl => by
    unfold applyEffs
    simp only [List.foldl_cons]
    refine regImmutable_applyEffs (effs := rest) ?_ (fun e' he' => hl e' (List.mem_cons_of_mem _ he'))
    intro impl hi kv hkv
    rw [registry_applyEff] at hi
    exact (okShared_applyEff (hl e List.mem_cons_self)).mpr (h impl hi kv hkv)

/-- `RegOK` is preserved by every statement of every context … -/
theorem regOK_step {w : World} (hc : Confined w) (hr : RegOK w) (c : Nat) (op : Op) : RegOK (step w c op).world := by
  unfold step
  exact regOK_applyEffs hr (fun e he => (plan_ok hc op e he).local)

/-- … hence by every run -/
theorem regOK_run : ∀ (steps : List (Nat × Op)) {w : World}, Confined w → RegOK w → RegOK (runSteps w steps).1
  | [], _, _, hr => hr
  | (c, op) :: rest, w, hc, hr => by
    simp only [runSteps]
    exact regOK_run rest (confined_step hc c op) (regOK_step hc hr c op)

/-- what is reachable from the registry is process-wide, and either frozen or a container of immutable values -/
theorem regReach_shared {w : World} (hc : Confined w) (hr : RegOK w) {r : Ref} (h : RegReach w r) : okGlobal w (.ref r) := by
  induction h with
  | root hi hkv hv =>
    have := hr _ hi _ hkv
    rw [hv] at this; exact this
  | @step r0 r1 o _ ho hv ih =>
    rcases ih with ⟨hown, o', ho', hf⟩ | ⟨_, hown, o', ho', _, _, hx⟩
    · rw [ho] at ho'; cases ho'
      have hr0 : r0 = ⟨.shared, r0.idx⟩ := by
        cases r0; simp only [Ref.mk.injEq, and_true]; exact hown
      rw [hr0] at ho
      exact Or.inl (hc.shared _ o ho hf _ hv)
    · rw [ho] at ho'; cases ho'
      exact Or.inl (hx _ hv)

/-- **The walk's premise, complete.**  In a confined world over an acceptable registry no writable object is
reachable from two contexts, nor from a context and the Globals of a registered implementation. -/
theorem confined_disjointR {w : World} (hc : Confined w) (hr : RegOK w) : DisjointR w := by
  refine ⟨confined_disjoint hc, ?_⟩
  intro a r ha hreg
  rcases reach_owner hc ha with h1 | ⟨_, hf⟩
  · rcases regReach_shared hc hr hreg with ⟨h2, _⟩ | ⟨_, h2, _⟩ <;> (rw [h1] at h2; cases h2)
  · exact hf

theorem disjointR_preserved {w : World} (hc : Confined w) (hr : RegOK w) (steps : List (Nat × Op)) :
    DisjointR (runSteps w steps).1 :=
  confined_disjointR (confined_run steps hc) (regOK_run steps hc hr)

/-! ### NewContext, step by step -/

theorem isSome_applyEffs {c : Nat} : ∀ {effs : List Eff} {w : World}, (w.stores c).isSome → ((applyEffs c w effs).stores c).isSome
  | [], _, h => h
  | e :: rest, w, h => by
    unfold applyEffs
    simp only [List.foldl_cons]
    exact isSome_applyEffs (effs := rest) (stores_isSome_applyEff c w e h)

/-- ModuleInit of a registered implementation keeps the invariant -/
theorem confined_newModule {w : World} {c : Nat} {impl : Impl} (hc : Confined w) (hs : (w.stores c).isSome)
    (hg : ∀ kv ∈ impl.globals, okGlobal w kv.2) : Confined (applyEffs c w (newModuleEffs w c impl).2) :=
  confined_applyEffs hc (newModuleEffs_ok hs hg).2

/-- what every step of NewContext maintains -/
def NCInv (c : Nat) (w : World) : Prop := Confined w ∧ RegOK w ∧ (w.stores c).isSome

/-- step 1: the fresh, empty store -/
theorem ncStore_inv {w : World} (hc : Confined w) (hr : RegOK w) (c : Nat) : NCInv c (ncStore c w) := by
  refine ⟨⟨?_, hc.own, hc.shared, ?_⟩, hr, by simp [ncStore]⟩
  · intro c' s hs r hr'
    by_cases hcc : c' = c
    · subst hcc; simp [ncStore] at hs; subst hs; simp [Store.roots] at hr'
    · simp [ncStore, hcc] at hs; exact hc.store c' s hs r hr'
  · intro c' s impl hs hi hlk kv hkv
    by_cases hcc : c' = c
    · exact hr impl hi kv hkv
    · simp [ncStore, hcc] at hs; exact hc.impls c' s impl hs hi hlk kv hkv

/-- steps 2, 3: Import(name) = ModuleInit of the registered implementation -/
theorem ncImport_inv {w : World} {c : Nat} (h : NCInv c w) (name : String) : NCInv c (ncImport c name w) := by
  obtain ⟨hcw, hrw, hsw⟩ := h
  unfold ncImport
  cases hf : findImpl w.registry name with
  | none => exact ⟨hcw, hrw, hsw⟩
  | some impl =>
    have hg := hrw impl (findImpl_some hf).1
    have hok := newModuleEffs_ok (c := c) hsw hg
    exact ⟨confined_applyEffs hcw hok.2, regOK_applyEffs hrw (fun e he => (hok.2 e he).local), isSome_applyEffs hsw⟩

/-- steps 4, 5: `sys_mod.Globals[attr] = NewListFromStrings(ss)` -/
theorem ncReplace_inv {w : World} {c : Nat} (h : NCInv c w) (attr : String) (ss : List String) :
    NCInv c (ncReplace c attr ss w) := by
  obtain ⟨hcw, hrw, hsw⟩ := h
  unfold ncReplace
  split
  next sysr hb =>
    split
    next so hso =>
      obtain ⟨s, hs, hl⟩ := Option.bind_eq_some_iff.mp hb
      have hown : sysr.owner = .ctx c := hcw.store c s hs sysr (mem_roots_of_module (lookup_mem hl))
      have hscal : ∀ v ∈ (strList ss).vals, okVal w c v := by
        intro v hv
        simp [strList, Obj.vals] at hv
        obtain ⟨x, _, rfl⟩ := hv
        trivial
      have hok : ∀ e ∈ [Eff.put (freshRef w c 0) (strList ss), .bump 1,
            .put sysr { so with fields := setField attr (.ref (freshRef w c 0)) so.fields }], EffOK w c e := by
        intro e he
        simp at he
        rcases he with rfl | rfl | rfl
        · exact ⟨rfl, hscal⟩
        · trivial
        · exact ⟨hown, vals_setField (o := so) (k := attr) (v := .ref (freshRef w c 0)) (P := okVal w c)
            (fun x hx => okVal_child hcw (Or.inl hown) hso hx) (Or.inl rfl)⟩
      exact ⟨confined_applyEffs hcw hok, regOK_applyEffs hrw (fun e he => (hok e he).local), isSome_applyEffs hsw⟩
    next => exact ⟨hcw, hrw, hsw⟩
  next => exact ⟨hcw, hrw, hsw⟩

/-- step 6: the `__main__` module -/
theorem ncMain_inv {w : World} {c : Nat} (h : NCInv c w) : NCInv c (ncMain c w) := by
  obtain ⟨hcw, hrw, hsw⟩ := h
  have hok := newModuleEffs_ok (w := w) (c := c) (impl := { name := "", globals := [], methods := [] }) hsw (by simp)
  exact ⟨confined_applyEffs hcw hok.2, regOK_applyEffs hrw (fun e he => (hok.2 e he).local), isSome_applyEffs hsw⟩

/-- **NewContext, any variant.**  With the NewModule of the tree or with the old one, and whether or not the
two replacement steps are performed: over an acceptable registry the result is confined.  (With the old
NewModule, `shallowGlobals = true`, `RegOK` demands immutable Globals, which the `sys` implementation
does not have: there the replacement steps are what makes the contexts disjoint – `sys_replace_needed_witness`.) -/
theorem newcontextG_confined {w : World} (hc : Confined w) (hr : RegOK w) (ra rp : Bool) (c : Nat) (argv path : List String) :
    Confined (newContextG ra rp w c argv path) ∧ RegOK (newContextG ra rp w c argv path) := by
  have h3 := ncImport_inv (ncImport_inv (ncStore_inv hc hr c) "builtins") "sys"
  have h4 : NCInv c (if ra then ncReplace c "argv" argv (ncImport c "sys" (ncImport c "builtins" (ncStore c w)))
      else ncImport c "sys" (ncImport c "builtins" (ncStore c w))) := by
    cases ra
    · exact h3
    · exact ncReplace_inv h3 "argv" argv
  have h5 : NCInv c (if rp then ncReplace c "path" path (if ra then ncReplace c "argv" argv (ncImport c "sys" (ncImport c "builtins" (ncStore c w)))
      else ncImport c "sys" (ncImport c "builtins" (ncStore c w)))
      else (if ra then ncReplace c "argv" argv (ncImport c "sys" (ncImport c "builtins" (ncStore c w)))
      else ncImport c "sys" (ncImport c "builtins" (ncStore c w)))) := by
    cases rp
    · exact h4
    · exact ncReplace_inv h4 "path" path
  have h6 := ncMain_inv h5
  exact ⟨h6.1, h6.2.1⟩

/-- **NewContext.**  From a confined world over an acceptable registry – in the tree: immutable Globals, or
lists / dicts of immutable values such as the `sys` implementation's own `path` / `argv` lists and
`os.environ` – `stdlib.NewContext` (new store, builtins and sys instantiated, fresh argv/path lists, a
`__main__` module) yields a confined world. -/
theorem newcontext_confined {w : World} (hc : Confined w) (hr : RegOK w) (c : Nat) (argv path : List String) :
    Confined (newContext w c argv path) ∧ RegOK (newContext w c argv path) :=
  newcontextG_confined hc hr true true c argv path

/-- a world without contexts, whose frozen process-wide objects refer to frozen process-wide objects
only, is confined (base case of building a world) -/
theorem confined_initial {w : World} (hs : ∀ c, w.stores c = Option.none) (hh : ∀ c i, w.heap ⟨.ctx c, i⟩ = Option.none)
    (hsh : ∀ i o, w.heap ⟨.shared, i⟩ = some o → o.frozen = true → ∀ v ∈ o.vals, okShared w v) : Confined w := by
  refine ⟨?_, ?_, hsh, ?_⟩
  · intro c s h; rw [hs c] at h; cases h
  · intro c i o h; rw [hh c i] at h; cases h
  · intro c s impl h; rw [hs c] at h; cases h

abbrev CtxSpec := Nat × List String × List String   -- (context id, SysArgs, SysPaths)

def newContexts (w : World) (ctxs : List CtxSpec) : World := ctxs.foldl (fun w x => newContext w x.1 x.2.1 x.2.2) w

theorem newcontexts_confined : ∀ (ctxs : List CtxSpec) {w : World}, Confined w → RegOK w →
    Confined (newContexts w ctxs) ∧ RegOK (newContexts w ctxs)
  | [], _, hc, hr => ⟨hc, hr⟩
  | x :: rest, w, hc, hr => by
    simp only [newContexts, List.foldl_cons]
    have h := newcontext_confined hc hr x.1 x.2.1 x.2.2
    exact newcontexts_confined rest h.1 h.2

/-- **newcontext_disjoint.**  Any number of contexts created by NewContext – with ANY SysArgs / SysPaths,
empty ones included – over an acceptable registry form a world in which no writable object is reachable
from two contexts or from a context and the registry, and stay so under every interleaved run. -/
theorem newcontext_disjoint {w : World} (hc : Confined w) (hr : RegOK w)
    (ctxs : List CtxSpec) (steps : List (Nat × Op)) :
    DisjointR (runSteps (ctxs.foldl (fun w x => newContext w x.1 x.2.1 x.2.2) w) steps).1 :=
  have h := newcontexts_confined ctxs hc hr
  disjointR_preserved h.1 h.2 steps

/-- **isolation (partial).**  Contexts created by NewContext over an acceptable registry are isolated from
each other under every interleaving.
EXCLUDED (hypothesis `RegOK`): registries in which an implementation's Globals hold a writable object other
than a list / dict of immutable values – a list inside a list, a module, a heap type, an instance:
`instanceGlobals` copies one level of containers.  No implementation of the tree is excluded
(`isolation`); the first round's exclusions, `os.environ` (C08-K01) and the `sys` implementation's own
`path`/`argv` lists, are now inside the theorem. -/
theorem isolation_partial {w : World} (hc : Confined w) (hr : RegOK w)
    (ctxs : List CtxSpec) (a : Nat) (steps : List (Nat × Op)) :
    let w' := ctxs.foldl (fun w x => newContext w x.1 x.2.1 x.2.2) w
    traceOf a (runSteps w' steps).2 = soloTrace w' a steps := by
  intro w'
  exact noninterference (newcontexts_confined ctxs hc hr).1 a steps

/-! ### non-vacuity -/

/-- a registry with immutable Globals (builtins with two frozen types, sys with the stdout file) -/
def okRegistry : List Impl := [
  { name := "builtins", globals := [("int", .ref (shr 0)), ("ValueError", .ref (shr 2))], methods := ["len"] },
  { name := "sys", globals := [("stdout", .ref (shr 3))], methods := ["exit"] },
  { name := "c8a", globals := [("val", .int 7), ("tup", .ref (shr 5))], methods := ["f"] }]

def okBase : World := { baseWorld with registry := okRegistry }

theorem frozen_shr (i : Nat) (h : i = 0 ∨ i = 1 ∨ i = 2 ∨ i = 3 ∨ i = 5) : sharedFrozen baseWorld (shr i) := by
  refine ⟨rfl, ?_⟩
  rcases h with rfl | rfl | rfl | rfl | rfl <;> exact ⟨_, rfl, rfl⟩

/-- the process-wide heap the harness sets up: frozen objects refer to frozen objects only -/
theorem baseHeap_shared (i : Nat) (o : Obj) (ho : baseHeap ⟨.shared, i⟩ = some o) (hf : o.frozen = true) :
    ∀ v ∈ o.vals, okShared baseWorld v := by
  intro v hv
  simp only [baseHeap] at ho
  simp at ho
  split at ho <;> try cases ho
  all_goals first
    | (simp [Obj.vals] at hv; rcases hv with rfl | rfl <;> trivial)
    | (simp [Obj.vals] at hv; done)
    | (cases hf)

/-- the hypotheses of `isolation_partial` / `newcontext_disjoint` are satisfiable: `okBase` -/
theorem okBase_confined : Confined okBase ∧ RegImmutable okBase := by
  constructor
  · exact confined_initial (fun _ => rfl) (fun _ _ => rfl) baseHeap_shared
  · intro impl hi kv hkv
    simp [okBase, okRegistry] at hi
    rcases hi with rfl | rfl | rfl <;> simp at hkv
    · rcases hkv with rfl | rfl
      · exact frozen_shr 0 (by simp)
      · exact frozen_shr 2 (by simp)
    · subst hkv; exact frozen_shr 3 (by simp)
    · rcases hkv with rfl | rfl
      · trivial
      · exact frozen_shr 5 (by simp)

/-- a process-wide list / dict of immutable values, as `instanceGlobals` copies it -/
theorem container_shr (i : Nat) (h : i = 4 ∨ i = 6 ∨ i = 7 ∨ i = 8 ∨ i = 9 ∨ i = 10 ∨ i = 11) : okGlobal baseWorld (.ref (shr i)) := by
  refine Or.inr ⟨rfl, rfl, ?_⟩
  rcases h with rfl | rfl | rfl | rfl | rfl | rfl | rfl
  all_goals refine ⟨_, rfl, rfl, rfl, ?_⟩
  all_goals (intro x hx; simp [Obj.vals] at hx)
  all_goals first
    | done
    | (rcases hx with rfl | rfl <;> trivial)
    | (subst hx; trivial)

/-- **The registry of the tree is acceptable**: `builtins`, `sys` (with its own mutable `path` / `argv`
lists), `os` (with `os.environ`), `math`, `string`, `time` and the two harness modules. -/
theorem stdBase_ok : Confined baseWorld ∧ RegOK baseWorld := by
  constructor
  · exact confined_initial (fun _ => rfl) (fun _ _ => rfl) baseHeap_shared
  · intro impl hi kv hkv
    simp [baseWorld, stdRegistry] at hi
    rcases hi with rfl | rfl | rfl | rfl | rfl | rfl | rfl | rfl <;> simp at hkv
    · rcases hkv with rfl | rfl | rfl
      · exact Or.inl (frozen_shr 0 (by simp))
      · exact Or.inl (frozen_shr 1 (by simp))
      · exact Or.inl (frozen_shr 2 (by simp))
    · rcases hkv with rfl | rfl | rfl
      · exact Or.inl (frozen_shr 3 (by simp))
      · exact container_shr 6 (by simp)
      · exact container_shr 7 (by simp)
    · rcases hkv with rfl | rfl
      · exact container_shr 4 (by simp)
      · trivial
    · subst hkv; trivial
    · subst hkv; trivial
    · rcases hkv with rfl | rfl | rfl | rfl | rfl
      · trivial
      · trivial
      · exact Or.inl (frozen_shr 5 (by simp))
      · exact container_shr 8 (by simp)
      · exact container_shr 9 (by simp)
    · rcases hkv with rfl | rfl | rfl
      · trivial
      · exact container_shr 10 (by simp)
      · exact container_shr 11 (by simp)

/-- **Isolation, for the tree.**  Any number of contexts created by `NewContext` with ANY SysArgs / SysPaths
(empty ones included) over the tree's registry: whatever programs the other contexts run and however the
statements interleave, every context observes exactly what it observes alone.  No exclusion is left:
`os.environ` (C08-K01, fixed by d8887ef) and the `sys` implementation's own `path` / `argv` are covered. -/
theorem isolation (ctxs : List CtxSpec) (a : Nat) (steps : List (Nat × Op)) :
    traceOf a (runSteps (newContexts baseWorld ctxs) steps).2 = soloTrace (newContexts baseWorld ctxs) a steps :=
  isolation_partial stdBase_ok.1 stdBase_ok.2 ctxs a steps

/-- … and after every run no writable object is reachable from two contexts or from a context and the registry -/
theorem newcontext_disjoint_std (ctxs : List CtxSpec) (steps : List (Nat × Op)) :
    DisjointR (runSteps (newContexts baseWorld ctxs) steps).1 :=
  newcontext_disjoint stdBase_ok.1 stdBase_ok.2 ctxs steps

/-- non-vacuity of `noninterference`: two contexts over `okBase`, context 0 rebinds `len` in its
builtins and appends to its sys.path, context 1 looks at both: the interleaved traces are computed
and context 1 sees its own, untouched state. -/
def demoSteps : List (Nat × Op) := [
  (0, .imp "builtins"), (0, .imp "sys"), (1, .imp "sys"),
  (0, .setAttr (P "builtins") "len" (.int 5)), (0, .append (P "sys" [.attr "path"]) (.str "/leak")),
  (1, .obs (P "len")), (1, .obs (P "sys" [.attr "path"])), (0, .obs (P "len")), (0, .obs (P "sys" [.attr "path"]))]

def demoWorld : World := [(0, ["c8", "0"], ["/p0"]), (1, ["c8", "1"], ["/p1"])].foldl (fun w (x : CtxSpec) => newContext w x.1 x.2.1 x.2.2) okBase

example : traceOf 1 (runSteps demoWorld demoSteps).2 = ["ok", "<fn len>", "['/p1']"] := by decide
example : traceOf 0 (runSteps demoWorld demoSteps).2 = ["ok", "ok", "ok", "ok", "5", "['/p0','/leak']"] := by decide
example : traceOf 1 (runSteps demoWorld demoSteps).2 = soloTrace demoWorld 1 demoSteps :=
  isolation_partial okBase_confined.1 (regImmutable_regOK okBase_confined.2) _ 1 demoSteps

/-- non-vacuity of `isolation`: two contexts created WITHOUT SysArgs / SysPaths over the tree's registry;
context 0 appends to sys.path and stores into os.environ, context 1 sees its own empty ones -/
def bareSteps : List (Nat × Op) := [
  (0, .imp "sys"), (1, .imp "sys"), (0, .imp "os"), (1, .imp "os"),
  (0, .append (P "sys" [.attr "path"]) (.str "/leak")), (0, .setKey (P "os" [.attr "environ"]) "ZK" (.str "v0")),
  (1, .obs (P "sys" [.attr "path"])), (1, .obs (P "os" [.attr "environ"])), (0, .obs (P "sys" [.attr "path"]))]

example : traceOf 1 (runSteps (newContexts baseWorld [(0, [], []), (1, [], [])]) bareSteps).2 = ["ok", "ok", "[]", "{}"] := by decide
example : traceOf 0 (runSteps (newContexts baseWorld [(0, [], []), (1, [], [])]) bareSteps).2 = ["ok", "ok", "ok", "ok", "['/leak']"] := by decide

/-! ### witnesses: where the premise fails, isolation fails -/

/-- the process before fix d8887ef: NewModule = `Globals: impl.Globals.Copy()` -/
def legacyBase : World := { baseWorld with shallowGlobals := true }

def legacyWorld (n : Nat) : World :=
  (List.range n).foldl (fun w c => newContext w c ["c8", toString c] ["/p" ++ toString c]) legacyBase

def leakSteps : List (Nat × Op) := [
  (0, .imp "os"), (1, .imp "os"),
  (0, .setKey (P "os" [.attr "environ"]) "ZK" (.str "v0")),
  (1, .obs (P "os" [.attr "environ", .key "ZK"]))]

/-- **C08-K01 witness (the code before fix d8887ef).**  With the tree's registry (`os.environ` is ONE dict
per process) and a NewModule that copies Globals one level deep, context 1 sees what context 0
stored: its interleaved trace differs from its solo trace. -/
theorem isolation_witness :
    traceOf 1 (runSteps (legacyWorld 2) leakSteps).2 = ["ok", "'v0'"] ∧
    soloTrace (legacyWorld 2) 1 leakSteps = ["ok", "E:KeyError"] := by decide

/-- … and the heap walk of the model reports the shared dict -/
theorem walk_witness : walkResult (runSteps (legacyWorld 2) leakSteps).1 2 = ("shared", "os.environ") := by decide

/-- with the NewModule of the tree the same scenario is isolated (an instance of `isolation`, computed) -/
theorem isolation_fixed :
    traceOf 1 (runSteps (stdWorld 2) leakSteps).2 = ["ok", "E:KeyError"] ∧
    walkResult (runSteps (stdWorld 2) leakSteps).1 2 = ("disjoint", "") := by decide

/-- the registry of the tree does not have immutable Globals (the first round's premise fails) … -/
theorem regImmutable_std_witness : ¬ RegImmutable baseWorld := by
  intro h
  have := h { name := "os", globals := [("environ", .ref (shr 4)), ("sep", .str "/")], methods := ["getcwd"] }
    (by simp [baseWorld, stdRegistry]) ("environ", .ref (shr 4)) (by simp)
  obtain ⟨_, o, ho, hf⟩ := this
  simp [baseWorld, baseHeap, shr] at ho
  subst ho
  cases hf

/-- … and with the old NewModule it is not acceptable: `RegOK` is exactly what fix d8887ef established -/
theorem regOK_legacy_witness : ¬ RegOK legacyBase := by
  intro h
  have := h { name := "os", globals := [("environ", .ref (shr 4)), ("sep", .str "/")], methods := ["getcwd"] }
    (by simp [legacyBase, baseWorld, stdRegistry]) ("environ", .ref (shr 4)) (by simp)
  rcases this with ⟨_, o, ho, hf⟩ | ⟨hs, _⟩
  · simp [legacyBase, baseWorld, baseHeap, shr] at ho
    subst ho
    cases hf
  · cases hs

/-! ### what NewContext's replacement of sys.path / sys.argv is needed for -/

/-- two contexts created without SysArgs / SysPaths; `shallow` = the NewModule before fix d8887ef,
`rp` = whether NewContext performs its step `sys.path = fresh list` -/
def bareWorld (shallow rp : Bool) : World :=
  [0, 1].foldl (fun w c => newContextG true rp w c [] []) { baseWorld with shallowGlobals := shallow }

def pathLeakSteps : List (Nat × Op) := [
  (0, .imp "sys"), (1, .imp "sys"),
  (0, .append (P "sys" [.attr "path"]) (.str "/leak")), (1, .obs (P "sys" [.attr "path"]))]

/-- `r` is held directly by a module (or the builtins) of context `c` -/
def holds1 (w : World) (c : Nat) (r : Ref) : Bool :=
  match w.stores c with
  | some s => s.roots.any fun m => match w.heap m with
    | some o => o.vals.contains (.ref r)
    | Option.none => false
  | Option.none => false

theorem reach_of_holds1 {w : World} {c : Nat} {r : Ref} (h : holds1 w c r = true) : Reach w c r := by
  unfold holds1 at h
  split at h
  next s hs =>
    obtain ⟨m, hm, hmo⟩ := List.any_eq_true.mp h
    split at hmo
    next o ho => exact Reach.step (Reach.root hs hm) ho (by simpa using hmo)
    · cases hmo
  · cases h

/-- **The seeded change, in the code before fix d8887ef.**  With a NewModule that copies Globals one level
deep, omitting the step `sys.path = fresh list` (what `if len(opts.SysPaths) > 0` does for contexts created
without SysPaths) leaves the `sys` implementation's own `path` list in every such context: the world is
not disjoint (the list is reachable from both contexts, and from the registry), the walk reports it, and
context 1 sees what context 0 appended. -/
theorem sys_replace_needed_witness :
    ¬ Disjoint (bareWorld true false) ∧ ¬ DisjointR (bareWorld true false) ∧
    walkResult (bareWorld true false) 2 = ("shared", "sys.path") ∧
    traceOf 1 (runSteps (bareWorld true false) pathLeakSteps).2 = ["ok", "['/leak']"] ∧
    soloTrace (bareWorld true false) 1 pathLeakSteps = ["ok", "[]"] := by
  have hnd : ¬ Disjoint (bareWorld true false) := by
    intro h
    obtain ⟨o, ho, hf⟩ := h 0 1 (shr 6) (by decide) (reach_of_holds1 (by decide)) (reach_of_holds1 (by decide))
    have : ((bareWorld true false).heap (shr 6)).map (·.frozen) = some false := by decide
    rw [ho] at this
    simp only [Option.map_some, Option.some.injEq] at this
    rw [hf] at this; cases this
  exact ⟨hnd, fun h => hnd h.1, by decide, by decide, by decide⟩

/-- with the step performed the same world is disjoint and isolated even with the old NewModule … -/
theorem sys_replace_done :
    walkResult (bareWorld true true) 2 = ("disjoint", "") ∧
    traceOf 1 (runSteps (bareWorld true true) pathLeakSteps).2 = ["ok", "[]"] := by decide

/-- … and with the NewModule of the tree the step is no longer what isolation rests on: every instance of
`sys` starts with its own copy of the implementation's lists (the general statement is
`newcontextG_confined`, for every registry; here the computed instance).  Since d8887ef the seeded change
is behaviour-preserving. -/
theorem sys_replace_unneeded_after_fix :
    walkResult (bareWorld false false) 2 = ("disjoint", "") ∧
    traceOf 1 (runSteps (bareWorld false false) pathLeakSteps).2 = ["ok", "[]"] ∧
    soloTrace (bareWorld false false) 1 pathLeakSteps = ["ok", "[]"] := by decide

/-- `newcontext_disjoint` for the variants of NewContext: over an acceptable registry (so: with the NewModule
of the tree for the tree's registry) the contexts are disjoint whether or not the replacement steps run -/
theorem newcontextG_disjoint {w : World} (hc : Confined w) (hr : RegOK w) (ra rp : Bool) (c : Nat) (argv path : List String)
    (steps : List (Nat × Op)) : DisjointR (runSteps (newContextG ra rp w c argv path) steps).1 :=
  have h := newcontextG_confined hc hr ra rp c argv path
  disjointR_preserved h.1 h.2 steps

/-! ### why the premise is `Confined` and not the bare `Disjoint` (the converse direction) -/

/-- two contexts of the tree; context 0 holds, as `z`, a writable list whose reference lies in the
allocation namespace of context 1, exactly where context 1 allocates next.  Nothing is shared: the
list is reachable from context 0 only. -/
def mislabelled : World :=
  let w := stdWorld 2
  let z : Ref := ⟨.ctx 1, w.next 1⟩
  match mainOf w 0 with
  | some (m, mo) =>
    { w with heap := fun r =>
        if r = z then some { kind := .list, frozen := false }
        else if r = m then some { mo with fields := setField "z" (.ref z) mo.fields }
        else w.heap r }
  | Option.none => w

def mislabelledSteps : List (Nat × Op) :=
  [(0, .append (P "z") (.int 1)), (1, .setName "x" .newList), (0, .obs (P "z"))]

/-- **The converse of `confined_disjoint` fails in this model, and why.**  `mislabelled` passes the walk
(no writable object is reachable from two roots) yet context 0 is not isolated: context 1's `x = []`
allocates the reference context 0's list lives at.  References of the model are (namespace, serial) pairs
and a context allocates from its own namespace – that is what makes an interleaved and a solo run
comparable literally – so `Disjoint` has to be accompanied by "what a context reaches lies in its own
namespace or is process-wide and frozen", which IS `Confined` (on the reachable part).  For the real
heap, where addresses carry no namespace and allocation is always fresh, the converse (`Disjoint` ⇒ some
labelling is confining) is true by labelling every object with the unique context that reaches it; stating
it needs invariance of `step` under renaming of references, which is not proved here.  The check therefore
uses the two directions that are available: `Confined → DisjointR` (proved) and `DisjointR` walked on
the implementation after every scenario. -/
theorem disjoint_alone_insufficient_witness :
    walkResult mislabelled 2 = ("disjoint", "") ∧
    traceOf 0 (runSteps mislabelled mislabelledSteps).2 = ["ok", "[]"] ∧
    soloTrace mislabelled 0 mislabelledSteps = ["ok", "[1]"] := by decide

/-- **Type dictionaries (fixed, d528452).**  Before the fix the dictionary of a built-in type was
writable: in the same model with the `int` type object not frozen, `int.leak = 42` in context 0 is
observed by context 1.  (With the fix the type object is frozen: see `frozen_type_refuses`.) -/
def unfrozenInt : World :=
  { baseWorld with heap := fun r => if r = shr 0 then some { kind := .type, frozen := false, name := "int" } else baseHeap r }

def typeLeakSteps : List (Nat × Op) := [(0, .setAttr (P "int") "leak" (.int 42)), (1, .obs (P "int" [.attr "leak"]))]

def unfrozenWorld : World :=
  [(0, ["c8", "0"], ["/p0"]), (1, ["c8", "1"], ["/p1"])].foldl (fun w (x : CtxSpec) => newContext w x.1 x.2.1 x.2.2) unfrozenInt

theorem writable_type_dict_witness :
    traceOf 1 (runSteps unfrozenWorld typeLeakSteps).2 = ["42"] ∧
    soloTrace unfrozenWorld 1 typeLeakSteps = ["E:AttributeError"] := by decide

theorem frozen_type_refuses :
    (runSteps (stdWorld 2) typeLeakSteps).2 = [(0, "E:TypeError"), (1, "E:AttributeError")] := by decide

/-! ### (d) the regenerated table of package-level variables written at run time -/

/-- package-level variables of py/, vm/, stdlib/, stdlib/*/ that are written outside their
declaration and outside `func init()`, with the reason each is no channel between contexts -/
def expectedWrites : List (String × String × String × String) := [
  ("py", "InputHook", "repl/cli:RunREPL", "assign"),       -- set by the interactive REPL front end only
  ("py", "delayedReady", "TypeDelayReady", "assign"),      -- appended by NewType*: package initialisation
  ("py", "delayedReady", "TypeMakeReady", "assign"),       -- called from py's init only
  ("py", "gRuntime", "GetModuleImpl", "call"),             -- RWMutex read lock
  ("py", "gRuntime", "RegisterModule", "call"),            -- registry write under the mutex (embedder, before use)
  ("stdlib", "implCodeMu", "implCode", "call"),            -- the mutex that serialises lazy compilation of impl.Code (fix 661fb43)
  ("stdlib/os", "osAltsep", "initGlobals", "assign"),      -- initGlobals is called from os's init only
  ("stdlib/os", "osDefpath", "initGlobals", "assign"),
  ("stdlib/os", "osDevnull", "initGlobals", "assign"),
  ("stdlib/os", "osLinesep", "initGlobals", "assign"),
  ("stdlib/os", "osName", "initGlobals", "assign"),
  ("stdlib/os", "osPathsep", "initGlobals", "assign"),
  ("stdlib/os", "osSep", "initGlobals", "assign"),
  ("vm", "PrintExpr", "repl:REPL.Run", "assign")           -- swapped by the interactive REPL only
]

/-- every run-time write to a package-level variable found in the sources is one of the expected
ones: a new global written at run time breaks this obligation -/
theorem no_unexpected_shared_writes :
    Generated.runtimeWrites.all (fun x => expectedWrites.contains x) = true := by decide

end GPy.C08
