/-
C08 property theorems.  All are about the world model of GPy/C08/Model.lean (contexts over one
heap; one step = one Python statement run by one context), for ALL programs, ALL numbers of
contexts and ALL interleavings (the interleaved step list is universally quantified).

What is proved: non-interference from the confinement premise, preservation of the premise by every
step, the premise for worlds built by NewContext from a registry with immutable Globals, and that
the premise is what the Go heap walk checks (`Disjoint`).  What cannot be proved here (the Go memory
model: data races inside one statement) is covered by the race-detector runs only.
-/
import GPy.C08.Proofs
import GPy.C08.Gen
import GPy.C08.Generated
namespace GPy.C08

/-! ### the invariant is preserved by every statement of every context -/

/-- `Confined` is an invariant of every step -/
theorem confined_step {w : World} (hc : Confined w) (c : Nat) (op : Op) : Confined (step w c op).world := by
  unfold step
  exact confined_applyEffs hc (plan_ok hc op)

/-- … hence of every interleaved run -/
theorem confined_run : ∀ (steps : List (Nat × Op)) {w : World}, Confined w → Confined (runSteps w steps).1
  | [], _, hc => hc
  | (c, op) :: rest, w, hc => by
    simp only [runSteps]
    exact confined_run rest (confined_step hc c op)

/-- no statement writes a process-wide object or the registry ("no step writes the shared part"
is not an assumption: it follows from confinement, because process-wide objects a context can reach
are frozen and the code refuses to write frozen objects) -/
theorem shared_part_never_written {w : World} (hc : Confined w) (c : Nat) (op : Op) :
    (∀ i, (step w c op).world.heap ⟨.shared, i⟩ = w.heap ⟨.shared, i⟩) ∧ (step w c op).world.registry = w.registry := by
  have h := viewEq_applyEffs_other (a := c + 1) (c := c) (by omega) (viewEq_refl (c + 1) w)
    (fun e he => (plan_ok hc op e he).local)
  exact ⟨h.shared, h.registry⟩

/-! ### non-interference -/

/-- Simulation: if `w` and `w'` look the same to context `a`, then `a` observes in ANY interleaved run
from `w` exactly what it observes when only its own statements run from `w'`. -/
theorem noninterference_view (a : Nat) : ∀ (steps : List (Nat × Op)) {w w' : World}, Confined w → ViewEq a w w' →
    traceOf a (runSteps w steps).2 = traceOf a (runSteps w' (soloSteps a steps)).2
  | [], _, _, _, _ => rfl
  | (c, op) :: rest, w, w', hc, hv => by
    by_cases hca : c = a
    · subst hca
      have hsolo : soloSteps c ((c, op) :: rest) = (c, op) :: soloSteps c rest := by
        simp [soloSteps, List.filter]
      rw [hsolo]
      simp only [runSteps, step]
      rw [← plan_congr hc hv op]
      have ih := noninterference_view c rest (w := applyEffs c w (plan w c op).1) (w' := applyEffs c w' (plan w c op).1)
        (confined_applyEffs hc (plan_ok hc op)) (viewEq_applyEffs_same _ hv)
      simp only [traceOf, List.filter, decide_true, List.map_cons] at ih ⊢
      rw [ih]
    · have hsolo : soloSteps a ((c, op) :: rest) = soloSteps a rest := by
        simp [soloSteps, List.filter, hca]
      rw [hsolo]
      simp only [runSteps, step]
      have ih := noninterference_view a rest (w := applyEffs c w (plan w c op).1) (w' := w')
        (confined_applyEffs hc (plan_ok hc op))
        (viewEq_applyEffs_other hca hv (fun e he => (plan_ok hc op e he).local))
      simp only [traceOf, List.filter, hca, decide_false] at ih ⊢
      exact ih

/-- **Non-interference.**  In a confined world, whatever the other contexts run and however the
statements are interleaved, context `a` observes exactly what it observes when run alone. -/
theorem noninterference {w : World} (hc : Confined w) (a : Nat) (steps : List (Nat × Op)) :
    traceOf a (runSteps w steps).2 = soloTrace w a steps :=
  noninterference_view a steps hc (viewEq_refl a w)

/-- two interleavings (with arbitrary other programs) in which `a` runs the same statements give `a`
the same observations -/
theorem interleaving_independent {w : World} (hc : Confined w) (a : Nat) (s₁ s₂ : List (Nat × Op))
    (h : soloSteps a s₁ = soloSteps a s₂) :
    traceOf a (runSteps w s₁).2 = traceOf a (runSteps w s₂).2 := by
  rw [noninterference hc a s₁, noninterference hc a s₂]
  unfold soloTrace
  rw [h]

/-- … and the other contexts need not even exist: the solo run may start from any world that looks
the same to `a` (e.g. one in which `a` is the only context) -/
theorem noninterference_alone {w w' : World} (hc : Confined w) (a : Nat) (hv : ViewEq a w w') (steps : List (Nat × Op)) :
    traceOf a (runSteps w steps).2 = soloTrace w' a steps :=
  noninterference_view a steps hc hv

/-! ### the premise is what the heap walk checks -/

theorem reach_owner {w : World} (hc : Confined w) {c : Nat} {r : Ref} (h : Reach w c r) : okVal w c (.ref r) := by
  induction h with
  | root hs hr => exact Or.inl (hc.store c _ hs _ hr)
  | step _ ho hv ih => exact okVal_child hc ih ho hv

/-- a confined world is disjoint: a writable object is reachable from at most one context -/
theorem confined_disjoint {w : World} (hc : Confined w) : Disjoint w := by
  intro a b r hab ha hb
  rcases reach_owner hc ha with h1 | ⟨_, hf⟩
  · rcases reach_owner hc hb with h2 | ⟨_, hf⟩
    · rw [h1] at h2; cases h2; exact absurd rfl hab
    · exact hf
  · exact hf

/-- `Disjoint` holds after every interleaved run from a confined world -/
theorem disjoint_preserved {w : World} (hc : Confined w) (steps : List (Nat × Op)) : Disjoint (runSteps w steps).1 :=
  confined_disjoint (confined_run steps hc)

/-! ### NewContext -/

/-- every registered implementation has immutable Globals -/
def RegImmutable (w : World) : Prop := ∀ impl ∈ w.registry, ∀ kv ∈ impl.globals, okShared w kv.2

theorem regImmutable_applyEffs {c : Nat} : ∀ {effs : List Eff} {w : World}, RegImmutable w → (∀ e ∈ effs, EffLocal c e) →
    RegImmutable (applyEffs c w effs)
  | [], _, h, _ => h
  | e :: rest, w, h, hl => by
    unfold applyEffs
    simp only [List.foldl_cons]
    refine regImmutable_applyEffs (effs := rest) ?_ (fun e' he' => hl e' (List.mem_cons_of_mem _ he'))
    intro impl hi kv hkv
    rw [registry_applyEff] at hi
    exact (okShared_applyEff (hl e List.mem_cons_self)).mpr (h impl hi kv hkv)

theorem isSome_applyEffs {c : Nat} : ∀ {effs : List Eff} {w : World}, (w.stores c).isSome → ((applyEffs c w effs).stores c).isSome
  | [], _, h => h
  | e :: rest, w, h => by
    unfold applyEffs
    simp only [List.foldl_cons]
    exact isSome_applyEffs (effs := rest) (stores_isSome_applyEff c w e h)

/-- ModuleInit of a registered implementation keeps the invariant -/
theorem confined_newModule {w : World} {c : Nat} {impl : Impl} (hc : Confined w) (hs : (w.stores c).isSome)
    (hg : ∀ kv ∈ impl.globals, okShared w kv.2) : Confined (applyEffs c w (newModuleEffs w c impl).2) :=
  confined_applyEffs hc (newModuleEffs_ok hs hg).2

/-- **NewContext.**  From a confined world whose registered implementations have immutable Globals,
`stdlib.NewContext` (new store, builtins and sys instantiated, fresh argv/path lists, a `__main__`
module) yields a confined world. -/
theorem newcontext_confined {w : World} (hc : Confined w) (hr : RegImmutable w) (c : Nat) (argv path : List String) :
    Confined (newContext w c argv path) ∧ RegImmutable (newContext w c argv path) := by
  -- the fresh, empty store
  let w1 : World := { w with stores := fun c' => if c' = c then some {} else w.stores c' }
  have hc1 : Confined w1 := by
    refine ⟨?_, hc.own, hc.shared, ?_⟩
    · intro c' s hs r hr'
      by_cases hcc : c' = c
      · subst hcc; simp [w1] at hs; subst hs; simp [Store.roots] at hr'
      · simp [w1, hcc] at hs; exact hc.store c' s hs r hr'
    · intro c' s impl hs hi hlk kv hkv
      by_cases hcc : c' = c
      · exact hr impl hi kv hkv
      · simp [w1, hcc] at hs; exact hc.impls c' s impl hs hi hlk kv hkv
  have hr1 : RegImmutable w1 := hr
  have hs1 : (w1.stores c).isSome := by simp [w1]
  -- Import(name): ModuleInit of the registered implementation
  have himp : ∀ (w : World) (name : String), Confined w → RegImmutable w → (w.stores c).isSome →
      let w' := (match findImpl w.registry name with
        | some impl => applyEffs c w (newModuleEffs w c impl).2
        | Option.none => w)
      Confined w' ∧ RegImmutable w' ∧ (w'.stores c).isSome := by
    intro w name hcw hrw hsw
    cases hf : findImpl w.registry name with
    | none => exact ⟨hcw, hrw, hsw⟩
    | some impl =>
      have hg := hrw impl (findImpl_some hf).1
      have hok := newModuleEffs_ok (c := c) hsw hg
      exact ⟨confined_applyEffs hcw hok.2, regImmutable_applyEffs hrw (fun e he => (hok.2 e he).local), isSome_applyEffs hsw⟩
  obtain ⟨hc2, hr2, hs2⟩ := himp w1 "builtins" hc1 hr1 hs1
  generalize hw2 : (match findImpl w1.registry "builtins" with
        | some impl => applyEffs c w1 (newModuleEffs w1 c impl).2
        | Option.none => w1) = w2 at hc2 hr2 hs2
  obtain ⟨hc3, hr3, hs3⟩ := himp w2 "sys" hc2 hr2 hs2
  generalize hw3 : (match findImpl w2.registry "sys" with
        | some impl => applyEffs c w2 (newModuleEffs w2 c impl).2
        | Option.none => w2) = w3 at hc3 hr3 hs3
  -- fresh sys.argv / sys.path
  have hsys : ∀ (w : World), Confined w → RegImmutable w → (w.stores c).isSome →
      let w' := (match (w.stores c).bind (fun s => s.modules.lookup "sys") with
        | some sysr =>
          match w.heap sysr with
          | some so =>
            applyEffs c w [.put (freshRef w c 0) (strList argv), .put (freshRef w c 1) (strList path), .bump 2,
              .put sysr { so with fields := setField "path" (.ref (freshRef w c 1)) (setField "argv" (.ref (freshRef w c 0)) so.fields) }]
          | Option.none => w
        | Option.none => w)
      Confined w' ∧ RegImmutable w' ∧ (w'.stores c).isSome := by
    intro w hcw hrw hsw
    dsimp only
    split
    next sysr hb =>
      split
      next so hso =>
        obtain ⟨s, hs, hl⟩ := Option.bind_eq_some_iff.mp hb
        have hown : sysr.owner = .ctx c := hcw.store c s hs sysr (mem_roots_of_module (lookup_mem hl))
        have hscal : ∀ (ss : List String), ∀ v ∈ (strList ss).vals, okVal w c v := by
          intro ss v hv
          simp [strList, Obj.vals] at hv
          obtain ⟨x, _, rfl⟩ := hv
          trivial
        have hok : ∀ e ∈ [Eff.put (freshRef w c 0) (strList argv), .put (freshRef w c 1) (strList path), .bump 2,
              .put sysr { so with fields := setField "path" (.ref (freshRef w c 1)) (setField "argv" (.ref (freshRef w c 0)) so.fields) }],
              EffOK w c e := by
          intro e he
          simp at he
          rcases he with rfl | rfl | rfl | rfl
          · exact ⟨rfl, hscal argv⟩
          · exact ⟨rfl, hscal path⟩
          · trivial
          · refine ⟨hown, ?_⟩
            have h1 := vals_setField (o := so) (k := "argv") (v := .ref (freshRef w c 0)) (P := okVal w c)
              (fun x hx => okVal_child hcw (Or.inl hown) hso hx) (Or.inl rfl)
            exact vals_setField (o := { so with fields := setField "argv" (.ref (freshRef w c 0)) so.fields })
              (k := "path") (v := .ref (freshRef w c 1)) (P := okVal w c) h1 (Or.inl rfl)
        exact ⟨confined_applyEffs hcw hok, regImmutable_applyEffs hrw (fun e he => (hok e he).local), isSome_applyEffs hsw⟩
      next => exact ⟨hcw, hrw, hsw⟩
    next => exact ⟨hcw, hrw, hsw⟩
  obtain ⟨hc4, hr4, hs4⟩ := hsys w3 hc3 hr3 hs3
  generalize hw4 : (match (w3.stores c).bind (fun s => s.modules.lookup "sys") with
        | some sysr =>
          match w3.heap sysr with
          | some so =>
            applyEffs c w3 [.put (freshRef w3 c 0) (strList argv), .put (freshRef w3 c 1) (strList path), .bump 2,
              .put sysr { so with fields := setField "path" (.ref (freshRef w3 c 1)) (setField "argv" (.ref (freshRef w3 c 0)) so.fields) }]
          | Option.none => w3
        | Option.none => w3) = w4 at hc4 hr4 hs4
  -- the __main__ module
  have hok := newModuleEffs_ok (w := w4) (c := c) (impl := { name := "", globals := [], methods := [] }) hs4 (by simp)
  have hfin : newContext w c argv path = applyEffs c w4 (newModuleEffs w4 c { name := "", globals := [], methods := [] }).2 := by
    subst hw4; subst hw3; subst hw2
    rfl
  rw [hfin]
  exact ⟨confined_applyEffs hc4 hok.2, regImmutable_applyEffs hr4 (fun e he => (hok.2 e he).local)⟩

/-- a world without contexts, whose frozen process-wide objects refer to frozen process-wide objects
only, is confined (base case of building a world) -/
theorem confined_initial {w : World} (hs : ∀ c, w.stores c = Option.none) (hh : ∀ c i, w.heap ⟨.ctx c, i⟩ = Option.none)
    (hsh : ∀ i o, w.heap ⟨.shared, i⟩ = some o → o.frozen = true → ∀ v ∈ o.vals, okShared w v) : Confined w := by
  refine ⟨?_, ?_, hsh, ?_⟩
  · intro c s h; rw [hs c] at h; cases h
  · intro c i o h; rw [hh c i] at h; cases h
  · intro c s impl h; rw [hs c] at h; cases h

/-- **newcontext_disjoint.**  Any number of contexts created by NewContext from a registry whose
implementation Globals hold only immutable values form a disjoint world, and stay disjoint under
every interleaved run. -/
theorem newcontext_disjoint {w : World} (hc : Confined w) (hr : RegImmutable w) :
    ∀ (ctxs : List (Nat × List String × List String)) (steps : List (Nat × Op)),
      Disjoint (runSteps (ctxs.foldl (fun w x => newContext w x.1 x.2.1 x.2.2) w) steps).1
  | [], steps => disjoint_preserved hc steps
  | x :: rest, steps => by
    simp only [List.foldl_cons]
    have h := newcontext_confined hc hr x.1 x.2.1 x.2.2
    exact newcontext_disjoint h.1 h.2 rest steps

/-- **isolation (partial).**  Contexts created by NewContext from a registry with immutable Globals
are isolated from each other under every interleaving.
EXCLUDED (hypothesis `RegImmutable`): registries with a writable value in an implementation's Globals –
in the tree `os.environ` (known finding C08-K01, `isolation_witness` below) and the `sys`
implementation's own `path`/`argv` lists, which NewContext replaces before any statement runs (that
they are unreachable afterwards is checked by the heap walk on the implementation, not proved here). -/
theorem isolation_partial {w : World} (hc : Confined w) (hr : RegImmutable w)
    (ctxs : List (Nat × List String × List String)) (a : Nat) (steps : List (Nat × Op)) :
    let w' := ctxs.foldl (fun w x => newContext w x.1 x.2.1 x.2.2) w
    traceOf a (runSteps w' steps).2 = soloTrace w' a steps := by
  intro w'
  have : ∀ (ctxs : List (Nat × List String × List String)) (w : World), Confined w → RegImmutable w →
      Confined (ctxs.foldl (fun w x => newContext w x.1 x.2.1 x.2.2) w) := by
    intro ctxs
    induction ctxs with
    | nil => intro w hc _; exact hc
    | cons x rest ih =>
      intro w hc hr
      simp only [List.foldl_cons]
      have h := newcontext_confined hc hr x.1 x.2.1 x.2.2
      exact ih _ h.1 h.2
  exact noninterference (this ctxs w hc hr) a steps

/-! ### non-vacuity -/

/-- a registry with immutable Globals (builtins with two frozen types, sys with the stdout file) -/
def okRegistry : List Impl := [
  { name := "builtins", globals := [("int", .ref (shr 0)), ("ValueError", .ref (shr 2))], methods := ["len"] },
  { name := "sys", globals := [("stdout", .ref (shr 3))], methods := ["exit"] },
  { name := "c8a", globals := [("val", .int 7), ("tup", .ref (shr 5))], methods := ["f"] }]

def okBase : World := { baseWorld with registry := okRegistry }

theorem frozen_shr (i : Nat) (h : i = 0 ∨ i = 2 ∨ i = 3 ∨ i = 5) : sharedFrozen okBase (shr i) := by
  refine ⟨rfl, ?_⟩
  rcases h with rfl | rfl | rfl | rfl <;> exact ⟨_, rfl, rfl⟩

/-- the hypotheses of `isolation_partial` / `newcontext_disjoint` are satisfiable: `okBase` -/
theorem okBase_confined : Confined okBase ∧ RegImmutable okBase := by
  constructor
  · refine confined_initial (fun _ => rfl) (fun _ _ => rfl) ?_
    intro i o ho hf v hv
    simp only [okBase, baseWorld, baseHeap] at ho
    simp at ho
    split at ho <;> try cases ho
    all_goals first
      | (simp [Obj.vals] at hv; rcases hv with rfl | rfl <;> trivial)
      | (simp [Obj.vals] at hv; done)
      | (cases hf)
  · intro impl hi kv hkv
    simp [okBase, okRegistry] at hi
    rcases hi with rfl | rfl | rfl <;> simp at hkv
    · rcases hkv with rfl | rfl
      · exact frozen_shr 0 (by simp)
      · exact frozen_shr 2 (by simp)
    · subst hkv; exact frozen_shr 3 (by simp)
    · rcases hkv with rfl | rfl
      · trivial
      · exact frozen_shr 5 (by simp)

/-- non-vacuity of `noninterference`: two contexts over `okBase`, context 0 rebinds `len` in its
builtins and appends to its sys.path, context 1 looks at both: the interleaved traces are computed
and context 1 sees its own, untouched state. -/
def demoSteps : List (Nat × Op) := [
  (0, .imp "builtins"), (0, .imp "sys"), (1, .imp "sys"),
  (0, .setAttr (P "builtins") "len" (.int 5)), (0, .append (P "sys" [.attr "path"]) (.str "/leak")),
  (1, .obs (P "len")), (1, .obs (P "sys" [.attr "path"])), (0, .obs (P "len")), (0, .obs (P "sys" [.attr "path"]))]

def demoWorld : World := [(0, ["c8", "0"], ["/p0"]), (1, ["c8", "1"], ["/p1"])].foldl (fun w (x : Nat × List String × List String) => newContext w x.1 x.2.1 x.2.2) okBase

example : traceOf 1 (runSteps demoWorld demoSteps).2 = ["ok", "<fn len>", "['/p1']"] := by decide
example : traceOf 0 (runSteps demoWorld demoSteps).2 = ["ok", "ok", "ok", "ok", "5", "['/p0','/leak']"] := by decide
example : traceOf 1 (runSteps demoWorld demoSteps).2 = soloTrace demoWorld 1 demoSteps :=
  isolation_partial okBase_confined.1 okBase_confined.2 _ 1 demoSteps

/-! ### witnesses: where the premise fails, isolation fails -/

def leakSteps : List (Nat × Op) := [
  (0, .imp "os"), (1, .imp "os"),
  (0, .setKey (P "os" [.attr "environ"]) "ZK" (.str "v0")),
  (1, .obs (P "os" [.attr "environ", .key "ZK"]))]

/-- **C08-K01 witness.**  With the tree's registry (`os.environ` is ONE dict per process and
NewModule copies Globals one level deep) context 1 sees what context 0 stored: its interleaved trace
differs from its solo trace. -/
theorem isolation_witness :
    traceOf 1 (runSteps (stdWorld 2) leakSteps).2 = ["ok", "'v0'"] ∧
    soloTrace (stdWorld 2) 1 leakSteps = ["ok", "E:KeyError"] := by decide

/-- … and the heap walk of the model reports the shared dict -/
theorem walk_witness : walkResult (runSteps (stdWorld 2) leakSteps).1 2 = ("shared", "os.environ") := by decide

/-- the registry of the tree violates the premise of `isolation_partial` exactly there -/
theorem regImmutable_std_witness : ¬ RegImmutable baseWorld := by
  intro h
  have := h { name := "os", globals := [("environ", .ref (shr 4)), ("sep", .str "/")], methods := ["getcwd"] }
    (by simp [baseWorld, stdRegistry]) ("environ", .ref (shr 4)) (by simp)
  obtain ⟨_, o, ho, hf⟩ := this
  simp [baseWorld, baseHeap, shr] at ho
  subst ho
  cases hf

/-- **Type dictionaries (fixed, d528452).**  Before the fix the dictionary of a built-in type was
writable: in the same model with the `int` type object not frozen, `int.leak = 42` in context 0 is
observed by context 1.  (With the fix the type object is frozen: see `frozen_type_refuses`.) -/
def unfrozenInt : World :=
  { baseWorld with heap := fun r => if r = shr 0 then some { kind := .type, frozen := false, name := "int" } else baseHeap r }

def typeLeakSteps : List (Nat × Op) := [(0, .setAttr (P "int") "leak" (.int 42)), (1, .obs (P "int" [.attr "leak"]))]

def unfrozenWorld : World :=
  [(0, ["c8", "0"], ["/p0"]), (1, ["c8", "1"], ["/p1"])].foldl (fun w (x : Nat × List String × List String) => newContext w x.1 x.2.1 x.2.2) unfrozenInt

theorem writable_type_dict_witness :
    traceOf 1 (runSteps unfrozenWorld typeLeakSteps).2 = ["42"] ∧
    soloTrace unfrozenWorld 1 typeLeakSteps = ["E:AttributeError"] := by decide

theorem frozen_type_refuses :
    (runSteps (stdWorld 2) typeLeakSteps).2 = [(0, "E:TypeError"), (1, "E:AttributeError")] := by decide

/-! ### (d) the regenerated table of package-level variables written at run time -/

/-- package-level variables of py/, vm/, stdlib/, stdlib/*/ that are written outside their
declaration and outside `func init()`, with the reason each is no channel between contexts -/
def expectedWrites : List (String × String × String × String) := [
  ("py", "InputHook", "repl/cli:RunREPL", "assign"),       -- set by the interactive REPL front end only
  ("py", "delayedReady", "TypeDelayReady", "assign"),      -- appended by NewType*: package initialisation
  ("py", "delayedReady", "TypeMakeReady", "assign"),       -- called from py's init only
  ("py", "gRuntime", "GetModuleImpl", "call"),             -- RWMutex read lock
  ("py", "gRuntime", "RegisterModule", "call"),            -- registry write under the mutex (embedder, before use)
  ("stdlib", "implCodeMu", "implCode", "call"),            -- the mutex that serialises lazy compilation of impl.Code (fix 661fb43)
  ("stdlib/os", "osAltsep", "initGlobals", "assign"),      -- initGlobals is called from os's init only
  ("stdlib/os", "osDefpath", "initGlobals", "assign"),
  ("stdlib/os", "osDevnull", "initGlobals", "assign"),
  ("stdlib/os", "osLinesep", "initGlobals", "assign"),
  ("stdlib/os", "osName", "initGlobals", "assign"),
  ("stdlib/os", "osPathsep", "initGlobals", "assign"),
  ("stdlib/os", "osSep", "initGlobals", "assign"),
  ("vm", "PrintExpr", "repl:REPL.Run", "assign")           -- swapped by the interactive REPL only
]

/-- every run-time write to a package-level variable found in the sources is one of the expected
ones: a new global written at run time breaks this obligation -/
theorem no_unexpected_shared_writes :
    Generated.runtimeWrites.all (fun x => expectedWrites.contains x) = true := by decide

end GPy.C08
