/-
C08 specification (core Lean only).

The property is relational: *whatever the other contexts do, in whatever interleaving, a context
observes exactly what it observes when it runs alone*.  So the reference for a context `A` and an
interleaved run `steps` is the run of `A`'s own statements alone (`soloSteps`), and the premise under
which the code provides this is stated on the object graph:

  `Disjoint w`   no writable object is reachable from two different contexts           (what the Go
                 heap walk checks on the implementation after every scenario)
  `DisjointR w`  … and none is reachable from a context and from the Globals of a registered
                 implementation (the second kind of root of the Go heap walk)
  `Confined w`   the inductive form of it: a context's store and its own objects refer only to its
                 own objects and to frozen process-wide objects; frozen process-wide objects refer only
                 to such; every implementation a context can still instantiate has only globals that
                 NewModule turns into such (`okGlobal`: immutable values, or lists / dicts of immutable
                 values, which NewModule copies).
-/
import GPy.C08.Model
namespace GPy.C08

/-! ### reachability and disjointness -/

def Store.roots (s : Store) : List Ref :=
  s.modules.map (·.2) ++ (match s.builtins with | some b => [b] | Option.none => [])

/-- `r` is reachable from the module store of context `c` -/
inductive Reach (w : World) (c : Nat) : Ref → Prop where
  | root {s r} : w.stores c = some s → r ∈ s.roots → Reach w c r
  | step {r r' o} : Reach w c r → w.heap r = some o → Val.ref r' ∈ o.vals → Reach w c r'

/-- the object at `r` refuses every write -/
def frozenAt (w : World) (r : Ref) : Prop := ∃ o, w.heap r = some o ∧ o.frozen = true

/-- no writable object is reachable from two different contexts -/
def Disjoint (w : World) : Prop :=
  ∀ a b r, a ≠ b → Reach w a r → Reach w b r → frozenAt w r

/-- `r` is reachable from the Globals of a registered module implementation (the process-wide
registry: what is reachable from there is what every later instantiation starts from) -/
inductive RegReach (w : World) : Ref → Prop where
  | root {impl kv r} : impl ∈ w.registry → kv ∈ impl.globals → kv.2 = Val.ref r → RegReach w r
  | step {r r' o} : RegReach w r → w.heap r = some o → Val.ref r' ∈ o.vals → RegReach w r'

/-- `Disjoint`, and no writable object is reachable from a context AND from the registry: exactly
what the Go heap walk checks (roots: every context's store, every registered implementation's Globals) -/
def DisjointR (w : World) : Prop :=
  Disjoint w ∧ ∀ a r, Reach w a r → RegReach w r → frozenAt w r

/-! ### the inductive invariant -/

/-- a frozen process-wide object -/
def sharedFrozen (w : World) (r : Ref) : Prop := r.owner = .shared ∧ frozenAt w r

/-- a value a context may hold: a scalar, one of its own objects, or a frozen process-wide object -/
def okVal (w : World) (c : Nat) : Val → Prop
  | .ref r => r.owner = .ctx c ∨ sharedFrozen w r
  | _ => True

/-- a value a process-wide object / an implementation's Globals may hold -/
def okShared (w : World) : Val → Prop
  | .ref r => sharedFrozen w r
  | _ => True

/-- a value an implementation's Globals may hold: an immutable one, or – with the NewModule of the
tree (fix d8887ef), which copies these – a process-wide list / dict of immutable values.  (A list
inside a list, or a writable module / heap type / instance in Globals, is NOT ok: it would be shared.) -/
def okGlobal (w : World) : Val → Prop
  | .ref r => sharedFrozen w r ∨
      (w.shallowGlobals = false ∧ r.owner = .shared ∧
        ∃ o, w.heap r = some o ∧ o.kind.container = true ∧ o.frozen = false ∧ ∀ x ∈ o.vals, okShared w x)
  | _ => True

structure Confined (w : World) : Prop where
  /-- the store of a context holds its own module objects -/
  store : ∀ c s, w.stores c = some s → ∀ r ∈ s.roots, r.owner = .ctx c
  /-- an object of a context refers to its own objects and frozen process-wide objects only -/
  own : ∀ c i o, w.heap ⟨.ctx c, i⟩ = some o → ∀ v ∈ o.vals, okVal w c v
  /-- a FROZEN process-wide object refers to frozen process-wide objects only
      (a writable process-wide object is tolerated as long as nothing refers to it:
       the sys implementation's own `path` / `argv` lists, which NewContext replaces) -/
  shared : ∀ i o, w.heap ⟨.shared, i⟩ = some o → o.frozen = true → ∀ v ∈ o.vals, okShared w v
  /-- every implementation that a context has not instantiated yet has Globals that NewModule turns
      into values the context may hold (immutable, or a container it copies) -/
  impls : ∀ c s impl, w.stores c = some s → impl ∈ w.registry → s.modules.lookup impl.name = Option.none →
            ∀ kv ∈ impl.globals, okGlobal w kv.2

/-! ### the reference: a context running alone -/

def soloSteps (a : Nat) (steps : List (Nat × Op)) : List (Nat × Op) := steps.filter (fun s => s.1 = a)

/-- what context `a` observes when only its own statements run -/
def soloTrace (w : World) (a : Nat) (steps : List (Nat × Op)) : List String :=
  traceOf a (runSteps w (soloSteps a steps)).2

/-- the two worlds look the same from context `a`: same store, same allocation serial, same
registry, same contents of `a`'s own and of the process-wide cells -/
structure ViewEq (a : Nat) (w w' : World) : Prop where
  store : w.stores a = w'.stores a
  next : w.next a = w'.next a
  registry : w.registry = w'.registry
  version : w.shallowGlobals = w'.shallowGlobals
  own : ∀ i, w.heap ⟨.ctx a, i⟩ = w'.heap ⟨.ctx a, i⟩
  shared : ∀ i, w.heap ⟨.shared, i⟩ = w'.heap ⟨.shared, i⟩

/-! ### executable heap walk (what the harness does on the Go object graph) -/

def Obj.refs (o : Obj) : List Ref := o.vals.filterMap fun v => match v with | .ref r => some r | _ => Option.none

def reachFrom (w : World) : Nat → List Ref → List Ref → List Ref
  | 0, _, seen => seen
  | _ + 1, [], seen => seen
  | fuel + 1, r :: rest, seen =>
    if seen.contains r then reachFrom w fuel rest seen
    else
      let kids := match w.heap r with
        | some o => o.refs
        | Option.none => []
      reachFrom w fuel (kids ++ rest) (r :: seen)

def reachList (w : World) (c : Nat) : List Ref :=
  match w.stores c with
  | some s => reachFrom w 100000 s.roots []
  | Option.none => []

def isWritable (w : World) (r : Ref) : Bool :=
  match w.heap r with
  | some o => !o.frozen
  | Option.none => false

/-- what is reachable from the Globals of the registered implementations -/
def regReachList (w : World) : List Ref :=
  reachFrom w 100000 (w.registry.flatMap fun impl => impl.globals.filterMap fun kv =>
    match kv.2 with | .ref r => some r | _ => Option.none) []

/-- writable objects reachable from two of the roots: the contexts `0 .. n-1` and the registry (root `n`) -/
def sharedWritable (w : World) (n : Nat) : List Ref := Id.run do
  let reach := (List.range n).map (reachList w) ++ [regReachList w]
  let mut out : List Ref := []
  for i in List.range (n + 1) do
    for r in reach[i]! do
      if isWritable w r && !out.contains r then
        if (List.range (n + 1)).any (fun j => j != i && (reach[j]!).contains r) then out := r :: out
  return out

/-- `module.global` slots (over all contexts) that hold the object directly -/
def slotsOf (w : World) (n : Nat) (r : Ref) : List String := Id.run do
  let mut out : List String := []
  for c in List.range n do
    match w.stores c with
    | some s =>
      for (mn, mr) in s.modules do
        match w.heap mr with
        | some mo =>
          for (k, v) in mo.fields do
            if v == .ref r && !out.contains (mn ++ "." ++ k) then out := (mn ++ "." ++ k) :: out
        | Option.none => pure ()
    | Option.none => pure ()
  return out


def insertStr (x : String) : List String → List String
  | [] => [x]
  | y :: rest => if x < y then x :: y :: rest else if x = y then y :: rest else y :: insertStr x rest

def sortStrs (l : List String) : List String := l.foldr insertStr []

/-- canonical walk result: ("disjoint" | "shared", sorted slots that hold a shared writable object + number of nested ones) -/
def walkResult (w : World) (n : Nat) : String × String :=
  let sh := sharedWritable w n
  if sh.isEmpty then ("disjoint", "")
  else if sh.any (fun r => match w.heap r with | some o => o.kind == .module | Option.none => false) then ("shared", "module")
  else
    let slots := sh.map (slotsOf w n)
    let direct := sortStrs (slots.flatten)
    let nested := (slots.filter (·.isEmpty)).length
    ("shared", ",".intercalate direct ++ (if nested > 0 then s!"+nested:{nested}" else ""))

/-! ### finding C08-K01 (fixed by d8887ef; the predicates still delimit where the pre-fix code leaked) -/

def Path.mentions (p : Path) (root attr : String) : Bool :=
  p.root = root && p.sels.head? = some (.attr attr)

def Expr.mentions (e : Expr) (root attr : String) : Bool :=
  match e with
  | .get p => p.mentions root attr
  | _ => false

def Op.mentions (op : Op) (root attr : String) : Bool :=
  match op with
  | .imp _ => false
  | .obs p => p.mentions root attr
  | .setName _ e => e.mentions root attr
  | .setAttr p _ e => p.mentions root attr || e.mentions root attr
  | .setKey p _ e => p.mentions root attr || e.mentions root attr
  | .append p e => p.mentions root attr || e.mentions root attr
  | .delAttr p _ => p.mentions root attr

/-- C08-K01: the scenario reaches a MUTABLE value of a module implementation's Globals (in the
tree: `os.environ`, a dict built once per process): ModuleStore.NewModule copies Globals one level
deep only, so every context's `os` module refers to the same dict. -/
def mentionsEnviron (steps : List (Nat × Op)) : Bool :=
  steps.any fun s => s.2.mentions "os" "environ"

def importers (m : String) (steps : List (Nat × Op)) : List Nat :=
  (steps.filter fun s => s.2 == Op.imp m).map (·.1) |>.eraseDups

/-- the scenario makes the shared dict reachable from two contexts (two contexts import `os`) or
touches it by name -/
def kfSharedImplGlobal (steps : List (Nat × Op)) : Bool :=
  mentionsEnviron steps || (importers "os" steps).length ≥ 2

end GPy.C08
