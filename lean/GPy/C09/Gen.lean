/-
C09 schedule generator.  A case is `<kinds> <schedule>`: one letter per thread
(R RunCode, M ModuleInit, V ResolveAndCompile, C Close, D wait on Done, I RunCode of
code that imports) and a schedule of tokens `t` (thread t performs the shared-state
access it is parked at and runs on to its next yield point) and `bt` (blocking probe:
the model says thread t is blocked; the harness releases it and checks that it does
not get through).  Enumeration is over the regenerated program `Generated.src`.
-/
import GPy.C09.Generated
import GPy.C09.Spec
namespace GPy.C09

def Instr.silent : Instr → Bool
  | .ret .. | .brErr _ | .jmpBack _ | .body | .work => true
  | _ => false

/-- yield-point suffix announcing an instruction (must agree with extract/lifecycle) -/
def Instr.yieldName : Instr → String
  | .lock => "lock" | .unlock => "unlock" | .brClosed _ => "load-closed" | .incRunning => "inc-running"
  | .decRunning => "dec-running" | .brZero _ => "load-running" | .brPos _ => "load-running"
  | .broadcast => "broadcast" | .condWait => "wait" | .storeClosing => "store-closing"
  | .storeClosed => "store-closed" | .callbacks => "callbacks" | .closeDone => "close-done"
  | .onceDo _ => "once-enter" | .onceEnd => "once-exit" | .waitDone => "wait-done"
  | .wgAdd => "wg-add" | .wgDone => "wg-done" | .wgWait => "wg-wait"
  | _ => "?"

def runSilent (P : Kind → List Instr) (t : Nat) : Nat → State → State
  | 0, s => s
  | fuel + 1, s =>
    match s.ths[t]? with
    | none => s
    | some th =>
      match th.next P with
      | some i => if i.silent && !th.panicked then
                    match step P s t with
                    | some s' => runSilent P t fuel s'
                    | none => s
                  else s
      | none => s

/-- one scheduling step: the visible action thread `t` is parked at, then its thread-local
instructions up to the next yield point -/
def macroStep (P : Kind → List Instr) (s : State) (t : Nat) : Option State :=
  match step P s t with
  | none => none
  | some s' => some (runSilent P t 64 s')

structure Tok where
  probe : Bool
  t : Nat
deriving Repr, Inhabited

def Tok.text (k : Tok) : String := (if k.probe then "b" else "") ++ toString k.t

structure Sim where
  s : State
  loose : List Nat := []      -- threads released into a blocking primitive by a probe
  obs : List Obs := []        -- reversed
  ys : List String := []      -- reversed: which yield point each token consumed
  toks : List Tok := []       -- reversed
  slept : Bool := false
  probes : Nat := 0

def Kind.letter : Kind → String
  | .runCode => "R" | .moduleInit => "M" | .resolve => "V" | .close => "C" | .waitDone => "D" | .runImport => "I"

def P : Kind → List Instr := Generated.src.prog

def unfinished (s : State) : List Nat :=
  (List.range s.ths.length).filter fun t => match s.ths[t]? with
    | some th => !th.finished P && !th.panicked | none => false

def enabled (s : State) (t : Nat) : Bool := (step P s t).isSome

def nextIs (s : State) (t : Nat) (p : Instr → Bool) : Bool :=
  match s.ths[t]? with
  | some th => match th.next P with | some i => p i | none => false
  | none => false

def sleeping (s : State) (t : Nat) : Bool :=
  match s.ths[t]? with | some th => th.sleep.isSome | none => false

/-- threads the harness cannot hold back: sleepers that were woken and probe-released lockers,
once the mutex is free -/
def urgent (m : Sim) : List Nat :=
  (unfinished m.s).filter fun t => enabled m.s t &&
    (sleeping m.s t || (m.loose.contains t && nextIs m.s t (· == .lock)))

def Sim.doStep (m : Sim) (t : Nat) : Option Sim :=
  match macroStep P m.s t with
  | none => none
  | some s' =>
    let y := match m.s.ths[t]? with
      | some th => (match th.next P with
          | some i => if th.sleep.isSome then "wake" else i.yieldName
          | none => "?")
      | none => "?"
    some { m with s := s', loose := m.loose.erase t, obs := observe P s' :: m.obs, ys := s!"{t}:{y}" :: m.ys,
                  toks := ⟨false, t⟩ :: m.toks, slept := m.slept || sleeping s' t }

/-- a blocking probe is possible on a parked, blocked thread; lock probes only while nobody sleeps
or is already released into Lock (two goroutines racing for the freed mutex cannot be ordered) -/
def canProbe (m : Sim) (t : Nat) : Bool :=
  !enabled m.s t && !m.loose.contains t && !sleeping m.s t &&
  (if nextIs m.s t (· == .lock) then
     (unfinished m.s).all (fun u => !sleeping m.s u && !(m.loose.contains u && nextIs m.s u (· == .lock)))
   else true)

def Sim.doProbe (m : Sim) (t : Nat) : Sim :=
  { m with loose := t :: m.loose, obs := observe P m.s :: m.obs, ys := s!"{t}:blocked" :: m.ys,
           toks := ⟨true, t⟩ :: m.toks, probes := m.probes + 1 }

def Sim.stepChoices (m : Sim) : List Nat :=
  match urgent m with
  | [] => (unfinished m.s).filter (enabled m.s)
  | u => u

def overlap (obs : List Obs) (kinds : List Kind) : Bool :=
  -- some observation in which a Close thread and an execution thread are both running
  obs.any fun o =>
    let ks := kinds.zip o.ths
    ks.any (fun (k, t) => k == .close && t.st == .running) && ks.any (fun (k, t) => k.isExec && t.st == .running)

def Sim.toCase (kinds : List Kind) (m : Sim) (complete : Bool) : Case :=
  let obs := m.obs.reverse
  let v := monitor kinds obs
  let final := obs.getLast?.getD default
  let rejected := (kinds.zip final.ths).any fun (k, t) => k.isExec && t.st == .err
  let tags := (if overlap obs kinds || rejected || m.slept || m.probes > 0 then ["nt"] else [])
    ++ (if m.slept then ["closeWaited"] else []) ++ (if rejected then ["rejected"] else [])
    ++ (if m.probes > 0 then ["probe"] else []) ++ (if overlap obs kinds then ["overlap"] else [])
    ++ (if complete then ["complete"] else ["prefix"])
    ++ (if kinds.any (fun k => k == .moduleInit || k == .runImport) then ["nested"] else [])
  { input := String.join (kinds.map Kind.letter) ++ " " ++ String.join (m.toks.reverse.map Tok.text),
    modelV := v,
    modelR := "|".intercalate (obs.map Obs.text) ++ ";" ++ " ".intercalate m.ys.reverse,
    specV := "OK", tags := tags }

/-- all schedules (depth first) up to `depth` tokens; `emit` receives complete schedules and
the prefixes cut at the bound -/
partial def dfs (kinds : List Kind) (emit : Case → IO Unit) (m : Sim) (depth : Nat) : IO Unit := do
  let ch := m.stepChoices
  if ch.isEmpty then
    emit (m.toCase kinds ((unfinished m.s).isEmpty))
  else if depth == 0 then
    emit (m.toCase kinds false)
  else
    for t in ch do
      match m.doStep t with
      | some m' => dfs kinds emit m' (depth - 1)
      | none => pure ()

/-- one seeded random schedule with blocking probes -/
partial def walk (kinds : List Kind) (m : Sim) (r : Rng) (maxLen : Nat) (probePct : Nat) : Sim × Rng := Id.run do
  let mut m := m
  let mut r := r
  for _ in [0:maxLen] do
    let ch := m.stepChoices
    if ch.isEmpty then break
    -- maybe a probe first
    let blocked := (unfinished m.s).filter (canProbe m)
    let (r1, x) := r.nat 100
    r := r1
    if x < probePct && !blocked.isEmpty && (urgent m).isEmpty then
      let (r2, i) := r.nat blocked.length
      r := r2
      m := m.doProbe blocked[i]!
    let (r3, i) := r.nat ch.length
    r := r3
    match m.doStep ch[i]! with
    | some m' => m := m'
    | none => break
  return (m, r)

def Sim.start (kinds : List Kind) : Sim := { s := State.init kinds }

def multisets : Nat → List Kind → List (List Kind)
  | 0, _ => [[]]
  | _, [] => []
  | n + 1, k :: ks => (multisets n (k :: ks)).map (k :: ·) ++ multisets (n + 1) ks

def genMain (tier : String) (seed : Nat) : IO Unit := do
  let acc ← IO.mkRef (#[] : Array String)
  let emit (c : Case) : IO Unit := acc.modify (·.push c.line)
  let thorough := tier == "thorough"
  -- 1 thread and all pairs of thread kinds: every interleaving, complete
  for k in Kind.all do dfs [k] emit (Sim.start [k]) 1000
  for ks in multisets 2 Kind.all do dfs ks emit (Sim.start ks) 1000
  -- three threads: every complete interleaving (quick: kind triples that contain a Close and no importing
  -- RunCode; thorough: also triples without Close, and triples with Close and one importing RunCode)
  for ks in multisets 3 Kind.all do
    let nI := (ks.filter (· == .runImport)).length
    let hasC := ks.any (· == .close)
    if (hasC && nI == 0) || (thorough && (nI == 0 || (hasC && nI == 1))) then dfs ks emit (Sim.start ks) 1000
  -- seeded random complete schedules of 3 and 4 threads with blocking probes
  let mut r : Rng := ⟨(seed * 7919 + 13).toUInt64⟩
  let n3 := if thorough then 40000 else 5000
  let n4 := if thorough then 25000 else 2000
  for (n, width) in [(n3, 3), (n4, 4)] do
    for _ in [0:n] do
      let mut ks : List Kind := []
      for _ in [0:width] do
        let (r1, i) := r.nat 8
        r := r1
        -- Close twice as likely
        ks := ([Kind.runCode, .moduleInit, .resolve, .close, .waitDone, .runImport, .close, .runCode][i]!) :: ks
      let (r2, pp) := r.nat 3
      r := r2
      let (m, r3) := walk ks (Sim.start ks) r 400 (pp * 8)
      r := r3
      emit (m.toCase ks ((unfinished m.s).isEmpty))
  -- print in a strided order so that contiguous shards of the case file carry the same mix of cheap
  -- exhaustive cases and expensive probing cases
  let lines ← acc.get
  let stride := 64
  for j in [0:stride] do
    let mut i := j
    while i < lines.size do
      IO.println lines[i]!
      i := i + stride

end GPy.C09
