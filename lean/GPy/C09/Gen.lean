/-
C09 schedule generator.  A case is `<kinds> <schedule>`: one letter per thread
(R RunCode, M ModuleInit, V ResolveAndCompile, C Close, D wait on Done, I RunCode of
code that imports) and a schedule of tokens `t` (thread t performs the shared-state
access it is parked at and runs on to its next yield point) and `bt` (blocking probe:
the model says thread t is blocked; the harness releases it and checks that it does
not get through).  Enumeration is over the regenerated program `Generated.src`.
-/
import GPy.C09.Generated
import GPy.C09.Spec
namespace GPy.C09

/-- yield-point suffix announcing an instruction (must agree with extract/lifecycle) -/
def Instr.yieldName : Instr → String
  | .lock => "lock" | .unlock => "unlock" | .brClosed _ => "load-closed" | .incRunning => "inc-running"
  | .decRunning => "dec-running" | .brZero _ => "load-running" | .brPos _ => "load-running"
  | .broadcast => "broadcast" | .condWait => "wait" | .storeClosing => "store-closing"
  | .storeClosed => "store-closed" | .callbacks => "callbacks" | .closeDone => "close-done"
  | .onceDo _ => "once-enter" | .onceEnd => "once-exit" | .waitDone => "wait-done"
  | .wgAdd => "wg-add" | .wgDone => "wg-done" | .wgWait => "wg-wait"
  | _ => "?"

structure Tok where
  probe : Bool
  t : Nat
deriving Repr, Inhabited

def Tok.text (k : Tok) : String := (if k.probe then "b" else "") ++ toString k.t

structure Sim where
  s : State
  loose : List Nat := []      -- threads released into a blocking primitive by a probe
  queue : List Nat := []      -- threads that are inside mu.Lock() in reality, in arrival order (sync.Mutex wakes waiters FIFO):
                              -- probe-released lockers (from the probe on) and Cond sleepers (from the Broadcast that woke them on)
  obs : List Obs := []        -- reversed
  ys : List String := []      -- reversed: which yield point each token consumed
  toks : List Tok := []       -- reversed
  slept : Bool := false
  probes : Nat := 0
  jumps : Nat := 0            -- steps in which a probe-released locker took the mutex while a woken Cond sleeper was waiting for it

def Kind.letter : Kind → String
  | .runCode => "R" | .moduleInit => "M" | .resolve => "V" | .close => "C" | .waitDone => "D" | .runImport => "I"

def P : Kind → List Instr := Generated.src.prog

def unfinished (s : State) : List Nat :=
  (List.range s.ths.length).filter fun t => match s.ths[t]? with
    | some th => !th.finished P && !th.panicked | none => false

def enabled (s : State) (t : Nat) : Bool := (step P s t).isSome

def nextIs (s : State) (t : Nat) (p : Instr → Bool) : Bool :=
  match s.ths[t]? with
  | some th => match th.next P with | some i => p i | none => false
  | none => false

def sleeping (s : State) (t : Nat) : Bool :=
  match s.ths[t]? with | some th => th.sleep.isSome | none => false

/-- sleepers a Broadcast has woken: they are inside `mu.Lock()` (the second half of `Cond.Wait`) -/
def woken (s : State) : List Nat :=
  (List.range s.ths.length).filter fun t => match s.ths[t]? with
    | some th => (match th.sleep with | some g => decide (s.sh.gen > g) | none => false)
    | none => false

/-- the thread the harness cannot hold back: once the mutex is free the FIRST goroutine waiting inside
`mu.Lock()` gets it (a woken Cond sleeper or a probe-released locker; sync.Mutex hands over in arrival
order when nobody else is competing, and every other goroutine is parked at a yield point) -/
def urgent (m : Sim) : List Nat :=
  match m.queue with
  | h :: _ => if enabled m.s h then [h] else []
  | [] => []

def Sim.doStep (m : Sim) (t : Nat) : Option Sim :=
  match macroStep P m.s t with
  | none => none
  | some s' =>
    let y := match m.s.ths[t]? with
      | some th => (match th.next P with
          | some i => if th.sleep.isSome then "wake" else i.yieldName
          | none => "?")
      | none => "?"
    let q := m.queue.erase t
    some { m with s := s', loose := m.loose.erase t, queue := q ++ (woken s').filter (fun u => !q.contains u),
                  obs := observe P s' :: m.obs, ys := s!"{t}:{y}" :: m.ys,
                  toks := ⟨false, t⟩ :: m.toks, slept := m.slept || sleeping s' t,
                  jumps := m.jumps + (if nextIs m.s t (· == .lock) && q.any (sleeping m.s) then 1 else 0) }

/-- a blocking probe is possible on a parked, blocked thread while the mutex is not up for grabs.  A lock probe
puts the goroutine into the mutex's wait queue behind those already there (the harness confirms each arrival
through the goroutine's wait state before it goes on, so the queue order is the order of the tokens) -/
def canProbe (m : Sim) (t : Nat) : Bool :=
  !enabled m.s t && !m.loose.contains t && !sleeping m.s t && (urgent m).isEmpty

def Sim.doProbe (m : Sim) (t : Nat) : Sim :=
  { m with loose := t :: m.loose, queue := if nextIs m.s t (· == .lock) then m.queue ++ [t] else m.queue,
           obs := observe P m.s :: m.obs, ys := s!"{t}:blocked" :: m.ys,
           toks := ⟨true, t⟩ :: m.toks, probes := m.probes + 1 }

/-- QUEUE-JUMP probes (the order "another locker gets the mutex between the Broadcast and the woken waiter's
re-acquisition inside Cond.Wait"): the mutex holder is about to Broadcast, a Cond sleeper is still asleep, and
thread `t` is parked in front of `mu.Lock()`.  Releasing `t` into Lock NOW queues it AHEAD of the sleeper, so
after the holder's Unlock `t` gets the mutex first.  (Probing earlier in the holder's critical section gives
the same order; this is the canonical place.) -/
def queueJumpCands (m : Sim) : List Nat :=
  match m.s.sh.mu with
  | none => []
  | some h =>
    if nextIs m.s h (· == .broadcast) && (unfinished m.s).any (fun u => sleeping m.s u && !m.queue.contains u) then
      (unfinished m.s).filter fun t => t != h && canProbe m t && nextIs m.s t (· == .lock)
    else []

def Sim.stepChoices (m : Sim) : List Nat :=
  match urgent m with
  | [] => (unfinished m.s).filter (enabled m.s)
  | u => u

def overlap (obs : List Obs) (kinds : List Kind) : Bool :=
  -- some observation in which a Close thread and an execution thread are both running
  obs.any fun o =>
    let ks := kinds.zip o.ths
    ks.any (fun (k, t) => k == .close && t.st == .running) && ks.any (fun (k, t) => k.isExec && t.st == .running)

def Sim.toCase (kinds : List Kind) (m : Sim) (complete : Bool) : Case :=
  let obs := m.obs.reverse
  let v := monitor kinds obs
  let final := obs.getLast?.getD default
  let rejected := (kinds.zip final.ths).any fun (k, t) => k.isExec && t.st == .err
  let tags := (if overlap obs kinds || rejected || m.slept || m.probes > 0 then ["nt"] else [])
    ++ (if m.slept then ["closeWaited"] else []) ++ (if rejected then ["rejected"] else [])
    ++ (if m.probes > 0 then ["probe"] else []) ++ (if m.jumps > 0 then ["queuejump"] else []) ++ (if overlap obs kinds then ["overlap"] else [])
    ++ (if complete then ["complete"] else ["prefix"])
    ++ (if kinds.any (fun k => k == .moduleInit || k == .runImport) then ["nested"] else [])
  { input := String.join (kinds.map Kind.letter) ++ " " ++ String.join (m.toks.reverse.map Tok.text),
    modelV := v,
    modelR := "|".intercalate (obs.map Obs.text) ++ ";" ++ " ".intercalate m.ys.reverse,
    specV := "OK", tags := tags }

/-- all schedules (depth first) up to `depth` tokens; `emit` receives complete schedules and
the prefixes cut at the bound.  `budget` caps the number of cases per kind set (the correct tree stays far
below it – largest set ≈ 51 000; a mutated program whose interleavings explode is cut off there: the bounded
`search` and the cases emitted so far still find its violations) -/
partial def dfsB (kinds : List Kind) (emit : Case → IO Unit) (budget : IO.Ref Nat) (m : Sim) (depth : Nat) : IO Unit := do
  if (← budget.get) == 0 then return
  let ch := m.stepChoices
  if ch.isEmpty then
    budget.modify (· - 1)
    emit (m.toCase kinds ((unfinished m.s).isEmpty))
  else if depth == 0 then
    budget.modify (· - 1)
    emit (m.toCase kinds false)
  else
    for t in ch do
      match m.doStep t with
      | some m' => dfsB kinds emit budget m' (depth - 1)
      | none => pure ()
    for c in queueJumpCands m do
      dfsB kinds emit budget (m.doProbe c) (depth - 1)

def dfsCap : Nat := 80000

def dfs (kinds : List Kind) (emit : Case → IO Unit) (m : Sim) (depth : Nat) : IO Unit := do
  let b ← IO.mkRef dfsCap
  dfsB kinds emit b m depth

/-- one seeded random schedule with blocking probes -/
partial def walk (kinds : List Kind) (m : Sim) (r : Rng) (maxLen : Nat) (probePct : Nat) : Sim × Rng := Id.run do
  let mut m := m
  let mut r := r
  for _ in [0:maxLen] do
    let ch := m.stepChoices
    if ch.isEmpty then break
    -- maybe a probe first
    let blocked := (unfinished m.s).filter (canProbe m)
    let (r1, x) := r.nat 100
    r := r1
    let qj := queueJumpCands m
    let (r0, xq) := r.nat 100
    r := r0
    if xq < 50 && !qj.isEmpty then
      let (r2, i) := r.nat qj.length
      r := r2
      m := m.doProbe qj[i]!
    else if x < probePct && !blocked.isEmpty && (urgent m).isEmpty then
      let (r2, i) := r.nat blocked.length
      r := r2
      m := m.doProbe blocked[i]!
    let (r3, i) := r.nat ch.length
    r := r3
    match m.doStep ch[i]! with
    | some m' => m := m'
    | none => break
  return (m, r)

def Sim.start (kinds : List Kind) : Sim := { s := State.init kinds }

def multisets : Nat → List Kind → List (List Kind)
  | 0, _ => [[]]
  | _, [] => []
  | n + 1, k :: ks => (multisets n (k :: ks)).map (k :: ·) ++ multisets (n + 1) ks

def genCases (tier : String) (seed : Nat) (first : (Case → IO Unit) → IO Unit) : IO Unit := do
  let acc ← IO.mkRef (#[] : Array String)
  let emit (c : Case) : IO Unit := acc.modify (·.push c.line)
  -- the bounded search over the regenerated program comes first (see Search.lean)
  first (fun c => IO.println c.line)
  let thorough := tier == "thorough"
  -- 1 thread and all pairs of thread kinds: every interleaving, complete
  for k in Kind.all do dfs [k] emit (Sim.start [k]) 1000
  for ks in multisets 2 Kind.all do dfs ks emit (Sim.start ks) 1000
  -- three threads: every complete interleaving (quick: kind triples that contain a Close and no importing
  -- RunCode; thorough: also triples without Close, and triples with Close and one importing RunCode)
  for ks in multisets 3 Kind.all do
    let nI := (ks.filter (· == .runImport)).length
    let hasC := ks.any (· == .close)
    -- quick also: RunCode + Close + importing RunCode (Close arriving anywhere inside RunCode ⊃ ModuleInit ⊃ RunCode)
    if (hasC && nI == 0) || ks == [.runCode, .close, .runImport] || (thorough && (nI == 0 || (hasC && nI == 1))) then
      dfs ks emit (Sim.start ks) 1000
  -- seeded random complete schedules of 3 and 4 threads with blocking probes
  let mut r : Rng := ⟨(seed * 7919 + 13).toUInt64⟩
  let n3 := if thorough then 40000 else 5000
  let n4 := if thorough then 25000 else 2000
  for (n, width) in [(n3, 3), (n4, 4)] do
    for _ in [0:n] do
      let mut ks : List Kind := []
      for _ in [0:width] do
        let (r1, i) := r.nat 8
        r := r1
        -- Close twice as likely
        ks := ([Kind.runCode, .moduleInit, .resolve, .close, .waitDone, .runImport, .close, .runCode][i]!) :: ks
      let (r2, pp) := r.nat 3
      r := r2
      let (m, r3) := walk ks (Sim.start ks) r 400 (pp * 8)
      r := r3
      emit (m.toCase ks ((unfinished m.s).isEmpty))
  -- targeted: a Close, a nested execution (ModuleInit or importing RunCode) and one or two more executions
  let nT := if thorough then 12000 else 1500
  for j in [0:nT] do
    let (r1, a) := r.nat 2
    let (r2, b) := r1.nat 4
    let (r3, c) := r2.nat 5
    let (r4, pos) := r3.nat 3
    r := r4
    let nested := [Kind.runImport, .moduleInit][a]!
    let other := [Kind.runCode, .moduleInit, .resolve, .runImport][b]!
    let base := if pos == 0 then [Kind.close, nested, other] else if pos == 1 then [nested, .close, other] else [nested, other, .close]
    let ks := if j % 3 == 0 then base ++ [[Kind.runCode, .resolve, .close, .waitDone, .moduleInit][c]!] else base
    let (m, r5) := walk ks (Sim.start ks) r 600 (if j % 2 == 0 then 8 else 0)
    r := r5
    emit (m.toCase ks ((unfinished m.s).isEmpty))
  -- print in a strided order so that contiguous shards of the case file carry the same mix of cheap
  -- exhaustive cases and expensive probing cases
  let lines ← acc.get
  let stride := 64
  for j in [0:stride] do
    let mut i := j
    while i < lines.size do
      IO.println lines[i]!
      i := i + stride

end GPy.C09
